/-
  Helper definitions and lemmas for C07/C08 (grammar binarization).  Core only.
-/
import TT.Spec.Grammar
import Std.Data.String.ToNat
namespace TT.Lemmas.GramBin
open TT TT.Spec

/-- balance of a symbol: LHS mass minus count-weighted RHS occurrences -/
def net (g : Grammar) (x : Str) : Int := (lhsMass g x : Int) - (rhsMass g x : Int)

/-! ### how `Grammar.add` changes the masses -/

/-- summed count of one vertical-context table -/
def vsum (vs : AList VertKey Nat) : Nat := (vs.map (·.2)).sum
/-- summed count of all linearizations of one function -/
def lsum (ls : AList Lin (AList VertKey Nat)) : Nat := (ls.map fun p => vsum p.2).sum
/-- weighted mass of a grammar -/
def wmass (w : Func → Nat) (g : Grammar) : Nat := (g.map fun p => w p.1 * lsum p.2).sum

theorem vsum_upsert (v : VertKey) (n : Nat) (vs : AList VertKey Nat) :
    vsum (AList.upsert v (fun o => o.getD 0 + n) vs) = vsum vs + n := by
  induction vs with
  | nil => simp [AList.upsert, vsum]
  | cons a r ih =>
    obtain ⟨k, c⟩ := a
    simp only [AList.upsert]
    split
    · simp [vsum]; omega
    · simp only [vsum, List.map_cons, List.sum_cons] at ih ⊢; omega

theorem lsum_upsert (l : Lin) (v : VertKey) (n : Nat) (ls : AList Lin (AList VertKey Nat)) :
    lsum (AList.upsert l (fun o2 => AList.upsert v (fun o3 => o3.getD 0 + n) (o2.getD [])) ls) = lsum ls + n := by
  induction ls with
  | nil => simp [AList.upsert, lsum, vsum]
  | cons a r ih =>
    obtain ⟨k, c⟩ := a
    simp only [AList.upsert]
    split
    · simp only [lsum, List.map_cons, List.sum_cons, Option.getD_some, vsum_upsert]; omega
    · simp only [lsum, List.map_cons, List.sum_cons] at ih ⊢; omega

theorem wmass_add (w : Func → Nat) (g : Grammar) (f : Func) (l : Lin) (v : VertKey) (n : Nat) :
    wmass w (g.add f l v n) = wmass w g + w f * n := by
  unfold Grammar.add
  induction g with
  | nil => simp [AList.upsert, wmass, lsum, vsum]
  | cons a r ih =>
    obtain ⟨k, c⟩ := a
    simp only [AList.upsert]
    split
    · rename_i h; subst h
      simp only [wmass, List.map_cons, List.sum_cons, Option.getD_some, lsum_upsert, Nat.mul_add]; omega
    · simp only [wmass, List.map_cons, List.sum_cons] at ih ⊢; omega

theorem rules_cons (f : Func) (ls : AList Lin (AList VertKey Nat)) (g : Grammar) :
    Grammar.rules ((f, ls) :: g) = (ls.map fun p => (f, p.1, vsum p.2)) ++ Grammar.rules g := by
  simp [Grammar.rules, vsum]

theorem lhsMass_eq_wmass (g : Grammar) (x : Str) :
    lhsMass g x = wmass (fun f => if f.head? = some x then 1 else 0) g := by
  unfold lhsMass
  induction g with
  | nil => simp [Grammar.rules, wmass]
  | cons a r ih =>
    obtain ⟨f, ls⟩ := a
    rw [rules_cons, List.filter_append, List.map_append, List.sum_append, ih]
    simp only [wmass, List.map_cons, List.sum_cons]
    congr 1
    by_cases h : f.head? = some x
    · have e : ∀ l : List (Lin × AList VertKey Nat), l.filter (fun _ => true) = l := by
        intro l; induction l <;> simp_all
      simp [h, lsum, List.filter_map, Function.comp_def, e]
    · have : (f.head? == some x) = false := by simpa using h
      have e : ∀ l : List (Lin × AList VertKey Nat), l.filter (fun _ => false) = [] := by
        intro l; induction l <;> simp_all
      simp [h, List.filter_map, Function.comp_def, this, e]

theorem rhsMass_eq_wmass (g : Grammar) (x : Str) :
    rhsMass g x = wmass (fun f => (f.drop 1).count x) g := by
  unfold rhsMass
  induction g with
  | nil => simp [Grammar.rules, wmass]
  | cons a r ih =>
    obtain ⟨f, ls⟩ := a
    rw [rules_cons, List.map_append, List.sum_append, ih]
    simp only [wmass, List.map_cons, List.sum_cons]
    congr 1
    simp only [List.map_map, Function.comp_def, lsum]
    generalize List.count x (List.drop 1 f) = k
    induction ls with
    | nil => simp
    | cons b bs ih2 => simp only [List.map_cons, List.sum_cons, ih2, Nat.mul_add]; rw [Nat.mul_comm]

theorem lhsMass_add (g : Grammar) (f : Func) (l : Lin) (v : VertKey) (n : Nat) (x : Str) :
    lhsMass (g.add f l v n) x = lhsMass g x + (if f.head? = some x then n else 0) := by
  rw [lhsMass_eq_wmass, lhsMass_eq_wmass, wmass_add]
  split <;> simp

theorem rhsMass_add (g : Grammar) (f : Func) (l : Lin) (v : VertKey) (n : Nat) (x : Str) :
    rhsMass (g.add f l v n) x = rhsMass g x + n * (f.drop 1).count x := by
  rw [rhsMass_eq_wmass, rhsMass_eq_wmass, wmass_add, Nat.mul_comm]

theorem net_add (g : Grammar) (f : Func) (l : Lin) (v : VertKey) (n : Nat) (x : Str) :
    net (g.add f l v n) x =
      net g x + (if f.head? = some x then (n : Int) else 0) - (n : Int) * ((f.drop 1).count x : Int) := by
  unfold net
  rw [lhsMass_add, rhsMass_add]
  split <;> simp <;> omega

/-! ### keys of `Grammar.add` -/

theorem upsert_keys {κ ν} [DecidableEq κ] (P : κ → Prop) (k : κ) (F : Option ν → ν) (g : AList κ ν)
    (hg : ∀ e ∈ g, P e.1) (hk : P k) : ∀ e ∈ AList.upsert k F g, P e.1 := by
  induction g with
  | nil => simpa [AList.upsert] using hk
  | cons a r ih =>
    obtain ⟨a, v⟩ := a
    simp only [AList.upsert]
    split
    · intro e he
      simp only [List.mem_cons] at he
      rcases he with rfl | he
      · exact hg (a, v) (by simp)
      · exact hg e (by simp [he])
    · intro e he
      simp only [List.mem_cons] at he
      rcases he with rfl | he
      · exact hg (a, v) (by simp)
      · exact ih (fun e he => hg e (by simp [he])) e he

theorem add_keys (P : Func → Prop) (g : Grammar) (f : Func) (l : Lin) (v : VertKey) (n : Nat)
    (hg : ∀ e ∈ g, P e.1) (hk : P f) : ∀ e ∈ g.add f l v n, P e.1 :=
  upsert_keys P f _ g hg hk

/-! ### labels -/

theorem nextLabel_head (mo : Option MarkovOpts) (st : GenState) (func : Func) (pos : Nat) (vert : List Str)
    (fo : List Nat) : (nextLabel mo st func pos vert fo).1.head? = some '@' := by
  cases mo with
  | none => simp [nextLabel, uniqueLabel, Gen.G_DEFAULT_BINLABEL]
  | some o => simp [nextLabel, markovLabel, Gen.G_DEFAULT_BINLABEL]

theorem natToStr_injective {a b : Nat} (h : natToStr a = natToStr b) : a = b := by
  unfold natToStr at h
  have h2 : toString a = toString b := String.ext h
  exact Nat.repr_injective h2

/-! ### `binMid` -/

theorem binMid_zero (mo : Option MarkovOpts) (func : Func) (vert : List Str) (fanout : List Nat) (cnt : Nat)
    (i : Nat) (bl : Str) (tl : Lin) (st : GenState) (res : Grammar) :
    binMid mo func vert fanout cnt i 0 bl tl st res = (bl, tl, st, res) := rfl

theorem binMid_succ (mo : Option MarkovOpts) (func : Func) (vert : List Str) (fanout : List Nat) (cnt : Nat)
    (i k : Nat) (bl : Str) (tl : Lin) (st : GenState) (res : Grammar) :
    binMid mo func vert fanout cnt i (k + 1) bl tl st res =
      binMid mo func vert fanout cnt (i + 1) k (nextLabel mo st func i vert fanout).1 (restLin tl)
        (nextLabel mo st func i vert fanout).2
        (res.add [bl, func[i + 1]?.getD [], (nextLabel mo st func i vert fanout).1] (topLin (restLin tl))
          .default cnt) := rfl

theorem binMid_rank (mo : Option MarkovOpts) (func : Func) (vert : List Str) (fanout : List Nat) (cnt : Nat)
    (steps : Nat) : ∀ (i : Nat) (bl : Str) (tl : Lin) (st : GenState) (res : Grammar),
    (∀ e ∈ res, e.1.length ≤ 3) →
    ∀ e ∈ (binMid mo func vert fanout cnt i steps bl tl st res).2.2.2, e.1.length ≤ 3 := by
  induction steps with
  | zero => intro i bl tl st res h; simpa [binMid] using h
  | succ k ih =>
    intro i bl tl st res h
    simp only [binMid]
    exact ih _ _ _ _ _ (add_keys (fun f => f.length ≤ 3) _ _ _ _ _ h (by simp))

theorem binMid_label (mo : Option MarkovOpts) (func : Func) (vert : List Str) (fanout : List Nat) (cnt : Nat)
    (steps : Nat) : ∀ (i : Nat) (bl : Str) (tl : Lin) (st : GenState) (res : Grammar),
    bl.head? = some '@' →
    (binMid mo func vert fanout cnt i steps bl tl st res).1.head? = some '@' := by
  induction steps with
  | zero => intro i bl tl st res h; simpa [binMid] using h
  | succ k ih =>
    intro i bl tl st res h
    simp only [binMid]
    exact ih _ _ _ _ _ (nextLabel_head ..)

theorem binMid_lhsMass (mo : Option MarkovOpts) (func : Func) (vert : List Str) (fanout : List Nat) (cnt : Nat)
    (x : Str) (hx : x.head? ≠ some '@')
    (steps : Nat) : ∀ (i : Nat) (bl : Str) (tl : Lin) (st : GenState) (res : Grammar),
    bl.head? = some '@' →
    lhsMass (binMid mo func vert fanout cnt i steps bl tl st res).2.2.2 x = lhsMass res x := by
  induction steps with
  | zero => intro i bl tl st res h; simp [binMid]
  | succ k ih =>
    intro i bl tl st res h
    simp only [binMid]
    rw [ih _ _ _ _ _ (nextLabel_head ..), lhsMass_add]
    have : bl ≠ x := by rintro rfl; exact hx h
    simp [this]

/-- the RHS symbols consumed by `steps` iterations starting at position `i` -/
def midSyms (func : Func) (i steps : Nat) : List Str := (List.range steps).map fun k => func[i + 1 + k]?.getD []

theorem midSyms_succ (func : Func) (i k : Nat) :
    midSyms func i (k + 1) = (func[i + 1]?.getD []) :: midSyms func (i + 1) k := by
  simp only [midSyms, List.range_succ_eq_map, List.map_cons, List.map_map, Nat.add_zero]
  congr 1
  apply List.map_congr_left
  intro a _
  simp only [Function.comp]
  congr 2
  omega

theorem binMid_net (mo : Option MarkovOpts) (func : Func) (vert : List Str) (fanout : List Nat) (cnt : Nat)
    (x : Str)
    (steps : Nat) : ∀ (i : Nat) (bl : Str) (tl : Lin) (st : GenState) (res : Grammar),
    net (binMid mo func vert fanout cnt i steps bl tl st res).2.2.2 x
      + (if (binMid mo func vert fanout cnt i steps bl tl st res).1 = x then (cnt : Int) else 0) =
      net res x + (if bl = x then (cnt : Int) else 0) - (cnt : Int) * ((midSyms func i steps).count x : Int) := by
  induction steps with
  | zero => intro i bl tl st res; rw [binMid_zero]; simp [midSyms]
  | succ k ih =>
    intro i bl tl st res
    rw [binMid_succ, ih, net_add, midSyms_succ]
    simp only [List.head?_cons, Option.some.injEq, List.drop_succ_cons, List.drop_zero, List.count_cons,
      List.count_nil, beq_iff_eq]
    generalize (nextLabel mo st func i vert fanout).1 = nl
    generalize List.count x (midSyms func (i + 1) k) = m
    generalize net res x = r
    generalize (cnt : Int) = c
    by_cases h1 : nl = x <;> by_cases h2 : func[i + 1]?.getD [] = x <;> simp [h1, h2, Int.mul_add, Int.natCast_add] <;> omega

/-! ### `binarizeRule` -/

theorem binarizeRule_small (mo : Option MarkovOpts) (func : Func) (lin : Lin) (cnt : Nat) (vert : List Str)
    (st : GenState) (res : Grammar) (h : func.length ≤ 3) :
    binarizeRule mo func lin cnt vert st res = (st, res.add func lin .default cnt) := by
  unfold binarizeRule; rw [if_pos h]

/-- the state of `binarizeRule` after the loop -/
def midOf (mo : Option MarkovOpts) (func : Func) (lin : Lin) (cnt : Nat) (vert : List Str)
    (st : GenState) (res : Grammar) : Str × Lin × GenState × Grammar :=
  binMid mo func vert (fanOut lin) cnt 1 (func.length - 4) (nextLabel mo st func 0 vert (fanOut lin)).1 lin
    (nextLabel mo st func 0 vert (fanOut lin)).2
    (res.add [func[0]?.getD [], func[1]?.getD [], (nextLabel mo st func 0 vert (fanOut lin)).1] (topLin lin) .default cnt)

theorem binarizeRule_large (mo : Option MarkovOpts) (func : Func) (lin : Lin) (cnt : Nat) (vert : List Str)
    (st : GenState) (res : Grammar) (h : ¬ func.length ≤ 3) :
    binarizeRule mo func lin cnt vert st res =
      ((midOf mo func lin cnt vert st res).2.2.1,
       (midOf mo func lin cnt vert st res).2.2.2.add
         [(midOf mo func lin cnt vert st res).1, func[func.length - 2]?.getD [], func[func.length - 1]?.getD []]
         (restLin (midOf mo func lin cnt vert st res).2.1) .default cnt) := by
  unfold binarizeRule; rw [if_neg h]; rfl

theorem func_drop_one (func : Func) (h : ¬ func.length ≤ 3) :
    func.drop 1 = (func[1]?.getD []) :: (midSyms func 1 (func.length - 4) ++
      [func[func.length - 2]?.getD [], func[func.length - 1]?.getD []]) := by
  apply List.ext_getElem
  · simp [midSyms]; omega
  · intro n h1 h2
    simp only [List.length_drop] at h1
    rcases n with _ | n
    · simp [List.getElem?_eq_getElem (show 1 < func.length by omega)]
    · simp only [List.getElem_cons_succ, List.getElem_drop]
      by_cases hn : n < func.length - 4
      · rw [List.getElem_append_left (by simpa [midSyms] using hn)]
        simp only [midSyms, List.getElem_map, List.getElem_range]
        rw [List.getElem?_eq_getElem (by omega)]
        simp only [Option.getD_some]
        congr 1; omega
      · rw [List.getElem_append_right (by simpa [midSyms] using hn)]
        simp only [midSyms, List.length_map, List.length_range]
        have : n - (func.length - 4) = 0 ∨ n - (func.length - 4) = 1 := by omega
        rcases this with e | e
        · simp only [e, List.getElem_cons_zero]
          rw [List.getElem?_eq_getElem (by omega)]
          simp only [Option.getD_some]
          congr 1; omega
        · simp only [e, List.getElem_cons_succ, List.getElem_cons_zero]
          rw [List.getElem?_eq_getElem (by omega)]
          simp only [Option.getD_some]
          congr 1; omega

theorem binarizeRule_rank (mo : Option MarkovOpts) (func : Func) (lin : Lin) (cnt : Nat) (vert : List Str)
    (st : GenState) (res : Grammar) (h : ∀ e ∈ res, e.1.length ≤ 3) :
    ∀ e ∈ (binarizeRule mo func lin cnt vert st res).2, e.1.length ≤ 3 := by
  by_cases h3 : func.length ≤ 3
  · rw [binarizeRule_small _ _ _ _ _ _ _ h3]
    exact add_keys (fun f => f.length ≤ 3) _ _ _ _ _ h h3
  · rw [binarizeRule_large _ _ _ _ _ _ _ h3]
    refine add_keys (fun f => f.length ≤ 3) _ _ _ _ _ ?_ (by simp)
    exact binMid_rank _ _ _ _ _ _ _ _ _ _ _ (add_keys (fun f => f.length ≤ 3) _ _ _ _ _ h (by simp))

/-! ### reordering -/

theorem pickWinner_mem (lin : Lin) : ∀ (ps : List Nat) (fmin w : Nat),
    pickWinner lin ps fmin w = w ∨ pickWinner lin ps fmin w ∈ ps
  | [], _, _ => by simp [pickWinner]
  | p :: ps, fmin, w => by
    simp only [pickWinner]
    split
    · rcases pickWinner_mem lin ps (linsub lin (fun x => x == (p : Int) - 1) (fun _ => .split) false).length p with h | h
      · rw [h]; simp
      · simp [h]
    · rcases pickWinner_mem lin ps fmin w with h | h
      · simp [h]
      · simp [h]

theorem perm_cons_filter_ne : ∀ (pos : List Nat) (w : Nat), pos.Nodup → w ∈ pos →
    (w :: pos.filter (· != w)).Perm pos
  | [], _, _, h => by simp at h
  | p :: ps, w, hn, hw => by
    rw [List.nodup_cons] at hn
    by_cases e : p = w
    · subst e
      have : ps.filter (· != p) = ps := by
        rw [List.filter_eq_self]
        intro a ha
        have : a ≠ p := by rintro rfl; exact hn.1 ha
        simpa using this
      simp [this]
    · have hw' : w ∈ ps := by
        rcases List.mem_cons.1 hw with h | h
        · exact absurd h.symm e
        · exact h
      have : (p != w) = true := by simpa using e
      rw [List.filter_cons_of_pos (p := fun x => x != w) this]
      exact (List.Perm.swap p w _).trans (List.Perm.cons p (perm_cons_filter_ne ps w hn.2 hw'))

theorem pickOrder_perm_aux (lin : Lin) : ∀ (fuel : Nat) (pos : List Nat), pos.Nodup → pos.length = fuel →
    (pickOrder lin pos fuel).Perm pos
  | 0, pos, _, hl => by
    have : pos = [] := List.eq_nil_of_length_eq_zero hl
    subst this; simp [pickOrder]
  | fuel + 1, [], _, hl => by simp at hl
  | fuel + 1, p0 :: ps, hn, hl => by
    simp only [pickOrder]
    have hw : pickWinner lin (p0 :: ps) 100000 p0 ∈ p0 :: ps := by
      rcases pickWinner_mem lin (p0 :: ps) 100000 p0 with h | h
      · rw [h]; simp
      · exact h
    generalize pickWinner lin (p0 :: ps) 100000 p0 = w at hw
    have hp := perm_cons_filter_ne (p0 :: ps) w hn hw
    have hlen : ((p0 :: ps).filter (· != w)).length = fuel := by
      have := hp.length_eq
      simp only [List.length_cons] at this hl
      omega
    exact (List.Perm.cons w (pickOrder_perm_aux lin fuel _ (hn.filter _) hlen)).trans hp

theorem drop_one_eq_map (func : Func) :
    func.drop 1 = ((List.range (func.length - 1)).map (· + 1)).map fun o => func[o]?.getD [] := by
  apply List.ext_getElem
  · simp
  · intro n h1 h2
    simp only [List.length_drop] at h1
    simp [List.getElem?_eq_getElem (show n + 1 < func.length by omega)]

theorem nodup_range_succ (k : Nat) : ((List.range k).map (· + 1)).Nodup := by
  rw [List.nodup_iff_pairwise_ne]
  rw [List.pairwise_map]
  exact List.Pairwise.imp (by intro a b h; omega) (List.nodup_iff_pairwise_ne.1 List.nodup_range)

theorem reorderingOptimal_fst (func : Func) (lin : Lin) :
    (reorderingOptimal func lin).1 = (func[0]?.getD []) ::
      (pickOrder lin ((List.range (func.length - 1)).map (· + 1)) (func.length - 1)).map fun o => func[o]?.getD [] := rfl

theorem reorder_head (r : Reordering) (func : Func) (lin : Lin) (h : func ≠ []) :
    (reorder r func lin).1.head? = func.head? ∧ (reorder r func lin).1 ≠ [] := by
  cases r <;> simp only [reorder, ne_eq, h, not_false_eq_true, and_self]
  rw [reorderingOptimal_fst]
  cases func with
  | nil => exact absurd rfl h
  | cons a r => simp

/-! ### the driver -/

theorem foldl_inv {α ε} (P : α → Prop) (step : α → ε → α) (es : List ε)
    (hstep : ∀ acc e, e ∈ es → P acc → P (step acc e)) : ∀ init, P init → P (es.foldl step init) := by
  induction es with
  | nil => intro init h; simpa using h
  | cons e es ih =>
    intro init h
    simp only [List.foldl_cons]
    exact ih (fun acc e he => hstep acc e (by simp [he])) _ (hstep init e (by simp) h)

theorem foldl_sum {α ε} (m : α → Nat) (W : ε → Nat) (step : α → ε → α) (es : List ε)
    (hstep : ∀ acc e, e ∈ es → m (step acc e) = m acc + W e) :
    ∀ init, m (es.foldl step init) = m init + (es.map W).sum := by
  induction es with
  | nil => intro init; simp
  | cons e es ih =>
    intro init
    simp only [List.foldl_cons, List.map_cons, List.sum_cons]
    rw [ih (fun acc e he => hstep acc e (by simp [he])), hstep init e (by simp)]
    omega

theorem sum_filter_map {α} (p : α → Bool) (f : α → Nat) (l : List α) :
    ((l.filter p).map f).sum = (l.map fun a => if p a then f a else 0).sum := by
  induction l with
  | nil => simp
  | cons a r ih =>
    by_cases h : p a <;> simp [h, ih]

theorem lhsMass_eq_rules_sum (g : Grammar) (x : Str) :
    lhsMass g x = (g.rules.map fun e => if e.1.head? = some x then e.2.2 else 0).sum := by
  unfold lhsMass
  rw [sum_filter_map]
  congr 1
  apply List.map_congr_left
  intro a _
  obtain ⟨f, l, c⟩ := a
  simp

theorem entries_cons (f : Func) (ls : AList Lin (AList VertKey Nat)) (g : Grammar) :
    Grammar.entries ((f, ls) :: g) =
      (ls.flatMap fun p => p.2.map fun q => (f, p.1, q.1, q.2)) ++ Grammar.entries g := by
  simp [Grammar.entries]

theorem lhsMass_eq_entries_sum (g : Grammar) (x : Str) :
    lhsMass g x = (g.entries.map fun e => if e.1.head? = some x then e.2.2.2 else 0).sum := by
  rw [lhsMass_eq_wmass]
  induction g with
  | nil => simp [Grammar.entries, wmass]
  | cons a r ih =>
    obtain ⟨f, ls⟩ := a
    rw [entries_cons, List.map_append, List.sum_append, ← ih]
    simp only [wmass, List.map_cons, List.sum_cons]
    congr 1
    induction ls with
    | nil => simp [lsum]
    | cons b bs ih2 =>
      obtain ⟨l, vs⟩ := b
      simp only [List.flatMap_cons, List.map_append, List.sum_append, ← ih2, lsum, List.map_cons, List.sum_cons,
        Nat.mul_add]
      congr 1
      simp only [vsum]
      induction vs with
      | nil => simp
      | cons c cs ih3 =>
        simp only [List.map_cons, List.sum_cons, Nat.mul_add, ih3]
        congr 1
        split <;> simp

theorem rules_func_mem (g : Grammar) : ∀ e ∈ g.rules, ∃ p ∈ g, p.1 = e.1 := by
  intro e he
  simp only [Grammar.rules, List.mem_flatMap, List.mem_map] at he
  obtain ⟨p, hp, q, _, rfl⟩ := he
  exact ⟨p, hp, rfl⟩

theorem entries_func_mem (g : Grammar) : ∀ e ∈ g.entries, ∃ p ∈ g, p.1 = e.1 := by
  intro e he
  simp only [Grammar.entries, List.mem_flatMap, List.mem_map] at he
  obtain ⟨p, hp, q, _, r, _, rfl⟩ := he
  exact ⟨p, hp, rfl⟩

/-! ## chain composition (C07.T2) -/

abbrev Var := Int × Nat

/-! ### counters -/

def cget (c : Cnt) (k : Int) : Nat := (AList.get? k c).getD 0

theorem get?_upsert {κ ν} [DecidableEq κ] (k k' : κ) (f : Option ν → ν) (l : AList κ ν) :
    AList.get? k' (AList.upsert k f l) = if k' = k then some (f (AList.get? k l)) else AList.get? k' l := by
  induction l with
  | nil =>
    by_cases h : k' = k
    · subst h; simp [AList.get?, AList.upsert]
    · have : ¬ k = k' := fun e => h e.symm
      simp [AList.get?, AList.upsert, h, this]
  | cons a r ih =>
    obtain ⟨a, v⟩ := a
    simp only [AList.upsert]
    by_cases hak : a = k
    · subst hak
      by_cases h : k' = a
      · subst h; simp [AList.get?]
      · have : ¬ a = k' := fun e => h e.symm
        simp [AList.get?, h, this]
    · simp only [hak, if_false]
      by_cases h : k' = k
      · subst h
        have : ¬ a = k' := hak
        simp only [AList.get?, List.find?_cons, this, decide_false] at ih ⊢
        simpa using ih
      · by_cases h2 : a = k'
        · subst h2; simp [AList.get?, h]
        · simp only [AList.get?, List.find?_cons, h2, decide_false, h, if_false] at ih ⊢
          simpa using ih

theorem bump_snd (c : Cnt) (k : Int) : (c.bump k).2 = cget c k := rfl

theorem cget_bump (c : Cnt) (k q : Int) : cget (c.bump k).1 q = if q = k then cget c k + 1 else cget c q := by
  simp only [Cnt.bump, cget, get?_upsert]
  split <;> simp

def bumpF (k : Int → Nat) (p : Int) : Int → Nat := fun q => if q = p then k q + 1 else k q

def idxOK : (Int → Nat) → List Var → Prop
  | _, [] => True
  | k, v :: vs => v.2 = k v.1 ∧ idxOK (bumpF k v.1) vs

def after (k : Int → Nat) : List Var → (Int → Nat)
  | [] => k
  | v :: vs => after (bumpF k v.1) vs

theorem idxOK_append : ∀ (a b : List Var) (k : Int → Nat), idxOK k (a ++ b) ↔ idxOK k a ∧ idxOK (after k a) b
  | [], b, k => by simp [idxOK, after]
  | v :: a, b, k => by simp [idxOK, after, idxOK_append a b, and_assoc]

theorem after_append : ∀ (a b : List Var) (k : Int → Nat), after k (a ++ b) = after (after k a) b
  | [], b, k => rfl
  | v :: a, b, k => by simp [after, after_append a b]

/-! ### equations of `linsubArg` -/

def headIs (cur : List Var) (d : Int) : Bool := match cur with | (q, _) :: _ => q == d | [] => false

theorem linsubArg_nil (src : Int → Bool) (dest : Int → Dest) (rep : Bool) (cur : List Var) (c : Cnt) :
    linsubArg src dest rep [] cur c = ((if cur.isEmpty then [] else [cur.reverse]), c) := rfl

theorem linsubArg_nosrc (src : Int → Bool) (dest : Int → Dest) (rep : Bool) (p : Int) (j : Nat) (vs cur : List Var)
    (c : Cnt) (h : src p = false) :
    linsubArg src dest rep ((p, j) :: vs) cur c = linsubArg src dest rep vs ((p, cget c p) :: cur) (c.bump p).1 := by
  simp only [linsubArg, h]; rfl

theorem linsubArg_val (src : Int → Bool) (dest : Int → Dest) (rep : Bool) (p : Int) (j : Nat) (vs cur : List Var)
    (c : Cnt) (d : Int) (h : src p = true) (hd : dest p = .val d) (hr : (rep && headIs cur d) = false) :
    linsubArg src dest rep ((p, j) :: vs) cur c = linsubArg src dest rep vs ((d, cget c d) :: cur) (c.bump d).1 := by
  cases cur with
  | nil => simp [linsubArg, h, hd]; rfl
  | cons a t =>
    obtain ⟨q, i⟩ := a
    simp only [headIs] at hr
    simp only [linsubArg, h, hd, if_true, hr]; rfl

theorem linsubArg_skip (src : Int → Bool) (dest : Int → Dest) (rep : Bool) (p : Int) (j : Nat) (vs cur : List Var)
    (c : Cnt) (d : Int) (h : src p = true) (hd : dest p = .val d) (hr : (rep && headIs cur d) = true) :
    linsubArg src dest rep ((p, j) :: vs) cur c = linsubArg src dest rep vs cur c := by
  cases cur with
  | nil => simp [headIs] at hr
  | cons a t =>
    obtain ⟨q, i⟩ := a
    simp only [headIs] at hr
    simp only [linsubArg, h, hd, if_true, hr]

theorem linsubArg_split (src : Int → Bool) (dest : Int → Dest) (rep : Bool) (p : Int) (j : Nat) (vs cur : List Var)
    (c : Cnt) (h : src p = true) (hd : dest p = .split) :
    linsubArg src dest rep ((p, j) :: vs) cur c =
      ((if cur.isEmpty then (linsubArg src dest rep vs [] c).1 else cur.reverse :: (linsubArg src dest rep vs [] c).1),
        (linsubArg src dest rep vs [] c).2) := by
  simp only [linsubArg, h, hd, if_true]

/-! ### groups of an argument: variables of element 0 and maximal runs of the other elements -/

inductive Grp where
  | z (v : Var)
  | run (r : List Var)

def consRun (v : Var) : List Grp → List Grp
  | .run r :: t => .run (v :: r) :: t
  | t => .run [v] :: t

def grp : List Var → List Grp
  | [] => []
  | v :: vs => if v.1 = 0 then .z v :: grp vs else consRun v (grp vs)

def ungrp : List Grp → List Var
  | [] => []
  | .z v :: t => v :: ungrp t
  | .run r :: t => r ++ ungrp t

def shift (v : Var) : Var := (v.1 - 1, v.2)

def runsOf : List Grp → Lin
  | [] => []
  | .z _ :: t => runsOf t
  | .run r :: t => r.map shift :: runsOf t

def topG : List Grp → Nat → List Var × Nat
  | [], m => ([], m)
  | .z v :: gs, m => (v :: (topG gs m).1, (topG gs m).2)
  | .run _ :: gs, m => ((1, m) :: (topG gs (m + 1)).1, (topG gs (m + 1)).2)

theorem ungrp_consRun (v : Var) (gs : List Grp) : ungrp (consRun v gs) = v :: ungrp gs := by
  cases gs with
  | nil => rfl
  | cons g t => cases g <;> rfl

theorem ungrp_grp : ∀ vs : List Var, ungrp (grp vs) = vs
  | [] => rfl
  | v :: vs => by
    simp only [grp]
    split
    · simp [ungrp, ungrp_grp vs]
    · simp [ungrp_consRun, ungrp_grp vs]

/-- what `linsub`'s splitting pass returns with accumulator `cur` -/
def piecesWith (cur : List Var) : List Grp → Lin
  | .run r :: t => (cur.reverse ++ r.map shift) :: runsOf t
  | t => (if cur.isEmpty then [] else [cur.reverse]) ++ runsOf t

theorem piecesWith_nil (gs : List Grp) : piecesWith [] gs = runsOf gs := by
  cases gs with
  | nil => rfl
  | cons g t => cases g <;> simp [piecesWith, runsOf]

theorem piecesWith_consRun (cur : List Var) (v : Var) (gs : List Grp) :
    piecesWith cur (consRun v gs) = piecesWith (shift v :: cur) gs := by
  cases gs with
  | nil => simp [piecesWith, consRun, runsOf]
  | cons g t => cases g <;> simp [piecesWith, consRun, runsOf]

/-- first pass of `restLin`: shift all positions down -/
theorem linsubArg_shift : ∀ (vars cur : List Var) (c : Cnt) (k : Int → Nat),
    (∀ v ∈ vars, 0 ≤ v.1) → idxOK k vars → (∀ q, cget c (q - 1) = k q) →
    (linsubArg (fun x => x ≥ 0) (fun x => .val (x - 1)) false vars cur c).1 =
        (if (cur.reverse ++ vars.map shift).isEmpty then [] else [cur.reverse ++ vars.map shift]) ∧
      (∀ q, cget (linsubArg (fun x => x ≥ 0) (fun x => .val (x - 1)) false vars cur c).2 (q - 1) = after k vars q)
  | [], cur, c, k, _, _, hc => by
    rw [linsubArg_nil]
    refine ⟨?_, hc⟩
    simp
  | (p, j) :: vs, cur, c, k, hp, hi, hc => by
    have hp0 : 0 ≤ p := hp (p, j) (by simp)
    rw [linsubArg_val _ _ _ p j vs cur c (p - 1) (by simpa using hp0) rfl (by simp)]
    obtain ⟨hj, hi'⟩ := hi
    simp only at hj hi'
    have hc' : ∀ q, cget (c.bump (p - 1)).1 (q - 1) = bumpF k p q := by
      intro q
      rw [cget_bump, bumpF, hc p]
      by_cases e : q = p
      · subst e; simp
      · have : ¬ q - 1 = p - 1 := by omega
        simp [e, this, hc q]
    have ih := linsubArg_shift vs ((p - 1, cget c (p - 1)) :: cur) (c.bump (p - 1)).1 (bumpF k p)
      (fun v hv => hp v (by simp [hv])) hi' hc'
    refine ⟨?_, ih.2⟩
    rw [ih.1, hc p, ← hj]
    simp [shift]

/-- second pass of `restLin`: split where element 0 stood -/
theorem linsubArg_pieces : ∀ (vars cur : List Var) (c : Cnt) (k : Int → Nat),
    (∀ v ∈ vars, 0 ≤ v.1) → idxOK k vars → (∀ q, 0 < q → cget c (q - 1) = k q) →
    (linsubArg (fun x => x == -1) (fun _ => .split) false (vars.map shift) cur c).1 = piecesWith cur (grp vars) ∧
      (∀ q, 0 < q →
        cget (linsubArg (fun x => x == -1) (fun _ => .split) false (vars.map shift) cur c).2 (q - 1) = after k vars q)
  | [], cur, c, k, _, _, hc => by
    refine ⟨?_, hc⟩
    simp [linsubArg_nil, grp, piecesWith, runsOf]
  | (p, j) :: vs, cur, c, k, hp, hi, hc => by
    have hp0 : 0 ≤ p := hp (p, j) (by simp)
    obtain ⟨hj, hi'⟩ := hi
    simp only at hj hi'
    simp only [List.map_cons, shift]
    by_cases hz : p = 0
    · subst hz
      rw [linsubArg_split _ _ _ _ j _ cur c (by simp) rfl]
      have hc' : ∀ q, 0 < q → cget c (q - 1) = bumpF k 0 q := by
        intro q hq
        have : ¬ q = 0 := by omega
        simp [bumpF, this, hc q hq]
      have ih := linsubArg_pieces vs [] c (bumpF k 0) (fun v hv => hp v (by simp [hv])) hi' hc'
      refine ⟨?_, ih.2⟩
      rw [ih.1, piecesWith_nil]
      simp only [grp, if_true, piecesWith, runsOf]
      split <;> simp
    · have hsrc : (fun x : Int => x == -1) (p - 1) = false := by
        have : ¬ p - 1 = -1 := by omega
        simpa using this
      rw [linsubArg_nosrc _ _ _ (p - 1) j _ cur c hsrc]
      have hc' : ∀ q, 0 < q → cget (c.bump (p - 1)).1 (q - 1) = bumpF k p q := by
        intro q hq
        rw [cget_bump, bumpF, hc p (by omega)]
        by_cases e : q = p
        · subst e; simp
        · have : ¬ q - 1 = p - 1 := by omega
          simp [e, this, hc q hq]
      have ih := linsubArg_pieces vs ((p - 1, cget c (p - 1)) :: cur) (c.bump (p - 1)).1 (bumpF k p)
        (fun v hv => hp v (by simp [hv])) hi' hc'
      refine ⟨?_, ih.2⟩
      rw [ih.1, hc p (by omega), ← hj]
      simp only [grp, hz, if_false, piecesWith_consRun, shift]

/-- `topG` when the accumulator of `linsub` already ends with the marker of an open run -/
def topW (b : Bool) (gs : List Grp) (m : Nat) : List Var × Nat :=
  match b, gs with
  | true, .run _ :: t => topG t m
  | _, gs => topG gs m

theorem topW_false (gs : List Grp) (m : Nat) : topW false gs m = topG gs m := by
  cases gs with
  | nil => rfl
  | cons g t => cases g <;> rfl

theorem topW_z (b : Bool) (v : Var) (gs : List Grp) (m : Nat) :
    topW b (.z v :: gs) m = (v :: (topG gs m).1, (topG gs m).2) := by
  cases b <;> rfl

theorem topW_consRun_true (v : Var) (gs : List Grp) (m : Nat) : topW true (consRun v gs) m = topW true gs m := by
  cases gs with
  | nil => rfl
  | cons g t => cases g <;> rfl

theorem topW_consRun_false (v : Var) (gs : List Grp) (m : Nat) :
    topW false (consRun v gs) m = ((1, m) :: (topW true gs (m + 1)).1, (topW true gs (m + 1)).2) := by
  cases gs with
  | nil => rfl
  | cons g t => cases g <;> rfl

/-- `topLin` on one argument -/
theorem linsubArg_top : ∀ (vars cur : List Var) (c : Cnt) (k : Int → Nat) (m : Nat),
    (∀ v ∈ vars, 0 ≤ v.1) → idxOK k vars → cget c 0 = k 0 → cget c 1 = m →
    (linsubArg (fun x => x > 0) (fun _ => .val 1) true vars cur c).1 =
        (if (cur.reverse ++ (topW (headIs cur 1) (grp vars) m).1).isEmpty then []
         else [cur.reverse ++ (topW (headIs cur 1) (grp vars) m).1]) ∧
      cget (linsubArg (fun x => x > 0) (fun _ => .val 1) true vars cur c).2 0 = after k vars 0 ∧
      cget (linsubArg (fun x => x > 0) (fun _ => .val 1) true vars cur c).2 1 = (topW (headIs cur 1) (grp vars) m).2
  | [], cur, c, k, m, _, _, h0, h1 => by
    rw [linsubArg_nil]
    refine ⟨?_, h0, ?_⟩
    · cases hb : headIs cur 1 <;> simp [grp, topW, topG]
    · cases hb : headIs cur 1 <;> simp [grp, topW, topG, h1]
  | (p, j) :: vs, cur, c, k, m, hp, hi, h0, h1 => by
    have hp0 : 0 ≤ p := hp (p, j) (by simp)
    obtain ⟨hj, hi'⟩ := hi
    simp only at hj hi'
    by_cases hz : p = 0
    · subst hz
      rw [linsubArg_nosrc _ _ _ 0 j _ cur c (by simp)]
      have ih := linsubArg_top vs ((0, cget c 0) :: cur) (c.bump 0).1 (bumpF k 0) m
        (fun v hv => hp v (by simp [hv])) hi' (by simp [cget_bump, bumpF, h0]) (by simp [cget_bump, h1])
      have hh : headIs ((0, cget c 0) :: cur) 1 = false := by simp [headIs]
      rw [hh, topW_false] at ih
      refine ⟨?_, ih.2.1, ?_⟩
      · rw [ih.1, h0, ← hj]
        simp [grp, topW_z]
      · rw [ih.2.2]
        simp [grp, topW_z]
    · have hsrc : (fun x : Int => decide (x > 0)) p = true := by
        have : p > 0 := by omega
        simpa using this
      have hg : grp ((p, j) :: vs) = consRun (p, j) (grp vs) := by simp [grp, hz]
      have hk0 : cget c 0 = bumpF k p 0 := by
        have : ¬ (0 : Int) = p := fun e => hz e.symm
        simp [bumpF, this, h0]
      rw [hg]
      cases hb : headIs cur 1
      · rw [linsubArg_val _ _ _ p j vs cur c 1 hsrc rfl (by simp [hb])]
        have ih := linsubArg_top vs ((1, cget c 1) :: cur) (c.bump 1).1 (bumpF k p) (m + 1)
          (fun v hv => hp v (by simp [hv])) hi' (by simpa [cget_bump] using hk0) (by simp [cget_bump, h1])
        have hh : headIs ((1, cget c 1) :: cur) 1 = true := by simp [headIs]
        rw [hh] at ih
        refine ⟨?_, ih.2.1, ?_⟩
        · rw [ih.1, h1, topW_consRun_false]
          simp
        · rw [ih.2.2, topW_consRun_false]
      · rw [linsubArg_skip _ _ _ p j vs cur c 1 hsrc rfl (by simp [hb])]
        have ih := linsubArg_top vs cur c (bumpF k p) m
          (fun v hv => hp v (by simp [hv])) hi' hk0 h1
        rw [hb] at ih
        rw [topW_consRun_true]
        exact ih

/-! ### whole linearizations -/

theorem linsubArgs_cons (src : Int → Bool) (dest : Int → Dest) (rep : Bool) (a : List Var) (as : Lin) (c : Cnt) :
    linsubArgs src dest rep (a :: as) c =
      (linsubArg src dest rep a [] c).1 ++ linsubArgs src dest rep as (linsubArg src dest rep a [] c).2 := rfl

def topGs : List (List Grp) → Nat → Lin
  | [], _ => []
  | gs :: gss, m => (topG gs m).1 :: topGs gss (topG gs m).2

theorem linsubArgs_shift : ∀ (lin : Lin) (c : Cnt) (k : Int → Nat),
    (∀ a ∈ lin, a ≠ []) → (∀ a ∈ lin, ∀ v ∈ a, 0 ≤ v.1) → idxOK k lin.flatten → (∀ q, cget c (q - 1) = k q) →
    linsubArgs (fun x => x ≥ 0) (fun x => .val (x - 1)) false lin c = lin.map (·.map shift)
  | [], _, _, _, _, _, _ => rfl
  | a :: as, c, k, hne, hp, hi, hc => by
    rw [List.flatten_cons, idxOK_append] at hi
    have h1 := linsubArg_shift a [] c k (hp a (by simp)) hi.1 hc
    rw [linsubArgs_cons, h1.1,
      linsubArgs_shift as _ (after k a) (fun b hb => hne b (by simp [hb])) (fun b hb => hp b (by simp [hb])) hi.2 h1.2]
    have : a ≠ [] := hne a (by simp)
    simp [this]

theorem linsubArgs_pieces : ∀ (lin : Lin) (c : Cnt) (k : Int → Nat),
    (∀ a ∈ lin, ∀ v ∈ a, 0 ≤ v.1) → idxOK k lin.flatten → (∀ q, 0 < q → cget c (q - 1) = k q) →
    linsubArgs (fun x => x == -1) (fun _ => .split) false (lin.map (·.map shift)) c = (lin.map grp).flatMap runsOf
  | [], _, _, _, _, _ => rfl
  | a :: as, c, k, hp, hi, hc => by
    rw [List.flatten_cons, idxOK_append] at hi
    have h1 := linsubArg_pieces a [] c k (hp a (by simp)) hi.1 hc
    rw [List.map_cons, linsubArgs_cons, h1.1,
      linsubArgs_pieces as _ (after k a) (fun b hb => hp b (by simp [hb])) hi.2 h1.2, piecesWith_nil]
    simp

theorem topG_ne_nil (gs : List Grp) (m : Nat) (h : gs ≠ []) : (topG gs m).1 ≠ [] := by
  cases gs with
  | nil => exact absurd rfl h
  | cons g t => cases g <;> simp [topG]

theorem grp_ne_nil (vs : List Var) (h : vs ≠ []) : grp vs ≠ [] := by
  intro e
  have := ungrp_grp vs
  rw [e] at this
  exact h this.symm

theorem linsubArgs_top : ∀ (lin : Lin) (c : Cnt) (k : Int → Nat) (m : Nat),
    (∀ a ∈ lin, a ≠ []) → (∀ a ∈ lin, ∀ v ∈ a, 0 ≤ v.1) → idxOK k lin.flatten → cget c 0 = k 0 → cget c 1 = m →
    linsubArgs (fun x => x > 0) (fun _ => .val 1) true lin c = topGs (lin.map grp) m
  | [], _, _, _, _, _, _, _, _ => rfl
  | a :: as, c, k, m, hne, hp, hi, h0, h1 => by
    rw [List.flatten_cons, idxOK_append] at hi
    have h := linsubArg_top a [] c k m (hp a (by simp)) hi.1 h0 h1
    have hh : headIs [] 1 = false := rfl
    rw [hh, topW_false] at h
    rw [linsubArgs_cons, h.1,
      linsubArgs_top as _ (after k a) _ (fun b hb => hne b (by simp [hb])) (fun b hb => hp b (by simp [hb])) hi.2
        h.2.1 h.2.2]
    have : (topG (grp a) m).1 ≠ [] := topG_ne_nil _ _ (grp_ne_nil a (hne a (by simp)))
    simp [this, topGs]

/-- the three facts about a linearization used below -/
structure WF' (lin : Lin) : Prop where
  ne : ∀ a ∈ lin, a ≠ []
  pos : ∀ a ∈ lin, ∀ v ∈ a, 0 ≤ v.1
  idx : idxOK (fun _ => 0) lin.flatten

theorem cget_nil (q : Int) : cget [] q = 0 := rfl

theorem restLin_eq (lin : Lin) (h : WF' lin) : restLin lin = (lin.map grp).flatMap runsOf := by
  unfold restLin linsub
  rw [linsubArgs_shift lin [] _ h.ne h.pos h.idx (fun _ => rfl),
    linsubArgs_pieces lin [] _ h.pos h.idx (fun _ _ => rfl)]

theorem topLin_eq (lin : Lin) (h : WF' lin) : topLin lin = topGs (lin.map grp) 0 := by
  unfold topLin linsub
  rw [linsubArgs_top lin [] _ 0 h.ne h.pos h.idx rfl rfl]

/-! ### evaluation -/

def omap {α β} (f : α → Option β) : List α → Option (List β)
  | [] => some []
  | a :: as => match f a, omap f as with
    | some b, some bs => some (b :: bs)
    | _, _ => none

theorem mapM_eq_omap {α β} (f : α → Option β) : ∀ l : List α, l.mapM f = omap f l
  | [] => by simp [omap]
  | a :: as => by
    rw [List.mapM_cons, mapM_eq_omap f as]
    cases h1 : f a <;> cases h2 : omap f as <;> simp [omap, h1, h2]

theorem omap_append {α β} (f : α → Option β) : ∀ a b : List α,
    omap f (a ++ b) = match omap f a, omap f b with
      | some x, some y => some (x ++ y)
      | _, _ => none
  | [], b => by cases h : omap f b <;> simp [omap, h]
  | x :: a, b => by
    simp only [List.cons_append, omap, omap_append f a b]
    cases f x <;> cases omap f a <;> cases omap f b <;> simp

theorem omap_congr {α β} (f g : α → Option β) : ∀ l : List α, (∀ a ∈ l, f a = g a) → omap f l = omap g l
  | [], _ => rfl
  | a :: as, h => by
    simp only [omap, h a (by simp), omap_congr f g as (fun b hb => h b (by simp [hb]))]

theorem omap_map {α β γ} (f : β → Option γ) (g : α → β) : ∀ l : List α, omap f (l.map g) = omap (fun a => f (g a)) l
  | [] => rfl
  | a :: as => by simp only [List.map_cons, omap, omap_map f g as]

def look {α} (args : List (List (List α))) (p : Var) : Option (List α) := (args[p.1.toNat]?).bind (·[p.2]?)

def evalArg {α} (L : Var → Option (List α)) (vs : List Var) : Option (List α) := (omap L vs).map List.flatten

theorem instLin_eq {α} (lin : Lin) (args : List (List (List α))) : instLin lin args = omap (evalArg (look args)) lin := by
  unfold instLin
  rw [mapM_eq_omap]
  apply omap_congr
  intro a _
  rw [mapM_eq_omap]
  rfl

theorem evalArg_nil {α} (L : Var → Option (List α)) : evalArg L [] = some [] := rfl

theorem evalArg_cons {α} (L : Var → Option (List α)) (v : Var) (vs : List Var) :
    evalArg L (v :: vs) = match L v, evalArg L vs with
      | some b, some bs => some (b ++ bs)
      | _, _ => none := by
  simp only [evalArg, omap]
  cases L v <;> cases omap L vs <;> simp

theorem evalArg_append {α} (L : Var → Option (List α)) (a b : List Var) :
    evalArg L (a ++ b) = match evalArg L a, evalArg L b with
      | some x, some y => some (x ++ y)
      | _, _ => none := by
  simp only [evalArg, omap_append]
  cases omap L a <;> cases omap L b <;> simp

theorem evalArg_congr {α} (L L' : Var → Option (List α)) (vs : List Var) (h : ∀ v ∈ vs, L v = L' v) :
    evalArg L vs = evalArg L' vs := by
  simp only [evalArg, omap_congr L L' vs h]

theorem look_zero {α} (e0 : List (List α)) (X : List (List (List α))) (v : Var) (h : v.1 = 0) :
    look (e0 :: X) v = e0[v.2]? := by
  simp [look, h]

theorem look_shift {α} (e0 : List (List α)) (rest : List (List (List α))) (v : Var) (h : 0 < v.1) :
    look rest (shift v) = look (e0 :: rest) v := by
  have : v.1.toNat = (v.1 - 1).toNat + 1 := by omega
  unfold look shift
  rw [this, List.getElem?_cons_succ]

theorem look_one {α} (e0 : List (List α)) (r : List (List α)) (m : Nat) : look [e0, r] (1, m) = r[m]? := by
  simp [look]

/-- groups are well-formed: element-0 variables, and non-empty runs of other elements -/
def GOK : List Grp → Prop
  | [] => True
  | .z v :: t => v.1 = 0 ∧ GOK t
  | .run r :: t => (r ≠ [] ∧ ∀ v ∈ r, v.1 ≠ 0) ∧ GOK t

theorem GOK_consRun (v : Var) (gs : List Grp) (hv : v.1 ≠ 0) (h : GOK gs) : GOK (consRun v gs) := by
  cases gs with
  | nil => simp [consRun, GOK, hv]
  | cons g t =>
    cases g with
    | z w => simp only [consRun, GOK] at h ⊢; simp [hv, h]
    | run r => simp only [consRun, GOK] at h ⊢; exact ⟨by simpa [hv] using h.1.2, h.2⟩

theorem GOK_grp : ∀ vs : List Var, GOK (grp vs)
  | [] => trivial
  | v :: vs => by
    simp only [grp]
    split
    · rename_i h; exact ⟨h, GOK_grp vs⟩
    · rename_i h; exact GOK_consRun v _ h (GOK_grp vs)

theorem sem_arg {α} (e0 : List (List α)) (rest : List (List (List α))) : ∀ (gs : List Grp), GOK gs →
    (∀ v ∈ ungrp gs, 0 ≤ v.1) → ∀ (rpre rpost : List (List α)),
    (omap (evalArg (look rest)) (runsOf gs) = none → evalArg (look (e0 :: rest)) (ungrp gs) = none) ∧
    (∀ rh, omap (evalArg (look rest)) (runsOf gs) = some rh →
      evalArg (look [e0, rpre ++ rh ++ rpost]) (topG gs rpre.length).1 = evalArg (look (e0 :: rest)) (ungrp gs) ∧
      (topG gs rpre.length).2 = rpre.length + rh.length)
  | [], _, _, rpre, rpost => by
    simp [runsOf, omap, topG, ungrp, evalArg_nil]
  | .z v :: gs, hok, hpos, rpre, rpost => by
    have ih := sem_arg e0 rest gs hok.2 (fun w hw => hpos w (by simp [ungrp, hw])) rpre rpost
    simp only [runsOf, ungrp, topG, evalArg_cons]
    refine ⟨fun hn => ?_, fun rh hs => ?_⟩
    · rw [ih.1 hn]; cases look (e0 :: rest) v <;> rfl
    · obtain ⟨h1, h2⟩ := ih.2 rh hs
      rw [h1, look_zero e0 _ v hok.1, look_zero e0 _ v hok.1]
      exact ⟨rfl, h2⟩
  | .run r :: gs, hok, hpos, rpre, rpost => by
    have hr : evalArg (look rest) (r.map shift) = evalArg (look (e0 :: rest)) r := by
      simp only [evalArg, omap_map]
      rw [omap_congr _ (look (e0 :: rest)) r]
      intro v hv
      have h0 : 0 ≤ v.1 := hpos v (by simp [ungrp, hv])
      have h1 : v.1 ≠ 0 := hok.1.2 v hv
      exact look_shift e0 rest v (by omega)
    simp only [runsOf, ungrp, topG, evalArg_append, omap, hr]
    cases hb : evalArg (look (e0 :: rest)) r with
    | none => simp
    | some b =>
      cases hs : omap (evalArg (look rest)) (runsOf gs) with
      | none =>
        have ih := sem_arg e0 rest gs hok.2 (fun w hw => hpos w (by simp [ungrp, hw])) rpre rpost
        simp [ih.1 hs]
      | some rh' =>
        have ih := sem_arg e0 rest gs hok.2 (fun w hw => hpos w (by simp [ungrp, hw])) (rpre ++ [b]) rpost
        obtain ⟨h1, h2⟩ := ih.2 rh' hs
        simp only [List.length_append, List.length_cons, List.length_nil, Nat.zero_add] at h1 h2
        simp only [reduceCtorEq, false_implies, Option.some.injEq, true_and]
        intro rh e
        subst e
        rw [evalArg_cons, look_one]
        have e1 : rpre ++ b :: rh' ++ rpost = rpre ++ [b] ++ rh' ++ rpost := by simp
        rw [e1, h1, h2]
        have e2 : (rpre ++ [b] ++ rh' ++ rpost)[rpre.length]? = some b := by simp
        rw [e2]
        refine ⟨rfl, ?_⟩
        simp only [List.length_cons]; omega

theorem sem_lin {α} (e0 : List (List α)) (rest : List (List (List α))) : ∀ (gss : List (List Grp)),
    (∀ gs ∈ gss, GOK gs) → (∀ gs ∈ gss, ∀ v ∈ ungrp gs, 0 ≤ v.1) → ∀ (rpre : List (List α)),
    (omap (evalArg (look rest)) (gss.flatMap runsOf)).bind
        (fun rs => omap (evalArg (look [e0, rpre ++ rs])) (topGs gss rpre.length)) =
      omap (fun gs => evalArg (look (e0 :: rest)) (ungrp gs)) gss
  | [], _, _, rpre => by simp [omap, topGs]
  | gs :: gss, hok, hpos, rpre => by
    rw [List.flatMap_cons, omap_append]
    simp only [omap, topGs]
    cases h1 : omap (evalArg (look rest)) (runsOf gs) with
    | none =>
      have := (sem_arg e0 rest gs (hok gs (by simp)) (hpos gs (by simp)) rpre []).1 h1
      simp [this]
    | some rh =>
      have ih := sem_lin e0 rest gss (fun g hg => hok g (by simp [hg])) (fun g hg => hpos g (by simp [hg])) (rpre ++ rh)
      cases h2 : omap (evalArg (look rest)) (gss.flatMap runsOf) with
      | none =>
        rw [h2] at ih
        simp only [Option.bind_none] at ih ⊢
        rw [← ih]
        cases evalArg (look (e0 :: rest)) (ungrp gs) <;> rfl
      | some rs =>
        rw [h2] at ih
        simp only [Option.bind_some] at ih ⊢
        obtain ⟨e1, e2⟩ := (sem_arg e0 rest gs (hok gs (by simp)) (hpos gs (by simp)) rpre rs).2 rh h1
        rw [List.append_assoc] at e1
        rw [e1, e2, ← ih, List.length_append, List.append_assoc]

/-- the step lemma in terms of the internal well-formedness facts -/
theorem chain_step' {α} (lin : Lin) (h : WF' lin) (e0 : List (List α)) (rest : List (List (List α))) :
    (instLin (restLin lin) rest).bind (fun r => instLin (topLin lin) [e0, r]) = instLin lin (e0 :: rest) := by
  rw [restLin_eq lin h, topLin_eq lin h]
  simp only [instLin_eq]
  have := sem_lin e0 rest (lin.map grp) (by simp [GOK_grp])
    (by simpa [ungrp_grp] using h.pos) []
  simp only [List.nil_append, List.length_nil] at this
  rw [this, omap_map]
  simp only [ungrp_grp]

/-! ### from `wfLin` to the internal facts -/

theorem wfLin_parts (lin : Lin) (fo : List Nat) (h : wfLin lin fo = true) :
    (∀ v ∈ lin.flatten, 0 ≤ v.1 ∧ v.1.toNat < fo.length) ∧
    (∀ i, i < fo.length →
      ((lin.flatten.filter fun v => v.1 == (i : Int)).map (·.2)) = List.range (fo[i]?.getD 0)) ∧
    (∀ a ∈ lin, a ≠ []) := by
  unfold wfLin at h
  simp only [Bool.and_eq_true, List.all_eq_true, decide_eq_true_eq, List.mem_range, beq_iff_eq] at h
  obtain ⟨⟨h1, h2⟩, h3⟩ := h
  refine ⟨?_, ?_, ?_⟩
  · intro v hv; exact h1 v hv
  · intro i hi; exact h2 i hi
  · intro a ha e
    have := (h3 a ha).1
    simp [e] at this

theorem idxOK_of_ranges (n : Nat) : ∀ (vars : List Var) (k : Int → Nat),
    (∀ v ∈ vars, 0 ≤ v.1 ∧ v.1.toNat < n) →
    (∀ i, i < n → ∃ len, ((vars.filter fun v => v.1 == (i : Int)).map (·.2)) = List.range' (k i) len) →
    idxOK k vars
  | [], _, _, _ => trivial
  | (p, j) :: vs, k, h1, h2 => by
    obtain ⟨hp0, hpn⟩ := h1 (p, j) (by simp)
    simp only at hp0 hpn
    have hp : ((p.toNat : Nat) : Int) = p := Int.toNat_of_nonneg hp0
    obtain ⟨len, hlen⟩ := h2 p.toNat hpn
    rw [hp] at hlen
    simp only [List.filter_cons, beq_self_eq_true, if_true, List.map_cons] at hlen
    cases len with
    | zero => simp at hlen
    | succ len' =>
      rw [List.range'_succ] at hlen
      obtain ⟨e1, e2⟩ := List.cons.inj hlen
      refine ⟨e1, ?_⟩
      apply idxOK_of_ranges n vs _ (fun v hv => h1 v (by simp [hv]))
      intro i hi
      by_cases e : (i : Int) = p
      · refine ⟨len', ?_⟩
        rw [e, e2]; simp [bumpF]
      · obtain ⟨l, hl⟩ := h2 i hi
        have : (p == (i : Int)) = false := by simpa using fun e' => e e'.symm
        simp only [List.filter_cons, this] at hl
        refine ⟨l, ?_⟩
        simpa [bumpF, e] using hl

theorem WF'_of_wfLin (lin : Lin) (fo : List Nat) (h : wfLin lin fo = true) : WF' lin := by
  obtain ⟨h1, h2, h3⟩ := wfLin_parts lin fo h
  refine ⟨h3, ?_, ?_⟩
  · intro a ha v hv
    exact (h1 v (List.mem_flatten.2 ⟨a, ha, hv⟩)).1
  · apply idxOK_of_ranges fo.length _ _ h1
    intro i hi
    exact ⟨_, by rw [h2 i hi, List.range_eq_range']⟩

theorem wfLin_bound (lin : Lin) (fo : List Nat) (h : wfLin lin fo = true) :
    ∀ v ∈ lin.flatten, 0 ≤ v.1 ∧ v.1.toNat < fo.length ∧ v.2 < fo[v.1.toNat]?.getD 0 := by
  obtain ⟨h1, h2, _⟩ := wfLin_parts lin fo h
  intro v hv
  obtain ⟨a, b⟩ := h1 v hv
  refine ⟨a, b, ?_⟩
  have := h2 v.1.toNat b
  have hm : v.2 ∈ ((lin.flatten.filter fun w => w.1 == ((v.1.toNat : Nat) : Int)).map (·.2)) := by
    apply List.mem_map.2
    refine ⟨v, ?_, rfl⟩
    rw [List.mem_filter]
    exact ⟨hv, by simp [Int.toNat_of_nonneg a]⟩
  rw [this] at hm
  exact List.mem_range.1 hm

/-! ### `restLin` keeps the internal facts -/

theorem runsOf_flatten : ∀ gs : List Grp, GOK gs →
    (runsOf gs).flatten = ((ungrp gs).filter fun v => v.1 != 0).map shift
  | [], _ => rfl
  | .z v :: t, h => by
    have : (v.1 != 0) = false := by simp [h.1]
    simp [runsOf, ungrp, this, runsOf_flatten t h.2]
  | .run r :: t, h => by
    have : r.filter (fun v => v.1 != 0) = r := by
      rw [List.filter_eq_self]
      intro v hv
      simpa using h.1.2 v hv
    simp [runsOf, ungrp, List.filter_append, this, runsOf_flatten t h.2]

theorem runsOf_mem : ∀ gs : List Grp, GOK gs → ∀ a ∈ runsOf gs, a ≠ [] ∧ ∀ v ∈ a, ∃ w ∈ ungrp gs, w.1 ≠ 0 ∧ v = shift w
  | [], _, a, ha => by simp [runsOf] at ha
  | .z v :: t, h, a, ha => by
    obtain ⟨h1, h2⟩ := runsOf_mem t h.2 a ha
    refine ⟨h1, fun x hx => ?_⟩
    obtain ⟨w, hw, e⟩ := h2 x hx
    exact ⟨w, by simp [ungrp, hw], e⟩
  | .run r :: t, h, a, ha => by
    simp only [runsOf, List.mem_cons] at ha
    rcases ha with rfl | ha
    · refine ⟨by simpa using h.1.1, fun x hx => ?_⟩
      obtain ⟨w, hw, rfl⟩ := List.mem_map.1 hx
      exact ⟨w, by simp [ungrp, hw], h.1.2 w hw, rfl⟩
    · obtain ⟨h1, h2⟩ := runsOf_mem t h.2 a ha
      refine ⟨h1, fun x hx => ?_⟩
      obtain ⟨w, hw, e⟩ := h2 x hx
      exact ⟨w, by simp [ungrp, hw], e⟩

theorem idxOK_rest : ∀ (vars : List Var) (k k' : Int → Nat), (∀ q, 0 ≤ q → k' q = k (q + 1)) →
    (∀ v ∈ vars, 0 ≤ v.1) → idxOK k vars → idxOK k' ((vars.filter fun v => v.1 != 0).map shift)
  | [], _, _, _, _, _ => trivial
  | (p, j) :: vs, k, k', hk, hp, hi => by
    have hp0 : 0 ≤ p := hp (p, j) (by simp)
    obtain ⟨hj, hi'⟩ := hi
    simp only at hj hi'
    by_cases hz : p = 0
    · subst hz
      have : (((0 : Int), j).1 != 0) = false := by simp
      rw [List.filter_cons_of_neg (by simp)]
      apply idxOK_rest vs (bumpF k 0) k' _ (fun v hv => hp v (by simp [hv])) hi'
      intro q hq
      have : ¬ q + 1 = 0 := by omega
      simp [bumpF, this, hk q hq]
    · rw [List.filter_cons_of_pos (by simpa using hz)]
      simp only [List.map_cons, shift, idxOK]
      refine ⟨by rw [hj, hk (p - 1) (by omega)]; congr 1; omega, ?_⟩
      apply idxOK_rest vs (bumpF k p) _ _ (fun v hv => hp v (by simp [hv])) hi'
      intro q hq
      simp only [bumpF, hk q hq]
      by_cases e : q = p - 1
      · simp [e]
      · have : ¬ q + 1 = p := by omega
        simp [e, this]

theorem flatMap_runsOf_flatten : ∀ lin : Lin,
    ((lin.map grp).flatMap runsOf).flatten = (lin.flatten.filter fun v => v.1 != 0).map shift
  | [] => rfl
  | a :: as => by
    rw [List.map_cons, List.flatMap_cons, List.flatten_append, runsOf_flatten _ (GOK_grp a), ungrp_grp,
      flatMap_runsOf_flatten as, List.flatten_cons, List.filter_append, List.map_append]

theorem WF'_restLin (lin : Lin) (h : WF' lin) : WF' (restLin lin) := by
  rw [restLin_eq lin h]
  have hmem : ∀ a ∈ (lin.map grp).flatMap runsOf, a ≠ [] ∧ ∀ v ∈ a, 0 ≤ v.1 := by
    intro a ha
    obtain ⟨gs, hgs, hag⟩ := List.mem_flatMap.1 ha
    obtain ⟨b, hb, rfl⟩ := List.mem_map.1 hgs
    obtain ⟨h1, h2⟩ := runsOf_mem (grp b) (GOK_grp b) a hag
    refine ⟨h1, fun v hv => ?_⟩
    obtain ⟨w, hw, hw0, rfl⟩ := h2 v hv
    rw [ungrp_grp] at hw
    have := h.pos b hb w hw
    simp only [shift]; omega
  refine ⟨fun a ha => (hmem a ha).1, fun a ha => (hmem a ha).2, ?_⟩
  rw [flatMap_runsOf_flatten]
  apply idxOK_rest lin.flatten (fun _ => 0) _ (fun _ _ => rfl) _ h.idx
  intro v hv
  obtain ⟨a, ha, hva⟩ := List.mem_flatten.1 hv
  exact h.pos a ha v hva

/-! ### the chain -/

theorem chainLins_succ (lin : Lin) (n : Nat) : chainLins lin (n + 1) = topLin lin :: chainLins (restLin lin) n := rfl

theorem chainLins_ne_nil (lin : Lin) (n : Nat) : chainLins lin n ≠ [] := by
  cases n <;> simp [chainLins]

theorem evalChain_cons (l : Lin) (ls : List Lin) (hls : ls ≠ []) (e : List (List Atom)) (elems : List (List (List Atom))) :
    evalChain (l :: ls) (e :: elems) = (evalChain ls elems).bind fun r => instLin l [e, r] := by
  cases ls with
  | nil => exact absurd rfl hls
  | cons l' ls' =>
    simp only [evalChain]
    cases evalChain (l' :: ls') elems <;> rfl

theorem evalChain_chainLins : ∀ (n : Nat) (lin : Lin) (elems : List (List (List Atom))), WF' lin → n ≤ elems.length →
    evalChain (chainLins lin n) elems = instLin lin elems
  | 0, lin, elems, _, _ => by simp [chainLins, evalChain]
  | n + 1, lin, [], _, hl => by simp at hl
  | n + 1, lin, e0 :: elems, h, hl => by
    rw [chainLins_succ, evalChain_cons _ _ (chainLins_ne_nil _ _),
      evalChain_chainLins n (restLin lin) elems (WF'_restLin lin h) (by simpa using hl), chain_step' lin h]

theorem omap_some_map {α β} (f : α → Option β) (g : α → β) : ∀ l : List α, (∀ a ∈ l, f a = some (g a)) →
    omap f l = some (l.map g)
  | [], _ => rfl
  | a :: as, h => by
    simp [omap, h a (by simp), omap_some_map f g as (fun b hb => h b (by simp [hb]))]

theorem flatten_singletons {α β} (g : α → β) : ∀ l : List α, (l.map fun a => [g a]).flatten = l.map g
  | [] => rfl
  | a :: as => by simp [flatten_singletons g as]

theorem instLin_formal (lin : Lin) (fo : List Nat) (h : wfLin lin fo = true) :
    instLin lin ((List.range fo.length).map fun i => formalBlocks i (fo[i]?.getD 0)) = some (linAtoms lin) := by
  have hb := wfLin_bound lin fo h
  rw [instLin_eq]
  unfold linAtoms
  apply omap_some_map
  intro a ha
  have hl : ∀ v ∈ a, look ((List.range fo.length).map fun i => formalBlocks i (fo[i]?.getD 0)) v =
      some [(v.1.toNat, v.2)] := by
    intro v hv
    obtain ⟨_, h2, h3⟩ := hb v (List.mem_flatten.2 ⟨a, ha, hv⟩)
    have h3' : v.2 < fo[v.1.toNat] := by
      rw [List.getElem?_eq_getElem h2] at h3; simpa using h3
    simp [look, formalBlocks, h2, List.getElem?_range h3']
  unfold evalArg
  rw [omap_some_map _ _ a hl]
  simp only [Option.map_some, Option.some.injEq]
  exact flatten_singletons _ a

end TT.Lemmas.GramBin
