/-
  Helper lemmas for C20 (label parsing / formatting).
-/
import TT.Spec.Label
namespace TT.Lemmas.C20
open TT TT.Spec

theorem splitLast_eq (c : Char) : ∀ (s a b : Str), splitLast c s = some (a, b) → s = a ++ c :: b
  | [], a, b, h => by simp [splitLast] at h
  | x :: xs, a, b, h => by
    unfold splitLast at h
    cases hr : splitLast c xs with
    | some p =>
      obtain ⟨a', b'⟩ := p
      rw [hr] at h
      simp only [Option.some.injEq, Prod.mk.injEq] at h
      obtain ⟨rfl, rfl⟩ := h
      have := splitLast_eq c xs a' b' hr
      simp [this]
    | none =>
      rw [hr] at h
      by_cases hx : x = c
      · simp [hx] at h
        obtain ⟨rfl, rfl⟩ := h
        simp [hx]
      · simp [hx] at h

theorem splitFirst_eq (c : Char) : ∀ (s a b : Str), splitFirst c s = some (a, b) → s = a ++ c :: b
  | [], a, b, h => by simp [splitFirst] at h
  | x :: xs, a, b, h => by
    unfold splitFirst at h
    by_cases hx : x = c
    · simp [hx] at h
      obtain ⟨rfl, rfl⟩ := h
      simp [hx]
    · simp only [hx, if_false] at h
      cases hr : splitFirst c xs with
      | some p =>
        obtain ⟨a', b'⟩ := p
        rw [hr] at h
        simp only [Option.some.injEq, Prod.mk.injEq] at h
        obtain ⟨rfl, rfl⟩ := h
        have := splitFirst_eq c xs a' b' hr
        simp [this]
      | none =>
        rw [hr] at h
        simp at h

theorem dropLast_append_of_getLast? {α} (s : List α) (x : α) (h : s.getLast? = some x) :
    s.dropLast ++ [x] = s := by
  have hne : s ≠ [] := by intro h0; simp [h0] at h
  have h2 := List.dropLast_concat_getLast hne
  rw [List.getLast?_eq_some_getLast hne] at h
  simp only [Option.some.injEq] at h
  rw [h] at h2
  exact h2

theorem pyIsDigit_ne_nil {b : Str} (h : pyIsDigit b = true) : b.isEmpty = false := by
  cases b <;> simp_all [pyIsDigit]

/-- `cutIndex` and `stripIndex` compute the same cut -/
theorem stripIndex_cutIndex (c : Char) (s : Str) :
    (stripIndex c s).2 = (cutIndex c s).1 ∧
    (if (stripIndex c s).1.isEmpty then [] else c :: (stripIndex c s).1) = (cutIndex c s).2 := by
  unfold stripIndex cutIndex
  cases h : splitLast c s with
  | none => simp
  | some p =>
    obtain ⟨a, b⟩ := p
    by_cases hd : pyIsDigit b = true
    · simp [hd, pyIsDigit_ne_nil hd]
    · simp [hd]

theorem cutIndex_concat (c : Char) (s : Str) : (cutIndex c s).1 ++ (cutIndex c s).2 = s := by
  unfold cutIndex
  cases h : splitLast c s with
  | none => simp
  | some p =>
    obtain ⟨a, b⟩ := p
    by_cases hd : pyIsDigit b = true
    · simp [hd, splitLast_eq c s a b h]
    · simp [hd]

/-- head-mark cut used by `decompose` -/
def cutHead (s : Str) : Str × Str :=
  if s.getLast? = some '\'' then (s.dropLast, ['\'']) else (s, [])

theorem cutHead_concat (s : Str) : (cutHead s).1 ++ (cutHead s).2 = s := by
  unfold cutHead
  by_cases h : s.getLast? = some '\''
  · simp only [h, if_true]; exact dropLast_append_of_getLast? s _ h
  · simp [h]

theorem stripHead_cutHead (s : Str) :
    (stripHead s).2 = (cutHead s).1 ∧
    (if (stripHead s).1 then ['\''] else []) = (cutHead s).2 := by
  unfold stripHead cutHead
  by_cases h : s.getLast? = some '\'' <;> simp [h]

/-- function cut used by `decompose` -/
def cutGf (sep s : Str) : Str × Str :=
  match sep with
  | [c] => (match splitFirst c s with
      | some (a, b) => if !a.isEmpty && !b.isEmpty then (a, c :: b) else (s, [])
      | none => (s, []))
  | _ => (s, [])

theorem cutGf_concat (sep s : Str) : (cutGf sep s).1 ++ (cutGf sep s).2 = s := by
  unfold cutGf
  split
  · rename_i c
    cases h : splitFirst c s with
    | none => simp
    | some p =>
      obtain ⟨a, b⟩ := p
      by_cases hd : (!a.isEmpty && !b.isEmpty) = true
      · simp only [hd, if_true]; exact (splitFirst_eq c s a b h).symm
      · simp [hd]
  · simp

/-- the (category, function) pair computed inside `parseLabel` -/
def parseGf (sep s : Str) : Str × Str :=
  match splitGf sep s with
  | some (a, b) => (a, b)
  | none => (s, DEFAULT_EDGE)

theorem parseGf_cutGf (sep s : Str) :
    (parseGf sep s).1 = (cutGf sep s).1 ∧
    (((cutGf sep s).2 = [] ∧ (parseGf sep s).2 = DEFAULT_EDGE) ∨
     ((cutGf sep s).2 = sep ++ (parseGf sep s).2 ∧ (cutGf sep s).2 ≠ [])) := by
  unfold parseGf cutGf splitGf
  match sep with
  | [] => simp
  | _ :: _ :: _ => simp
  | [c] =>
    cases h : splitFirst c s with
    | none => simp [h]
    | some p =>
      obtain ⟨a, b⟩ := p
      by_cases hd : (!a.isEmpty && !b.isEmpty) = true
      · simp [h, hd]
      · simp [h, hd]

theorem decompose_eq (sep s : Str) :
    decompose sep s =
      { cat := (cutGf sep (cutIndex '=' (cutIndex '-' (cutHead s).1).1).1).1
        gfP := (cutGf sep (cutIndex '=' (cutIndex '-' (cutHead s).1).1).1).2
        gapP := (cutIndex '=' (cutIndex '-' (cutHead s).1).1).2
        coP := (cutIndex '-' (cutHead s).1).2
        hmP := (cutHead s).2 } := by
  unfold decompose cutHead cutGf
  rfl

theorem parseLabel_eq (sep s : Str) :
    parseLabel sep s =
      let s3 := (stripIndex '=' (stripIndex '-' (stripHead s).2).2).2
      let lab := (parseGf sep s3).1
      let lab' := if lab.isEmpty then DEFAULT_LABEL else lab
      { label := lab'
        gf := (parseGf sep s3).2
        gfSep := sep
        coindex := (stripIndex '-' (stripHead s).2).1
        gapindex := (stripIndex '=' (stripIndex '-' (stripHead s).2).2).1
        headmarker := (stripHead s).1
        isTrace := isTraceLabel lab' } := by
  unfold parseLabel parseGf
  rfl

/-- formatting a parsed record equals rendering the corresponding pieces -/
theorem format_render (sep lab gf gfP gap co : Str) (hm tr al ag : Bool)
    (hf2 : (gfP = [] ∧ gf = DEFAULT_EDGE) ∨ (gfP = sep ++ gf ∧ gfP ≠ [])) :
    formatLabel al ag
      { label := if lab.isEmpty then DEFAULT_LABEL else lab, gf := gf, gfSep := sep, coindex := co,
        gapindex := gap, headmarker := hm, isTrace := tr }
    = render sep al ag
      { cat := lab, gfP := gfP, gapP := if gap.isEmpty then [] else '=' :: gap,
        coP := if co.isEmpty then [] else '-' :: co, hmP := if hm then ['\''] else [] } := by
  simp only [formatLabel, render]
  have hcat :
      (if (decide ((if lab.isEmpty = true then DEFAULT_LABEL else lab) ≠ DEFAULT_LABEL) || al) = true
        then (if lab.isEmpty = true then DEFAULT_LABEL else lab) else [])
      = (if lab.isEmpty = true then (if al = true then DEFAULT_LABEL else [])
         else if (decide (lab = DEFAULT_LABEL) && !al) = true then [] else lab) := by
    by_cases he : lab.isEmpty = true
    · cases al <;> simp [he]
    · by_cases hd : lab = DEFAULT_LABEL <;> cases al <;> simp [he, hd]
  have hgf :
      (if (decide (gf ≠ DEFAULT_EDGE) || ag) = true then sep ++ gf else [])
      = (if gfP.isEmpty = true then (if ag = true then sep ++ DEFAULT_EDGE else [])
         else if (decide (gfP = sep ++ DEFAULT_EDGE) && !ag) = true then [] else gfP) := by
    rcases hf2 with ⟨h1, h2⟩ | ⟨h1, h2⟩
    · subst h1 h2; cases ag <;> simp
    · have he : gfP.isEmpty = false := by cases gfP <;> simp_all
      subst h1
      by_cases hd : gf = DEFAULT_EDGE <;> cases ag <;> simp [he, hd]
  rw [hcat, hgf]
  simp only [List.append_assoc]

/-- `parseLabel` and `decompose` cut the string at the same places -/
theorem parse_decompose (sep s : Str) :
    ∃ (lab gf gfP gap co : Str) (hm : Bool),
      ((gfP = [] ∧ gf = DEFAULT_EDGE) ∨ (gfP = sep ++ gf ∧ gfP ≠ [])) ∧
      parseLabel sep s =
        { label := if lab.isEmpty then DEFAULT_LABEL else lab, gf := gf, gfSep := sep, coindex := co,
          gapindex := gap, headmarker := hm,
          isTrace := isTraceLabel (if lab.isEmpty then DEFAULT_LABEL else lab) } ∧
      decompose sep s =
        { cat := lab, gfP := gfP, gapP := if gap.isEmpty then [] else '=' :: gap,
          coP := if co.isEmpty then [] else '-' :: co, hmP := if hm then ['\''] else [] } := by
  obtain ⟨hh1, hh2⟩ := stripHead_cutHead s
  obtain ⟨hc1, hc2⟩ := stripIndex_cutIndex '-' (stripHead s).2
  obtain ⟨hg1, hg2⟩ := stripIndex_cutIndex '=' (stripIndex '-' (stripHead s).2).2
  obtain ⟨hf1, hf2⟩ := parseGf_cutGf sep (stripIndex '=' (stripIndex '-' (stripHead s).2).2).2
  refine ⟨(parseGf sep (stripIndex '=' (stripIndex '-' (stripHead s).2).2).2).1,
    (parseGf sep (stripIndex '=' (stripIndex '-' (stripHead s).2).2).2).2,
    (cutGf sep (stripIndex '=' (stripIndex '-' (stripHead s).2).2).2).2,
    (stripIndex '=' (stripIndex '-' (stripHead s).2).2).1,
    (stripIndex '-' (stripHead s).2).1, (stripHead s).1, hf2, parseLabel_eq sep s, ?_⟩
  rw [decompose_eq, ← hh1, ← hc1, ← hg1, ← hh2, ← hc2, ← hg2, ← hf1]

end TT.Lemmas.C20
