/-
  Helper lemmas for C02 (writers): XML escaping, `replaceAll`/`replaceParens`, `splitWs` with tabs,
  `mapM` in `Except`, and the bracket writer/decoder correspondence.
-/
import TT.Spec.Formats
import TT.Lemmas.GramOut
import TT.Lemmas.WF
namespace TT.Lemmas.Write
open TT TT.Tree TT.Spec

/-! ### XML escaping -/


/-- the escape of one character -/
def esc1 (c : Char) : Str :=
  if c = '&' then ['&','a','m','p',';'] else if c = '<' then ['&','l','t',';'] else if c = '>' then ['&','g','t',';']
  else if c = '\n' then ['&','#','1','0',';'] else if c = '\r' then ['&','#','1','3',';'] else if c = '\t' then ['&','#','9',';']
  else [c]

theorem xmlEscape_eq (s : Str) : xmlEscape s = s.flatMap esc1 := rfl

theorem unescapeAux_cons_ne (fuel : Nat) (c : Char) (r : Str) (h : c ≠ '&') :
    unescapeAux (fuel + 1) (c :: r) = c :: unescapeAux fuel r := by
  rw [unescapeAux]
  intro h'; exact h h'

theorem s2n_10 : strToNat? ['1', '0'] = some 10 := by decide
theorem s2n_13 : strToNat? ['1', '3'] = some 13 := by decide
theorem s2n_9 : strToNat? ['9'] = some 9 := by decide

/-- an escape function that the decoder inverts character by character -/
def Inverts (g : Char → Str) : Prop :=
  ∀ (c : Char) (fuel : Nat) (rest : Str), unescapeAux (fuel + 1) (g c ++ rest) = c :: unescapeAux fuel rest

theorem esc1_inverts : Inverts esc1 := by
  intro c fuel rest
  unfold esc1
  split
  · subst_vars; simp [unescapeAux]
  split
  · subst_vars; simp [unescapeAux]
  split
  · subst_vars; simp [unescapeAux]
  split
  · subst_vars; simp [unescapeAux, s2n_10]
  split
  · subst_vars; simp [unescapeAux, s2n_13]
  split
  · subst_vars; simp [unescapeAux, s2n_9]
  · rename_i h _ _ _ _ _ 
    exact unescapeAux_cons_ne fuel c rest h

theorem unescapeAux_flatMap (g : Char → Str) (hg : Inverts g) (s : Str) :
    ∀ fuel, s.length ≤ fuel → unescapeAux fuel (s.flatMap g) = s := by
  induction s with
  | nil => intro fuel _; cases fuel <;> simp [unescapeAux]
  | cons c r ih =>
    intro fuel hf
    obtain ⟨n, rfl⟩ : ∃ n, fuel = n + 1 := ⟨fuel - 1, by simp at hf; omega⟩
    rw [List.flatMap_cons, hg c n, ih n (by simpa using hf)]

theorem length_le_flatMap (g : Char → Str) (hg : ∀ c, g c ≠ []) (s : Str) : s.length ≤ (s.flatMap g).length := by
  induction s with
  | nil => simp
  | cons c r ih =>
    have : 0 < (g c).length := List.length_pos_iff.2 (hg c)
    simp only [List.flatMap_cons, List.length_append, List.length_cons]; omega

theorem Inverts.ne_nil {g : Char → Str} (hg : Inverts g) (c : Char) : g c ≠ [] := by
  intro h
  have := hg c 0 []
  simp [h, unescapeAux] at this

theorem unescapeXml_flatMap (g : Char → Str) (hg : Inverts g) (s : Str) : unescapeXml (s.flatMap g) = s := by
  unfold unescapeXml
  exact unescapeAux_flatMap g hg s _ (by have := length_le_flatMap g hg.ne_nil s; omega)
  

def quot1 (c : Char) : Str := if c = '"' then ['&','q','u','o','t',';'] else [c]
def esc2 (c : Char) : Str := if c = '"' then ['&','q','u','o','t',';'] else esc1 c

theorem quoteattr_eq (s : Str) : quoteattr s =
    if (xmlEscape s).contains '"' then
      (if (xmlEscape s).contains '\'' then ['"'] ++ ((xmlEscape s).flatMap quot1) ++ ['"'] else ['\''] ++ xmlEscape s ++ ['\''])
    else ['"'] ++ xmlEscape s ++ ['"'] := rfl

theorem esc1_quot1 (c : Char) : (esc1 c).flatMap quot1 = esc2 c := by
  unfold esc2 esc1
  by_cases h : c = '"'
  · subst h; decide
  · simp only [h, if_false]
    repeat' split
    all_goals first | decide | simp [quot1, h]

theorem esc2_inverts : Inverts esc2 := by
  intro c fuel rest
  unfold esc2
  split
  · subst_vars; simp [unescapeAux]
  · exact esc1_inverts c fuel rest

theorem not_mem_flatMap (g : Char → Str) (x : Char) (h : ∀ c, x ∉ g c) (s : Str) : x ∉ s.flatMap g := by
  simp [List.mem_flatMap, h]

theorem lt_not_mem_esc1 (c : Char) : '<' ∉ esc1 c := by
  unfold esc1
  repeat' split
  all_goals first | decide | (simp; intro h; subst h; simp_all)

theorem lt_not_mem_esc2 (c : Char) : '<' ∉ esc2 c := by
  unfold esc2; split
  · decide
  · exact lt_not_mem_esc1 c

theorem dq_not_mem_esc2 (c : Char) : '"' ∉ esc2 c := by
  unfold esc2 esc1
  repeat' split
  all_goals first | decide | (simp; intro h; subst h; simp_all)


/-! ### `replaceAll` and `replaceParens` -/


theorem mem_replaceAllAux (old new : Str) (c : Char) : ∀ (n : Nat) (s : Str),
    c ∈ replaceAllAux old new n s → c ∈ s ∨ c ∈ new := by
  intro n
  induction n with
  | zero => intro s h; simp [replaceAllAux] at h; exact Or.inl h
  | succ n ih =>
    intro s h
    cases s with
    | nil => simp [replaceAllAux] at h
    | cons x xs =>
      rw [replaceAllAux] at h
      split at h
      · rcases List.mem_append.1 h with h | h
        · exact Or.inr h
        · rcases ih _ h with h | h
          · exact Or.inl (List.mem_of_mem_drop h)
          · exact Or.inr h
      · rcases List.mem_cons.1 h with h | h
        · exact Or.inl (by simp [h])
        · rcases ih _ h with h | h
          · exact Or.inl (by simp [h])
          · exact Or.inr h

theorem mem_replaceAll (old new s : Str) (c : Char) (h : c ∈ replaceAll old new s) : c ∈ s ∨ c ∈ new :=
  mem_replaceAllAux old new c _ s h

theorem not_mem_replaceAllAux_single (c : Char) (new : Str) (hc : c ∉ new) : ∀ (n : Nat) (s : Str),
    s.length ≤ n → c ∉ replaceAllAux [c] new n s := by
  intro n
  induction n with
  | zero => intro s h; have : s = [] := by simpa using h
            subst this; simp [replaceAllAux]
  | succ n ih =>
    intro s h
    cases s with
    | nil => simp [replaceAllAux]
    | cons x xs =>
      rw [replaceAllAux]
      simp only [List.length_cons, Nat.add_le_add_iff_right] at h
      by_cases hx : x = c
      · subst hx
        simp only [List.isPrefixOf, beq_self_eq_true, List.isEmpty_cons, Bool.not_false,
          Bool.and_true, if_true, List.length_cons, List.length_nil, List.drop_succ_cons, List.drop_zero, List.mem_append, not_or]
        exact ⟨hc, ih xs h⟩
      · have : ([c].isPrefixOf (x :: xs) && ![c].isEmpty) = false := by
          simp [List.isPrefixOf, Ne.symm hx]
        rw [this]
        simp only [Bool.false_eq_true, if_false, List.mem_cons, not_or]
        exact ⟨fun e => hx e.symm, ih xs h⟩

theorem not_mem_replaceAll_single (c : Char) (new s : Str) (hc : c ∉ new) : c ∉ replaceAll [c] new s :=
  not_mem_replaceAllAux_single c new hc _ s (Nat.le_succ _)

theorem replaceAllAux_id (old new : Str) : ∀ (n : Nat) (s : Str), ¬ old <:+: s → replaceAllAux old new n s = s := by
  intro n
  induction n with
  | zero => intro s _; simp [replaceAllAux]
  | succ n ih =>
    intro s h
    cases s with
    | nil => simp [replaceAllAux]
    | cons x xs =>
      rw [replaceAllAux]
      have h1 : old.isPrefixOf (x :: xs) = false := by
        rw [Bool.eq_false_iff]; intro hp
        exact h (List.isPrefixOf_iff_prefix.1 hp).isInfix
      rw [h1]
      simp only [Bool.false_and, Bool.false_eq_true, if_false]
      rw [ih xs (fun hi => h (hi.trans (List.suffix_cons x xs).isInfix))]

theorem replaceAll_id (old new s : Str) (h : ¬ old <:+: s) : replaceAll old new s = s :=
  replaceAllAux_id old new _ s h

/-- the fold of `replaceParens` over an arbitrary table -/
def replFold (L : List (Str × Str)) (s : Str) : Str := L.foldl (fun acc (kv : Str × Str) => replaceAll kv.1 kv.2 acc) s

theorem replaceParens_eq (s : Str) : replaceParens s = replFold Gen.BRACKETS s := rfl

theorem mem_replFold (c : Char) : ∀ (L : List (Str × Str)) (s : Str), c ∈ replFold L s → c ∈ s ∨ ∃ kv ∈ L, c ∈ kv.2 := by
  intro L
  induction L with
  | nil => intro s h; exact Or.inl h
  | cons kv L ih =>
    intro s h
    replace h : c ∈ replFold L (replaceAll kv.1 kv.2 s) := h
    rcases ih _ h with h | ⟨kv', hk, hc⟩
    · rcases mem_replaceAll _ _ _ _ h with h | h
      · exact Or.inl h
      · exact Or.inr ⟨kv, by simp, h⟩
    · exact Or.inr ⟨kv', by simp [hk], hc⟩

theorem not_mem_replFold (c : Char) : ∀ (L : List (Str × Str)), (∀ kv ∈ L, c ∉ kv.2) → ∀ s : Str,
    (c ∉ s ∨ ∃ kv ∈ L, kv.1 = [c]) → c ∉ replFold L s := by
  intro L
  induction L with
  | nil => intro _ s h; rcases h with h | ⟨_, h, _⟩
           · exact h
           · simp at h
  | cons kv L ih =>
    intro hv s h
    show c ∉ replFold L (replaceAll kv.1 kv.2 s)
    refine ih (fun kv' hk => hv kv' (by simp [hk])) _ ?_
    by_cases hk : kv.1 = [c]
    · left; rw [hk]; exact not_mem_replaceAll_single c _ _ (hv kv (by simp))
    · rcases h with h | ⟨kv', hm, hk'⟩
      · left; intro hc
        rcases mem_replaceAll _ _ _ _ hc with hc | hc
        · exact h hc
        · exact hv kv (by simp) hc
      · right
        rcases List.mem_cons.1 hm with rfl | hm
        · exact absurd hk' hk
        · exact ⟨kv', hm, hk'⟩

theorem replFold_id : ∀ (L : List (Str × Str)) (s : Str), (∀ kv ∈ L, ¬ kv.1 <:+: s) → replFold L s = s := by
  intro L
  induction L with
  | nil => intro s _; rfl
  | cons kv L ih =>
    intro s h
    show replFold L (replaceAll kv.1 kv.2 s) = s
    rw [replaceAll_id _ _ _ (h kv (by simp))]
    exact ih s (fun kv' hk => h kv' (by simp [hk]))


theorem brackets_vals (c : Char) (hc : c = '(' ∨ c = ')' ∨ c = '[' ∨ c = ']' ∨ c = '{' ∨ c = '}' ∨ c = '-') :
    ∀ kv ∈ Gen.BRACKETS, c ∉ kv.2 := by
  rcases hc with rfl | rfl | rfl | rfl | rfl | rfl | rfl <;> decide

theorem brackets_keys (c : Char) (hc : c = '(' ∨ c = ')' ∨ c = '[' ∨ c = ']' ∨ c = '{' ∨ c = '}') :
    ∃ kv ∈ Gen.BRACKETS, kv.1 = [c] := by
  rcases hc with rfl | rfl | rfl | rfl | rfl | rfl <;> decide

theorem brackets_keys_shape : ∀ kv ∈ Gen.BRACKETS,
    (1 < kv.1.length ∧ '-' ∈ kv.1) ∨ kv.1 ∈ [['('], [')'], ['['], [']'], ['{'], ['}']] := by
  decide

/-! ### `Except`, `mapM`, paths -/

theorem mapM_ok_length {ε α β : Type} (f : α → Except ε β) : ∀ (l : List α) (r : List β),
    l.mapM f = .ok r → r.length = l.length := by
  intro l
  induction l with
  | nil => intro r h; simp [pure, Except.pure] at h; subst h; rfl
  | cons a l ih =>
    intro r h
    rw [List.mapM_cons] at h
    cases ha : f a with
    | error e => simp [ha, bind, Except.bind] at h
    | ok b =>
      cases hl : l.mapM f with
      | error e => simp [ha, hl, bind, Except.bind] at h
      | ok bs =>
        simp [ha, hl, bind, Except.bind, pure, Except.pure] at h
        subst h
        simp [ih bs hl]

theorem bind_eq_ok {ε α β : Type} (x : Except ε α) (f : α → Except ε β) (b : β) (h : (x >>= f) = .ok b) :
    ∃ a, x = .ok a ∧ f a = .ok b := by
  cases x with
  | error e => simp [bind, Except.bind] at h
  | ok a => exact ⟨a, rfl, h⟩

mutual
theorem get?_isSome_of_mem_paths : (t : Tree) → ∀ p ∈ paths t, (t.get? p).isSome = true
  | .leaf _ _ => by simp [paths, get?]
  | .node f ks => by
    intro p hp
    simp only [paths, List.mem_cons] at hp
    rcases hp with rfl | hp
    · simp [get?]
    · obtain ⟨j, k, q, rfl, hk, hq⟩ := mem_pathsL ks 0 p hp
      simpa [get?, hk] using hq
theorem mem_pathsL : (ts : List Tree) → (i : Nat) → ∀ p ∈ pathsL ts i,
    ∃ j k q, p = (i + j) :: q ∧ ts[j]? = some k ∧ (k.get? q).isSome = true
  | [], _ => by simp [pathsL]
  | t :: ts, i => by
    intro p hp
    simp only [pathsL, List.mem_append, List.mem_map] at hp
    rcases hp with ⟨q, hq, rfl⟩ | hp
    · exact ⟨0, t, q, rfl, rfl, get?_isSome_of_mem_paths t q hq⟩
    · obtain ⟨j, k, q, rfl, hk, hq⟩ := mem_pathsL ts (i + 1) p hp
      exact ⟨j + 1, k, q, by simp; omega, by simpa using hk, hq⟩
end

theorem get?_isSome_of_mem_preorderP (t : Tree) (p : Path) (h : p ∈ preorderP t) : (t.get? p).isSome = true :=
  get?_isSome_of_mem_paths t p ((Lemmas.Nav.preorderP_perm_paths t).subset h)

theorem filterMap_length_of_isSome {α β : Type} (g : α → Option β) : ∀ l : List α, (∀ a ∈ l, (g a).isSome = true) →
    (l.filterMap g).length = l.length := by
  intro l
  induction l with
  | nil => simp
  | cons a l ih =>
    intro h
    obtain ⟨b, hb⟩ := Option.isSome_iff_exists.1 (h a (by simp))
    simp [hb, ih (fun x hx => h x (by simp [hx]))]

theorem filter_length_add {α : Type} (p : α → Bool) (l : List α) :
    (l.filter p).length + (l.filter fun a => !p a).length = l.length := by
  induction l with
  | nil => simp
  | cons a l ih => by_cases h : p a <;> simp [h] <;> omega

theorem bos_eq : "#BOS ".toList = ['#','B','O','S',' '] := rfl
theorem eos_eq : "#EOS ".toList = ['#','E','O','S',' '] := rfl

/-! ### export lines -/
open TT.Lemmas.GramOut

theorem splitWs_tabs (n : Nat) (rest : Str) : splitWs (exportTabs n ++ rest) = splitWs rest := by
  have ht : pyIsSpace '\t' = true := by decide
  unfold exportTabs
  split
  · simp only [List.cons_append, List.nil_append]; rw [splitWs_sep _ ht, splitWs_sep _ ht, splitWs_sep _ ht]
  split
  · simp only [List.cons_append, List.nil_append]; rw [splitWs_sep _ ht, splitWs_sep _ ht]
  · simp only [List.cons_append, List.nil_append]; rw [splitWs_sep _ ht]

theorem exportTabs_cons (n : Nat) : ∃ r, exportTabs n = '\t' :: r ∧ ∀ rest, splitWs (r ++ rest) = splitWs rest := by
  have ht : pyIsSpace '\t' = true := by decide
  unfold exportTabs
  split
  · exact ⟨_, rfl, fun rest => by simp only [List.cons_append, List.nil_append]; rw [splitWs_sep _ ht, splitWs_sep _ ht]⟩
  split
  · exact ⟨_, rfl, fun rest => by simp only [List.cons_append, List.nil_append]; rw [splitWs_sep _ ht]⟩
  · exact ⟨_, rfl, fun rest => rfl⟩

/-- a field followed by the tab padding -/
theorem splitWs_word_tabs (a : Str) (n : Nat) (rest : Str) (ha : a ≠ [] ∧ ∀ c ∈ a, pyIsSpace c = false) :
    splitWs (a ++ (exportTabs n ++ rest)) = a :: splitWs rest := by
  obtain ⟨r, hr, hs⟩ := exportTabs_cons n
  rw [hr, List.cons_append, splitWs_word_sep a _ '\t' (by decide) ha, hs]

theorem splitWs_word_tab (a : Str) (rest : Str) (ha : a ≠ [] ∧ ∀ c ∈ a, pyIsSpace c = false) :
    splitWs (a ++ ('\t' :: rest)) = a :: splitWs rest :=
  splitWs_word_sep a _ '\t' (by decide) ha

theorem printedLabel_of_ok (o : OutOpts) (t : Tree) (l : Str)
    (h : getLabel o (t.setFields fun g => { g with edge := some (g.edge.getD DEFAULT_EDGE) }) = .ok l) :
    printedLabel o t = l := by
  unfold printedLabel; rw [h]

theorem setFields_edge_eq (t : Tree) :
    (t.setFields fun g => { g with edge := some (t.fields.edge.getD DEFAULT_EDGE) }) =
    (t.setFields fun g => { g with edge := some (g.edge.getD DEFAULT_EDGE) }) := by
  cases t <;> rfl


end TT.Lemmas.Write
