/-
  Helper lemmas for C02 (writers): XML escaping, `replaceAll`/`replaceParens`, `splitWs` with tabs,
  `mapM` in `Except`, and the bracket writer/decoder correspondence.
-/
import TT.Spec.Formats
import TT.Lemmas.GramOut
import TT.Lemmas.WF
import TT.Props.C16
namespace TT.Lemmas.Write
open TT TT.Tree TT.Spec

/-! ### XML escaping -/


/-- the escape of one character -/
def esc1 (c : Char) : Str :=
  if c = '&' then ['&','a','m','p',';'] else if c = '<' then ['&','l','t',';'] else if c = '>' then ['&','g','t',';']
  else if c = '\n' then ['&','#','1','0',';'] else if c = '\r' then ['&','#','1','3',';'] else if c = '\t' then ['&','#','9',';']
  else [c]

theorem xmlEscape_eq (s : Str) : xmlEscape s = s.flatMap esc1 := rfl

theorem unescapeAux_cons_ne (fuel : Nat) (c : Char) (r : Str) (h : c ≠ '&') :
    unescapeAux (fuel + 1) (c :: r) = c :: unescapeAux fuel r := by
  rw [unescapeAux]
  intro h'; exact h h'

theorem s2n_10 : strToNat? ['1', '0'] = some 10 := by decide
theorem s2n_13 : strToNat? ['1', '3'] = some 13 := by decide
theorem s2n_9 : strToNat? ['9'] = some 9 := by decide

/-- an escape function that the decoder inverts character by character -/
def Inverts (g : Char → Str) : Prop :=
  ∀ (c : Char) (fuel : Nat) (rest : Str), unescapeAux (fuel + 1) (g c ++ rest) = c :: unescapeAux fuel rest

theorem esc1_inverts : Inverts esc1 := by
  intro c fuel rest
  unfold esc1
  split
  · subst_vars; simp [unescapeAux]
  split
  · subst_vars; simp [unescapeAux]
  split
  · subst_vars; simp [unescapeAux]
  split
  · subst_vars; simp [unescapeAux, s2n_10]
  split
  · subst_vars; simp [unescapeAux, s2n_13]
  split
  · subst_vars; simp [unescapeAux, s2n_9]
  · rename_i h _ _ _ _ _ 
    exact unescapeAux_cons_ne fuel c rest h

theorem unescapeAux_flatMap (g : Char → Str) (hg : Inverts g) (s : Str) :
    ∀ fuel, s.length ≤ fuel → unescapeAux fuel (s.flatMap g) = s := by
  induction s with
  | nil => intro fuel _; cases fuel <;> simp [unescapeAux]
  | cons c r ih =>
    intro fuel hf
    obtain ⟨n, rfl⟩ : ∃ n, fuel = n + 1 := ⟨fuel - 1, by simp at hf; omega⟩
    rw [List.flatMap_cons, hg c n, ih n (by simpa using hf)]

theorem length_le_flatMap (g : Char → Str) (hg : ∀ c, g c ≠ []) (s : Str) : s.length ≤ (s.flatMap g).length := by
  induction s with
  | nil => simp
  | cons c r ih =>
    have : 0 < (g c).length := List.length_pos_iff.2 (hg c)
    simp only [List.flatMap_cons, List.length_append, List.length_cons]; omega

theorem Inverts.ne_nil {g : Char → Str} (hg : Inverts g) (c : Char) : g c ≠ [] := by
  intro h
  have := hg c 0 []
  simp [h, unescapeAux] at this

theorem unescapeXml_flatMap (g : Char → Str) (hg : Inverts g) (s : Str) : unescapeXml (s.flatMap g) = s := by
  unfold unescapeXml
  exact unescapeAux_flatMap g hg s _ (by have := length_le_flatMap g hg.ne_nil s; omega)
  

def quot1 (c : Char) : Str := if c = '"' then ['&','q','u','o','t',';'] else [c]
def esc2 (c : Char) : Str := if c = '"' then ['&','q','u','o','t',';'] else esc1 c

theorem quoteattr_eq (s : Str) : quoteattr s =
    if (xmlEscape s).contains '"' then
      (if (xmlEscape s).contains '\'' then ['"'] ++ ((xmlEscape s).flatMap quot1) ++ ['"'] else ['\''] ++ xmlEscape s ++ ['\''])
    else ['"'] ++ xmlEscape s ++ ['"'] := rfl

theorem esc1_quot1 (c : Char) : (esc1 c).flatMap quot1 = esc2 c := by
  unfold esc2 esc1
  by_cases h : c = '"'
  · subst h; decide
  · simp only [h, if_false]
    repeat' split
    all_goals first | decide | simp [quot1, h]

theorem esc2_inverts : Inverts esc2 := by
  intro c fuel rest
  unfold esc2
  split
  · subst_vars; simp [unescapeAux]
  · exact esc1_inverts c fuel rest

theorem not_mem_flatMap (g : Char → Str) (x : Char) (h : ∀ c, x ∉ g c) (s : Str) : x ∉ s.flatMap g := by
  simp [List.mem_flatMap, h]

theorem lt_not_mem_esc1 (c : Char) : '<' ∉ esc1 c := by
  unfold esc1
  repeat' split
  all_goals first | decide | (simp; intro h; subst h; simp_all)

theorem lt_not_mem_esc2 (c : Char) : '<' ∉ esc2 c := by
  unfold esc2; split
  · decide
  · exact lt_not_mem_esc1 c

theorem dq_not_mem_esc2 (c : Char) : '"' ∉ esc2 c := by
  unfold esc2 esc1
  repeat' split
  all_goals first | decide | (simp; intro h; subst h; simp_all)


/-! ### `replaceAll` and `replaceParens` -/


theorem mem_replaceAllAux (old new : Str) (c : Char) : ∀ (n : Nat) (s : Str),
    c ∈ replaceAllAux old new n s → c ∈ s ∨ c ∈ new := by
  intro n
  induction n with
  | zero => intro s h; simp [replaceAllAux] at h; exact Or.inl h
  | succ n ih =>
    intro s h
    cases s with
    | nil => simp [replaceAllAux] at h
    | cons x xs =>
      rw [replaceAllAux] at h
      split at h
      · rcases List.mem_append.1 h with h | h
        · exact Or.inr h
        · rcases ih _ h with h | h
          · exact Or.inl (List.mem_of_mem_drop h)
          · exact Or.inr h
      · rcases List.mem_cons.1 h with h | h
        · exact Or.inl (by simp [h])
        · rcases ih _ h with h | h
          · exact Or.inl (by simp [h])
          · exact Or.inr h

theorem mem_replaceAll (old new s : Str) (c : Char) (h : c ∈ replaceAll old new s) : c ∈ s ∨ c ∈ new :=
  mem_replaceAllAux old new c _ s h

theorem not_mem_replaceAllAux_single (c : Char) (new : Str) (hc : c ∉ new) : ∀ (n : Nat) (s : Str),
    s.length ≤ n → c ∉ replaceAllAux [c] new n s := by
  intro n
  induction n with
  | zero => intro s h; have : s = [] := by simpa using h
            subst this; simp [replaceAllAux]
  | succ n ih =>
    intro s h
    cases s with
    | nil => simp [replaceAllAux]
    | cons x xs =>
      rw [replaceAllAux]
      simp only [List.length_cons, Nat.add_le_add_iff_right] at h
      by_cases hx : x = c
      · subst hx
        simp only [List.isPrefixOf, beq_self_eq_true, List.isEmpty_cons, Bool.not_false,
          Bool.and_true, if_true, List.length_cons, List.length_nil, List.drop_succ_cons, List.drop_zero, List.mem_append, not_or]
        exact ⟨hc, ih xs h⟩
      · have : ([c].isPrefixOf (x :: xs) && ![c].isEmpty) = false := by
          simp [List.isPrefixOf, Ne.symm hx]
        rw [this]
        simp only [Bool.false_eq_true, if_false, List.mem_cons, not_or]
        exact ⟨fun e => hx e.symm, ih xs h⟩

theorem not_mem_replaceAll_single (c : Char) (new s : Str) (hc : c ∉ new) : c ∉ replaceAll [c] new s :=
  not_mem_replaceAllAux_single c new hc _ s (Nat.le_succ _)

theorem replaceAllAux_id (old new : Str) : ∀ (n : Nat) (s : Str), ¬ old <:+: s → replaceAllAux old new n s = s := by
  intro n
  induction n with
  | zero => intro s _; simp [replaceAllAux]
  | succ n ih =>
    intro s h
    cases s with
    | nil => simp [replaceAllAux]
    | cons x xs =>
      rw [replaceAllAux]
      have h1 : old.isPrefixOf (x :: xs) = false := by
        rw [Bool.eq_false_iff]; intro hp
        exact h (List.isPrefixOf_iff_prefix.1 hp).isInfix
      rw [h1]
      simp only [Bool.false_and, Bool.false_eq_true, if_false]
      rw [ih xs (fun hi => h (hi.trans (List.suffix_cons x xs).isInfix))]

theorem replaceAll_id (old new s : Str) (h : ¬ old <:+: s) : replaceAll old new s = s :=
  replaceAllAux_id old new _ s h

/-- the fold of `replaceParens` over an arbitrary table -/
def replFold (L : List (Str × Str)) (s : Str) : Str := L.foldl (fun acc (kv : Str × Str) => replaceAll kv.1 kv.2 acc) s

theorem replaceParens_eq (s : Str) : replaceParens s = replFold Gen.BRACKETS s := rfl

theorem mem_replFold (c : Char) : ∀ (L : List (Str × Str)) (s : Str), c ∈ replFold L s → c ∈ s ∨ ∃ kv ∈ L, c ∈ kv.2 := by
  intro L
  induction L with
  | nil => intro s h; exact Or.inl h
  | cons kv L ih =>
    intro s h
    replace h : c ∈ replFold L (replaceAll kv.1 kv.2 s) := h
    rcases ih _ h with h | ⟨kv', hk, hc⟩
    · rcases mem_replaceAll _ _ _ _ h with h | h
      · exact Or.inl h
      · exact Or.inr ⟨kv, by simp, h⟩
    · exact Or.inr ⟨kv', by simp [hk], hc⟩

theorem not_mem_replFold (c : Char) : ∀ (L : List (Str × Str)), (∀ kv ∈ L, c ∉ kv.2) → ∀ s : Str,
    (c ∉ s ∨ ∃ kv ∈ L, kv.1 = [c]) → c ∉ replFold L s := by
  intro L
  induction L with
  | nil => intro _ s h; rcases h with h | ⟨_, h, _⟩
           · exact h
           · simp at h
  | cons kv L ih =>
    intro hv s h
    show c ∉ replFold L (replaceAll kv.1 kv.2 s)
    refine ih (fun kv' hk => hv kv' (by simp [hk])) _ ?_
    by_cases hk : kv.1 = [c]
    · left; rw [hk]; exact not_mem_replaceAll_single c _ _ (hv kv (by simp))
    · rcases h with h | ⟨kv', hm, hk'⟩
      · left; intro hc
        rcases mem_replaceAll _ _ _ _ hc with hc | hc
        · exact h hc
        · exact hv kv (by simp) hc
      · right
        rcases List.mem_cons.1 hm with rfl | hm
        · exact absurd hk' hk
        · exact ⟨kv', hm, hk'⟩

theorem replFold_id : ∀ (L : List (Str × Str)) (s : Str), (∀ kv ∈ L, ¬ kv.1 <:+: s) → replFold L s = s := by
  intro L
  induction L with
  | nil => intro s _; rfl
  | cons kv L ih =>
    intro s h
    show replFold L (replaceAll kv.1 kv.2 s) = s
    rw [replaceAll_id _ _ _ (h kv (by simp))]
    exact ih s (fun kv' hk => h kv' (by simp [hk]))


theorem brackets_vals (c : Char) (hc : c = '(' ∨ c = ')' ∨ c = '[' ∨ c = ']' ∨ c = '{' ∨ c = '}' ∨ c = '-') :
    ∀ kv ∈ Gen.BRACKETS, c ∉ kv.2 := by
  rcases hc with rfl | rfl | rfl | rfl | rfl | rfl | rfl <;> decide

theorem brackets_keys (c : Char) (hc : c = '(' ∨ c = ')' ∨ c = '[' ∨ c = ']' ∨ c = '{' ∨ c = '}') :
    ∃ kv ∈ Gen.BRACKETS, kv.1 = [c] := by
  rcases hc with rfl | rfl | rfl | rfl | rfl | rfl <;> decide

theorem brackets_keys_shape : ∀ kv ∈ Gen.BRACKETS,
    (1 < kv.1.length ∧ '-' ∈ kv.1) ∨ kv.1 ∈ [['('], [')'], ['['], [']'], ['{'], ['}']] := by
  decide

/-! ### `Except`, `mapM`, paths -/

theorem mapM_ok_length {ε α β : Type} (f : α → Except ε β) : ∀ (l : List α) (r : List β),
    l.mapM f = .ok r → r.length = l.length := by
  intro l
  induction l with
  | nil => intro r h; simp [pure, Except.pure] at h; subst h; rfl
  | cons a l ih =>
    intro r h
    rw [List.mapM_cons] at h
    cases ha : f a with
    | error e => simp [ha, bind, Except.bind] at h
    | ok b =>
      cases hl : l.mapM f with
      | error e => simp [ha, hl, bind, Except.bind] at h
      | ok bs =>
        simp [ha, hl, bind, Except.bind, pure, Except.pure] at h
        subst h
        simp [ih bs hl]

theorem bind_eq_ok {ε α β : Type} (x : Except ε α) (f : α → Except ε β) (b : β) (h : (x >>= f) = .ok b) :
    ∃ a, x = .ok a ∧ f a = .ok b := by
  cases x with
  | error e => simp [bind, Except.bind] at h
  | ok a => exact ⟨a, rfl, h⟩

mutual
theorem get?_isSome_of_mem_paths : (t : Tree) → ∀ p ∈ paths t, (t.get? p).isSome = true
  | .leaf _ _ => by simp [paths, get?]
  | .node f ks => by
    intro p hp
    simp only [paths, List.mem_cons] at hp
    rcases hp with rfl | hp
    · simp [get?]
    · obtain ⟨j, k, q, rfl, hk, hq⟩ := mem_pathsL ks 0 p hp
      simpa [get?, hk] using hq
theorem mem_pathsL : (ts : List Tree) → (i : Nat) → ∀ p ∈ pathsL ts i,
    ∃ j k q, p = (i + j) :: q ∧ ts[j]? = some k ∧ (k.get? q).isSome = true
  | [], _ => by simp [pathsL]
  | t :: ts, i => by
    intro p hp
    simp only [pathsL, List.mem_append, List.mem_map] at hp
    rcases hp with ⟨q, hq, rfl⟩ | hp
    · exact ⟨0, t, q, rfl, rfl, get?_isSome_of_mem_paths t q hq⟩
    · obtain ⟨j, k, q, rfl, hk, hq⟩ := mem_pathsL ts (i + 1) p hp
      exact ⟨j + 1, k, q, by simp; omega, by simpa using hk, hq⟩
end

theorem get?_isSome_of_mem_preorderP (t : Tree) (p : Path) (h : p ∈ preorderP t) : (t.get? p).isSome = true :=
  get?_isSome_of_mem_paths t p ((Lemmas.Nav.preorderP_perm_paths t).subset h)

theorem filterMap_length_of_isSome {α β : Type} (g : α → Option β) : ∀ l : List α, (∀ a ∈ l, (g a).isSome = true) →
    (l.filterMap g).length = l.length := by
  intro l
  induction l with
  | nil => simp
  | cons a l ih =>
    intro h
    obtain ⟨b, hb⟩ := Option.isSome_iff_exists.1 (h a (by simp))
    simp [hb, ih (fun x hx => h x (by simp [hx]))]

theorem filter_length_add {α : Type} (p : α → Bool) (l : List α) :
    (l.filter p).length + (l.filter fun a => !p a).length = l.length := by
  induction l with
  | nil => simp
  | cons a l ih => by_cases h : p a <;> simp [h] <;> omega

theorem bos_eq : "#BOS ".toList = ['#','B','O','S',' '] := rfl
theorem eos_eq : "#EOS ".toList = ['#','E','O','S',' '] := rfl

/-! ### export lines -/
open TT.Lemmas.GramOut

theorem splitWs_tabs (n : Nat) (rest : Str) : splitWs (exportTabs n ++ rest) = splitWs rest := by
  have ht : pyIsSpace '\t' = true := by decide
  unfold exportTabs
  split
  · simp only [List.cons_append, List.nil_append]; rw [splitWs_sep _ ht, splitWs_sep _ ht, splitWs_sep _ ht]
  split
  · simp only [List.cons_append, List.nil_append]; rw [splitWs_sep _ ht, splitWs_sep _ ht]
  · simp only [List.cons_append, List.nil_append]; rw [splitWs_sep _ ht]

theorem exportTabs_cons (n : Nat) : ∃ r, exportTabs n = '\t' :: r ∧ ∀ rest, splitWs (r ++ rest) = splitWs rest := by
  have ht : pyIsSpace '\t' = true := by decide
  unfold exportTabs
  split
  · exact ⟨_, rfl, fun rest => by simp only [List.cons_append, List.nil_append]; rw [splitWs_sep _ ht, splitWs_sep _ ht]⟩
  split
  · exact ⟨_, rfl, fun rest => by simp only [List.cons_append, List.nil_append]; rw [splitWs_sep _ ht]⟩
  · exact ⟨_, rfl, fun rest => rfl⟩

/-- a field followed by the tab padding -/
theorem splitWs_word_tabs (a : Str) (n : Nat) (rest : Str) (ha : a ≠ [] ∧ ∀ c ∈ a, pyIsSpace c = false) :
    splitWs (a ++ (exportTabs n ++ rest)) = a :: splitWs rest := by
  obtain ⟨r, hr, hs⟩ := exportTabs_cons n
  rw [hr, List.cons_append, splitWs_word_sep a _ '\t' (by decide) ha, hs]

theorem splitWs_word_tab (a : Str) (rest : Str) (ha : a ≠ [] ∧ ∀ c ∈ a, pyIsSpace c = false) :
    splitWs (a ++ ('\t' :: rest)) = a :: splitWs rest :=
  splitWs_word_sep a _ '\t' (by decide) ha

theorem printedLabel_of_ok (o : OutOpts) (t : Tree) (l : Str)
    (h : getLabel o (t.setFields fun g => { g with edge := some (g.edge.getD DEFAULT_EDGE) }) = .ok l) :
    printedLabel o t = l := by
  unfold printedLabel; rw [h]

theorem setFields_edge_eq (t : Tree) :
    (t.setFields fun g => { g with edge := some (t.fields.edge.getD DEFAULT_EDGE) }) =
    (t.setFields fun g => { g with edge := some (g.edge.getD DEFAULT_EDGE) }) := by
  cases t <;> rfl


open TT.Lemmas.WF

/-! ### contiguous subtrees -/

/-- the tokens of `x` are a run of consecutive numbers -/
def Cont (x : Tree) : Prop := yield x = List.range' (leftmost x) x.leafNums.length

theorem gapCount_zero_range : ∀ l : List Nat, l.Pairwise (· < ·) → gapCount l = 0 →
    l = List.range' ((l.head?).getD 0) l.length
  | [], _, _ => rfl
  | [a], _, _ => by simp
  | a :: b :: r, hs, hg => by
    have hab : a < b := (List.pairwise_cons.1 hs).1 b (by simp)
    simp only [gapCount] at hg
    have h1 : ¬ (a + 1 < b) := by intro h; simp [h] at hg
    have hb : b = a + 1 := by omega
    have ih := gapCount_zero_range (b :: r) (List.pairwise_cons.1 hs).2 (by
      split at hg <;> omega)
    simp only [List.head?_cons, Option.getD_some, List.length_cons] at ih ⊢
    rw [List.range'_succ, ← hb, ← ih]

theorem yield_length (x : Tree) : (yield x).length = x.leafNums.length := (yield_perm x).length_eq

theorem cont_of_gap (x : Tree) (hn : x.leafNums.Nodup) (hg : gapDegreeNode x = 0) : Cont x := by
  unfold Cont
  cases x with
  | leaf n f => simp [yield, terminals, leaves, sortBy, insertBy, num, leftmost, leafNums]
  | node f ks =>
    have hs := TT.Props.C16.yield_strictInc _ hn
    have := gapCount_zero_range _ hs hg
    rw [yield_length] at this
    exact this

def Tight : Nat → List Tree → Prop
  | _, [] => True
  | c, k :: L => leftmost k = c ∧ Tight (c + k.leafNums.length) L

theorem tight_of_perm : ∀ (L : List Tree) (c : Nat), L.Pairwise (fun a b => leftmost a ≤ leftmost b) →
    (∀ k ∈ L, Cont k ∧ k.leafNums ≠ []) →
    (L.flatMap leafNums).Perm (List.range' c (L.flatMap leafNums).length) → Tight c L
  | [], _, _, _, _ => trivial
  | k :: L, c, hs, hk, hp => by
    obtain ⟨hck, hne⟩ := hk k (by simp)
    have hpos : 0 < k.leafNums.length := List.length_pos_iff.2 hne
    simp only [List.flatMap_cons, List.length_append] at hp
    -- the first child starts at `c`
    have h1 : leftmost k = c := by
      have hc : c ∈ k.leafNums ++ L.flatMap leafNums := hp.symm.subset (by simp; omega)
      have hge : c ≤ leftmost k := by
        have : leftmost k ∈ List.range' c (k.leafNums.length + (L.flatMap leafNums).length) :=
          hp.subset (List.mem_append_left _ (leftmost_mem k hne))
        simp at this; omega
      rcases List.mem_append.1 hc with hc | hc
      · have := leftmost_le k c hc; omega
      · obtain ⟨k', hk', hc'⟩ := List.mem_flatMap.1 hc
        have h2 := leftmost_le k' c hc'
        have h3 := (List.pairwise_cons.1 hs).1 k' hk'
        omega
    refine ⟨h1, tight_of_perm L _ (List.pairwise_cons.1 hs).2 (fun k' hk' => hk k' (by simp [hk'])) ?_⟩
    have hy : k.leafNums.Perm (List.range' c k.leafNums.length) := by
      have := (yield_perm k).symm
      rw [hck, h1] at this; exact this
    rw [← List.range'_append_1] at hp
    exact (List.perm_append_left_iff _).1 ((List.Perm.append_right _ hy.symm).trans hp)


/-! ### the bracket decoder, one step at a time -/

theorem takeWhile_append_stop {α} (p : α → Bool) (a b : List α) (c : α) (ha : ∀ x ∈ a, p x = true) (hc : p c = false) :
    (a ++ c :: b).takeWhile p = a := by
  induction a with
  | nil => simp [hc]
  | cons x a ih =>
    simp only [List.cons_append, List.takeWhile_cons, ha x (by simp), if_true]
    rw [ih (fun y hy => ha y (by simp [hy]))]

def goodLabel (l : Str) : Prop := ∀ c ∈ l, c ≠ '(' ∧ c ≠ ')' ∧ c ≠ ' '

theorem decBrNode_leaf (fuel : Nat) (l w rest : Str) (cnt : Nat) (hl : goodLabel l) (hw : ∀ c ∈ w, c ≠ ')') :
    decBrNode (fuel + 1) ('(' :: (l ++ ' ' :: (w ++ ')' :: rest))) cnt =
      some (leaf cnt { label := l, word := some w }, rest, cnt + 1) := by
  have h1 : (l ++ ' ' :: (w ++ ')' :: rest)).takeWhile (fun c => c != '(' && c != ')' && c != ' ') = l :=
    takeWhile_append_stop _ _ _ _ (fun x hx => by have := hl x hx; simp [this]) (by decide)
  have h2 : (w ++ ')' :: rest).takeWhile (fun c => c != ')') = w :=
    takeWhile_append_stop _ _ _ _ (fun x hx => by have := hw x hx; simp [this]) (by decide)
  rw [decBrNode, h1]
  simp only [List.drop_left']
  simp [h2]

theorem decBrNode_node (fuel : Nat) (l r2 : Str) (cnt : Nat) (hl : goodLabel l) (ks : List Tree) (r' : Str) (cnt' : Nat)
    (h : decBrKids fuel ('(' :: r2) cnt [] = some (ks, r', cnt')) :
    decBrNode (fuel + 1) ('(' :: (l ++ '(' :: r2)) cnt = some (node { label := l } ks, r', cnt') := by
  have h1 : (l ++ '(' :: r2).takeWhile (fun c => c != '(' && c != ')' && c != ' ') = l :=
    takeWhile_append_stop _ _ _ _ (fun x hx => by have := hl x hx; simp [this]) (by decide)
  rw [decBrNode, h1]
  simp [h]

theorem decBrKids_close (fuel : Nat) (r : Str) (cnt : Nat) (acc : List Tree) :
    decBrKids (fuel + 1) (')' :: r) cnt acc = some (acc.reverse, r, cnt) := by
  rw [decBrKids]

theorem decBrKids_open (fuel : Nat) (r : Str) (cnt : Nat) (acc : List Tree) (k : Tree) (r' : Str) (cnt' : Nat)
    (h : decBrNode fuel ('(' :: r) cnt = some (k, r', cnt')) :
    decBrKids (fuel + 1) ('(' :: r) cnt acc = decBrKids fuel r' cnt' (k :: acc) := by
  rw [decBrKids, h]


/-! ### the bracket writer -/

theorem none_eq : "None".toList = ['N', 'o', 'n', 'e'] := rfl

/-- the text written for a subtree (`[]` when the writer fails) -/
def strOf (o : OutOpts) (k : Tree) : Str :=
  match bracketsSub o false k with
  | .ok s => s
  | .error _ => []

theorem strOf_ok (o : OutOpts) (k : Tree) (s : Str) (h : bracketsSub o false k = .ok s) : strOf o k = s := by
  unfold strOf; rw [h]

theorem bracketsKids_ok (o : OutOpts) : ∀ (ks : List Tree) (parts : List (Nat × Str)), bracketsKids o ks = .ok parts →
    parts = ks.map (fun k => (leftmost k, strOf o k)) ∧ ∀ k ∈ ks, ∃ s, bracketsSub o false k = .ok s
  | [], parts, h => by
    rw [bracketsKids] at h; cases h; simp
  | t :: ts, parts, h => by
    rw [bracketsKids] at h
    split at h
    · rename_i a b ha hb
      cases h
      obtain ⟨ih1, ih2⟩ := bracketsKids_ok o ts b hb
      refine ⟨by simp [strOf_ok o t a ha, ← ih1], ?_⟩
      intro k hk
      rcases List.mem_cons.1 hk with rfl | hk
      · exact ⟨a, ha⟩
      · exact ih2 k hk
    · cases h
    · cases h

theorem bracketsSub_leaf_ok (o : OutOpts) (er : Bool) (n : Nat) (f : Fields) (s : Str)
    (h : bracketsSub o er (leaf n f) = .ok s) :
    ∃ l, getLabel o (leaf n (replaceParensFields f)) = .ok l ∧
      s = '(' :: (l ++ ' ' :: (((replaceParensFields f).word.getD ['N', 'o', 'n', 'e']) ++ [')'])) := by
  rw [bracketsSub] at h
  split at h
  · rename_i l hl
    cases h
    exact ⟨l, hl, by simp [none_eq]⟩
  · cases h

theorem bracketsSub_node_ok (o : OutOpts) (f : Fields) (ks : List Tree) (s : Str) (hne : ks ≠ [])
    (h : bracketsSub o false (node f ks) = .ok s) :
    ∃ l parts, getLabel o (node f ks) = .ok l ∧ bracketsKids o ks = .ok parts ∧
      s = '(' :: (l ++ (((sortBy (·.1) parts).map (·.2)).flatten ++ [')'])) := by
  rw [bracketsSub] at h
  have : ks.isEmpty = false := by simpa using hne
  simp only [this, Bool.false_eq_true, if_false] at h
  split at h
  · rename_i l parts hl hp
    cases h
    exact ⟨l, parts, hl, hp, by simp⟩
  · cases h
  · cases h

theorem getLabel_setEdge (o : OutOpts) (t : Tree) :
    getLabel o (t.setFields fun f => { f with edge := some (f.edge.getD DEFAULT_EDGE) }) = getLabel o t := by
  cases t <;> rfl

theorem printedLabel_eq_of_ok (o : OutOpts) (t : Tree) (l : Str) (h : getLabel o t = .ok l) : printedLabel o t = l := by
  unfold printedLabel; rw [getLabel_setEdge, h]

/-! ### `sortKids`, `carryBrackets` and `leftmost` -/

theorem sortKidsL_eq : ∀ ks : List Tree, sortKidsL ks = ks.map sortKids
  | [] => rfl
  | t :: ts => by simp [sortKidsL, sortKidsL_eq ts]

theorem carryBracketsL_eq (o : OutOpts) : ∀ ks : List Tree, carryBracketsL o ks = ks.map (carryBrackets o false)
  | [] => rfl
  | t :: ts => by simp [carryBracketsL, carryBracketsL_eq o ts]

theorem sortBy_id_perm (l l' : List Nat) (h : l.Perm l') : sortBy id l = sortBy id l' := by
  refine List.Perm.eq_of_pairwise (le := fun a b => a ≤ b) ?_ (sortBy_sorted id l) (sortBy_sorted id l')
    ((sortBy_perm id l).trans (h.trans (sortBy_perm id l').symm))
  intro a b _ _ h1 h2; exact Nat.le_antisymm h1 h2

theorem leftmost_of_perm (t t' : Tree) (h : t'.leafNums.Perm t.leafNums) : leftmost t' = leftmost t := by
  simp only [leftmost, Lemmas.Nav.yield_eq, sortBy_id_perm _ _ h]

theorem flatMap_congr' {α β} (f g : α → List β) : ∀ l : List α, (∀ a ∈ l, f a = g a) → l.flatMap f = l.flatMap g
  | [], _ => rfl
  | a :: l, h => by
    simp only [List.flatMap_cons, h a (by simp), flatMap_congr' f g l (fun b hb => h b (by simp [hb]))]

theorem leafNums_carry (o : OutOpts) (r : Bool) (x : Tree) : (carryBrackets o r x).leafNums = x.leafNums := by
  revert r
  induction x using tree_ind with
  | hl n f => intro r; simp [carryBrackets, leafNums_leaf]
  | hn f ks ih =>
    intro r
    rw [carryBrackets, leafNums_node, leafNums_node, carryBracketsL_eq, List.flatMap_map]
    exact flatMap_congr' _ _ ks (fun k hk => ih k hk false)

theorem leafNums_sortKids (x : Tree) : (sortKids x).leafNums.Perm x.leafNums := by
  induction x using tree_ind with
  | hl n f => simp [sortKids]
  | hn f ks ih =>
    rw [sortKids, leafNums_node, leafNums_node, sortKidsL_eq]
    refine (List.Perm.flatMap_right _ (sortBy_perm leftmost _)).trans ?_
    rw [List.flatMap_map]
    exact Lemmas.Nav.perm_flatMap_of_forall _ _ ks ih

theorem leftmost_sortKids_carry (o : OutOpts) (k : Tree) : leftmost (sortKids (carryBrackets o false k)) = leftmost k := by
  apply leftmost_of_perm
  have := leafNums_sortKids (carryBrackets o false k)
  rwa [leafNums_carry] at this

mutual
theorem beq_refl : (t : Tree) → Tree.beq t t = true
  | .leaf n f => by simp [Tree.beq]
  | .node f ks => by simp [Tree.beq, beqL_refl ks]
theorem beqL_refl : (ts : List Tree) → Tree.beqL ts ts = true
  | [] => by simp [Tree.beqL]
  | t :: ts => by simp [Tree.beqL, beq_refl t, beqL_refl ts]
end


/-! ### the decoder inverts the writer on continuous trees -/

/-- side conditions on what the bracket writer prints for a node -/
def LabOK (o : OutOpts) : Tree → Prop
  | leaf n f => f.word.isSome = true ∧ goodLabel (printedLabel o (leaf n (replaceParensFields f)))
  | node f ks => goodLabel (printedLabel o (node f ks))

/-- decoding the text of `x` (followed by anything) gives `x` back, numbering tokens from `leftmost x` -/
def DecOK (o : OutOpts) (x : Tree) : Prop :=
  ∀ s, bracketsSub o false x = .ok s → (∃ s', s = '(' :: s') ∧ ∀ fuel, s.length ≤ fuel → ∀ rest, ∃ d,
    decBrNode fuel (s ++ rest) (leftmost x) = some (d, rest, leftmost x + x.leafNums.length) ∧
    sortKids d = sortKids (carryBrackets o false x)

theorem replaceParens_no_rparen (s : Str) : ∀ c ∈ replaceParens s, c ≠ ')' := by
  intro c hc e; subst e
  rw [replaceParens_eq] at hc
  exact not_mem_replFold ')' _ (brackets_vals ')' (by simp)) s (Or.inr (brackets_keys ')' (by simp))) hc

theorem leftmost_leaf (n : Nat) (f : Fields) : leftmost (leaf n f) = n := by
  simp [leftmost, yield, terminals, leaves, sortBy, insertBy, num]

theorem decOK_leaf (o : OutOpts) (n : Nat) (f : Fields) (h : LabOK o (leaf n f)) : DecOK o (leaf n f) := by
  intro s hs
  obtain ⟨hw, hg⟩ := h
  obtain ⟨l, hl, rfl⟩ := bracketsSub_leaf_ok o false n f s hs
  refine ⟨⟨_, rfl⟩, ?_⟩
  intro fuel hf rest
  obtain ⟨g, rfl⟩ : ∃ g, fuel = g + 1 := ⟨fuel - 1, by simp at hf; omega⟩
  rw [printedLabel_eq_of_ok o _ l hl] at hg
  obtain ⟨w, hw⟩ := Option.isSome_iff_exists.1 hw
  have hword : (replaceParensFields f).word.getD ['N', 'o', 'n', 'e'] = replaceParens w := by
    simp [replaceParensFields, hw]
  refine ⟨leaf n { label := l, word := some (replaceParens w) }, ?_, ?_⟩
  · rw [hword, leftmost_leaf, leafNums_leaf]
    have := decBrNode_leaf g l (replaceParens w) rest n hg (fun c hc => (replaceParens_no_rparen w c hc))
    simpa using this
  · simp [sortKids, carryBrackets, printedLabel_eq_of_ok o _ l hl, hw]

theorem decKids (o : OutOpts) : ∀ (L : List Tree) (cnt : Nat) (acc : List Tree) (fuel : Nat) (rest : Str),
    (∀ k ∈ L, DecOK o k ∧ ∃ s, bracketsSub o false k = .ok s) → Tight cnt L →
    ((L.map (strOf o)).flatten).length + 1 ≤ fuel →
    ∃ ds, decBrKids fuel ((L.map (strOf o)).flatten ++ ')' :: rest) cnt acc =
        some (acc.reverse ++ ds, rest, cnt + (L.flatMap leafNums).length) ∧
      ds.map sortKids = L.map (fun k => sortKids (carryBrackets o false k))
  | [], cnt, acc, fuel, rest, _, _, hf => by
    obtain ⟨g, rfl⟩ : ∃ g, fuel = g + 1 := ⟨fuel - 1, by omega⟩
    exact ⟨[], by simp [decBrKids_close], rfl⟩
  | k :: L, cnt, acc, fuel, rest, hk, ht, hf => by
    obtain ⟨hdk, s, hs⟩ := hk k (by simp)
    obtain ⟨⟨s', hs'⟩, hdec⟩ := hdk s hs
    obtain ⟨h1, h2⟩ := ht
    obtain ⟨g, rfl⟩ : ∃ g, fuel = g + 1 := ⟨fuel - 1, by omega⟩
    simp only [List.map_cons, List.flatten_cons, List.length_append, strOf_ok o k s hs] at hf ⊢
    have hslen : 0 < s.length := by rw [hs']; simp
    obtain ⟨d, hd, hsd⟩ := hdec g (by omega) ((L.map (strOf o)).flatten ++ ')' :: rest)
    rw [h1] at hd
    obtain ⟨ds, hds, hsds⟩ := decKids o L (cnt + k.leafNums.length) (d :: acc) g rest
      (fun k' hk' => hk k' (by simp [hk'])) h2 (by omega)
    refine ⟨d :: ds, ?_, by simp [hsd, hsds]⟩
    have e : s ++ (L.map (strOf o)).flatten ++ ')' :: rest = '(' :: (s' ++ ((L.map (strOf o)).flatten ++ ')' :: rest)) := by
      rw [hs']; simp
    rw [e, decBrKids_open g _ cnt acc d _ _ (by rw [← List.cons_append, ← hs']; exact hd), hds]
    simp [Nat.add_assoc]

theorem decBrNode_node' (fuel : Nat) (l r : Str) (cnt : Nat) (hl : goodLabel l) (ks : List Tree) (r' : Str) (cnt' : Nat)
    (hr : ∃ r2, r = '(' :: r2) (h : decBrKids fuel r cnt [] = some (ks, r', cnt')) :
    decBrNode (fuel + 1) ('(' :: (l ++ r)) cnt = some (node { label := l } ks, r', cnt') := by
  obtain ⟨r2, rfl⟩ := hr
  exact decBrNode_node fuel l r2 cnt hl ks r' cnt' h

theorem noEmpty_node_iff (f : Fields) (ks : List Tree) :
    (node f ks).noEmpty = true ↔ ks ≠ [] ∧ ∀ k ∈ ks, k.noEmpty = true := by
  rw [noEmpty, Bool.and_eq_true, noEmptyL_iff]; simp

theorem decOK_node (o : OutOpts) (f : Fields) (ks : List Tree) (ih : ∀ k ∈ ks, DecOK o k)
    (hne : ks ≠ []) (hkne : ∀ k ∈ ks, k.leafNums ≠ []) (hcx : Cont (node f ks)) (hck : ∀ k ∈ ks, Cont k)
    (hlab : LabOK o (node f ks)) : DecOK o (node f ks) := by
  intro s hs
  obtain ⟨l, parts, hl, hp, rfl⟩ := bracketsSub_node_ok o f ks s hne hs
  obtain ⟨hparts, hsub⟩ := bracketsKids_ok o ks parts hp
  refine ⟨⟨_, rfl⟩, ?_⟩
  intro fuel hf rest
  have hpl := printedLabel_eq_of_ok o _ l hl
  have hgl : goodLabel l := by rw [← hpl]; exact hlab
  -- the text of the children, in the order of their leftmost tokens
  have hT : ((sortBy (·.1) parts).map (·.2)).flatten = (((sortBy leftmost ks).map (strOf o)).flatten) := by
    rw [hparts, sortBy_map_keyed]
  rw [hT] at hf ⊢
  have hmem : ∀ k, k ∈ sortBy leftmost ks ↔ k ∈ ks := fun k => mem_sortBy leftmost ks k
  have hperm : ((sortBy leftmost ks).flatMap leafNums).Perm (node f ks).leafNums := by
    rw [leafNums_node]; exact List.Perm.flatMap_right _ (sortBy_perm leftmost ks)
  have htight : Tight (leftmost (node f ks)) (sortBy leftmost ks) := by
    refine tight_of_perm _ _ (sortBy_sorted leftmost ks) (fun k hk => ⟨hck k ((hmem k).1 hk), hkne k ((hmem k).1 hk)⟩) ?_
    rw [hperm.length_eq, ← hcx]
    exact hperm.trans (yield_perm _).symm
  obtain ⟨g, rfl⟩ : ∃ g, fuel = g + 1 := ⟨fuel - 1, by simp at hf; omega⟩
  obtain ⟨ds, hds, hsds⟩ := decKids o (sortBy leftmost ks) (leftmost (node f ks)) [] g rest
    (fun k hk => ⟨ih k ((hmem k).1 hk), hsub k ((hmem k).1 hk)⟩) htight
    (by simp only [List.length_cons, List.length_append, List.length_nil] at hf; omega)
  -- the first child's text starts with "("
  have hstart : ∃ r2, ((sortBy leftmost ks).map (strOf o)).flatten ++ ')' :: rest = '(' :: r2 := by
    cases hL : sortBy leftmost ks with
    | nil =>
      have := sortBy_length leftmost ks
      rw [hL] at this
      exact absurd (List.eq_nil_of_length_eq_zero this.symm) hne
    | cons k0 L0 =>
      have hk0 : k0 ∈ ks := (hmem k0).1 (by rw [hL]; simp)
      obtain ⟨s0, hs0⟩ := hsub k0 hk0
      obtain ⟨⟨s0', hs0'⟩, _⟩ := ih k0 hk0 s0 hs0
      exact ⟨s0' ++ ((L0.map (strOf o)).flatten ++ ')' :: rest), by simp [strOf_ok o k0 s0 hs0, hs0']⟩
  refine ⟨node { label := l } ds, ?_, ?_⟩
  · have e : '(' :: (l ++ (((sortBy leftmost ks).map (strOf o)).flatten ++ [')'])) ++ rest =
        '(' :: (l ++ (((sortBy leftmost ks).map (strOf o)).flatten ++ ')' :: rest)) := by simp
    rw [e, decBrNode_node' g l _ _ hgl ds rest _ hstart hds, hperm.length_eq]
  · have hkey : ∀ a : Tree, leftmost ((fun k => sortKids (carryBrackets o false k)) a) = leftmost a :=
      fun a => leftmost_sortKids_carry o a
    rw [sortKids, sortKidsL_eq, hsds, sortBy_map leftmost leftmost _ hkey,
      sortBy_of_sorted leftmost _ (sortBy_sorted leftmost ks)]
    rw [carryBrackets, sortKids, sortKidsL_eq, carryBracketsL_eq, List.map_map]
    rw [show (sortKids ∘ carryBrackets o false) = (fun k => sortKids (carryBrackets o false k)) from rfl,
      sortBy_map leftmost leftmost _ hkey]
    simp [hpl]

/-- hereditary hypotheses of the round trip -/
theorem decOK (o : OutOpts) (x : Tree) : x.noEmpty = true → x.leafNums.Nodup →
    (∀ y ∈ subtrees x, gapDegreeNode y = 0) → (∀ y ∈ subtrees x, LabOK o y) → DecOK o x := by
  induction x using tree_ind with
  | hl n f => intro _ _ _ hlab; exact decOK_leaf o n f (hlab _ (self_mem_subtrees _))
  | hn f ks ih =>
    intro hne hnd hgap hlab
    obtain ⟨hks, hkne⟩ := (noEmpty_node_iff f ks).1 hne
    have hsubk : ∀ k ∈ ks, ∀ y ∈ subtrees k, y ∈ subtrees (node f ks) :=
      fun k hk y hy => (mem_subtrees_node f ks y).2 (Or.inr ⟨k, hk, hy⟩)
    have hndk : ∀ k ∈ ks, k.leafNums.Nodup := fun k hk => (leafNums_sublist_of_mem f ks k hk).nodup hnd
    refine decOK_node o f ks ?_ hks (fun k hk => noEmpty_leafNums_ne_nil k (hkne k hk)) ?_ ?_ (hlab _ (self_mem_subtrees _))
    · intro k hk
      exact ih k hk (hkne k hk) (hndk k hk) (fun y hy => hgap y (hsubk k hk y hy)) (fun y hy => hlab y (hsubk k hk y hy))
    · exact cont_of_gap _ hnd (hgap _ (self_mem_subtrees _))
    · intro k hk
      exact cont_of_gap _ (hndk k hk) (hgap k (hsubk k hk k (self_mem_subtrees k)))


end TT.Lemmas.Write
