/-
  Helper lemmas of wave 16 (tag w16c).
  Part 1 (C13, `readDisco_clean`): an invariant of the bracket automaton (`brStep`) under which every tree it completes has
  no `word` entry on a constituent, for EVERY option record; the discobracket post-pass (`discoApply`) keeps that.
-/
import TT.Lemmas.More15c
namespace TT.Lemmas.More16c
open TT TT.Tree TT.Spec TT.Lemmas.Read TT.Lemmas.More15c

/-! ### the discobracket post-pass rewrites tokens only -/

mutual
theorem discoApply_ncw (re : Bool) (tm : List (Nat × Str)) : (t t' : Tree) → discoApply re tm t = some t' → ncw t' = ncw t
  | .leaf n f, t', h => by
    simp only [discoApply] at h
    split at h
    · split at h <;> (cases h; rfl)
    · cases h
  | .node f ks, t', h => by
    simp only [discoApply, Option.map_eq_some_iff] at h
    obtain ⟨ks', hk, rfl⟩ := h
    simp only [ncw, discoApplyL_ncw re tm ks ks' hk]
theorem discoApplyL_ncw (re : Bool) (tm : List (Nat × Str)) : (ks ks' : List Tree) → discoApplyL re tm ks = some ks' → ncwL ks' = ncwL ks
  | [], ks', h => by
    simp only [discoApplyL, Option.some.injEq] at h
    subst h; rfl
  | t :: ts, ks', h => by
    simp only [discoApplyL] at h
    split at h
    · rename_i a b ha hb
      cases h
      simp only [ncwL, discoApply_ncw re tm t a ha, discoApplyL_ncw re tm ts b hb]
    · cases h
end

/-! ### the invariant of the automaton -/

/-- the node under construction is harmless: its finished children carry no `word` on a constituent, and it has a `word`
    itself only when it will become a token (it has a number and no children) -/
def lastOK (s : Nat) (x : QNode) : Prop :=
  ncwL x.kids = true ∧ (s = 4 → x.kids = [] ∧ x.num.isSome = true) ∧ (s ≠ 4 → x.f.word = none) ∧
  ((s = 1 ∨ s = 2 ∨ s = 3 ∨ s = 9) → x.kids = [])

def restOK (q : List QNode) : Prop := ∀ y ∈ q, y.f.word = none ∧ ncwL y.kids = true

def QI (st : BrState) : Prop :=
  st.level = st.queue.length ∧ ∀ q x, st.queue = q ++ [x] → lastOK st.state x ∧ restOK q

theorem ncw_toTree (x : QNode) (hk : ncwL x.kids = true) (h : x.f.word = none ∨ (x.kids = [] ∧ x.num.isSome = true)) :
    ncw x.toTree = true := by
  unfold QNode.toTree
  rcases h with h | ⟨h1, h2⟩
  · split
    · split
      · rfl
      · simp [ncw, h, hk]
    · simp [ncw, h, hk]
  · cases hn : x.num with
    | none => simp [hn] at h2
    | some n => simp [h1, ncw]

theorem nil_or_snoc {α : Type} (l : List α) : l = [] ∨ ∃ q x, l = q ++ [x] := by
  rcases List.eq_nil_or_concat l with h | ⟨p, i, h⟩
  · exact Or.inl h
  · exact Or.inr ⟨p, i, by simpa [List.concat_eq_append] using h⟩

theorem QI_init (c : Nat) : QI { cnt := c } := by
  refine ⟨rfl, ?_⟩
  intro q x h
  simp at h

theorem restOK_snoc (q : List QNode) (x : QNode) (hq : restOK q) (h1 : x.f.word = none) (h2 : ncwL x.kids = true) :
    restOK (q ++ [x]) := by
  intro y hy
  rcases List.mem_append.1 hy with hy | hy
  · exact hq y hy
  · simp only [List.mem_singleton] at hy; subst hy; exact ⟨h1, h2⟩

/-- pushing a fresh node -/
theorem QI_push (st : BrState) (s' : Nat) (h : QI st) (hs : st.state ≠ 4) (hs' : s' ≠ 4) :
    QI { st with level := st.level + 1, queue := st.queue ++ [{}], state := s' } := by
  obtain ⟨hl, hq⟩ := h
  refine ⟨by simp [hl], ?_⟩
  intro q x hx
  have hx2 := List.append_inj' hx rfl
  obtain ⟨h1, h2⟩ := hx2
  simp only [List.cons.injEq, and_true] at h2
  subst h1 h2
  refine ⟨⟨rfl, fun h4 => absurd h4 hs', fun _ => rfl, fun _ => rfl⟩, ?_⟩
  rcases nil_or_snoc st.queue with h0 | ⟨q, x, h0⟩
  · rw [h0]; intro y hy; simp at hy
  · obtain ⟨hL, hR⟩ := hq q x h0
    rw [h0]
    exact restOK_snoc q x hR (hL.2.2.1 hs) hL.1

/-- rewriting the innermost node without touching word, children (and keeping a number) -/
theorem QI_upd (st : BrState) (g : QNode → QNode) (s' : Nat) (tc : Nat) (h : QI st)
    (hg : ∀ x, lastOK st.state x → lastOK s' (g x)) :
    QI { st with queue := updLast st.queue g, state := s', termCnt := tc } := by
  obtain ⟨hl, hq⟩ := h
  rcases nil_or_snoc st.queue with h0 | ⟨q0, x0, h0⟩
  · refine ⟨by simp [hl, h0, updLast], ?_⟩
    intro q x hx
    simp [h0, updLast] at hx
  · obtain ⟨hL, hR⟩ := hq q0 x0 h0
    refine ⟨by simp [hl, h0, updLast_snoc], ?_⟩
    intro q x hx
    simp only [h0, updLast_snoc] at hx
    obtain ⟨h1, h2⟩ := List.append_inj' hx rfl
    simp only [List.cons.injEq, and_true] at h2
    subst h1 h2
    exact ⟨hg x0 hL, hR⟩

theorem QI_state (st : BrState) (s' : Nat) (h : QI st) (hg : ∀ x, lastOK st.state x → lastOK s' x) :
    QI { st with state := s' } := by
  obtain ⟨hl, hq⟩ := h
  exact ⟨hl, fun q x hx => ⟨hg x (hq q x hx).1, (hq q x hx).2⟩⟩

theorem QI_empty (st : BrState) (h1 : st.level = 0) (h2 : st.queue = []) : QI st :=
  ⟨by simp [h1, h2], fun q x hx => by simp [h2] at hx⟩

/-- closing bracket after a word (state 4) or after a child (state 5) -/
theorem rrb_45 (o : InOpts) (st : BrState) (w : Str) (hs : st.state = 4 ∨ st.state = 5) (h : QI st)
    (st' : BrState) (ot : Option Tree) (hst : brStep o st (w, .rrb) = .ok (st', ot)) :
    QI st' ∧ ∀ t, ot = some t → ncw t = true := by
  obtain ⟨hl, hq⟩ := h
  rcases nil_or_snoc st.queue with h0 | ⟨q0, x, h0⟩
  · rw [h0] at hl
    rcases hs with hs | hs <;> simp [brStep, hs, h0, hl] at hst
  · obtain ⟨hL, hR⟩ := hq q0 x h0
    have hx : ncw x.toTree = true := by
      refine ncw_toTree x hL.1 ?_
      rcases hs with hs | hs
      · exact Or.inr (hL.2.1 hs)
      · exact Or.inl (hL.2.2.1 (by omega))
    rcases nil_or_snoc q0 with h1 | ⟨q, p, h1⟩
    · subst h1
      simp only [List.nil_append] at h0
      rw [h0] at hl
      have : brStep o st (w, .rrb) = .ok ({ st with state := 0, level := 0, queue := [], termCnt := 1, cnt := st.cnt + 1 },
          some (if o.replaceParens then replaceParensTree x.toTree else x.toTree)) := by
        rcases hs with hs | hs <;> simp [brStep, hs, h0, hl]
      rw [this] at hst
      cases hst
      refine ⟨QI_empty _ rfl rfl, ?_⟩
      intro t ht
      cases ht
      split
      · rw [ncw_replaceParens]; exact hx
      · exact hx
    · subst h1
      have hl2 : st.level = q.length + 2 := by simp [hl, h0]
      rw [step_rrb_close o st w hs q p x q.length h0 hl2] at hst
      cases hst
      refine ⟨⟨by simp, ?_⟩, fun t ht => by cases ht⟩
      intro q' x' hx'
      obtain ⟨e1, e2⟩ := List.append_inj' hx' rfl
      simp only [List.cons.injEq, and_true] at e2
      subst e1 e2
      have hp := hR p (by simp)
      refine ⟨⟨?_, fun h4 => by simp at h4, fun _ => hp.1, fun h4 => by simp at h4⟩, fun y hy => hR y (by simp [hy])⟩
      simp only [ncwL_append, hp.2, ncwL, hx, Bool.and_self]

theorem state_cases (n : Nat) : n = 0 ∨ n = 1 ∨ n = 2 ∨ n = 3 ∨ n = 4 ∨ n = 5 ∨ n = 9 ∨
    (n ≠ 0 ∧ n ≠ 1 ∧ n ≠ 2 ∧ n ≠ 3 ∧ n ≠ 4 ∧ n ≠ 5 ∧ n ≠ 9) := by omega

/-- one step of the automaton keeps the invariant, and a tree it completes has no `word` on a constituent -/
theorem step_QI (o : InOpts) (st : BrState) (tok : Str × LexClass) (h : QI st)
    (st' : BrState) (ot : Option Tree) (hst : brStep o st tok = .ok (st', ot)) :
    QI st' ∧ ∀ t, ot = some t → ncw t = true := by
  obtain ⟨w, c⟩ := tok
  have none_ok : ∀ {s1 : BrState}, QI s1 → (Except.ok (s1, (none : Option Tree)) : Except Err _) = .ok (st', ot) →
      QI st' ∧ ∀ t, ot = some t → ncw t = true := by
    intro s1 h1 he
    cases he
    exact ⟨h1, fun t ht => by cases ht⟩
  cases c with
  | lrb =>
    rcases state_cases st.state with hs | hs | hs | hs | hs | hs | hs | hs
    · rw [step_lrb_0 o st w hs] at hst
      exact none_ok (QI_push st 9 h (by omega) (by omega)) hst
    · rw [step_lrb_14 o st w (Or.inl hs)] at hst; cases hst
    · rw [step_lrb_235 o st w (Or.inl hs)] at hst
      exact none_ok (QI_push st 1 h (by omega) (by omega)) hst
    · rw [step_lrb_235 o st w (Or.inr (Or.inl hs))] at hst
      exact none_ok (QI_push st 1 h (by omega) (by omega)) hst
    · rw [step_lrb_14 o st w (Or.inr hs)] at hst; cases hst
    · rw [step_lrb_235 o st w (Or.inr (Or.inr hs))] at hst
      exact none_ok (QI_push st 1 h (by omega) (by omega)) hst
    · rw [step_lrb_9 o st w hs, step_lrb_235 o _ w (Or.inl rfl)] at hst
      refine none_ok (QI_push _ 1 (QI_upd st _ 2 st.termCnt h ?_) (by simp) (by omega)) hst
      intro x hx
      rw [hs] at hx
      exact ⟨hx.1, fun h4 => by omega, fun _ => hx.2.2.1 (by omega), fun _ => hx.2.2.2 (by omega)⟩
    · obtain ⟨a0, a1, a2, a3, a4, a5, a9⟩ := hs
      simp [brStep, a0, a2, a3, a5, a9] at hst
  | rrb =>
    rcases state_cases st.state with hs | hs | hs | hs | hs | hs | hs | hs
    · rw [step_rrb_0 o st w hs] at hst
      exact none_ok h hst
    · rw [step_rrb_139 o st w (Or.inl hs)] at hst; cases hst
    · cases he : o.emptyPos with
      | false => rw [step_rrb_2_noEmpty o st w hs he] at hst; cases hst
      | true =>
        rw [step_rrb_2_empty o st w hs he] at hst
        refine rrb_45 o _ w (Or.inl rfl) (QI_upd st _ 4 (st.termCnt + 1) h ?_) st' ot hst
        intro x hx
        rw [hs] at hx
        have hk := hx.2.2.2 (by omega)
        exact ⟨hx.1, fun _ => ⟨hk, rfl⟩, fun h4 => absurd rfl h4, fun _ => hk⟩
    · rw [step_rrb_139 o st w (Or.inr (Or.inl hs))] at hst; cases hst
    · exact rrb_45 o st w (Or.inl hs) h st' ot hst
    · exact rrb_45 o st w (Or.inr hs) h st' ot hst
    · rw [step_rrb_139 o st w (Or.inr (Or.inr hs))] at hst; cases hst
    · obtain ⟨a0, a1, a2, a3, a4, a5, a9⟩ := hs
      simp [brStep, a0, a2, a4, a5] at hst
  | ws =>
    by_cases hs : st.state = 2
    · rw [step_ws_2 o st w hs] at hst
      refine none_ok (QI_state st 3 h ?_) hst
      intro x hx
      rw [hs] at hx
      exact ⟨hx.1, fun h4 => by omega, fun _ => hx.2.2.1 (by omega), fun _ => hx.2.2.2 (by omega)⟩
    · rw [step_ws_other o st w hs] at hst
      exact none_ok h hst
  | token =>
    rcases state_cases st.state with hs | hs | hs | hs | hs | hs | hs | hs
    · rw [step_token_0 o st w hs] at hst
      exact none_ok h hst
    · rw [step_token_19G o st w (Or.inl hs)] at hst
      refine none_ok (QI_upd st _ 2 st.termCnt h ?_) hst
      intro x hx
      rw [hs] at hx
      exact ⟨hx.1, fun h4 => by omega, fun _ => hx.2.2.1 (by omega), fun _ => hx.2.2.2 (by omega)⟩
    · rw [step_token_245 o st w (Or.inl hs)] at hst; cases hst
    · rw [step_token_3 o st w hs] at hst
      refine none_ok (QI_upd st _ 4 (st.termCnt + 1) h ?_) hst
      intro x hx
      rw [hs] at hx
      have hk := hx.2.2.2 (by omega)
      exact ⟨hx.1, fun _ => ⟨hk, rfl⟩, fun h4 => absurd rfl h4, fun _ => hk⟩
    · rw [step_token_245 o st w (Or.inr (Or.inl hs))] at hst; cases hst
    · rw [step_token_245 o st w (Or.inr (Or.inr hs))] at hst; cases hst
    · rw [step_token_19G o st w (Or.inr hs)] at hst
      refine none_ok (QI_upd st _ 2 st.termCnt h ?_) hst
      intro x hx
      rw [hs] at hx
      exact ⟨hx.1, fun h4 => by omega, fun _ => hx.2.2.1 (by omega), fun _ => hx.2.2.2 (by omega)⟩
    · obtain ⟨a0, a1, a2, a3, a4, a5, a9⟩ := hs
      simp [brStep, a0, a1, a3, a9] at hst

/-- the reader loop, with or without the discobracket post-pass -/
theorem brLoop_ncw (o : InOpts) : ∀ (fuel : Nat) (st : BrState) (toks : List (Str × LexClass)) (ts : List (Nat × Tree)),
    QI st → (∀ t ∈ st.out, ncw t.2 = true) → brLoop o fuel st toks = .ok ts → ∀ t ∈ ts, ncw t.2 = true := by
  intro fuel
  induction fuel with
  | zero => intro st toks ts _ _ h; simp [brLoop] at h
  | succ fuel ih =>
    intro st toks ts hq hout h
    cases toks with
    | nil =>
      simp only [brLoop] at h
      split at h
      · cases h
      · cases h
        intro t ht
        exact hout t (by simpa using ht)
    | cons tok rest =>
      simp only [brLoop] at h
      split at h
      · cases h
      · rename_i st1 hstep
        have ho := (brStep_cnt_out o st st1 tok none hstep).1
        exact ih st1 rest ts (step_QI o st tok hq st1 none hstep).1 (by rw [ho]; exact hout) h
      · rename_i st1 t1 hstep
        obtain ⟨hq1, ht1⟩ := step_QI o st tok hq st1 (some t1) hstep
        have ht1 := ht1 t1 rfl
        have hout' : ∀ t ∈ st1.out, ncw t.2 = true := by
          rw [(brStep_cnt_out o st st1 tok (some t1) hstep).1]; exact hout
        split at h
        · split at h
          · cases h
          · rename_i first rest1
            split at h
            · rename_i t' hd
              refine ih _ _ ts ?_ ?_ h
              exact ⟨hq1.1, hq1.2⟩
              intro t ht
              rcases List.mem_cons.1 ht with rfl | ht
              · simp only; rw [discoApply_ncw _ _ _ _ hd]; exact ht1
              · exact hout' t ht
            · cases h
        · refine ih _ _ ts ?_ ?_ h
          exact ⟨hq1.1, hq1.2⟩
          intro t ht
          rcases List.mem_cons.1 ht with rfl | ht
          · exact ht1
          · exact hout' t ht

/-- the bracket reader, EVERY option record (with or without the discobracket post-pass): no `word` entry on a constituent -/
theorem readBrackets_ncw_all (o : InOpts) (text : Str) (ts : List (Nat × Tree)) (h : readBrackets o text = .ok ts) :
    ∀ t ∈ ts, ncw t.2 = true :=
  brLoop_ncw o _ _ _ ts (QI_init _) (fun t ht => by simp at ht) h

end TT.Lemmas.More16c
