/-
  Helper lemmas for wave 7: the fan-out vector of a well-formed linearization (C06More) and LoPar's open-class
  files (C09More).  Core only (no Mathlib).
-/
import TT.Props.C06
import TT.Lemmas.Boyd
import TT.Lemmas.GramOut
namespace TT.Lemmas.More7
open TT TT.Tree TT.Spec TT.Lemmas.Extract TT.Lemmas.GramOut

/-! ### the fan-out vector -/

/-- the references of a linearization: the right-hand-side position of every variable, in order -/
def refs (l : Lin) : List Int := l.flatMap fun arg => arg.map (·.1)

/-- number of right-hand-side positions the fan-out vector speaks about -/
def rank (l : Lin) : Nat := ((refs l).map fun r => (r + 1).toNat).foldl max 0

theorem fanOut_eq (l : Lin) :
    fanOut l = l.length :: (List.range (rank l)).map fun (i : Nat) => (refs l).count (Int.ofNat i) := rfl

theorem fanOut_length (l : Lin) : (fanOut l).length = rank l + 1 := by simp [fanOut_eq]

theorem refs_eq (l : Lin) : refs l = l.flatten.map (·.1) := by
  simp [refs, List.flatMap_def, List.map_flatten]

theorem count_refs (l : Lin) (i : Nat) :
    (refs l).count (Int.ofNat i) = ((l.flatten.filter fun x => x.1 == (i : Int)).map (·.2)).length := by
  rw [refs_eq, List.count_eq_countP, List.countP_map, List.countP_eq_length_filter, List.length_map]
  rfl

/-- for a well-formed linearization whose last element is used, the fan-out vector is the list of fan-outs -/
theorem fanOut_of_wfLin (l : Lin) (fo : List Nat) (h : wfLin l fo = true)
    (hlast : ∀ x ∈ fo.getLast?, 0 < x) : fanOut l = l.length :: fo := by
  unfold wfLin at h
  simp only [Bool.and_eq_true, List.all_eq_true, decide_eq_true_eq, beq_iff_eq, List.mem_range] at h
  obtain ⟨⟨h1, h2⟩, -⟩ := h
  have hcount : ∀ i, i < fo.length → (refs l).count (Int.ofNat i) = fo[i]?.getD 0 := by
    intro i hi
    rw [count_refs, h2 i hi, List.length_range]
  have hrank : rank l = fo.length := by
    apply Nat.le_antisymm
    · unfold rank
      rcases TT.Props.C16.foldl_max_mem ((refs l).map fun r => (r + 1).toNat) 0 with h0 | h0
      · rw [h0]; exact Nat.zero_le _
      · obtain ⟨r, hr, hr'⟩ := List.mem_map.1 h0
        rw [← hr']
        rw [refs_eq] at hr
        obtain ⟨⟨i, j⟩, hx, rfl⟩ := List.mem_map.1 hr
        have := h1 (i, j) hx
        simp only at this ⊢
        omega
    · cases hfo : fo.getLast? with
      | none =>
        rw [List.getLast?_eq_none_iff] at hfo
        simp [hfo]
      | some x =>
        have hx := hlast x (by rw [hfo]; rfl)
        have hne : fo ≠ [] := by rintro rfl; simp at hfo
        have hpos : 0 < fo.length := List.length_pos_iff.2 hne
        have hx' : fo[fo.length - 1]?.getD 0 = x := by
          rw [List.getLast?_eq_getElem?] at hfo
          rw [hfo]; rfl
        have hc := hcount (fo.length - 1) (by omega)
        rw [hx'] at hc
        have hmem : Int.ofNat (fo.length - 1) ∈ refs l := List.count_pos_iff.1 (by omega)
        have := (TT.Props.C16.foldl_max_ge ((refs l).map fun r => (r + 1).toNat) 0).2
          ((Int.ofNat (fo.length - 1) + 1).toNat) (List.mem_map.2 ⟨_, hmem, rfl⟩)
        unfold rank
        have e : (Int.ofNat (fo.length - 1) + 1).toNat = fo.length := by
          simp only [Int.ofNat_eq_natCast]; omega
        omega
  rw [fanOut_eq, hrank]
  congr 1
  apply List.ext_getElem (by simp)
  intro i hi1 hi2
  simp only [List.length_map, List.length_range] at hi1
  simp only [List.getElem_map, List.getElem_range]
  rw [hcount i hi1, List.getElem?_eq_getElem hi2]
  rfl

/-- `trees.children` and the specification's ordered children are the same list -/
theorem children_eq (f : Fields) (ks : List Tree) : children (node f ks) = sortBy minLeaf ks :=
  (sortBy_congr _ _ _ (fun a _ => (TT.Lemmas.Nav.leftmost_eq_minLeaf a).symm)).symm

/-- a constituent without childless constituents below it has at least one block -/
theorem blocks_length_pos (c : Tree) (h : c.noEmpty = true) : 0 < c.blocks.length := by
  have hy := TT.Lemmas.WF.yield_ne_nil c (TT.Lemmas.Boyd.leafNums_ne_nil c h)
  unfold blocks
  cases hyc : yield c with
  | nil => exact absurd hyc hy
  | cons a r => exact TT.Props.C16.blocksOf_length_pos a r

/-! ### LoPar's open-class files -/

/-- `word[0].isupper()`, false for the empty word -/
def isUpperWord (w : Str) : Bool := (w.head?.map pyIsUpperChar).getD false

/-- all (tag, count) pairs added to one of the two dictionaries, in order -/
def bumpAll (ps : List (Str × Nat)) (a : AList Str Nat) : AList Str Nat :=
  ps.foldl (fun a (t, c) => bumpS t c a) a

/-- one word of the lexicon -/
def ocStep (acc : AList Str Nat × AList Str Nat) (e : Str × AList Str Nat) : AList Str Nat × AList Str Nat :=
  if isUpperWord e.1 then (acc.1, bumpAll e.2 acc.2) else (bumpAll e.2 acc.1, acc.2)

/-- a line of a count file -/
def countLine (p : Str × Nat) : Str := p.1 ++ sp ++ natToStr p.2

/-- the pairs of the words of one class -/
def classPairs (up : Bool) (lex : Lexicon) : List (Str × Nat) :=
  (lex.filter fun e => isUpperWord e.1 == up).flatMap (·.2)

theorem writeLopar_oc (g : Grammar) (lex : Lexicon) (files : LoparFiles) (h : writeLopar g lex = .ok files) :
    files.oc = (lex.foldl ocStep ([], [])).1.map countLine ∧ files.ocU = (lex.foldl ocStep ([], [])).2.map countLine := by
  unfold writeLopar at h
  split at h
  · cases h
  · simp only at h
    cases h
    exact ⟨rfl, rfl⟩

theorem bumpAll_append (xs ys : List (Str × Nat)) (a : AList Str Nat) :
    bumpAll (xs ++ ys) a = bumpAll ys (bumpAll xs a) := by
  simp [bumpAll, List.foldl_append]

theorem foldl_ocStep (lex : Lexicon) : ∀ a b : AList Str Nat,
    lex.foldl ocStep (a, b) = (bumpAll (classPairs false lex) a, bumpAll (classPairs true lex) b) := by
  induction lex with
  | nil => intro a b; rfl
  | cons e r ih =>
    intro a b
    rw [List.foldl_cons]
    by_cases hu : isUpperWord e.1 = true
    · have e1 : ocStep (a, b) e = (a, bumpAll e.2 b) := by simp [ocStep, hu]
      rw [e1, ih]
      simp [classPairs, hu, bumpAll_append]
    · simp only [Bool.not_eq_true] at hu
      have e1 : ocStep (a, b) e = (bumpAll e.2 a, b) := by simp [ocStep, hu]
      rw [e1, ih]
      simp [classPairs, hu, bumpAll_append]

theorem lookup_eq_get? (t : Str) : ∀ l : AList Str Nat, l.lookup t = AList.get? t l
  | [] => rfl
  | (a, v) :: r => by
    rw [get?_cons]
    by_cases h : a = t
    · subst h; simp [List.lookup]
    · have h' : (t == a) = false := by simp [Ne.symm h]
      simp only [List.lookup, h', h, if_false]
      exact lookup_eq_get? t r

theorem get?_bumpS (k t : Str) (n : Nat) (l : AList Str Nat) :
    AList.get? t (bumpS k n l) = if k = t then some ((AList.get? k l).getD 0 + n) else AList.get? t l :=
  get?_upsert k t _ l

/-- the value under a tag: what was there plus every count added under that tag -/
theorem get?_bumpAll_getD (t : Str) : ∀ (ps : List (Str × Nat)) (a : AList Str Nat),
    (AList.get? t (bumpAll ps a)).getD 0 = (AList.get? t a).getD 0 + ((ps.filter (·.1 == t)).map (·.2)).sum
  | [], a => by simp [bumpAll]
  | (k, n) :: ps, a => by
    have ih := get?_bumpAll_getD t ps (bumpS k n a)
    have e : bumpAll ((k, n) :: ps) a = bumpAll ps (bumpS k n a) := rfl
    rw [e, ih, get?_bumpS, List.filter_cons]
    by_cases h : k = t
    · subst h; simp; omega
    · simp [h]

/-- the tag is present iff it was there or was added -/
theorem get?_bumpAll_isSome (t : Str) : ∀ (ps : List (Str × Nat)) (a : AList Str Nat),
    (AList.get? t (bumpAll ps a)).isSome = ((AList.get? t a).isSome || ps.any (·.1 == t))
  | [], a => by simp [bumpAll]
  | (k, n) :: ps, a => by
    have ih := get?_bumpAll_isSome t ps (bumpS k n a)
    have e : bumpAll ((k, n) :: ps) a = bumpAll ps (bumpS k n a) := rfl
    rw [e, ih, get?_bumpS, List.any_cons]
    by_cases h : k = t
    · subst h; simp
    · have h' : (k == t) = false := by simp [h]
      simp [h, h']

theorem option_eq_ite (o : Option Nat) : o = if o.isSome then some (o.getD 0) else none := by
  cases o <;> rfl

/-- keys of an updated association list -/
theorem mem_upsert_key {κ ν : Type} [DecidableEq κ] (k : κ) (f : Option ν → ν) : ∀ (l : AList κ ν) (p : κ × ν),
    p ∈ AList.upsert k f l → p.1 = k ∨ p.1 ∈ l.map (·.1)
  | [], p, h => by
    simp only [AList.upsert, List.mem_singleton] at h
    subst h; exact Or.inl rfl
  | (a, v) :: r, p, h => by
    simp only [AList.upsert] at h
    by_cases hak : a = k
    · simp only [hak, if_true, List.mem_cons] at h
      rcases h with rfl | h
      · exact Or.inl rfl
      · exact Or.inr (by simp only [List.map_cons, List.mem_cons]; exact Or.inr (List.mem_map_of_mem h))
    · simp only [hak, if_false, List.mem_cons] at h
      rcases h with rfl | h
      · exact Or.inr (by simp)
      · rcases mem_upsert_key k f r p h with h | h
        · exact Or.inl h
        · exact Or.inr (by simp only [List.map_cons, List.mem_cons]; exact Or.inr h)

theorem mem_bumpAll_key : ∀ (ps : List (Str × Nat)) (a : AList Str Nat) (p : Str × Nat),
    p ∈ bumpAll ps a → p.1 ∈ ps.map (·.1) ∨ p.1 ∈ a.map (·.1)
  | [], a, p, h => Or.inr (List.mem_map_of_mem h)
  | (k, n) :: ps, a, p, h => by
    have e : bumpAll ((k, n) :: ps) a = bumpAll ps (bumpS k n a) := rfl
    rw [e] at h
    rcases mem_bumpAll_key ps _ p h with h | h
    · exact Or.inl (by simp only [List.map_cons, List.mem_cons]; exact Or.inr h)
    · obtain ⟨q, hq, hqp⟩ := List.mem_map.1 h
      rcases mem_upsert_key k _ a q hq with h' | h'
      · exact Or.inl (by simp only [List.map_cons, List.mem_cons]; exact Or.inl (hqp ▸ h'))
      · exact Or.inr (hqp ▸ h')

/-- a count file whose first fields are proper tokens decodes to the list it was written from -/
theorem decCountLines_countLine (l : List (Str × Nat)) (h : ∀ p ∈ l, OKw p.1) :
    decCountLines (l.map countLine) = some l := by
  unfold decCountLines
  refine Eq.trans (mapM_option_map l countLine _ (fun p => p) ?_) (by simp)
  intro p hp
  unfold countLine
  rw [splitWs_word_sp p.1 _ (h p hp), splitWs_word _ (OKw_natToStr p.2)]
  simp [strToNat_natToStr]

theorem sum_filter_flatMap (t : Str) (L : Lexicon) :
    (((L.flatMap (·.2)).filter (·.1 == t)).map (·.2)).sum =
      (L.map fun e => ((e.2.filter (·.1 == t)).map (·.2)).sum).sum := by
  induction L with
  | nil => rfl
  | cons e r ih => simp [List.flatMap_cons, List.filter_append, ih]

theorem any_flatMap_tags (t : Str) (L : Lexicon) :
    (L.flatMap (·.2)).any (·.1 == t) = L.any fun e => e.2.any (·.1 == t) := by
  induction L with
  | nil => rfl
  | cons e r ih => simp [List.flatMap_cons, ih]

end TT.Lemmas.More7
