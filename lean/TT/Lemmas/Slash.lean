/-
  Helper lemmas for C11Slash: the slash branch of `ptb_delete_traces` (TT/Transform/Slash.lean).
  Core only (no Mathlib).
-/
import TT.Transform.Slash
import TT.Spec.Edit
import TT.Lemmas.WF
import TT.Lemmas.Edit
namespace TT.Lemmas.Slash
open TT TT.Tree TT.Spec TT.Lemmas.WF TT.Lemmas.Edit

/-! ### the insertion-ordered map -/

theorem vals_push {α : Type} (m : IdxMap α) (k : Str) (v : α) :
    (IdxMap.vals (IdxMap.push m k v)).Perm (v :: IdxMap.vals m) := by
  induction m with
  | nil => simp [IdxMap.push, IdxMap.vals]
  | cons e rest ih =>
    obtain ⟨k', vs⟩ := e
    simp only [IdxMap.push]
    split
    · simp only [IdxMap.vals, List.flatMap_cons, List.append_assoc, List.singleton_append]
      exact List.perm_middle
    · simp only [IdxMap.vals, List.flatMap_cons] at ih ⊢
      exact (List.Perm.append_left vs ih).trans List.perm_middle

theorem mem_vals_push {α : Type} (m : IdxMap α) (k : Str) (v x : α) :
    x ∈ IdxMap.vals (IdxMap.push m k v) ↔ x = v ∨ x ∈ IdxMap.vals m := by
  rw [(vals_push m k v).mem_iff, List.mem_cons]

theorem nodup_vals_push {α : Type} (m : IdxMap α) (k : Str) (v : α) :
    (IdxMap.vals (IdxMap.push m k v)).Nodup ↔ v ∉ IdxMap.vals m ∧ (IdxMap.vals m).Nodup := by
  rw [(vals_push m k v).nodup_iff, List.nodup_cons]

theorem has_push {α : Type} (m : IdxMap α) (k k' : Str) (v : α) :
    IdxMap.has (IdxMap.push m k v) k' = (IdxMap.has m k' || k == k') := by
  induction m with
  | nil => simp [IdxMap.push, IdxMap.has]
  | cons e rest ih =>
    obtain ⟨k1, vs⟩ := e
    simp only [IdxMap.has] at ih
    simp only [IdxMap.push]
    split
    · rename_i h
      subst h
      simp only [IdxMap.has, List.any_cons]
      cases hk : (k1 == k') <;> simp
    · simp only [IdxMap.has, List.any_cons, ih, Bool.or_assoc]

/-- a map filled by pushes has a key iff some pushed key is that key -/
theorem has_foldl_push {α β : Type} (key : β → Str) (val : β → α) (l : List β) (m : IdxMap α) (k : Str) :
    IdxMap.has (l.foldl (fun m e => IdxMap.push m (key e) (val e)) m) k
      = (IdxMap.has m k || l.any (fun e => key e == k)) := by
  induction l generalizing m with
  | nil => simp
  | cons e rest ih => simp only [List.foldl_cons, ih, has_push, List.any_cons, Bool.or_assoc]

theorem mem_foldl_push_key {α β : Type} (key : β → Str) (val : β → α) (l : List β) (m : IdxMap α)
    (e : Str × List α) (he : e ∈ l.foldl (fun m x => IdxMap.push m (key x) (val x)) m) :
    IdxMap.has (l.foldl (fun m x => IdxMap.push m (key x) (val x)) m) e.1 = true := by
  simp only [IdxMap.has, List.any_eq_true]
  exact ⟨e, he, by simp⟩

/-! ### the first loop with the index map: projection on `traceStep` -/

theorem foldl_traceStepI_fst (o : TraceOpts) (l : List Nat) (s : Tree × Nat) (m : IdxMap Nat) :
    (l.foldl (traceStepI o) (s, m)).1 = l.foldl (traceStep o) s := by
  induction l generalizing s m with
  | nil => rfl
  | cons k rest ih => simp only [List.foldl_cons, traceStepI, ih]


/-! ### `annotAt`: tokens and structure are untouched, one label grows -/

mutual
theorem annotAt_leaves (s : Str) : (t : Tree) → (p : Path) → (annotAt s t p).leaves = t.leaves
  | leaf n f, p => by cases p <;> rfl
  | node f ks, [] => rfl
  | node f ks, i :: p => by simp only [annotAt, leaves]; exact annotAtL_leaves s ks i p
theorem annotAtL_leaves (s : Str) : (ks : List Tree) → (i : Nat) → (p : Path) →
    leavesL (annotAtL s ks i p) = leavesL ks
  | [], _, _ => rfl
  | t :: ts, 0, p => by simp only [annotAtL, leavesL, annotAt_leaves s t p]
  | t :: ts, i + 1, p => by simp only [annotAtL, leavesL, annotAtL_leaves s ts i p]
end

theorem annotAt_isLeaf (s : Str) (t : Tree) (p : Path) : (annotAt s t p).isLeaf = t.isLeaf := by
  cases t with
  | leaf n f => cases p <;> rfl
  | node f ks => cases p <;> rfl

mutual
theorem annotAt_noEmpty (s : Str) : (t : Tree) → (p : Path) → (annotAt s t p).noEmpty = t.noEmpty
  | leaf n f, p => by cases p <;> rfl
  | node f ks, [] => rfl
  | node f ks, i :: p => by
    have h1 := annotAtL_noEmpty s ks i p
    have h2 := annotAtL_isEmpty s ks i p
    simp only [annotAt, noEmpty, h1, h2]
theorem annotAtL_noEmpty (s : Str) : (ks : List Tree) → (i : Nat) → (p : Path) →
    noEmptyL (annotAtL s ks i p) = noEmptyL ks
  | [], _, _ => rfl
  | t :: ts, 0, p => by simp only [annotAtL, noEmptyL, annotAt_noEmpty s t p]
  | t :: ts, i + 1, p => by simp only [annotAtL, noEmptyL, annotAtL_noEmpty s ts i p]
theorem annotAtL_isEmpty (s : Str) : (ks : List Tree) → (i : Nat) → (p : Path) →
    (annotAtL s ks i p).isEmpty = ks.isEmpty
  | [], _, _ => rfl
  | _ :: _, 0, _ => rfl
  | _ :: _, _ + 1, _ => rfl
end

theorem annotAt_belowOK (s : Str) (t : Tree) (p : Path) : belowOK (annotAt s t p) = belowOK t := by
  cases t with
  | leaf n f => cases p <;> rfl
  | node f ks =>
    cases p with
    | nil => rfl
    | cons i p => simp only [annotAt, belowOK]; exact annotAtL_noEmpty s ks i p

/-- two lists of the same length related position by position -/
inductive Pointwise {α β : Type} (R : α → β → Prop) : List α → List β → Prop
  | nil : Pointwise R [] []
  | cons {a b l₁ l₂} : R a b → Pointwise R l₁ l₂ → Pointwise R (a :: l₁) (b :: l₂)

theorem Pointwise.length_eq {α β : Type} {R : α → β → Prop} {l₁ : List α} {l₂ : List β}
    (h : Pointwise R l₁ l₂) : l₁.length = l₂.length := by
  induction h with
  | nil => rfl
  | cons _ _ ih => simp [ih]

theorem Pointwise.of_zip {α β : Type} {R : α → β → Prop} {l₁ : List α} {l₂ : List β}
    (h : Pointwise R l₁ l₂) : ∀ p ∈ l₁.zip l₂, R p.1 p.2 := by
  induction h with
  | nil => intro p hp; simp at hp
  | cons h _ ih =>
    intro p hp
    rw [List.zip_cons_cons, List.mem_cons] at hp
    rcases hp with rfl | hp
    · exact h
    · exact ih p hp

/-- one label is unchanged or grows by `s` -/
def GrowBy (s : Str) (lb la : Str) : Prop := lb = la ∨ lb = la ++ s

theorem pointwise_refl_growBy (s : Str) : ∀ l : List Str, Pointwise (GrowBy s) l l
  | [] => .nil
  | _ :: xs => .cons (Or.inl rfl) (pointwise_refl_growBy s xs)

theorem pointwise_append {α β : Type} {R : α → β → Prop} {a1 a2 : List α} {b1 b2 : List β}
    (h1 : Pointwise R a1 b1) (h2 : Pointwise R a2 b2) : Pointwise R (a1 ++ a2) (b1 ++ b2) := by
  induction h1 with
  | nil => exact h2
  | cons h _ ih => exact .cons h ih

mutual
theorem annotAt_consLabels (s : Str) : (t : Tree) → (p : Path) →
    Pointwise (GrowBy s) (consLabels (annotAt s t p)) (consLabels t)
  | leaf n f, p => by cases p <;> exact .nil
  | node f ks, [] => by
    simp only [annotAt, consLabels]
    exact .cons (Or.inr rfl) (pointwise_refl_growBy s _)
  | node f ks, i :: p => by
    simp only [annotAt, consLabels]
    exact .cons (Or.inl rfl) (annotAtL_consLabels s ks i p)
theorem annotAtL_consLabels (s : Str) : (ks : List Tree) → (i : Nat) → (p : Path) →
    Pointwise (GrowBy s) (consLabelsL (annotAtL s ks i p)) (consLabelsL ks)
  | [], _, _ => .nil
  | t :: ts, 0, p => by
    simp only [annotAtL, consLabelsL]
    exact pointwise_append (annotAt_consLabels s t p) (pointwise_refl_growBy s _)
  | t :: ts, i + 1, p => by
    simp only [annotAtL, consLabelsL]
    exact pointwise_append (pointwise_refl_growBy s _) (annotAtL_consLabels s ts i p)
end

/-! ### slash suffixes -/

/-- zero or more pieces `"/" ++ X`, `X` the bare label (`parse_label(..).label`) of some label `y` -/
inductive SlashSuffix : Str → Prop
  | nil : SlashSuffix []
  | snoc (s y : Str) : SlashSuffix s → SlashSuffix (s ++ '/' :: (parseLabel DEFAULT_GF_SEP y).label)

/-- `lb` is `la` followed by slash pieces -/
def Slashed (lb la : Str) : Prop := ∃ suf, SlashSuffix suf ∧ lb = la ++ suf

theorem Slashed.refl (l : Str) : Slashed l l := ⟨[], .nil, by simp⟩

theorem Slashed.grow {lc lb la : Str} (y : Str) (h : Slashed lb la)
    (hg : GrowBy ('/' :: (parseLabel DEFAULT_GF_SEP y).label) lc lb) : Slashed lc la := by
  obtain ⟨suf, hs, rfl⟩ := h
  rcases hg with rfl | rfl
  · exact ⟨suf, hs, rfl⟩
  · exact ⟨_, .snoc suf y hs, by simp⟩

theorem pointwise_slashed_refl : ∀ l : List Str, Pointwise Slashed l l
  | [] => .nil
  | x :: xs => .cons (Slashed.refl x) (pointwise_slashed_refl xs)

theorem pointwise_slashed_grow (y : Str) : ∀ {c b a : List Str}, Pointwise Slashed b a →
    Pointwise (GrowBy ('/' :: (parseLabel DEFAULT_GF_SEP y).label)) c b → Pointwise Slashed c a
  | _, _, _, .nil, .nil => .nil
  | _, _, _, .cons h hs, .cons g gs => .cons (h.grow y g) (pointwise_slashed_grow y hs gs)

/-! ### a tree annotated by the slash loop -/

/-- `b` is `a` after some rounds of the annotation loop: each round appends one piece `"/" ++ X` to the labels
    of the nodes at some storage paths, `X` the bare label of (the label of) a node of the tree at that time -/
inductive Annotated : Tree → Tree → Prop
  | refl (t : Tree) : Annotated t t
  | step {a b : Tree} (y : Str) (ps : List Path) : Annotated a b →
      ((∃ q x, b.get? q = some x ∧ y = x.fields.label) ∨ y = []) →
      Annotated a (ps.foldl (fun acc p => annotAt ('/' :: (parseLabel DEFAULT_GF_SEP y).label) acc p) b)

theorem foldl_annotAt_leaves (s : Str) (ps : List Path) (t : Tree) :
    (ps.foldl (fun acc p => annotAt s acc p) t).leaves = t.leaves := by
  induction ps generalizing t with
  | nil => rfl
  | cons p rest ih => simp only [List.foldl_cons, ih, annotAt_leaves]

theorem foldl_annotAt_isLeaf (s : Str) (ps : List Path) (t : Tree) :
    (ps.foldl (fun acc p => annotAt s acc p) t).isLeaf = t.isLeaf := by
  induction ps generalizing t with
  | nil => rfl
  | cons p rest ih => simp only [List.foldl_cons, ih, annotAt_isLeaf]

theorem foldl_annotAt_belowOK (s : Str) (ps : List Path) (t : Tree) :
    belowOK (ps.foldl (fun acc p => annotAt s acc p) t) = belowOK t := by
  induction ps generalizing t with
  | nil => rfl
  | cons p rest ih => simp only [List.foldl_cons, ih, annotAt_belowOK]

theorem foldl_annotAt_noEmpty (s : Str) (ps : List Path) (t : Tree) :
    (ps.foldl (fun acc p => annotAt s acc p) t).noEmpty = t.noEmpty := by
  induction ps generalizing t with
  | nil => rfl
  | cons p rest ih => simp only [List.foldl_cons, ih, annotAt_noEmpty]

theorem foldl_annotAt_consLabels (y : Str) (ps : List Path) (t : Tree) (a : List Str)
    (h : Pointwise Slashed (consLabels t) a) :
    Pointwise Slashed
      (consLabels (ps.foldl (fun acc p => annotAt ('/' :: (parseLabel DEFAULT_GF_SEP y).label) acc p) t)) a := by
  induction ps generalizing t with
  | nil => exact h
  | cons p rest ih =>
    simp only [List.foldl_cons]
    exact ih _ (pointwise_slashed_grow y h (annotAt_consLabels _ t p))

theorem Annotated.leaves {a b : Tree} (h : Annotated a b) : b.leaves = a.leaves := by
  induction h with
  | refl => rfl
  | step y ps _ _ ih => rw [foldl_annotAt_leaves, ih]

theorem Annotated.isLeaf {a b : Tree} (h : Annotated a b) : b.isLeaf = a.isLeaf := by
  induction h with
  | refl => rfl
  | step y ps _ _ ih => rw [foldl_annotAt_isLeaf, ih]

theorem Annotated.belowOK {a b : Tree} (h : Annotated a b) : belowOK b = belowOK a := by
  induction h with
  | refl => rfl
  | step y ps _ _ ih => rw [foldl_annotAt_belowOK, ih]

theorem Annotated.noEmpty {a b : Tree} (h : Annotated a b) : b.noEmpty = a.noEmpty := by
  induction h with
  | refl => rfl
  | step y ps _ _ ih => rw [foldl_annotAt_noEmpty, ih]

theorem Annotated.consLabels {a b : Tree} (h : Annotated a b) :
    Pointwise Slashed (consLabels b) (consLabels a) := by
  induction h with
  | refl => exact pointwise_slashed_refl _
  | step y ps _ _ ih => exact foldl_annotAt_consLabels y ps _ _ ih

theorem Annotated.trans {a b c : Tree} (h1 : Annotated a b) (h2 : Annotated b c) : Annotated a c := by
  induction h2 with
  | refl => exact h1
  | step y ps _ hy ih => exact .step y ps ih hy


/-! ### the annotation loop produces an `Annotated` tree -/

theorem annotateOne_annotated (slash : List Str) (t t' : Tree) (tr f : Path)
    (h : annotateOne slash t tr f = .ok t') : Annotated t t' := by
  unfold annotateOne at h
  split at h
  · cases h; exact .refl _
  · split at h
    · cases h
    · rename_i goal _
      simp only [Except.ok.injEq] at h
      subst h
      rw [← List.foldl_append]
      refine .step _ _ (.refl _) ?_
      unfold labelAtPath
      cases hg : t.get? f with
      | none => exact Or.inr rfl
      | some x => exact Or.inl ⟨f, x, hg, rfl⟩

theorem annotateAll_annotated (slash : List Str) (i2n : IdxMap Path) :
    ∀ (l : List (Str × TraceRef)) (a t t' : Tree), Annotated a t →
      annotateAll slash i2n t l = .ok t' → Annotated a t'
  | [], a, t, t', ha, h => by
    simp only [annotateAll] at h
    cases h; exact ha
  | (co, tr) :: rest, a, t, t', ha, h => by
    simp only [annotateAll] at h
    split at h
    · cases h
    · rename_i filler _ _
      split at h
      · rename_i t1 h1
        exact annotateAll_annotated slash i2n rest a t1 t' (ha.trans (annotateOne_annotated slash t t1 tr.2 filler h1)) h
      · cases h


/-! ### `delete_terminal` and the constituent labels -/

mutual
theorem delLeaf_consLabels (k : Nat) : (t : Tree) →
    (match delLeaf k t with | some t' => consLabels t' | none => []).Sublist (consLabels t)
  | leaf n f => by
    by_cases h : n = k <;> simp [delLeaf, h, consLabels]
  | node f ks => by
    have ih := delLeafL_consLabels k ks
    simp only [delLeaf]
    by_cases hc : ((delLeafL k ks).isEmpty && !ks.isEmpty) = true
    · simp only [hc, if_true]; exact List.nil_sublist _
    · simp only [hc, consLabels]
      exact ih.cons_cons _
theorem delLeafL_consLabels (k : Nat) : (ks : List Tree) →
    (consLabelsL (delLeafL k ks)).Sublist (consLabelsL ks)
  | [] => by simp [delLeafL, consLabelsL]
  | t :: ts => by
    have ih1 := delLeaf_consLabels k t
    have ih2 := delLeafL_consLabels k ts
    simp only [delLeafL]
    cases hd : delLeaf k t with
    | some t' =>
      rw [hd] at ih1
      simp only [consLabelsL]
      exact ih1.append ih2
    | none =>
      simp only [consLabelsL]
      exact ih2.trans (List.sublist_append_right _ _)
end

theorem deleteTerminal_consLabels (t : Tree) (k : Nat) :
    (consLabels (deleteTerminal t k)).Sublist (consLabels t) := by
  cases t with
  | leaf n f => exact List.Sublist.refl _
  | node f ks =>
    simp only [deleteTerminal, consLabels]
    exact (delLeafL_consLabels k ks).cons_cons _

theorem deleteTerminal_sentence_sublist (t : Tree) (k : Nat) :
    (deleteTerminal t k).sentence.Sublist t.sentence := by
  cases t with
  | leaf n f => exact List.Sublist.refl _
  | node f ks =>
    rw [deleteTerminal_sentence' _ k rfl, sentence_eq]
    exact (List.filter_sublist).map _

/-- the tokens that are not kept traces (word `-NONE-`) -/
def notTrace (tk : Tok) : Bool := tk.1 != some NONE_POS

theorem deleteTerminal_notTrace (t : Tree) (k : Nat)
    (h : ∀ l ∈ t.leaves, l.num = k → l.fields.word = some NONE_POS) :
    (deleteTerminal t k).sentence.filter notTrace = t.sentence.filter notTrace := by
  cases t with
  | leaf n f => rfl
  | node f ks =>
    rw [deleteTerminal_sentence' _ k rfl, sentence_eq, List.filter_map, List.filter_map, List.filter_filter]
    congr 1
    apply List.filter_congr
    intro l hl
    have hl' := (mem_terminals _ l).1 hl
    by_cases e : l.num = k
    · have := h l hl' e
      simp [notTrace, tok, this]
    · have : (l.num != k) = true := by simpa using e
      simp [this]

/-! ### `deleteList` -/

theorem deleteListN_consLabels : ∀ (fuel : Nat) (t : Tree) (nums : List Nat),
    (consLabels (deleteListN fuel t nums)).Sublist (consLabels t)
  | 0, t, _ => List.Sublist.refl _
  | _ + 1, t, [] => List.Sublist.refl _
  | fuel + 1, t, n :: rest => by
    simp only [deleteListN]
    exact (deleteListN_consLabels fuel _ _).trans (deleteTerminal_consLabels t n)

theorem deleteListN_sentence : ∀ (fuel : Nat) (t : Tree) (nums : List Nat),
    (deleteListN fuel t nums).sentence.Sublist t.sentence
  | 0, t, _ => List.Sublist.refl _
  | _ + 1, t, [] => List.Sublist.refl _
  | fuel + 1, t, n :: rest => by
    simp only [deleteListN]
    exact (deleteListN_sentence fuel _ _).trans (deleteTerminal_sentence_sublist t n)

theorem deleteListN_belowOK : ∀ (fuel : Nat) (t : Tree) (nums : List Nat), belowOK t = true →
    belowOK (deleteListN fuel t nums) = true
  | 0, t, _, h => h
  | _ + 1, t, [], h => h
  | fuel + 1, t, n :: rest, h => by
    simp only [deleteListN]
    exact deleteListN_belowOK fuel _ _ (deleteTerminal_belowOK t n h)

/-- the list of token numbers handed to `deleteList` is sound: no number twice, every number is a token,
    and that token is a kept trace -/
def ValidDel (t : Tree) (nums : List Nat) : Prop :=
  nums.Nodup ∧ ∀ n ∈ nums, n ∈ t.leafNums ∧ ∀ l ∈ t.leaves, l.num = n → l.fields.word = some NONE_POS

theorem sh_inj (k a b : Nat) (ha : a ≠ k) (hb : b ≠ k) (h : sh k a = sh k b) : a = b := by
  have h1 := (sh_le_iff k a b ha hb).1 (by omega)
  have h2 := (sh_le_iff k b a hb ha).1 (by omega)
  omega

theorem validDel_step (t : Tree) (n : Nat) (rest : List Nat) (hN : Numbered t) (h : ValidDel t (n :: rest)) :
    ValidDel (deleteTerminal t n) (rest.map (sh n)) := by
  obtain ⟨hnd, hall⟩ := h
  rw [List.nodup_cons] at hnd
  have hne : ∀ m ∈ rest, m ≠ n := fun m hm e => hnd.1 (e ▸ hm)
  refine ⟨?_, ?_⟩
  · unfold List.Nodup
    rw [List.pairwise_map]
    refine List.Pairwise.imp_of_mem ?_ hnd.2
    intro a b ha hb hab e
    exact hab (sh_inj n a b (hne a ha) (hne b hb) e)
  · intro m' hm'
    obtain ⟨m, hm, rfl⟩ := List.mem_map.1 hm'
    obtain ⟨hmem, hw⟩ := hall m (List.mem_cons_of_mem _ hm)
    refine ⟨?_, ?_⟩
    · rw [deleteTerminal_leafNums' t n hN.1]
      exact List.mem_map_of_mem (List.mem_filter.2 ⟨hmem, by simpa using hne m hm⟩)
    · intro l' hl' hnum
      rw [deleteTerminal_leaves t n hN.1] at hl'
      obtain ⟨l, hl, rfl⟩ := List.mem_map.1 hl'
      obtain ⟨hl1, hl2⟩ := List.mem_filter.1 hl
      have hln : l.num ≠ n := by simpa using hl2
      rw [num_shiftTok] at hnum
      have := sh_inj n _ _ hln (hne m hm) hnum
      rw [fields_shiftTok]
      exact hw l hl1 this

theorem deleteListN_valid : ∀ (fuel : Nat) (t : Tree) (nums : List Nat), Numbered t → ValidDel t nums →
    Numbered (deleteListN fuel t nums) ∧
    (deleteListN fuel t nums).sentence.filter notTrace = t.sentence.filter notTrace
  | 0, t, _, hN, _ => ⟨hN, rfl⟩
  | _ + 1, t, [], hN, _ => ⟨hN, rfl⟩
  | fuel + 1, t, n :: rest, hN, hv => by
    simp only [deleteListN]
    obtain ⟨hmem, hw⟩ := hv.2 n List.mem_cons_self
    have hN1 := deleteTerminal_numbered t n hN hmem
    have ih := deleteListN_valid fuel (deleteTerminal t n) (rest.map (sh n)) hN1 (validDel_step t n rest hN hv)
    have e : (rest.map fun m => if m > n then m - 1 else m) = rest.map (sh n) := rfl
    rw [e]
    exact ⟨ih.1, ih.2.trans (deleteTerminal_notTrace t n hw)⟩


/-! ### the first loop: what `index_to_traces` holds when it is over -/

/-- the invariant of the first loop; `ks` = the ORIGINAL numbers of the trace tokens still to be visited -/
def TraceInv (ks : List Nat) (st : (Tree × Nat) × IdxMap Nat) : Prop :=
  Numbered st.1.1 ∧ ks.Pairwise (· < ·) ∧
  (∀ k ∈ ks, st.1.2 < k ∧ k - st.1.2 ≤ st.1.1.leafNums.length) ∧
  (IdxMap.vals st.2).Nodup ∧
  ∀ v ∈ IdxMap.vals st.2, v ∈ st.1.1.leafNums ∧ (∀ k ∈ ks, v + st.1.2 < k) ∧
    ∀ l ∈ st.1.1.leaves, l.num = v → l.fields.word = some NONE_POS

theorem traceInv_step (o : TraceOpts) (k : Nat) (rest : List Nat) (cur : Tree) (off : Nat) (m : IdxMap Nat)
    (h : TraceInv (k :: rest) ((cur, off), m)) : TraceInv rest (traceStepI o ((cur, off), m) k) := by
  obtain ⟨hN, hp, hb, hnd, hv⟩ := h
  simp only at hN hb hnd hv
  have hp' := List.pairwise_cons.1 hp
  have hk := hb k List.mem_cons_self
  have hmem : k - off ∈ cur.leafNums := (hN.mem _).2 (by omega)
  cases hf : cur.findLeaf (k - off) with
  | none =>
    have e : traceStepI o ((cur, off), m) k = ((cur, off), m) := by
      simp only [traceStepI, traceStep, traceIndexStep, hf]
    rw [e]
    exact ⟨hN, hp'.2, fun b hbr => hb b (List.mem_cons_of_mem _ hbr), hnd,
      fun v hvm => ⟨(hv v hvm).1, fun b hbr => (hv v hvm).2.1 b (List.mem_cons_of_mem _ hbr), (hv v hvm).2.2⟩⟩
  | some l =>
    cases hc : (o.keepall || o.keep.contains (traceLabel o (l.fields.word.getD []))) with
    | true =>
      -- the trace is kept: relabelled in place, recorded if it has a co-index
      obtain ⟨g, hg, e1⟩ : ∃ g : Fields → Fields, (∀ f, (g f).word = some NONE_POS) ∧
          traceStep o (cur, off) k = (modifyLeaf (k - off) g cur, off) :=
        ⟨_, fun _ => rfl, by simp only [traceStep, hf, hc]; rfl⟩
      have hN1 := modifyLeaf_numbered (k - off) g cur hN
      have hword : ∀ v, (∀ l ∈ cur.leaves, l.num = v → l.fields.word = some NONE_POS) ∨ v = k - off →
          ∀ l ∈ (modifyLeaf (k - off) g cur).leaves, l.num = v → l.fields.word = some NONE_POS := by
        intro v hv' l' hl' hnum
        rw [modifyLeaf_leaves] at hl'
        obtain ⟨l0, hl0, rfl⟩ := List.mem_map.1 hl'
        rw [num_modTok] at hnum
        unfold modTok
        by_cases e : l0.num = k - off
        · rw [if_pos e]
          cases l0 <;> simp [setFields, hg]
        · rw [if_neg e]
          rcases hv' with hv' | hv'
          · exact hv' l0 hl0 hnum
          · exact absurd (hnum.trans hv') e
      have hold : ∀ v ∈ IdxMap.vals m, v ∈ (modifyLeaf (k - off) g cur).leafNums ∧ (∀ b ∈ rest, v + off < b) ∧
          ∀ l ∈ (modifyLeaf (k - off) g cur).leaves, l.num = v → l.fields.word = some NONE_POS := by
        intro v hvm
        obtain ⟨h1, h2, h3⟩ := hv v hvm
        exact ⟨by rw [modifyLeaf_leafNums]; exact h1, fun b hbr => h2 b (List.mem_cons_of_mem _ hbr),
          hword v (Or.inl h3)⟩
      have hb1 : ∀ b ∈ rest, off < b ∧ b - off ≤ (modifyLeaf (k - off) g cur).leafNums.length := by
        intro b hbr
        rw [modifyLeaf_leafNums]
        exact hb b (List.mem_cons_of_mem _ hbr)
      cases hco : (parseLabel DEFAULT_GF_SEP (l.fields.word.getD [])).coindex.isEmpty with
      | true =>
        have e2 : traceIndexStep o (cur, off) m k = m := by
          simp only [traceIndexStep, hf, hc, hco]; rfl
        simp only [traceStepI, e1, e2]
        exact ⟨hN1, hp'.2, hb1, hnd, hold⟩
      | false =>
        have e2 : traceIndexStep o (cur, off) m k =
            IdxMap.push m (parseLabel DEFAULT_GF_SEP (l.fields.word.getD [])).coindex (k - off) := by
          simp only [traceIndexStep, hf, hc, hco]; rfl
        simp only [traceStepI, e1, e2]
        have hnew : k - off ∉ IdxMap.vals m := by
          intro hin
          have := (hv _ hin).2.1 k List.mem_cons_self
          omega
        refine ⟨hN1, hp'.2, hb1, (nodup_vals_push _ _ _).2 ⟨hnew, hnd⟩, ?_⟩
        intro v hvm
        rcases (mem_vals_push _ _ _ _).1 hvm with rfl | hvm
        · refine ⟨by rw [modifyLeaf_leafNums]; exact hmem, ?_, hword _ (Or.inr rfl)⟩
          intro b hbr
          have := hp'.1 b hbr
          dsimp only
          omega
        · exact hold v hvm
    | false =>
      -- the trace is deleted
      have e1 : traceStep o (cur, off) k = (deleteTerminal cur (k - off), off + 1) := by
        simp only [traceStep, hf, hc]; rfl
      have e2 : traceIndexStep o (cur, off) m k = m := by
        simp only [traceIndexStep, hf, hc]; rfl
      simp only [traceStepI, e1, e2]
      have hN1 := deleteTerminal_numbered cur (k - off) hN hmem
      have hl1 := deleteTerminal_length cur (k - off) hN hmem
      refine ⟨hN1, hp'.2, ?_, hnd, ?_⟩
      · intro b hbr
        have h1 := hp'.1 b hbr
        have h2 := hb b (List.mem_cons_of_mem _ hbr)
        dsimp only
        rw [hl1]; omega
      · intro v hvm
        obtain ⟨h1, h2, h3⟩ := hv v hvm
        have hlt : v < k - off := by have := h2 k List.mem_cons_self; omega
        have hshv : sh (k - off) v = v := by unfold sh; split <;> omega
        refine ⟨?_, ?_, ?_⟩
        · dsimp only
          rw [deleteTerminal_leafNums' cur _ hN.1]
          have : sh (k - off) v ∈ (cur.leafNums.filter (· ≠ k - off)).map (sh (k - off)) :=
            List.mem_map_of_mem (List.mem_filter.2 ⟨h1, by simp; omega⟩)
          rwa [hshv] at this
        · intro b hbr
          have := hp'.1 b hbr
          have := h2 k List.mem_cons_self
          dsimp only
          omega
        · intro l' hl' hnum
          rw [deleteTerminal_leaves cur _ hN.1] at hl'
          obtain ⟨l0, hl0, rfl⟩ := List.mem_map.1 hl'
          obtain ⟨hl1', hl2'⟩ := List.mem_filter.1 hl0
          have hln : l0.num ≠ k - off := by simpa using hl2'
          rw [num_shiftTok] at hnum
          have : l0.num = v := by
            unfold sh at hnum
            split at hnum <;> omega
          rw [fields_shiftTok]
          exact h3 l0 hl1' this

theorem traceInv_foldl (o : TraceOpts) : ∀ (ks : List Nat) (st : (Tree × Nat) × IdxMap Nat),
    TraceInv ks st → TraceInv [] (ks.foldl (traceStepI o) st)
  | [], _, h => h
  | k :: rest, ((cur, off), m), h => by
    simp only [List.foldl_cons]
    exact traceInv_foldl o rest _ (traceInv_step o k rest cur off m h)

theorem traceInv_init (t : Tree) (hN : Numbered t) :
    TraceInv ((t.terminals.filter fun l => l.fields.label == NONE_POS).map num) ((t, 0), []) := by
  have hs := filter_terminals_nums t (fun l => l.fields.label == NONE_POS) hN
  refine ⟨hN, hs.1, ?_, by simp [IdxMap.vals], by simp [IdxMap.vals]⟩
  intro k hk
  have := (hN.mem k).1 (hs.2 k hk)
  simp only
  omega


/-! ### no childless constituent below the root: first loop and label cleaning -/

mutual
theorem modifyLeaf_noEmpty (k : Nat) (g : Fields → Fields) : (t : Tree) → (modifyLeaf k g t).noEmpty = t.noEmpty
  | leaf n f => by by_cases h : n = k <;> simp [modifyLeaf, h, noEmpty]
  | node f ks => by
    simp only [modifyLeaf, noEmpty, modifyLeafL_noEmpty k g ks, modifyLeafL_isEmpty k g ks]
theorem modifyLeafL_noEmpty (k : Nat) (g : Fields → Fields) : (ks : List Tree) →
    noEmptyL (modifyLeafL k g ks) = noEmptyL ks
  | [] => rfl
  | t :: ts => by simp only [modifyLeafL, noEmptyL, modifyLeaf_noEmpty k g t, modifyLeafL_noEmpty k g ts]
theorem modifyLeafL_isEmpty (k : Nat) (g : Fields → Fields) : (ks : List Tree) →
    (modifyLeafL k g ks).isEmpty = ks.isEmpty
  | [] => rfl
  | _ :: _ => rfl
end

theorem modifyLeaf_belowOK (k : Nat) (g : Fields → Fields) (t : Tree) :
    belowOK (modifyLeaf k g t) = belowOK t := by
  cases t with
  | leaf n f => by_cases h : n = k <;> simp [modifyLeaf, h, belowOK]
  | node f ks => simp only [modifyLeaf, belowOK, modifyLeafL_noEmpty]

theorem traceStep_belowOK (o : TraceOpts) (st : Tree × Nat) (k : Nat) (h : belowOK st.1 = true) :
    belowOK (traceStep o st k).1 = true := by
  obtain ⟨cur, off⟩ := st
  simp only [traceStep]
  split
  · exact h
  · split
    · simp only [modifyLeaf_belowOK]; exact h
    · exact deleteTerminal_belowOK cur _ h

theorem foldl_traceStep_belowOK (o : TraceOpts) : ∀ (ks : List Nat) (st : Tree × Nat), belowOK st.1 = true →
    belowOK (ks.foldl (traceStep o) st).1 = true
  | [], _, h => h
  | k :: rest, st, h => by
    simp only [List.foldl_cons]
    exact foldl_traceStep_belowOK o rest _ (traceStep_belowOK o st k h)

mutual
theorem cleanLabels_noEmpty (o : TraceOpts) : (t : Tree) → (cleanLabels o t).noEmpty = t.noEmpty
  | leaf n f => rfl
  | node f ks => by
    simp only [cleanLabels]
    split
    · rename_i h
      rw [List.isEmpty_iff] at h
      subst h; rfl
    · simp only [noEmpty, cleanLabelsL_noEmpty o ks, cleanLabelsL_isEmpty o ks]
theorem cleanLabelsL_noEmpty (o : TraceOpts) : (ks : List Tree) → noEmptyL (cleanLabelsL o ks) = noEmptyL ks
  | [] => rfl
  | t :: ts => by simp only [cleanLabelsL, noEmptyL, cleanLabels_noEmpty o t, cleanLabelsL_noEmpty o ts]
theorem cleanLabelsL_isEmpty (o : TraceOpts) : (ks : List Tree) → (cleanLabelsL o ks).isEmpty = ks.isEmpty
  | [] => rfl
  | _ :: _ => rfl
end

theorem cleanLabels_belowOK (o : TraceOpts) (t : Tree) : belowOK (cleanLabels o t) = belowOK t := by
  cases t with
  | leaf n f => rfl
  | node f ks =>
    simp only [cleanLabels]
    split
    · rename_i h
      rw [List.isEmpty_iff] at h
      subst h; rfl
    · simp only [belowOK, cleanLabelsL_noEmpty]

theorem cleanLabels_isLeaf (o : TraceOpts) (t : Tree) : (cleanLabels o t).isLeaf = t.isLeaf := by
  cases t with
  | leaf n f => rfl
  | node f ks => simp only [cleanLabels]; split <;> rfl

theorem cleanLabels_numbered (o : TraceOpts) (t : Tree) (h : Numbered t) : Numbered (cleanLabels o t) := by
  refine ⟨by rw [cleanLabels_isLeaf]; exact h.1, ?_⟩
  have e : (cleanLabels o t).leaves = t.leaves := cleanLabels_leaves o t
  unfold yield terminals leafNums
  rw [e]
  exact h.2

theorem Annotated.numbered {a b : Tree} (h : Annotated a b) (hN : Numbered a) : Numbered b := by
  refine ⟨by rw [h.isLeaf]; exact hN.1, ?_⟩
  unfold yield terminals leafNums
  rw [h.leaves]
  exact hN.2

theorem Annotated.sentence {a b : Tree} (h : Annotated a b) : b.sentence = a.sentence := by
  unfold Tree.sentence terminals
  rw [h.leaves]

/-! ### the part after the two loops -/

theorem sublist_flatMap {α β : Type} (f : α → List β) {l₁ l₂ : List α} (h : l₁.Sublist l₂) :
    (l₁.flatMap f).Sublist (l₂.flatMap f) := by
  induction h with
  | slnil => simp
  | cons a _ ih => rw [List.flatMap_cons]; exact ih.trans (List.sublist_append_right _ _)
  | cons_cons a _ ih => rw [List.flatMap_cons, List.flatMap_cons]; exact (List.Sublist.refl _).append ih

/-- after the bottom-up resolution every index of a trace has a filler -/
theorem resolveBottomUp_has (t : Tree) (i2t : IdxMap TraceRef) (i2n : IdxMap Path) (a : IdxMap TraceRef)
    (b : IdxMap Path) (h : resolveBottomUp t i2t i2n = .ok (a, b)) : ∀ e ∈ a, IdxMap.has b e.1 = true := by
  unfold resolveBottomUp at h
  split at h
  · cases h
  · rename_i tf _ _
    simp only [Except.ok.injEq, Prod.mk.injEq] at h
    obtain ⟨rfl, rfl⟩ := h
    intro e he
    have h1 := mem_foldl_push_key (fun x : TraceRef × Nat × Path => natToStr x.2.1) (fun x => x.1) tf [] e he
    rw [has_foldl_push] at h1 ⊢
    simpa [IdxMap.has] using h1

theorem slashPhase_struct (ls : List Str) (t2 r : Tree) (i2t : IdxMap TraceRef) (i2n : IdxMap Path)
    (h : slashPhase ls t2 i2t i2n = .ok r) :
    ∃ t3 nums, Annotated t2 t3 ∧ r = deleteList t3 nums ∧ nums.Sublist ((IdxMap.vals i2t).map (·.1)) := by
  unfold slashPhase at h
  by_cases hc : (i2n.any fun e => decide (e.2.length > 1)) = true
  · simp only [hc, if_true] at h
    cases hr : resolveBottomUp t2 i2t i2n with
    | error e => rw [hr] at h; cases h
    | ok ab =>
      obtain ⟨a, b⟩ := ab
      rw [hr] at h
      simp only at h
      have hall := resolveBottomUp_has t2 i2t i2n a b hr
      have hdel : a.filter (fun e => !IdxMap.has b e.1) = [] := by
        rw [List.filter_eq_nil_iff]
        intro e he
        simp [hall e he]
      split at h
      · cases h
      · rename_i t3 h3
        rw [hdel] at h
        simp only [Except.ok.injEq] at h
        exact ⟨t3, [], annotateAll_annotated ls b _ t2 t2 t3 (.refl _) h3, by simpa using h.symm,
          List.nil_sublist _⟩
  · rw [if_neg hc] at h
    simp only at h
    split at h
    · cases h
    · rename_i t3 h3
      simp only [Except.ok.injEq] at h
      refine ⟨t3, _, annotateAll_annotated ls i2n _ t2 t2 t3 (.refl _) h3, h.symm, ?_⟩
      exact (sublist_flatMap _ List.filter_sublist).map _


/-! ### the whole function -/

theorem vals_map_fst (g : Nat → Path) (m : IdxMap Nat) :
    (IdxMap.vals (m.map fun e => (e.1, e.2.map fun n => (n, g n)))).map (·.1) = IdxMap.vals m := by
  induction m with
  | nil => rfl
  | cons e rest ih =>
    simp only [IdxMap.vals, List.map_cons, List.flatMap_cons, List.map_append, List.map_map] at ih ⊢
    rw [ih]
    congr 1
    simp [Function.comp_def]

/-- the result of the slash branch: the plain trace deletion, annotated, minus some kept traces -/
theorem slash_struct (o : TraceOpts) (ls : List Str) (t r : Tree)
    (h : ptbDeleteTracesSlash o (some ls) t = .ok r) :
    ∃ t3 nums, Annotated (ptbDeleteTraces o t) t3 ∧ r = deleteList t3 nums ∧
      (Numbered t → ValidDel t3 nums) := by
  unfold ptbDeleteTracesSlash at h
  simp only at h
  obtain ⟨t3, nums, ha, hr, hsub⟩ := slashPhase_struct ls _ r _ _ h
  rw [foldl_traceStepI_fst] at ha
  refine ⟨t3, nums, ha, hr, ?_⟩
  intro hN
  have inv := traceInv_foldl o _ _ (traceInv_init t hN)
  obtain ⟨_, _, _, hnd, hv⟩ := inv
  rw [vals_map_fst] at hsub
  have hleaves : t3.leaves =
      (((t.terminals.filter fun l => l.fields.label == NONE_POS).map num).foldl (traceStepI o) ((t, 0), [])).1.1.leaves := by
    rw [ha.leaves, cleanLabels_leaves, foldl_traceStepI_fst]
  refine ⟨hsub.nodup hnd, ?_⟩
  intro n hn
  obtain ⟨h1, _, h3⟩ := hv n (hsub.subset hn)
  unfold leafNums
  rw [hleaves]
  exact ⟨h1, h3⟩


theorem ptbDeleteTraces_numbered (o : TraceOpts) (t : Tree) (hN : Numbered t) : Numbered (ptbDeleteTraces o t) := by
  have inv := traceInv_foldl o _ _ (traceInv_init t hN)
  have h1 := inv.1
  rw [foldl_traceStepI_fst] at h1
  exact cleanLabels_numbered o _ h1

theorem ptbDeleteTraces_belowOK (o : TraceOpts) (t : Tree) (h : belowOK t = true) :
    belowOK (ptbDeleteTraces o t) = true := by
  unfold ptbDeleteTraces
  simp only
  rw [cleanLabels_belowOK]
  exact foldl_traceStep_belowOK o _ (t, 0) h

theorem Pointwise.exists_of_mem {α β : Type} {R : α → β → Prop} {l₁ : List α} {l₂ : List β}
    (h : Pointwise R l₁ l₂) : ∀ a ∈ l₁, ∃ b ∈ l₂, R a b := by
  induction h with
  | nil => intro a ha; simp at ha
  | cons h _ ih =>
    intro a ha
    rcases List.mem_cons.1 ha with rfl | ha
    · exact ⟨_, List.mem_cons_self, h⟩
    · obtain ⟨b, hb, hr⟩ := ih a ha
      exact ⟨b, List.mem_cons_of_mem _ hb, hr⟩

/-! ### the constituent labels through the first loop -/

mutual
theorem modifyLeaf_consLabels (k : Nat) (g : Fields → Fields) : (t : Tree) →
    consLabels (modifyLeaf k g t) = consLabels t
  | leaf n f => by by_cases h : n = k <;> simp [modifyLeaf, h, consLabels]
  | node f ks => by simp only [modifyLeaf, consLabels, modifyLeafL_consLabels k g ks]
theorem modifyLeafL_consLabels (k : Nat) (g : Fields → Fields) : (ks : List Tree) →
    consLabelsL (modifyLeafL k g ks) = consLabelsL ks
  | [] => rfl
  | t :: ts => by simp only [modifyLeafL, consLabelsL, modifyLeaf_consLabels k g t, modifyLeafL_consLabels k g ts]
end

theorem traceStep_consLabels (o : TraceOpts) (st : Tree × Nat) (k : Nat) :
    (consLabels (traceStep o st k).1).Sublist (consLabels st.1) := by
  obtain ⟨cur, off⟩ := st
  simp only [traceStep]
  split
  · exact List.Sublist.refl _
  · split
    · simp only [modifyLeaf_consLabels]; exact List.Sublist.refl _
    · exact deleteTerminal_consLabels cur _

theorem foldl_traceStep_consLabels (o : TraceOpts) : ∀ (ks : List Nat) (st : Tree × Nat),
    (consLabels (ks.foldl (traceStep o) st).1).Sublist (consLabels st.1)
  | [], _ => List.Sublist.refl _
  | k :: rest, st => by
    simp only [List.foldl_cons]
    exact (foldl_traceStep_consLabels o rest _).trans (traceStep_consLabels o st k)

/-! ### a slash piece hides the indices of what precedes it -/

theorem splitLast_none_of_not_mem (c : Char) : ∀ v : Str, c ∉ v → splitLast c v = none
  | [], _ => rfl
  | x :: xs, h => by
    simp only [List.mem_cons, not_or] at h
    have hx : ¬ x = c := fun e => h.1 e.symm
    simp [splitLast, splitLast_none_of_not_mem c xs h.2, hx]

/-- splitting `u ++ "/" ++ v` at the last `c`, when `c` does not occur in `v`: the right part still holds the `/` -/
theorem splitLast_slash (c : Char) (hc : c ≠ '/') (v : Str) (hv : c ∉ v) : ∀ (u a b : Str),
    splitLast c (u ++ '/' :: v) = some (a, b) → ∃ b', b = b' ++ '/' :: v
  | [], a, b, h => by
    have hs : ¬ '/' = c := fun e => hc e.symm
    simp [splitLast, splitLast_none_of_not_mem c v hv, hs] at h
  | x :: u', a, b, h => by
    simp only [List.cons_append, splitLast] at h
    cases hr : splitLast c (u' ++ '/' :: v) with
    | some ab =>
      obtain ⟨a', b0⟩ := ab
      rw [hr] at h
      simp only [Option.some.injEq, Prod.mk.injEq] at h
      obtain ⟨b', hb'⟩ := splitLast_slash c hc v hv u' a' b0 hr
      exact ⟨b', h.2 ▸ hb'⟩
    | none =>
      rw [hr] at h
      simp only at h
      split at h
      · simp only [Option.some.injEq, Prod.mk.injEq] at h
        exact ⟨u', h.2.symm⟩
      · cases h

theorem not_pyIsDigit_of_slash (b' v : Str) : pyIsDigit (b' ++ '/' :: v) = false := by
  simp [pyIsDigit, Char.isDigit]

theorem stripIndex_slash (c : Char) (hc : c ≠ '/') (u v : Str) (hv : c ∉ v) :
    stripIndex c (u ++ '/' :: v) = ([], u ++ '/' :: v) := by
  unfold stripIndex
  cases hs : splitLast c (u ++ '/' :: v) with
  | none => rfl
  | some ab =>
    obtain ⟨a, b⟩ := ab
    obtain ⟨b', rfl⟩ := splitLast_slash c hc v hv u a b hs
    simp only [not_pyIsDigit_of_slash]
    rfl

/-- dropping a final head marker from `u ++ "/" ++ v` leaves a string of the same form -/
theorem stripHead_slash (u v : Str) : ∃ v', (stripHead (u ++ '/' :: v)).2 = u ++ '/' :: v' ∧ ∀ c, c ∉ v → c ∉ v' := by
  unfold stripHead
  split
  · rename_i hl
    refine ⟨v.dropLast, ?_, fun c hc hm => hc (List.dropLast_subset v hm)⟩
    cases v with
    | nil => simp at hl
    | cons x xs =>
      simp only
      rw [show u ++ '/' :: x :: xs = (u ++ ['/']) ++ (x :: xs) by simp,
        List.dropLast_append_of_ne_nil (by simp)]
      simp
  · exact ⟨v, rfl, fun _ h => h⟩

/-- a label that ends in a slash piece without `-` and `=` shows neither a co-index nor a gap index -/
theorem parseLabel_slash (sep u v : Str) (h1 : '-' ∉ v) (h2 : '=' ∉ v) :
    (parseLabel sep (u ++ '/' :: v)).coindex = [] ∧ (parseLabel sep (u ++ '/' :: v)).gapindex = [] := by
  obtain ⟨v', hv', hsub⟩ := stripHead_slash u v
  have e1 := stripIndex_slash '-' (by decide) u v' (hsub _ h1)
  have e2 := stripIndex_slash '=' (by decide) u v' (hsub _ h2)
  unfold parseLabel
  simp only [hv', e1, e2]
  exact ⟨trivial, trivial⟩

theorem noIndexLeft_slash (kc : Bool) (u v : Str) (h1 : '-' ∉ v) (h2 : '=' ∉ v) :
    noIndexLeft kc (u ++ '/' :: v) = true := by
  obtain ⟨hc, hg⟩ := parseLabel_slash DEFAULT_GF_SEP u v h1 h2
  simp [noIndexLeft, hc, hg]

end TT.Lemmas.Slash
