/-
  Helper lemmas for the wave-19 small completions (C14 `binarize_ok_iff`), and C06 `consWithCtx_path` (the brief names
  no property file for it): the context recorded by the spec-side enumeration `Spec.consWithCtx` is the list of the
  nodes at the prefixes of the constituent's storage path, longest first.
  Core only (no Mathlib).
-/
import TT.Lemmas.More12d
import TT.Lemmas.More12a
namespace TT.Lemmas.Small19
open TT TT.Tree TT.Spec TT.Lemmas.Binarize TT.Lemmas.More12d

/-! ### C14: when the chain builder succeeds -/

/-- the chain test on the head entries of the children, in the order of their first tokens: walking from the
    left while more than two children remain, a child without head entry is an error unless a child marked
    as head was met before it -/
def chainOK : List (Option Bool) → Bool
  | [] => true
  | h :: rest => decide (rest.length < 2) || h == some true || (h == some false && chainOK rest)

/-- once the direction is switched the first remaining child never changes: success iff it has a head entry -/
theorem binChain_right (bf : Fields) : ∀ (fuel : Nat) (r0 : Tree) (rest : List Tree),
    r0.fields.head.isSome = true → ∃ out, binChain bf true (r0 :: rest) fuel = .ok out
  | 0, r0, rest, _ => ⟨r0 :: rest, by simp [binChain]⟩
  | fuel + 1, r0, rest, h0 => by
    by_cases hs : (r0 :: rest).length ≤ 2
    · exact ⟨_, binChain_short bf true _ hs _⟩
    · rw [binChain_cons bf true r0 rest fuel (by omega)]
      have hnone : r0.fields.head.isNone = false := by
        cases hhd : r0.fields.head <;> simp_all
      have hrem : stepRem true r0 rest = r0 :: rest.dropLast := by
        cases rest with
        | nil => simp at hs
        | cons a as => simp [stepRem, stepRight, List.dropLast]
      have hr : stepRight true r0 = true := by simp [stepRight]
      obtain ⟨inner, hin⟩ := binChain_right bf fuel r0 rest.dropLast h0
      rw [hr, hrem]
      exact ⟨_, by simp only [hnone, hin]; rfl⟩

/-- the chain builder, started in left-to-right direction, succeeds exactly when `chainOK` holds of the
    head entries -/
theorem binChain_ok_iff (bf : Fields) : ∀ (fuel : Nat) (rem : List Tree), rem.length ≤ fuel + 2 →
    ((∃ out, binChain bf false rem fuel = .ok out) ↔ chainOK (rem.map fun c => c.fields.head) = true)
  | 0, rem, hl => by
    rw [binChain_short bf false rem (by omega)]
    cases rem with
    | nil => simp [chainOK]
    | cons r0 rest =>
      have : rest.length < 2 := by simp only [List.length_cons] at hl; omega
      simp [chainOK, this]
  | fuel + 1, rem, hl => by
    by_cases hs : rem.length ≤ 2
    · rw [binChain_short bf false rem hs]
      cases rem with
      | nil => simp [chainOK]
      | cons r0 rest =>
        have : rest.length < 2 := by simp only [List.length_cons] at hs; omega
        simp [chainOK, this]
    · cases rem with
      | nil => simp at hs
      | cons r0 rest =>
        have hr2 : ¬ rest.length < 2 := by simp only [List.length_cons] at hs; omega
        rw [binChain_cons bf false r0 rest fuel (by omega)]
        simp only [List.map_cons, chainOK, List.length_map, hr2, decide_false, Bool.false_or]
        cases hhd : r0.fields.head with
        | none => simp
        | some b =>
          cases b with
          | true =>
            have hrem : stepRem false r0 rest = r0 :: rest.dropLast := by
              cases rest with
              | nil => simp at hr2
              | cons a as => simp [stepRem, stepRight, hhd, List.dropLast]
            have hr : stepRight false r0 = true := by simp [stepRight, hhd]
            obtain ⟨inner, hin⟩ := binChain_right bf fuel r0 rest.dropLast (by simp [hhd])
            rw [hr, hrem, hin]
            simp
          | false =>
            have hrem : stepRem false r0 rest = rest := by simp [stepRem, stepRight, hhd]
            have hr : stepRight false r0 = false := by simp [stepRight, hhd]
            have ih := binChain_ok_iff bf fuel rest (by simp only [List.length_cons] at hl; omega)
            rw [hr, hrem]
            simp only [Option.isNone_some, Bool.false_eq_true, if_false]
            have hb : ∀ x : Bool, ((some false : Option Bool) == some true ||
                (some false : Option Bool) == some false && x) = x := by intro x; cases x <;> rfl
            rw [hb, ← ih]
            cases hc : binChain bf false rest fuel <;> simp

/-- sorting the binarized children by first token = binarizing the sorted children -/
theorem sortBy_binOk (bare : Bool) (ks : List Tree)
    (hall : ∀ k ∈ ks, binarizeAux bare k = .ok (binOk bare k)) :
    sortBy leftmost (ks.map (binOk bare)) = (sortBy leftmost ks).map (binOk bare) := by
  rw [sortBy_map (fun k => leftmost (binOk bare k)) leftmost (binOk bare) (fun _ => rfl)]
  congr 1
  exact sortBy_congr _ _ ks fun k hk =>
    leftmost_of_perm _ _ (binarize_leafNums_perm bare k _ (hall k hk))

/-- the acceptance test of one constituent, on the head entries of its children -/
def nodeOK (ks : List Tree) : Bool :=
  decide (ks.length ≤ 2) ||
    (ks.any (fun k => k.fields.head == some true) &&
      chainOK ((sortBy leftmost ks).map fun c => c.fields.head))

/-- one constituent is binarized successfully iff all its children are and it passes `nodeOK` -/
theorem binarizeAux_node_iff (bare : Bool) (f : Fields) (ks : List Tree) :
    (∃ t', binarizeAux bare (node f ks) = .ok t') ↔
      (∀ k ∈ ks, ∃ k', binarizeAux bare k = .ok k') ∧ nodeOK ks = true := by
  constructor
  · rintro ⟨t', h⟩
    have hall := (binarizeAux_node_ok bare f ks t' h).1
    refine ⟨fun k hk => ⟨_, hall k hk⟩, ?_⟩
    rw [binarizeAux] at h
    cases h1 : binarizeAuxL bare ks with
    | error e => simp [h1] at h
    | ok ks' =>
      obtain ⟨rfl, _⟩ := binarizeAuxL_ok bare ks ks' h1
      simp only [h1] at h
      by_cases hl : ks.length ≤ 2
      · simp [nodeOK, hl]
      · have hl' : ¬ (ks.map (binOk bare)).length ≤ 2 := by simpa using hl
        simp only [hl', if_false] at h
        split at h
        · cases h
        · rename_i hany
          split at h
          · cases h
          · rename_i two htwo
            rw [sortBy_binOk bare ks hall] at hany htwo
            have hc := (binChain_ok_iff _ _ _ (by omega)).1 ⟨two, htwo⟩
            simp only [List.map_map, Function.comp_def, binOk_fields] at hc
            simp only [Bool.not_eq_eq_eq_not, Bool.not_true, Bool.not_eq_false,
              List.any_map, Function.comp_def, binOk_fields] at hany
            have hany' : ks.any (fun k => k.fields.head == some true) = true := by
              rw [List.any_eq_true] at hany ⊢
              obtain ⟨x, hx, hxh⟩ := hany
              exact ⟨x, (mem_sortBy _ _ _).1 hx, hxh⟩
            simp [nodeOK, hl, hany', hc]
  · rintro ⟨hkids, hok⟩
    obtain ⟨ks', h1⟩ := binarizeAuxL_of_all bare ks hkids
    obtain ⟨rfl, hall⟩ := binarizeAuxL_ok bare ks ks' h1
    rw [binarizeAux]
    simp only [h1]
    by_cases hl : ks.length ≤ 2
    · have hl' : (ks.map (binOk bare)).length ≤ 2 := by simpa using hl
      exact ⟨node f (ks.map (binOk bare)), by simp only [hl', if_true]⟩
    · have hl' : ¬ (ks.map (binOk bare)).length ≤ 2 := by simpa using hl
      simp only [hl', if_false]
      simp only [nodeOK, hl, decide_false, Bool.false_or, Bool.and_eq_true] at hok
      obtain ⟨hany, hc⟩ := hok
      rw [sortBy_binOk bare ks hall]
      have hany' : (((sortBy leftmost ks).map (binOk bare)).any fun c => c.fields.head == some true) = true := by
        simp only [List.any_map, Function.comp_def, binOk_fields]
        rw [List.any_eq_true] at hany ⊢
        obtain ⟨x, hx, hxh⟩ := hany
        exact ⟨x, (mem_sortBy _ _ _).2 hx, hxh⟩
      have hc' : chainOK (((sortBy leftmost ks).map (binOk bare)).map fun c => c.fields.head) = true := by
        simpa only [List.map_map, Function.comp_def, binOk_fields] using hc
      obtain ⟨two, htwo⟩ := (binChain_ok_iff (binFields bare f.label)
        ((sortBy leftmost ks).map (binOk bare)).length _ (by omega)).2 hc'
      exact ⟨node f two, by simp only [hany', htwo]; rfl⟩

/-- the whole tree -/
theorem binarizeAux_ok_iff (bare : Bool) (t : Tree) :
    (∃ t', binarizeAux bare t = .ok t') ↔
      ∀ s ∈ t.subtrees, ∀ f ks, s = node f ks → nodeOK ks = true := by
  induction t using TT.Lemmas.WF.tree_ind with
  | hl n f =>
    simp only [subtrees, List.mem_singleton]
    constructor
    · rintro _ s rfl f ks h; cases h
    · intro _; exact ⟨leaf n f, by simp [binarizeAux]⟩
  | hn f ks ih =>
    rw [binarizeAux_node_iff]
    constructor
    · rintro ⟨hk, hok⟩ s hs f' ks' rfl
      rw [TT.Lemmas.WF.mem_subtrees_node] at hs
      rcases hs with h | ⟨k, hkm, hsk⟩
      · cases h; exact hok
      · exact (ih k hkm).1 (hk k hkm) _ hsk _ _ rfl
    · intro h
      refine ⟨fun k hk => (ih k hk).2 fun s hs => h s (mem_subtrees_of_kid f ks k s hk hs), ?_⟩
      exact h _ (mem_subtrees_self _) f ks rfl

/-! ### C06: the context of `consWithCtx` is the ancestor path -/

/-- the nodes of `t` at the prefixes of the storage path `q`, longest first: the node at `q`, its parent, ..., the root
    ("q' dominates q" is "q' is a prefix of q", Spec/Nav.lean) -/
def upPath (t : Tree) (q : Path) : List (Option Tree) :=
  (List.range (q.length + 1)).reverse.map fun k => t.get? (q.take k)

theorem upPath_nil (t : Tree) : upPath t [] = [some t] := by
  simp [upPath, List.range_succ, get?]

theorem upPath_cons (f : Fields) (ks : List Tree) (i : Nat) (k : Tree) (q : Path) (hk : ks[i]? = some k) :
    upPath (node f ks) (i :: q) = upPath k q ++ [some (node f ks)] := by
  unfold upPath
  rw [List.length_cons, List.range_succ_eq_map (n := q.length + 1), List.reverse_cons, List.map_append,
    ← List.map_reverse, List.map_map]
  congr 1
  · apply List.map_congr_left
    intro n _
    simp [get?, hk]

/-- general form, with an outer context -/
theorem consWithCtx_path_gen (t : Tree) : ∀ ctx : List Tree, ∀ p ∈ consWithCtx ctx t,
    ∃ q, t.get? q = some p.1 ∧ p.2.map some = upPath t q ++ ctx.map some := by
  induction t using TT.Lemmas.WF.tree_ind with
  | hl n f => intro ctx p hp; simp [TT.Lemmas.More12a.consWithCtx_leaf] at hp
  | hn f ks ih =>
    intro ctx p hp
    by_cases hks : ks = []
    · subst hks; simp [TT.Lemmas.More12a.consWithCtx_empty] at hp
    · rw [TT.Lemmas.More12a.consWithCtx_node ctx f ks hks, List.mem_cons, List.mem_flatMap] at hp
      rcases hp with rfl | ⟨k, hk, hpk⟩
      · exact ⟨[], rfl, by simp [upPath_nil]⟩
      · obtain ⟨q, hq, hctx⟩ := ih k hk _ p hpk
        obtain ⟨i, hi, rfl⟩ := List.getElem_of_mem hk
        have hki : ks[i]? = some ks[i] := List.getElem?_eq_getElem hi
        refine ⟨i :: q, by simp [get?, hki, hq], ?_⟩
        rw [hctx, upPath_cons f ks i _ q hki]
        simp

/-- **consWithCtx_path**: every entry `(s, path)` of the enumeration sits at some storage path `q` of `t`, and `path`
    is `s` followed by its proper ancestors in `t`, nearest first (the nodes at the prefixes of `q`, longest first) -/
theorem consWithCtx_path (t : Tree) : ∀ p ∈ consWithCtx [] t,
    ∃ q, t.get? q = some p.1 ∧ p.2.map some = upPath t q := by
  intro p hp
  obtain ⟨q, h1, h2⟩ := consWithCtx_path_gen t [] p hp
  exact ⟨q, h1, by simpa using h2⟩

/-- the same with the model's `dominancePaths` (`dominance` as paths) -/
theorem consWithCtx_path_dominance (t : Tree) : ∀ p ∈ consWithCtx [] t,
    ∃ q, t.get? q = some p.1 ∧ p.2.map some = (dominancePaths q).map t.get? := by
  intro p hp
  obtain ⟨q, h1, h2⟩ := consWithCtx_path t p hp
  exact ⟨q, h1, by rw [h2]; simp [upPath, dominancePaths, List.map_map, Function.comp_def]⟩

/-- conversely every constituent with children, at whatever path, is enumerated with exactly that context -/
theorem consWithCtx_complete (t : Tree) : ∀ (ctx : List Tree) (q : Path) (s : Tree), t.get? q = some s →
    s.kids ≠ [] → ∃ p ∈ consWithCtx ctx t, p.1 = s ∧ p.2.map some = upPath t q ++ ctx.map some := by
  induction t using TT.Lemmas.WF.tree_ind with
  | hl n f =>
    intro ctx q s hq hs
    cases q with
    | nil => simp only [get?, Option.some.injEq] at hq; subst hq; simp [kids] at hs
    | cons i q => simp [get?] at hq
  | hn f ks ih =>
    intro ctx q s hq hs
    cases q with
    | nil =>
      simp only [get?, Option.some.injEq] at hq; subst hq
      have hks : ks ≠ [] := by simpa [kids] using hs
      rw [TT.Lemmas.More12a.consWithCtx_node ctx f ks hks]
      exact ⟨_, List.mem_cons_self, rfl, by simp [upPath_nil]⟩
    | cons i q =>
      cases hki : ks[i]? with
      | none => simp [get?, hki] at hq
      | some k =>
        have hk : k ∈ ks := List.mem_of_getElem? hki
        have hks : ks ≠ [] := List.ne_nil_of_mem hk
        have hq' : k.get? q = some s := by simpa [get?, hki] using hq
        obtain ⟨p, hp, hp1, hp2⟩ := ih k hk (node f ks :: ctx) q s hq' hs
        rw [TT.Lemmas.More12a.consWithCtx_node ctx f ks hks]
        refine ⟨p, List.mem_cons_of_mem _ (List.mem_flatMap.2 ⟨k, hk, hp⟩), hp1, ?_⟩
        rw [hp2, upPath_cons f ks i k q hki]
        simp

/-- instance: `(S (NP (A 1) (B 2)) (C 3))` - the `NP` at path `[0]` is enumerated with context `[NP, S]` -/
example :
    let np := node { label := "NP".toList } [leaf 1 { label := "A".toList }, leaf 2 { label := "B".toList }]
    let t := node { label := "S".toList } [np, leaf 3 { label := "C".toList }]
    (consWithCtx [] t).map (fun p => (p.1.fields.label, p.2.map (·.fields.label))) =
        [("S".toList, ["S".toList]), ("NP".toList, ["NP".toList, "S".toList])] ∧
      (upPath t [0]).map (fun o => o.map (·.fields.label)) = [some "NP".toList, some "S".toList] := by
  decide

end TT.Lemmas.Small19
