/-
  Lemmas.Conv19 — wave 19, helpers for `Props/C03Conv19.lean`.

  (1) the pipeline on the steps of a `Spec.TStep` sequence: `applySteps'_tsteps`, `transformAll_tsteps`,
      `runFrom_of_transformAll`, `stepOf_fits`, `stepsOf_fits`
  (2) the bracket writers without options only see the export-reader normal form `nf` of a tree (children sorted, word slot
      of constituents erased): `brText_stripW`, `brText_nf`, `terminals_nf`, `rdWords_nf`, `writeDisco_of_nf_eq`,
      `writeBrackets_of_nf_eq`, `writeDisco_of_sortKids_eq`, `writeBrackets_of_sortKids_eq`
-/
import TT.Props.C03Chain
import TT.Props.C04Total
import TT.Spec.More19c
namespace TT.Lemmas.Conv19
open TT TT.Tree TT.Spec
open TT.Lemmas.Run TT.Lemmas.ExportRT TT.Lemmas.WF TT.Props.C03Total TT.Props.C03Chain

/-! ### (1) sequences of `TStep` inside the pipeline -/

/-- the pipeline on the steps of a `TStep` sequence is `Spec.applySteps`; no tree is dropped -/
theorem applySteps'_tsteps : ∀ (steps : List TStep) (t : Tree),
    applySteps' (steps.map TStep.step) t = (applySteps steps t).map some
  | [], _ => rfl
  | s :: ss, t => by
    rw [List.map_cons, applySteps', applySteps]
    unfold TStep.step
    cases h : s.apply t with
    | error e => rfl
    | ok t' => exact applySteps'_tsteps ss t'

/-- when every sentence passes the sequence, the writer receives the transformed sentences: same ids, same order, none dropped -/
theorem transformAll_tsteps (steps : List TStep) : ∀ (ts : List (Nat × Tree)),
    (∀ p ∈ ts, ∃ t', applySteps steps p.2 = .ok t') →
    ∃ ts', transformAll (steps.map TStep.step) ts = .ok ts' ∧ ts'.map (·.1) = ts.map (·.1) ∧
      (∀ p' ∈ ts', ∃ p ∈ ts, p'.1 = p.1 ∧ applySteps steps p.2 = .ok p'.2) ∧
      (∀ p ∈ ts, ∃ p' ∈ ts', p'.1 = p.1 ∧ applySteps steps p.2 = .ok p'.2)
  | [], _ => ⟨[], rfl, rfl, fun _ h => (by cases h), fun _ h => (by cases h)⟩
  | (sid, t) :: rest, h => by
    obtain ⟨t', ht'⟩ := h (sid, t) (by simp)
    obtain ⟨ts', h1, h2, h3, h4⟩ := transformAll_tsteps steps rest (fun p hp => h p (by simp [hp]))
    refine ⟨(sid, t') :: ts', ?_, by simp [h2], ?_, ?_⟩
    · rw [transformAll, applySteps'_tsteps, ht']
      simp only [Except.map, h1]
    · intro p' hp'
      rcases List.mem_cons.1 hp' with rfl | hp'
      · exact ⟨(sid, t), by simp, rfl, ht'⟩
      · obtain ⟨p, hp, e⟩ := h3 p' hp'
        exact ⟨p, by simp [hp], e⟩
    · intro p hp
      rcases List.mem_cons.1 hp with rfl | hp
      · exact ⟨(sid, t'), by simp, rfl, ht'⟩
      · obtain ⟨p', hp', e⟩ := h4 p hp
        exact ⟨p', by simp [hp'], e⟩

/-- the command with steps is the command without steps on what the steps leave -/
theorem runFrom_of_transformAll (steps : List Step) (fmt : DestFmt) (o : OutOpts) (enc : Option Str) (ts ts' : List (Nat × Tree))
    (h : transformAll steps ts = .ok ts') : runFrom steps fmt o enc (.ok ts) = runFrom [] fmt o enc (.ok ts') := by
  rw [runFrom_ok, runFrom_ok, h, transformAll_nil_steps]

/-- the command-line glue (`--trans NAME` under the dict of `--params`) yields the step of the `TStep` the words describe -/
theorem stepOf_fits (d : List (Str × OptVal)) (s : TStep) (h : s.fits d) : stepOf d s.name = some s.step := by
  cases s with
  | rules p =>
    obtain ⟨h1, h2⟩ := h
    have e : stepOf d "mark_heads_by_rules".toList =
        (match (match optLookup d "mark_heads_preset".toList with
            | none => (none : Option Preset)
            | some (.str s) => some (if s == "negra".toList then .negra else if s == "ptb".toList then .ptb else .other)
            | some _ => some .other), optText d "mark_heads_rulefile" with
          | p, none => some fun t => (markHeadsByRules p none t).map some
          | p, some (some rf) => some fun t => (markHeadsByRules p (some rf) t).map some
          | some p, some none => some fun t => (markHeadsByRules (some p) (some []) t).map some
          | none, some none => none) := rfl
    have e2 : optText d "mark_heads_rulefile" = none := by unfold optText; rw [h1]
    show stepOf d "mark_heads_by_rules".toList = _
    rw [e, e2]
    rcases h2 with ⟨rfl, h2⟩ | ⟨rfl, h2⟩ <;> rw [h2] <;> rfl
  | binarize b =>
    have e : stepOf d "binarize".toList =
        some (fun t => (binarize (optLookup d "bare_bin_labels".toList).isSome t).map some) := rfl
    have h' : (optLookup d "bare_bin_labels".toList).isSome = b := h
    show stepOf d "binarize".toList = _
    rw [e, h']; rfl
  | sym r =>
    have e : stepOf d "punctuation_symetrify".toList =
        (match optText d "relc" with
          | none => some fun t => .ok (some (punctuationSymetrify none t))
          | some (some s) => some fun t => .ok (some (punctuationSymetrify (some s) t))
          | some none => none) := rfl
    show stepOf d "punctuation_symetrify".toList = _
    rw [e]
    cases r with
    | none =>
      have h' : optLookup d "relc".toList = none := h
      have : optText d "relc" = none := by unfold optText; rw [h']
      rw [this]; rfl
    | some r =>
      have h' : optLookup d "relc".toList = some (.str r) := h
      have : optText d "relc" = some (some r) := by unfold optText; rw [h']
      rw [this]; rfl
  | rootAttach => rfl
  | negra => rfl
  | boyd => rfl
  | raising => rfl
  | topnode => rfl
  | verylow => rfl
  | proot => rfl
  | collapse => rfl
  | uncollapse => rfl

theorem stepsOf_fits (pwords : List Str) : ∀ (steps : List TStep), (∀ s ∈ steps, s.fits (optionsDict pwords)) →
    stepsOf (steps.map TStep.name) pwords = some (steps.map TStep.step)
  | [], _ => rfl
  | s :: ss, h => by
    have ih := stepsOf_fits pwords ss (fun s' hs' => h s' (by simp [hs']))
    unfold stepsOf at ih ⊢
    rw [List.map_cons, List.mapM_cons, stepOf_fits _ s (h s (by simp)), ih]
    rfl

/-! ### (2) the bracket writers without options only see the normal form `nf` -/

open TT.Lemmas.More12i (wordsToNums_node noEmpty_wordsToNums leafNums_wordsToNums)

/-- a constituent's word slot is never printed -/
theorem brText_stripW (x : Tree) (hne : x.noEmpty = true) : brText (stripW x) = brText x := by
  induction x using tree_ind with
  | hl n f => rw [stripW_leaf]
  | hn f ks ih =>
    obtain ⟨hks, hk⟩ := (noEmpty_node f ks).1 hne
    have hks' : ks.map stripW ≠ [] := fun h => hks (List.map_eq_nil_iff.1 h)
    rw [stripW_node, brText_node _ _ hks', brText_node f ks hks,
      sortBy_map leftmost leftmost stripW (fun a => goodMap_stripW.leftmost_eq a), List.map_map]
    congr 3
    apply List.map_congr_left
    intro k hk'
    have hkm := (mem_sortBy _ _ _).1 hk'
    exact ih k hkm (hk k hkm)

theorem brText_nf (x : Tree) (hne : x.noEmpty = true) : brText (nf x) = brText x := by
  unfold nf; rw [brText_sortKids, brText_stripW x hne]

theorem wordsToNums_stripW (x : Tree) : wordsToNums (stripW x) = stripW (wordsToNums x) := by
  induction x using tree_ind with
  | hl n f => rw [stripW_leaf]; simp only [wordsToNums]; rw [stripW_leaf]
  | hn f ks ih =>
    rw [stripW_node, wordsToNums_node, wordsToNums_node, stripW_node, List.map_map, List.map_map]
    congr 1
    exact List.map_congr_left ih

theorem wordsToNums_nf (x : Tree) : wordsToNums (nf x) = nf (wordsToNums x) := by
  unfold nf; rw [← rd_wordsToNums_sortKids, wordsToNums_stripW]

theorem leaves_stripW (x : Tree) : (stripW x).leaves = x.leaves := by
  induction x using tree_ind with
  | hl n f => rw [stripW_leaf]
  | hn f ks ih =>
    rw [stripW_node, leaves_node, leaves_node, List.flatMap_map]
    exact TT.Lemmas.Write.flatMap_congr' _ _ ks ih

theorem terminals_nf (x : Tree) (hn : x.leafNums.Nodup) : (nf x).terminals = x.terminals := by
  unfold nf
  rw [rd_terminals_sortKids _ (by rw [leafNums_stripW]; exact hn)]
  unfold terminals
  rw [leaves_stripW]

theorem rdWords_nf (x : Tree) (hn : x.leafNums.Nodup) : rdWords (nf x) = rdWords x := by
  unfold rdWords; rw [terminals_nf x hn]

/-- the discobracket writer without options writes the same line for trees with the same normal form -/
theorem writeDisco_of_nf_eq (x y : Tree) (hx : WF x = true) (hy : WF y = true) (h : nf y = nf x) :
    writeDisco {} y = writeDisco {} x := by
  rw [rd_writeDisco_eq, rd_writeDisco_eq,
    ← brText_nf _ (noEmpty_wordsToNums y (WF_noEmpty y hy)), ← brText_nf _ (noEmpty_wordsToNums x (WF_noEmpty x hx)),
    ← wordsToNums_nf, ← wordsToNums_nf, ← rdWords_nf y (WF_nodup y hy), ← rdWords_nf x (WF_nodup x hx), h]

/-- the bracket writer without options on a continuous tree -/
theorem writeBrackets_plain (x : Tree) (hc : gapDegree x = 0) : writeBrackets {} x = .ok (some (brText x)) := by
  unfold writeBrackets
  simp only [hc, Nat.lt_irrefl, if_false]
  show (bracketsSub {} false x).map some = _
  rw [bracketsSub_eq_brText]
  rfl

/-- the bracket writer without options writes the same line for trees with the same normal form -/
theorem writeBrackets_of_nf_eq (x y : Tree) (hx : WF x = true) (hy : WF y = true) (h : nf y = nf x) (hc : gapDegree x = 0) :
    gapDegree y = 0 ∧ writeBrackets {} y = writeBrackets {} x := by
  have hg : gapDegree y = 0 := by
    rw [← goodMap_nf.gapDegree_zero, h, goodMap_nf.gapDegree_zero]; exact hc
  refine ⟨hg, ?_⟩
  rw [writeBrackets_plain x hc, writeBrackets_plain y hg, ← brText_nf y (WF_noEmpty y hy), ← brText_nf x (WF_noEmpty x hx), h]

/-- ... and for trees that are equal up to the order in which children are stored (no well-formedness needed) -/
theorem writeDisco_of_sortKids_eq (x y : Tree) (hx : x.leafNums.Nodup) (hy : y.leafNums.Nodup) (h : sortKids y = sortKids x) :
    writeDisco {} y = writeDisco {} x := by
  have hw : rdWords y = rdWords x := by
    unfold rdWords; rw [← rd_terminals_sortKids y hy, h, rd_terminals_sortKids x hx]
  rw [rd_writeDisco_eq, rd_writeDisco_eq, ← brText_sortKids (wordsToNums y), ← brText_sortKids (wordsToNums x),
    rd_wordsToNums_sortKids, rd_wordsToNums_sortKids, h, hw]

theorem writeBrackets_of_sortKids_eq (x y : Tree) (h : sortKids y = sortKids x) (hc : gapDegree x = 0) :
    writeBrackets {} y = writeBrackets {} x := by
  have hg : gapDegree y = 0 := by
    rw [← goodMap_sortKids.gapDegree_zero, h, goodMap_sortKids.gapDegree_zero]; exact hc
  rw [writeBrackets_plain x hc, writeBrackets_plain y hg, ← brText_sortKids y, ← brText_sortKids x, h]

end TT.Lemmas.Conv19
