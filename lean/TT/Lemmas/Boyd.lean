/-
  Helper lemmas for C05 (boyd_split / raising).  Core only (no Mathlib).
-/
import TT.Spec.Transform
import TT.Lemmas.Sort
import TT.Lemmas.Nav
namespace TT.Lemmas.Boyd
open TT TT.Tree TT.Spec TT.Lemmas.Nav

/-! ### list-of-trees functions as `flatMap` -/

theorem leavesL_eq : ∀ ks : List Tree, leavesL ks = ks.flatMap leaves
  | [] => by simp [leavesL]
  | t :: ts => by simp [leavesL, leavesL_eq ts]

theorem leavesL_append (a b : List Tree) : leavesL (a ++ b) = leavesL a ++ leavesL b := by
  simp [leavesL_eq]

theorem leaves_node (f : Fields) (ks : List Tree) : (node f ks).leaves = ks.flatMap leaves := by
  simp [leaves, leavesL_eq]

theorem leafNums_node (f : Fields) (ks : List Tree) : (node f ks).leafNums = ks.flatMap leafNums := by
  simp only [leafNums, leaves_node, List.map_flatMap]; rfl

theorem consLabelsL_eq : ∀ ks : List Tree, consLabelsL ks = ks.flatMap consLabels
  | [] => by simp [consLabelsL]
  | t :: ts => by simp [consLabelsL, consLabelsL_eq ts]

theorem consLabelsL_append (a b : List Tree) :
    consLabelsL (a ++ b) = consLabelsL a ++ consLabelsL b := by
  simp [consLabelsL_eq]

theorem subtreesL_append (a b : List Tree) : subtreesL (a ++ b) = subtreesL a ++ subtreesL b := by
  simp [subtreesL_eq]

/-! ### raising -/

mutual
theorem raiseNode_leaves : (t : Tree) → leavesL (raiseNode t) = leaves t
  | .leaf n f => by simp [raiseNode, leavesL, leaves]
  | .node f ks => by
    simp only [raiseNode]
    split
    · simp only [leaves]; exact raiseKids_leaves ks
    · simp only [leavesL, leaves, List.append_nil]; exact raiseKids_leaves ks
theorem raiseKids_leaves : (ks : List Tree) → leavesL (raiseKids ks) = leavesL ks
  | [] => by simp [raiseKids]
  | t :: ts => by
    simp only [raiseKids, leavesL_append, leavesL, raiseNode_leaves t, raiseKids_leaves ts]
end

/-- the surviving constituents -/
def keptLabels (l : List Tree) : List Str :=
  (l.filter (fun s => !s.isLeaf && !removable s)).map (·.fields.label)

theorem keptLabels_append (a b : List Tree) : keptLabels (a ++ b) = keptLabels a ++ keptLabels b := by
  simp [keptLabels]

mutual
theorem raiseNode_consLabels : (t : Tree) → consLabelsL (raiseNode t) = keptLabels (subtrees t)
  | .leaf n f => by simp [raiseNode, consLabelsL, consLabels, subtrees, keptLabels, isLeaf]
  | .node f ks => by
    simp only [raiseNode]
    split
    · rename_i h
      rw [raiseKids_consLabels ks]
      simp [subtrees, keptLabels, h]
    · rename_i h
      simp only [consLabelsL, consLabels, List.append_nil, raiseKids_consLabels ks, subtrees]
      simp [keptLabels, h, isLeaf, fields]
theorem raiseKids_consLabels : (ks : List Tree) → consLabelsL (raiseKids ks) = keptLabels (subtreesL ks)
  | [] => by simp [raiseKids, consLabelsL, subtreesL, keptLabels]
  | t :: ts => by
    simp only [raiseKids, consLabelsL_append, subtreesL, keptLabels_append,
      raiseNode_consLabels t, raiseKids_consLabels ts]
end

/-! ### boyd_split keeps the tokens -/

/-- what identifies a token -/
def tok (l : Tree) : Nat × Option Str × Str := (l.num, l.fields.word, l.fields.label)

/-- the tokens below a list of trees -/
def toksL (l : List Tree) : List (Nat × Option Str × Str) := (l.flatMap leaves).map tok

theorem toksL_append (a b : List Tree) : toksL (a ++ b) = toksL a ++ toksL b := by simp [toksL]

theorem toksL_perm {a b : List Tree} (h : a.Perm b) : (toksL a).Perm (toksL b) :=
  (h.flatMap_right leaves).map tok

theorem groupAdjacent_flatten : ∀ l : List Tree, (groupAdjacent l).flatten = l
  | [] => rfl
  | [a] => rfl
  | a :: b :: rest => by
    have ih := groupAdjacent_flatten (b :: rest)
    simp only [groupAdjacent]
    split
    · rename_i heq; rw [heq] at ih; simp at ih
    · rename_i blk blks heq
      rw [heq] at ih
      split <;> simp_all

theorem numberBlocks_kids (f : Fields) : ∀ (i : Nat) (G : List (List Tree)),
    (numberBlocks f i G).flatMap kids = G.flatten
  | _, [] => by simp [numberBlocks]
  | i, g :: G => by simp [numberBlocks, kids, numberBlocks_kids f (i + 1) G]

theorem numberBlocks_toks (f : Fields) : ∀ (i : Nat) (G : List (List Tree)),
    toksL (numberBlocks f i G) = toksL G.flatten
  | _, [] => by simp [numberBlocks]
  | i, g :: G => by
    have ih := numberBlocks_toks f (i + 1) G
    simp only [toksL] at ih ⊢
    simp [numberBlocks, leaves_node, ih]

mutual
theorem boydNode_toks : (t : Tree) → (r : List Tree) → boydNode t = .ok r →
    (toksL r).Perm (t.leaves.map tok)
  | .leaf n f, r, h => by
    simp only [boydNode, Except.ok.injEq] at h
    subst h
    simp [toksL, leaves, tok, num, fields]
  | .node f ks, r, h => by
    simp only [boydNode] at h
    cases hk : boydKids ks with
    | error e => simp [hk] at h
    | ok ks' =>
      have ih := boydKids_toks ks ks' hk
      simp only [hk] at h
      rw [leaves_node]
      split at h
      · simp only [Except.ok.injEq] at h
        subst h
        simpa [toksL, leaves_node] using ih
      · split at h
        · simp at h
        · simp only [Except.ok.injEq] at h
          subst h
          rw [numberBlocks_toks, groupAdjacent_flatten]
          exact (toksL_perm (sortBy_perm leftmost ks')).trans ih
theorem boydKids_toks : (ks : List Tree) → (ks' : List Tree) → boydKids ks = .ok ks' →
    (toksL ks').Perm (toksL ks)
  | [], ks', h => by
    simp only [boydKids, Except.ok.injEq] at h
    subst h
    exact List.Perm.refl _
  | t :: ts, ks', h => by
    simp only [boydKids] at h
    cases ht : boydNode t with
    | error e => simp [ht] at h
    | ok a =>
      cases hts : boydKids ts with
      | error e => simp [ht, hts] at h
      | ok b =>
        simp only [ht, hts, Except.ok.injEq] at h
        subst h
        have h1 := boydNode_toks t a ht
        have h2 := boydKids_toks ts b hts
        rw [toksL_append]
        simpa [toksL] using h1.append h2
end

end TT.Lemmas.Boyd
