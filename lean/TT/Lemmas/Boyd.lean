/-
  Helper lemmas for C05 (boyd_split / raising).  Core only (no Mathlib).
-/
import TT.Spec.Transform
import TT.Lemmas.Sort
import TT.Lemmas.Nav
namespace TT.Lemmas.Boyd
open TT TT.Tree TT.Spec TT.Lemmas.Nav

/-! ### list-of-trees functions as `flatMap` -/

theorem leavesL_eq : ∀ ks : List Tree, leavesL ks = ks.flatMap leaves
  | [] => by simp [leavesL]
  | t :: ts => by simp [leavesL, leavesL_eq ts]

theorem leavesL_append (a b : List Tree) : leavesL (a ++ b) = leavesL a ++ leavesL b := by
  simp [leavesL_eq]

theorem leaves_node (f : Fields) (ks : List Tree) : (node f ks).leaves = ks.flatMap leaves := by
  simp [leaves, leavesL_eq]

theorem leafNums_node (f : Fields) (ks : List Tree) : (node f ks).leafNums = ks.flatMap leafNums := by
  simp only [leafNums, leaves_node, List.map_flatMap]; rfl

theorem consLabelsL_eq : ∀ ks : List Tree, consLabelsL ks = ks.flatMap consLabels
  | [] => by simp [consLabelsL]
  | t :: ts => by simp [consLabelsL, consLabelsL_eq ts]

theorem consLabelsL_append (a b : List Tree) :
    consLabelsL (a ++ b) = consLabelsL a ++ consLabelsL b := by
  simp [consLabelsL_eq]

theorem subtreesL_append (a b : List Tree) : subtreesL (a ++ b) = subtreesL a ++ subtreesL b := by
  simp [subtreesL_eq]

/-! ### raising -/

mutual
theorem raiseNode_leaves : (t : Tree) → leavesL (raiseNode t) = leaves t
  | .leaf n f => by simp [raiseNode, leavesL, leaves]
  | .node f ks => by
    simp only [raiseNode]
    split
    · simp only [leaves]; exact raiseKids_leaves ks
    · simp only [leavesL, leaves, List.append_nil]; exact raiseKids_leaves ks
theorem raiseKids_leaves : (ks : List Tree) → leavesL (raiseKids ks) = leavesL ks
  | [] => by simp [raiseKids]
  | t :: ts => by
    simp only [raiseKids, leavesL_append, leavesL, raiseNode_leaves t, raiseKids_leaves ts]
end

/-- the surviving constituents -/
def keptLabels (l : List Tree) : List Str :=
  (l.filter (fun s => !s.isLeaf && !removable s)).map (·.fields.label)

theorem keptLabels_append (a b : List Tree) : keptLabels (a ++ b) = keptLabels a ++ keptLabels b := by
  simp [keptLabels]

mutual
theorem raiseNode_consLabels : (t : Tree) → consLabelsL (raiseNode t) = keptLabels (subtrees t)
  | .leaf n f => by simp [raiseNode, consLabelsL, consLabels, subtrees, keptLabels, isLeaf]
  | .node f ks => by
    simp only [raiseNode]
    split
    · rename_i h
      rw [raiseKids_consLabels ks]
      simp [subtrees, keptLabels, h]
    · rename_i h
      simp only [consLabelsL, consLabels, List.append_nil, raiseKids_consLabels ks, subtrees]
      simp [keptLabels, h, isLeaf, fields]
theorem raiseKids_consLabels : (ks : List Tree) → consLabelsL (raiseKids ks) = keptLabels (subtreesL ks)
  | [] => by simp [raiseKids, consLabelsL, subtreesL, keptLabels]
  | t :: ts => by
    simp only [raiseKids, consLabelsL_append, subtreesL, keptLabels_append,
      raiseNode_consLabels t, raiseKids_consLabels ts]
end

/-! ### boyd_split keeps the tokens -/

/-- what identifies a token -/
def tok (l : Tree) : Nat × Option Str × Str := (l.num, l.fields.word, l.fields.label)

/-- the tokens below a list of trees -/
def toksL (l : List Tree) : List (Nat × Option Str × Str) := (l.flatMap leaves).map tok

theorem toksL_append (a b : List Tree) : toksL (a ++ b) = toksL a ++ toksL b := by simp [toksL]

theorem toksL_perm {a b : List Tree} (h : a.Perm b) : (toksL a).Perm (toksL b) :=
  (h.flatMap_right leaves).map tok

theorem groupAdjacent_flatten : ∀ l : List Tree, (groupAdjacent l).flatten = l
  | [] => rfl
  | [a] => rfl
  | a :: b :: rest => by
    have ih := groupAdjacent_flatten (b :: rest)
    simp only [groupAdjacent]
    split
    · rename_i heq; rw [heq] at ih; simp at ih
    · rename_i blk blks heq
      rw [heq] at ih
      split <;> simp_all

theorem numberBlocks_kids (f : Fields) : ∀ (i : Nat) (G : List (List Tree)),
    (numberBlocks f i G).flatMap kids = G.flatten
  | _, [] => by simp [numberBlocks]
  | i, g :: G => by simp [numberBlocks, kids, numberBlocks_kids f (i + 1) G]

theorem numberBlocks_toks (f : Fields) : ∀ (i : Nat) (G : List (List Tree)),
    toksL (numberBlocks f i G) = toksL G.flatten
  | _, [] => by simp [numberBlocks]
  | i, g :: G => by
    have ih := numberBlocks_toks f (i + 1) G
    simp only [toksL] at ih ⊢
    simp [numberBlocks, leaves_node, ih]

mutual
theorem boydNode_toks : (t : Tree) → (r : List Tree) → boydNode t = .ok r →
    (toksL r).Perm (t.leaves.map tok)
  | .leaf n f, r, h => by
    simp only [boydNode, Except.ok.injEq] at h
    subst h
    simp [toksL, leaves, tok, num, fields]
  | .node f ks, r, h => by
    simp only [boydNode] at h
    cases hk : boydKids ks with
    | error e => simp [hk] at h
    | ok ks' =>
      have ih := boydKids_toks ks ks' hk
      simp only [hk] at h
      rw [leaves_node]
      split at h
      · simp only [Except.ok.injEq] at h
        subst h
        simpa [toksL, leaves_node] using ih
      · split at h
        · simp at h
        · simp only [Except.ok.injEq] at h
          subst h
          rw [numberBlocks_toks, groupAdjacent_flatten]
          exact (toksL_perm (sortBy_perm leftmost ks')).trans ih
theorem boydKids_toks : (ks : List Tree) → (ks' : List Tree) → boydKids ks = .ok ks' →
    (toksL ks').Perm (toksL ks)
  | [], ks', h => by
    simp only [boydKids, Except.ok.injEq] at h
    subst h
    exact List.Perm.refl _
  | t :: ts, ks', h => by
    simp only [boydKids] at h
    cases ht : boydNode t with
    | error e => simp [ht] at h
    | ok a =>
      cases hts : boydKids ts with
      | error e => simp [ht, hts] at h
      | ok b =>
        simp only [ht, hts, Except.ok.injEq] at h
        subst h
        have h1 := boydNode_toks t a ht
        have h2 := boydKids_toks ts b hts
        rw [toksL_append]
        simpa [toksL] using h1.append h2
end

/-! ### blocks, gaps and runs of numbers -/

theorem blocksOf_cons_cons {a b : Nat} {rest : List Nat} {blk : List Nat} {blks : List (List Nat)}
    (h : blocksOf (b :: rest) = blk :: blks) :
    blocksOf (a :: b :: rest) = if a + 1 < b then [a] :: blk :: blks else (a :: blk) :: blks := by
  simp only [blocksOf, h]

theorem blocksOf_cons : ∀ (m : List Nat) (c : Nat), ∃ blk blks, blocksOf (c :: m) = (c :: blk) :: blks
  | [], c => ⟨[], [], rfl⟩
  | d :: m, c => by
    obtain ⟨blk, blks, h⟩ := blocksOf_cons m d
    rw [blocksOf_cons_cons h]
    by_cases hc : c + 1 < d
    · rw [if_pos hc]; exact ⟨[], _, rfl⟩
    · rw [if_neg hc]; exact ⟨_, _, rfl⟩

theorem gapCount_eq_blocks : ∀ l : List Nat, gapCount l = (blocksOf l).length - 1
  | [] => rfl
  | [_] => rfl
  | a :: b :: rest => by
    obtain ⟨blk, blks, h⟩ := blocksOf_cons rest b
    have ih := gapCount_eq_blocks (b :: rest)
    rw [blocksOf_cons_cons h]
    simp only [gapCount, ih, h]
    split <;> simp <;> omega

theorem gapCount_of_mem_blocksOf : ∀ l : List Nat, ∀ x ∈ blocksOf l, gapCount x = 0
  | [], x, hx => by simp [blocksOf] at hx
  | [a], x, hx => by
    simp only [blocksOf, List.mem_singleton] at hx
    subst hx; rfl
  | a :: b :: rest, x, hx => by
    obtain ⟨blk, blks, h⟩ := blocksOf_cons rest b
    have ih := gapCount_of_mem_blocksOf (b :: rest)
    rw [h] at ih
    rw [blocksOf_cons_cons h] at hx
    split at hx
    · rcases List.mem_cons.1 hx with rfl | hx
      · rfl
      · exact ih x hx
    · rename_i hc
      rcases List.mem_cons.1 hx with rfl | hx
      · have := ih (b :: blk) List.mem_cons_self
        simp only [gapCount, this, hc, if_false]
      · exact ih x (List.mem_cons_of_mem _ hx)

theorem range'_of_gapCount : ∀ (l : List Nat) (a : Nat), gapCount (a :: l) = 0 →
    (a :: l).Pairwise (· < ·) → a :: l = List.range' a (l.length + 1)
  | [], a, _, _ => rfl
  | b :: l, a, hg, hp => by
    simp only [gapCount] at hg
    have hab : a < b := (List.pairwise_cons.1 hp).1 b List.mem_cons_self
    have hb : b = a + 1 := by
      by_cases h : a + 1 < b
      · simp [h] at hg
      · omega
    have hg' : gapCount (b :: l) = 0 := by omega
    have ih := range'_of_gapCount l b hg' (List.pairwise_cons.1 hp).2
    show a :: b :: l = List.range' a (l.length + 1 + 1)
    rw [List.range'_succ, ← hb, ← ih]

theorem blocksOf_range' : ∀ (n a : Nat), blocksOf (List.range' a (n + 1)) = [List.range' a (n + 1)]
  | 0, a => rfl
  | n + 1, a => by
    have ih := blocksOf_range' n (a + 1)
    rw [List.range'_succ] at ih
    rw [List.range'_succ, List.range'_succ, blocksOf_cons_cons ih]
    simp

theorem blocksOf_range'_append {c : Nat} {m blk : List Nat} {blks : List (List Nat)}
    (h : blocksOf (c :: m) = blk :: blks) : ∀ (n a : Nat),
    blocksOf (List.range' a (n + 1) ++ c :: m) =
      if a + (n + 1) < c then List.range' a (n + 1) :: blk :: blks
      else (List.range' a (n + 1) ++ blk) :: blks
  | 0, a => by
    simp only [List.range'_succ, List.range'_zero, List.cons_append, List.nil_append]
    exact blocksOf_cons_cons h
  | n + 1, a => by
    have ih := blocksOf_range'_append h n (a + 1)
    rw [List.range'_succ, List.cons_append]
    rw [List.range'_succ, List.cons_append] at ih
    by_cases hc : a + 1 + (n + 1) < c
    · rw [if_pos hc] at ih
      rw [List.range'_succ, List.cons_append, blocksOf_cons_cons ih, if_neg (Nat.lt_irrefl _),
        if_pos (by omega)]
    · rw [if_neg hc] at ih
      rw [List.range'_succ, List.cons_append, blocksOf_cons_cons ih, if_neg (Nat.lt_irrefl _),
        if_neg (by omega)]
      rfl

/-! ### yields -/

theorem yield_perm (t : Tree) : (yield t).Perm t.leafNums := (sortBy_perm num t.leaves).map num

theorem yield_sorted (t : Tree) : (yield t).Pairwise (· ≤ ·) :=
  List.pairwise_map.2 (sortBy_sorted num t.leaves)

theorem mem_yield (t : Tree) (n : Nat) : n ∈ yield t ↔ n ∈ t.leafNums := (yield_perm t).mem_iff

theorem yield_node (f : Fields) (ks : List Tree) :
    yield (node f ks) = sortBy id (ks.flatMap leafNums) := by
  rw [yield_eq, leafNums_node]

theorem yield_leaf (n : Nat) (f : Fields) : yield (leaf n f) = [n] := by
  simp [yield, terminals, leaves, sortBy, insertBy, num]

theorem sortBy_id_eq {l l' : List Nat} (hp : l.Perm l') (hs : l'.Pairwise (· ≤ ·)) :
    sortBy id l = l' := by
  refine List.Perm.eq_of_pairwise (le := fun a b => a ≤ b) ?_ (sortBy_sorted id l) hs
    ((sortBy_perm id l).trans hp)
  intro a b _ _ h1 h2
  exact Nat.le_antisymm h1 h2

theorem sortBy_id_congr {l l' : List Nat} (hp : l.Perm l') : sortBy id l = sortBy id l' :=
  sortBy_id_eq (hp.trans (sortBy_perm id l').symm) (sortBy_sorted id l')

theorem strict_of_sorted_nodup {l : List Nat} (hs : l.Pairwise (· ≤ ·)) (hn : l.Nodup) :
    l.Pairwise (· < ·) := by
  rw [List.Nodup] at hn
  exact (hs.and hn).imp (fun ⟨h1, h2⟩ => Nat.lt_of_le_of_ne h1 h2)

theorem le_of_strict {l : List Nat} (hs : l.Pairwise (· < ·)) : l.Pairwise (· ≤ ·) :=
  hs.imp Nat.le_of_lt

/-- the yield is a non-empty interval -/
def Ival (x : Tree) : Prop := ∃ a n, yield x = List.range' a (n + 1)

theorem leftmost_of_ival {x : Tree} {a n : Nat} (h : yield x = List.range' a (n + 1)) :
    leftmost x = a := by
  simp [leftmost, h, List.head?_range']

theorem rightmost_of_ival {x : Tree} {a n : Nat} (h : yield x = List.range' a (n + 1)) :
    rightmost x = a + n := by
  simp [rightmost, h, List.getLast?_range']

theorem ival_of (x : Tree) (hg : gapDegreeNode x = 0) (hne : x.leafNums ≠ [])
    (hn : x.leafNums.Nodup) : Ival x := by
  cases x with
  | leaf n f => exact ⟨n, 0, yield_leaf n f⟩
  | node f ks =>
    simp only [gapDegreeNode] at hg
    have hs := strict_of_sorted_nodup (yield_sorted (node f ks)) ((yield_perm _).symm.nodup hn)
    cases hy : yield (node f ks) with
    | nil =>
      have := (yield_perm (node f ks)).symm
      rw [hy] at this
      exact absurd (List.perm_nil.1 this) hne
    | cons a l =>
      rw [hy] at hg hs
      exact ⟨a, l.length, hy.trans (range'_of_gapCount l a hg hs)⟩

/-! ### groupAdjacent -/

theorem groupAdjacent_cons_cons {a b : Tree} {rest blk : List Tree} {blks : List (List Tree)}
    (h : groupAdjacent (b :: rest) = blk :: blks) :
    groupAdjacent (a :: b :: rest) =
      if leftmost b > rightmost a + 1 then [a] :: blk :: blks else (a :: blk) :: blks := by
  simp only [groupAdjacent, h]

theorem groupAdjacent_cons : ∀ (m : List Tree) (c : Tree),
    ∃ blk blks, groupAdjacent (c :: m) = (c :: blk) :: blks
  | [], c => ⟨[], [], rfl⟩
  | d :: m, c => by
    obtain ⟨blk, blks, h⟩ := groupAdjacent_cons m d
    rw [groupAdjacent_cons_cons h]
    by_cases hc : leftmost d > rightmost c + 1
    · rw [if_pos hc]; exact ⟨[], _, rfl⟩
    · rw [if_neg hc]; exact ⟨_, _, rfl⟩

theorem groupAdjacent_ne_nil : ∀ (l : List Tree), ∀ g ∈ groupAdjacent l, g ≠ []
  | [], g, hg => by simp [groupAdjacent] at hg
  | [a], g, hg => by
    simp only [groupAdjacent, List.mem_singleton] at hg
    subst hg; simp
  | a :: b :: rest, g, hg => by
    obtain ⟨blk, blks, h⟩ := groupAdjacent_cons rest b
    have ih := groupAdjacent_ne_nil (b :: rest)
    rw [h] at ih
    rw [groupAdjacent_cons_cons h] at hg
    split at hg
    · rcases List.mem_cons.1 hg with rfl | hg
      · simp
      · exact ih g hg
    · rcases List.mem_cons.1 hg with rfl | hg
      · simp
      · exact ih g (List.mem_cons_of_mem _ hg)

/-- grouping adjacent interval-children computes the blocks of the concatenated yields -/
theorem groupAdjacent_yields : ∀ (l : List Tree), (∀ x ∈ l, Ival x) →
    (groupAdjacent l).map (·.flatMap yield) = blocksOf (l.flatMap yield)
  | [], _ => rfl
  | [a], hI => by
    obtain ⟨aa, na, ha⟩ := hI a List.mem_cons_self
    simp [groupAdjacent, ha, blocksOf_range']
  | a :: b :: rest, hI => by
    obtain ⟨blk, blks, hg⟩ := groupAdjacent_cons rest b
    have ih := groupAdjacent_yields (b :: rest) (fun x hx => hI x (List.mem_cons_of_mem _ hx))
    obtain ⟨aa, na, ha⟩ := hI a List.mem_cons_self
    obtain ⟨ab, nb, hb⟩ := hI b (List.mem_cons_of_mem _ List.mem_cons_self)
    have hbm : (b :: rest).flatMap yield = ab :: (List.range' (ab + 1) nb ++ rest.flatMap yield) := by
      simp [hb, List.range'_succ]
    rw [hg, hbm, List.map_cons] at ih
    rw [groupAdjacent_cons_cons hg, List.flatMap_cons, hbm, ha,
      blocksOf_range'_append ih.symm na aa, leftmost_of_ival hb, rightmost_of_ival ha]
    by_cases hc : ab > aa + na + 1
    · rw [if_pos hc, if_pos (by omega)]
      simp [ha]
    · rw [if_neg hc, if_neg (by omega)]
      simp [ha]

/-- siblings sorted by leftmost token, each an interval, with disjoint tokens: the concatenated
    yields are strictly increasing -/
theorem sorted_flatMap_yield (l : List Tree) (hI : ∀ x ∈ l, Ival x)
    (hs : l.Pairwise (fun a b => leftmost a ≤ leftmost b)) (hn : (l.flatMap leafNums).Nodup) :
    (l.flatMap yield).Pairwise (· < ·) := by
  rw [List.pairwise_flatMap]
  constructor
  · intro a ha
    obtain ⟨aa, na, h⟩ := hI a ha
    rw [h]; exact List.pairwise_lt_range'
  · rw [List.Nodup, List.pairwise_flatMap] at hn
    refine (hs.and hn.2).imp_of_mem ?_
    intro a b ha hb ⟨hab, hd⟩ x hx y hy
    obtain ⟨aa, na, ha'⟩ := hI a ha
    obtain ⟨ab, nb, hb'⟩ := hI b hb
    rw [leftmost_of_ival ha', leftmost_of_ival hb'] at hab
    have hx' := hx; have hy' := hy
    rw [ha', List.mem_range'_1] at hx'
    rw [hb', List.mem_range'_1] at hy'
    by_cases hlt : x < y
    · exact hlt
    · exfalso
      have h1 : ab ∈ yield a := by rw [ha', List.mem_range'_1]; omega
      have h2 : ab ∈ yield b := by rw [hb', List.mem_range'_1]; omega
      exact hd ab ((mem_yield a ab).1 h1) ab ((mem_yield b ab).1 h2) rfl

theorem flatMap_yield_perm (g : List Tree) : (g.flatMap leafNums).Perm (g.flatMap yield) :=
  perm_flatMap_of_forall _ _ g (fun a _ => (yield_perm a).symm)

/-- what the node-level step of `boyd_split` sees -/
structure NodeStep (ks : List Tree) : Prop where
  sorted : ((sortBy leftmost ks).flatMap yield).Pairwise (· < ·)
  yieldEq : sortBy id (ks.flatMap leafNums) = (sortBy leftmost ks).flatMap yield
  groups : (groupAdjacent (sortBy leftmost ks)).map (·.flatMap yield) =
    blocksOf (sortBy id (ks.flatMap leafNums))
  groupYield : ∀ g ∈ groupAdjacent (sortBy leftmost ks), sortBy id (g.flatMap leafNums) = g.flatMap yield
  groupSorted : ∀ g ∈ groupAdjacent (sortBy leftmost ks), (g.flatMap yield).Pairwise (· < ·)

theorem nodeStep (ks : List Tree) (hI : ∀ x ∈ ks, Ival x) (hn : (ks.flatMap leafNums).Nodup) :
    NodeStep ks := by
  have hI' : ∀ x ∈ sortBy leftmost ks, Ival x := fun x hx => hI x ((mem_sortBy _ _ _).1 hx)
  have hp : ((sortBy leftmost ks).flatMap leafNums).Perm (ks.flatMap leafNums) :=
    (sortBy_perm leftmost ks).flatMap_right leafNums
  have hsorted := sorted_flatMap_yield (sortBy leftmost ks) hI' (sortBy_sorted leftmost ks)
    (hp.symm.nodup hn)
  have hy : sortBy id (ks.flatMap leafNums) = (sortBy leftmost ks).flatMap yield :=
    sortBy_id_eq (hp.symm.trans (flatMap_yield_perm _)) (le_of_strict hsorted)
  have hgs : ∀ g ∈ groupAdjacent (sortBy leftmost ks), (g.flatMap yield).Pairwise (· < ·) := by
    intro g hg
    have hsub : g.Sublist (sortBy leftmost ks) := by
      have := List.sublist_flatten_of_mem hg
      rwa [groupAdjacent_flatten] at this
    rw [List.pairwise_flatMap] at hsorted ⊢
    exact ⟨fun a ha => hsorted.1 a (hsub.subset ha), hsorted.2.sublist hsub⟩
  refine ⟨hsorted, hy, ?_, ?_, hgs⟩
  · rw [hy]; exact groupAdjacent_yields _ hI'
  · intro g hg
    exact sortBy_id_eq (flatMap_yield_perm g) (le_of_strict (hgs g hg))

/-! ### noEmpty / continuous -/

theorem noEmptyL_iff : ∀ ks : List Tree, noEmptyL ks = true ↔ ∀ k ∈ ks, noEmpty k = true
  | [] => by simp [noEmptyL]
  | t :: ts => by simp [noEmptyL, noEmptyL_iff ts]

mutual
theorem leaves_ne_nil : (t : Tree) → noEmpty t = true → t.leaves ≠ []
  | .leaf n f, _ => by simp [leaves]
  | .node f ks, h => by
    simp only [noEmpty, Bool.and_eq_true, Bool.not_eq_true', List.isEmpty_eq_false_iff] at h
    simp only [leaves]
    exact leavesL_ne_nil ks h.2 h.1
theorem leavesL_ne_nil : (ks : List Tree) → noEmptyL ks = true → ks ≠ [] → leavesL ks ≠ []
  | [], _, h => absurd rfl h
  | t :: ts, h, _ => by
    simp only [noEmptyL, Bool.and_eq_true] at h
    simp only [leavesL]
    have := leaves_ne_nil t h.1
    simp [this]
end

theorem leafNums_ne_nil (t : Tree) (h : noEmpty t = true) : t.leafNums ≠ [] := by
  simp only [leafNums, ne_eq, List.map_eq_nil_iff]
  exact leaves_ne_nil t h

theorem flatMap_leafNums_ne_nil (ks : List Tree) (h : noEmptyL ks = true) (hne : ks ≠ []) :
    ks.flatMap leafNums ≠ [] := by
  have := leavesL_ne_nil ks h hne
  rw [leavesL_eq] at this
  intro h0
  apply this
  have h1 : (ks.flatMap leaves).map num = [] := by rw [List.map_flatMap]; exact h0
  exact List.map_eq_nil_iff.1 h1

theorem noEmpty_node (f : Fields) (ks : List Tree) :
    noEmpty (node f ks) = true ↔ ks ≠ [] ∧ ∀ k ∈ ks, noEmpty k = true := by
  simp [noEmpty, noEmptyL_iff]

theorem continuous_node (f : Fields) (ks : List Tree) :
    continuous (node f ks) = true ↔
      gapCount (yield (node f ks)) = 0 ∧ ∀ k ∈ ks, continuous k = true := by
  simp only [continuous, subtrees, subtreesL_eq, List.all_cons, List.all_flatMap, gapDegreeNode,
    Bool.and_eq_true, beq_iff_eq, List.all_eq_true]

theorem continuous_leaf (n : Nat) (f : Fields) : continuous (leaf n f) = true := by
  simp [continuous, subtrees, gapDegreeNode]

theorem continuous_root (x : Tree) (h : continuous x = true) : gapDegreeNode x = 0 := by
  cases x with
  | leaf n f => rfl
  | node f ks => simp only [gapDegreeNode]; exact ((continuous_node f ks).1 h).1

theorem nodup_of_mem_flatMap {ks : List Tree} (hn : (ks.flatMap leafNums).Nodup) {x : Tree}
    (hx : x ∈ ks) : x.leafNums.Nodup := by
  rw [List.Nodup, List.pairwise_flatMap] at hn
  exact hn.1 x hx

/-! ### the node-level step of boyd_split -/

def boydStep (f : Fields) (ks' : List Tree) : Except Err (List Tree) :=
  if (groupAdjacent (sortBy leftmost ks')).length ≤ 1 then
    .ok [node { f with split := some false, headBlock := some true } ks']
  else if f.head.isNone then .error .valueError
  else .ok (numberBlocks f 0 (groupAdjacent (sortBy leftmost ks')))

theorem boydNode_node (f : Fields) (ks : List Tree) :
    boydNode (node f ks) = match boydKids ks with
      | .error e => .error e
      | .ok ks' => boydStep f ks' := by
  simp only [boydNode, boydStep]
  cases boydKids ks <;> rfl

theorem mem_numberBlocks (f : Fields) : ∀ (i : Nat) (G : List (List Tree)) (x : Tree),
    x ∈ numberBlocks f i G → ∃ g ∈ G, ∃ f' : Fields, x = node f' g ∧ f'.label = f.label ∧
      f'.split = some true
  | _, [], x, h => by simp [numberBlocks] at h
  | i, g :: G, x, h => by
    simp only [numberBlocks, List.mem_cons] at h
    rcases h with rfl | h
    · exact ⟨g, List.mem_cons_self, _, rfl, rfl, rfl⟩
    · obtain ⟨g', hg', f', hx, hl⟩ := mem_numberBlocks f (i + 1) G x h
      exact ⟨g', List.mem_cons_of_mem _ hg', f', hx, hl⟩

theorem numberBlocks_map_yield (f : Fields) : ∀ (i : Nat) (G : List (List Tree)),
    (numberBlocks f i G).map yield = G.map (fun g => sortBy id (g.flatMap leafNums))
  | _, [] => by simp [numberBlocks]
  | i, g :: G => by simp [numberBlocks, yield_node, numberBlocks_map_yield f (i + 1) G]

theorem boydStep_spec (f : Fields) (ks' r : List Tree) (h : boydStep f ks' = .ok r)
    (hgood : ∀ x ∈ ks', continuous x = true ∧ noEmpty x = true)
    (hn : (ks'.flatMap leafNums).Nodup) (hne : ks' ≠ []) :
    (∀ x ∈ r, continuous x = true ∧ noEmpty x = true) ∧
    r.map yield = blocksOf (sortBy id (ks'.flatMap leafNums)) ∧
    ∀ x ∈ r, x.fields.label = f.label := by
  have hI : ∀ x ∈ ks', Ival x := fun x hx =>
    ival_of x (continuous_root x (hgood x hx).1) (leafNums_ne_nil x (hgood x hx).2)
      (nodup_of_mem_flatMap hn hx)
  have ns := nodeStep ks' hI hn
  have hflat := groupAdjacent_flatten (sortBy leftmost ks')
  unfold boydStep at h
  split at h
  · rename_i hlen
    simp only [Except.ok.injEq] at h
    subst h
    have hgc : gapCount (sortBy id (ks'.flatMap leafNums)) = 0 := by
      rw [gapCount_eq_blocks, ← ns.groups, List.length_map]; omega
    refine ⟨?_, ?_, ?_⟩
    · intro x hx
      rw [List.mem_singleton] at hx
      subst hx
      refine ⟨(continuous_node _ _).2 ⟨?_, fun k hk => (hgood k hk).1⟩,
        (noEmpty_node _ _).2 ⟨hne, fun k hk => (hgood k hk).2⟩⟩
      rw [yield_node]; exact hgc
    · rw [← ns.groups]
      have hl : sortBy leftmost ks' ≠ [] := by
        intro h0
        have := sortBy_length leftmost ks'
        rw [h0] at this
        exact hne (List.length_eq_zero_iff.1 this.symm)
      cases hG : groupAdjacent (sortBy leftmost ks') with
      | nil => rw [hG] at hflat; exact absurd hflat.symm hl
      | cons g G =>
        cases G with
        | nil =>
          rw [hG] at hflat
          simp only [List.flatten_cons, List.flatten_nil, List.append_nil] at hflat
          simp [yield_node, ns.yieldEq, hflat]
        | cons g' G' => rw [hG] at hlen; simp at hlen
    · simp [fields]
  · split at h
    · simp at h
    · simp only [Except.ok.injEq] at h
      subst h
      refine ⟨?_, ?_, ?_⟩
      · intro x hx
        obtain ⟨g, hg, f', rfl, _⟩ := mem_numberBlocks f 0 _ x hx
        have hsub : ∀ k ∈ g, k ∈ ks' := fun k hk =>
          (mem_sortBy leftmost ks' k).1 (hflat ▸ List.mem_flatten.2 ⟨g, hg, hk⟩)
        refine ⟨(continuous_node _ _).2 ⟨?_, fun k hk => (hgood k (hsub k hk)).1⟩,
          (noEmpty_node _ _).2 ⟨groupAdjacent_ne_nil _ g hg, fun k hk => (hgood k (hsub k hk)).2⟩⟩
        rw [yield_node, ns.groupYield g hg]
        apply gapCount_of_mem_blocksOf (sortBy id (ks'.flatMap leafNums))
        rw [← ns.groups]
        exact List.mem_map.2 ⟨g, hg, rfl⟩
      · rw [numberBlocks_map_yield, ← ns.groups]
        exact List.map_congr_left (fun g hg => ns.groupYield g hg)
      · intro x hx
        obtain ⟨g, _, f', rfl, hl, _⟩ := mem_numberBlocks f 0 _ x hx
        exact hl

theorem toksL_map_fst (l : List Tree) : (toksL l).map (·.1) = l.flatMap leafNums := by
  simp only [toksL, List.map_map, List.map_flatMap]
  rfl

theorem boydKids_leafNums (ks ks' : List Tree) (h : boydKids ks = .ok ks') :
    (ks'.flatMap leafNums).Perm (ks.flatMap leafNums) := by
  have := (boydKids_toks ks ks' h).map (·.1)
  rwa [toksL_map_fst, toksL_map_fst] at this

theorem boydNode_leafNums (t : Tree) (r : List Tree) (h : boydNode t = .ok r) :
    (r.flatMap leafNums).Perm t.leafNums := by
  have := (boydNode_toks t r h).map (·.1)
  rw [toksL_map_fst] at this
  simpa [leafNums, tok, Function.comp_def] using this

/-- everything needed one level up, about the processed children of a node -/
theorem kids_ready (ks ks' : List Tree) (h : boydKids ks = .ok ks')
    (hne : noEmptyL ks = true) (hks : ks ≠ []) (hn : (ks.flatMap leafNums).Nodup) :
    (ks'.flatMap leafNums).Nodup ∧ ks' ≠ [] := by
  have hp := boydKids_leafNums ks ks' h
  refine ⟨hp.symm.nodup hn, ?_⟩
  rintro rfl
  exact flatMap_leafNums_ne_nil ks hne hks (List.perm_nil.1 hp.symm)

mutual
theorem boydNode_good : (t : Tree) → (r : List Tree) → boydNode t = .ok r →
    noEmpty t = true → t.leafNums.Nodup → ∀ x ∈ r, continuous x = true ∧ noEmpty x = true
  | .leaf n f, r, h, _, _ => by
    simp only [boydNode, Except.ok.injEq] at h
    subst h
    intro x hx
    rw [List.mem_singleton] at hx
    subst hx
    exact ⟨continuous_leaf _ _, by simp [noEmpty]⟩
  | .node f ks, r, h, hne, hn => by
    rw [boydNode_node] at h
    cases hk : boydKids ks with
    | error e => simp [hk] at h
    | ok ks' =>
      simp only [hk] at h
      simp only [noEmpty, Bool.and_eq_true, Bool.not_eq_true', List.isEmpty_eq_false_iff] at hne
      rw [leafNums_node] at hn
      have ih := boydKids_good ks ks' hk hne.2 hn
      obtain ⟨hn', hne'⟩ := kids_ready ks ks' hk hne.2 hne.1 hn
      exact (boydStep_spec f ks' r h ih hn' hne').1
theorem boydKids_good : (ks : List Tree) → (ks' : List Tree) → boydKids ks = .ok ks' →
    noEmptyL ks = true → (ks.flatMap leafNums).Nodup →
    ∀ x ∈ ks', continuous x = true ∧ noEmpty x = true
  | [], ks', h, _, _ => by
    simp only [boydKids, Except.ok.injEq] at h
    subst h
    simp
  | t :: ts, ks', h, hne, hn => by
    simp only [boydKids] at h
    cases ht : boydNode t with
    | error e => simp [ht] at h
    | ok a =>
      cases hts : boydKids ts with
      | error e => simp [ht, hts] at h
      | ok b =>
        simp only [ht, hts, Except.ok.injEq] at h
        subst h
        simp only [noEmptyL, Bool.and_eq_true] at hne
        rw [List.flatMap_cons, List.nodup_append] at hn
        have h1 := boydNode_good t a ht hne.1 hn.1
        have h2 := boydKids_good ts b hts hne.2 hn.2.1
        intro x hx
        rcases List.mem_append.1 hx with hx | hx
        · exact h1 x hx
        · exact h2 x hx
end

/-! ### raising keeps every yield -/

theorem yield_raiseKids (f g : Fields) (ks : List Tree) :
    yield (node f (raiseKids ks)) = yield (node g ks) := by
  simp only [yield, terminals, leaves, raiseKids_leaves]

mutual
theorem raiseNode_cont : (t : Tree) → continuous t = true → ∀ x ∈ raiseNode t, continuous x = true
  | .leaf n f, _, x, hx => by
    simp only [raiseNode, List.mem_singleton] at hx
    subst hx; exact continuous_leaf n f
  | .node f ks, h, x, hx => by
    have hc := (continuous_node f ks).1 h
    simp only [raiseNode] at hx
    split at hx
    · exact raiseKids_cont ks hc.2 x hx
    · rw [List.mem_singleton] at hx
      subst hx
      refine (continuous_node _ _).2 ⟨?_, raiseKids_cont ks hc.2⟩
      rw [yield_raiseKids f f]; exact hc.1
theorem raiseKids_cont : (ks : List Tree) → (∀ k ∈ ks, continuous k = true) →
    ∀ x ∈ raiseKids ks, continuous x = true
  | [], _, x, hx => by simp [raiseKids] at hx
  | t :: ts, h, x, hx => by
    simp only [raiseKids, List.mem_append] at hx
    rcases hx with hx | hx
    · exact raiseNode_cont t (h t List.mem_cons_self) x hx
    · exact raiseKids_cont ts (fun k hk => h k (List.mem_cons_of_mem _ hk)) x hx
end

theorem raising_cont (t : Tree) (h : continuous t = true) : continuous (raising t) = true := by
  cases t with
  | leaf n f => exact h
  | node f ks =>
    have hc := (continuous_node f ks).1 h
    simp only [raising]
    refine (continuous_node _ _).2 ⟨?_, raiseKids_cont ks hc.2⟩
    rw [yield_raiseKids f f]; exact hc.1

/-! ### a continuous tree is only re-flagged -/

theorem stripTL_eq : ∀ ks : List Tree, stripTL ks = ks.map stripT
  | [] => rfl
  | t :: ts => by simp [stripTL, stripTL_eq ts]

mutual
theorem leaves_stripT : (t : Tree) → (stripT t).leaves.map num = t.leaves.map num
  | .leaf n f => by simp [stripT, leaves, num]
  | .node f ks => by simp only [stripT, leaves]; exact leavesL_stripT ks
theorem leavesL_stripT : (ks : List Tree) → (leavesL (stripTL ks)).map num = (leavesL ks).map num
  | [] => by simp [stripTL, leavesL]
  | t :: ts => by
    simp only [stripTL, leavesL, List.map_append, leaves_stripT t, leavesL_stripT ts]
end

theorem flatMap_leafNums_eq_of_strip {ks ks' : List Tree} (h : stripTL ks' = stripTL ks) :
    ks'.flatMap leafNums = ks.flatMap leafNums := by
  have h1 := leavesL_stripT ks'
  rw [h, leavesL_stripT ks, leavesL_eq, leavesL_eq, List.map_flatMap, List.map_flatMap] at h1
  exact h1.symm

theorem boydStep_single (f : Fields) (ks' r : List Tree) (h : boydStep f ks' = .ok r)
    (hgood : ∀ x ∈ ks', continuous x = true ∧ noEmpty x = true)
    (hn : (ks'.flatMap leafNums).Nodup)
    (hgc : gapCount (sortBy id (ks'.flatMap leafNums)) = 0) :
    r = [node { f with split := some false, headBlock := some true } ks'] := by
  have hI : ∀ x ∈ ks', Ival x := fun x hx =>
    ival_of x (continuous_root x (hgood x hx).1) (leafNums_ne_nil x (hgood x hx).2)
      (nodup_of_mem_flatMap hn hx)
  have ns := nodeStep ks' hI hn
  have hlen : (groupAdjacent (sortBy leftmost ks')).length ≤ 1 := by
    have := congrArg List.length ns.groups
    rw [List.length_map] at this
    rw [gapCount_eq_blocks] at hgc
    omega
  unfold boydStep at h
  rw [if_pos hlen] at h
  exact (Except.ok.inj h).symm

mutual
theorem boydNode_fix : (t : Tree) → (r : List Tree) → boydNode t = .ok r →
    continuous t = true → noEmpty t = true → t.leafNums.Nodup →
    ∃ t', r = [t'] ∧ stripT t' = stripT t ∧ raiseNode t' = [t'] ∧ raising t' = t'
  | .leaf n f, r, h, _, _, _ => by
    simp only [boydNode, Except.ok.injEq] at h
    subst h
    exact ⟨_, rfl, by simp [stripT], by simp [raiseNode], by simp [raising]⟩
  | .node f ks, r, h, hc, hne, hn => by
    rw [boydNode_node] at h
    cases hk : boydKids ks with
    | error e => simp [hk] at h
    | ok ks' =>
      simp only [hk] at h
      simp only [noEmpty, Bool.and_eq_true, Bool.not_eq_true', List.isEmpty_eq_false_iff] at hne
      have hc' := (continuous_node f ks).1 hc
      rw [yield_node] at hc'
      rw [leafNums_node] at hn
      have hgood := boydKids_good ks ks' hk hne.2 hn
      obtain ⟨hn', hne'⟩ := kids_ready ks ks' hk hne.2 hne.1 hn
      obtain ⟨hs, hr⟩ := boydKids_fix ks ks' hk hc'.2 hne.2 hn
      have hgc : gapCount (sortBy id (ks'.flatMap leafNums)) = 0 := by
        rw [flatMap_leafNums_eq_of_strip hs]; exact hc'.1
      have := boydStep_single f ks' r h hgood hn' hgc
      subst this
      refine ⟨_, rfl, ?_, ?_, ?_⟩
      · simp only [stripT, hs]
      · simp [raiseNode, removable, hr]
      · simp only [raising, hr]
theorem boydKids_fix : (ks : List Tree) → (ks' : List Tree) → boydKids ks = .ok ks' →
    (∀ k ∈ ks, continuous k = true) → noEmptyL ks = true → (ks.flatMap leafNums).Nodup →
    stripTL ks' = stripTL ks ∧ raiseKids ks' = ks'
  | [], ks', h, _, _, _ => by
    simp only [boydKids, Except.ok.injEq] at h
    subst h
    simp [stripTL, raiseKids]
  | t :: ts, ks', h, hc, hne, hn => by
    simp only [boydKids] at h
    cases ht : boydNode t with
    | error e => simp [ht] at h
    | ok a =>
      cases hts : boydKids ts with
      | error e => simp [ht, hts] at h
      | ok b =>
        simp only [ht, hts, Except.ok.injEq] at h
        subst h
        simp only [noEmptyL, Bool.and_eq_true] at hne
        rw [List.flatMap_cons, List.nodup_append] at hn
        obtain ⟨t', rfl, h1, h2, _⟩ := boydNode_fix t a ht (hc t List.mem_cons_self) hne.1 hn.1
        obtain ⟨h3, h4⟩ := boydKids_fix ts b hts (fun k hk => hc k (List.mem_cons_of_mem _ hk))
          hne.2 hn.2.1
        refine ⟨?_, ?_⟩
        · simp only [List.singleton_append, stripTL, h1, h3]
        · simp only [List.singleton_append, raiseKids, h2, h4]
end

/-! ### normal form `sortKids ∘ stripT` -/

/-- normal form modulo storage order and everything but labels, words, numbers -/
def N (t : Tree) : Tree := sortKids (stripT t)

theorem sortKidsL_eq : ∀ ks : List Tree, sortKidsL ks = ks.map sortKids
  | [] => rfl
  | t :: ts => by simp [sortKidsL, sortKidsL_eq ts]

theorem N_leaf (n : Nat) (f : Fields) : N (leaf n f) = leaf n { label := f.label, word := f.word } := by
  simp [N, stripT, sortKids]

theorem N_node (f : Fields) (ks : List Tree) :
    N (node f ks) = node { label := f.label } (sortBy leftmost (ks.map N)) := by
  simp only [N, stripT, sortKids, sortKidsL_eq, stripTL_eq, List.map_map]
  rfl

mutual
theorem leaves_sortKids : (t : Tree) → ((sortKids t).leaves.map num).Perm (t.leaves.map num)
  | .leaf n f => by simp [sortKids]
  | .node f ks => by
    simp only [sortKids, leaves]
    rw [leavesL_eq]
    refine (((sortBy_perm leftmost (sortKidsL ks)).flatMap_right leaves).map num).trans ?_
    rw [← leavesL_eq]
    exact leavesL_sortKids ks
theorem leavesL_sortKids : (ks : List Tree) →
    ((leavesL (sortKidsL ks)).map num).Perm ((leavesL ks).map num)
  | [] => by simp [sortKidsL]
  | t :: ts => by
    simp only [sortKidsL, leavesL, List.map_append]
    exact (leaves_sortKids t).append (leavesL_sortKids ts)
end

theorem leafNums_N (t : Tree) : (N t).leafNums.Perm t.leafNums := by
  have := leaves_sortKids (stripT t)
  rw [leaves_stripT] at this
  exact this

theorem yield_N (t : Tree) : yield (N t) = yield t := by
  rw [yield_eq, yield_eq]; exact sortBy_id_congr (leafNums_N t)

theorem leftmost_N (t : Tree) : leftmost (N t) = leftmost t := by
  simp only [leftmost, yield_N]

theorem yield_of_N_eq {a b : Tree} (h : N a = N b) : yield a = yield b := by
  rw [← yield_N a, h, yield_N]

/-! ### generic partition lemma -/

theorem pairwise_mem_cases {α} {R : α → α → Prop} (hsym : ∀ a b, R a b → R b a) :
    ∀ {l : List α}, l.Pairwise R → ∀ {a b : α}, a ∈ l → b ∈ l → a = b ∨ R a b
  | [], _, _, _, ha, _ => by simp at ha
  | x :: l, hp, a, b, ha, hb => by
    rw [List.pairwise_cons] at hp
    rcases List.mem_cons.1 ha with rfl | ha' <;> rcases List.mem_cons.1 hb with rfl | hb'
    · exact Or.inl rfl
    · exact Or.inr (hp.1 b hb')
    · exact Or.inr (hsym _ _ (hp.1 a ha'))
    · exact pairwise_mem_cases hsym hp.2 ha' hb'

/-- if every member of a group has its key in the group's set and the sets of different groups
    are disjoint, a group is recovered by filtering the concatenation -/
theorem filter_flatten_group {α} (key : α → Nat) (S : List α → List Nat) :
    ∀ (G : List (List α)), (∀ g ∈ G, ∀ z ∈ g, key z ∈ S g) →
      G.Pairwise (fun a b => ∀ n ∈ S a, n ∉ S b) →
      ∀ g ∈ G, G.flatten.filter (fun z => decide (key z ∈ S g)) = g
  | [], _, _, g, hg => by simp at hg
  | g0 :: G, hk, hp, g, hg => by
    rw [List.pairwise_cons] at hp
    rw [List.flatten_cons, List.filter_append]
    rcases List.mem_cons.1 hg with rfl | hg'
    · have h1 : g.filter (fun z => decide (key z ∈ S g)) = g :=
        List.filter_eq_self.2 (fun z hz => by simpa using hk g List.mem_cons_self z hz)
      have h2 : G.flatten.filter (fun z => decide (key z ∈ S g)) = [] := by
        rw [List.filter_eq_nil_iff]
        intro z hz
        obtain ⟨g', hg', hz'⟩ := List.mem_flatten.1 hz
        have := hk g' (List.mem_cons_of_mem _ hg') z hz'
        simp only [decide_eq_true_eq]
        intro hc
        exact hp.1 g' hg' _ hc this
      rw [h1, h2, List.append_nil]
    · have h1 : g0.filter (fun z => decide (key z ∈ S g)) = [] := by
        rw [List.filter_eq_nil_iff]
        intro z hz
        simp only [decide_eq_true_eq]
        exact hp.1 g hg' _ (hk g0 List.mem_cons_self z hz)
      rw [h1, List.nil_append]
      exact filter_flatten_group key S G (fun g' hg'' => hk g' (List.mem_cons_of_mem _ hg'')) hp.2 g hg'

/-- two numbers of the same group lie in the same groups -/
theorem mem_group_iff {α} (S : List α → List Nat) {G : List (List α)}
    (hp : G.Pairwise (fun a b => ∀ n ∈ S a, n ∉ S b)) {g g' : List α} (hg : g ∈ G) (hg' : g' ∈ G)
    {n1 n2 : Nat} (h1 : n1 ∈ S g') (h2 : n2 ∈ S g') : n1 ∈ S g ↔ n2 ∈ S g := by
  have hsym : ∀ a b : List α, (∀ n ∈ S a, n ∉ S b) → (∀ n ∈ S b, n ∉ S a) :=
    fun a b h n hn hn' => h n hn' hn
  rcases pairwise_mem_cases hsym hp hg' hg with rfl | hd
  · exact ⟨fun _ => h2, fun _ => h1⟩
  · exact ⟨fun h => absurd h (hd _ h1), fun h => absurd h (hd _ h2)⟩

theorem zip_of_map_eq {α β γ} (f : α → γ) (f' : β → γ) : ∀ (l : List α) (l' : List β),
    l.map f = l'.map f' → l.length = l'.length ∧ ∀ p ∈ l.zip l', f p.1 = f' p.2
  | [], [], _ => by simp
  | [], _ :: _, h => by simp at h
  | _ :: _, [], h => by simp at h
  | a :: l, b :: l', h => by
    simp only [List.map_cons, List.cons.injEq] at h
    obtain ⟨hl, hz⟩ := zip_of_map_eq f f' l l' h.2
    refine ⟨by simp [hl], ?_⟩
    intro p hp
    simp only [List.zip_cons_cons, List.mem_cons] at hp
    rcases hp with rfl | hp
    · exact h.1
    · exact hz p hp

/-! ### groupRuns is groupAdjacent on the trees -/

theorem groupRuns_cons_cons {a b : Bool × Tree} {rest blk : List (Bool × Tree)}
    {blks : List (List (Bool × Tree))} (h : groupRuns (b :: rest) = blk :: blks) :
    groupRuns (a :: b :: rest) =
      if leftmost b.2 > rightmost a.2 + 1 then [a] :: blk :: blks else (a :: blk) :: blks := by
  simp only [groupRuns, h]

theorem groupRuns_cons : ∀ (m : List (Bool × Tree)) (c : Bool × Tree),
    ∃ blk blks, groupRuns (c :: m) = (c :: blk) :: blks
  | [], c => ⟨[], [], rfl⟩
  | d :: m, c => by
    obtain ⟨blk, blks, h⟩ := groupRuns_cons m d
    rw [groupRuns_cons_cons h]
    by_cases hc : leftmost d.2 > rightmost c.2 + 1
    · rw [if_pos hc]; exact ⟨[], _, rfl⟩
    · rw [if_neg hc]; exact ⟨_, _, rfl⟩

theorem groupRuns_map : ∀ l : List (Bool × Tree),
    (groupRuns l).map (·.map (·.2)) = groupAdjacent (l.map (·.2))
  | [] => rfl
  | [a] => rfl
  | a :: b :: rest => by
    obtain ⟨blk, blks, h⟩ := groupRuns_cons rest b
    have ih := groupRuns_map (b :: rest)
    rw [h] at ih
    simp only [List.map_cons] at ih ⊢
    rw [groupRuns_cons_cons h, groupAdjacent_cons_cons ih.symm]
    split <;> simp

theorem groupRuns_flatten : ∀ l : List (Bool × Tree), (groupRuns l).flatten = l
  | [] => rfl
  | [a] => rfl
  | a :: b :: rest => by
    obtain ⟨blk, blks, h⟩ := groupRuns_cons rest b
    have ih := groupRuns_flatten (b :: rest)
    rw [h] at ih
    rw [groupRuns_cons_cons h]
    split <;> simp_all

/-! ### more on raising -/

theorem raiseKids_eq : ∀ ks : List Tree, raiseKids ks = ks.flatMap raiseNode
  | [] => rfl
  | t :: ts => by simp [raiseKids, raiseKids_eq ts]

theorem removable_of_carriesHead (b : Tree) (h : carriesHead b = true) : removable b = false := by
  cases b with
  | leaf n f => rfl
  | node f ks =>
    simp only [carriesHead, fields, Bool.and_eq_true, Bool.or_eq_true, bne_iff_ne, ne_eq,
      beq_iff_eq] at h
    simp only [removable, Bool.and_eq_false_iff, beq_eq_false_iff_ne, ne_eq]
    rcases h.2 with h2 | h2
    · exact Or.inl h2
    · right; rw [h2]; simp

theorem raiseNode_of_not_removable (f : Fields) (ks : List Tree) (h : removable (node f ks) = false) :
    raiseNode (node f ks) = [node f (raiseKids ks)] := by
  simp [raiseNode, h]

theorem raiseNode_ne_nil_of_carriesHead (b : Tree) (h : carriesHead b = true) : raiseNode b ≠ [] := by
  cases b with
  | leaf n f => simp [raiseNode]
  | node f ks => rw [raiseNode_of_not_removable f ks (removable_of_carriesHead _ h)]; simp

mutual
theorem raiseNode_noEmpty : (t : Tree) → noEmpty t = true → ∀ y ∈ raiseNode t, noEmpty y = true
  | .leaf n f, _, y, hy => by
    simp only [raiseNode, List.mem_singleton] at hy
    subst hy; rfl
  | .node f ks, h, y, hy => by
    have hk := (noEmpty_node f ks).1 h
    simp only [raiseNode] at hy
    split at hy
    · exact raiseKids_noEmpty ks hk.2 y hy
    · rw [List.mem_singleton] at hy
      subst hy
      refine (noEmpty_node _ _).2 ⟨?_, raiseKids_noEmpty ks hk.2⟩
      intro h0
      have h1 := raiseKids_leaves ks
      rw [h0] at h1
      exact leavesL_ne_nil ks ((noEmptyL_iff ks).2 hk.2) hk.1 h1.symm
theorem raiseKids_noEmpty : (ks : List Tree) → (∀ k ∈ ks, noEmpty k = true) →
    ∀ y ∈ raiseKids ks, noEmpty y = true
  | [], _, y, hy => by simp [raiseKids] at hy
  | t :: ts, h, y, hy => by
    simp only [raiseKids, List.mem_append] at hy
    rcases hy with hy | hy
    · exact raiseNode_noEmpty t (h t List.mem_cons_self) y hy
    · exact raiseKids_noEmpty ts (fun k hk => h k (List.mem_cons_of_mem _ hk)) y hy
end

theorem raiseKids_leafNums (ks : List Tree) :
    (raiseKids ks).flatMap leafNums = ks.flatMap leafNums := by
  have := congrArg (List.map num) (raiseKids_leaves ks)
  rw [leavesL_eq, leavesL_eq, List.map_flatMap, List.map_flatMap] at this
  exact this

theorem raiseNode_leafNums (t : Tree) : (raiseNode t).flatMap leafNums = t.leafNums := by
  have := congrArg (List.map num) (raiseNode_leaves t)
  rw [leavesL_eq, List.map_flatMap] at this
  exact this

theorem raiseNode_leafNums_sub {t y : Tree} (hy : y ∈ raiseNode t) {n : Nat} (hn : n ∈ y.leafNums) :
    n ∈ t.leafNums := by
  rw [← raiseNode_leafNums t]
  exact List.mem_flatMap.2 ⟨y, hy, hn⟩

/-- the leftmost token belongs to the tree -/
theorem leftmost_mem_yield (t : Tree) (h : t.leafNums ≠ []) : leftmost t ∈ yield t := by
  have hne : yield t ≠ [] := by
    intro h0
    have := yield_perm t
    rw [h0] at this
    exact h (List.perm_nil.1 this.symm)
  cases hy : yield t with
  | nil => exact absurd hy hne
  | cons a l => simp [leftmost, hy]

theorem map_leftmost_nodup (ks : List Tree) (hne : ∀ k ∈ ks, k.leafNums ≠ [])
    (hn : (ks.flatMap leafNums).Nodup) : (ks.map leftmost).Nodup := by
  rw [List.Nodup, List.pairwise_flatMap] at hn
  rw [List.Nodup, List.pairwise_map]
  refine hn.2.imp_of_mem ?_
  intro a b ha hb hd
  have h1 := (mem_yield a _).1 (leftmost_mem_yield a (hne a ha))
  have h2 := (mem_yield b _).1 (leftmost_mem_yield b (hne b hb))
  intro heq
  exact hd _ h1 _ h2 heq

/-! ### flagged, normalised items -/

theorem flatMap_congr' {α β} {f g : α → List β} : ∀ {l : List α}, (∀ a ∈ l, f a = g a) →
    l.flatMap f = l.flatMap g
  | [], _ => rfl
  | a :: l, h => by
    rw [List.flatMap_cons, List.flatMap_cons, h a List.mem_cons_self,
      flatMap_congr' (fun b hb => h b (List.mem_cons_of_mem _ hb))]

def nrm (p : Bool × Tree) : Bool × Tree := (p.1, N p.2)

/-- what raising leaves of a list of split nodes: the dissolved items in normal form, flagged by
    whether they come from the node that carries the head -/
def FB (l : List Tree) : List (Bool × Tree) :=
  l.flatMap fun b => (raiseNode b).map fun y => (carriesHead b, N y)

theorem FB_append (a b : List Tree) : FB (a ++ b) = FB a ++ FB b := by simp [FB]

theorem FB_perm {a b : List Tree} (h : a.Perm b) : (FB a).Perm (FB b) := h.flatMap_right _

theorem FB_map_snd (l : List Tree) : (FB l).map (·.2) = (raiseKids l).map N := by
  simp only [FB, raiseKids_eq, List.map_flatMap, List.map_map, Function.comp_def]

theorem FB_any (l : List Tree) : (FB l).any (·.1) = l.any carriesHead := by
  induction l with
  | nil => rfl
  | cons b l ih =>
    have : FB (b :: l) = (raiseNode b).map (fun y => (carriesHead b, N y)) ++ FB l := by simp [FB]
    rw [this, List.any_append, ih, List.any_cons]
    congr 1
    cases hb : carriesHead b with
    | false => simp
    | true =>
      have := raiseNode_ne_nil_of_carriesHead b hb
      cases hr : raiseNode b with
      | nil => exact absurd hr this
      | cons y ys => simp

theorem FB_of_no_head (l : List Tree) (h : l.any carriesHead = false) :
    FB l = (raiseKids l).map (fun y => (false, N y)) := by
  rw [raiseKids_eq, List.map_flatMap]
  simp only [FB]
  apply flatMap_congr'
  intro b hb
  have : carriesHead b = false := by
    cases hc : carriesHead b with
    | false => rfl
    | true =>
      have : l.any carriesHead = true := List.any_eq_true.2 ⟨b, hb, hc⟩
      rw [h] at this; cases this
  rw [this]

theorem FB_filter (l : List Tree) (p : Nat → Bool)
    (h : ∀ b ∈ l, ∀ y ∈ raiseNode b, p (leftmost y) = p (leftmost b)) :
    FB (l.filter (fun b => p (leftmost b))) = (FB l).filter (fun q => p (leftmost q.2)) := by
  induction l with
  | nil => rfl
  | cons b l ih =>
    have ih' := ih (fun b' hb' => h b' (List.mem_cons_of_mem _ hb'))
    have hcons : FB (b :: l) = (raiseNode b).map (fun y => (carriesHead b, N y)) ++ FB l := by
      simp [FB]
    rw [hcons, List.filter_append, ← ih', List.filter_cons]
    have hb := h b List.mem_cons_self
    cases hp : p (leftmost b) with
    | true =>
      have : ((raiseNode b).map (fun y => (carriesHead b, N y))).filter (fun q => p (leftmost q.2)) =
          (raiseNode b).map (fun y => (carriesHead b, N y)) := by
        rw [List.filter_eq_self]
        intro q hq
        obtain ⟨y, hy, rfl⟩ := List.mem_map.1 hq
        simp only [leftmost_N, hb y hy, hp]
      rw [this]
      simp [FB]
    | false =>
      have : ((raiseNode b).map (fun y => (carriesHead b, N y))).filter (fun q => p (leftmost q.2)) = [] := by
        rw [List.filter_eq_nil_iff]
        intro q hq
        obtain ⟨y, hy, rfl⟩ := List.mem_map.1 hq
        simp only [leftmost_N, hb y hy, hp]
        simp
      rw [this]
      simp

/-! ### the numbered blocks after raising, and the keep/others split of the reference -/

theorem N_node_label {f f' : Fields} (ks : List Tree) (h : f.label = f'.label) :
    N (node f ks) = N (node f' ks) := by
  rw [N_node, N_node, h]

/-- block `g` of a node with fields `f`, numbered and raised -/
def B1 (f : Fields) (g : List Tree) : List (Bool × Tree) :=
  if g.any carriesHead then [(f.head == some true, N (node f (raiseKids g)))]
  else (raiseKids g).map (fun y => (false, N y))

theorem FB_numberBlocks (f : Fields) : ∀ (i : Nat) (G : List (List Tree)),
    FB (numberBlocks f i G) = G.flatMap (B1 f)
  | _, [] => rfl
  | i, g :: G => by
    have ih := FB_numberBlocks f (i + 1) G
    rw [numberBlocks, List.flatMap_cons, ← ih]
    have : ∀ (b : Tree) (l : List Tree), FB (b :: l) = FB [b] ++ FB l := fun b l =>
      FB_append [b] l
    rw [this]
    congr 1
    cases hany : g.any carriesHead with
    | true =>
      simp only [FB, List.flatMap_cons, List.flatMap_nil, List.append_nil, B1, hany, if_true]
      rw [raiseNode_of_not_removable _ _ (by simp [removable])]
      simp [carriesHead, fields, N_node]
    | false =>
      simp only [FB, List.flatMap_cons, List.flatMap_nil, List.append_nil, B1, hany]
      simp [raiseNode, removable, carriesHead, fields]

theorem perm_any_eq {α} {l l' : List α} (h : l.Perm l') (p : α → Bool) : l.any p = l'.any p := by
  rw [Bool.eq_iff_iff, List.any_eq_true, List.any_eq_true]
  constructor
  · rintro ⟨x, hx, hp⟩; exact ⟨x, h.subset hx, hp⟩
  · rintro ⟨x, hx, hp⟩; exact ⟨x, h.symm.subset hx, hp⟩

/-- a block of the split tree and a run of the reference hold the same items -/
def PairOK (f : Fields) (g : List Tree) (r : List (Bool × Tree)) : Prop :=
  (FB g).Perm (r.map nrm) ∧ N (node f (raiseKids g)) = N (node f (r.map (·.2)))

theorem any_of_pairOK {f : Fields} {g : List Tree} {r : List (Bool × Tree)} (h : PairOK f g r) :
    g.any carriesHead = r.any (·.1) := by
  rw [← FB_any, perm_any_eq h.1, List.any_map]
  rfl

theorem map_unflagged (r : List (Bool × Tree)) (h : r.any (·.1) = false) :
    r.map nrm = r.map (fun p => (false, N p.2)) := by
  apply List.map_congr_left
  intro p hp
  have : p.1 = false := by
    cases h1 : p.1 with
    | false => rfl
    | true =>
      have : r.any (·.1) = true := List.any_eq_true.2 ⟨p, hp, h1⟩
      rw [h] at this; cases this
  simp [nrm, this]

theorem B1_unflagged {f : Fields} {g : List Tree} {r : List (Bool × Tree)} (h : PairOK f g r)
    (hr : r.any (·.1) = false) : (B1 f g).Perm (r.map (fun p => (false, N p.2))) := by
  have hg : g.any carriesHead = false := by rw [any_of_pairOK h, hr]
  have : B1 f g = FB g := by
    rw [FB_of_no_head g hg]; simp [B1, hg]
  rw [this, ← map_unflagged r hr]
  exact h.1

theorem assembly_none (f : Fields) : ∀ (G : List (List Tree)) (runs : List (List (Bool × Tree))),
    G.length = runs.length → (∀ p ∈ G.zip runs, PairOK f p.1 p.2) →
    runs.flatten.any (·.1) = false →
    (G.flatMap (B1 f)).Perm (runs.flatten.map (fun p => (false, N p.2)))
  | [], [], _, _, _ => by simp
  | [], _ :: _, h, _, _ => by simp at h
  | _ :: _, [], h, _, _ => by simp at h
  | g :: G, r :: runs, hl, hp, hf => by
    simp only [List.flatten_cons, List.any_append, Bool.or_eq_false_iff] at hf
    have h1 := B1_unflagged (hp (g, r) (by simp)) hf.1
    have h2 := assembly_none f G runs (by simpa using hl)
      (fun p hp' => hp p (by simp [hp'])) hf.2
    simp only [List.flatMap_cons, List.flatten_cons, List.map_append]
    exact h1.append h2

/-- number of flagged items -/
def cnt (l : List (Bool × Tree)) : Nat := (l.filter (·.1)).length

theorem cnt_append (a b : List (Bool × Tree)) : cnt (a ++ b) = cnt a + cnt b := by simp [cnt]

theorem cnt_eq_zero (l : List (Bool × Tree)) : cnt l = 0 ↔ l.any (·.1) = false := by
  simp only [cnt, List.length_eq_zero_iff, List.filter_eq_nil_iff]
  constructor
  · intro h
    cases ha : l.any (·.1) with
    | false => rfl
    | true =>
      obtain ⟨x, hx, hp⟩ := List.any_eq_true.1 ha
      exact absurd hp (h x hx)
  · intro h x hx hp
    have : l.any (·.1) = true := List.any_eq_true.2 ⟨x, hx, hp⟩
    rw [h] at this; cases this

theorem assembly (f : Fields) : ∀ (G : List (List Tree)) (runs : List (List (Bool × Tree))),
    G.length = runs.length → (∀ p ∈ G.zip runs, PairOK f p.1 p.2) →
    cnt runs.flatten = 1 →
    (G.flatMap (B1 f)).Perm
      ((f.head == some true,
        N (node f (((runs[(runs.findIdx? (fun r => r.any (·.1))).getD 0]?).getD []).map (·.2)))) ::
       ((runs.eraseIdx ((runs.findIdx? (fun r => r.any (·.1))).getD 0)).flatten.map
          (fun p => (false, N p.2))))
  | [], [], _, _, hc => by simp [cnt] at hc
  | [], _ :: _, h, _, _ => by simp at h
  | _ :: _, [], h, _, _ => by simp at h
  | g :: G, r :: runs, hl, hp, hc => by
    have hl' : G.length = runs.length := by simpa using hl
    have hp' : ∀ p ∈ G.zip runs, PairOK f p.1 p.2 := fun p hp'' => hp p (by simp [hp''])
    have hgr : PairOK f g r := hp (g, r) (by simp)
    rw [List.flatten_cons, cnt_append] at hc
    rw [List.findIdx?_cons]
    cases hr : r.any (·.1) with
    | true =>
      have hcr : cnt r ≠ 0 := by rw [Ne, cnt_eq_zero, hr]; simp
      have hc0 : cnt runs.flatten = 0 := by omega
      have h2 := assembly_none f G runs hl' hp' ((cnt_eq_zero _).1 hc0)
      have hg : g.any carriesHead = true := by rw [any_of_pairOK hgr, hr]
      simp only [if_true, Option.getD_some, List.getElem?_cons_zero, List.eraseIdx_cons_zero,
        List.flatMap_cons]
      have : B1 f g = [(f.head == some true, N (node f (r.map (·.2))))] := by
        simp [B1, hg, hgr.2]
      rw [this]
      exact List.Perm.cons _ h2
    | false =>
      have hcr : cnt r = 0 := (cnt_eq_zero r).2 hr
      have hc1 : cnt runs.flatten = 1 := by omega
      have ih := assembly f G runs hl' hp' hc1
      have h1 := B1_unflagged hgr hr
      cases hfi : runs.findIdx? (fun r => r.any (·.1)) with
      | none =>
        exfalso
        rw [List.findIdx?_eq_none_iff] at hfi
        have : runs.flatten.any (·.1) = false := by
          rw [List.any_flatten]
          cases ha : runs.any (fun r => r.any (·.1)) with
          | false => rfl
          | true =>
            obtain ⟨x, hx, hpx⟩ := List.any_eq_true.1 ha
            have := hfi x hx
            simp [hpx] at this
        rw [(cnt_eq_zero _).2 this] at hc1
        cases hc1
      | some k =>
        rw [hfi] at ih
        simp only [Bool.false_eq_true, if_false, Option.map_some, Option.getD_some,
          List.getElem?_cons_succ, List.eraseIdx_cons_succ, List.flatten_cons, List.map_append,
          List.flatMap_cons] at ih ⊢
        exact (h1.append ih).trans List.perm_middle

/-! ### a block of the split tree and the run of the reference over the same tokens -/

theorem N_node_eq_of_perm (f f' : Fields) (X X' : List Tree) (hl : f.label = f'.label)
    (hp : (X.map N).Perm (X'.map N)) (hd : (X.map leftmost).Nodup) :
    N (node f X) = N (node f' X') := by
  rw [N_node, N_node, hl]
  congr 1
  refine sortBy_perm_eq leftmost _ _ hp ?_
  rw [List.map_map]
  have : (leftmost ∘ N) = leftmost := funext leftmost_N
  rw [this]; exact hd

theorem leafNums_perm_of_N_perm {l l' : List Tree} (h : (l.map N).Perm (l'.map N)) :
    (l.flatMap leafNums).Perm (l'.flatMap leafNums) := by
  have e : ∀ m : List Tree, (m.map N).flatMap yield = m.flatMap yield := by
    intro m; rw [List.flatMap_map]; exact flatMap_congr' (fun a _ => yield_N a)
  have := h.flatMap_right yield
  rw [e, e] at this
  exact (flatMap_yield_perm l).trans (this.trans (flatMap_yield_perm l').symm)

theorem pair_perm (ks' : List Tree) (pool : List (Bool × Tree)) (G : List (List Tree))
    (runs : List (List (Bool × Tree))) (L : List Tree) (Lp : List (Bool × Tree))
    (hGf : G.flatten = L) (hRf : runs.flatten = Lp) (hL : L.Perm ks') (hLp : Lp.Perm pool)
    (hP : (FB ks').Perm (pool.map nrm))
    (hkG : ∀ g ∈ G, ∀ z ∈ g, leftmost z ∈ g.flatMap yield)
    (hkR : ∀ r ∈ runs, ∀ q ∈ r, leftmost q.2 ∈ r.flatMap (fun x => yield x.2))
    (hdG : G.Pairwise (fun a b => ∀ n ∈ a.flatMap yield, n ∉ b.flatMap yield))
    (hdR : runs.Pairwise (fun a b => ∀ n ∈ a.flatMap (fun x => yield x.2),
      n ∉ b.flatMap (fun x => yield x.2)))
    (hsub : ∀ b ∈ L, ∀ y ∈ raiseNode b, leftmost y ∈ yield b)
    (hbb : ∀ b ∈ L, leftmost b ∈ yield b)
    (g : List Tree) (hg : g ∈ G) (r : List (Bool × Tree)) (hr : r ∈ runs)
    (hS : g.flatMap yield = r.flatMap (fun x => yield x.2)) : (FB g).Perm (r.map nrm) := by
  have e1 : L.filter (fun z => decide (leftmost z ∈ g.flatMap yield)) = g := by
    rw [← hGf]
    exact filter_flatten_group leftmost (fun g => g.flatMap yield) G hkG hdG g hg
  have e2 : Lp.filter (fun q => decide (leftmost q.2 ∈ g.flatMap yield)) = r := by
    rw [← hRf, hS]
    exact filter_flatten_group (fun q => leftmost q.2) (fun r => r.flatMap (fun x => yield x.2))
      runs hkR hdR r hr
  have e3 := FB_filter L (fun n => decide (n ∈ g.flatMap yield)) (by
    intro b hb y hy
    rw [← hGf] at hb
    obtain ⟨g', hg', hbg'⟩ := List.mem_flatten.1 hb
    have h1 : leftmost y ∈ g'.flatMap yield :=
      List.mem_flatMap.2 ⟨b, hbg', hsub b (hGf ▸ hb) y hy⟩
    have h2 : leftmost b ∈ g'.flatMap yield := List.mem_flatMap.2 ⟨b, hbg', hbb b (hGf ▸ hb)⟩
    exact decide_eq_decide.2 (mem_group_iff (fun g => g.flatMap yield) hdG hg hg' h1 h2))
  rw [e1] at e3
  rw [e3]
  have h1 : (FB L).Perm (Lp.map nrm) :=
    (FB_perm hL).trans (hP.trans (hLp.map nrm).symm)
  refine (h1.filter _).trans ?_
  rw [List.filter_map]
  have : ((fun (q : Bool × Tree) => decide (leftmost q.2 ∈ g.flatMap yield)) ∘ nrm) =
      fun q => decide (leftmost q.2 ∈ g.flatMap yield) := by
    funext q; simp [nrm, leftmost_N]
  rw [this, e2]

theorem cnt_perm {a b : List (Bool × Tree)} (h : a.Perm b) : cnt a = cnt b :=
  (h.filter _).length_eq

theorem nodup_of_strict {l : List Nat} (h : l.Pairwise (· < ·)) : l.Nodup :=
  h.imp (fun h => Nat.ne_of_lt h)

/-- the node-level step against the reference -/
theorem node_spec (f : Fields) (ks' bs : List Tree) (pool : List (Bool × Tree))
    (h : boydStep f ks' = .ok bs)
    (hgood : ∀ x ∈ ks', continuous x = true ∧ noEmpty x = true)
    (hn : (ks'.flatMap leafNums).Nodup) (hne : ks' ≠ [])
    (hP : (FB ks').Perm (pool.map nrm)) (hcnt : cnt pool = 1) :
    (FB bs).Perm
      ((f.head == some true,
        N (node f ((((groupRuns (sortBy (fun x => leftmost x.2) pool))[((groupRuns (sortBy (fun x => leftmost x.2) pool)).findIdx?
          (fun r => r.any (·.1))).getD 0]?).getD []).map (·.2)))) ::
       (((groupRuns (sortBy (fun x => leftmost x.2) pool)).eraseIdx
          (((groupRuns (sortBy (fun x => leftmost x.2) pool)).findIdx? (fun r => r.any (·.1))).getD 0)).flatten.map
          (fun p => (false, N p.2)))) := by
  -- the raised children
  have hRgood : ∀ y ∈ raiseKids ks', continuous y = true ∧ noEmpty y = true := fun y hy =>
    ⟨raiseKids_cont ks' (fun k hk => (hgood k hk).1) y hy,
     raiseKids_noEmpty ks' (fun k hk => (hgood k hk).2) y hy⟩
  have hRn : ((raiseKids ks').flatMap leafNums).Nodup := by rw [raiseKids_leafNums]; exact hn
  have hIK : ∀ x ∈ ks', Ival x := fun x hx =>
    ival_of x (continuous_root x (hgood x hx).1) (leafNums_ne_nil x (hgood x hx).2)
      (nodup_of_mem_flatMap hn hx)
  have hIR : ∀ y ∈ raiseKids ks', Ival y := fun y hy =>
    ival_of y (continuous_root y (hRgood y hy).1) (leafNums_ne_nil y (hRgood y hy).2)
      (nodup_of_mem_flatMap hRn hy)
  -- the pool holds the same items
  have poolN : ((raiseKids ks').map N).Perm (pool.map (fun p => N p.2)) := by
    have := hP.map (·.2)
    rw [FB_map_snd, List.map_map] at this
    exact this
  have hIP : ∀ x ∈ pool.map (·.2), Ival x := by
    intro x hx
    obtain ⟨p, hp, rfl⟩ := List.mem_map.1 hx
    have : N p.2 ∈ (raiseKids ks').map N :=
      poolN.symm.subset (List.mem_map.2 ⟨p, hp, rfl⟩)
    obtain ⟨y, hy, hyN⟩ := List.mem_map.1 this
    obtain ⟨a, n, hya⟩ := hIR y hy
    exact ⟨a, n, (yield_of_N_eq hyN).symm.trans hya⟩
  have poolLeaf : ((pool.map (·.2)).flatMap leafNums).Perm (ks'.flatMap leafNums) := by
    have := leafNums_perm_of_N_perm (l := pool.map (·.2)) (l' := raiseKids ks')
      (by rw [List.map_map]; exact poolN.symm)
    rwa [raiseKids_leafNums] at this
  obtain ⟨kSorted, _, kGroups, _, kGroupSorted⟩ := nodeStep ks' hIK hn
  obtain ⟨pSorted, _, pGroups, _, _⟩ := nodeStep (pool.map (·.2)) hIP (poolLeaf.symm.nodup hn)
  -- names
  generalize hL : sortBy leftmost ks' = L at kSorted kGroups kGroupSorted
  generalize hG : groupAdjacent L = G at kGroups kGroupSorted
  generalize hLp : sortBy (fun (x : Bool × Tree) => leftmost x.2) pool = Lp
  generalize hruns : groupRuns Lp = runs
  have hGf : G.flatten = L := by rw [← hG]; exact groupAdjacent_flatten L
  have hRf : runs.flatten = Lp := by rw [← hruns]; exact groupRuns_flatten Lp
  have hLperm : L.Perm ks' := by rw [← hL]; exact sortBy_perm _ _
  have hLpperm : Lp.Perm pool := by rw [← hLp]; exact sortBy_perm _ _
  have hLpmap : sortBy leftmost (pool.map (·.2)) = Lp.map (·.2) := by
    rw [← hLp]
    exact sortBy_map (fun (x : Bool × Tree) => leftmost x.2) leftmost (·.2) (fun _ => rfl) pool
  have hrunsmap : groupAdjacent (sortBy leftmost (pool.map (·.2))) = runs.map (·.map (·.2)) := by
    rw [hLpmap, ← hruns]; exact (groupRuns_map Lp).symm
  rw [hrunsmap] at pGroups
  -- same blocks
  have hB : G.map (fun g => g.flatMap yield) = runs.map (fun r => r.flatMap (fun x => yield x.2)) := by
    have h1 := kGroups
    have h2 := pGroups
    rw [sortBy_id_congr poolLeaf, ← h1, List.map_map] at h2
    rw [← h2]
    apply List.map_congr_left
    intro r _
    simp only [Function.comp_apply, List.flatMap_map]
  obtain ⟨hlen, hzip⟩ := zip_of_map_eq _ _ G runs hB
  -- keys and disjointness
  have hLI : ∀ b ∈ L, Ival b := fun b hb => hIK b (hLperm.subset hb)
  have hbb : ∀ b ∈ L, leftmost b ∈ yield b := by
    intro b hb
    obtain ⟨a, n, hy⟩ := hLI b hb
    rw [leftmost_of_ival hy, hy]; simp
  have hkG : ∀ g ∈ G, ∀ z ∈ g, leftmost z ∈ g.flatMap yield := by
    intro g hg z hz
    have hzL : z ∈ L := hGf ▸ List.mem_flatten.2 ⟨g, hg, hz⟩
    exact List.mem_flatMap.2 ⟨z, hz, hbb z hzL⟩
  have hkR : ∀ r ∈ runs, ∀ q ∈ r, leftmost q.2 ∈ r.flatMap (fun x => yield x.2) := by
    intro r hr q hq
    have hqL : q ∈ Lp := hRf ▸ List.mem_flatten.2 ⟨r, hr, hq⟩
    have : q.2 ∈ pool.map (·.2) := List.mem_map.2 ⟨q, hLpperm.subset hqL, rfl⟩
    obtain ⟨a, n, hy⟩ := hIP q.2 this
    refine List.mem_flatMap.2 ⟨q, hq, ?_⟩
    rw [leftmost_of_ival hy, hy]; simp
  have hdG : G.Pairwise (fun a b => ∀ n ∈ a.flatMap yield, n ∉ b.flatMap yield) := by
    have := kSorted
    rw [← hGf, List.flatMap_def, List.map_flatten, List.flatten_flatten, List.pairwise_flatten] at this
    have h2 := this.2
    rw [List.map_map, List.pairwise_map] at h2
    refine h2.imp ?_
    intro a b hab n hna hnb
    exact Nat.lt_irrefl _ (hab n hna n hnb)
  have hdR : runs.Pairwise (fun a b => ∀ n ∈ a.flatMap (fun x => yield x.2),
      n ∉ b.flatMap (fun x => yield x.2)) := by
    have := pSorted
    rw [hLpmap, ← hRf, List.flatMap_map, List.flatMap_def, List.map_flatten, List.flatten_flatten,
      List.pairwise_flatten] at this
    have h2 := this.2
    rw [List.map_map, List.pairwise_map] at h2
    refine h2.imp ?_
    intro a b hab n hna hnb
    exact Nat.lt_irrefl _ (hab n hna n hnb)
  have hsub : ∀ b ∈ L, ∀ y ∈ raiseNode b, leftmost y ∈ yield b := by
    intro b hb y hy
    have hbk : b ∈ ks' := hLperm.subset hb
    have hyR : y ∈ raiseKids ks' := by
      rw [raiseKids_eq]; exact List.mem_flatMap.2 ⟨b, hbk, hy⟩
    have h1 := leftmost_mem_yield y (leafNums_ne_nil y (hRgood y hyR).2)
    rw [mem_yield] at h1 ⊢
    exact raiseNode_leafNums_sub hy h1
  -- every block against its run
  have hpair : ∀ p ∈ G.zip runs, PairOK f p.1 p.2 := by
    rintro ⟨g, r⟩ hp
    obtain ⟨hg, hr⟩ := List.of_mem_zip hp
    have hS := hzip (g, r) hp
    have hperm := pair_perm ks' pool G runs L Lp hGf hRf hLperm hLpperm hP hkG hkR hdG hdR hsub hbb
      g hg r hr hS
    refine ⟨hperm, ?_⟩
    have hgsub : ∀ z ∈ g, z ∈ ks' := fun z hz =>
      hLperm.subset (hGf ▸ List.mem_flatten.2 ⟨g, hg, hz⟩)
    apply N_node_eq_of_perm f f _ _ rfl
    · have := hperm.map (·.2)
      rw [FB_map_snd] at this
      simpa [List.map_map, nrm, Function.comp_def] using this
    · apply map_leftmost_nodup
      · intro y hy
        have : y ∈ raiseKids ks' := by
          rw [raiseKids_eq] at hy ⊢
          obtain ⟨b, hb, hyb⟩ := List.mem_flatMap.1 hy
          exact List.mem_flatMap.2 ⟨b, hgsub b hb, hyb⟩
        exact leafNums_ne_nil y (hRgood y this).2
      · rw [raiseKids_leafNums]
        exact (flatMap_yield_perm g).symm.nodup (nodup_of_strict (kGroupSorted g hg))
  have hc : cnt runs.flatten = 1 := by rw [hRf, cnt_perm hLpperm]; exact hcnt
  have hasm := assembly f G runs hlen hpair hc
  refine List.Perm.trans ?_ hasm
  -- what boyd_split built
  unfold boydStep at h
  rw [hL, hG] at h
  split at h
  · rename_i hlen1
    simp only [Except.ok.injEq] at h
    subst h
    have hLne : L ≠ [] := by
      intro h0
      rw [h0] at hLperm
      exact hne (List.perm_nil.1 hLperm.symm)
    have hG1 : G = [L] := by
      cases G with
      | nil => exact absurd hGf.symm hLne
      | cons g G' =>
        cases G' with
        | nil => simpa using hGf
        | cons g' G'' => simp at hlen1
    -- the single block carries the head
    have hany : L.any carriesHead = true := by
      have h1 : (FB ks').any (·.1) = true := by
        rw [perm_any_eq hP, List.any_map]
        have : cnt pool ≠ 0 := by omega
        rw [Ne, cnt_eq_zero] at this
        cases hq : pool.any (·.1) with
        | false => exact absurd hq this
        | true =>
          have : ((fun (x : Bool × Tree) => x.1) ∘ nrm) = (·.1) := rfl
          rw [this, hq]
      rw [FB_any] at h1
      rw [← h1]; exact perm_any_eq hLperm _
    rw [hG1]
    simp only [List.flatMap_cons, List.flatMap_nil, List.append_nil, B1, hany, if_true]
    have hN : N (node { f with split := some false, headBlock := some true } (raiseKids ks')) =
        N (node f (raiseKids L)) := by
      apply N_node_eq_of_perm _ _ _ _ rfl
      · rw [raiseKids_eq, raiseKids_eq]
        exact (hLperm.symm.flatMap_right raiseNode).map N
      · exact map_leftmost_nodup _ (fun y hy => leafNums_ne_nil y (hRgood y hy).2) hRn
    simp only [FB, List.flatMap_cons, List.flatMap_nil, List.append_nil]
    rw [raiseNode_of_not_removable _ _ (by simp [removable])]
    simp only [List.map_cons, List.map_nil, hN]
    simp [carriesHead, fields]
  · split at h
    · simp at h
    · simp only [Except.ok.injEq] at h
      subst h
      rw [FB_numberBlocks]

/-! ### boyd_split + raising against the reference -/

theorem cnt_contSpecL : ∀ ks : List Tree,
    cnt (contSpecL ks) = (ks.filter (fun k => k.fields.head == some true)).length
  | [] => rfl
  | t :: ts => by
    have ih := cnt_contSpecL ts
    have h0 : ∀ l : List Tree, cnt (l.map fun u => (false, u)) = 0 := by
      intro l; simp [cnt]
    simp only [contSpecL]
    rw [show ∀ (x : Bool × Tree) (a b : List (Bool × Tree)), x :: a ++ b = [x] ++ a ++ b from
      fun _ _ _ => rfl, cnt_append, cnt_append, h0, ih, List.filter_cons]
    cases hh : (t.fields.head == some true) <;> simp [cnt] <;> omega

theorem numberBlocks_length (f : Fields) : ∀ (i : Nat) (G : List (List Tree)),
    (numberBlocks f i G).length = G.length
  | _, [] => rfl
  | i, g :: G => by simp [numberBlocks, numberBlocks_length f (i + 1) G]

/-- the hypothesis of C05: exactly one head child in every constituent -/
def OneHead (l : List Tree) : Prop :=
  ∀ s ∈ l, ∀ f ks, s = node f ks → (ks.filter (fun k => k.fields.head == some true)).length = 1

mutual
theorem boydNode_spec : (t : Tree) → (bs : List Tree) → boydNode t = .ok bs →
    noEmpty t = true → t.leafNums.Nodup → OneHead (subtrees t) →
    (FB bs).Perm ((t.fields.head == some true, N (contSpec t).1) ::
      (contSpec t).2.map (fun u => (false, N u)))
  | .leaf n f, bs, h, _, _, _ => by
    simp only [boydNode, Except.ok.injEq] at h
    subst h
    simp [FB, raiseNode, carriesHead, fields, contSpec, N_leaf]
  | .node f ks, bs, h, hne, hn, hh => by
    rw [boydNode_node] at h
    cases hk : boydKids ks with
    | error e => simp [hk] at h
    | ok ks' =>
      simp only [hk] at h
      simp only [noEmpty, Bool.and_eq_true, Bool.not_eq_true', List.isEmpty_eq_false_iff] at hne
      rw [leafNums_node] at hn
      have hgood := boydKids_good ks ks' hk hne.2 hn
      obtain ⟨hn', hne'⟩ := kids_ready ks ks' hk hne.2 hne.1 hn
      have hP := boydKids_spec ks ks' hk hne.2 hn
        (fun s hs => hh s (by simp [subtrees, hs]))
      have hcnt : cnt (contSpecL ks) = 1 := by
        rw [cnt_contSpecL]; exact hh (node f ks) (by simp [subtrees]) f ks rfl
      have := node_spec f ks' bs (contSpecL ks) h hgood hn' hne' hP hcnt
      simp only [contSpec, fields, List.map_map]
      exact this
theorem boydKids_spec : (ks : List Tree) → (ks' : List Tree) → boydKids ks = .ok ks' →
    noEmptyL ks = true → (ks.flatMap leafNums).Nodup → OneHead (subtreesL ks) →
    (FB ks').Perm ((contSpecL ks).map nrm)
  | [], ks', h, _, _, _ => by
    simp only [boydKids, Except.ok.injEq] at h
    subst h
    simp [FB, contSpecL]
  | t :: ts, ks', h, hne, hn, hh => by
    simp only [boydKids] at h
    cases ht : boydNode t with
    | error e => simp [ht] at h
    | ok a =>
      cases hts : boydKids ts with
      | error e => simp [ht, hts] at h
      | ok b =>
        simp only [ht, hts, Except.ok.injEq] at h
        subst h
        simp only [noEmptyL, Bool.and_eq_true] at hne
        rw [List.flatMap_cons, List.nodup_append] at hn
        have h1 := boydNode_spec t a ht hne.1 hn.1
          (fun s hs => hh s (by simp [subtreesL, hs]))
        have h2 := boydKids_spec ts b hts hne.2 hn.2.1
          (fun s hs => hh s (by simp [subtreesL, hs]))
        rw [FB_append]
        simp only [contSpecL, List.map_cons, List.map_append, List.map_map, List.cons_append]
        exact h1.append h2
end

/-- at the root: the split root is one node and raising it gives the reference tree, in normal form -/
theorem root_spec (f : Fields) (ks : List Tree) (t' : Tree) (h : boydNode (node f ks) = .ok [t'])
    (hne : noEmpty (node f ks) = true) (hn : (node f ks).leafNums.Nodup)
    (hh : OneHead (subtrees (node f ks))) :
    N (raising t') = N (contSpecRoot (node f ks)) := by
  rw [boydNode_node] at h
  cases hk : boydKids ks with
  | error e => simp [hk] at h
  | ok ks' =>
    simp only [hk] at h
    simp only [noEmpty, Bool.and_eq_true, Bool.not_eq_true', List.isEmpty_eq_false_iff] at hne
    rw [leafNums_node] at hn
    have hgood := boydKids_good ks ks' hk hne.2 hn
    obtain ⟨hn', hne'⟩ := kids_ready ks ks' hk hne.2 hne.1 hn
    have hP := boydKids_spec ks ks' hk hne.2 hn (fun s hs => hh s (by simp [subtrees, hs]))
    unfold boydStep at h
    split at h
    · simp only [Except.ok.injEq, List.cons.injEq, and_true] at h
      subst h
      simp only [raising, contSpecRoot]
      apply N_node_eq_of_perm _ _ _ _ rfl
      · have := hP.map (·.2)
        rw [FB_map_snd] at this
        simpa [List.map_map, nrm, Function.comp_def] using this
      · apply map_leftmost_nodup
        · intro y hy
          exact leafNums_ne_nil y (raiseKids_noEmpty ks' (fun k hk' => (hgood k hk').2) y hy)
        · rw [raiseKids_leafNums]; exact hn'
    · rename_i hlen
      split at h
      · simp at h
      · simp only [Except.ok.injEq] at h
        have := congrArg List.length h
        rw [numberBlocks_length] at this
        simp only [List.length_cons, List.length_nil] at this
        omega

end TT.Lemmas.Boyd
