/-
  Helper lemmas for C05 (boyd_split / raising).  Core only (no Mathlib).
-/
import TT.Spec.Transform
import TT.Lemmas.Sort
import TT.Lemmas.Nav
namespace TT.Lemmas.Boyd
open TT TT.Tree TT.Spec TT.Lemmas.Nav

/-! ### list-of-trees functions as `flatMap` -/

theorem leavesL_eq : ∀ ks : List Tree, leavesL ks = ks.flatMap leaves
  | [] => by simp [leavesL]
  | t :: ts => by simp [leavesL, leavesL_eq ts]

theorem leavesL_append (a b : List Tree) : leavesL (a ++ b) = leavesL a ++ leavesL b := by
  simp [leavesL_eq]

theorem leaves_node (f : Fields) (ks : List Tree) : (node f ks).leaves = ks.flatMap leaves := by
  simp [leaves, leavesL_eq]

theorem leafNums_node (f : Fields) (ks : List Tree) : (node f ks).leafNums = ks.flatMap leafNums := by
  simp only [leafNums, leaves_node, List.map_flatMap]; rfl

theorem consLabelsL_eq : ∀ ks : List Tree, consLabelsL ks = ks.flatMap consLabels
  | [] => by simp [consLabelsL]
  | t :: ts => by simp [consLabelsL, consLabelsL_eq ts]

theorem consLabelsL_append (a b : List Tree) :
    consLabelsL (a ++ b) = consLabelsL a ++ consLabelsL b := by
  simp [consLabelsL_eq]

theorem subtreesL_append (a b : List Tree) : subtreesL (a ++ b) = subtreesL a ++ subtreesL b := by
  simp [subtreesL_eq]

/-! ### raising -/

mutual
theorem raiseNode_leaves : (t : Tree) → leavesL (raiseNode t) = leaves t
  | .leaf n f => by simp [raiseNode, leavesL, leaves]
  | .node f ks => by
    simp only [raiseNode]
    split
    · simp only [leaves]; exact raiseKids_leaves ks
    · simp only [leavesL, leaves, List.append_nil]; exact raiseKids_leaves ks
theorem raiseKids_leaves : (ks : List Tree) → leavesL (raiseKids ks) = leavesL ks
  | [] => by simp [raiseKids]
  | t :: ts => by
    simp only [raiseKids, leavesL_append, leavesL, raiseNode_leaves t, raiseKids_leaves ts]
end

/-- the surviving constituents -/
def keptLabels (l : List Tree) : List Str :=
  (l.filter (fun s => !s.isLeaf && !removable s)).map (·.fields.label)

theorem keptLabels_append (a b : List Tree) : keptLabels (a ++ b) = keptLabels a ++ keptLabels b := by
  simp [keptLabels]

mutual
theorem raiseNode_consLabels : (t : Tree) → consLabelsL (raiseNode t) = keptLabels (subtrees t)
  | .leaf n f => by simp [raiseNode, consLabelsL, consLabels, subtrees, keptLabels, isLeaf]
  | .node f ks => by
    simp only [raiseNode]
    split
    · rename_i h
      rw [raiseKids_consLabels ks]
      simp [subtrees, keptLabels, h]
    · rename_i h
      simp only [consLabelsL, consLabels, List.append_nil, raiseKids_consLabels ks, subtrees]
      simp [keptLabels, h, isLeaf, fields]
theorem raiseKids_consLabels : (ks : List Tree) → consLabelsL (raiseKids ks) = keptLabels (subtreesL ks)
  | [] => by simp [raiseKids, consLabelsL, subtreesL, keptLabels]
  | t :: ts => by
    simp only [raiseKids, consLabelsL_append, subtreesL, keptLabels_append,
      raiseNode_consLabels t, raiseKids_consLabels ts]
end

/-! ### boyd_split keeps the tokens -/

/-- what identifies a token -/
def tok (l : Tree) : Nat × Option Str × Str := (l.num, l.fields.word, l.fields.label)

/-- the tokens below a list of trees -/
def toksL (l : List Tree) : List (Nat × Option Str × Str) := (l.flatMap leaves).map tok

theorem toksL_append (a b : List Tree) : toksL (a ++ b) = toksL a ++ toksL b := by simp [toksL]

theorem toksL_perm {a b : List Tree} (h : a.Perm b) : (toksL a).Perm (toksL b) :=
  (h.flatMap_right leaves).map tok

theorem groupAdjacent_flatten : ∀ l : List Tree, (groupAdjacent l).flatten = l
  | [] => rfl
  | [a] => rfl
  | a :: b :: rest => by
    have ih := groupAdjacent_flatten (b :: rest)
    simp only [groupAdjacent]
    split
    · rename_i heq; rw [heq] at ih; simp at ih
    · rename_i blk blks heq
      rw [heq] at ih
      split <;> simp_all

theorem numberBlocks_kids (f : Fields) : ∀ (i : Nat) (G : List (List Tree)),
    (numberBlocks f i G).flatMap kids = G.flatten
  | _, [] => by simp [numberBlocks]
  | i, g :: G => by simp [numberBlocks, kids, numberBlocks_kids f (i + 1) G]

theorem numberBlocks_toks (f : Fields) : ∀ (i : Nat) (G : List (List Tree)),
    toksL (numberBlocks f i G) = toksL G.flatten
  | _, [] => by simp [numberBlocks]
  | i, g :: G => by
    have ih := numberBlocks_toks f (i + 1) G
    simp only [toksL] at ih ⊢
    simp [numberBlocks, leaves_node, ih]

mutual
theorem boydNode_toks : (t : Tree) → (r : List Tree) → boydNode t = .ok r →
    (toksL r).Perm (t.leaves.map tok)
  | .leaf n f, r, h => by
    simp only [boydNode, Except.ok.injEq] at h
    subst h
    simp [toksL, leaves, tok, num, fields]
  | .node f ks, r, h => by
    simp only [boydNode] at h
    cases hk : boydKids ks with
    | error e => simp [hk] at h
    | ok ks' =>
      have ih := boydKids_toks ks ks' hk
      simp only [hk] at h
      rw [leaves_node]
      split at h
      · simp only [Except.ok.injEq] at h
        subst h
        simpa [toksL, leaves_node] using ih
      · split at h
        · simp at h
        · simp only [Except.ok.injEq] at h
          subst h
          rw [numberBlocks_toks, groupAdjacent_flatten]
          exact (toksL_perm (sortBy_perm leftmost ks')).trans ih
theorem boydKids_toks : (ks : List Tree) → (ks' : List Tree) → boydKids ks = .ok ks' →
    (toksL ks').Perm (toksL ks)
  | [], ks', h => by
    simp only [boydKids, Except.ok.injEq] at h
    subst h
    exact List.Perm.refl _
  | t :: ts, ks', h => by
    simp only [boydKids] at h
    cases ht : boydNode t with
    | error e => simp [ht] at h
    | ok a =>
      cases hts : boydKids ts with
      | error e => simp [ht, hts] at h
      | ok b =>
        simp only [ht, hts, Except.ok.injEq] at h
        subst h
        have h1 := boydNode_toks t a ht
        have h2 := boydKids_toks ts b hts
        rw [toksL_append]
        simpa [toksL] using h1.append h2
end

/-! ### blocks, gaps and runs of numbers -/

theorem blocksOf_cons_cons {a b : Nat} {rest : List Nat} {blk : List Nat} {blks : List (List Nat)}
    (h : blocksOf (b :: rest) = blk :: blks) :
    blocksOf (a :: b :: rest) = if a + 1 < b then [a] :: blk :: blks else (a :: blk) :: blks := by
  simp only [blocksOf, h]

theorem blocksOf_cons : ∀ (m : List Nat) (c : Nat), ∃ blk blks, blocksOf (c :: m) = (c :: blk) :: blks
  | [], c => ⟨[], [], rfl⟩
  | d :: m, c => by
    obtain ⟨blk, blks, h⟩ := blocksOf_cons m d
    rw [blocksOf_cons_cons h]
    by_cases hc : c + 1 < d
    · rw [if_pos hc]; exact ⟨[], _, rfl⟩
    · rw [if_neg hc]; exact ⟨_, _, rfl⟩

theorem gapCount_eq_blocks : ∀ l : List Nat, gapCount l = (blocksOf l).length - 1
  | [] => rfl
  | [_] => rfl
  | a :: b :: rest => by
    obtain ⟨blk, blks, h⟩ := blocksOf_cons rest b
    have ih := gapCount_eq_blocks (b :: rest)
    rw [blocksOf_cons_cons h]
    simp only [gapCount, ih, h]
    split <;> simp <;> omega

theorem gapCount_of_mem_blocksOf : ∀ l : List Nat, ∀ x ∈ blocksOf l, gapCount x = 0
  | [], x, hx => by simp [blocksOf] at hx
  | [a], x, hx => by
    simp only [blocksOf, List.mem_singleton] at hx
    subst hx; rfl
  | a :: b :: rest, x, hx => by
    obtain ⟨blk, blks, h⟩ := blocksOf_cons rest b
    have ih := gapCount_of_mem_blocksOf (b :: rest)
    rw [h] at ih
    rw [blocksOf_cons_cons h] at hx
    split at hx
    · rcases List.mem_cons.1 hx with rfl | hx
      · rfl
      · exact ih x hx
    · rename_i hc
      rcases List.mem_cons.1 hx with rfl | hx
      · have := ih (b :: blk) List.mem_cons_self
        simp only [gapCount, this, hc, if_false]
      · exact ih x (List.mem_cons_of_mem _ hx)

theorem range'_of_gapCount : ∀ (l : List Nat) (a : Nat), gapCount (a :: l) = 0 →
    (a :: l).Pairwise (· < ·) → a :: l = List.range' a (l.length + 1)
  | [], a, _, _ => rfl
  | b :: l, a, hg, hp => by
    simp only [gapCount] at hg
    have hab : a < b := (List.pairwise_cons.1 hp).1 b List.mem_cons_self
    have hb : b = a + 1 := by
      by_cases h : a + 1 < b
      · simp [h] at hg
      · omega
    have hg' : gapCount (b :: l) = 0 := by omega
    have ih := range'_of_gapCount l b hg' (List.pairwise_cons.1 hp).2
    show a :: b :: l = List.range' a (l.length + 1 + 1)
    rw [List.range'_succ, ← hb, ← ih]

theorem blocksOf_range' : ∀ (n a : Nat), blocksOf (List.range' a (n + 1)) = [List.range' a (n + 1)]
  | 0, a => rfl
  | n + 1, a => by
    have ih := blocksOf_range' n (a + 1)
    rw [List.range'_succ] at ih
    rw [List.range'_succ, List.range'_succ, blocksOf_cons_cons ih]
    simp

theorem blocksOf_range'_append {c : Nat} {m blk : List Nat} {blks : List (List Nat)}
    (h : blocksOf (c :: m) = blk :: blks) : ∀ (n a : Nat),
    blocksOf (List.range' a (n + 1) ++ c :: m) =
      if a + (n + 1) < c then List.range' a (n + 1) :: blk :: blks
      else (List.range' a (n + 1) ++ blk) :: blks
  | 0, a => by
    simp only [List.range'_succ, List.range'_zero, List.cons_append, List.nil_append]
    exact blocksOf_cons_cons h
  | n + 1, a => by
    have ih := blocksOf_range'_append h n (a + 1)
    rw [List.range'_succ, List.cons_append]
    rw [List.range'_succ, List.cons_append] at ih
    by_cases hc : a + 1 + (n + 1) < c
    · rw [if_pos hc] at ih
      rw [List.range'_succ, List.cons_append, blocksOf_cons_cons ih, if_neg (Nat.lt_irrefl _),
        if_pos (by omega)]
    · rw [if_neg hc] at ih
      rw [List.range'_succ, List.cons_append, blocksOf_cons_cons ih, if_neg (Nat.lt_irrefl _),
        if_neg (by omega)]
      rfl

/-! ### yields -/

theorem yield_perm (t : Tree) : (yield t).Perm t.leafNums := (sortBy_perm num t.leaves).map num

theorem yield_sorted (t : Tree) : (yield t).Pairwise (· ≤ ·) :=
  List.pairwise_map.2 (sortBy_sorted num t.leaves)

theorem mem_yield (t : Tree) (n : Nat) : n ∈ yield t ↔ n ∈ t.leafNums := (yield_perm t).mem_iff

theorem yield_node (f : Fields) (ks : List Tree) :
    yield (node f ks) = sortBy id (ks.flatMap leafNums) := by
  rw [yield_eq, leafNums_node]

theorem yield_leaf (n : Nat) (f : Fields) : yield (leaf n f) = [n] := by
  simp [yield, terminals, leaves, sortBy, insertBy, num]

theorem sortBy_id_eq {l l' : List Nat} (hp : l.Perm l') (hs : l'.Pairwise (· ≤ ·)) :
    sortBy id l = l' := by
  refine List.Perm.eq_of_pairwise (le := fun a b => a ≤ b) ?_ (sortBy_sorted id l) hs
    ((sortBy_perm id l).trans hp)
  intro a b _ _ h1 h2
  exact Nat.le_antisymm h1 h2

theorem sortBy_id_congr {l l' : List Nat} (hp : l.Perm l') : sortBy id l = sortBy id l' :=
  sortBy_id_eq (hp.trans (sortBy_perm id l').symm) (sortBy_sorted id l')

theorem strict_of_sorted_nodup {l : List Nat} (hs : l.Pairwise (· ≤ ·)) (hn : l.Nodup) :
    l.Pairwise (· < ·) := by
  rw [List.Nodup] at hn
  exact (hs.and hn).imp (fun ⟨h1, h2⟩ => Nat.lt_of_le_of_ne h1 h2)

theorem le_of_strict {l : List Nat} (hs : l.Pairwise (· < ·)) : l.Pairwise (· ≤ ·) :=
  hs.imp Nat.le_of_lt

/-- the yield is a non-empty interval -/
def Ival (x : Tree) : Prop := ∃ a n, yield x = List.range' a (n + 1)

theorem leftmost_of_ival {x : Tree} {a n : Nat} (h : yield x = List.range' a (n + 1)) :
    leftmost x = a := by
  simp [leftmost, h, List.head?_range']

theorem rightmost_of_ival {x : Tree} {a n : Nat} (h : yield x = List.range' a (n + 1)) :
    rightmost x = a + n := by
  simp [rightmost, h, List.getLast?_range']

theorem ival_of (x : Tree) (hg : gapDegreeNode x = 0) (hne : x.leafNums ≠ [])
    (hn : x.leafNums.Nodup) : Ival x := by
  cases x with
  | leaf n f => exact ⟨n, 0, yield_leaf n f⟩
  | node f ks =>
    simp only [gapDegreeNode] at hg
    have hs := strict_of_sorted_nodup (yield_sorted (node f ks)) ((yield_perm _).symm.nodup hn)
    cases hy : yield (node f ks) with
    | nil =>
      have := (yield_perm (node f ks)).symm
      rw [hy] at this
      exact absurd (List.perm_nil.1 this) hne
    | cons a l =>
      rw [hy] at hg hs
      exact ⟨a, l.length, hy.trans (range'_of_gapCount l a hg hs)⟩

/-! ### groupAdjacent -/

theorem groupAdjacent_cons_cons {a b : Tree} {rest blk : List Tree} {blks : List (List Tree)}
    (h : groupAdjacent (b :: rest) = blk :: blks) :
    groupAdjacent (a :: b :: rest) =
      if leftmost b > rightmost a + 1 then [a] :: blk :: blks else (a :: blk) :: blks := by
  simp only [groupAdjacent, h]

theorem groupAdjacent_cons : ∀ (m : List Tree) (c : Tree),
    ∃ blk blks, groupAdjacent (c :: m) = (c :: blk) :: blks
  | [], c => ⟨[], [], rfl⟩
  | d :: m, c => by
    obtain ⟨blk, blks, h⟩ := groupAdjacent_cons m d
    rw [groupAdjacent_cons_cons h]
    by_cases hc : leftmost d > rightmost c + 1
    · rw [if_pos hc]; exact ⟨[], _, rfl⟩
    · rw [if_neg hc]; exact ⟨_, _, rfl⟩

theorem groupAdjacent_ne_nil : ∀ (l : List Tree), ∀ g ∈ groupAdjacent l, g ≠ []
  | [], g, hg => by simp [groupAdjacent] at hg
  | [a], g, hg => by
    simp only [groupAdjacent, List.mem_singleton] at hg
    subst hg; simp
  | a :: b :: rest, g, hg => by
    obtain ⟨blk, blks, h⟩ := groupAdjacent_cons rest b
    have ih := groupAdjacent_ne_nil (b :: rest)
    rw [h] at ih
    rw [groupAdjacent_cons_cons h] at hg
    split at hg
    · rcases List.mem_cons.1 hg with rfl | hg
      · simp
      · exact ih g hg
    · rcases List.mem_cons.1 hg with rfl | hg
      · simp
      · exact ih g (List.mem_cons_of_mem _ hg)

/-- grouping adjacent interval-children computes the blocks of the concatenated yields -/
theorem groupAdjacent_yields : ∀ (l : List Tree), (∀ x ∈ l, Ival x) →
    (groupAdjacent l).map (·.flatMap yield) = blocksOf (l.flatMap yield)
  | [], _ => rfl
  | [a], hI => by
    obtain ⟨aa, na, ha⟩ := hI a List.mem_cons_self
    simp [groupAdjacent, ha, blocksOf_range']
  | a :: b :: rest, hI => by
    obtain ⟨blk, blks, hg⟩ := groupAdjacent_cons rest b
    have ih := groupAdjacent_yields (b :: rest) (fun x hx => hI x (List.mem_cons_of_mem _ hx))
    obtain ⟨aa, na, ha⟩ := hI a List.mem_cons_self
    obtain ⟨ab, nb, hb⟩ := hI b (List.mem_cons_of_mem _ List.mem_cons_self)
    have hbm : (b :: rest).flatMap yield = ab :: (List.range' (ab + 1) nb ++ rest.flatMap yield) := by
      simp [hb, List.range'_succ]
    rw [hg, hbm, List.map_cons] at ih
    rw [groupAdjacent_cons_cons hg, List.flatMap_cons, hbm, ha,
      blocksOf_range'_append ih.symm na aa, leftmost_of_ival hb, rightmost_of_ival ha]
    by_cases hc : ab > aa + na + 1
    · rw [if_pos hc, if_pos (by omega)]
      simp [ha]
    · rw [if_neg hc, if_neg (by omega)]
      simp [ha]

/-- siblings sorted by leftmost token, each an interval, with disjoint tokens: the concatenated
    yields are strictly increasing -/
theorem sorted_flatMap_yield (l : List Tree) (hI : ∀ x ∈ l, Ival x)
    (hs : l.Pairwise (fun a b => leftmost a ≤ leftmost b)) (hn : (l.flatMap leafNums).Nodup) :
    (l.flatMap yield).Pairwise (· < ·) := by
  rw [List.pairwise_flatMap]
  constructor
  · intro a ha
    obtain ⟨aa, na, h⟩ := hI a ha
    rw [h]; exact List.pairwise_lt_range'
  · rw [List.Nodup, List.pairwise_flatMap] at hn
    refine (hs.and hn.2).imp_of_mem ?_
    intro a b ha hb ⟨hab, hd⟩ x hx y hy
    obtain ⟨aa, na, ha'⟩ := hI a ha
    obtain ⟨ab, nb, hb'⟩ := hI b hb
    rw [leftmost_of_ival ha', leftmost_of_ival hb'] at hab
    have hx' := hx; have hy' := hy
    rw [ha', List.mem_range'_1] at hx'
    rw [hb', List.mem_range'_1] at hy'
    by_cases hlt : x < y
    · exact hlt
    · exfalso
      have h1 : ab ∈ yield a := by rw [ha', List.mem_range'_1]; omega
      have h2 : ab ∈ yield b := by rw [hb', List.mem_range'_1]; omega
      exact hd ab ((mem_yield a ab).1 h1) ab ((mem_yield b ab).1 h2) rfl

theorem flatMap_yield_perm (g : List Tree) : (g.flatMap leafNums).Perm (g.flatMap yield) :=
  perm_flatMap_of_forall _ _ g (fun a _ => (yield_perm a).symm)

/-- what the node-level step of `boyd_split` sees -/
structure NodeStep (ks : List Tree) : Prop where
  sorted : ((sortBy leftmost ks).flatMap yield).Pairwise (· < ·)
  yieldEq : sortBy id (ks.flatMap leafNums) = (sortBy leftmost ks).flatMap yield
  groups : (groupAdjacent (sortBy leftmost ks)).map (·.flatMap yield) =
    blocksOf (sortBy id (ks.flatMap leafNums))
  groupYield : ∀ g ∈ groupAdjacent (sortBy leftmost ks), sortBy id (g.flatMap leafNums) = g.flatMap yield
  groupSorted : ∀ g ∈ groupAdjacent (sortBy leftmost ks), (g.flatMap yield).Pairwise (· < ·)

theorem nodeStep (ks : List Tree) (hI : ∀ x ∈ ks, Ival x) (hn : (ks.flatMap leafNums).Nodup) :
    NodeStep ks := by
  have hI' : ∀ x ∈ sortBy leftmost ks, Ival x := fun x hx => hI x ((mem_sortBy _ _ _).1 hx)
  have hp : ((sortBy leftmost ks).flatMap leafNums).Perm (ks.flatMap leafNums) :=
    (sortBy_perm leftmost ks).flatMap_right leafNums
  have hsorted := sorted_flatMap_yield (sortBy leftmost ks) hI' (sortBy_sorted leftmost ks)
    (hp.symm.nodup hn)
  have hy : sortBy id (ks.flatMap leafNums) = (sortBy leftmost ks).flatMap yield :=
    sortBy_id_eq (hp.symm.trans (flatMap_yield_perm _)) (le_of_strict hsorted)
  have hgs : ∀ g ∈ groupAdjacent (sortBy leftmost ks), (g.flatMap yield).Pairwise (· < ·) := by
    intro g hg
    have hsub : g.Sublist (sortBy leftmost ks) := by
      have := List.sublist_flatten_of_mem hg
      rwa [groupAdjacent_flatten] at this
    rw [List.pairwise_flatMap] at hsorted ⊢
    exact ⟨fun a ha => hsorted.1 a (hsub.subset ha), hsorted.2.sublist hsub⟩
  refine ⟨hsorted, hy, ?_, ?_, hgs⟩
  · rw [hy]; exact groupAdjacent_yields _ hI'
  · intro g hg
    exact sortBy_id_eq (flatMap_yield_perm g) (le_of_strict (hgs g hg))

/-! ### noEmpty / continuous -/

theorem noEmptyL_iff : ∀ ks : List Tree, noEmptyL ks = true ↔ ∀ k ∈ ks, noEmpty k = true
  | [] => by simp [noEmptyL]
  | t :: ts => by simp [noEmptyL, noEmptyL_iff ts]

mutual
theorem leaves_ne_nil : (t : Tree) → noEmpty t = true → t.leaves ≠ []
  | .leaf n f, _ => by simp [leaves]
  | .node f ks, h => by
    simp only [noEmpty, Bool.and_eq_true, Bool.not_eq_true', List.isEmpty_eq_false_iff] at h
    simp only [leaves]
    exact leavesL_ne_nil ks h.2 h.1
theorem leavesL_ne_nil : (ks : List Tree) → noEmptyL ks = true → ks ≠ [] → leavesL ks ≠ []
  | [], _, h => absurd rfl h
  | t :: ts, h, _ => by
    simp only [noEmptyL, Bool.and_eq_true] at h
    simp only [leavesL]
    have := leaves_ne_nil t h.1
    simp [this]
end

theorem leafNums_ne_nil (t : Tree) (h : noEmpty t = true) : t.leafNums ≠ [] := by
  simp only [leafNums, ne_eq, List.map_eq_nil_iff]
  exact leaves_ne_nil t h

theorem flatMap_leafNums_ne_nil (ks : List Tree) (h : noEmptyL ks = true) (hne : ks ≠ []) :
    ks.flatMap leafNums ≠ [] := by
  have := leavesL_ne_nil ks h hne
  rw [leavesL_eq] at this
  intro h0
  apply this
  have h1 : (ks.flatMap leaves).map num = [] := by rw [List.map_flatMap]; exact h0
  exact List.map_eq_nil_iff.1 h1

theorem noEmpty_node (f : Fields) (ks : List Tree) :
    noEmpty (node f ks) = true ↔ ks ≠ [] ∧ ∀ k ∈ ks, noEmpty k = true := by
  simp [noEmpty, noEmptyL_iff]

theorem continuous_node (f : Fields) (ks : List Tree) :
    continuous (node f ks) = true ↔
      gapCount (yield (node f ks)) = 0 ∧ ∀ k ∈ ks, continuous k = true := by
  simp only [continuous, subtrees, subtreesL_eq, List.all_cons, List.all_flatMap, gapDegreeNode,
    Bool.and_eq_true, beq_iff_eq, List.all_eq_true]

theorem continuous_leaf (n : Nat) (f : Fields) : continuous (leaf n f) = true := by
  simp [continuous, subtrees, gapDegreeNode]

theorem continuous_root (x : Tree) (h : continuous x = true) : gapDegreeNode x = 0 := by
  cases x with
  | leaf n f => rfl
  | node f ks => simp only [gapDegreeNode]; exact ((continuous_node f ks).1 h).1

theorem nodup_of_mem_flatMap {ks : List Tree} (hn : (ks.flatMap leafNums).Nodup) {x : Tree}
    (hx : x ∈ ks) : x.leafNums.Nodup := by
  rw [List.Nodup, List.pairwise_flatMap] at hn
  exact hn.1 x hx

/-! ### the node-level step of boyd_split -/

def boydStep (f : Fields) (ks' : List Tree) : Except Err (List Tree) :=
  if (groupAdjacent (sortBy leftmost ks')).length ≤ 1 then
    .ok [node { f with split := some false, headBlock := some true } ks']
  else if f.head.isNone then .error .valueError
  else .ok (numberBlocks f 0 (groupAdjacent (sortBy leftmost ks')))

theorem boydNode_node (f : Fields) (ks : List Tree) :
    boydNode (node f ks) = match boydKids ks with
      | .error e => .error e
      | .ok ks' => boydStep f ks' := by
  simp only [boydNode, boydStep]
  cases boydKids ks <;> rfl

theorem mem_numberBlocks (f : Fields) : ∀ (i : Nat) (G : List (List Tree)) (x : Tree),
    x ∈ numberBlocks f i G → ∃ g ∈ G, ∃ f' : Fields, x = node f' g ∧ f'.label = f.label ∧
      f'.split = some true
  | _, [], x, h => by simp [numberBlocks] at h
  | i, g :: G, x, h => by
    simp only [numberBlocks, List.mem_cons] at h
    rcases h with rfl | h
    · exact ⟨g, List.mem_cons_self, _, rfl, rfl, rfl⟩
    · obtain ⟨g', hg', f', hx, hl⟩ := mem_numberBlocks f (i + 1) G x h
      exact ⟨g', List.mem_cons_of_mem _ hg', f', hx, hl⟩

theorem numberBlocks_map_yield (f : Fields) : ∀ (i : Nat) (G : List (List Tree)),
    (numberBlocks f i G).map yield = G.map (fun g => sortBy id (g.flatMap leafNums))
  | _, [] => by simp [numberBlocks]
  | i, g :: G => by simp [numberBlocks, yield_node, numberBlocks_map_yield f (i + 1) G]

theorem boydStep_spec (f : Fields) (ks' r : List Tree) (h : boydStep f ks' = .ok r)
    (hgood : ∀ x ∈ ks', continuous x = true ∧ noEmpty x = true)
    (hn : (ks'.flatMap leafNums).Nodup) (hne : ks' ≠ []) :
    (∀ x ∈ r, continuous x = true ∧ noEmpty x = true) ∧
    r.map yield = blocksOf (sortBy id (ks'.flatMap leafNums)) ∧
    ∀ x ∈ r, x.fields.label = f.label := by
  have hI : ∀ x ∈ ks', Ival x := fun x hx =>
    ival_of x (continuous_root x (hgood x hx).1) (leafNums_ne_nil x (hgood x hx).2)
      (nodup_of_mem_flatMap hn hx)
  have ns := nodeStep ks' hI hn
  have hflat := groupAdjacent_flatten (sortBy leftmost ks')
  unfold boydStep at h
  split at h
  · rename_i hlen
    simp only [Except.ok.injEq] at h
    subst h
    have hgc : gapCount (sortBy id (ks'.flatMap leafNums)) = 0 := by
      rw [gapCount_eq_blocks, ← ns.groups, List.length_map]; omega
    refine ⟨?_, ?_, ?_⟩
    · intro x hx
      rw [List.mem_singleton] at hx
      subst hx
      refine ⟨(continuous_node _ _).2 ⟨?_, fun k hk => (hgood k hk).1⟩,
        (noEmpty_node _ _).2 ⟨hne, fun k hk => (hgood k hk).2⟩⟩
      rw [yield_node]; exact hgc
    · rw [← ns.groups]
      have hl : sortBy leftmost ks' ≠ [] := by
        intro h0
        have := sortBy_length leftmost ks'
        rw [h0] at this
        exact hne (List.length_eq_zero_iff.1 this.symm)
      cases hG : groupAdjacent (sortBy leftmost ks') with
      | nil => rw [hG] at hflat; exact absurd hflat.symm hl
      | cons g G =>
        cases G with
        | nil =>
          rw [hG] at hflat
          simp only [List.flatten_cons, List.flatten_nil, List.append_nil] at hflat
          simp [yield_node, ns.yieldEq, hflat]
        | cons g' G' => rw [hG] at hlen; simp at hlen
    · simp [fields]
  · split at h
    · simp at h
    · simp only [Except.ok.injEq] at h
      subst h
      refine ⟨?_, ?_, ?_⟩
      · intro x hx
        obtain ⟨g, hg, f', rfl, _⟩ := mem_numberBlocks f 0 _ x hx
        have hsub : ∀ k ∈ g, k ∈ ks' := fun k hk =>
          (mem_sortBy leftmost ks' k).1 (hflat ▸ List.mem_flatten.2 ⟨g, hg, hk⟩)
        refine ⟨(continuous_node _ _).2 ⟨?_, fun k hk => (hgood k (hsub k hk)).1⟩,
          (noEmpty_node _ _).2 ⟨groupAdjacent_ne_nil _ g hg, fun k hk => (hgood k (hsub k hk)).2⟩⟩
        rw [yield_node, ns.groupYield g hg]
        apply gapCount_of_mem_blocksOf (sortBy id (ks'.flatMap leafNums))
        rw [← ns.groups]
        exact List.mem_map.2 ⟨g, hg, rfl⟩
      · rw [numberBlocks_map_yield, ← ns.groups]
        exact List.map_congr_left (fun g hg => ns.groupYield g hg)
      · intro x hx
        obtain ⟨g, _, f', rfl, hl, _⟩ := mem_numberBlocks f 0 _ x hx
        exact hl

theorem toksL_map_fst (l : List Tree) : (toksL l).map (·.1) = l.flatMap leafNums := by
  simp only [toksL, List.map_map, List.map_flatMap]
  rfl

theorem boydKids_leafNums (ks ks' : List Tree) (h : boydKids ks = .ok ks') :
    (ks'.flatMap leafNums).Perm (ks.flatMap leafNums) := by
  have := (boydKids_toks ks ks' h).map (·.1)
  rwa [toksL_map_fst, toksL_map_fst] at this

theorem boydNode_leafNums (t : Tree) (r : List Tree) (h : boydNode t = .ok r) :
    (r.flatMap leafNums).Perm t.leafNums := by
  have := (boydNode_toks t r h).map (·.1)
  rw [toksL_map_fst] at this
  simpa [leafNums, tok, Function.comp_def] using this

/-- everything needed one level up, about the processed children of a node -/
theorem kids_ready (ks ks' : List Tree) (h : boydKids ks = .ok ks')
    (hne : noEmptyL ks = true) (hks : ks ≠ []) (hn : (ks.flatMap leafNums).Nodup) :
    (ks'.flatMap leafNums).Nodup ∧ ks' ≠ [] := by
  have hp := boydKids_leafNums ks ks' h
  refine ⟨hp.symm.nodup hn, ?_⟩
  rintro rfl
  exact flatMap_leafNums_ne_nil ks hne hks (List.perm_nil.1 hp.symm)

mutual
theorem boydNode_good : (t : Tree) → (r : List Tree) → boydNode t = .ok r →
    noEmpty t = true → t.leafNums.Nodup → ∀ x ∈ r, continuous x = true ∧ noEmpty x = true
  | .leaf n f, r, h, _, _ => by
    simp only [boydNode, Except.ok.injEq] at h
    subst h
    intro x hx
    rw [List.mem_singleton] at hx
    subst hx
    exact ⟨continuous_leaf _ _, by simp [noEmpty]⟩
  | .node f ks, r, h, hne, hn => by
    rw [boydNode_node] at h
    cases hk : boydKids ks with
    | error e => simp [hk] at h
    | ok ks' =>
      simp only [hk] at h
      simp only [noEmpty, Bool.and_eq_true, Bool.not_eq_true', List.isEmpty_eq_false_iff] at hne
      rw [leafNums_node] at hn
      have ih := boydKids_good ks ks' hk hne.2 hn
      obtain ⟨hn', hne'⟩ := kids_ready ks ks' hk hne.2 hne.1 hn
      exact (boydStep_spec f ks' r h ih hn' hne').1
theorem boydKids_good : (ks : List Tree) → (ks' : List Tree) → boydKids ks = .ok ks' →
    noEmptyL ks = true → (ks.flatMap leafNums).Nodup →
    ∀ x ∈ ks', continuous x = true ∧ noEmpty x = true
  | [], ks', h, _, _ => by
    simp only [boydKids, Except.ok.injEq] at h
    subst h
    simp
  | t :: ts, ks', h, hne, hn => by
    simp only [boydKids] at h
    cases ht : boydNode t with
    | error e => simp [ht] at h
    | ok a =>
      cases hts : boydKids ts with
      | error e => simp [ht, hts] at h
      | ok b =>
        simp only [ht, hts, Except.ok.injEq] at h
        subst h
        simp only [noEmptyL, Bool.and_eq_true] at hne
        rw [List.flatMap_cons, List.nodup_append] at hn
        have h1 := boydNode_good t a ht hne.1 hn.1
        have h2 := boydKids_good ts b hts hne.2 hn.2.1
        intro x hx
        rcases List.mem_append.1 hx with hx | hx
        · exact h1 x hx
        · exact h2 x hx
end

/-! ### raising keeps every yield -/

theorem yield_raiseKids (f g : Fields) (ks : List Tree) :
    yield (node f (raiseKids ks)) = yield (node g ks) := by
  simp only [yield, terminals, leaves, raiseKids_leaves]

mutual
theorem raiseNode_cont : (t : Tree) → continuous t = true → ∀ x ∈ raiseNode t, continuous x = true
  | .leaf n f, _, x, hx => by
    simp only [raiseNode, List.mem_singleton] at hx
    subst hx; exact continuous_leaf n f
  | .node f ks, h, x, hx => by
    have hc := (continuous_node f ks).1 h
    simp only [raiseNode] at hx
    split at hx
    · exact raiseKids_cont ks hc.2 x hx
    · rw [List.mem_singleton] at hx
      subst hx
      refine (continuous_node _ _).2 ⟨?_, raiseKids_cont ks hc.2⟩
      rw [yield_raiseKids f f]; exact hc.1
theorem raiseKids_cont : (ks : List Tree) → (∀ k ∈ ks, continuous k = true) →
    ∀ x ∈ raiseKids ks, continuous x = true
  | [], _, x, hx => by simp [raiseKids] at hx
  | t :: ts, h, x, hx => by
    simp only [raiseKids, List.mem_append] at hx
    rcases hx with hx | hx
    · exact raiseNode_cont t (h t List.mem_cons_self) x hx
    · exact raiseKids_cont ts (fun k hk => h k (List.mem_cons_of_mem _ hk)) x hx
end

theorem raising_cont (t : Tree) (h : continuous t = true) : continuous (raising t) = true := by
  cases t with
  | leaf n f => exact h
  | node f ks =>
    have hc := (continuous_node f ks).1 h
    simp only [raising]
    refine (continuous_node _ _).2 ⟨?_, raiseKids_cont ks hc.2⟩
    rw [yield_raiseKids f f]; exact hc.1

/-! ### a continuous tree is only re-flagged -/

theorem stripTL_eq : ∀ ks : List Tree, stripTL ks = ks.map stripT
  | [] => rfl
  | t :: ts => by simp [stripTL, stripTL_eq ts]

mutual
theorem leaves_stripT : (t : Tree) → (stripT t).leaves.map num = t.leaves.map num
  | .leaf n f => by simp [stripT, leaves, num]
  | .node f ks => by simp only [stripT, leaves]; exact leavesL_stripT ks
theorem leavesL_stripT : (ks : List Tree) → (leavesL (stripTL ks)).map num = (leavesL ks).map num
  | [] => by simp [stripTL, leavesL]
  | t :: ts => by
    simp only [stripTL, leavesL, List.map_append, leaves_stripT t, leavesL_stripT ts]
end

theorem flatMap_leafNums_eq_of_strip {ks ks' : List Tree} (h : stripTL ks' = stripTL ks) :
    ks'.flatMap leafNums = ks.flatMap leafNums := by
  have h1 := leavesL_stripT ks'
  rw [h, leavesL_stripT ks, leavesL_eq, leavesL_eq, List.map_flatMap, List.map_flatMap] at h1
  exact h1.symm

theorem boydStep_single (f : Fields) (ks' r : List Tree) (h : boydStep f ks' = .ok r)
    (hgood : ∀ x ∈ ks', continuous x = true ∧ noEmpty x = true)
    (hn : (ks'.flatMap leafNums).Nodup)
    (hgc : gapCount (sortBy id (ks'.flatMap leafNums)) = 0) :
    r = [node { f with split := some false, headBlock := some true } ks'] := by
  have hI : ∀ x ∈ ks', Ival x := fun x hx =>
    ival_of x (continuous_root x (hgood x hx).1) (leafNums_ne_nil x (hgood x hx).2)
      (nodup_of_mem_flatMap hn hx)
  have ns := nodeStep ks' hI hn
  have hlen : (groupAdjacent (sortBy leftmost ks')).length ≤ 1 := by
    have := congrArg List.length ns.groups
    rw [List.length_map] at this
    rw [gapCount_eq_blocks] at hgc
    omega
  unfold boydStep at h
  rw [if_pos hlen] at h
  exact (Except.ok.inj h).symm

mutual
theorem boydNode_fix : (t : Tree) → (r : List Tree) → boydNode t = .ok r →
    continuous t = true → noEmpty t = true → t.leafNums.Nodup →
    ∃ t', r = [t'] ∧ stripT t' = stripT t ∧ raiseNode t' = [t'] ∧ raising t' = t'
  | .leaf n f, r, h, _, _, _ => by
    simp only [boydNode, Except.ok.injEq] at h
    subst h
    exact ⟨_, rfl, by simp [stripT], by simp [raiseNode], by simp [raising]⟩
  | .node f ks, r, h, hc, hne, hn => by
    rw [boydNode_node] at h
    cases hk : boydKids ks with
    | error e => simp [hk] at h
    | ok ks' =>
      simp only [hk] at h
      simp only [noEmpty, Bool.and_eq_true, Bool.not_eq_true', List.isEmpty_eq_false_iff] at hne
      have hc' := (continuous_node f ks).1 hc
      rw [yield_node] at hc'
      rw [leafNums_node] at hn
      have hgood := boydKids_good ks ks' hk hne.2 hn
      obtain ⟨hn', hne'⟩ := kids_ready ks ks' hk hne.2 hne.1 hn
      obtain ⟨hs, hr⟩ := boydKids_fix ks ks' hk hc'.2 hne.2 hn
      have hgc : gapCount (sortBy id (ks'.flatMap leafNums)) = 0 := by
        rw [flatMap_leafNums_eq_of_strip hs]; exact hc'.1
      have := boydStep_single f ks' r h hgood hn' hgc
      subst this
      refine ⟨_, rfl, ?_, ?_, ?_⟩
      · simp only [stripT, hs]
      · simp [raiseNode, removable, hr]
      · simp only [raising, hr]
theorem boydKids_fix : (ks : List Tree) → (ks' : List Tree) → boydKids ks = .ok ks' →
    (∀ k ∈ ks, continuous k = true) → noEmptyL ks = true → (ks.flatMap leafNums).Nodup →
    stripTL ks' = stripTL ks ∧ raiseKids ks' = ks'
  | [], ks', h, _, _, _ => by
    simp only [boydKids, Except.ok.injEq] at h
    subst h
    simp [stripTL, raiseKids]
  | t :: ts, ks', h, hc, hne, hn => by
    simp only [boydKids] at h
    cases ht : boydNode t with
    | error e => simp [ht] at h
    | ok a =>
      cases hts : boydKids ts with
      | error e => simp [ht, hts] at h
      | ok b =>
        simp only [ht, hts, Except.ok.injEq] at h
        subst h
        simp only [noEmptyL, Bool.and_eq_true] at hne
        rw [List.flatMap_cons, List.nodup_append] at hn
        obtain ⟨t', rfl, h1, h2, _⟩ := boydNode_fix t a ht (hc t List.mem_cons_self) hne.1 hn.1
        obtain ⟨h3, h4⟩ := boydKids_fix ts b hts (fun k hk => hc k (List.mem_cons_of_mem _ hk))
          hne.2 hn.2.1
        refine ⟨?_, ?_⟩
        · simp only [List.singleton_append, stripTL, h1, h3]
        · simp only [List.singleton_append, raiseKids, h2, h4]
end

end TT.Lemmas.Boyd
