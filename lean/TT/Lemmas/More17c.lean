import TT.Lemmas.Slash
namespace TT.Lemmas.More17c
open TT TT.Tree TT.Lemmas.Slash

mutual
theorem leafPath_get (k : Nat) : (t : Tree) → (p : Path) → leafPath k t = some p → ∃ f, t.get? p = some (leaf k f)
  | leaf n f, p, h => by
    simp only [leafPath] at h
    split at h
    · cases h; subst n; exact ⟨f, rfl⟩
    · cases h
  | node f ks, p, h => by
    simp only [leafPath] at h
    obtain ⟨j, q, x, rfl, hx, hq⟩ := leafPathL_get k ks 0 p h
    simp only [get?, Nat.zero_add, hx]
    exact hq
theorem leafPathL_get (k : Nat) : (ks : List Tree) → (i : Nat) → (p : Path) → leafPathL k ks i = some p →
    ∃ j q x, p = (i + j) :: q ∧ ks[j]? = some x ∧ ∃ f, x.get? q = some (leaf k f)
  | [], i, p, h => by simp [leafPathL] at h
  | t :: ts, i, p, h => by
    simp only [leafPathL] at h
    cases hl : leafPath k t with
    | some q =>
      rw [hl] at h
      cases h
      exact ⟨0, q, t, rfl, rfl, leafPath_get k t q hl⟩
    | none =>
      rw [hl] at h
      obtain ⟨j, q, x, rfl, hx, hq⟩ := leafPathL_get k ts (i + 1) p h
      exact ⟨j + 1, q, x, by congr 1; omega, by simpa using hx, hq⟩
end

mutual
theorem leafPath_isSome (k : Nat) : (t : Tree) → k ∈ t.leafNums → (leafPath k t).isSome = true
  | leaf n f, h => by
    simp [leafNums, leaves, num] at h
    simp [leafPath, h]
  | node f ks, h => by
    simp only [leafPath]
    exact leafPathL_isSome k ks 0 (by simpa [leafNums, leaves] using h)
theorem leafPathL_isSome (k : Nat) : (ks : List Tree) → (i : Nat) → k ∈ (leavesL ks).map num →
    (leafPathL k ks i).isSome = true
  | [], i, h => by simp [leavesL] at h
  | t :: ts, i, h => by
    simp only [leafPathL]
    cases hl : leafPath k t with
    | some q => rfl
    | none =>
      simp only [leavesL, List.map_append, List.mem_append] at h
      rcases h with h | h
      · have := leafPath_isSome k t h
        rw [hl] at this; cases this
      · exact leafPathL_isSome k ts (i + 1) h
end

/-- a token that is there is found, and what is found is that token -/
theorem leafPath_spec (k : Nat) (t : Tree) (h : k ∈ t.leafNums) :
    ∃ f, t.get? ((leafPath k t).getD []) = some (leaf k f) := by
  have := leafPath_isSome k t h
  cases hl : leafPath k t with
  | none => rw [hl] at this; cases this
  | some p => exact leafPath_get k t p hl

mutual
theorem annotAt_get_leaf (s : Str) (n : Nat) (f : Fields) : (t : Tree) → (q p : Path) →
    t.get? p = some (leaf n f) → (annotAt s t q).get? p = some (leaf n f)
  | leaf _ _, _, _, h => by simpa [annotAt] using h
  | node g ks, [], p, h => by
    cases p with
    | nil => simp [get?] at h
    | cons i p => simpa [annotAt, get?] using h
  | node g ks, j :: q, p, h => by
    cases p with
    | nil => simp [get?] at h
    | cons i p =>
      simp only [annotAt, get?] at h ⊢
      cases hk : ks[i]? with
      | none => rw [hk] at h; cases h
      | some x =>
        rw [hk] at h
        simp only at h
        obtain ⟨y, hy, hg⟩ := annotAtL_get_leaf s n f ks j q i p x hk h
        rw [hy]; exact hg
theorem annotAtL_get_leaf (s : Str) (n : Nat) (f : Fields) : (ks : List Tree) → (j : Nat) → (q : Path) → (i : Nat) →
    (p : Path) → (x : Tree) → ks[i]? = some x → x.get? p = some (leaf n f) →
    ∃ y, (annotAtL s ks j q)[i]? = some y ∧ y.get? p = some (leaf n f)
  | [], j, q, i, p, x, hk, h => by simp at hk
  | t :: ts, 0, q, i, p, x, hk, h => by
    cases i with
    | zero =>
      simp only [List.getElem?_cons_zero, Option.some.injEq] at hk
      subst hk
      exact ⟨annotAt s t q, by simp [annotAtL], annotAt_get_leaf s n f t q p h⟩
    | succ i => exact ⟨x, by simpa [annotAtL] using hk, h⟩
  | t :: ts, j + 1, q, i, p, x, hk, h => by
    cases i with
    | zero => exact ⟨x, by simpa [annotAtL] using hk, h⟩
    | succ i =>
      simp only [List.getElem?_cons_succ] at hk
      obtain ⟨y, hy, hg⟩ := annotAtL_get_leaf s n f ts j q i p x hk h
      exact ⟨y, by simpa [annotAtL] using hy, hg⟩
end

theorem foldl_annotAt_get_leaf (s : Str) (n : Nat) (f : Fields) (p : Path) : ∀ (ps : List Path) (t : Tree),
    t.get? p = some (leaf n f) → (ps.foldl (fun acc q => annotAt s acc q) t).get? p = some (leaf n f)
  | [], _, h => h
  | q :: ps, t, h => foldl_annotAt_get_leaf s n f p ps _ (annotAt_get_leaf s n f t q p h)

/-- the annotation never writes a token -/
theorem annotated_get_leaf {a b : Tree} (h : Annotated a b) (p : Path) (n : Nat) (f : Fields)
    (hp : a.get? p = some (leaf n f)) : b.get? p = some (leaf n f) := by
  induction h with
  | refl => exact hp
  | step y ps _ _ ih => exact foldl_annotAt_get_leaf _ n f p ps _ ih

end TT.Lemmas.More17c
