/-
  Helper lemmas for C01/C03 (readers): the bracket lexer as a maximal-munch tokenizer,
  one-step facts about the bracket automaton, a fuel-free reader loop, and the simulation
  of the specification grammar (`spNode`/`spKids`/`spGroups`, and its variant `spNodeG` with the
  reader's label function: `gf_split` together with empty POS tags) by the automaton.
-/
import TT.Spec.Formats
import TT.IO.Read
namespace TT.Lemmas.Read
open TT TT.Spec TT.Tree

/-! ### character classes -/

theorem isTokC_iff (c : Char) : isTokC c = true ↔ pyIsSpace c = false ∧ c ≠ '(' ∧ c ≠ ')' := by
  simp [isTokC, and_assoc]

theorem isTokC_not_ws (c : Char) (h : isTokC c = true) : isWsC c = false := by
  simp [isTokC, isWsC] at *; exact h.1.1

theorem paren_not_space (c : Char) (h : c = '(' ∨ c = ')') : pyIsSpace c = false := by
  rcases h with rfl | rfl <;> decide

/-- every character is exactly one of: "(", ")", whitespace, token character -/
theorem char_cases (c : Char) : c = '(' ∨ c = ')' ∨ isWsC c = true ∨ isTokC c = true := by
  by_cases h1 : c = '('
  · exact .inl h1
  by_cases h2 : c = ')'
  · exact .inr (.inl h2)
  by_cases h3 : pyIsSpace c = true
  · exact .inr (.inr (.inl h3))
  · exact .inr (.inr (.inr (by simp [isTokC, h1, h2, h3])))

/-! ### the lexer -/

theorem lexAux_nil (tok ws : Str) : lexAux [] tok ws = [] := rfl

theorem lexAux_lrb (cs tok ws : Str) : lexAux ('(' :: cs) tok ws =
    (if tok.isEmpty then [] else [(tok.reverse, LexClass.token)]) ++
    (if ws.isEmpty then [] else [(ws.reverse, LexClass.ws)]) ++ [(['('], LexClass.lrb)] ++ lexAux cs [] [] := by
  simp [lexAux]

theorem lexAux_rrb (cs tok ws : Str) : lexAux (')' :: cs) tok ws =
    (if tok.isEmpty then [] else [(tok.reverse, LexClass.token)]) ++
    (if ws.isEmpty then [] else [(ws.reverse, LexClass.ws)]) ++ [([')'], LexClass.rrb)] ++ lexAux cs [] [] := by
  simp [lexAux]

theorem lexAux_space (c : Char) (cs tok ws : Str) (h : pyIsSpace c = true) : lexAux (c :: cs) tok ws =
    (if tok.isEmpty then [] else [(tok.reverse, LexClass.token)]) ++ lexAux cs [] (c :: ws) := by
  have h1 : c ≠ '(' := by rintro rfl; revert h; decide
  have h2 : c ≠ ')' := by rintro rfl; revert h; decide
  simp [lexAux, h1, h2, h]

theorem lexAux_tokc (c : Char) (cs tok ws : Str) (h : isTokC c = true) : lexAux (c :: cs) tok ws =
    (if ws.isEmpty then [] else [(ws.reverse, LexClass.ws)]) ++ lexAux cs (c :: tok) [] := by
  obtain ⟨h0, h1, h2⟩ := (isTokC_iff c).1 h
  simp [lexAux, h1, h2, h0]


/-- the property of one lexer token demanded by `lex_classes` -/
def TokOK (tc : Str × LexClass) : Prop :=
  (tc.2 = .lrb → tc.1 = ['(']) ∧ (tc.2 = .rrb → tc.1 = [')']) ∧
  (tc.2 = .ws → tc.1 ≠ [] ∧ ∀ c ∈ tc.1, pyIsSpace c = true) ∧
  (tc.2 = .token → tc.1 ≠ [] ∧ ∀ c ∈ tc.1, pyIsSpace c = false ∧ c ≠ '(' ∧ c ≠ ')')

theorem tokOK_token (tok : Str) (h : ∀ c ∈ tok, isTokC c = true) (hne : tok.isEmpty = false) :
    TokOK (tok.reverse, LexClass.token) := by
  refine ⟨by simp, by simp, by simp, fun _ => ⟨?_, ?_⟩⟩
  · cases tok <;> simp_all
  · intro c hc; exact (isTokC_iff c).1 (h c (by simpa using hc))

theorem tokOK_ws (ws : Str) (h : ∀ c ∈ ws, pyIsSpace c = true) (hne : ws.isEmpty = false) :
    TokOK (ws.reverse, LexClass.ws) := by
  refine ⟨by simp, by simp, fun _ => ⟨?_, ?_⟩, by simp⟩
  · cases ws <;> simp_all
  · intro c hc; exact h c (by simpa using hc)

theorem lexAux_classes (s : Str) : ∀ (tok ws : Str), (∀ c ∈ tok, isTokC c = true) → (∀ c ∈ ws, pyIsSpace c = true) →
    ∀ tc ∈ lexAux s tok ws, TokOK tc := by
  induction s with
  | nil => intro tok ws _ _ tc h; simp [lexAux] at h
  | cons c cs ih =>
    intro tok ws ht hw tc h
    have hpre : ∀ tc ∈ (if tok.isEmpty then [] else [(tok.reverse, LexClass.token)]), TokOK tc := by
      intro tc h; split at h
      · simp at h
      · rename_i hne
        simp only [List.mem_singleton] at h; subst h; exact tokOK_token tok ht (by simpa using hne)
    have hprw : ∀ tc ∈ (if ws.isEmpty then [] else [(ws.reverse, LexClass.ws)]), TokOK tc := by
      intro tc h; split at h
      · simp at h
      · rename_i hne
        simp only [List.mem_singleton] at h; subst h; exact tokOK_ws ws hw (by simpa using hne)
    rcases char_cases c with rfl | rfl | hc | hc
    · rw [lexAux_lrb] at h
      simp only [List.mem_append, List.mem_singleton] at h
      rcases h with ((h | h) | h) | h
      · exact hpre _ h
      · exact hprw _ h
      · subst h; simp [TokOK]
      · exact ih [] [] (by simp) (by simp) tc h
    · rw [lexAux_rrb] at h
      simp only [List.mem_append, List.mem_singleton] at h
      rcases h with ((h | h) | h) | h
      · exact hpre _ h
      · exact hprw _ h
      · subst h; simp [TokOK]
      · exact ih [] [] (by simp) (by simp) tc h
    · rw [lexAux_space c cs tok ws hc] at h
      simp only [List.mem_append] at h
      rcases h with h | h
      · exact hpre _ h
      · exact ih [] (c :: ws) (by simp) (by intro x hx; rcases List.mem_cons.1 hx with rfl | hx; exact hc; exact hw x hx) tc h
    · rw [lexAux_tokc c cs tok ws hc] at h
      simp only [List.mem_append] at h
      rcases h with h | h
      · exact hprw _ h
      · exact ih (c :: tok) [] (by intro x hx; rcases List.mem_cons.1 hx with rfl | hx; exact hc; exact ht x hx) (by simp) tc h

theorem flatten_pre (tok : Str) :
    (List.map (·.1) (if tok.isEmpty then [] else [(tok.reverse, LexClass.token)])).flatten = tok.reverse := by
  cases tok <;> simp

theorem flatten_prw (ws : Str) :
    (List.map (·.1) (if ws.isEmpty then [] else [(ws.reverse, LexClass.ws)])).flatten = ws.reverse := by
  cases ws <;> simp

/-- nothing is lost except what is still buffered at the end (one of the two buffers is always empty) -/
theorem lexAux_concat (s : Str) : ∀ (tok ws : Str), (tok = [] ∨ ws = []) →
    (∀ c ∈ tok, isTokC c = true) → (∀ c ∈ ws, pyIsSpace c = true) →
    ∃ tail, ((lexAux s tok ws).map (·.1)).flatten ++ tail = tok.reverse ++ ws.reverse ++ s ∧ ∀ c ∈ tail, c ≠ '(' ∧ c ≠ ')' := by
  induction s with
  | nil =>
    intro tok ws _ ht hw
    refine ⟨tok.reverse ++ ws.reverse, by simp [lexAux], ?_⟩
    intro c hc
    simp only [List.mem_append, List.mem_reverse] at hc
    rcases hc with hc | hc
    · exact ((isTokC_iff c).1 (ht c hc)).2
    · have := hw c hc
      constructor <;> (rintro rfl; revert this; decide)
  | cons c cs ih =>
    intro tok ws hor ht hw
    rcases char_cases c with rfl | rfl | hc | hc
    · obtain ⟨tail, h1, h2⟩ := ih [] [] (.inl rfl) (by simp) (by simp)
      refine ⟨tail, ?_, h2⟩
      rw [lexAux_lrb]
      simp only [List.map_append, List.flatten_append, flatten_pre, flatten_prw, List.append_assoc, h1]
      simp
    · obtain ⟨tail, h1, h2⟩ := ih [] [] (.inl rfl) (by simp) (by simp)
      refine ⟨tail, ?_, h2⟩
      rw [lexAux_rrb]
      simp only [List.map_append, List.flatten_append, flatten_pre, flatten_prw, List.append_assoc, h1]
      simp
    · obtain ⟨tail, h1, h2⟩ := ih [] (c :: ws) (.inl rfl) (by simp)
        (by intro x hx; rcases List.mem_cons.1 hx with rfl | hx; exact hc; exact hw x hx)
      refine ⟨tail, ?_, h2⟩
      rw [lexAux_space c cs tok ws hc]
      simp only [List.map_append, List.flatten_append, flatten_pre, List.append_assoc, h1]
      simp
    · obtain ⟨tail, h1, h2⟩ := ih (c :: tok) [] (.inr rfl)
        (by intro x hx; rcases List.mem_cons.1 hx with rfl | hx; exact hc; exact ht x hx) (by simp)
      refine ⟨tail, ?_, h2⟩
      rw [lexAux_tokc c cs tok ws hc]
      simp only [List.map_append, List.flatten_append, flatten_prw, List.append_assoc, h1]
      rcases hor with rfl | rfl <;> simp

/-! ### sentence ids -/

theorem brStep_cnt_out (o : InOpts) (st st' : BrState) (tok : Str × LexClass) (r : Option Tree)
    (h : brStep o st tok = .ok (st', r)) :
    st'.out = st.out ∧ st'.cnt = (if r.isSome then st.cnt + 1 else st.cnt) := by
  unfold brStep at h
  simp only at h
  split at h
  all_goals (repeat' split at h)
  all_goals first
    | (cases h; done)
    | (simp only [Except.ok.injEq, Prod.mk.injEq] at h; obtain ⟨rfl, rfl⟩ := h; simp)

def SidInv (a : Nat) (st : BrState) : Prop :=
  st.out.reverse.map (·.1) = List.range' a st.out.length ∧ st.cnt = a + st.out.length

theorem sidInv_push (a : Nat) (st st' : BrState) (t : Tree) (h : SidInv a st)
    (h1 : st'.out = st.out) : SidInv a { st' with out := (st.cnt, t) :: st'.out, cnt := st.cnt + 1 } := by
  obtain ⟨ha, hb⟩ := h
  constructor
  · simp only [h1, List.reverse_cons, List.map_append, ha, List.map_cons, List.map_nil, List.length_cons] ; simp [hb, List.range'_concat]
  · simp [h1, hb]; omega

theorem brLoop_sids (o : InOpts) (a : Nat) : ∀ (fuel : Nat) (st : BrState) (toks : List (Str × LexClass)) (r : List (Nat × Tree)),
    SidInv a st → brLoop o fuel st toks = .ok r → r.map (·.1) = List.range' a r.length := by
  intro fuel
  induction fuel with
  | zero => intro st toks r _ h; simp [brLoop] at h
  | succ fuel ih =>
    intro st toks r hinv h
    cases toks with
    | nil =>
      simp only [brLoop] at h
      split at h
      · cases h
      · cases h; simpa using hinv.1
    | cons tok rest =>
      simp only [brLoop] at h
      split at h
      · cases h
      · rename_i st' hs
        have := brStep_cnt_out o st st' tok none hs
        exact ih st' rest r ⟨by rw [this.1]; exact hinv.1, by rw [this.2, this.1]; simpa using hinv.2⟩ h
      · rename_i st' t hs
        have hco := brStep_cnt_out o st st' tok (some t) hs
        have hpush : ∀ t', SidInv a { st' with out := (st.cnt, t') :: st'.out } := by
          intro t'
          have := sidInv_push a st st' t' hinv hco.1
          have e : st'.cnt = st.cnt + 1 := by simpa using hco.2
          rw [← e] at this; exact this
        split at h
        · split at h
          · cases h
          · split at h
            · exact ih _ _ r (hpush _) h
            · cases h
        · exact ih _ _ r (hpush _) h


/-! ### fuel-free loop -/

/-- the reader loop without fuel and without the discobracket post-pass -/
def brRun (o : InOpts) : BrState → List (Str × LexClass) → Except Err (List (Nat × Tree))
  | st, [] => if st.level != 0 then .error .valueError else .ok st.out.reverse
  | st, tok :: rest =>
    match brStep o st tok with
    | .error e => .error e
    | .ok (st', none) => brRun o st' rest
    | .ok (st', some t) => brRun o { st' with out := (st.cnt, t) :: st'.out } rest

theorem brLoop_eq_brRun (o : InOpts) (hd : o.disco = false) : ∀ (fuel : Nat) (st : BrState) (toks : List (Str × LexClass)),
    toks.length < fuel → brLoop o fuel st toks = brRun o st toks := by
  intro fuel
  induction fuel with
  | zero => intro st toks h; omega
  | succ fuel ih =>
    intro st toks h
    cases toks with
    | nil => simp [brLoop, brRun]
    | cons tok rest =>
      have hl : rest.length < fuel := by simp at h; omega
      simp only [brLoop, brRun, hd]
      cases hs : brStep o st tok with
      | error e => rfl
      | ok x =>
        obtain ⟨st', r⟩ := x
        cases r with
        | none => exact ih _ _ hl
        | some t => simp only [Bool.false_eq_true, if_false]; exact ih _ _ hl

theorem brRun_nil_err (o : InOpts) (st : BrState) (h : st.level ≠ 0) : brRun o st [] = .error .valueError := by
  simp [brRun, h]

theorem brRun_err (o : InOpts) (st : BrState) (tok : Str × LexClass) (rest : List (Str × LexClass)) (e : Err)
    (h : brStep o st tok = .error e) : brRun o st (tok :: rest) = .error e := by
  simp [brRun, h]

theorem brRun_none (o : InOpts) (st st' : BrState) (tok : Str × LexClass) (rest : List (Str × LexClass))
    (h : brStep o st tok = .ok (st', none)) : brRun o st (tok :: rest) = brRun o st' rest := by
  simp [brRun, h]

theorem brRun_some (o : InOpts) (st st' : BrState) (t : Tree) (tok : Str × LexClass) (rest : List (Str × LexClass))
    (h : brStep o st tok = .ok (st', some t)) :
    brRun o st (tok :: rest) = brRun o { st' with out := (st.cnt, t) :: st'.out } rest := by
  simp [brRun, h]

/-! ### queue operations -/

theorem updLast_snoc (q : List QNode) (x : QNode) (g : QNode → QNode) : updLast (q ++ [x]) g = q ++ [g x] := by
  simp [updLast]

theorem closeLast_snoc2 (q : List QNode) (p x : QNode) :
    closeLast (q ++ [p] ++ [x]) = q ++ [{ p with kids := p.kids ++ [x.toTree] }] := by
  simp [closeLast]

/-! ### the grammar with the reader's label function

  `spNodeG lf` is the specification grammar `spNode` (`TT/Spec/Formats.lean`) with ONE change: a node that has a label token
  `w` AND a body (a word or children) gets the label `(lf w).1` and the edge label `(lf w).2`.  A token written without a tag
  - `(w)`, read only with `brackets_emptypos` - keeps `w` as its word, exactly as written, and gets the default label and
  edge.  With `lf w = (w, DEFAULT_EDGE)` this IS `spNode` (`spG_plain`). -/

/-- label and edge label the reader gives a node with label token `w` -/
def lfOf (o : InOpts) (w : Str) : Str × Str :=
  if o.gfSplit then gfSplitLabel (o.gfSeparator.getD DEFAULT_GF_SEP) w else (w, DEFAULT_EDGE)

/-- the label function without `gf_split` -/
def lfPlain (w : Str) : Str × Str := (w, DEFAULT_EDGE)

theorem lfOf_plain (o : InOpts) (hg : o.gfSplit = false) : lfOf o = lfPlain := by
  funext w; simp [lfOf, lfPlain, hg]

mutual
def spNodeG (lf : Str → Str × Str) (emptyPos root : Bool) : Nat → Str → Nat → Option (Tree × Str × Nat)
  | 0, _, _ => none
  | fuel + 1, '(' :: r, cnt =>
    let r1 := skipWs r
    let label := r1.takeWhile isTokC
    let r2 := r1.drop label.length
    if label.isEmpty && !root then none else
    match r2 with
    | ')' :: r3 =>
      if emptyPos && !label.isEmpty then
        some (leaf cnt { label := DEFAULT_LABEL, word := some label, edge := some DEFAULT_EDGE, morph := some DEFAULT_MORPH }, r3, cnt + 1)
      else none
    | _ =>
      let r3 := skipWs r2
      let hadWs := r3.length < r2.length
      match r3 with
      | '(' :: _ =>
        match spKidsG lf emptyPos fuel r3 cnt [] with
        | some (ks, rest, cnt') =>
          if ks.isEmpty then none
          else some (node (if label.isEmpty then { label := DEFAULT_ROOT } else { label := (lf label).1, edge := some (lf label).2, morph := some DEFAULT_MORPH }) ks, rest, cnt')
        | none => none
      | c :: _ =>
        if hadWs && isTokC c && !label.isEmpty then
          let word := r3.takeWhile isTokC
          match skipWs (r3.drop word.length) with
          | ')' :: r4 => some (leaf cnt { label := (lf label).1, word := some word, edge := some (lf label).2, morph := some DEFAULT_MORPH }, r4, cnt + 1)
          | _ => none
        else none
      | [] => none
  | _, _, _ => none
def spKidsG (lf : Str → Str × Str) (emptyPos : Bool) : Nat → Str → Nat → List Tree → Option (List Tree × Str × Nat)
  | 0, _, _, _ => none
  | fuel + 1, s, cnt, acc =>
    match skipWs s with
    | ')' :: r => some (acc.reverse, r, cnt)
    | '(' :: r =>
      match spNodeG lf emptyPos false fuel ('(' :: r) cnt with
      | some (k, rest, cnt') => spKidsG lf emptyPos fuel rest cnt' (k :: acc)
      | none => none
    | _ => none
end

def spGroupsG (lf : Str → Str × Str) (emptyPos : Bool) : Nat → Str → List Tree → Option (List Tree)
  | 0, _, _ => none
  | _, [], acc => some acc.reverse
  | fuel + 1, '(' :: r, acc =>
    match spNodeG lf emptyPos true (2 * r.length + 4) ('(' :: r) 1 with
    | some (t, rest, _) => spGroupsG lf emptyPos fuel rest (t :: acc)
    | none => none
  | fuel + 1, _ :: r, acc => spGroupsG lf emptyPos fuel r acc

/-- the trees of a bracket file under the label function `lf` -/
def specBracketsG (lf : Str → Str × Str) (emptyPos : Bool) (text : Str) : Option (List Tree) :=
  spGroupsG lf emptyPos (2 * text.length + 2) text []

theorem spNodeG_notlrb (lf) (ep root : Bool) (fuel : Nat) (c : Char) (r : Str) (cnt : Nat) (hc : c ≠ '(') :
    spNodeG lf ep root fuel (c :: r) cnt = none := by
  unfold spNodeG
  split
  · rfl
  · rename_i heq; injection heq with h1; exact absurd h1 hc
  · rfl

theorem spNode_notlrb (ep root : Bool) (fuel : Nat) (c : Char) (r : Str) (cnt : Nat) (hc : c ≠ '(') :
    spNode ep root fuel (c :: r) cnt = none := by
  unfold spNode
  split
  · rfl
  · rename_i heq; injection heq with h1; exact absurd h1 hc
  · rfl

theorem spG_plain (ep : Bool) : ∀ fuel,
    (∀ root s cnt, spNodeG lfPlain ep root fuel s cnt = spNode ep root fuel s cnt) ∧
    (∀ s cnt acc, spKidsG lfPlain ep fuel s cnt acc = spKids ep fuel s cnt acc) := by
  intro fuel
  induction fuel with
  | zero => exact ⟨fun _ _ _ => by simp [spNodeG, spNode], fun _ _ _ => by simp [spKidsG, spKids]⟩
  | succ fuel ih =>
    constructor
    · intro root s cnt
      cases s with
      | nil => simp [spNodeG, spNode]
      | cons c r =>
        by_cases hc : c = '('
        · subst hc; simp only [spNodeG, spNode, ih.2, lfPlain]; rfl
        · rw [spNodeG_notlrb _ _ _ _ _ _ _ hc, spNode_notlrb _ _ _ _ _ _ hc]
    · intro s cnt acc
      simp only [spKidsG, spKids, ih.1, ih.2]; rfl

theorem spGroupsG_plain (ep : Bool) : ∀ fuel s acc, spGroupsG lfPlain ep fuel s acc = spGroups ep fuel s acc := by
  intro fuel
  induction fuel with
  | zero => intro s acc; simp [spGroupsG, spGroups]
  | succ fuel ih =>
    intro s acc
    cases s with
    | nil => simp [spGroupsG, spGroups]
    | cons c r =>
      by_cases hc : c = '('
      · subst hc; simp only [spGroupsG, spGroups, (spG_plain ep _).1, ih]; rfl
      · have h1 : spGroupsG lfPlain ep (fuel + 1) (c :: r) acc = spGroupsG lfPlain ep fuel r acc := by
          rw [spGroupsG]; intro h; exact hc h
        have h2 : spGroups ep (fuel + 1) (c :: r) acc = spGroups ep fuel r acc := by
          rw [spGroups]; intro h; exact hc h
        rw [h1, h2, ih]

theorem specBracketsG_plain (ep : Bool) (text : Str) : specBracketsG lfPlain ep text = specBrackets ep text :=
  spGroupsG_plain ep _ _ _

/-! ### single steps -/
section steps
variable (o : InOpts) (st : BrState) (w : Str)

theorem step_lrb_0 (h : st.state = 0) : brStep o st (w, .lrb) =
    .ok ({ st with level := st.level + 1, queue := st.queue ++ [{}], state := 9 }, none) := by
  simp [brStep, h]

theorem step_lrb_235 (h : st.state = 2 ∨ st.state = 3 ∨ st.state = 5) : brStep o st (w, .lrb) =
    .ok ({ st with level := st.level + 1, queue := st.queue ++ [{}], state := 1 }, none) := by
  rcases h with h | h | h <;> simp [brStep, h]

theorem step_lrb_9 (h : st.state = 9) : brStep o st (w, .lrb) =
    brStep o { st with state := 2, queue := updLast st.queue (fun q => { q with f := { q.f with label := DEFAULT_ROOT } }) } (w, .lrb) := by
  simp [brStep, h]

theorem step_lrb_14 (h : st.state = 1 ∨ st.state = 4) : brStep o st (w, .lrb) = .error .valueError := by
  rcases h with h | h <;> simp [brStep, h]

theorem step_rrb_0 (h : st.state = 0) : brStep o st (w, .rrb) = .ok (st, none) := by
  simp [brStep, h]

theorem step_rrb_139 (h : st.state = 1 ∨ st.state = 3 ∨ st.state = 9) : brStep o st (w, .rrb) = .error .valueError := by
  rcases h with h | h | h <;> simp [brStep, h]

theorem step_rrb_2_noEmpty (h : st.state = 2) (he : o.emptyPos = false) : brStep o st (w, .rrb) = .error .valueError := by
  simp [brStep, h, he]

theorem step_rrb_2_empty (h : st.state = 2) (he : o.emptyPos = true) : brStep o st (w, .rrb) =
    brStep o { st with state := 4, termCnt := st.termCnt + 1, queue := updLast st.queue (fun q => { q with f := { q.f with word := some q.raw, label := DEFAULT_LABEL, edge := some DEFAULT_EDGE, morph := some DEFAULT_MORPH }, num := some st.termCnt }) } (w, .rrb) := by
  simp [brStep, h, he]

theorem step_rrb_close (h : st.state = 4 ∨ st.state = 5) (q : List QNode) (p x : QNode) (L : Nat)
    (hq : st.queue = q ++ [p] ++ [x]) (hl : st.level = L + 2) : brStep o st (w, .rrb) =
    .ok ({ st with state := 5, level := L + 1, queue := q ++ [{ p with kids := p.kids ++ [x.toTree] }] }, none) := by
  have := closeLast_snoc2 q p x
  rcases h with h | h <;> simp [brStep, h, hq, hl] <;> simpa using this

theorem step_rrb_yield (h : st.state = 4 ∨ st.state = 5) (x : QNode)
    (hq : st.queue = [x]) (hl : st.level = 1) (hr : o.replaceParens = false) : brStep o st (w, .rrb) =
    .ok ({ st with state := 0, level := 0, queue := [], termCnt := 1, cnt := st.cnt + 1 }, some x.toTree) := by
  rcases h with h | h <;> simp [brStep, h, hq, hl, hr]

theorem step_ws_2 (h : st.state = 2) : brStep o st (w, .ws) = .ok ({ st with state := 3 }, none) := by
  simp [brStep, h]

theorem step_ws_other (h : st.state ≠ 2) : brStep o st (w, .ws) = .ok (st, none) := by
  simp [brStep, h]

theorem step_token_0 (h : st.state = 0) : brStep o st (w, .token) = .ok (st, none) := by
  simp [brStep, h]

theorem step_token_19 (h : st.state = 1 ∨ st.state = 9) (hg : o.gfSplit = false) : brStep o st (w, .token) =
    .ok ({ st with queue := updLast st.queue (fun q => { q with f := { q.f with label := w, edge := some DEFAULT_EDGE, morph := some DEFAULT_MORPH }, raw := w }), state := 2 }, none) := by
  rcases h with h | h <;> simp [brStep, h, hg]

theorem step_token_19G (h : st.state = 1 ∨ st.state = 9) : brStep o st (w, .token) =
    .ok ({ st with queue := updLast st.queue (fun q => { q with f := { q.f with label := (lfOf o w).1, edge := some (lfOf o w).2, morph := some DEFAULT_MORPH }, raw := w }), state := 2 }, none) := by
  cases hg : o.gfSplit <;> rcases h with h | h <;> simp [brStep, h, hg, lfOf]

theorem step_token_3 (h : st.state = 3) : brStep o st (w, .token) =
    .ok ({ st with queue := updLast st.queue (fun q => { q with f := { q.f with word := some w }, num := some st.termCnt }), termCnt := st.termCnt + 1, state := 4 }, none) := by
  simp [brStep, h]

theorem step_token_245 (h : st.state = 2 ∨ st.state = 4 ∨ st.state = 5) : brStep o st (w, .token) = .error .valueError := by
  rcases h with h | h | h <;> simp [brStep, h]

end steps


/-! ### the lexer as a maximal-munch tokenizer -/

theorem drop_takeWhile_length {α} (p : α → Bool) (l : List α) : l.drop (l.takeWhile p).length = l.dropWhile p := by
  induction l with
  | nil => rfl
  | cons a l ih => by_cases h : p a <;> simp [List.takeWhile, List.dropWhile, h, ih]

theorem dropWhile_head_false {α} (p : α → Bool) (l : List α) (c : α) (r : List α) (h : l.dropWhile p = c :: r) : p c = false := by
  induction l with
  | nil => simp at h
  | cons a l ih =>
    by_cases ha : p a
    · simp [List.dropWhile, ha] at h; exact ih h
    · simp [List.dropWhile, ha] at h; rw [← h.1]; simpa using ha

theorem dropWhile_length_le {α} (p : α → Bool) (l : List α) : (l.dropWhile p).length ≤ l.length := by
  induction l with
  | nil => simp
  | cons a l ih => by_cases ha : p a <;> simp [List.dropWhile, ha] ; omega

theorem lex_lrb (cs : Str) : bracketLex ('(' :: cs) = (['('], .lrb) :: bracketLex cs := by
  simp [bracketLex, lexAux_lrb]

theorem lex_rrb (cs : Str) : bracketLex (')' :: cs) = ([')'], .rrb) :: bracketLex cs := by
  simp [bracketLex, lexAux_rrb]

theorem lex_nil : bracketLex [] = [] := rfl

/-- a run of token characters already buffered (`acc` non-empty) -/
theorem lexAux_tokrun (s : Str) : ∀ (acc : Str), acc ≠ [] →
    (s.dropWhile isTokC = [] → lexAux s acc [] = []) ∧
    (s.dropWhile isTokC ≠ [] → lexAux s acc [] = (acc.reverse ++ s.takeWhile isTokC, .token) :: lexAux (s.dropWhile isTokC) [] []) := by
  induction s with
  | nil => intro acc _; simp [lexAux]
  | cons c cs ih =>
    intro acc hacc
    have hne : acc.isEmpty = false := by cases acc <;> simp_all
    rcases char_cases c with rfl | rfl | hc | hc
    · have : isTokC '(' = false := by decide
      simp [List.dropWhile, List.takeWhile, this, lexAux_lrb, hne]
    · have : isTokC ')' = false := by decide
      simp [List.dropWhile, List.takeWhile, this, lexAux_rrb, hne]
    · have : isTokC c = false := by simp [isTokC, isWsC] at *; simp [hc]
      simp only [isWsC] at hc
      simp [List.dropWhile, List.takeWhile, this, lexAux_space c cs _ _ hc, hne]
    · have := ih (c :: acc) (by simp)
      simp only [List.dropWhile, List.takeWhile, hc, lexAux_tokc c cs _ _ hc]
      simpa using this

theorem lexAux_wsrun (s : Str) : ∀ (acc : Str), acc ≠ [] →
    (s.dropWhile isWsC = [] → lexAux s [] acc = []) ∧
    (s.dropWhile isWsC ≠ [] → lexAux s [] acc = (acc.reverse ++ s.takeWhile isWsC, .ws) :: lexAux (s.dropWhile isWsC) [] []) := by
  induction s with
  | nil => intro acc _; simp [lexAux]
  | cons c cs ih =>
    intro acc hacc
    have hne : acc.isEmpty = false := by cases acc <;> simp_all
    rcases char_cases c with rfl | rfl | hc | hc
    · have : isWsC '(' = false := by decide
      simp [List.dropWhile, List.takeWhile, this, lexAux_lrb, hne]
    · have : isWsC ')' = false := by decide
      simp [List.dropWhile, List.takeWhile, this, lexAux_rrb, hne]
    · have := ih (c :: acc) (by simp)
      have hc' : pyIsSpace c = true := hc
      simp only [List.dropWhile, List.takeWhile, hc, lexAux_space c cs _ _ hc']
      simpa using this
    · have hw := isTokC_not_ws c hc
      simp [List.dropWhile, List.takeWhile, hw, lexAux_tokc c cs _ _ hc, hne]

/-- a token run at the start of the text: emitted iff something follows it -/
theorem lex_tok (c : Char) (cs : Str) (hc : isTokC c = true) :
    ((c :: cs).dropWhile isTokC = [] → bracketLex (c :: cs) = []) ∧
    ((c :: cs).dropWhile isTokC ≠ [] → bracketLex (c :: cs) =
        ((c :: cs).takeWhile isTokC, .token) :: bracketLex ((c :: cs).dropWhile isTokC)) := by
  have := lexAux_tokrun cs [c] (by simp)
  simp only [bracketLex, lexAux_tokc c cs _ _ hc, List.dropWhile, List.takeWhile, hc]
  simpa using this

theorem lex_ws (c : Char) (cs : Str) (hc : isWsC c = true) :
    (skipWs (c :: cs) = [] → bracketLex (c :: cs) = []) ∧
    (skipWs (c :: cs) ≠ [] → bracketLex (c :: cs) =
        ((c :: cs).takeWhile isWsC, .ws) :: bracketLex (skipWs (c :: cs))) := by
  have := lexAux_wsrun cs [c] (by simp)
  have hc' : pyIsSpace c = true := hc
  simp only [bracketLex, skipWs, lexAux_space c cs _ _ hc', List.dropWhile, List.takeWhile, hc]
  simpa using this



theorem takeWhile_run {α} (p : α → Bool) (l : List α) (d : α) (r : List α) (hl : ∀ c ∈ l, p c = true) (hd : p d = false) :
    (l ++ d :: r).takeWhile p = l ∧ (l ++ d :: r).dropWhile p = d :: r := by
  induction l with
  | nil => simp [hd]
  | cons a l ih =>
    have := ih (fun c hc => hl c (by simp [hc]))
    simp [hl a (by simp), this]

/-- a complete token run followed by a non-token character is emitted as one token -/
theorem lex_tokrun_append (t : Str) (d : Char) (r : Str) (hne : t ≠ []) (ht : ∀ c ∈ t, isTokC c = true) (hd : isTokC d = false) :
    bracketLex (t ++ d :: r) = (t, .token) :: bracketLex (d :: r) := by
  cases t with
  | nil => exact absurd rfl hne
  | cons c cs =>
    have tr := takeWhile_run isTokC (c :: cs) d r ht hd
    have := (lex_tok c (cs ++ d :: r) (ht c (by simp))).2
    rw [← List.cons_append, tr.1, tr.2] at this
    exact this (by simp)

theorem lex_wsrun_append (w : Str) (d : Char) (r : Str) (hne : w ≠ []) (hw : ∀ c ∈ w, isWsC c = true) (hd : isWsC d = false) :
    bracketLex (w ++ d :: r) = (w, .ws) :: bracketLex (d :: r) := by
  cases w with
  | nil => exact absurd rfl hne
  | cons c cs =>
    have tr := takeWhile_run isWsC (c :: cs) d r hw hd
    have := (lex_ws c (cs ++ d :: r) (hw c (by simp))).2
    unfold skipWs at this
    rw [← List.cons_append, tr.1, tr.2] at this
    exact this (by simp)

/-! ### running the automaton over lexer output -/

theorem skipWs_cons_ws (c : Char) (cs : Str) (h : isWsC c = true) : skipWs (c :: cs) = skipWs cs := by
  simp [skipWs, List.dropWhile, h]

theorem skipWs_cons_not (c : Char) (cs : Str) (h : isWsC c = false) : skipWs (c :: cs) = c :: cs := by
  simp [skipWs, List.dropWhile, h]

theorem skipWs_nil : skipWs [] = [] := rfl

theorem skipWs_length_le (s : Str) : (skipWs s).length ≤ s.length := dropWhile_length_le _ _

theorem skipWs_length_lt (c : Char) (cs : Str) (h : isWsC c = true) : (skipWs (c :: cs)).length < (c :: cs).length := by
  rw [skipWs_cons_ws c cs h]; have := skipWs_length_le cs; simp; omega

theorem skipWs_head (s : Str) (c : Char) (cs : Str) (h : skipWs s = c :: cs) : isWsC c = false :=
  dropWhile_head_false _ _ _ _ h

theorem skipWs_idem (s : Str) : skipWs (skipWs s) = skipWs s := by
  cases h : skipWs s with
  | nil => rfl
  | cons c cs => exact skipWs_cons_not c cs (skipWs_head s c cs h)

theorem isWsC_lrb : isWsC '(' = false := by decide
theorem isWsC_rrb : isWsC ')' = false := by decide
theorem isTokC_lrb : isTokC '(' = false := by decide
theorem isTokC_rrb : isTokC ')' = false := by decide

theorem lex_of_skipWs_nil (s : Str) (h : skipWs s = []) : bracketLex s = [] := by
  cases s with
  | nil => rfl
  | cons c cs =>
    by_cases hc : isWsC c = true
    · exact (lex_ws c cs hc).1 h
    · rw [skipWs_cons_not c cs (by simpa using hc)] at h; cases h

section run
variable (o : InOpts) (st : BrState)

theorem run_ws_neutral (w : Str) (rest : List (Str × LexClass)) (hs : st.state ≠ 2) :
    brRun o st ((w, .ws) :: rest) = brRun o st rest :=
  brRun_none o st st _ rest (step_ws_other o st w hs)

theorem run_skipWs (hs : st.state ≠ 2) (s : Str) (h : skipWs s ≠ []) :
    brRun o st (bracketLex s) = brRun o st (bracketLex (skipWs s)) := by
  cases s with
  | nil => exact absurd rfl h
  | cons c cs =>
    by_cases hc : isWsC c = true
    · rw [(lex_ws c cs hc).2 h, run_ws_neutral o st _ _ hs]
    · rw [skipWs_cons_not c cs (by simpa using hc)]

theorem run_skipWs_nil (hl : st.level ≠ 0) (s : Str) (h : skipWs s = []) :
    ∃ e, brRun o st (bracketLex s) = .error e :=
  ⟨_, by rw [lex_of_skipWs_nil s h]; exact brRun_nil_err o st hl⟩

theorem run_skipWs_2 (hs : st.state = 2) (c : Char) (cs : Str) (hc : isWsC c = true) (h : skipWs (c :: cs) ≠ []) :
    brRun o st (bracketLex (c :: cs)) = brRun o { st with state := 3 } (bracketLex (skipWs (c :: cs))) := by
  rw [(lex_ws c cs hc).2 h]
  exact brRun_none o st _ _ _ (step_ws_2 o st _ hs)

/-- if two states react identically to the next token, the runs agree -/
theorem run_congr (st' : BrState) (tok : Str × LexClass) (rest : List (Str × LexClass))
    (h : brStep o st tok = brStep o st' tok) (hc : st.cnt = st'.cnt) :
    brRun o st (tok :: rest) = brRun o st' (tok :: rest) := by
  simp [brRun, h, hc]

/-- a token character where the automaton accepts no token: error (either at the token or at the end of input) -/
theorem run_tok_err (hs : st.state = 2 ∨ st.state = 4 ∨ st.state = 5) (hl : st.level ≠ 0) (c : Char) (cs : Str) (hc : isTokC c = true) :
    ∃ e, brRun o st (bracketLex (c :: cs)) = .error e := by
  by_cases h : (c :: cs).dropWhile isTokC = []
  · exact ⟨_, by rw [(lex_tok c cs hc).1 h]; exact brRun_nil_err o st hl⟩
  · exact ⟨_, by rw [(lex_tok c cs hc).2 h]; exact brRun_err o st _ _ _ (step_token_245 o st _ hs)⟩

end run


/-! ### simulation of the grammar by the automaton -/

/-- the part of a node after its "(": the automaton ends in front of the closing ")" with the node `x` on top of the stack -/
def BodyPost (o : InOpts) (st : BrState) (q : List QNode) (r : Str) : Option (Tree × Str × Nat) → Prop
  | some (t, rest, cnt') => ∃ (x : QNode) (s' : Nat), x.toTree = t ∧ (s' = 4 ∨ s' = 5) ∧ rest.length < r.length ∧
      brRun o st (bracketLex r) = brRun o { st with state := s', queue := q ++ [x], termCnt := cnt' } (bracketLex (')' :: rest))
  | none => ∃ e, brRun o st (bracketLex r) = .error e

def BodySpec (o : InOpts) (f : Nat) : Prop :=
  ∀ (root : Bool) (r : Str) (cnt : Nat) (st : BrState) (q : List QNode) (L : Nat),
    2 * r.length + 3 ≤ f → st.state = (if root then 9 else 1) → st.queue = q ++ [({} : QNode)] → st.level = L + 1 → st.termCnt = cnt →
    BodyPost o st q r (spNodeG (lfOf o) o.emptyPos root f ('(' :: r) cnt)

/-- a complete inner node: attached to its parent `p`, state 5 -/
def NodePost (o : InOpts) (st : BrState) (q : List QNode) (p : QNode) (r : Str) : Option (Tree × Str × Nat) → Prop
  | some (t, rest, cnt') => rest.length < r.length + 1 ∧
      brRun o st (bracketLex ('(' :: r)) =
        brRun o { st with state := 5, queue := q ++ [{ p with kids := p.kids ++ [t] }], termCnt := cnt' } (bracketLex rest)
  | none => ∃ e, brRun o st (bracketLex ('(' :: r)) = .error e

def NodeSpec (o : InOpts) (f : Nat) : Prop :=
  ∀ (r : Str) (cnt : Nat) (st : BrState) (q : List QNode) (p : QNode) (L : Nat),
    2 * r.length + 3 ≤ f → (st.state = 2 ∨ st.state = 3 ∨ st.state = 5) → st.queue = q ++ [p] → st.level = L + 1 → st.termCnt = cnt →
    NodePost o st q p r (spNodeG (lfOf o) o.emptyPos false f ('(' :: r) cnt)

/-- the children of `p` up to (not including) the closing ")" of `p` -/
def KidsPost (o : InOpts) (st : BrState) (q : List QNode) (p : QNode) (s : Str) (acc : List Tree) :
    Option (List Tree × Str × Nat) → Prop
  | some (ks, rest, cnt') => ∃ new, ks = acc.reverse ++ new ∧ (st.state ≠ 5 → new ≠ []) ∧ rest.length < s.length ∧
      brRun o st (bracketLex s) =
        brRun o { st with state := 5, queue := q ++ [{ p with kids := p.kids ++ new }], termCnt := cnt' } (bracketLex (')' :: rest))
  | none => ∃ e, brRun o st (bracketLex s) = .error e

def KidsSpec (o : InOpts) (f : Nat) : Prop :=
  ∀ (s : Str) (cnt : Nat) (acc : List Tree) (st : BrState) (q : List QNode) (p : QNode) (L : Nat),
    2 * s.length + 2 ≤ f → (st.state = 5 ∨ ((st.state = 2 ∨ st.state = 3) ∧ ∃ r', skipWs s = '(' :: r')) →
    st.queue = q ++ [p] → st.level = L + 1 → st.termCnt = cnt →
    KidsPost o st q p s acc (spKidsG (lfOf o) o.emptyPos f s cnt acc)

theorem node_of_body (o : InOpts) (f : Nat) (B : BodySpec o f) : NodeSpec o f := by
  intro r cnt st q p L hf hs hq hl hc
  obtain ⟨state, level, queue, termCnt, cnt0, out⟩ := st
  simp only at hs hq hl hc
  subst hq hl hc
  have h1 : brRun o ⟨state, L + 1, q ++ [p], termCnt, cnt0, out⟩ (bracketLex ('(' :: r)) =
      brRun o ⟨1, L + 2, q ++ [p] ++ [({} : QNode)], termCnt, cnt0, out⟩ (bracketLex r) := by
    rw [lex_lrb]
    exact brRun_none o _ _ _ _ (by rw [step_lrb_235 o _ _ hs])
  have hB := B false r termCnt ⟨1, L + 2, q ++ [p] ++ [({} : QNode)], termCnt, cnt0, out⟩ (q ++ [p]) (L + 1) hf rfl rfl rfl rfl
  cases hsp : spNodeG (lfOf o) o.emptyPos false f ('(' :: r) termCnt with
  | none =>
    rw [hsp] at hB
    obtain ⟨e, he⟩ := hB
    exact ⟨e, by rw [h1, he]⟩
  | some v =>
    obtain ⟨t, rest, cnt'⟩ := v
    rw [hsp] at hB
    obtain ⟨x, s', hx, hs', hlen, hrun⟩ := hB
    refine ⟨by omega, ?_⟩
    rw [h1, hrun, lex_rrb]
    refine (brRun_none o _ _ _ _ ?_)
    rw [step_rrb_close o _ _ hs' q p x L rfl rfl, hx]

theorem kids_step (o : InOpts) (f : Nat) (N : NodeSpec o f) (K : KidsSpec o f) : KidsSpec o (f + 1) := by
  intro s cnt acc st q p L hf hs hq hl hc
  obtain ⟨state, level, queue, termCnt, cnt0, out⟩ := st
  simp only at hs hq hl hc
  subst hq hl hc
  have hlev : (BrState.mk state (L + 1) (q ++ [p]) termCnt cnt0 out).level ≠ 0 := by simp
  -- whitespace in front of the next child
  cases hsk : skipWs s with
  | nil =>
    have : spKidsG (lfOf o) o.emptyPos (f + 1) s termCnt acc = none := by simp [spKidsG, hsk]
    rw [this]
    exact run_skipWs_nil o _ hlev s hsk
  | cons c cs =>
    have hcw := skipWs_head s c cs hsk
    have hlen := skipWs_length_le s
    rw [hsk] at hlen
    simp only [List.length_cons] at hlen
    rcases char_cases c with rfl | rfl | hcc | hcc
    · -- a child
      -- the state in front of the child
      obtain ⟨state', hs', hrun⟩ : ∃ state', (state' = 2 ∨ state' = 3 ∨ state' = 5) ∧
          brRun o ⟨state, L + 1, q ++ [p], termCnt, cnt0, out⟩ (bracketLex s) =
          brRun o ⟨state', L + 1, q ++ [p], termCnt, cnt0, out⟩ (bracketLex ('(' :: cs)) := by
        by_cases h2 : state = 2
        · subst h2
          cases s with
          | nil => cases hsk
          | cons d ds =>
            by_cases hd : isWsC d = true
            · refine ⟨3, by simp, ?_⟩
              rw [run_skipWs_2 o _ rfl d ds hd (by rw [hsk]; simp), hsk]
            · rw [skipWs_cons_not d ds (by simpa using hd)] at hsk
              exact ⟨2, by simp, by rw [hsk]⟩
        · refine ⟨state, ?_, ?_⟩
          · rcases hs with h | ⟨h | h, _⟩ <;> simp [h]
          · rw [run_skipWs o _ h2 s (by rw [hsk]; simp), hsk]
      have hN := N cs termCnt ⟨state', L + 1, q ++ [p], termCnt, cnt0, out⟩ q p L (by omega) hs' rfl rfl rfl
      cases hsp : spNodeG (lfOf o) o.emptyPos false f ('(' :: cs) termCnt with
      | none =>
        have : spKidsG (lfOf o) o.emptyPos (f + 1) s termCnt acc = none := by simp [spKidsG, hsk, hsp]
        rw [this]
        rw [hsp] at hN
        obtain ⟨e, he⟩ := hN
        exact ⟨e, by rw [hrun, he]⟩
      | some v =>
        obtain ⟨k, rest, cnt'⟩ := v
        have : spKidsG (lfOf o) o.emptyPos (f + 1) s termCnt acc = spKidsG (lfOf o) o.emptyPos f rest cnt' (k :: acc) := by
          simp [spKidsG, hsk, hsp]
        rw [this]
        rw [hsp] at hN
        obtain ⟨hlen', hrunN⟩ := hN
        have hK := K rest cnt' (k :: acc) ⟨5, L + 1, q ++ [{ p with kids := p.kids ++ [k] }], cnt', cnt0, out⟩ q
          { p with kids := p.kids ++ [k] } L (by omega) (.inl rfl) rfl rfl rfl
        cases hsk2 : spKidsG (lfOf o) o.emptyPos f rest cnt' (k :: acc) with
        | none =>
          rw [hsk2] at hK
          obtain ⟨e, he⟩ := hK
          exact ⟨e, by rw [hrun, hrunN, he]⟩
        | some v2 =>
          obtain ⟨ks, rest2, cnt2⟩ := v2
          rw [hsk2] at hK
          obtain ⟨new, hks, _, hlen2, hrunK⟩ := hK
          refine ⟨k :: new, by simp [hks], by simp, by omega, ?_⟩
          rw [hrun, hrunN, hrunK]
          simp
    · -- the closing parenthesis of the parent
      have : spKidsG (lfOf o) o.emptyPos (f + 1) s termCnt acc = some (acc.reverse, cs, termCnt) := by simp [spKidsG, hsk]
      rw [this]
      have h5 : state = 5 := by
        rcases hs with h | ⟨_, r', hr'⟩
        · exact h
        · rw [hsk] at hr'; cases hr'
      subst h5
      refine ⟨[], by simp, by simp, by omega, ?_⟩
      rw [run_skipWs o _ (by simp) s (by rw [hsk]; simp), hsk]
      simp
    · rw [hcw] at hcc; cases hcc
    · -- a token where a child or ")" is expected
      have : spKidsG (lfOf o) o.emptyPos (f + 1) s termCnt acc = none := by
        obtain ⟨_, h1, h2⟩ := (isTokC_iff c).1 hcc
        simp only [spKidsG, hsk]
        split
        · rename_i heq; cases heq; exact absurd rfl h2
        · rename_i heq; cases heq; exact absurd rfl h1
        · rfl
      rw [this]
      have h5 : state = 5 := by
        rcases hs with h | ⟨_, r', hr'⟩
        · exact h
        · rw [hsk] at hr'; cases hr'; rw [isTokC_lrb] at hcc; cases hcc
      subst h5
      obtain ⟨e, he⟩ := run_tok_err o ⟨5, L + 1, q ++ [p], termCnt, cnt0, out⟩ (by simp) hlev c cs hcc
      exact ⟨e, by rw [run_skipWs o _ (by simp) s (by rw [hsk]; simp), hsk, he]⟩

/-- `BodyPost` with the run made explicit (so that it can be rewritten step by step) -/
def TailPost (o : InOpts) (run : Except Err (List (Nat × Tree))) (L : Nat) (q : List QNode) (cnt0 : Nat) (out : List (Nat × Tree))
    (n : Nat) : Option (Tree × Str × Nat) → Prop
  | some (t, rest, cnt') => ∃ (x : QNode) (s' : Nat), x.toTree = t ∧ (s' = 4 ∨ s' = 5) ∧ rest.length < n ∧
      run = brRun o ⟨s', L + 1, q ++ [x], cnt', cnt0, out⟩ (bracketLex (')' :: rest))
  | none => ∃ e, run = .error e

theorem TailPost.mono {o run L q cnt0 out n n' res} (h : TailPost o run L q cnt0 out n res) (hn : n ≤ n') :
    TailPost o run L q cnt0 out n' res := by
  cases res with
  | none => exact h
  | some v =>
    obtain ⟨t, rest, cnt'⟩ := v
    obtain ⟨x, s', h1, h2, h3, h4⟩ := h
    exact ⟨x, s', h1, h2, by omega, h4⟩

/-- children of a constituent whose label has been read (state 2 or 3, next character "(") -/
theorem tail_kids (o : InOpts) (f : Nat) (K : KidsSpec o f) (s2 L : Nat) (q : List QNode) (F : Fields) (termCnt cnt0 : Nat)
    (out : List (Nat × Tree)) (tl : Str) (hs2 : s2 = 2 ∨ s2 = 3) (hf : 2 * (tl.length + 1) + 2 ≤ f) (R : Str) :
    TailPost o (brRun o ⟨s2, L + 1, q ++ [{ f := F, raw := R }], termCnt, cnt0, out⟩ (bracketLex ('(' :: tl))) L q cnt0 out (tl.length + 1)
      (match spKidsG (lfOf o) o.emptyPos f ('(' :: tl) termCnt [] with
        | some (ks, rest, cnt') => if ks.isEmpty = true then none else some (node F ks, rest, cnt')
        | none => none) := by
  have hK := K ('(' :: tl) termCnt [] ⟨s2, L + 1, q ++ [{ f := F, raw := R }], termCnt, cnt0, out⟩ q { f := F, raw := R } L (by simpa using hf)
    (.inr ⟨hs2, tl, skipWs_cons_not _ _ isWsC_lrb⟩) rfl rfl rfl
  cases hsp : spKidsG (lfOf o) o.emptyPos f ('(' :: tl) termCnt [] with
  | none =>
    rw [hsp] at hK
    exact hK
  | some v =>
    obtain ⟨ks, rest, cnt'⟩ := v
    rw [hsp] at hK
    obtain ⟨new, hks, hne, hlen, hrun⟩ := hK
    have hne' : new ≠ [] := hne (by rcases hs2 with rfl | rfl <;> simp)
    have : ks.isEmpty = false := by cases new <;> simp_all
    simp only [this]
    refine ⟨{ f := F, kids := new, raw := R }, 5, ?_, .inr rfl, by simpa using hlen, ?_⟩
    · simp [QNode.toTree, hks]
    · rw [hrun]; simp

/-- the word of a token whose label has been read (state 3) -/
theorem tail_word (o : InOpts) (L : Nat) (q : List QNode) (F : Fields) (termCnt cnt0 : Nat)
    (out : List (Nat × Tree)) (c : Char) (tl : Str) (hc : isTokC c = true) (R : Str) :
    TailPost o (brRun o ⟨3, L + 1, q ++ [{ f := F, raw := R }], termCnt, cnt0, out⟩ (bracketLex (c :: tl))) L q cnt0 out (tl.length + 1)
      (match skipWs ((c :: tl).dropWhile isTokC) with
        | ')' :: r4 => some (leaf termCnt { F with word := some ((c :: tl).takeWhile isTokC) }, r4, termCnt + 1)
        | _ => none) := by
  have hdl := dropWhile_length_le isTokC tl
  by_cases h4 : (c :: tl).dropWhile isTokC = []
  · rw [h4, (lex_tok c tl hc).1 h4]
    exact ⟨_, brRun_nil_err o _ (by simp)⟩
  · rw [(lex_tok c tl hc).2 h4, brRun_none o _ _ _ _ (step_token_3 o _ _ rfl)]
    simp only [updLast_snoc]
    have hlen4 : ((c :: tl).dropWhile isTokC).length ≤ tl.length := by simpa [List.dropWhile, hc] using hdl
    generalize (c :: tl).dropWhile isTokC = r4 at *
    generalize (c :: tl).takeWhile isTokC = word at *
    cases hr5 : skipWs r4 with
    | nil => exact run_skipWs_nil o _ (by simp) r4 hr5
    | cons g gs =>
      have hlen5 := skipWs_length_le r4
      rw [hr5] at hlen5
      rw [run_skipWs o _ (by simp) r4 (by rw [hr5]; simp), hr5]
      rcases char_cases g with rfl | rfl | hgc | hgc
      · exact ⟨_, by rw [lex_lrb]; exact brRun_err o _ _ _ _ (step_lrb_14 o _ _ (.inr rfl))⟩
      · refine ⟨{ f := { F with word := some word }, num := some termCnt, raw := R }, 4, by simp [QNode.toTree], .inl rfl, ?_, rfl⟩
        simp at hlen5; omega
      · rw [skipWs_head r4 g gs hr5] at hgc; cases hgc
      · split
        · rename_i heq; cases heq; rw [isTokC_rrb] at hgc; cases hgc
        · exact run_tok_err o _ (by simp) (by simp) g gs hgc

theorem bodyPost_of_tail (o : InOpts) (s L : Nat) (qu q : List QNode) (termCnt cnt0 : Nat) (out : List (Nat × Tree)) (r : Str) (res)
    (h : TailPost o (brRun o ⟨s, L + 1, qu, termCnt, cnt0, out⟩ (bracketLex r)) L q cnt0 out r.length res) :
    BodyPost o ⟨s, L + 1, qu, termCnt, cnt0, out⟩ q r res := by
  cases res with
  | none => exact h
  | some v => exact h

theorem body_step (o : InOpts) (f : Nat) (K : KidsSpec o f) : BodySpec o (f + 1) := by
  intro root r cnt st q L hf hs hq hl hc
  obtain ⟨state, level, queue, termCnt, cnt0, out⟩ := st
  simp only at hs hq hl hc
  subst hs hq hl hc
  apply bodyPost_of_tail
  generalize hres : spNodeG (lfOf o) o.emptyPos root (f + 1) ('(' :: r) termCnt = res
  simp only [spNodeG, drop_takeWhile_length] at hres
  have hst12 : (if root = true then 9 else 1) ≠ 2 := by cases root <;> simp
  cases hr1 : skipWs r with
  | nil =>
    have : res = none := by rw [← hres]; cases root <;> simp [hr1, skipWs_nil]
    subst this
    exact run_skipWs_nil o _ (by simp) r hr1
  | cons c cs =>
    rw [run_skipWs o ⟨if root then 9 else 1, L + 1, q ++ [({} : QNode)], termCnt, cnt0, out⟩ hst12 r (by rw [hr1]; simp)]
    rw [hr1] at hres ⊢
    have hlen1 := skipWs_length_le r
    rw [hr1] at hlen1
    simp only [List.length_cons] at hlen1
    rcases char_cases c with rfl | rfl | hcc | hcc
    · -- "(" directly after "(": only the root may have no label
      simp only [List.takeWhile, List.dropWhile, isTokC_lrb, skipWs_cons_not _ _ isWsC_lrb] at hres
      cases root with
      | false =>
        have : res = none := by rw [← hres]; simp
        subst this
        exact ⟨_, by rw [lex_lrb]; exact brRun_err o _ _ _ _ (step_lrb_14 o _ _ (.inl rfl))⟩
      | true =>
        simp only [List.isEmpty_nil, Bool.not_true, Bool.and_false, Bool.false_eq_true, if_false, if_true] at hres
        subst hres
        rw [lex_lrb, run_congr o _ _ _ _ (step_lrb_9 o _ _ rfl) rfl]
        simp only [updLast_snoc]
        rw [← lex_lrb]
        exact (tail_kids o f K 2 L q { label := DEFAULT_ROOT } termCnt cnt0 out cs (.inl rfl) (by omega) _).mono (by omega)
    · -- ")" directly after "("
      have : res = none := by
        rw [← hres]; cases root <;> simp [List.takeWhile, List.dropWhile, isTokC_rrb]
      subst this
      exact ⟨_, by rw [lex_rrb]; exact brRun_err o _ _ _ _ (step_rrb_139 o _ _ (by cases root <;> simp))⟩
    · rw [skipWs_head r c cs hr1] at hcc; cases hcc
    · -- the label
      have hlab : ((c :: cs).takeWhile isTokC).isEmpty = false := by simp [List.takeWhile, hcc]
      simp only [hlab, Bool.false_and, Bool.false_eq_true, if_false, Bool.not_false, Bool.and_true] at hres
      by_cases h2 : (c :: cs).dropWhile isTokC = []
      · have : res = none := by rw [← hres, h2]; simp [skipWs_nil]
        subst this
        exact ⟨_, by rw [(lex_tok c cs hcc).1 h2]; exact brRun_nil_err o _ (by simp)⟩
      · rw [(lex_tok c cs hcc).2 h2, brRun_none o _ _ _ _ (step_token_19G o _ _ (by cases root <;> simp))]
        simp only [updLast_snoc]
        have hlen2 : ((c :: cs).dropWhile isTokC).length ≤ cs.length := by
          simpa [List.dropWhile, hcc] using dropWhile_length_le isTokC cs
        generalize (c :: cs).takeWhile isTokC = label at *
        cases hr2 : (c :: cs).dropWhile isTokC with
        | nil => exact absurd hr2 h2
        | cons d ds =>
          have hdt := dropWhile_head_false _ _ _ _ hr2
          rw [hr2] at hres hlen2
          simp only [List.length_cons] at hlen2
          clear h2 hr2
          rcases char_cases d with rfl | rfl | hdc | hdc
          · -- "(label(" : a constituent
            simp only [skipWs_cons_not _ _ isWsC_lrb] at hres
            subst hres
            exact (tail_kids o f K 2 L q _ termCnt cnt0 out ds (.inl rfl) (by omega) _).mono (by omega)
          · -- "(label)" : empty POS
            simp only at hres
            cases hep : o.emptyPos with
            | false =>
              have : res = none := by rw [← hres]; simp [hep]
              subst this
              exact ⟨_, by rw [lex_rrb]; exact brRun_err o _ _ _ _ (step_rrb_2_noEmpty o _ _ rfl hep)⟩
            | true =>
              have : res = some (leaf termCnt { label := DEFAULT_LABEL, word := some label, morph := some DEFAULT_MORPH, edge := some DEFAULT_EDGE }, ds, termCnt + 1) := by
                rw [← hres]; simp [hep]
              subst this
              refine ⟨{ f := { label := DEFAULT_LABEL, word := some label, morph := some DEFAULT_MORPH, edge := some DEFAULT_EDGE }, num := some termCnt, raw := label }, 4,
                by simp [QNode.toTree], .inl rfl, by omega, ?_⟩
              rw [lex_rrb, run_congr o _ _ _ _ (step_rrb_2_empty o _ _ rfl hep) rfl]
              simp only [updLast_snoc]
          · -- whitespace after the label
            have hnr : ∀ r3, d :: ds ≠ ')' :: r3 := by
              intro r3 h; cases h; rw [isWsC_rrb] at hdc; cases hdc
            have hlt := skipWs_length_lt d ds hdc
            split at hres
            · rename_i heq; exact absurd heq (hnr _)
            cases hr3 : skipWs (d :: ds) with
            | nil =>
              have : res = none := by rw [← hres]; simp [hr3]
              subst this
              exact run_skipWs_nil o _ (by simp) _ hr3
            | cons e es =>
              rw [run_skipWs_2 o _ rfl d ds hdc (by rw [hr3]; simp)]
              rw [hr3] at hlt hres ⊢
              have hdec : decide ((e :: es).length < (d :: ds).length) = true := by simpa using hlt
              simp only [List.length_cons] at hlt
              simp only [hdec, Bool.true_and] at hres
              rcases char_cases e with rfl | rfl | hec | hec
              · simp only at hres
                subst hres
                exact (tail_kids o f K 3 L q _ termCnt cnt0 out es (.inr rfl) (by omega) _).mono (by omega)
              · have : res = none := by rw [← hres]; simp [isTokC_rrb]
                subst this
                exact ⟨_, by rw [lex_rrb]; exact brRun_err o _ _ _ _ (step_rrb_139 o _ _ (.inr (.inl rfl)))⟩
              · rw [skipWs_head _ e es hr3] at hec; cases hec
              · split at hres
                · rename_i heq; cases heq; rw [isTokC_lrb] at hec; cases hec
                · rename_i heq; cases heq
                  simp only [hec, if_true] at hres
                  subst hres
                  exact (tail_word o L q { label := (lfOf o label).1, morph := some DEFAULT_MORPH, edge := some (lfOf o label).2 } termCnt cnt0 out _ _ hec _).mono (by omega)
                · rename_i heq; cases heq
          · rw [hdt] at hdc; cases hdc

theorem sim_all (o : InOpts) : ∀ f, BodySpec o f ∧ KidsSpec o f := by
  intro f
  induction f with
  | zero =>
    constructor
    · intro root r cnt st q L hf; omega
    · intro s cnt acc st q p L hf; omega
  | succ f ih =>
    exact ⟨body_step o f ih.2, kids_step o f (node_of_body o f ih.1) ih.2⟩

/-- one complete group at top level: the tree is delivered with the current sentence id -/
theorem root_group (o : InOpts) (hr : o.replaceParens = false) (f : Nat) (r : Str) (cnt0 : Nat)
    (out : List (Nat × Tree)) (hf : 2 * r.length + 3 ≤ f) :
    match spNodeG (lfOf o) o.emptyPos true f ('(' :: r) 1 with
    | some (t, rest, _) => rest.length < r.length + 1 ∧
        brRun o ⟨0, 0, [], 1, cnt0, out⟩ (bracketLex ('(' :: r)) = brRun o ⟨0, 0, [], 1, cnt0 + 1, (cnt0, t) :: out⟩ (bracketLex rest)
    | none => ∃ e, brRun o ⟨0, 0, [], 1, cnt0, out⟩ (bracketLex ('(' :: r)) = .error e := by
  have h1 : brRun o ⟨0, 0, [], 1, cnt0, out⟩ (bracketLex ('(' :: r)) =
      brRun o ⟨9, 1, [] ++ [({} : QNode)], 1, cnt0, out⟩ (bracketLex r) := by
    rw [lex_lrb]
    exact brRun_none o _ _ _ _ (by rw [step_lrb_0 o _ _ rfl])
  have hB := (sim_all o f).1 true r 1 ⟨9, 1, [] ++ [({} : QNode)], 1, cnt0, out⟩ [] 0 hf rfl rfl rfl rfl
  cases hsp : spNodeG (lfOf o) o.emptyPos true f ('(' :: r) 1 with
  | none =>
    rw [hsp] at hB
    obtain ⟨e, he⟩ := hB
    exact ⟨e, by rw [h1, he]⟩
  | some v =>
    obtain ⟨t, rest, cnt'⟩ := v
    rw [hsp] at hB
    obtain ⟨x, s', hx, hs', hlen, hrun⟩ := hB
    refine ⟨by omega, ?_⟩
    rw [h1, hrun, lex_rrb]
    rw [brRun_some o _ _ _ _ _ (step_rrb_yield o _ _ hs' x rfl rfl hr), hx]

/-! ### junk between groups (state 0) -/

theorem run0_tok (o : InOpts) (st : BrState) (h0 : st.state = 0) (tok : Str) (rest : List (Str × LexClass)) :
    brRun o st ((if tok.isEmpty then [] else [(tok.reverse, LexClass.token)]) ++ rest) = brRun o st rest := by
  split
  · rfl
  · exact brRun_none o st st _ _ (step_token_0 o st _ h0)

theorem run0_ws (o : InOpts) (st : BrState) (h0 : st.state = 0) (ws : Str) (rest : List (Str × LexClass)) :
    brRun o st ((if ws.isEmpty then [] else [(ws.reverse, LexClass.ws)]) ++ rest) = brRun o st rest := by
  split
  · rfl
  · exact brRun_none o st st _ _ (step_ws_other o st _ (by simp [h0]))

theorem run0_buf (o : InOpts) (st : BrState) (h0 : st.state = 0) (s : Str) : ∀ (tok ws : Str),
    brRun o st (lexAux s tok ws) = brRun o st (lexAux s [] []) := by
  induction s with
  | nil => intro tok ws; rfl
  | cons c cs ih =>
    intro tok ws
    rcases char_cases c with rfl | rfl | hc | hc
    · rw [lexAux_lrb, lexAux_lrb]
      simp only [List.append_assoc]
      rw [run0_tok o st h0, run0_ws o st h0]; rfl
    · rw [lexAux_rrb, lexAux_rrb]
      simp only [List.append_assoc]
      rw [run0_tok o st h0, run0_ws o st h0]; rfl
    · have hc' : pyIsSpace c = true := hc
      rw [lexAux_space c cs _ _ hc', lexAux_space c cs _ _ hc', run0_tok o st h0, ih]
      simp only [List.isEmpty_nil, if_true, List.nil_append]
      rw [ih [] [c]]
    · rw [lexAux_tokc c cs _ _ hc, lexAux_tokc c cs _ _ hc, run0_ws o st h0, ih]
      simp only [List.isEmpty_nil, if_true, List.nil_append]
      rw [ih [c] []]

theorem run0_junk (o : InOpts) (st : BrState) (h0 : st.state = 0) (c : Char) (cs : Str) (hc : c ≠ '(') :
    brRun o st (bracketLex (c :: cs)) = brRun o st (bracketLex cs) := by
  rcases char_cases c with rfl | rfl | hcc | hcc
  · exact absurd rfl hc
  · rw [lex_rrb]; exact brRun_none o st st _ _ (step_rrb_0 o st _ h0)
  · have hc' : pyIsSpace c = true := hcc
    simp only [bracketLex]
    rw [lexAux_space c cs _ _ hc', run0_tok o st h0, run0_buf o st h0]
  · simp only [bracketLex]
    rw [lexAux_tokc c cs _ _ hcc, run0_ws o st h0, run0_buf o st h0]

/-- the whole text -/
theorem groups_sim (o : InOpts) (hr : o.replaceParens = false) :
    ∀ (fuel : Nat) (s : Str) (acc : List Tree) (cnt0 : Nat) (out : List (Nat × Tree)), s.length + 1 ≤ fuel →
    match spGroupsG (lfOf o) o.emptyPos fuel s acc with
    | some ts => ∃ new, ts = acc.reverse ++ new ∧
        brRun o ⟨0, 0, [], 1, cnt0, out⟩ (bracketLex s) = .ok (out.reverse ++ (List.range' cnt0 new.length).zip new)
    | none => ∃ e, brRun o ⟨0, 0, [], 1, cnt0, out⟩ (bracketLex s) = .error e := by
  intro fuel
  induction fuel with
  | zero => intro s acc cnt0 out h; omega
  | succ fuel ih =>
    intro s acc cnt0 out hf
    cases s with
    | nil =>
      simp only [spGroupsG]
      exact ⟨[], by simp, by simp [lex_nil, brRun]⟩
    | cons c r =>
      simp only [List.length_cons] at hf
      by_cases hc : c = '('
      · subst hc
        simp only [spGroupsG]
        have hR := root_group o hr (2 * r.length + 4) r cnt0 out (by omega)
        cases hsp : spNodeG (lfOf o) o.emptyPos true (2 * r.length + 4) ('(' :: r) 1 with
        | none =>
          rw [hsp] at hR
          exact hR
        | some v =>
          obtain ⟨t, rest, cnt'⟩ := v
          rw [hsp] at hR
          obtain ⟨hlen, hrun⟩ := hR
          have hI := ih rest (t :: acc) (cnt0 + 1) ((cnt0, t) :: out) (by omega)
          simp only
          cases hsg : spGroupsG (lfOf o) o.emptyPos fuel rest (t :: acc) with
          | none =>
            rw [hsg] at hI
            obtain ⟨e, he⟩ := hI
            exact ⟨e, by rw [hrun, he]⟩
          | some ts =>
            rw [hsg] at hI
            obtain ⟨new, hts, hrun2⟩ := hI
            refine ⟨t :: new, by simp [hts], ?_⟩
            rw [hrun, hrun2]
            simp [List.range'_succ]
      · have hsp : spGroupsG (lfOf o) o.emptyPos (fuel + 1) (c :: r) acc = spGroupsG (lfOf o) o.emptyPos fuel r acc := by
          rw [spGroupsG]
          intro h; exact hc h
        rw [hsp, run0_junk o _ rfl c r hc]
        exact ih r acc cnt0 out (by omega)

/-! ### final form -/

mutual
theorem beq_refl : ∀ t : Tree, Tree.beq t t = true
  | .leaf n f => by simp [Tree.beq]
  | .node f ks => by simp [Tree.beq, beqL_refl ks]
theorem beqL_refl : ∀ ts : List Tree, Tree.beqL ts ts = true
  | [] => by simp [Tree.beqL]
  | t :: ts => by simp [Tree.beqL, beq_refl t, beqL_refl ts]
end

theorem sameTree_refl (t : Tree) : sameTree t t = true := beq_refl _

/-- the reader without the disco post-pass and without `replace_parens`, but WITH `gf_split` (and any separator) and
    `brackets_emptypos` together: the grammar with the reader's label function -/
theorem readBrackets_specG (o : InOpts) (hr : o.replaceParens = false) (hd : o.disco = false) (text : Str) :
    match specBracketsG (lfOf o) o.emptyPos text with
    | some ts => readBrackets o text = .ok ((List.range' (o.firstId.getD 1) ts.length).zip ts)
    | none => ∃ e, readBrackets o text = .error e := by
  have hG := groups_sim o hr (2 * text.length + 2) text [] (o.firstId.getD 1) [] (by omega)
  have hrd : readBrackets o text = brRun o ⟨0, 0, [], 1, o.firstId.getD 1, []⟩ (bracketLex text) := by
    unfold readBrackets
    exact brLoop_eq_brRun o hd _ _ _ (by omega)
  unfold specBracketsG
  cases hsp : spGroupsG (lfOf o) o.emptyPos (2 * text.length + 2) text [] with
  | none =>
    rw [hsp] at hG
    obtain ⟨e, he⟩ := hG
    exact ⟨e, by rw [hrd, he]⟩
  | some ts =>
    rw [hsp] at hG
    obtain ⟨new, hts, hrun⟩ := hG
    simp only [List.reverse_nil, List.nil_append] at hts hrun
    subst hts
    simp only
    rw [hrd, hrun]

/-- the reader (without label-rewriting options and without the disco post-pass) against the grammar -/
theorem readBrackets_spec (o : InOpts) (hg : o.gfSplit = false) (hr : o.replaceParens = false) (hd : o.disco = false) (text : Str) :
    match specBrackets o.emptyPos text with
    | some ts => readBrackets o text = .ok ((List.range' (o.firstId.getD 1) ts.length).zip ts)
    | none => ∃ e, readBrackets o text = .error e := by
  have h := readBrackets_specG o hr hd text
  rw [lfOf_plain o hg, specBracketsG_plain] at h
  exact h

/-- `(U-Bahn)` with `gf_split` and `brackets_emptypos`: the word is the token as written; `NP-SB` is split -/
example : (specBracketsG (lfOf { gfSplit := true, emptyPos := true }) true "(S (NP-SB (U-Bahn)))".toList).map
      (·.map fun t => t.subtrees.map fun s => (s.fields.label, s.fields.edge)) =
      some [[("S".toList, some "--".toList), ("NP".toList, some "SB".toList), ("EMPTY".toList, some "--".toList)]] ∧
    (specBracketsG (lfOf { gfSplit := true, emptyPos := true }) true "(S (NP-SB (U-Bahn)))".toList).map
      (·.map fun t => t.leaves.map fun l => l.fields.word) = some [[some "U-Bahn".toList]] := by decide +kernel

end TT.Lemmas.Read
