/-
  Helper lemmas for C01/C03 (readers): the bracket lexer as a maximal-munch tokenizer,
  one-step facts about the bracket automaton, a fuel-free reader loop, and the simulation
  of the specification grammar (`spNode`/`spKids`/`spGroups`) by the automaton.
-/
import TT.Spec.Formats
import TT.IO.Read
namespace TT.Lemmas.Read
open TT TT.Spec TT.Tree

/-! ### character classes -/

theorem isTokC_iff (c : Char) : isTokC c = true ↔ pyIsSpace c = false ∧ c ≠ '(' ∧ c ≠ ')' := by
  simp [isTokC, and_assoc]

theorem isTokC_not_ws (c : Char) (h : isTokC c = true) : isWsC c = false := by
  simp [isTokC, isWsC] at *; exact h.1.1

theorem paren_not_space (c : Char) (h : c = '(' ∨ c = ')') : pyIsSpace c = false := by
  rcases h with rfl | rfl <;> decide

/-- every character is exactly one of: "(", ")", whitespace, token character -/
theorem char_cases (c : Char) : c = '(' ∨ c = ')' ∨ isWsC c = true ∨ isTokC c = true := by
  by_cases h1 : c = '('
  · exact .inl h1
  by_cases h2 : c = ')'
  · exact .inr (.inl h2)
  by_cases h3 : pyIsSpace c = true
  · exact .inr (.inr (.inl h3))
  · exact .inr (.inr (.inr (by simp [isTokC, h1, h2, h3])))

/-! ### the lexer -/

theorem lexAux_nil (tok ws : Str) : lexAux [] tok ws = [] := rfl

theorem lexAux_lrb (cs tok ws : Str) : lexAux ('(' :: cs) tok ws =
    (if tok.isEmpty then [] else [(tok.reverse, LexClass.token)]) ++
    (if ws.isEmpty then [] else [(ws.reverse, LexClass.ws)]) ++ [(['('], LexClass.lrb)] ++ lexAux cs [] [] := by
  simp [lexAux]

theorem lexAux_rrb (cs tok ws : Str) : lexAux (')' :: cs) tok ws =
    (if tok.isEmpty then [] else [(tok.reverse, LexClass.token)]) ++
    (if ws.isEmpty then [] else [(ws.reverse, LexClass.ws)]) ++ [([')'], LexClass.rrb)] ++ lexAux cs [] [] := by
  simp [lexAux]

theorem lexAux_space (c : Char) (cs tok ws : Str) (h : pyIsSpace c = true) : lexAux (c :: cs) tok ws =
    (if tok.isEmpty then [] else [(tok.reverse, LexClass.token)]) ++ lexAux cs [] (c :: ws) := by
  have h1 : c ≠ '(' := by rintro rfl; revert h; decide
  have h2 : c ≠ ')' := by rintro rfl; revert h; decide
  simp [lexAux, h1, h2, h]

theorem lexAux_tokc (c : Char) (cs tok ws : Str) (h : isTokC c = true) : lexAux (c :: cs) tok ws =
    (if ws.isEmpty then [] else [(ws.reverse, LexClass.ws)]) ++ lexAux cs (c :: tok) [] := by
  obtain ⟨h0, h1, h2⟩ := (isTokC_iff c).1 h
  simp [lexAux, h1, h2, h0]


/-- the property of one lexer token demanded by `lex_classes` -/
def TokOK (tc : Str × LexClass) : Prop :=
  (tc.2 = .lrb → tc.1 = ['(']) ∧ (tc.2 = .rrb → tc.1 = [')']) ∧
  (tc.2 = .ws → tc.1 ≠ [] ∧ ∀ c ∈ tc.1, pyIsSpace c = true) ∧
  (tc.2 = .token → tc.1 ≠ [] ∧ ∀ c ∈ tc.1, pyIsSpace c = false ∧ c ≠ '(' ∧ c ≠ ')')

theorem tokOK_token (tok : Str) (h : ∀ c ∈ tok, isTokC c = true) (hne : tok.isEmpty = false) :
    TokOK (tok.reverse, LexClass.token) := by
  refine ⟨by simp, by simp, by simp, fun _ => ⟨?_, ?_⟩⟩
  · cases tok <;> simp_all
  · intro c hc; exact (isTokC_iff c).1 (h c (by simpa using hc))

theorem tokOK_ws (ws : Str) (h : ∀ c ∈ ws, pyIsSpace c = true) (hne : ws.isEmpty = false) :
    TokOK (ws.reverse, LexClass.ws) := by
  refine ⟨by simp, by simp, fun _ => ⟨?_, ?_⟩, by simp⟩
  · cases ws <;> simp_all
  · intro c hc; exact h c (by simpa using hc)

theorem lexAux_classes (s : Str) : ∀ (tok ws : Str), (∀ c ∈ tok, isTokC c = true) → (∀ c ∈ ws, pyIsSpace c = true) →
    ∀ tc ∈ lexAux s tok ws, TokOK tc := by
  induction s with
  | nil => intro tok ws _ _ tc h; simp [lexAux] at h
  | cons c cs ih =>
    intro tok ws ht hw tc h
    have hpre : ∀ tc ∈ (if tok.isEmpty then [] else [(tok.reverse, LexClass.token)]), TokOK tc := by
      intro tc h; split at h
      · simp at h
      · rename_i hne
        simp only [List.mem_singleton] at h; subst h; exact tokOK_token tok ht (by simpa using hne)
    have hprw : ∀ tc ∈ (if ws.isEmpty then [] else [(ws.reverse, LexClass.ws)]), TokOK tc := by
      intro tc h; split at h
      · simp at h
      · rename_i hne
        simp only [List.mem_singleton] at h; subst h; exact tokOK_ws ws hw (by simpa using hne)
    rcases char_cases c with rfl | rfl | hc | hc
    · rw [lexAux_lrb] at h
      simp only [List.mem_append, List.mem_singleton] at h
      rcases h with ((h | h) | h) | h
      · exact hpre _ h
      · exact hprw _ h
      · subst h; simp [TokOK]
      · exact ih [] [] (by simp) (by simp) tc h
    · rw [lexAux_rrb] at h
      simp only [List.mem_append, List.mem_singleton] at h
      rcases h with ((h | h) | h) | h
      · exact hpre _ h
      · exact hprw _ h
      · subst h; simp [TokOK]
      · exact ih [] [] (by simp) (by simp) tc h
    · rw [lexAux_space c cs tok ws hc] at h
      simp only [List.mem_append] at h
      rcases h with h | h
      · exact hpre _ h
      · exact ih [] (c :: ws) (by simp) (by intro x hx; rcases List.mem_cons.1 hx with rfl | hx; exact hc; exact hw x hx) tc h
    · rw [lexAux_tokc c cs tok ws hc] at h
      simp only [List.mem_append] at h
      rcases h with h | h
      · exact hprw _ h
      · exact ih (c :: tok) [] (by intro x hx; rcases List.mem_cons.1 hx with rfl | hx; exact hc; exact ht x hx) (by simp) tc h

theorem flatten_pre (tok : Str) :
    (List.map (·.1) (if tok.isEmpty then [] else [(tok.reverse, LexClass.token)])).flatten = tok.reverse := by
  cases tok <;> simp

theorem flatten_prw (ws : Str) :
    (List.map (·.1) (if ws.isEmpty then [] else [(ws.reverse, LexClass.ws)])).flatten = ws.reverse := by
  cases ws <;> simp

/-- nothing is lost except what is still buffered at the end (one of the two buffers is always empty) -/
theorem lexAux_concat (s : Str) : ∀ (tok ws : Str), (tok = [] ∨ ws = []) →
    (∀ c ∈ tok, isTokC c = true) → (∀ c ∈ ws, pyIsSpace c = true) →
    ∃ tail, ((lexAux s tok ws).map (·.1)).flatten ++ tail = tok.reverse ++ ws.reverse ++ s ∧ ∀ c ∈ tail, c ≠ '(' ∧ c ≠ ')' := by
  induction s with
  | nil =>
    intro tok ws _ ht hw
    refine ⟨tok.reverse ++ ws.reverse, by simp [lexAux], ?_⟩
    intro c hc
    simp only [List.mem_append, List.mem_reverse] at hc
    rcases hc with hc | hc
    · exact ((isTokC_iff c).1 (ht c hc)).2
    · have := hw c hc
      constructor <;> (rintro rfl; revert this; decide)
  | cons c cs ih =>
    intro tok ws hor ht hw
    rcases char_cases c with rfl | rfl | hc | hc
    · obtain ⟨tail, h1, h2⟩ := ih [] [] (.inl rfl) (by simp) (by simp)
      refine ⟨tail, ?_, h2⟩
      rw [lexAux_lrb]
      simp only [List.map_append, List.flatten_append, flatten_pre, flatten_prw, List.append_assoc, h1]
      simp
    · obtain ⟨tail, h1, h2⟩ := ih [] [] (.inl rfl) (by simp) (by simp)
      refine ⟨tail, ?_, h2⟩
      rw [lexAux_rrb]
      simp only [List.map_append, List.flatten_append, flatten_pre, flatten_prw, List.append_assoc, h1]
      simp
    · obtain ⟨tail, h1, h2⟩ := ih [] (c :: ws) (.inl rfl) (by simp)
        (by intro x hx; rcases List.mem_cons.1 hx with rfl | hx; exact hc; exact hw x hx)
      refine ⟨tail, ?_, h2⟩
      rw [lexAux_space c cs tok ws hc]
      simp only [List.map_append, List.flatten_append, flatten_pre, List.append_assoc, h1]
      simp
    · obtain ⟨tail, h1, h2⟩ := ih (c :: tok) [] (.inr rfl)
        (by intro x hx; rcases List.mem_cons.1 hx with rfl | hx; exact hc; exact ht x hx) (by simp)
      refine ⟨tail, ?_, h2⟩
      rw [lexAux_tokc c cs tok ws hc]
      simp only [List.map_append, List.flatten_append, flatten_prw, List.append_assoc, h1]
      rcases hor with rfl | rfl <;> simp

/-! ### sentence ids -/

theorem brStep_cnt_out (o : InOpts) (st st' : BrState) (tok : Str × LexClass) (r : Option Tree)
    (h : brStep o st tok = .ok (st', r)) :
    st'.out = st.out ∧ st'.cnt = (if r.isSome then st.cnt + 1 else st.cnt) := by
  unfold brStep at h
  simp only at h
  split at h
  all_goals (repeat' split at h)
  all_goals first
    | (cases h; done)
    | (simp only [Except.ok.injEq, Prod.mk.injEq] at h; obtain ⟨rfl, rfl⟩ := h; simp)

def SidInv (a : Nat) (st : BrState) : Prop :=
  st.out.reverse.map (·.1) = List.range' a st.out.length ∧ st.cnt = a + st.out.length

theorem sidInv_push (a : Nat) (st st' : BrState) (t : Tree) (h : SidInv a st)
    (h1 : st'.out = st.out) : SidInv a { st' with out := (st.cnt, t) :: st'.out, cnt := st.cnt + 1 } := by
  obtain ⟨ha, hb⟩ := h
  constructor
  · simp only [h1, List.reverse_cons, List.map_append, ha, List.map_cons, List.map_nil, List.length_cons] ; simp [hb, List.range'_concat]
  · simp [h1, hb]; omega

theorem brLoop_sids (o : InOpts) (a : Nat) : ∀ (fuel : Nat) (st : BrState) (toks : List (Str × LexClass)) (r : List (Nat × Tree)),
    SidInv a st → brLoop o fuel st toks = .ok r → r.map (·.1) = List.range' a r.length := by
  intro fuel
  induction fuel with
  | zero => intro st toks r _ h; simp [brLoop] at h
  | succ fuel ih =>
    intro st toks r hinv h
    cases toks with
    | nil =>
      simp only [brLoop] at h
      split at h
      · cases h
      · cases h; simpa using hinv.1
    | cons tok rest =>
      simp only [brLoop] at h
      split at h
      · cases h
      · rename_i st' hs
        have := brStep_cnt_out o st st' tok none hs
        exact ih st' rest r ⟨by rw [this.1]; exact hinv.1, by rw [this.2, this.1]; simpa using hinv.2⟩ h
      · rename_i st' t hs
        have hco := brStep_cnt_out o st st' tok (some t) hs
        have hpush : ∀ t', SidInv a { st' with out := (st.cnt, t') :: st'.out } := by
          intro t'
          have := sidInv_push a st st' t' hinv hco.1
          have e : st'.cnt = st.cnt + 1 := by simpa using hco.2
          rw [← e] at this; exact this
        split at h
        · split at h
          · cases h
          · split at h
            · exact ih _ _ r (hpush _) h
            · cases h
        · exact ih _ _ r (hpush _) h

end TT.Lemmas.Read
