/-
  Helper definitions and lemmas for C06 (grammar extraction).
-/
import TT.Spec.Grammar
namespace TT.Lemmas.Extract
open TT TT.Tree TT.Spec

/-- total count mass of a grammar -/
def Grammar.total (g : Grammar) : Nat := (g.entries.map fun e => e.2.2.2).sum
/-- total count mass of a lexicon -/
def Lexicon.total (l : Lexicon) : Nat := (l.flatMap fun (_, tags) => tags.map (·.2)).sum
/-- is the event a rule occurrence (as opposed to a lexicon occurrence) -/
def isRule : Event → Bool | .rule .. => true | .lex .. => false

end TT.Lemmas.Extract
