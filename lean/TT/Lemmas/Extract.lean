/-
  Helper definitions and lemmas for C06 (grammar extraction).
-/
import TT.Spec.Grammar
import TT.Lemmas.Sort
import TT.Lemmas.Nav
import TT.Lemmas.WF
import TT.Props.C16
namespace TT.Lemmas.Extract
open TT TT.Tree TT.Spec

/-- total count mass of a grammar -/
def Grammar.total (g : Grammar) : Nat := (g.entries.map fun e => e.2.2.2).sum
/-- total count mass of a lexicon -/
def Lexicon.total (l : Lexicon) : Nat := (l.flatMap fun (_, tags) => tags.map (·.2)).sum
/-- is the event a rule occurrence (as opposed to a lexicon occurrence) -/
def isRule : Event → Bool | .rule .. => true | .lex .. => false

/-! ### association lists -/

section AList
variable {κ ν : Type} [DecidableEq κ]

theorem get?_upsert_self (k : κ) (f : Option ν → ν) : ∀ l : AList κ ν,
    AList.get? k (AList.upsert k f l) = some (f (AList.get? k l))
  | [] => by simp [AList.upsert, AList.get?]
  | (a, v) :: r => by
    by_cases h : a = k
    · simp [AList.upsert, AList.get?, h]
    · have ih := get?_upsert_self k f r
      simp only [AList.get?] at ih
      simp [AList.upsert, AList.get?, h, ih]

theorem get?_upsert_other (k k' : κ) (f : Option ν → ν) (hk : k' ≠ k) : ∀ l : AList κ ν,
    AList.get? k' (AList.upsert k f l) = AList.get? k' l
  | [] => by simp [AList.upsert, AList.get?, Ne.symm hk]
  | (a, v) :: r => by
    by_cases h : a = k
    · subst h
      simp [AList.upsert, AList.get?, Ne.symm hk]
    · have ih := get?_upsert_other k k' f hk r
      simp only [AList.get?] at ih
      by_cases h' : a = k'
      · subst h'
        simp [AList.upsert, AList.get?, h]
      · simp [AList.upsert, AList.get?, h, h', ih]

/-- a weight on the values that grows by `n` at the updated key makes the total weight grow by `n` -/
theorem upsert_sum (w : ν → Nat) (k : κ) (f : Option ν → ν) (n : Nat)
    (h : ∀ o, w (f o) = (o.map w).getD 0 + n) : ∀ l : AList κ ν,
    ((AList.upsert k f l).map fun p => w p.2).sum = (l.map fun p => w p.2).sum + n
  | [] => by simp [AList.upsert, h]
  | (a, v) :: r => by
    by_cases h' : a = k
    · simp [AList.upsert, h', h]; omega
    · have ih := upsert_sum w k f n h r
      simp [AList.upsert, h', ih]; omega

end AList

theorem get?_nil {κ ν : Type} [DecidableEq κ] (k : κ) : AList.get? k ([] : AList κ ν) = none := rfl

/-! ### totals as nested weights -/

def vSum (vs : AList VertKey Nat) : Nat := (vs.map fun p => p.2).sum
def lSum (ls : AList Lin (AList VertKey Nat)) : Nat := (ls.map fun p => vSum p.2).sum

theorem sum_flatMap_nat {α β} (l : List α) (f : α → List β) (w : β → Nat) :
    ((l.flatMap f).map w).sum = (l.map fun a => ((f a).map w).sum).sum := by
  induction l with
  | nil => rfl
  | cons a l ih => simp [List.flatMap_cons, ih]

theorem Grammar.total_eq (g : Grammar) : Grammar.total g = (g.map fun p => lSum p.2).sum := by
  unfold Grammar.total Grammar.entries
  rw [sum_flatMap_nat]
  congr 1
  apply List.map_congr_left
  rintro ⟨f, ls⟩ _
  simp only [lSum]
  rw [sum_flatMap_nat]
  congr 1
  apply List.map_congr_left
  rintro ⟨l, vs⟩ _
  simp [vSum, List.map_map, Function.comp_def]

theorem Lexicon.total_eq (x : Lexicon) :
    Lexicon.total x = (x.map fun p => (p.2.map fun q => q.2).sum).sum := by
  unfold Lexicon.total
  have := sum_flatMap_nat x (fun p => p.2.map (·.2)) id
  simpa using this

theorem grammar_add_total (g : Grammar) (f : Func) (l : Lin) (v : VertKey) (n : Nat) :
    Grammar.total (g.add f l v n) = Grammar.total g + n := by
  rw [Grammar.total_eq, Grammar.total_eq]
  unfold Grammar.add
  refine upsert_sum lSum f _ n ?_ g
  intro o
  unfold lSum
  rw [upsert_sum vSum l _ n]
  · cases o <;> simp
  · intro o2
    unfold vSum
    refine (upsert_sum id v _ n ?_ _).trans ?_
    · intro o3; cases o3 <;> simp
    · cases o2 <;> simp

theorem lexicon_add_total (x : Lexicon) (w t : Str) (n : Nat) :
    Lexicon.total (x.add w t n) = Lexicon.total x + n := by
  rw [Lexicon.total_eq, Lexicon.total_eq]
  unfold Lexicon.add
  refine upsert_sum (fun tags => (tags.map fun q => q.2).sum) w _ n ?_ x
  intro o
  refine (upsert_sum id t _ n ?_ _).trans ?_
  · intro o2; cases o2 <;> simp
  · cases o <;> simp

/-! ### events -/

theorem eventsK_eq (ctx : List Str) : ∀ ks : List Tree,
    eventsK ctx ks = ks.map fun t => (leftmost t, events ctx t)
  | [] => by simp [eventsK]
  | t :: ts => by simp [eventsK, eventsK_eq ctx ts]

theorem events_leaf (ctx : List Str) (n : Nat) (f : Fields) :
    events ctx (leaf n f) = [.lex (f.word.getD []) f.label] := by
  simp [events]

theorem events_node (ctx : List Str) (f : Fields) (ks : List Tree) (h : ks ≠ []) :
    events ctx (node f ks) =
      .rule (funcOf (node f ks)) (linOf (node f ks)) (vertLabel (node f ks) :: ctx) ::
        (children (node f ks)).flatMap (events (vertLabel (node f ks) :: ctx)) := by
  have : ks.isEmpty = false := by cases ks <;> simp_all
  simp only [events, this, eventsK_eq, flattenSorted, children, kids, List.flatMap]
  rw [sortBy_map_keyed leftmost (events (vertLabel (node f ks) :: ctx)) ks]
  rfl

/-- counting events with a predicate, children in any order -/
theorem countP_events_node (p : Event → Bool) (ctx : List Str) (f : Fields) (ks : List Tree) (h : ks ≠ []) :
    (events ctx (node f ks)).countP p =
      (if p (.rule (funcOf (node f ks)) (linOf (node f ks)) (vertLabel (node f ks) :: ctx)) then 1 else 0) +
        (ks.map fun k => (events (vertLabel (node f ks) :: ctx) k).countP p).sum := by
  rw [events_node ctx f ks h, List.countP_cons]
  have hp : ((children (node f ks)).flatMap (events (vertLabel (node f ks) :: ctx))).Perm
      (ks.flatMap (events (vertLabel (node f ks) :: ctx))) :=
    (sortBy_perm leftmost ks).flatMap_right _
  rw [hp.countP_eq, List.countP_flatMap]
  simp only [Function.comp_def]
  omega

theorem events_rules_countP (t : Tree) : ∀ ctx : List Str, t.noEmpty = true →
    (events ctx t).countP isRule = (t.subtrees.countP fun s => !s.isLeaf) := by
  induction t using TT.Lemmas.WF.tree_ind with
  | hl n f => intro ctx _; simp [events_leaf, subtrees, isRule, isLeaf]
  | hn f ks ih =>
    intro ctx h
    obtain ⟨hne, hk⟩ := (TT.Lemmas.WF.noEmpty_node f ks).1 h
    rw [countP_events_node _ ctx f ks hne]
    have hl : (node f ks).isLeaf = false := rfl
    simp only [subtrees, TT.Lemmas.Nav.subtreesL_eq, List.countP_cons, List.countP_flatMap, isRule, hl,
      Function.comp_def]
    have : (ks.map fun k => (events (vertLabel (node f ks) :: ctx) k).countP isRule) =
        ks.map fun k => k.subtrees.countP fun s => !s.isLeaf :=
      List.map_congr_left fun k hkm => ih k hkm _ (hk k hkm)
    rw [this]
    simp
    omega

theorem events_lex_countP (t : Tree) : ∀ ctx : List Str, t.noEmpty = true →
    (events ctx t).countP (fun e => !isRule e) = t.leafNums.length := by
  induction t using TT.Lemmas.WF.tree_ind with
  | hl n f => intro ctx _; simp [events_leaf, TT.Lemmas.WF.leafNums_leaf, isRule]
  | hn f ks ih =>
    intro ctx h
    obtain ⟨hne, hk⟩ := (TT.Lemmas.WF.noEmpty_node f ks).1 h
    rw [countP_events_node _ ctx f ks hne, TT.Lemmas.WF.leafNums_node, List.length_flatMap]
    have : (ks.map fun k => (events (vertLabel (node f ks) :: ctx) k).countP fun e => !isRule e) =
        ks.map fun k => k.leafNums.length :=
      List.map_congr_left fun k hkm => ih k hkm _ (hk k hkm)
    rw [this]
    simp [isRule]

/-! ### folding events into the grammar -/

theorem foldl_applyEvent_total (evs : List Event) : ∀ st : Grammar × Lexicon,
    Grammar.total (evs.foldl applyEvent st).1 = Grammar.total st.1 + evs.countP isRule ∧
    Lexicon.total (evs.foldl applyEvent st).2 = Lexicon.total st.2 + evs.countP (fun e => !isRule e) := by
  induction evs with
  | nil => intro st; simp
  | cons e evs ih =>
    intro st
    simp only [List.foldl_cons]
    obtain ⟨h1, h2⟩ := ih (applyEvent st e)
    rw [h1, h2]
    cases e with
    | rule f l v =>
      exact ⟨by simp [applyEvent, isRule, grammar_add_total, List.countP_cons]; omega,
        by simp [applyEvent, isRule]⟩
    | lex w t =>
      exact ⟨by simp [applyEvent, isRule],
        by simp [applyEvent, isRule, lexicon_add_total]; omega⟩

/-! ### the linearization -/

theorem linOfBlocks_length (cs : List Tree) : ∀ (bs : List (List Nat)) (cnt : List Nat),
    (linOfBlocks cs cnt bs).length = bs.length
  | [], _ => rfl
  | b :: bs, cnt => by simp [linOfBlocks, linOfBlocks_length cs bs]

/-! ### colour segments: maximal runs of tokens covered by the same child -/

/-- split into maximal runs of equal colour -/
def cseg (col : Nat → Nat) : List Nat → List (List Nat)
  | [] => []
  | [a] => [[a]]
  | a :: b :: rest =>
    match cseg col (b :: rest) with
    | [] => [[a]]
    | s :: ss => if col a = col b then (a :: s) :: ss else [a] :: s :: ss

theorem cseg_cons (col : Nat → Nat) : ∀ (a : Nat) (l : List Nat), ∃ s ss, cseg col (a :: l) = (a :: s) :: ss
  | a, [] => ⟨[], [], rfl⟩
  | a, b :: rest => by
    obtain ⟨s, ss, h⟩ := cseg_cons col b rest
    simp only [cseg, h]
    split
    · exact ⟨_, _, rfl⟩
    · exact ⟨[], _, rfl⟩

theorem cseg_step (col : Nat → Nat) (a b : Nat) (rest s : List Nat) (ss : List (List Nat))
    (h : cseg col (b :: rest) = s :: ss) :
    cseg col (a :: b :: rest) = if col a = col b then (a :: s) :: ss else [a] :: s :: ss := by
  simp only [cseg, h]

theorem cseg_flatten (col : Nat → Nat) : ∀ l : List Nat, (cseg col l).flatten = l
  | [] => rfl
  | [a] => rfl
  | a :: b :: rest => by
    have ih := cseg_flatten col (b :: rest)
    obtain ⟨s, ss, h⟩ := cseg_cons col b rest
    rw [cseg_step col a b rest _ _ h]
    rw [h] at ih
    split
    · simp only [List.flatten_cons, List.cons_append] at ih ⊢
      rw [ih]
    · simp only [List.flatten_cons] at ih ⊢
      rw [ih]; rfl

/-- colour of a segment = colour of its first token -/
def colh (col : Nat → Nat) (s : List Nat) : Nat := col (s.headD 0)

theorem collapseAdj_map (col : Nat → Nat) : ∀ l : List Nat,
    collapseAdj (l.map col) = (cseg col l).map (colh col)
  | [] => rfl
  | [a] => rfl
  | a :: b :: rest => by
    have ih := collapseAdj_map col (b :: rest)
    obtain ⟨s, ss, h⟩ := cseg_cons col b rest
    rw [cseg_step col a b rest _ _ h]
    rw [h] at ih
    simp only [List.map_cons, collapseAdj] at ih ⊢
    split
    · rename_i hab
      rw [ih]
      simp [colh, hab]
    · rename_i hab
      rw [ih]
      simp [colh]

/-- all colour segments of all blocks, in order -/
def segs (col : Nat → Nat) (Y : List Nat) : List (List Nat) := (blocksOf Y).flatMap (cseg col)

theorem segs_cons (col : Nat → Nat) (a : Nat) (l : List Nat) : ∃ s ss, segs col (a :: l) = (a :: s) :: ss := by
  obtain ⟨blk, blks, h⟩ := TT.Props.C16.blocksOf_cons a l
  obtain ⟨s, ss, h'⟩ := cseg_cons col a blk
  exact ⟨s, ss ++ blks.flatMap (cseg col), by simp [segs, h, h']⟩

theorem segs_step (col : Nat → Nat) (a b : Nat) (rest s : List Nat) (ss : List (List Nat))
    (h : segs col (b :: rest) = s :: ss) :
    segs col (a :: b :: rest) = if a + 1 < b ∨ col a ≠ col b then [a] :: s :: ss else (a :: s) :: ss := by
  obtain ⟨blk, blks, hb⟩ := TT.Props.C16.blocksOf_cons b rest
  obtain ⟨s', ss', hc⟩ := cseg_cons col b blk
  have hs : s = b :: s' ∧ ss = ss' ++ blks.flatMap (cseg col) := by
    simp only [segs, hb, List.flatMap_cons, hc, List.cons_append, List.cons.injEq] at h
    exact ⟨h.1.symm, h.2.symm⟩
  obtain ⟨rfl, rfl⟩ := hs
  unfold segs
  rw [TT.Props.C16.blocksOf_step a b rest _ _ hb]
  by_cases hgap : a + 1 < b
  · simp [hgap, hc, cseg]
  · rw [if_neg hgap, List.flatMap_cons, cseg_step col a b blk _ _ hc]
    by_cases hab : col a = col b
    · simp [hgap, hab]
    · simp [hgap, hab]

theorem blocksOf_cons_gap (a : Nat) (L : List Nat) (h : ∀ c ∈ L.head?, a + 1 < c) :
    blocksOf (a :: L) = [a] :: blocksOf L := by
  cases L with
  | nil => rfl
  | cons c L' =>
    obtain ⟨blk, blks, hb⟩ := TT.Props.C16.blocksOf_cons c L'
    rw [TT.Props.C16.blocksOf_step a c L' _ _ hb, if_pos (h c (by simp)), hb]

/-- the segments of one colour are exactly the blocks of the tokens of that colour -/
theorem segs_filter (col : Nat → Nat) (i : Nat) : ∀ Y : List Nat, Y.Pairwise (· < ·) →
    (segs col Y).filter (fun s => colh col s == i) = blocksOf (Y.filter fun x => col x == i)
  | [], _ => rfl
  | [a], _ => by
    by_cases h : col a = i <;> simp [segs, blocksOf, cseg, colh, h]
  | a :: b :: rest, hs => by
    have hs' := List.pairwise_cons.1 hs
    have ih := segs_filter col i (b :: rest) hs'.2
    have hab : a < b := hs'.1 b List.mem_cons_self
    obtain ⟨s', ss, hsg⟩ := segs_cons col b rest
    rw [segs_step col a b rest _ _ hsg]
    rw [hsg] at ih
    have hcs : colh col (b :: s') = col b := rfl
    by_cases hai : col a = i
    · -- `a` has the colour
      have hfa : (a :: b :: rest).filter (fun x => col x == i) = a :: (b :: rest).filter (fun x => col x == i) := by
        simp [hai]
      rw [hfa]
      by_cases hbrk : a + 1 < b ∨ col a ≠ col b
      · rw [if_pos hbrk]
        have h1 : colh col [a] = i := hai
        rw [List.filter_cons_of_pos (by simp [h1]), ih]
        refine (blocksOf_cons_gap a _ ?_).symm
        intro c hc
        have hcm : c ∈ (b :: rest).filter (fun x => col x == i) := List.mem_of_mem_head? hc
        obtain ⟨hcm, hci⟩ := List.mem_filter.1 hcm
        have hci' : col c = i := by simpa using hci
        rcases List.mem_cons.1 hcm with hcb | hcr
        · rcases hbrk with h | h
          · omega
          · exact absurd (hai.trans (hcb ▸ hci').symm) h
        · have := (List.pairwise_cons.1 hs'.2).1 c hcr
          omega
      · rw [if_neg hbrk]
        have hbrk' : ¬ a + 1 < b ∧ col a = col b := by
          constructor
          · exact fun h => hbrk (Or.inl h)
          · exact Classical.byContradiction fun h => hbrk (Or.inr h)
        have hbi : col b = i := hbrk'.2 ▸ hai
        have h1 : colh col (a :: b :: s') = i := hai
        rw [List.filter_cons_of_pos (by simp [h1])]
        rw [List.filter_cons_of_pos (by simp [hcs, hbi])] at ih
        have hfb : (b :: rest).filter (fun x => col x == i) = b :: rest.filter (fun x => col x == i) := by
          simp [hbi]
        rw [hfb] at ih ⊢
        rw [TT.Props.C16.blocksOf_step a b _ _ _ ih.symm, if_neg hbrk'.1]
    · -- `a` has another colour
      have hfa : (a :: b :: rest).filter (fun x => col x == i) = (b :: rest).filter (fun x => col x == i) := by
        simp [hai]
      rw [hfa]
      by_cases hbrk : a + 1 < b ∨ col a ≠ col b
      · rw [if_pos hbrk]
        have h1 : ¬ colh col [a] = i := hai
        rw [List.filter_cons_of_neg (by simp [h1]), ih]
      · rw [if_neg hbrk]
        have hab' : col a = col b := Classical.byContradiction fun h => hbrk (Or.inr h)
        have h1 : ¬ colh col (a :: b :: s') = i := hai
        have h2 : ¬ col b = i := hab' ▸ hai
        rw [List.filter_cons_of_neg (by simp [h1])]
        rw [List.filter_cons_of_neg (by simp [hcs, h2])] at ih
        exact ih

/-! ### numbering the variables -/

theorem numberArgs_cons (cnt : List Nat) (p : Nat) (ps : List Nat) :
    numberArgs cnt (p :: ps) =
      (((p : Int), cnt[p]?.getD 0) :: (numberArgs (cnt.set p (cnt[p]?.getD 0 + 1)) ps).1,
        (numberArgs (cnt.set p (cnt[p]?.getD 0 + 1)) ps).2) := by
  simp [numberArgs]

theorem linOfBlocks_cons (cs : List Tree) (cnt : List Nat) (b : List Nat) (bs : List (List Nat)) :
    linOfBlocks cs cnt (b :: bs) =
      (numberArgs cnt (collapseAdj (b.map (coveringChild cs)))).1 ::
        linOfBlocks cs (numberArgs cnt (collapseAdj (b.map (coveringChild cs)))).2 bs := by
  simp [linOfBlocks]

theorem numberArgs_fst_map : ∀ (ps cnt : List Nat),
    (numberArgs cnt ps).1.map (·.1) = ps.map fun (p : Nat) => (p : Int)
  | [], _ => rfl
  | p :: ps, cnt => by simp [numberArgs_cons, numberArgs_fst_map ps]

theorem numberArgs_append : ∀ (ps qs cnt : List Nat),
    numberArgs cnt (ps ++ qs) =
      ((numberArgs cnt ps).1 ++ (numberArgs (numberArgs cnt ps).2 qs).1,
        (numberArgs (numberArgs cnt ps).2 qs).2)
  | [], _, _ => by simp [numberArgs]
  | p :: ps, qs, cnt => by
    simp only [List.cons_append, numberArgs_cons, numberArgs_append ps qs]

theorem linOfBlocks_flatten (cs : List Tree) : ∀ (bs : List (List Nat)) (cnt : List Nat),
    (linOfBlocks cs cnt bs).flatten =
      (numberArgs cnt (bs.flatMap fun b => collapseAdj (b.map (coveringChild cs)))).1
  | [], _ => by simp [linOfBlocks, numberArgs]
  | b :: bs, cnt => by
    simp only [linOfBlocks_cons, List.flatten_cons, List.flatMap_cons, numberArgs_append,
      linOfBlocks_flatten cs bs]

/-- the variables of RHS element `i` are numbered consecutively -/
theorem numberArgs_filter (i : Nat) : ∀ (ps cnt : List Nat), i < cnt.length →
    ((numberArgs cnt ps).1.filter fun x => x.1 == (i : Int)).map (·.2) =
      List.range' (cnt[i]?.getD 0) (ps.count i)
  | [], _, _ => by simp [numberArgs]
  | p :: ps, cnt, hi => by
    rw [numberArgs_cons]
    have ih := numberArgs_filter i ps (cnt.set p (cnt[p]?.getD 0 + 1)) (by simpa using hi)
    by_cases hp : p = i
    · subst hp
      rw [List.filter_cons_of_pos (by simp), List.map_cons, ih]
      simp [List.getElem?_set_self hi, List.range'_succ]
    · have hp' : ¬ ((p : Int) = (i : Int)) := by omega
      rw [List.filter_cons_of_neg (by simpa using hp'), ih]
      rw [List.getElem?_set_ne hp, List.count_cons_of_ne hp]

theorem mem_collapseAdj : ∀ (l : List Nat) (x : Nat), x ∈ collapseAdj l → x ∈ l
  | [], _, h => by simp [collapseAdj] at h
  | [a], _, h => by simpa [collapseAdj] using h
  | a :: b :: r, x, h => by
    simp only [collapseAdj] at h
    split at h
    · exact List.mem_cons_of_mem _ (mem_collapseAdj (b :: r) x h)
    · rcases List.mem_cons.1 h with rfl | h
      · exact List.mem_cons_self
      · exact List.mem_cons_of_mem _ (mem_collapseAdj (b :: r) x h)

theorem collapseAdj_cons : ∀ (a : Nat) (l : List Nat), ∃ r, collapseAdj (a :: l) = a :: r
  | a, [] => ⟨[], rfl⟩
  | a, b :: l => by
    simp only [collapseAdj]
    split
    · rename_i h; subst h; exact collapseAdj_cons a l
    · exact ⟨_, rfl⟩

/-- no two adjacent equal entries -/
def noAdj : List Nat → Bool
  | a :: b :: r => a != b && noAdj (b :: r)
  | _ => true

theorem collapseAdj_noAdj : ∀ l : List Nat, noAdj (collapseAdj l) = true
  | [] => rfl
  | [a] => rfl
  | a :: b :: r => by
    have ih := collapseAdj_noAdj (b :: r)
    simp only [collapseAdj]
    split
    · exact ih
    · rename_i hab
      obtain ⟨r', hr⟩ := collapseAdj_cons b r
      rw [hr] at ih ⊢
      simp [noAdj, hab, ih]

theorem numberArgs_adj : ∀ (ps cnt : List Nat), noAdj ps = true →
    ((numberArgs cnt ps).1.zip ((numberArgs cnt ps).1.drop 1)).all (fun (a, b) => a.1 != b.1) = true
  | [], _, _ => by simp [numberArgs]
  | [p], _, _ => by simp [numberArgs]
  | p :: q :: r, cnt, h => by
    simp only [noAdj, Bool.and_eq_true, bne_iff_ne, ne_eq] at h
    have ih := numberArgs_adj (q :: r) (cnt.set p (cnt[p]?.getD 0 + 1)) h.2
    rw [numberArgs_cons]
    rw [numberArgs_cons] at ih ⊢
    simp only [List.drop_succ_cons, List.drop_zero, List.zip_cons_cons, List.all_cons, Bool.and_eq_true,
      bne_iff_ne, ne_eq] at ih ⊢
    refine ⟨?_, ih⟩
    have := h.1
    omega

theorem mem_linOfBlocks (cs : List Tree) : ∀ (bs : List (List Nat)) (cnt : List Nat),
    ∀ arg ∈ linOfBlocks cs cnt bs, ∃ cnt' b, b ∈ bs ∧
      arg = (numberArgs cnt' (collapseAdj (b.map (coveringChild cs)))).1
  | [], _, arg, h => by simp [linOfBlocks] at h
  | b :: bs, cnt, arg, h => by
    rw [linOfBlocks_cons] at h
    rcases List.mem_cons.1 h with rfl | h
    · exact ⟨cnt, b, List.mem_cons_self, rfl⟩
    · obtain ⟨cnt', b', hb', he⟩ := mem_linOfBlocks cs bs _ arg h
      exact ⟨cnt', b', List.mem_cons_of_mem _ hb', he⟩

/-! ### the covering child -/

theorem coveringChild_spec (cs : List Tree) (n : Nat) (h : ∃ c ∈ cs, n ∈ c.leafNums) :
    ∃ c, cs[coveringChild cs n]? = some c ∧ n ∈ c.leafNums := by
  obtain ⟨c0, hc0, hn0⟩ := h
  obtain ⟨i0, hi0⟩ := List.getElem?_of_mem hc0
  have hne : (cs.zipIdx.filter fun (c, _) => c.leafNums.contains n) ≠ [] := by
    refine List.ne_nil_of_mem (a := (c0, i0)) (List.mem_filter.2 ⟨?_, by simpa using hn0⟩)
    exact List.mem_zipIdx_iff_getElem?.2 hi0
  have hlast := List.getLast_mem hne
  obtain ⟨hz, hcont⟩ := List.mem_filter.1 hlast
  unfold coveringChild
  rw [List.getLast?_eq_some_getLast hne]
  generalize (cs.zipIdx.filter fun (c, _) => c.leafNums.contains n).getLast hne = x at hz hcont
  obtain ⟨c, j⟩ := x
  exact ⟨c, by simpa using List.mem_zipIdx_iff_getElem?.1 hz, by simpa using hcont⟩

theorem flatMap_nodup_index {α β} (f : α → List β) : ∀ (l : List α), (l.flatMap f).Nodup →
    ∀ (i j : Nat) (a b : α) (x : β), l[i]? = some a → l[j]? = some b → x ∈ f a → x ∈ f b → i = j
  | [], _, i, _, _, _, _, hi, _, _, _ => by simp at hi
  | y :: l, hn, i, j, a, b, x, hi, hj, ha, hb => by
    simp only [List.flatMap_cons, List.nodup_append] at hn
    obtain ⟨_, hn2, hdis⟩ := hn
    cases i with
    | zero =>
      cases j with
      | zero => rfl
      | succ j =>
        simp only [List.getElem?_cons_zero, Option.some.injEq, List.getElem?_cons_succ] at hi hj
        subst hi
        exact absurd rfl (hdis x ha x (List.mem_flatMap.2 ⟨b, List.mem_of_getElem? hj, hb⟩))
    | succ i =>
      cases j with
      | zero =>
        simp only [List.getElem?_cons_zero, Option.some.injEq, List.getElem?_cons_succ] at hi hj
        subst hj
        exact absurd rfl (hdis x hb x (List.mem_flatMap.2 ⟨a, List.mem_of_getElem? hi, ha⟩))
      | succ j =>
        simp only [List.getElem?_cons_succ] at hi hj
        rw [flatMap_nodup_index f l hn2 i j a b x hi hj ha hb]

/-- with pairwise disjoint children, the covering child of a token is the child containing it -/
theorem coveringChild_eq (cs : List Tree) (hnd : (cs.flatMap leafNums).Nodup) (i : Nat) (c : Tree)
    (hc : cs[i]? = some c) (n : Nat) (hn : n ∈ c.leafNums) : coveringChild cs n = i := by
  obtain ⟨c', hc', hn'⟩ := coveringChild_spec cs n ⟨c, List.mem_of_getElem? hc, hn⟩
  exact flatMap_nodup_index leafNums cs hnd _ _ c' c n hc' hc hn' hn

/-- the tokens of the node covered by child `i` are the tokens of child `i` -/
theorem filter_coveringChild (cs : List Tree) (hnd : (cs.flatMap leafNums).Nodup) (Y : List Nat)
    (hY : Y.Pairwise (· < ·)) (hmem : ∀ n, n ∈ Y ↔ ∃ c ∈ cs, n ∈ c.leafNums) (i : Nat) (c : Tree)
    (hc : cs[i]? = some c) : (Y.filter fun x => coveringChild cs x == i) = c.yield := by
  have hcn : c.leafNums.Nodup :=
    (List.sublist_flatten_of_mem (List.mem_map_of_mem (f := leafNums) (List.mem_of_getElem? hc))).nodup hnd
  have hcy : (yield c).Pairwise (· < ·) := TT.Props.C16.yield_strictInc c hcn
  have hfy : (Y.filter fun x => coveringChild cs x == i).Pairwise (· < ·) := hY.filter _
  refine List.Perm.eq_of_pairwise (le := (· < ·)) ?_ hfy hcy ?_
  · intro a b _ _ h1 h2; omega
  · refine (List.perm_ext_iff_of_nodup (hfy.imp (fun h => Nat.ne_of_lt h)) (hcy.imp (fun h => Nat.ne_of_lt h))).2 ?_
    intro n
    rw [List.mem_filter, TT.Lemmas.WF.mem_yield, hmem]
    constructor
    · rintro ⟨hex, hcov⟩
      obtain ⟨c', hc', hn'⟩ := coveringChild_spec cs n hex
      rw [show coveringChild cs n = i by simpa using hcov, hc] at hc'
      cases hc'
      exact hn'
    · intro hn
      exact ⟨⟨c, List.mem_of_getElem? hc, hn⟩, by simpa using coveringChild_eq cs hnd i c hc n hn⟩

/-! ### instantiating the extracted linearization -/

/-- looking up variable `(p, j)` in the blocks of the RHS elements -/
def lookupVar {α} (args : List (List (List α))) (p : Int × Nat) : Option (List α) :=
  (args[p.1.toNat]?).bind (·[p.2]?)

theorem instLin_eq {α} (lin : Lin) (args : List (List (List α))) :
    instLin lin args = lin.mapM fun arg => (arg.mapM (lookupVar args)).map List.flatten := rfl

/-- numbering a sequence of segments, the counters recording how many segments of each colour came before,
    picks exactly these segments from the per-colour segment lists -/
theorem numberArgs_lookup (col : Nat → Nat) (args : List (List (List Nat))) (n : Nat) (rest : List (List Nat)) :
    ∀ (ss pre : List (List Nat)) (cnt : List Nat), cnt.length = n →
    (∀ i, i < n → cnt[i]?.getD 0 = (pre.filter fun s => colh col s == i).length) →
    (∀ i, i < n → args[i]? = some ((pre ++ ss ++ rest).filter fun s => colh col s == i)) →
    (∀ s ∈ ss, colh col s < n) →
    (numberArgs cnt (ss.map (colh col))).1.mapM (lookupVar args) = some ss ∧
    (numberArgs cnt (ss.map (colh col))).2.length = n ∧
    ∀ i, i < n → (numberArgs cnt (ss.map (colh col))).2[i]?.getD 0 =
      ((pre ++ ss).filter fun s => colh col s == i).length
  | [], pre, cnt, hlen, hcnt, _, _ => by
    simp only [List.map_nil, numberArgs, List.append_nil]
    exact ⟨rfl, hlen, hcnt⟩
  | s :: ss, pre, cnt, hlen, hcnt, hargs, hlt => by
    have hp : colh col s < n := hlt s List.mem_cons_self
    have hc := hcnt _ hp
    obtain ⟨ih1, ih2, ih3⟩ := numberArgs_lookup col args n rest ss (pre ++ [s])
      (cnt.set (colh col s) (cnt[colh col s]?.getD 0 + 1)) (by simpa using hlen)
      (by
        intro i hi
        by_cases hpi : colh col s = i
        · subst hpi
          rw [List.getElem?_set_self (by omega)]
          simp [List.filter_append, hc]
        · rw [List.getElem?_set_ne hpi, hcnt i hi]
          simp [List.filter_append, hpi])
      (by
        intro i hi
        rw [hargs i hi]
        simp [List.append_assoc])
      (fun s' hs' => hlt s' (List.mem_cons_of_mem _ hs'))
    rw [List.map_cons, numberArgs_cons]
    refine ⟨?_, ih2, ?_⟩
    · have hl : lookupVar args ((colh col s : Nat), cnt[colh col s]?.getD 0) = some s := by
        simp only [lookupVar, Int.toNat_natCast, hargs _ hp, Option.bind_some, hc]
        simp [List.filter_append]
      simp only [List.mapM_cons, hl, ih1]
      rfl
    · intro i hi
      rw [ih3 i hi]
      simp [List.append_assoc]

/-- block level: with counters matching the segments `pre` already consumed -/
theorem instLin_linOfBlocks (cs : List Tree) (args : List (List (List Nat))) (n : Nat) :
    ∀ (bs : List (List Nat)) (pre : List (List Nat)) (cnt : List Nat), cnt.length = n →
    (∀ i, i < n → cnt[i]?.getD 0 = (pre.filter fun s => colh (coveringChild cs) s == i).length) →
    (∀ i, i < n → args[i]? =
      some ((pre ++ bs.flatMap (cseg (coveringChild cs))).filter fun s => colh (coveringChild cs) s == i)) →
    (∀ b ∈ bs, ∀ x ∈ b, coveringChild cs x < n) →
    instLin (linOfBlocks cs cnt bs) args = some bs
  | [], _, _, _, _, _, _ => by simp [linOfBlocks, instLin]
  | b :: bs, pre, cnt, hlen, hcnt, hargs, hlt => by
    have hss : ∀ s ∈ cseg (coveringChild cs) b, colh (coveringChild cs) s < n := by
      intro s hs
      have h1 : colh (coveringChild cs) s ∈ collapseAdj (b.map (coveringChild cs)) := by
        rw [collapseAdj_map]; exact List.mem_map_of_mem hs
      obtain ⟨x, hx, hxe⟩ := List.mem_map.1 (mem_collapseAdj _ _ h1)
      rw [← hxe]
      exact hlt b List.mem_cons_self x hx
    obtain ⟨h1, h2, h3⟩ := numberArgs_lookup (coveringChild cs) args n (bs.flatMap (cseg (coveringChild cs)))
      (cseg (coveringChild cs) b) pre cnt hlen hcnt
      (by intro i hi; rw [hargs i hi]; simp [List.append_assoc]) hss
    have ih := instLin_linOfBlocks cs args n bs (pre ++ cseg (coveringChild cs) b)
      (numberArgs cnt ((cseg (coveringChild cs) b).map (colh (coveringChild cs)))).2 h2 h3
      (by intro i hi; rw [hargs i hi]; simp [List.append_assoc])
      (fun b' hb' => hlt b' (List.mem_cons_of_mem _ hb'))
    rw [linOfBlocks_cons, collapseAdj_map, instLin_eq, List.mapM_cons, h1]
    rw [instLin_eq] at ih
    rw [ih]
    simp [cseg_flatten]

/-! ### well-formedness of the extracted linearization -/

theorem numberArgs_ne_nil (cnt : List Nat) (ps : List Nat) (h : ps ≠ []) : (numberArgs cnt ps).1 ≠ [] := by
  cases ps with
  | nil => exact absurd rfl h
  | cons p ps => rw [numberArgs_cons]; simp

theorem wfLin_linOfBlocks (cs : List Tree) (bs : List (List Nat)) (fanouts : List Nat)
    (hlen : fanouts.length = cs.length) (hbs : ∀ b ∈ bs, b ≠ [])
    (hlt : ∀ b ∈ bs, ∀ x ∈ b, coveringChild cs x < cs.length)
    (hcount : ∀ i, i < cs.length →
      (bs.flatMap fun b => collapseAdj (b.map (coveringChild cs))).count i = fanouts[i]?.getD 0) :
    wfLin (linOfBlocks cs (List.replicate cs.length 0) bs) fanouts = true := by
  unfold wfLin
  simp only [Bool.and_eq_true, List.all_eq_true]
  refine ⟨⟨?_, ?_⟩, ?_⟩
  · rintro ⟨i, j⟩ hv
    rw [linOfBlocks_flatten] at hv
    have hi : i ∈ (numberArgs (List.replicate cs.length 0)
        (bs.flatMap fun b => collapseAdj (b.map (coveringChild cs)))).1.map (·.1) :=
      List.mem_map.2 ⟨(i, j), hv, rfl⟩
    rw [numberArgs_fst_map] at hi
    obtain ⟨p, hp, rfl⟩ := List.mem_map.1 hi
    obtain ⟨b, hb, hpb⟩ := List.mem_flatMap.1 hp
    obtain ⟨x, hx, rfl⟩ := List.mem_map.1 (mem_collapseAdj _ _ hpb)
    have := hlt b hb x hx
    simp only [decide_eq_true_eq]
    omega
  · intro i hi
    rw [List.mem_range, hlen] at hi
    rw [linOfBlocks_flatten]
    have h := numberArgs_filter i (bs.flatMap fun b => collapseAdj (b.map (coveringChild cs)))
      (List.replicate cs.length 0) (by simpa using hi)
    rw [hcount i hi] at h
    simp only [beq_iff_eq]
    rw [h, List.range_eq_range']
    simp [hi]
  · intro arg harg
    obtain ⟨cnt', b, hb, rfl⟩ := mem_linOfBlocks cs bs _ arg harg
    refine ⟨?_, fun x hx => List.all_eq_true.1 (numberArgs_adj _ _ (collapseAdj_noAdj _)) x hx⟩
    have hne : collapseAdj (b.map (coveringChild cs)) ≠ [] := by
      cases b with
      | nil => exact absurd rfl (hbs _ hb)
      | cons x b' =>
        obtain ⟨r, hr⟩ := collapseAdj_cons (coveringChild cs x) (b'.map (coveringChild cs))
        rw [List.map_cons, hr]; simp
    have := numberArgs_ne_nil cnt' _ hne
    simpa using this

/-- the heart of C06: instantiating the extracted linearization with the children's blocks gives the node's
    blocks (childless children contribute no token, no block and no variable, so `noEmpty` is not needed) -/
theorem nodeRuleOK_linOf (f : Fields) (ks : List Tree)
    (hn : (node f ks).leafNums.Nodup) : nodeRuleOK (node f ks) (linOf (node f ks)) = true := by
  have hcs_eq : sortBy minLeaf ks = sortBy leftmost ks :=
    sortBy_congr _ _ _ (fun a _ => (TT.Lemmas.Nav.leftmost_eq_minLeaf a).symm)
  have hnd : ((sortBy leftmost ks).flatMap leafNums).Nodup := by
    rw [TT.Lemmas.WF.leafNums_node] at hn
    exact ((sortBy_perm leftmost ks).flatMap_right leafNums).symm.nodup hn
  have hY := TT.Props.C16.yield_strictInc (node f ks) hn
  have hmem : ∀ n, n ∈ yield (node f ks) ↔ ∃ c ∈ sortBy leftmost ks, n ∈ c.leafNums := by
    intro n
    rw [TT.Lemmas.WF.mem_yield, TT.Lemmas.WF.leafNums_node, List.mem_flatMap]
    constructor
    · rintro ⟨c, hc, h⟩; exact ⟨c, (mem_sortBy _ _ _).2 hc, h⟩
    · rintro ⟨c, hc, h⟩; exact ⟨c, (mem_sortBy _ _ _).1 hc, h⟩
  have hcov : ∀ x ∈ yield (node f ks),
      coveringChild (sortBy leftmost ks) x < (sortBy leftmost ks).length := by
    intro x hx
    obtain ⟨c, hc, _⟩ := coveringChild_spec _ x ((hmem x).1 hx)
    exact (List.getElem?_eq_some_iff.1 hc).1
  have hblk : ∀ b ∈ blocks (node f ks), ∀ x ∈ b, x ∈ yield (node f ks) := by
    intro b hb x hx
    rw [← TT.Props.C16.blocks_partition]
    exact List.mem_flatten.2 ⟨b, hb, hx⟩
  have hseg : ∀ i c, (sortBy leftmost ks)[i]? = some c →
      (segs (coveringChild (sortBy leftmost ks)) (yield (node f ks))).filter
        (fun s => colh (coveringChild (sortBy leftmost ks)) s == i) = c.blocks := by
    intro i c hc
    rw [segs_filter _ _ _ hY, filter_coveringChild _ hnd _ hY hmem i c hc]
    rfl
  unfold nodeRuleOK linOf
  simp only [kids, hcs_eq, Bool.and_eq_true, beq_iff_eq]
  constructor
  · refine wfLin_linOfBlocks _ _ _ (by simp) (TT.Props.C16.blocksOf_ne_nil _)
      (fun b hb x hx => hcov x (hblk b hb x hx)) ?_
    intro i hi
    have hP : ((node f ks).blocks.flatMap fun b => collapseAdj (b.map (coveringChild (sortBy leftmost ks)))) =
        (segs (coveringChild (sortBy leftmost ks)) (yield (node f ks))).map
          (colh (coveringChild (sortBy leftmost ks))) := by
      simp only [collapseAdj_map, segs, List.map_flatMap, blocks]
    rw [hP, List.count_eq_countP, List.countP_map, List.countP_eq_length_filter]
    have hc : (sortBy leftmost ks)[i]? = some (sortBy leftmost ks)[i] := List.getElem?_eq_getElem hi
    have := hseg i _ hc
    simp only [Function.comp_def]
    rw [this]
    simp [hc]
  · refine instLin_linOfBlocks _ _ (sortBy leftmost ks).length _ [] _ (by simp) (by intro i hi; simp [hi]) ?_
      (fun b hb x hx => hcov x (hblk b hb x hx))
    intro i hi
    have hc : (sortBy leftmost ks)[i]? = some (sortBy leftmost ks)[i] := List.getElem?_eq_getElem hi
    have := hseg i _ hc
    simp only [segs, blocks] at this
    simp only [List.nil_append, List.getElem?_map, hc, Option.map_some, blocks]
    rw [this]

end TT.Lemmas.Extract
