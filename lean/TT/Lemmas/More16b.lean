/-
  Helper lemmas of wave 16 (tag w16b): the linearization extracted at a node of a continuous tree is the identity
  linearization `idLin`; the optimal reordering of identity linearizations keeps context-freeness (ranks up to `optBound`,
  by a computed table).
-/
import TT.Lemmas.More15b
import TT.Lemmas.More12a
import TT.Lemmas.Analysis
namespace TT.Lemmas.More16b
open TT TT.Spec TT.Tree TT.Lemmas.GramBin TT.Lemmas.More12c TT.Lemmas.WF
open TT.Lemmas.Trans (Good)
open TT.Lemmas.More12b TT.Lemmas.More15b
open TT.Lemmas.Unbin (reorder_length)

/-! ### subtrees of a good tree are good -/

theorem Good.sub {t : Tree} (h : Good t) : ∀ s ∈ t.subtrees, Good s := by
  induction t using tree_ind with
  | hl n f => intro s hs; simp only [subtrees, List.mem_singleton] at hs; rw [hs]; exact h
  | hn f ks ih =>
    intro s hs
    rcases (mem_subtrees_node f ks s).1 hs with rfl | ⟨k, hk, hsk⟩
    · exact h
    · exact ih k hk (h.kid hk) s hsk

/-- a good tree has one block: its yield -/
theorem Good.blocks {t : Tree} (h : Good t) : t.blocks = [t.yield] := by
  have hi := TT.Lemmas.Trans.yield_interval t h.2.1 (TT.Lemmas.Trans.continuous_gap t h.2.2)
  have hne := noEmpty_leafNums_ne_nil t h.1
  unfold Tree.blocks
  rw [hi]
  cases hl : t.leafNums.length with
  | zero => exact absurd (List.length_eq_zero_iff.1 hl) hne
  | succ n => exact TT.Lemmas.Boyd.blocksOf_range' n _

/-! ### the identity linearization -/

theorem idLin_flatten (n : Nat) : (idLin n).flatten = (List.range n).map fun (i : Nat) => ((i : Int), 0) := by
  simp [idLin]

theorem filter_range_eq (n i : Nat) (h : i < n) :
    (((List.range n).map fun (k : Nat) => ((k : Int), (0 : Nat))).filter fun (x, _) => x == (i : Int)) = [((i : Int), 0)] := by
  induction n with
  | zero => omega
  | succ n ih =>
    rw [List.range_succ, List.map_append, List.filter_append]
    by_cases hi : i < n
    · rw [ih hi]
      have : ((n : Int) == (i : Int)) = false := by simp; omega
      simp [this]
    · have hin : i = n := by omega
      subst hin
      have : (((List.range i).map fun (k : Nat) => ((k : Int), (0 : Nat))).filter fun (x, _) => x == (i : Int)) = [] := by
        rw [List.filter_eq_nil_iff]
        intro p hp
        obtain ⟨k, hk, rfl⟩ := List.mem_map.1 hp
        have := List.mem_range.1 hk
        simp; omega
      rw [this]; simp

theorem adjacent_ne (n : Nat) : ∀ a : Nat,
    (((List.range' a n).map fun (k : Nat) => ((k : Int), (0 : Nat))).zip
      (((List.range' a n).map fun (k : Nat) => ((k : Int), (0 : Nat))).drop 1)).all (fun (x, y) => x.1 != y.1) = true := by
  induction n with
  | zero => intro a; rfl
  | succ n ih =>
    intro a
    cases n with
    | zero => rfl
    | succ m =>
      have := ih (a + 1)
      simp only [List.range'_succ, List.map_cons, List.drop_succ_cons, List.drop_zero, List.zip_cons_cons, List.all_cons] at this ⊢
      rw [Bool.and_eq_true]
      refine ⟨by simp; omega, this⟩

theorem wfLin_idLin (n : Nat) (hn : 0 < n) (fo : List Nat) (hl : fo.length = n) (h1 : ∀ x ∈ fo, x = 1) :
    wfLin (idLin n) fo = true := by
  unfold wfLin
  simp only [idLin_flatten, hl]
  rw [Bool.and_eq_true, Bool.and_eq_true]
  refine ⟨⟨?_, ?_⟩, ?_⟩
  · rw [List.all_eq_true]
    intro p hp
    obtain ⟨k, hk, rfl⟩ := List.mem_map.1 hp
    have := List.mem_range.1 hk
    simp; omega
  · rw [List.all_eq_true]
    intro i hi
    have hi' := List.mem_range.1 hi
    rw [filter_range_eq n i hi']
    have : fo[i]?.getD 0 = 1 := by
      have hlt : i < fo.length := by omega
      rw [List.getElem?_eq_getElem hlt]
      exact h1 _ (List.getElem_mem hlt)
    rw [this]; rfl
  · simp only [idLin, List.all_cons, List.all_nil, Bool.and_true]
    rw [Bool.and_eq_true]
    refine ⟨?_, ?_⟩
    · cases n with
      | zero => omega
      | succ m => simp [List.range_succ]
    · have := adjacent_ne n 0
      rwa [← List.range_eq_range'] at this

theorem omap_look_id {α} (xs : List (List α)) : ∀ (pre : List (List (List α))),
    omap (look (pre ++ xs.map fun x => [x])) ((List.range' pre.length xs.length).map fun (i : Nat) => ((i : Int), 0)) = some xs := by
  induction xs with
  | nil => intro pre; rfl
  | cons x xs ih =>
    intro pre
    have := ih (pre ++ [[x]])
    simp only [List.length_append, List.length_cons, List.length_nil, List.append_assoc, List.cons_append, List.nil_append] at this
    simp only [List.length_cons, List.range'_succ, List.map_cons, omap]
    rw [this]
    have : look (pre ++ [x] :: xs.map fun x => [x]) ((pre.length : Int), 0) = some x := by
      simp [look]
    rw [this]

theorem instLin_idLin {α} (xs : List (List α)) :
    instLin (idLin xs.length) (xs.map fun x => [x]) = some [xs.flatten] := by
  rw [instLin_eq]
  have := omap_look_id xs []
  simp only [List.nil_append, List.length_nil, ← List.range_eq_range'] at this
  simp only [idLin, omap, evalArg, this, Option.map_some]

/-! ### the linearization extracted at a constituent of a continuous tree -/

/-- at a constituent of a well-formed continuous tree the extracted linearization is the identity linearization -/
theorem linOf_idLin (f : Fields) (ks : List Tree) (hg : Good (node f ks)) :
    linOf (node f ks) = idLin ks.length := by
  symm
  apply TT.Lemmas.More12a.nodeRuleOK_unique f ks hg.2.1
  have hsort : sortBy minLeaf ks = sortBy leftmost ks := by
    congr 1; funext t; exact (TT.Lemmas.Nav.leftmost_eq_minLeaf t).symm
  have hmem : ∀ c ∈ sortBy leftmost ks, Good c := fun c hc => hg.kid ((mem_sortBy leftmost ks c).1 hc)
  have hb : (sortBy leftmost ks).map Tree.blocks = ((sortBy leftmost ks).map yield).map fun x => [x] := by
    rw [List.map_map]
    apply List.map_congr_left
    intro c hc
    exact Good.blocks (hmem c hc)
  have hlen : ((sortBy leftmost ks).map yield).length = ks.length := by rw [List.length_map, sortBy_length]
  unfold nodeRuleOK
  simp only [kids, hsort]
  rw [Bool.and_eq_true]
  refine ⟨?_, ?_⟩
  · apply wfLin_idLin
    · have := hg.ne_nil
      cases ks with
      | nil => exact absurd rfl this
      | cons a b => simp
    · rw [List.length_map, sortBy_length]
    · intro x hx
      obtain ⟨c, hc, rfl⟩ := List.mem_map.1 hx
      rw [Good.blocks (hmem c hc)]; rfl
  · rw [hb, ← hlen, instLin_idLin, Good.blocks hg, TT.Lemmas.Analysis.yield_node_cont f ks hg, List.flatMap_def]
    simp

/-! ### the optimal reordering of identity linearizations, ranks up to `optBound` -/

/-- the linearization the optimal reordering makes of `idLin n` (it depends on the rank only, not on the labels) -/
def optLin (n : Nat) : Lin := (reorderingOptimal (List.replicate (n + 1) []) (idLin n)).2

theorem reorderingOptimal_snd_len (f f' : Func) (l : Lin) (h : f.length = f'.length) :
    (reorderingOptimal f l).2 = (reorderingOptimal f' l).2 := by
  rw [TT.Lemmas.More12c.reorderingOptimal_snd, TT.Lemmas.More12c.reorderingOptimal_snd, h]

def optBound : Nat := 24

/-- the table: for every rank up to `optBound`, the reordered identity linearization and all linearizations of its
    left-to-right chain have one argument -/
theorem optLin_table : ∀ n, n ≤ optBound → (optLin n).length ≤ 1 ∧ ∀ x ∈ chainLins (optLin n) (n - 2), x.length ≤ 1 := by
  have : ((List.range (optBound + 1)).all fun n =>
      decide ((optLin n).length ≤ 1) && (chainLins (optLin n) (n - 2)).all fun x => decide (x.length ≤ 1)) = true := by
    decide +kernel
  intro n hn
  have := (List.all_eq_true.1 this) n (List.mem_range.2 (by omega))
  simp only [Bool.and_eq_true, decide_eq_true_eq, List.all_eq_true] at this
  exact this

theorem binarizeGrammar_cf_optimal_bounded (mo : Option MarkovOpts) (g : Grammar)
    (hp : AllPairs Proper g) (hid : AllPairs (fun f l => l = idLin (f.length - 1)) g)
    (hb : AllPairs (fun f _ => f.length - 1 ≤ optBound) g) :
    isContextFree (binarizeGrammar .optimal mo g) = true := by
  rw [isContextFree_iff]
  apply binarizeGrammar_allPairs
  intro j hj st x hx
  obtain ⟨f, l, ⟨hP, hI, hB⟩, h1, h2⟩ := jobs_pair (fun f l => Proper f l ∧ l = idLin (f.length - 1) ∧ f.length - 1 ≤ optBound)
    .optimal mo g (fun e he le hle => ⟨hp e he le hle, hid e he le hle, hb e he le hle⟩) j hj
  have hne : f ≠ [] := by intro e0; have := hP.1; rw [e0] at this; simp at this
  have hlen : j.1.length = f.length := by rw [h1]; exact reorder_length .optimal f l hne
  have hl : j.2.1 = optLin (f.length - 1) := by
    rw [h2, hI]
    show (reorderingOptimal f _).2 = _
    unfold optLin
    apply reorderingOptimal_snd_len
    have := hP.1
    rw [List.length_replicate]; omega
  obtain ⟨t1, t2⟩ := optLin_table (f.length - 1) hB
  unfold jobAdds at hx
  split at hx
  · simp only [List.mem_singleton] at hx
    subst hx
    show j.2.1.length ≤ 1
    rw [hl]; exact t1
  · obtain ⟨y, hy, rfl⟩ := List.mem_map.1 hx
    have hmem : y.2 ∈ chainLins j.2.1 (j.1.length - 3) := by
      rw [← chainG_lins j.1 (labelOf mo st j.1 j.2.2.2 (fanOut j.2.1)) (j.1.length - 3) 0 (j.1[0]?.getD []) j.2.1]
      exact List.mem_map.2 ⟨y, hy, rfl⟩
    show y.2.length ≤ 1
    rw [hl, hlen, show f.length - 3 = f.length - 1 - 2 by omega] at hmem
    exact t2 _ hmem

end TT.Lemmas.More16b
