/-
  Helper lemmas, wave 12 (C01 readers): the export reader against the independent decoder `decExport`
  on arbitrary accepted files; well-formedness of what the readers deliver; reader options as post-processing.
-/
import TT.Lemmas.ExportRT
import TT.Lemmas.More8
import TT.Lemmas.OwnRT
import TT.Lemmas.Layout
import TT.Spec.More12h
namespace TT.Lemmas.More12h
open TT TT.Tree TT.Spec
open TT.Lemmas.ExportRT TT.Lemmas.WF TT.Lemmas.Nav TT.Lemmas.GramOut

/-! ### export: the reader against the independent decoder -/

/-- a decoded line as the reader's record -/
def toF (e : ExpNode) : ExpFields :=
  { word := e.word, lemma := e.lemma, label := e.label, morph := e.morph, edge := e.edge, parent := e.parent }

def isC (e : ExpNode) : Bool := (consNumber e.word).isSome

/-- numbering of the body lines: tokens counted from `k`, constituents by their own number; file order -/
def numberBody : List ExpNode → Nat → List (Nat × ExpNode)
  | [], _ => []
  | e :: r, k => match consNumber e.word with
    | some n => (n, e) :: numberBody r k
    | none => (k, e) :: numberBody r (k + 1)

theorem numberBody_length : ∀ (body : List ExpNode) (k : Nat), (numberBody body k).length = body.length
  | [], _ => rfl
  | e :: r, k => by
    unfold numberBody
    cases consNumber e.word <;> simp [numberBody_length r]

theorem toks_eq : ∀ (body : List ExpNode) (k : Nat),
    ((body.filter (fun e => !isC e)).zipIdx k).map (fun (e, i) => (i + 1, e)) =
      (numberBody body (k + 1)).filter (fun x => !isC x.2)
  | [], _ => rfl
  | e :: r, k => by
    unfold numberBody
    cases h : consNumber e.word with
    | some n =>
      have hc : isC e = true := by simp [isC, h]
      simp only [List.filter_cons, hc, Bool.not_true, Bool.false_eq_true, if_false]
      exact toks_eq r k
    | none =>
      have hc : isC e = false := by simp [isC, h]
      simp only [List.filter_cons, hc, Bool.not_false, if_true, List.zipIdx_cons, List.map_cons]
      rw [toks_eq r (k + 1)]

theorem cons_eq : ∀ (body : List ExpNode) (k : Nat),
    (body.filter isC).filterMap (fun e => (consNumber e.word).map fun n => (n, e)) =
      (numberBody body k).filter (fun x => isC x.2)
  | [], _ => rfl
  | e :: r, k => by
    unfold numberBody
    cases h : consNumber e.word with
    | some n =>
      have hc : isC e = true := by simp [isC, h]
      simp only [List.filter_cons, hc, if_true, List.filterMap_cons, h, Option.map_some]
      rw [cons_eq r k]
    | none =>
      have hc : isC e = false := by simp [isC, h]
      simp only [List.filter_cons, hc, Bool.false_eq_true, if_false]
      exact cons_eq r (k + 1)

theorem nodes_eq : ∀ (body : List ExpNode) (acc : List (Nat × ExpFields)) (k : Nat),
    ((body.map toF).foldl rstep (acc, k)).1 = acc ++ (numberBody body k).map (fun x => (x.1, toF x.2))
  | [], acc, k => by simp [numberBody]
  | e :: r, acc, k => by
    unfold numberBody
    rw [List.map_cons, List.foldl_cons]
    cases h : consNumber e.word with
    | some n =>
      obtain ⟨h1, h2⟩ := rIsCons_of_some e.word n h
      have hf : ((toF e).word.length == 4 && (toF e).word.head? == some '#' && pyIsDigit ((toF e).word.drop 1)) = true := h1
      have : rstep (acc, k) (toF e) = (acc ++ [(n, toF e)], k) := by
        simp only [rstep, hf, if_true]
        show (acc ++ [((strToNat? (e.word.drop 1)).getD 0, toF e)], k) = _
        rw [h2]
      rw [this, nodes_eq r _ k]
      simp
    | none =>
      have h1 := rIsCons_of_none e.word h
      have hf : ((toF e).word.length == 4 && (toF e).word.head? == some '#' && pyIsDigit ((toF e).word.drop 1)) = false := h1
      have : rstep (acc, k) (toF e) = (acc ++ [(k, toF e)], k + 1) := by
        simp only [rstep, hf, Bool.false_eq_true, if_false]
      rw [this, nodes_eq r _ (k + 1)]
      simp


/-! #### facts about the numbering -/

theorem numberBody_tok_range : ∀ (body : List ExpNode) (k : Nat), ∀ x ∈ numberBody body k, isC x.2 = false →
    k ≤ x.1 ∧ x.1 < k + (body.filter (fun e => !isC e)).length
  | [], _, x, hx, _ => by simp [numberBody] at hx
  | e :: r, k, x, hx, hc => by
    unfold numberBody at hx
    cases h : consNumber e.word with
    | some n =>
      have he : isC e = true := by simp [isC, h]
      rw [h] at hx
      rcases List.mem_cons.1 hx with rfl | hx
      · rw [he] at hc; cases hc
      · have := numberBody_tok_range r k x hx hc
        simpa [List.filter_cons, he] using this
    | none =>
      have he : isC e = false := by simp [isC, h]
      rw [h] at hx
      rcases List.mem_cons.1 hx with rfl | hx
      · simp [he]
      · have := numberBody_tok_range r (k + 1) x hx hc
        simp only [List.filter_cons, he, Bool.not_false, if_true, List.length_cons]
        omega

theorem numberBody_cons_num : ∀ (body : List ExpNode) (k : Nat), ∀ x ∈ numberBody body k, isC x.2 = true →
    consNumber x.2.word = some x.1
  | [], _, x, hx, _ => by simp [numberBody] at hx
  | e :: r, k, x, hx, hc => by
    unfold numberBody at hx
    cases h : consNumber e.word with
    | some n =>
      rw [h] at hx
      rcases List.mem_cons.1 hx with rfl | hx
      · exact h
      · exact numberBody_cons_num r k x hx hc
    | none =>
      rw [h] at hx
      rcases List.mem_cons.1 hx with rfl | hx
      · simp [isC, h] at hc
      · exact numberBody_cons_num r (k + 1) x hx hc

theorem numberBody_mem : ∀ (body : List ExpNode) (k : Nat), ∀ x ∈ numberBody body k, x.2 ∈ body
  | [], _, x, hx => by simp [numberBody] at hx
  | e :: r, k, x, hx => by
    unfold numberBody at hx
    cases h : consNumber e.word with
    | some n =>
      rw [h] at hx
      rcases List.mem_cons.1 hx with rfl | hx
      · simp
      · exact List.mem_cons_of_mem _ (numberBody_mem r k x hx)
    | none =>
      rw [h] at hx
      rcases List.mem_cons.1 hx with rfl | hx
      · simp
      · exact List.mem_cons_of_mem _ (numberBody_mem r (k + 1) x hx)

theorem isDigit_val_le (c : Char) (h : c.isDigit = true) : c.toNat - '0'.toNat ≤ 9 := by
  simp only [Char.isDigit, Bool.and_eq_true, decide_eq_true_eq] at h
  have h2 : c.val ≤ 57 := h.2
  have : c.toNat ≤ 57 := by
    have h3 : c.val.toNat ≤ (57 : UInt32).toNat := UInt32.le_iff_toNat_le.1 h2
    exact h3
  have h0 : '0'.toNat = 48 := rfl
  omega

theorem foldl_digits_lt : ∀ (d : Str) (acc : Nat), (∀ c ∈ d, c.isDigit = true) →
    d.foldl (fun acc c => acc * 10 + (c.toNat - '0'.toNat)) acc < (acc + 1) * 10 ^ d.length
  | [], acc, _ => by simp
  | c :: d, acc, h => by
    have hc := isDigit_val_le c (h c (by simp))
    have ih := foldl_digits_lt d (acc * 10 + (c.toNat - '0'.toNat)) (fun x hx => h x (by simp [hx]))
    rw [List.foldl_cons, List.length_cons, Nat.pow_succ]
    refine Nat.lt_of_lt_of_le ih ?_
    have : acc * 10 + (c.toNat - '0'.toNat) + 1 ≤ (acc + 1) * 10 := by omega
    calc (acc * 10 + (c.toNat - '0'.toNat) + 1) * 10 ^ d.length ≤ ((acc + 1) * 10) * 10 ^ d.length := Nat.mul_le_mul_right _ this
      _ = (acc + 1) * (10 ^ d.length * 10) := by rw [Nat.mul_assoc, Nat.mul_comm 10]

theorem consNumber_lt (w : Str) (n : Nat) (h : consNumber w = some n) : n < 1000 := by
  unfold consNumber at h
  split at h
  · rename_i d
    split at h
    · rename_i hd
      simp only [beq_iff_eq] at hd
      unfold strToNat? at h
      split at h
      · rename_i hdig
        simp only [Option.some.injEq] at h
        subst h
        have := foldl_digits_lt d 0 (by
          simp only [pyIsDigit, Bool.and_eq_true, List.all_eq_true] at hdig
          exact hdig.2)
        rw [hd] at this
        simpa using this
      · cases h
    · cases h
  · cases h


/-! #### the two tree builders on one numbered body -/

structure NBOK (NB : List (Nat × ExpNode)) : Prop where
  cons_ge : ∀ x ∈ NB, isC x.2 = true → 500 ≤ x.1
  tok_lt : ∀ x ∈ NB, isC x.2 = false → x.1 < 500 ∧ x.1 ≠ 0
  par : ∀ x ∈ NB, x.2.parent = 0 ∨ 500 ≤ x.2.parent

def tokT (NB : List (Nat × ExpNode)) : List (Nat × ExpNode) := NB.filter (fun x => !isC x.2)
def conT (NB : List (Nat × ExpNode)) : List (Nat × ExpNode) := NB.filter (fun x => isC x.2)
def nodT (NB : List (Nat × ExpNode)) : List (Nat × ExpFields) := NB.map (fun x => (x.1, toF x.2))

theorem find?_filter_of {α : Type} (p q : α → Bool) : ∀ l : List α, (∀ x ∈ l, p x = true → q x = true) →
    (l.filter q).find? p = l.find? p
  | [], _ => rfl
  | a :: l, h => by
    have ih := find?_filter_of p q l (fun x hx => h x (by simp [hx]))
    by_cases hq : q a = true
    · simp only [List.filter_cons, hq, if_true, List.find?_cons, ih]
    · have hp : p a = false := by
        cases hp : p a with
        | false => rfl
        | true => exact absurd (h a (by simp) hp) hq
      simp only [List.filter_cons, hq, Bool.false_eq_true, if_false, List.find?_cons, hp, ih]

theorem mapM_some_fun {α β : Type} [Inhabited β] (f : α → Option β) : ∀ (l : List α) (bs : List β), l.mapM f = some bs →
    (∀ a ∈ l, f a = some ((f a).getD default)) ∧ bs = l.map (fun a => (f a).getD default)
  | [], bs, h => by
    simp only [List.mapM_nil, pure, Option.some.injEq] at h
    subst h; simp
  | a :: l, bs, h => by
    rw [List.mapM_cons] at h
    cases ha : f a with
    | none => simp [ha] at h
    | some b =>
      cases hl : l.mapM f with
      | none => simp [ha, hl] at h
      | some bs' =>
        simp only [ha, hl, Option.bind_eq_bind, Option.bind_some, pure, Option.some.injEq] at h
        subst h
        obtain ⟨h1, h2⟩ := mapM_some_fun f l bs' hl
        refine ⟨?_, ?_⟩
        · intro x hx
          rcases List.mem_cons.1 hx with rfl | hx
          · simp [ha]
          · exact h1 x hx
        · simp [ha, h2]

theorem kids_perm (NB : List (Nat × ExpNode)) (num : Nat) :
    (((tokT NB).filter (·.2.parent == num)).map (·.1) ++ ((conT NB).filter (·.2.parent == num)).map (·.1)).Perm
      (((nodT NB).filter fun x => x.2.parent == num).map (·.1)) := by
  have e : ((nodT NB).filter fun x => x.2.parent == num).map (·.1) = (NB.filter (·.2.parent == num)).map (·.1) := by
    unfold nodT
    rw [List.filter_map, List.map_map]
    rfl
  rw [e, ← List.map_append]
  apply List.Perm.map
  unfold tokT conT
  rw [List.filter_filter, List.filter_filter]
  have a : NB.filter (fun a => (a.2.parent == num) && !isC a.2) = (NB.filter (·.2.parent == num)).filter (fun x => !isC x.2) := by
    rw [List.filter_filter]; congr 1; funext x; rw [Bool.and_comm]
  have b : NB.filter (fun a => (a.2.parent == num) && isC a.2) = (NB.filter (·.2.parent == num)).filter (fun x => !!isC x.2) := by
    rw [List.filter_filter]; congr 1; funext x; rw [Bool.and_comm, Bool.not_not]
  rw [a, b]
  have := List.filter_append_perm (fun x : Nat × ExpNode => !isC x.2) (NB.filter (·.2.parent == num))
  exact this

theorem find_tok' (NB : List (Nat × ExpNode)) (ok : NBOK NB) (num : Nat) (h1 : num < 500) :
    (nodT NB).find? (·.1 == num) = ((tokT NB).find? (·.1 == num)).map fun x => (x.1, toF x.2) := by
  unfold nodT tokT
  rw [List.find?_map, find?_filter_of]
  · rfl
  · intro x hx hp
    simp only [beq_iff_eq] at hp
    cases hc : isC x.2 with
    | false => rfl
    | true => have := ok.cons_ge x hx hc; omega

theorem find_con' (NB : List (Nat × ExpNode)) (ok : NBOK NB) (num : Nat) (h1 : 500 ≤ num) :
    (nodT NB).find? (·.1 == num) = ((conT NB).find? (·.1 == num)).map fun x => (x.1, toF x.2) := by
  unfold nodT conT
  rw [List.find?_map, find?_filter_of]
  · rfl
  · intro x hx hp
    simp only [beq_iff_eq] at hp
    cases hc : isC x.2 with
    | true => rfl
    | false => have := (ok.tok_lt x hx hc).1; omega

theorem find_root' (NB : List (Nat × ExpNode)) (ok : NBOK NB) : (nodT NB).find? (·.1 == 0) = none := by
  unfold nodT
  rw [List.find?_map, Option.map_eq_none_iff, List.find?_eq_none]
  intro x hx
  simp only [Function.comp, beq_iff_eq]
  cases hc : isC x.2 with
  | true => have := ok.cons_ge x hx hc; omega
  | false => exact (ok.tok_lt x hx hc).2

theorem no_tok_parent (NB : List (Nat × ExpNode)) (ok : NBOK NB) (num : Nat) (h1 : num < 500) (h0 : num ≠ 0) :
    ((nodT NB).filter fun x => x.2.parent == num).map (·.1) = [] := by
  rw [List.map_eq_nil_iff, List.filter_eq_nil_iff]
  intro x hx
  unfold nodT at hx
  obtain ⟨y, hy, rfl⟩ := List.mem_map.1 hx
  simp only [beq_iff_eq]
  show ¬ y.2.parent = num
  rcases ok.par y hy with h | h <;> omega

theorem buildExp_nontok (toks cons : List (Nat × ExpNode)) (fuel num : Nat) (h : num = 0 ∨ 500 ≤ num) :
    buildExp toks cons (fuel + 1) num =
      match ((toks.filter (·.2.parent == num)).map (·.1) ++ (cons.filter (·.2.parent == num)).map (·.1)).mapM (buildExp toks cons fuel) with
      | none => none
      | some ks =>
        if num == 0 then some (node { label := DEFAULT_ROOT, edge := some DEFAULT_EDGE } ks)
        else (cons.find? (·.1 == num)).map fun x =>
          node { label := x.2.label, lemma := some x.2.lemma, morph := some x.2.morph, edge := some x.2.edge } ks := by
  rw [buildExp]
  have : (decide (num < 500) && num != 0) = false := by
    rcases h with rfl | h
    · simp
    · simp; omega
  rw [if_neg (by simp [this])]
  rfl

/-- the reader's builder follows the decoder's builder on every subtree the decoder delivers
    (compared modulo storage order and the word slot of constituents) -/
theorem build_sim (NB : List (Nat × ExpNode)) (ok : NBOK NB) : ∀ (fuel num : Nat) (t : Tree),
    buildExp (tokT NB) (conT NB) fuel num = some t → t.noEmpty = true → sibDistinct t = true →
    ∃ r, exportBuild (nodT NB) fuel num = some r ∧ nf r = sortKids t := by
  intro fuel
  induction fuel with
  | zero => intro num t h; simp [buildExp] at h
  | succ fuel ih =>
    intro num t h hne hsd
    by_cases htok : num < 500 ∧ num ≠ 0
    · -- a token
      rw [buildExp_tok _ _ _ _ htok.1 htok.2] at h
      cases hf : (tokT NB).find? (·.1 == num) with
      | none => rw [hf] at h; cases h
      | some x =>
        rw [hf] at h
        simp only [Option.map_some, Option.some.injEq] at h
        subst h
        rw [exportBuild_succ, no_tok_parent NB ok num htok.1 htok.2, find_tok' NB ok num htok.1, hf]
        exact ⟨_, rfl, rfl⟩
    · have hnum : num = 0 ∨ 500 ≤ num := by omega
      rw [buildExp_nontok _ _ _ _ hnum] at h
      cases hm : (((tokT NB).filter (·.2.parent == num)).map (·.1) ++ ((conT NB).filter (·.2.parent == num)).map (·.1)).mapM
          (buildExp (tokT NB) (conT NB) fuel) with
      | none => rw [hm] at h; cases h
      | some ks =>
        rw [hm] at h
        simp only at h
        obtain ⟨g, hg, hks⟩ : ∃ g : Nat → Tree, (∀ a ∈ ((tokT NB).filter (·.2.parent == num)).map (·.1) ++ ((conT NB).filter (·.2.parent == num)).map (·.1),
            buildExp (tokT NB) (conT NB) fuel a = some (g a)) ∧
            ks = (((tokT NB).filter (·.2.parent == num)).map (·.1) ++ ((conT NB).filter (·.2.parent == num)).map (·.1)).map g :=
          ⟨_, (mapM_some_fun _ _ _ hm).1, (mapM_some_fun _ _ _ hm).2⟩
        have hperm := kids_perm NB num
        -- facts about the decoded children
        have hkids : ∀ F, t = node F ks → ks ≠ [] ∧ (∀ k ∈ ks, k.noEmpty = true ∧ sibDistinct k = true) ∧ (ks.map leftmost).Nodup := by
          intro F hF
          subst hF
          obtain ⟨a, b⟩ := (noEmpty_node F ks).1 hne
          obtain ⟨c, d⟩ := sibDistinct_kids F ks hsd
          exact ⟨a, fun k hk => ⟨b k hk, d k hk⟩, c⟩
        -- the reader's children
        have key : ∀ F, t = node F ks → ∃ rs,
            (((nodT NB).filter fun x => x.2.parent == num).map (·.1)).mapM (exportBuild (nodT NB) fuel) = some rs ∧
            (((nodT NB).filter fun x => x.2.parent == num).map (·.1)).isEmpty = false ∧
            sortBy leftmost ((sortBy leftmost rs).map nf) = sortBy leftmost (ks.map sortKids) := by
          intro F hF
          obtain ⟨hne', hk', hnd⟩ := hkids F hF
          obtain ⟨rs, hrs, hmap⟩ := mapM_option_some (exportBuild (nodT NB) fuel) nf (fun a => sortKids (g a))
            (((nodT NB).filter fun x => x.2.parent == num).map (·.1)) (by
              intro a ha
              have ha' := hperm.symm.subset ha
              have hga : g a ∈ ks := by rw [hks]; exact List.mem_map_of_mem ha'
              obtain ⟨r, hr1, hr2⟩ := ih a (g a) (hg a ha') (hk' _ hga).1 (hk' _ hga).2
              exact ⟨r, hr1, hr2⟩)
          refine ⟨rs, hrs, ?_, ?_⟩
          · cases hK : ((nodT NB).filter fun x => x.2.parent == num).map (·.1) with
            | cons a l => rfl
            | nil =>
              rw [hK] at hperm
              have := hperm.eq_nil
              rw [this] at hks
              exact absurd hks hne'
          · have p1 : ((sortBy leftmost rs).map nf).Perm (ks.map sortKids) := by
              refine ((sortBy_perm leftmost rs).map nf).trans ?_
              have e : ∀ l : List Nat, (l.map g).map sortKids = l.map (fun a => sortKids (g a)) := by
                intro l; rw [List.map_map]; rfl
              rw [hmap, hks, e]
              exact (hperm.symm.map _)
            refine (sortBy_perm_eq leftmost _ _ p1.symm ?_).symm
            rw [List.map_map]
            have : (leftmost ∘ sortKids) = leftmost := funext leftmost_sortKids
            rw [this]; exact hnd
        rw [exportBuild_succ]
        rcases hnum with rfl | h500
        · -- the root
          simp only [beq_self_eq_true, if_true, Option.some.injEq] at h
          obtain ⟨rs, hrs, hemp, hsort⟩ := key _ h.symm
          rw [hrs, if_neg (by rw [hemp]; simp), find_root' NB ok]
          refine ⟨_, rfl, ?_⟩
          subst h
          rw [nf_node, sortKids_node, hsort]
        · have h0 : (num == 0) = false := by simp; omega
          simp only [h0, Bool.false_eq_true, if_false] at h
          cases hf : (conT NB).find? (·.1 == num) with
          | none => rw [hf] at h; cases h
          | some x =>
            rw [hf] at h
            simp only [Option.map_some, Option.some.injEq] at h
            obtain ⟨rs, hrs, hemp, hsort⟩ := key _ h.symm
            rw [hrs, if_neg (by rw [hemp]; simp), find_con' NB ok num h500, hf]
            refine ⟨_, rfl, ?_⟩
            subst h
            rw [nf_node, sortKids_node, hsort]
            rfl


/-! #### `strip` and `splitWs` -/

theorem splitWs_dropWhile : ∀ l : Str, splitWs (l.dropWhile pyIsSpace) = splitWs l
  | [] => rfl
  | c :: l => by
    by_cases hc : pyIsSpace c = true
    · rw [List.dropWhile_cons, if_pos hc, splitWs_dropWhile l, splitWs_sep c hc]
    · rw [List.dropWhile_cons, if_neg hc]

theorem splitWsAux_snoc_space (s : Char) (hs : pyIsSpace s = true) : ∀ (l cur : Str),
    splitWsAux (l ++ [s]) cur = splitWsAux l cur
  | [], cur => by
    cases cur <;> simp [splitWsAux, hs]
  | c :: l, cur => by
    rw [List.cons_append, splitWsAux, splitWsAux]
    by_cases hc : pyIsSpace c = true
    · simp only [hc, if_true, splitWsAux_snoc_space s hs l []]
    · simp only [hc, Bool.false_eq_true, if_false, splitWsAux_snoc_space s hs l (c :: cur)]

theorem splitWs_append_spaces (l : Str) : ∀ rws : Str, (∀ c ∈ rws, pyIsSpace c = true) → splitWs (l ++ rws.reverse) = splitWs l
  | [], _ => by simp
  | s :: rws, h => by
    rw [List.reverse_cons, ← List.append_assoc]
    unfold splitWs
    rw [splitWsAux_snoc_space s (h s (by simp))]
    exact splitWs_append_spaces l rws (fun c hc => h c (by simp [hc]))

theorem dropWhile_rev_decomp (p : Char → Bool) : ∀ r : Str, ∃ rws : Str, (∀ c ∈ rws, p c = true) ∧ r.reverse = (r.dropWhile p).reverse ++ rws.reverse
  | [] => ⟨[], by simp, by simp⟩
  | c :: r => by
    by_cases hc : p c = true
    · obtain ⟨rws, h1, h2⟩ := dropWhile_rev_decomp p r
      refine ⟨c :: rws, ?_, ?_⟩
      · intro x hx
        rcases List.mem_cons.1 hx with rfl | hx
        · exact hc
        · exact h1 x hx
      · rw [List.dropWhile_cons, if_pos hc, List.reverse_cons, List.reverse_cons, h2, List.append_assoc]
    · exact ⟨[], by simp, by rw [List.dropWhile_cons, if_neg hc]; simp⟩

theorem splitWs_strip (l : Str) : splitWs (strip l) = splitWs l := by
  unfold strip
  obtain ⟨ws, h1, h2⟩ := dropWhile_rev_decomp pyIsSpace (l.dropWhile pyIsSpace).reverse
  rw [List.reverse_reverse] at h2
  rw [← splitWs_dropWhile l]
  conv => rhs; rw [h2]
  rw [splitWs_append_spaces _ ws h1]

theorem dropWhile_snoc_false {α : Type} (p : α → Bool) (c : α) (hc : p c = false) : ∀ a : List α,
    (a ++ [c]).dropWhile p = a.dropWhile p ++ [c]
  | [] => by simp [hc]
  | x :: a => by
    by_cases hx : p x = true
    · simp only [List.cons_append, List.dropWhile_cons, hx, if_true, dropWhile_snoc_false p c hc a]
    · simp only [List.cons_append, List.dropWhile_cons, hx, Bool.false_eq_true, if_false]

/-- a stripped line is empty or starts with a non-blank character -/
theorem strip_head (l : Str) : strip l = [] ∨ ∃ c r, strip l = c :: r ∧ pyIsSpace c = false := by
  unfold strip
  cases hx : l.dropWhile pyIsSpace with
  | nil => left; rfl
  | cons c x =>
    right
    have hc : pyIsSpace c = false := TT.Lemmas.Read.dropWhile_head_false _ _ _ _ hx
    rw [List.reverse_cons, dropWhile_snoc_false _ _ hc, List.reverse_append]
    exact ⟨c, _, rfl, hc⟩

/-- a text that starts with a non-blank character starts with its first field, and what follows the field is
    empty or starts with a blank -/
theorem first_field : ∀ (y : Str) (c : Char) (r : Str), y = c :: r → pyIsSpace c = false →
    ∃ w tail, y = w ++ tail ∧ w ≠ [] ∧ (∀ x ∈ w, pyIsSpace x = false) ∧ (∀ d, tail.head? = some d → pyIsSpace d = true) ∧
      splitWs y = w :: splitWs tail := by
  intro y c r hy hc
  refine ⟨y.takeWhile (fun x => !pyIsSpace x), y.dropWhile (fun x => !pyIsSpace x), (List.takeWhile_append_dropWhile).symm, ?_, ?_, ?_, ?_⟩
  · rw [hy, List.takeWhile_cons]; simp [hc]
  · intro x hx
    have := List.all_eq_true.1 (List.all_takeWhile (l := y) (p := fun x => !pyIsSpace x)) x hx
    simpa using this
  · intro d hd
    cases hdw : y.dropWhile (fun x => !pyIsSpace x) with
    | nil => rw [hdw] at hd; cases hd
    | cons e es =>
      rw [hdw] at hd
      simp only [List.head?_cons, Option.some.injEq] at hd
      subst hd
      have := TT.Lemmas.Read.dropWhile_head_false _ _ _ _ hdw
      simpa using this
  · have hw1 : y.takeWhile (fun x => !pyIsSpace x) ≠ [] := by rw [hy, List.takeWhile_cons]; simp [hc]
    have hw2 : ∀ x ∈ y.takeWhile (fun x => !pyIsSpace x), pyIsSpace x = false := by
      intro x hx
      have := List.all_eq_true.1 (List.all_takeWhile (l := y) (p := fun x => !pyIsSpace x)) x hx
      simpa using this
    cases hdw : y.dropWhile (fun x => !pyIsSpace x) with
    | nil =>
      have e : y = y.takeWhile (fun x => !pyIsSpace x) := by
        conv => lhs; rw [← List.takeWhile_append_dropWhile (p := fun x => !pyIsSpace x) (l := y), hdw, List.append_nil]
      rw [splitWs_nil]
      conv => lhs; rw [e]
      exact splitWs_word _ ⟨hw1, hw2⟩
    | cons e es =>
      have he : pyIsSpace e = true := by
        have := TT.Lemmas.Read.dropWhile_head_false _ _ _ _ hdw
        simpa using this
      have e1 : y = y.takeWhile (fun x => !pyIsSpace x) ++ e :: es := by
        conv => lhs; rw [← List.takeWhile_append_dropWhile (p := fun x => !pyIsSpace x) (l := y), hdw]
      conv => lhs; rw [e1]
      rw [splitWs_word_sep _ _ e he ⟨hw1, hw2⟩, splitWs_sep e he]

theorem isPrefixOf_append_left : ∀ (k w tail : Str), k.isPrefixOf w = true → k.isPrefixOf (w ++ tail) = true
  | [], _, _, _ => by simp [List.isPrefixOf]
  | a :: k, [], _, h => by simp [List.isPrefixOf] at h
  | a :: k, b :: w, tail, h => by
    simp only [List.cons_append, List.isPrefixOf, Bool.and_eq_true] at h ⊢
    exact ⟨h.1, isPrefixOf_append_left k w tail h.2⟩

theorem isPrefixOf_before_space : ∀ (k w tail : Str), (∀ c ∈ k, pyIsSpace c = false) →
    (∀ d, tail.head? = some d → pyIsSpace d = true) → k.isPrefixOf (w ++ tail) = true → k.isPrefixOf w = true
  | [], w, _, _, _, _ => by simp [List.isPrefixOf]
  | a :: k, [], tail, hk, ht, h => by
    cases tail with
    | nil => simp at h
    | cons d tail =>
      simp only [List.nil_append, List.isPrefixOf, Bool.and_eq_true, beq_iff_eq] at h
      have := ht d rfl
      rw [← h.1, hk a (by simp)] at this
      cases this
  | a :: k, b :: w, tail, hk, ht, h => by
    simp only [List.cons_append, List.isPrefixOf, Bool.and_eq_true] at h ⊢
    exact ⟨h.1, isPrefixOf_before_space k w tail (fun c hc => hk c (by simp [hc])) ht h.2⟩

/-- what the reader's loop sees of a line, in terms of its first field -/
theorem strip_first_field (l : Str) (w : Str) (ws : List Str) (h : splitWs l = w :: ws) (k : Str)
    (hk : ∀ c ∈ k, pyIsSpace c = false) : k.isPrefixOf (strip l) = k.isPrefixOf w := by
  rcases strip_head l with h0 | ⟨c, r, hy, hc⟩
  · have := splitWs_strip l
    rw [h0, splitWs_nil, h] at this
    cases this
  · obtain ⟨w', tail, e, _, _, htail, hsp⟩ := first_field _ c r hy hc
    rw [splitWs_strip, h] at hsp
    have hw : w' = w := by injection hsp with a _; exact a.symm
    subst hw
    rw [e]
    cases hp : k.isPrefixOf w' with
    | true => exact isPrefixOf_append_left k w' tail hp
    | false =>
      cases hq : k.isPrefixOf (w' ++ tail) with
      | false => rfl
      | true => rw [isPrefixOf_before_space k w' tail hk htail hq] at hp; cases hp


/-! #### the frame of a sentence block -/

theorem frame_field (tag : Str) (x : Str) (a : Nat)
    (h : (match splitWs x with
          | [b, n] => if (b == tag) = true then strToNat? n else none
          | _ => none) = some a) : ∃ n, splitWs x = [tag, n] ∧ strToNat? n = some a := by
  split at h
  · rename_i b n hs
    split at h
    · rename_i hb
      simp only [beq_iff_eq] at hb
      subst hb
      exact ⟨n, hs, h⟩
    · cases h
  · cases h

theorem decExport_unpack (v4 : Bool) (ls : List Str) (s : ExpSentence) (h : decExport v4 ls = some s) :
    ∃ first mid last n1 n2 body, ls = first :: (mid ++ [last]) ∧ splitWs first = ["#BOS".toList, n1] ∧ strToNat? n1 = some s.sid ∧
      splitWs last = ["#EOS".toList, n2] ∧ strToNat? n2 = some s.sid ∧ mid.mapM (decExpLine v4) = some body ∧
      decBody s.sid body = some s := by
  unfold decExport at h
  simp only [Option.bind_eq_bind, Option.bind_eq_some_iff] at h
  obtain ⟨first, hfirst, last, hlast, sid, hsid, sid2, hsid2, h⟩ := h
  obtain ⟨n1, hs1, hn1⟩ := frame_field _ _ _ hsid
  obtain ⟨n2, hs2, hn2⟩ := frame_field _ _ _ hsid2
  split at h
  · cases h
  rename_i hne
  have hsame : sid = sid2 := by simpa using hne
  subst hsame
  simp only [Option.bind_eq_some_iff] at h
  obtain ⟨body, hbody, tree, htree, hs⟩ := h
  simp only [pure, Option.some.injEq] at hs
  -- the shape of the list
  have hshape : ∃ mid, ls = first :: (mid ++ [last]) := by
    cases ls with
    | nil => simp at hfirst
    | cons a rest =>
      simp only [List.head?_cons, Option.some.injEq] at hfirst
      subst hfirst
      cases hr : rest with
      | nil =>
        rw [hr] at hlast
        simp only [List.getLast?_singleton, Option.some.injEq] at hlast
        subst hlast
        rw [hs1] at hs2
        injection hs2 with h1 _
        exact absurd h1 (by decide)
      | cons b rest' =>
        have hne : rest ≠ [] := by rw [hr]; simp
        rw [← hr]
        refine ⟨rest.dropLast, ?_⟩
        have : (a :: rest).getLast? = rest.getLast? := by rw [hr]; simp [List.getLast?_cons_cons]
        rw [this] at hlast
        have hl : rest.getLast hne = last := by
          rw [List.getLast?_eq_some_getLast hne] at hlast
          exact Option.some.inj hlast
        rw [← hl, List.dropLast_concat_getLast]
  obtain ⟨mid, rfl⟩ := hshape
  have hmid : ((first :: (mid ++ [last])).drop 1).dropLast = mid := by simp
  rw [hmid] at hbody
  refine ⟨first, mid, last, n1, n2, body, rfl, hs1, ?_, hs2, ?_, hbody, ?_⟩
  · rw [← hs]; exact hn1
  · rw [← hs]; exact hn2
  · rw [← hs]
    unfold decBody
    show Option.map _ (buildExp _ _ (body.length + 2) 0) = _
    rw [htree]
    rfl

theorem mapM_filterMap {α β : Type} (f : α → Option β) : ∀ (l : List α) (bs : List β), l.mapM f = some bs → l.filterMap f = bs
  | [], bs, h => by
    simp only [List.mapM_nil, pure, Option.some.injEq] at h
    subst h; rfl
  | a :: l, bs, h => by
    rw [List.mapM_cons] at h
    cases ha : f a with
    | none => simp [ha] at h
    | some b =>
      cases hl : l.mapM f with
      | none => simp [ha, hl] at h
      | some bs' =>
        simp only [ha, hl, Option.bind_eq_bind, Option.bind_some, pure, Option.some.injEq] at h
        subst h
        rw [List.filterMap_cons, ha, mapM_filterMap f l bs' hl]

theorem mapM_mem {α β : Type} (f : α → Option β) : ∀ (l : List α) (bs : List β), l.mapM f = some bs →
    ∀ a ∈ l, ∃ b ∈ bs, f a = some b
  | [], _, _, a, ha => by simp at ha
  | x :: l, bs, h, a, ha => by
    rw [List.mapM_cons] at h
    cases hx : f x with
    | none => simp [hx] at h
    | some b =>
      cases hl : l.mapM f with
      | none => simp [hx, hl] at h
      | some bs' =>
        simp only [hx, hl, Option.bind_eq_bind, Option.bind_some, pure, Option.some.injEq] at h
        subst h
        rcases List.mem_cons.1 ha with rfl | ha
        · exact ⟨b, by simp, hx⟩
        · obtain ⟨b', hb', hfb⟩ := mapM_mem f l bs' hl a ha
          exact ⟨b', by simp [hb'], hfb⟩

theorem decExpLine_two (v4 : Bool) (l a b : Str) (h : splitWs l = [a, b]) : decExpLine v4 l = none := by
  unfold decExpLine
  rw [h]

/-- the side conditions, unpacked for the lines between `#BOS` and `#EOS` -/
theorem blockOK_unpack (v4 : Bool) (first last : Str) (mid : List Str) (a b a' b' : Str) (body : List ExpNode)
    (h1 : splitWs first = [a, b]) (h2 : splitWs last = [a', b']) (hb : mid.mapM (decExpLine v4) = some body)
    (hok : ExportBlockOK v4 (first :: (mid ++ [last])) = true) :
    (∀ l ∈ first :: (mid ++ [last]), '\n' ∉ l) ∧
    (∀ e ∈ body, (v4 = true → pyIsDigit e.edge = false) ∧ "#EOS".toList.isPrefixOf e.word = false ∧
      ∀ n, consNumber e.word = some n → 500 ≤ n) ∧
    (body.filter fun e => !isC e).length < 500 := by
  have hfm : (first :: (mid ++ [last])).filterMap (decExpLine v4) = body := by
    rw [List.filterMap_cons, decExpLine_two v4 first a b h1, List.filterMap_append, mapM_filterMap _ _ _ hb]
    simp [decExpLine_two v4 last a' b' h2]
  unfold ExportBlockOK at hok
  rw [hfm] at hok
  simp only [Bool.and_eq_true, List.all_eq_true, decide_eq_true_eq] at hok
  obtain ⟨⟨h1, h2⟩, h3⟩ := hok
  refine ⟨?_, ?_, ?_⟩
  · intro l hl
    have := h1 l hl
    simpa using this
  · intro e he
    obtain ⟨⟨ha, hb⟩, hc⟩ := h2 e he
    refine ⟨?_, by simpa using hb, ?_⟩
    · intro hv; subst hv; simpa using ha
    · intro n hn; rw [hn] at hc; simpa using hc
  · have : (fun e : ExpNode => !isC e) = (fun e => (consNumber e.word).isNone) := by
      funext e; simp [isC]
    rw [this]; exact h3

/-- the reader's loop collects the stripped body lines -/
theorem exportLoop_collect' (o : InOpts) (cnt : Nat) (acc : List (Nat × Tree)) (id : Nat) : ∀ (lines rest body : List Str),
    (∀ l ∈ lines, "#EOS".toList.isPrefixOf (strip l) = false) →
    exportLoop o (lines ++ rest) (some (id, body)) cnt acc = exportLoop o rest (some (id, (lines.map strip).reverse ++ body)) cnt acc
  | [], rest, body, _ => rfl
  | l :: lines, rest, body, h => by
    rw [List.cons_append, exportLoop_body o l _ cnt acc id body (h l (by simp)),
      exportLoop_collect' o cnt acc id lines rest (strip l :: body) (fun x hx => h x (by simp [hx]))]
    simp

theorem noSpace_eos : ∀ c ∈ "#EOS".toList, pyIsSpace c = false := by decide
theorem noSpace_bos : ∀ c ∈ "#BOS".toList, pyIsSpace c = false := by decide

/-- the reader parses a (stripped) body line to the record the decoder reads from it -/
theorem parse_strip (o : InOpts) (hg : o.gfSplit = false) (v4 : Bool) (l : Str) (e : ExpNode) (h : decExpLine v4 l = some e)
    (hd : v4 = true → pyIsDigit e.edge = false) (hp : e.parent = 0 ∨ (500 ≤ e.parent ∧ e.parent < 1000)) :
    exportParseLine o (strip l) = .ok (toF e) := by
  rw [TT.Lemmas.Layout.exportParseLine_eq, splitWs_strip, ← TT.Lemmas.Layout.exportParseLine_eq]
  cases v4 with
  | false =>
    obtain ⟨p, hs, hpn⟩ := splitWs_of_decExpLine_v3 l e h
    rw [exportParseLine_of_split o hg l _ _ _ _ _ _ hs hpn hp]
    have : e.lemma = DEFAULT_LEMMA := by
      unfold decExpLine at h
      rw [hs] at h
      simp only [hpn, Option.map_some, Option.some.injEq] at h
      rw [← h]
    unfold toF; rw [this]
  | true =>
    obtain ⟨p, hs, hpn⟩ := TT.Lemmas.More8.splitWs_of_decExpLine_v4 l e h
    rw [TT.Lemmas.More8.exportParseLine_of_split6 o hg l _ _ _ _ _ _ _ hs (hd rfl) hpn hp]
    rfl

theorem word_of_decExpLine (v4 : Bool) (l : Str) (e : ExpNode) (h : decExpLine v4 l = some e) :
    ∃ ws, splitWs l = e.word :: ws := by
  cases v4 with
  | false => obtain ⟨p, hs, _⟩ := splitWs_of_decExpLine_v3 l e h; exact ⟨_, hs⟩
  | true => obtain ⟨p, hs, _⟩ := TT.Lemmas.More8.splitWs_of_decExpLine_v4 l e h; exact ⟨_, hs⟩


/-! #### one sentence -/

theorem decBody_unpack (sid : Nat) (body : List ExpNode) (s : ExpSentence) (h : decBody sid body = some s) :
    buildExp (tokT (numberBody body 1)) (conT (numberBody body 1)) (body.length + 2) 0 = some s.tree ∧ s.sid = sid ∧
    s.parentsResolve = body.all (fun e => e.parent == 0 || ((conT (numberBody body 1)).any (·.1 == e.parent))) := by
  unfold decBody at h
  have e1 : ((body.filter (fun e => !(consNumber e.word).isSome)).zipIdx.map fun (e, i) => (i + 1, e)) = tokT (numberBody body 1) :=
    toks_eq body 0
  have e2 : ((body.filter (fun e => (consNumber e.word).isSome)).filterMap fun e => (consNumber e.word).map fun n => (n, e)) =
      conT (numberBody body 1) := cons_eq body 1
  simp only [e1, e2] at h
  cases hb : buildExp (tokT (numberBody body 1)) (conT (numberBody body 1)) (body.length + 2) 0 with
  | none => rw [hb] at h; cases h
  | some t =>
    rw [hb] at h
    simp only [Option.map_some, Option.some.injEq] at h
    subst h
    exact ⟨rfl, rfl, rfl⟩

theorem nbok_of (body : List ExpNode) (hcons : ∀ e ∈ body, ∀ n, consNumber e.word = some n → 500 ≤ n)
    (hN : (body.filter fun e => !isC e).length < 500)
    (hres : body.all (fun e => e.parent == 0 || ((conT (numberBody body 1)).any (·.1 == e.parent))) = true) :
    NBOK (numberBody body 1) ∧ (∀ e ∈ body, e.parent = 0 ∨ (500 ≤ e.parent ∧ e.parent < 1000)) ∧
    ((nodT (numberBody body 1)).any (fun (n, _) => n > 999) = false) := by
  have hc : ∀ x ∈ numberBody body 1, isC x.2 = true → 500 ≤ x.1 ∧ x.1 < 1000 := by
    intro x hx hcx
    have h1 := numberBody_cons_num body 1 x hx hcx
    exact ⟨hcons x.2 (numberBody_mem body 1 x hx) x.1 h1, consNumber_lt _ _ h1⟩
  have ht : ∀ x ∈ numberBody body 1, isC x.2 = false → x.1 < 500 ∧ x.1 ≠ 0 := by
    intro x hx hcx
    have := numberBody_tok_range body 1 x hx hcx
    omega
  have hp : ∀ e ∈ body, e.parent = 0 ∨ (500 ≤ e.parent ∧ e.parent < 1000) := by
    intro e he
    have := List.all_eq_true.1 hres e he
    simp only [Bool.or_eq_true, beq_iff_eq, List.any_eq_true] at this
    rcases this with h | ⟨y, hy, hye⟩
    · exact Or.inl h
    · right
      unfold conT at hy
      obtain ⟨hy1, hy2⟩ := List.mem_filter.1 hy
      rw [← hye]
      exact hc y hy1 hy2
  refine ⟨⟨fun x hx h => (hc x hx h).1, ht, ?_⟩, hp, ?_⟩
  · intro x hx
    rcases hp x.2 (numberBody_mem body 1 x hx) with h | h
    · exact Or.inl h
    · exact Or.inr h.1
  · rw [List.any_eq_false]
    intro x hx
    unfold nodT at hx
    obtain ⟨y, hy, rfl⟩ := List.mem_map.1 hx
    simp only [gt_iff_lt, decide_eq_true_eq, Nat.not_lt]
    cases hcy : isC y.2 with
    | true => have := hc y hy hcy; omega
    | false => have := ht y hy hcy; omega

/-- the reader's sentence builder on lines that parse to the decoder's body -/
theorem sentence_sim (o : InOpts) (sid : Nat) (body : List ExpNode) (s : ExpSentence) (hdec : decBody sid body = some s)
    (hwf : WF s.tree = true) (hres : s.parentsResolve = true)
    (hcons : ∀ e ∈ body, ∀ n, consNumber e.word = some n → 500 ≤ n)
    (hN : (body.filter fun e => !isC e).length < 500)
    (lines : List Str) (hparse : lines.mapM (exportParseLine o) = .ok (body.map toF)) :
    ∃ r, exportSentence o lines = .ok r ∧ nf r = sortKids s.tree := by
  obtain ⟨hb, _, hpr⟩ := decBody_unpack sid body s hdec
  rw [hpr] at hres
  obtain ⟨ok, _, hsmall⟩ := nbok_of body hcons hN hres
  obtain ⟨r, hr, hnf⟩ := build_sim _ ok _ _ _ hb (WF_noEmpty _ hwf) (WF_sibDistinct _ hwf)
  refine ⟨r, ?_, hnf⟩
  rw [exportSentence_eq, hparse]
  have hn : ((body.map toF).foldl rstep ([], 1)).1 = nodT (numberBody body 1) := by
    rw [nodes_eq body [] 1]; rfl
  show (if (((body.map toF).foldl rstep ([], 1)).1).any (fun (n, _) => n > 999) then throw Err.valueError
      else match exportBuild ((body.map toF).foldl rstep ([], 1)).1 (((body.map toF).foldl rstep ([], 1)).1.length + 2) 0 with
        | some t => pure t
        | none => throw Err.other) = Except.ok r
  have hlen : (nodT (numberBody body 1)).length = body.length := by
    unfold nodT; rw [List.length_map, numberBody_length]
  rw [hn, hsmall, hlen, hr]
  rfl

/-! #### one sentence block in the reader's loop -/

theorem exportLoop_block (o : InOpts) (hg : o.gfSplit = false) (v4 : Bool) (ls : List Str) (s : ExpSentence)
    (h : decExport v4 ls = some s) (hok : ExportBlockOK v4 ls = true) (hwf : WF s.tree = true) (hres : s.parentsResolve = true) :
    (∀ l ∈ ls, '\n' ∉ l) ∧
    ∃ r, nf r = sortKids s.tree ∧ ∀ (rest : List Str) (cnt : Nat) (acc : List (Nat × Tree)),
      exportLoop o (ls ++ rest) none cnt acc =
        exportLoop o rest none (cnt + 1) ((if o.continuous then cnt else s.sid, if o.replaceParens then replaceParensTree r else r) :: acc) := by
  obtain ⟨first, mid, last, n1, n2, body, rfl, hs1, hn1, hs2, hn2, hbody, hdec⟩ := decExport_unpack v4 ls s h
  obtain ⟨hnl, hb, hN⟩ := blockOK_unpack v4 first last mid _ _ _ _ body hs1 hs2 hbody hok
  refine ⟨hnl, ?_⟩
  obtain ⟨hbuild, _, hpr⟩ := decBody_unpack s.sid body s hdec
  have hres' := hres
  rw [hpr] at hres'
  obtain ⟨_, hpar, _⟩ := nbok_of body (fun e he => (hb e he).2.2) hN hres'
  -- the lines parse
  have hparse : (mid.map strip).mapM (exportParseLine o) = .ok (body.map toF) := by
    have : ∀ (mid : List Str) (body : List ExpNode), mid.mapM (decExpLine v4) = some body →
        (∀ e ∈ body, (v4 = true → pyIsDigit e.edge = false) ∧ (e.parent = 0 ∨ (500 ≤ e.parent ∧ e.parent < 1000))) →
        (mid.map strip).mapM (exportParseLine o) = .ok (body.map toF) := by
      intro mid
      induction mid with
      | nil =>
        intro body hm _
        simp only [List.mapM_nil, pure, Option.some.injEq] at hm
        subst hm; rfl
      | cons l mid ih =>
        intro body hm hall
        rw [List.mapM_cons] at hm
        cases hl : decExpLine v4 l with
        | none => simp [hl] at hm
        | some e =>
          cases hr : mid.mapM (decExpLine v4) with
          | none => simp [hl, hr] at hm
          | some body' =>
            simp only [hl, hr, Option.bind_eq_bind, Option.bind_some, pure, Option.some.injEq] at hm
            subst hm
            rw [List.map_cons, List.mapM_cons, parse_strip o hg v4 l e hl (hall e (by simp)).1 (hall e (by simp)).2,
              ih body' hr (fun x hx => hall x (by simp [hx]))]
            rfl
    exact this mid body hbody (fun e he => ⟨(hb e he).1, hpar e he⟩)
  obtain ⟨r, hr, hnf⟩ := sentence_sim o s.sid body s hdec hwf hres (fun e he => (hb e he).2.2) hN _ hparse
  refine ⟨r, hnf, ?_⟩
  intro rest cnt acc
  have hmidE : ∀ l ∈ mid, "#EOS".toList.isPrefixOf (strip l) = false := by
    intro l hl
    obtain ⟨e, he, hle⟩ := mapM_mem _ _ _ hbody l hl
    obtain ⟨ws, hws⟩ := word_of_decExpLine v4 l e hle
    rw [strip_first_field l _ _ hws _ noSpace_eos]
    exact (hb e he).2.1
  rw [List.cons_append, List.append_assoc,
    exportLoop_bos o first _ cnt acc s.sid (by rw [strip_first_field first _ _ hs1 _ noSpace_bos]; rfl) (by
      rw [splitWs_strip, hs1]; exact hn1),
    exportLoop_collect' o cnt acc s.sid mid _ [] hmidE, List.singleton_append,
    exportLoop_eos o last rest cnt acc s.sid _ r (by rw [strip_first_field last _ _ hs2 _ noSpace_eos]; rfl) (by
      rw [List.append_nil, List.reverse_reverse]; exact hr)]


open TT.Lemmas.Read

/-! ### well-formedness of what the bracket grammar delivers -/

def NodeInv (cnt : Nat) (res : Tree × Str × Nat) : Prop :=
  res.1.noEmpty = true ∧ cnt < res.2.2 ∧ res.1.leafNums = List.range' cnt (res.2.2 - cnt)

def KidsInv (cnt : Nat) (acc : List Tree) (res : List Tree × Str × Nat) : Prop :=
  ∃ new, res.1 = acc.reverse ++ new ∧ cnt ≤ res.2.2 ∧ (∀ k ∈ new, k.noEmpty = true) ∧
    new.flatMap leafNums = List.range' cnt (res.2.2 - cnt)

theorem nodeInv_leaf (cnt : Nat) (f : Fields) (r : Str) : NodeInv cnt (leaf cnt f, r, cnt + 1) := by
  refine ⟨rfl, by simp, ?_⟩
  simp [leafNums_leaf]

theorem spNode_inv (ep : Bool) (fuel : Nat)
    (K : ∀ s cnt acc res, spKids ep fuel s cnt acc = some res → KidsInv cnt acc res) :
    ∀ root s cnt res, spNode ep root (fuel + 1) s cnt = some res → NodeInv cnt res := by
  intro root s cnt res h
  cases s with
  | nil => simp [spNode] at h
  | cons c r =>
    by_cases hc : c = '('
    · subst hc
      simp only [spNode] at h
      split at h
      · cases h
      split at h
      · split at h
        · simp only [Option.some.injEq] at h; subst h; exact nodeInv_leaf _ _ _
        · cases h
      · split at h
        · -- constituent
          rename_i r3' heq
          split at h
          · rename_i ks rest cnt' hk
            split at h
            · cases h
            · simp only [Option.some.injEq] at h
              subst h
              obtain ⟨new, hnew, hle, hne, hfl⟩ := K _ _ _ _ hk
              simp only [List.reverse_nil, List.nil_append] at hnew
              subst hnew
              rename_i hemp
              simp only at hle hfl
              have hks : ks ≠ [] := by cases ks <;> simp_all
              have hpos : cnt < cnt' := by
                cases ks with
                | nil => exact absurd rfl hks
                | cons k ks' =>
                  have h1 := noEmpty_leafNums_ne_nil k (hne k (by simp))
                  cases hd : cnt' - cnt with
                  | zero =>
                    rw [hd] at hfl
                    simp only [List.flatMap_cons, List.range'_zero, List.append_eq_nil_iff] at hfl
                    exact absurd hfl.1 h1
                  | succ m => omega
              refine ⟨(noEmpty_node _ _).2 ⟨hks, hne⟩, hpos, ?_⟩
              rw [leafNums_node]; exact hfl
          · cases h
        · split at h
          · split at h
            · simp only [Option.some.injEq] at h; subst h; exact nodeInv_leaf _ _ _
            · cases h
          · cases h
        · cases h
    · unfold spNode at h
      split at h
      · cases h
      · rename_i heq; injection heq with h1; exact absurd h1 hc
      · cases h


theorem spKids_inv (ep : Bool) (fuel : Nat)
    (N : ∀ root s cnt res, spNode ep root fuel s cnt = some res → NodeInv cnt res)
    (K : ∀ s cnt acc res, spKids ep fuel s cnt acc = some res → KidsInv cnt acc res) :
    ∀ s cnt acc res, spKids ep (fuel + 1) s cnt acc = some res → KidsInv cnt acc res := by
  intro s cnt acc res h
  simp only [spKids] at h
  split at h
  · simp only [Option.some.injEq] at h
    subst h
    exact ⟨[], by simp, Nat.le_refl _, by simp, by simp⟩
  · split at h
    · rename_i k rest cnt' hn
      obtain ⟨h1, h2, h3⟩ := N _ _ _ _ hn
      obtain ⟨new, hnew, hle, hne, hfl⟩ := K _ _ _ _ h
      simp only at h1 h2 h3
      refine ⟨k :: new, by rw [hnew]; simp, by omega, ?_, ?_⟩
      · intro x hx
        rcases List.mem_cons.1 hx with rfl | hx
        · exact h1
        · exact hne x hx
      · rw [List.flatMap_cons, h3, hfl]
        have e : res.2.2 - cnt = (cnt' - cnt) + (res.2.2 - cnt') := by omega
        rw [e, ← List.range'_append_1]
        congr 2
        omega
    · cases h
  · cases h

theorem sp_inv (ep : Bool) : ∀ fuel,
    (∀ root s cnt res, spNode ep root fuel s cnt = some res → NodeInv cnt res) ∧
    (∀ s cnt acc res, spKids ep fuel s cnt acc = some res → KidsInv cnt acc res) := by
  intro fuel
  induction fuel with
  | zero => exact ⟨fun _ _ _ _ h => by simp [spNode] at h, fun _ _ _ _ h => by simp [spKids] at h⟩
  | succ fuel ih => exact ⟨spNode_inv ep fuel ih.2, spKids_inv ep fuel ih.1 ih.2⟩

theorem sortBy_id_range' (a n : Nat) : sortBy id (List.range' a n) = List.range' a n := by
  apply sortBy_of_sorted
  simp only [id]
  exact (List.pairwise_lt_range' (s := a) (n := n)).imp (fun h => Nat.le_of_lt h)

theorem WFc_of_nodeInv (res : Tree × Str × Nat) (h : NodeInv 1 res) : WFc res.1 = true := by
  obtain ⟨h1, h2, h3⟩ := h
  cases ht : res.1 with
  | leaf n f =>
    rw [ht, leafNums_leaf] at h3
    have : res.2.2 - 1 = 1 := by
      have := congrArg List.length h3
      simpa using this.symm
    rw [this] at h3
    simp only [List.range'_one, List.cons.injEq, and_true] at h3
    simp [WFc, h3]
  | node f ks =>
    rw [ht] at h1 h3
    show WF (node f ks) = true
    rw [WF_iff]
    refine ⟨rfl, h1, ?_, ?_⟩
    · rw [h3, sortBy_id_range', List.length_range']
    · exact noEmpty_leafNums_ne_nil _ h1

theorem spGroups_WFc (ep : Bool) : ∀ (fuel : Nat) (s : Str) (acc ts : List Tree), spGroups ep fuel s acc = some ts →
    (∀ t ∈ acc, WFc t = true) → ∀ t ∈ ts, WFc t = true := by
  intro fuel
  induction fuel with
  | zero => intro s acc ts h; simp [spGroups] at h
  | succ fuel ih =>
    intro s acc ts h hacc
    cases s with
    | nil =>
      simp only [spGroups, Option.some.injEq] at h
      subst h
      intro t ht
      exact hacc t (by simpa using ht)
    | cons c r =>
      by_cases hc : c = '('
      · subst hc
        simp only [spGroups] at h
        split at h
        · rename_i t rest _ hn
          have := WFc_of_nodeInv _ ((sp_inv ep _).1 _ _ _ _ hn)
          exact ih _ _ _ h (by
            intro x hx
            rcases List.mem_cons.1 hx with rfl | hx
            · exact this
            · exact hacc x hx)
        · cases h
      · have : spGroups ep (fuel + 1) (c :: r) acc = spGroups ep fuel r acc := by
          rw [spGroups]
          intro h; exact hc h
        rw [this] at h
        exact ih _ _ _ h hacc


/-! ### bracket reader: the label-rewriting options as post-processing -/

def sepOf (o : InOpts) : Str := o.gfSeparator.getD DEFAULT_GF_SEP

/-- fields under `gf_split` (a node under construction that has no label yet has no edge either) -/
def fF (o : InOpts) (f : Fields) : Fields :=
  if o.gfSplit && f.edge.isSome then
    { f with label := (gfSplitLabel (sepOf o) f.label).1, edge := some (gfSplitLabel (sepOf o) f.label).2 }
  else f

mutual
def gT (o : InOpts) : Tree → Tree
  | .leaf n f => .leaf n (fF o f)
  | .node f ks => .node (fF o f) (gTL o ks)
def gTL (o : InOpts) : List Tree → List Tree
  | [] => []
  | t :: ts => gT o t :: gTL o ts
end

theorem gTL_eq (o : InOpts) : ∀ ks, gTL o ks = ks.map (gT o)
  | [] => rfl
  | t :: ts => by simp [gTL, gTL_eq o ts]

def gQ (o : InOpts) (q : QNode) : QNode := { f := fF o q.f, kids := q.kids.map (gT o), num := q.num, raw := q.raw }

def pT (o : InOpts) (t : Tree) : Tree := if o.replaceParens then replaceParensTree (gT o t) else gT o t

def gS (o : InOpts) (st : BrState) : BrState :=
  { st with queue := st.queue.map (gQ o), out := st.out.map (fun x => (x.1, pT o x.2)) }

def baseOpts (o : InOpts) : InOpts := { o with gfSplit := false, replaceParens := false }

theorem gQ_empty (o : InOpts) : gQ o {} = {} := by
  simp [gQ, fF]

theorem gQ_toTree (o : InOpts) (q : QNode) : (gQ o q).toTree = gT o q.toTree := by
  unfold QNode.toTree gQ
  cases q.num with
  | none => simp [gT, gTL_eq]
  | some n =>
    simp only
    cases hk : q.kids with
    | nil => simp [gT]
    | cons k ks => simp [gT, gTL_eq]

theorem updLast_map (o : InOpts) (q : List QNode) (g1 g2 : QNode → QNode)
    (h : ∀ x, q.getLast? = some x → gQ o (g1 x) = g2 (gQ o x)) :
    updLast (q.map (gQ o)) g2 = (updLast q g1).map (gQ o) := by
  unfold updLast
  rw [← List.map_reverse]
  cases hq : q.reverse with
  | nil => simp
  | cons x r =>
    have : q.getLast? = some x := by
      rw [List.getLast?_eq_head?_reverse, hq]; rfl
    simp [h x this]

theorem closeLast_map (o : InOpts) (q : List QNode) :
    closeLast (q.map (gQ o)) = (closeLast q).map (gQ o) := by
  unfold closeLast
  rw [← List.map_reverse]
  cases hq : q.reverse with
  | nil => simp [List.reverse_eq_nil_iff.1 hq]
  | cons x r =>
    cases r with
    | nil =>
      have : q = [x] := by
        have := congrArg List.reverse hq
        simpa using this
      simp [this]
    | cons y r =>
      simp only [List.map_cons, List.map_reverse, List.reverse_cons, List.map_append, List.map_nil]
      simp [gQ, ← gQ_toTree]


/-- in state 9 the node on top of the stack has no label yet -/
def Fresh9 (st : BrState) : Prop := st.state = 9 → ∀ x, st.queue.getLast? = some x → x.f.edge = none

/-- the result of one step, transported -/
def stepMap (o : InOpts) : Except Err (BrState × Option Tree) → Except Err (BrState × Option Tree)
  | .error e => .error e
  | .ok (st, r) => .ok (gS o st, r.map (pT o))

theorem base_emptyPos (o : InOpts) : (baseOpts o).emptyPos = o.emptyPos := rfl

theorem fF_label_root (o : InOpts) (f : Fields) (h : f.edge = none) :
    fF o { f with label := DEFAULT_ROOT } = { fF o f with label := DEFAULT_ROOT } := by
  simp [fF, h]

theorem fF_word (o : InOpts) (f : Fields) (w : Option Str) : fF o { f with word := w } = { fF o f with word := w } := by
  unfold fF
  split <;> rfl

theorem fF_token (o : InOpts) (f : Fields) (w : Str) :
    fF o { f with label := w, edge := some DEFAULT_EDGE, morph := some DEFAULT_MORPH } =
      { fF o f with label := (if o.gfSplit then gfSplitLabel (sepOf o) w else (w, DEFAULT_EDGE)).1,
                    edge := some (if o.gfSplit then gfSplitLabel (sepOf o) w else (w, DEFAULT_EDGE)).2, morph := some DEFAULT_MORPH } := by
  unfold fF
  cases o.gfSplit with
  | false => rfl
  | true =>
    simp only [Bool.true_and, Option.isSome_some, if_true]
    split <;> rfl

theorem step_sim_lrb (o : InOpts) (st : BrState) (w : Str) (hI : Fresh9 st) :
    brStep o (gS o st) (w, .lrb) = stepMap o (brStep (baseOpts o) st (w, .lrb)) := by
  simp only [brStep, gS]
  by_cases h1 : (st.state == 0 || st.state == 2 || st.state == 3 || st.state == 5) = true
  · simp only [h1, if_true, stepMap, gS, List.map_append, List.map_cons, List.map_nil, gQ_empty, Option.map_none]
    rfl
  · simp only [h1, Bool.false_eq_true, if_false]
    by_cases h9 : (st.state == 9) = true
    · simp only [h9, if_true, stepMap, gS, List.map_append, List.map_cons, List.map_nil, gQ_empty, Option.map_none]
      rw [updLast_map o st.queue (fun q => { q with f := { q.f with label := DEFAULT_ROOT } })]
      intro x hx
      have := hI (by simpa using h9) x hx
      simp only [gQ, fF_label_root o x.f this]
    · simp only [h9, Bool.false_eq_true, if_false, stepMap]

theorem step_sim_ws (o : InOpts) (st : BrState) (w : Str) :
    brStep o (gS o st) (w, .ws) = stepMap o (brStep (baseOpts o) st (w, .ws)) := by
  simp only [brStep, gS]
  by_cases h2 : (st.state == 2) = true
  · simp only [h2, if_true, stepMap, gS, Option.map_none]
  · simp only [h2, Bool.false_eq_true, if_false, stepMap, gS, Option.map_none]

theorem step_sim_token (o : InOpts) (st : BrState) (w : Str) :
    brStep o (gS o st) (w, .token) = stepMap o (brStep (baseOpts o) st (w, .token)) := by
  simp only [brStep, gS]
  by_cases h0 : (st.state == 0) = true
  · simp only [h0, if_true, stepMap, gS, Option.map_none]
  · simp only [h0, Bool.false_eq_true, if_false]
    by_cases h19 : (st.state == 1 || st.state == 9) = true
    · simp only [h19, if_true, stepMap, gS, Option.map_none]
      have hb : (baseOpts o).gfSplit = false := rfl
      simp only [hb, Bool.false_eq_true, if_false]
      rw [updLast_map o st.queue (fun q => { q with f := { q.f with label := w, edge := some DEFAULT_EDGE, morph := some DEFAULT_MORPH }, raw := w })]
      intro x _
      simp only [gQ, fF_token]
      cases o.gfSplit <;> rfl
    · simp only [h19, Bool.false_eq_true, if_false]
      by_cases h3 : (st.state == 3) = true
      · simp only [h3, if_true, stepMap, gS, Option.map_none]
        rw [updLast_map o st.queue (fun q => { q with f := { q.f with word := some w }, num := some st.termCnt })]
        intro x _
        simp only [gQ, fF_word]
      · simp only [h3, Bool.false_eq_true, if_false, stepMap]


theorem fF_id (o : InOpts) (h : o.gfSplit = false) (f : Fields) : fF o f = f := by simp [fF, h]

def emptyPosUpd (tc : Nat) (q : QNode) : QNode :=
  { q with f := { q.f with word := some q.raw, label := DEFAULT_LABEL, edge := some DEFAULT_EDGE, morph := some DEFAULT_MORPH }, num := some tc }

/-- the end of the ")" step: attach the innermost node; deliver the tree at level 0 -/
def rrbTail (rp : Bool) (st : BrState) (Q : List QNode) (T : Nat) : Except Err (BrState × Option Tree) :=
  let Q' := if Q.length > 1 then closeLast Q else Q
  if st.level - 1 == 0 then
    match Q'.head? with
    | some root => .ok ({ st with state := 0, level := 0, queue := [], termCnt := 1, cnt := st.cnt + 1 },
        some (if rp then replaceParensTree root.toTree else root.toTree))
    | none => .error .indexError
  else .ok ({ st with state := 5, level := st.level - 1, queue := Q', termCnt := T }, none)

/-- the ")" step, with the intermediate values named -/
def rrbStep (o : InOpts) (st : BrState) : Except Err (BrState × Option Tree) :=
  if st.state == 0 then .ok (st, none)
  else if st.state == 2 || st.state == 4 || st.state == 5 then
    if st.state == 2 && !o.emptyPos then .error .valueError else
    if st.state == 2 then rrbTail o.replaceParens st (updLast st.queue (emptyPosUpd st.termCnt)) (st.termCnt + 1)
    else rrbTail o.replaceParens st st.queue st.termCnt
  else .error .valueError

theorem brStep_rrb (o : InOpts) (st : BrState) (w : Str) : brStep o st (w, .rrb) = rrbStep o st := by
  unfold brStep rrbStep rrbTail
  simp only
  by_cases h2 : (st.state == 2) = true
  · simp only [h2, if_true]; rfl
  · simp only [h2, Bool.false_eq_true, if_false]; rfl

theorem rrbTail_sim (o : InOpts) (st : BrState) (Q : List QNode) (T : Nat) :
    rrbTail o.replaceParens (gS o st) (Q.map (gQ o)) T = stepMap o (rrbTail false st Q T) := by
  unfold rrbTail
  simp only [List.length_map]
  have hC : (if Q.length > 1 then closeLast (Q.map (gQ o)) else Q.map (gQ o)) = (if Q.length > 1 then closeLast Q else Q).map (gQ o) := by
    split
    · exact closeLast_map o Q
    · rfl
  rw [hC]
  generalize (if Q.length > 1 then closeLast Q else Q) = Q'
  have hlev : (gS o st).level = st.level := rfl
  rw [hlev]
  by_cases hl : (st.level - 1 == 0) = true
  · simp only [hl, if_true, List.head?_map]
    cases hh : Q'.head? with
    | none => simp [stepMap]
    | some root =>
      simp only [Option.map_some, stepMap, gS, List.map_nil, gQ_toTree, Bool.false_eq_true, if_false, pT]
  · simp only [hl, Bool.false_eq_true, if_false, stepMap, gS, Option.map_none]

/-- `gf_split` together with empty POS tags: the reader gives a token written without a tag the default label and edge
    label, unsplit.  It agrees with the post-processing view (split every labelled node of the plain result) exactly when
    splitting the default label changes nothing - true for every separator except the single letters `M`, `P`, `T`
    (`emptyOK_of_sep`), in particular for the default separator and whenever the two options are not used together. -/
def EmptyOK (o : InOpts) : Prop :=
  o.gfSplit = true → o.emptyPos = true → gfSplitLabel (sepOf o) DEFAULT_LABEL = (DEFAULT_LABEL, DEFAULT_EDGE)

theorem emptyOK_of_excl (o : InOpts) (h : o.gfSplit = true → o.emptyPos = false) : EmptyOK o := by
  intro hg he; rw [h hg] at he; cases he

theorem splitGf_default_label (sep : Str) (h : sep ≠ ['M'] ∧ sep ≠ ['P'] ∧ sep ≠ ['T']) : splitGf sep DEFAULT_LABEL = none := by
  cases sep with
  | nil => rfl
  | cons c t =>
    cases t with
    | cons d t => rfl
    | nil =>
      have hM : c ≠ 'M' := fun e => h.1 (by rw [e])
      have hP : c ≠ 'P' := fun e => h.2.1 (by rw [e])
      have hT : c ≠ 'T' := fun e => h.2.2 (by rw [e])
      by_cases hE : c = 'E'
      · subst hE; decide
      by_cases hY : c = 'Y'
      · subst hY; decide
      have e1 : ('E' = c) = False := eq_false (fun e => hE e.symm)
      have e2 : ('M' = c) = False := eq_false (fun e => hM e.symm)
      have e3 : ('P' = c) = False := eq_false (fun e => hP e.symm)
      have e4 : ('T' = c) = False := eq_false (fun e => hT e.symm)
      have e5 : ('Y' = c) = False := eq_false (fun e => hY e.symm)
      simp [splitGf, DEFAULT_LABEL, splitFirst, e1, e2, e3, e4, e5]

theorem gfSplitLabel_default_label (sep : Str) (h : sep ≠ ['M'] ∧ sep ≠ ['P'] ∧ sep ≠ ['T']) :
    gfSplitLabel sep DEFAULT_LABEL = (DEFAULT_LABEL, DEFAULT_EDGE) := by
  have h1 : stripHead DEFAULT_LABEL = (false, DEFAULT_LABEL) := by decide
  have h2 : stripIndex '-' DEFAULT_LABEL = ([], DEFAULT_LABEL) := by decide
  have h3 : stripIndex '=' DEFAULT_LABEL = ([], DEFAULT_LABEL) := by decide
  simp only [gfSplitLabel, parseLabel, h1, h2, h3, splitGf_default_label sep h]
  decide

theorem emptyOK_of_sep (o : InOpts) (h : sepOf o ≠ ['M'] ∧ sepOf o ≠ ['P'] ∧ sepOf o ≠ ['T']) : EmptyOK o :=
  fun _ _ => gfSplitLabel_default_label _ h

theorem emptyOK_default (o : InOpts) (h : o.gfSeparator = none) : EmptyOK o :=
  emptyOK_of_sep o (by simp only [sepOf, h, Option.getD_none]; decide)

theorem gQ_emptyPosUpd (o : InOpts) (ho : EmptyOK o) (he : o.emptyPos = true) (tc : Nat) (x : QNode) :
    gQ o (emptyPosUpd tc x) = emptyPosUpd tc (gQ o x) := by
  cases hg : o.gfSplit with
  | false => simp only [gQ, emptyPosUpd, fF_id o hg]
  | true =>
    have := ho hg he
    simp only [gQ, emptyPosUpd, fF, hg, Bool.true_and, Option.isSome_some, if_true, this]
    split <;> rfl

theorem step_sim_rrb (o : InOpts) (ho : EmptyOK o) (st : BrState) (w : Str) :
    brStep o (gS o st) (w, .rrb) = stepMap o (brStep (baseOpts o) st (w, .rrb)) := by
  rw [brStep_rrb, brStep_rrb]
  unfold rrbStep
  have e1 : (gS o st).state = st.state := rfl
  have e2 : (gS o st).queue = st.queue.map (gQ o) := rfl
  have e3 : (gS o st).termCnt = st.termCnt := rfl
  have e4 : (baseOpts o).replaceParens = false := rfl
  simp only [e1, e2, e3, e4, base_emptyPos]
  by_cases h0 : (st.state == 0) = true
  · simp only [h0, if_true, stepMap, Option.map_none]
  simp only [h0, Bool.false_eq_true, if_false]
  by_cases h245 : (st.state == 2 || st.state == 4 || st.state == 5) = true
  · simp only [h245, if_true]
    by_cases h2e : (st.state == 2 && !o.emptyPos) = true
    · simp only [h2e, if_true, stepMap]
    simp only [h2e, Bool.false_eq_true, if_false]
    by_cases h2 : (st.state == 2) = true
    · simp only [h2, if_true]
      have he : o.emptyPos = true := by
        cases he : o.emptyPos with
        | true => rfl
        | false => simp [h2, he] at h2e
      rw [updLast_map o st.queue (emptyPosUpd st.termCnt) (emptyPosUpd st.termCnt) (by
        intro x _
        exact gQ_emptyPosUpd o ho he _ x)]
      exact rrbTail_sim o st _ _
    · simp only [h2, Bool.false_eq_true, if_false]
      exact rrbTail_sim o st _ _
  · simp only [h245, Bool.false_eq_true, if_false, stepMap]


theorem step_sim (o : InOpts) (ho : EmptyOK o) (st : BrState) (tok : Str × LexClass) (hI : Fresh9 st) :
    brStep o (gS o st) tok = stepMap o (brStep (baseOpts o) st tok) := by
  obtain ⟨w, c⟩ := tok
  cases c with
  | token => exact step_sim_token o st w
  | ws => exact step_sim_ws o st w
  | lrb => exact step_sim_lrb o st w hI
  | rrb => exact step_sim_rrb o ho st w

theorem fresh9_step (o : InOpts) (st st' : BrState) (tok : Str × LexClass) (r : Option Tree)
    (h : brStep o st tok = .ok (st', r)) (hI : Fresh9 st) : Fresh9 st' := by
  obtain ⟨w, c⟩ := tok
  cases c with
  | token =>
    simp only [brStep] at h
    split at h
    · cases h; exact hI
    split at h
    · cases h; intro h9; cases h9
    split at h
    · cases h; intro h9; cases h9
    · cases h
  | ws =>
    simp only [brStep] at h
    split at h
    · cases h; intro h9; cases h9
    · cases h; exact hI
  | lrb =>
    simp only [brStep] at h
    split at h
    · cases h
      intro _ x hx
      simp only [List.getLast?_append, List.getLast?_singleton, Option.some_or, Option.some.injEq] at hx
      subst hx; rfl
    split at h
    · cases h; intro h9; cases h9
    · cases h
  | rrb =>
    rw [brStep_rrb] at h
    unfold rrbStep rrbTail at h
    split at h
    · cases h; exact hI
    split at h
    · split at h
      · cases h
      split at h <;>
      · simp only at h
        split at h
        · split at h
          · cases h; intro h9; cases h9
          · cases h
        · cases h; intro h9; cases h9
    · cases h

/-- the run with options equals the transported run without -/
theorem run_sim (o : InOpts) (ho : EmptyOK o) : ∀ (toks : List (Str × LexClass)) (st : BrState), Fresh9 st →
    brRun o (gS o st) toks = (brRun (baseOpts o) st toks).map (List.map fun x => (x.1, pT o x.2)) := by
  intro toks
  induction toks with
  | nil =>
    intro st _
    simp only [brRun, gS]
    by_cases hl : (st.level != 0) = true
    · simp only [hl, if_true]; rfl
    · simp only [hl, Bool.false_eq_true, if_false, Except.map, List.map_reverse]
  | cons tok rest ih =>
    intro st hI
    simp only [brRun]
    rw [step_sim o ho st tok hI]
    cases hs : brStep (baseOpts o) st tok with
    | error e => rfl
    | ok x =>
      obtain ⟨st', r⟩ := x
      have hI' := fresh9_step _ _ _ _ _ hs hI
      cases r with
      | none =>
        simp only [stepMap, Option.map_none]
        exact ih st' hI'
      | some t =>
        simp only [stepMap, Option.map_some]
        have : ({ gS o st' with out := ((gS o st).cnt, pT o t) :: (gS o st').out } : BrState) =
            gS o { st' with out := (st.cnt, t) :: st'.out } := rfl
        rw [this]
        exact ih _ (by intro h9; exact hI' h9)


/-- the bracket reader with label-rewriting options = the reader without them, post-processed -/
theorem readBrackets_sim (o : InOpts) (hd : o.disco = false) (ho : EmptyOK o) (text : Str) :
    readBrackets o text = (readBrackets (baseOpts o) text).map (List.map fun x => (x.1, pT o x.2)) := by
  unfold readBrackets
  rw [brLoop_eq_brRun o hd _ _ _ (by omega), brLoop_eq_brRun (baseOpts o) hd _ _ _ (by omega)]
  exact run_sim o ho _ { cnt := o.firstId.getD 1 } (by intro h; cases h)

/-! #### the post-processing on trees of the grammar: `gfSplitTree` on every labelled node -/

mutual
def allEdges : Tree → Bool
  | .leaf _ f => f.edge.isSome
  | .node f ks => f.edge.isSome && allEdgesL ks
def allEdgesL : List Tree → Bool
  | [] => true
  | t :: ts => allEdges t && allEdgesL ts
end

theorem allEdgesL_iff : ∀ ks, allEdgesL ks = true ↔ ∀ k ∈ ks, allEdges k = true
  | [] => by simp [allEdgesL]
  | t :: ts => by simp [allEdgesL, allEdgesL_iff ts]

theorem gfSplitTreeL_eq (sep : Str) : ∀ ks, gfSplitTreeL sep ks = ks.map (gfSplitTree sep)
  | [] => rfl
  | t :: ts => by simp [gfSplitTreeL, gfSplitTreeL_eq sep ts]

theorem fF_some (o : InOpts) (hg : o.gfSplit = true) (f : Fields) (h : f.edge.isSome = true) :
    fF o f = { f with label := (gfSplitLabel (sepOf o) f.label).1, edge := some (gfSplitLabel (sepOf o) f.label).2 } := by
  simp [fF, hg, h]

theorem gT_allEdges (o : InOpts) (hg : o.gfSplit = true) (t : Tree) (h : allEdges t = true) :
    gT o t = gfSplitTree (sepOf o) t := by
  induction t using tree_ind with
  | hl n f =>
    simp only [allEdges] at h
    simp only [gT, gfSplitTree, fF_some o hg f h]
  | hn f ks ih =>
    simp only [allEdges, Bool.and_eq_true, allEdgesL_iff] at h
    simp only [gT, gfSplitTree, fF_some o hg f h.1, gTL_eq, gfSplitTreeL_eq]
    congr 1
    exact List.map_congr_left (fun k hk => ih k hk (h.2 k hk))

theorem gT_id (o : InOpts) (hg : o.gfSplit = false) (t : Tree) : gT o t = t := by
  induction t using tree_ind with
  | hl n f => simp only [gT, fF_id o hg]
  | hn f ks ih =>
    simp only [gT, fF_id o hg, gTL_eq]
    congr 1
    conv => rhs; rw [← List.map_id ks]
    exact List.map_congr_left (fun k hk => by rw [ih k hk]; rfl)

/-- a tree of the grammar: every node has an edge label except possibly a label-less root -/
def RootOK (t : Tree) : Prop :=
  allEdges t = true ∨ ∃ f ks, t = node f ks ∧ f.edge = none ∧ ∀ k ∈ ks, allEdges k = true

theorem pT_eq_post (o : InOpts) (t : Tree) (h : RootOK t) : pT o t = bracketsPost o t := by
  have hgT : gT o t = if o.gfSplit then gfSplitRead (sepOf o) t else t := by
    cases hg : o.gfSplit with
    | false => simp [gT_id o hg]
    | true =>
      simp only [if_true]
      rcases h with h | ⟨f, ks, rfl, hf, hk⟩
      · rw [gT_allEdges o hg t h]
        cases t with
        | leaf n f => rfl
        | node f ks =>
          simp only [allEdges, Bool.and_eq_true] at h
          simp only [gfSplitRead]
          rw [if_neg (by simp [Option.isSome_iff_ne_none.1 h.1])]
      · simp only [gT, gfSplitRead, hf, Option.isNone_none, if_true, gTL_eq, gfSplitTreeL_eq]
        have : fF o f = f := by simp [fF, hf]
        rw [this]
        congr 1
        exact List.map_congr_left (fun k hk' => gT_allEdges o hg k (hk k hk'))
  unfold pT bracketsPost
  rw [hgT]
  rfl


def EdgeInv (root : Bool) (res : Tree × Str × Nat) : Prop := RootOK res.1 ∧ (root = false → allEdges res.1 = true)

def KidsEdgeInv (acc : List Tree) (res : List Tree × Str × Nat) : Prop :=
  ∃ new, res.1 = acc.reverse ++ new ∧ ∀ k ∈ new, allEdges k = true

theorem spNode_edges (ep : Bool) (fuel : Nat)
    (K : ∀ s cnt acc res, spKids ep fuel s cnt acc = some res → KidsEdgeInv acc res) :
    ∀ root s cnt res, spNode ep root (fuel + 1) s cnt = some res → EdgeInv root res := by
  intro root s cnt res h
  have leafOK : ∀ (n : Nat) (f : Fields) (r : Str) (m : Nat), f.edge.isSome = true → EdgeInv root (leaf n f, r, m) := by
    intro n f r m hf
    exact ⟨Or.inl (by simp [allEdges, hf]), fun _ => by simp [allEdges, hf]⟩
  cases s with
  | nil => simp [spNode] at h
  | cons c r =>
    by_cases hc : c = '('
    · subst hc
      simp only [spNode] at h
      split at h
      · cases h
      rename_i hlab
      split at h
      · split at h
        · simp only [Option.some.injEq] at h; subst h; exact leafOK _ _ _ _ rfl
        · cases h
      · split at h
        · split at h
          · rename_i ks rest cnt' hk
            split at h
            · cases h
            · simp only [Option.some.injEq] at h
              subst h
              obtain ⟨new, hnew, hall⟩ := K _ _ _ _ hk
              simp only [List.reverse_nil, List.nil_append] at hnew
              subst hnew
              by_cases hl : (List.takeWhile isTokC (skipWs r)).isEmpty = true
              · simp only [hl, if_true]
                refine ⟨Or.inr ⟨_, _, rfl, rfl, hall⟩, ?_⟩
                intro hr
                subst hr
                simp [hl] at hlab
              · simp only [hl, Bool.false_eq_true, if_false]
                have : allEdges (node { label := List.takeWhile isTokC (skipWs r), edge := some DEFAULT_EDGE, morph := some DEFAULT_MORPH } ks) = true := by
                  simp only [allEdges, Option.isSome_some, Bool.true_and]
                  exact (allEdgesL_iff _).2 hall
                exact ⟨Or.inl this, fun _ => this⟩
          · cases h
        · split at h
          · split at h
            · simp only [Option.some.injEq] at h; subst h; exact leafOK _ _ _ _ rfl
            · cases h
          · cases h
        · cases h
    · unfold spNode at h
      split at h
      · cases h
      · rename_i heq; injection heq with h1; exact absurd h1 hc
      · cases h

theorem spKids_edges (ep : Bool) (fuel : Nat)
    (N : ∀ root s cnt res, spNode ep root fuel s cnt = some res → EdgeInv root res)
    (K : ∀ s cnt acc res, spKids ep fuel s cnt acc = some res → KidsEdgeInv acc res) :
    ∀ s cnt acc res, spKids ep (fuel + 1) s cnt acc = some res → KidsEdgeInv acc res := by
  intro s cnt acc res h
  simp only [spKids] at h
  split at h
  · simp only [Option.some.injEq] at h
    subst h
    exact ⟨[], by simp, by simp⟩
  · split at h
    · rename_i k rest cnt' hn
      have h1 := (N _ _ _ _ hn).2 rfl
      obtain ⟨new, hnew, hall⟩ := K _ _ _ _ h
      refine ⟨k :: new, by rw [hnew]; simp, ?_⟩
      intro x hx
      rcases List.mem_cons.1 hx with rfl | hx
      · exact h1
      · exact hall x hx
    · cases h
  · cases h

theorem sp_edges (ep : Bool) : ∀ fuel,
    (∀ root s cnt res, spNode ep root fuel s cnt = some res → EdgeInv root res) ∧
    (∀ s cnt acc res, spKids ep fuel s cnt acc = some res → KidsEdgeInv acc res) := by
  intro fuel
  induction fuel with
  | zero => exact ⟨fun _ _ _ _ h => by simp [spNode] at h, fun _ _ _ _ h => by simp [spKids] at h⟩
  | succ fuel ih => exact ⟨spNode_edges ep fuel ih.2, spKids_edges ep fuel ih.1 ih.2⟩

theorem spGroups_rootOK (ep : Bool) : ∀ (fuel : Nat) (s : Str) (acc ts : List Tree), spGroups ep fuel s acc = some ts →
    (∀ t ∈ acc, RootOK t) → ∀ t ∈ ts, RootOK t := by
  intro fuel
  induction fuel with
  | zero => intro s acc ts h; simp [spGroups] at h
  | succ fuel ih =>
    intro s acc ts h hacc
    cases s with
    | nil =>
      simp only [spGroups, Option.some.injEq] at h
      subst h
      intro t ht
      exact hacc t (by simpa using ht)
    | cons c r =>
      by_cases hc : c = '('
      · subst hc
        simp only [spGroups] at h
        split at h
        · rename_i t rest _ hn
          have := ((sp_edges ep _).1 _ _ _ _ hn).1
          exact ih _ _ _ h (by
            intro x hx
            rcases List.mem_cons.1 hx with rfl | hx
            · exact this
            · exact hacc x hx)
        · cases h
      · have : spGroups ep (fuel + 1) (c :: r) acc = spGroups ep fuel r acc := by
          rw [spGroups]
          intro h; exact hc h
        rw [this] at h
        exact ih _ _ _ h hacc

theorem specBrackets_rootOK (ep : Bool) (text : Str) (ts : List Tree) (h : specBrackets ep text = some ts) : ∀ t ∈ ts, RootOK t :=
  spGroups_rootOK ep _ _ [] ts h (by simp)

theorem zip_map_snd {α β γ : Type} (g : β → γ) : ∀ (l1 : List α) (l2 : List β),
    (l1.zip l2).map (fun x => (x.1, g x.2)) = l1.zip (l2.map g)
  | [], _ => by simp
  | _ :: _, [] => by simp
  | a :: l1, b :: l2 => by simp [zip_map_snd g l1 l2]

/-- the bracket reader against the grammar, all options except the discobracket post-pass
    (`gf_split` together with empty POS tags: for the separators that leave the default label alone, `EmptyOK`) -/
theorem readBrackets_spec_opts (o : InOpts) (hd : o.disco = false) (ho : EmptyOK o) (text : Str) :
    match specBrackets o.emptyPos text with
    | some ts => readBrackets o text = .ok ((List.range' (o.firstId.getD 1) ts.length).zip (ts.map (bracketsPost o)))
    | none => ∃ e, readBrackets o text = .error e := by
  have hS := readBrackets_spec (baseOpts o) rfl rfl hd text
  rw [readBrackets_sim o hd ho text]
  have e1 : (baseOpts o).emptyPos = o.emptyPos := rfl
  have e2 : (baseOpts o).firstId = o.firstId := rfl
  rw [e1, e2] at hS
  cases hsp : specBrackets o.emptyPos text with
  | none =>
    rw [hsp] at hS
    obtain ⟨e, he⟩ := hS
    exact ⟨e, by rw [he]; rfl⟩
  | some ts =>
    rw [hsp] at hS
    simp only at hS ⊢
    rw [hS]
    simp only [Except.map]
    congr 1
    have hok := specBrackets_rootOK _ _ _ hsp
    rw [zip_map_snd]
    congr 1
    exact List.map_congr_left (fun t ht => pT_eq_post o t (hok t ht))


/-! ### well-formedness is kept by the maps that only rewrite fields -/

open TT.Lemmas.Run in
theorem goodMap_gT (o : InOpts) : GoodMap (gT o) where
  leaf n f := ⟨_, by rw [gT]⟩
  node f ks := ⟨_, _, by rw [gT, gTL_eq], List.Perm.refl _⟩

theorem replaceParensTreeL_eq : ∀ ks, replaceParensTreeL ks = ks.map replaceParensTree
  | [] => rfl
  | t :: ts => by simp [replaceParensTreeL, replaceParensTreeL_eq ts]

open TT.Lemmas.Run in
theorem goodMap_replaceParensTree : GoodMap replaceParensTree where
  leaf n f := ⟨_, by rw [replaceParensTree]⟩
  node f ks := ⟨_, _, by rw [replaceParensTree, replaceParensTreeL_eq], List.Perm.refl _⟩

open TT.Lemmas.Run in
theorem goodMap_gfSplitTree (sep : Str) : GoodMap (gfSplitTree sep) where
  leaf n f := ⟨_, by rw [gfSplitTree]⟩
  node f ks := ⟨_, _, by rw [gfSplitTree, gfSplitTreeL_eq], List.Perm.refl _⟩

open TT.Lemmas.Run in
theorem goodMap_WF {g : Tree → Tree} (hg : GoodMap g) (x : Tree) (h : WF x = true) : WF (g x) = true :=
  WF_of_perm x (g x) h (hg.leafNums_perm x) (by rw [hg.noEmpty_eq]; exact WF_noEmpty _ h)
    (by rw [hg.isLeaf_eq]; exact WF_isLeaf _ h)

open TT.Lemmas.Run in
theorem goodMap_WFc {g : Tree → Tree} (hg : GoodMap g) (x : Tree) (h : WFc x = true) : WFc (g x) = true := by
  cases x with
  | leaf n f =>
    obtain ⟨f', hf⟩ := hg.leaf n f
    rw [hf]; exact h
  | node f ks =>
    obtain ⟨f', ks', hf, _⟩ := hg.node f ks
    have := goodMap_WF hg (node f ks) h
    rw [hf] at this ⊢
    exact this

theorem WFc_pT (o : InOpts) (t : Tree) (h : WFc t = true) : WFc (pT o t) = true := by
  unfold pT
  split
  · exact goodMap_WFc goodMap_replaceParensTree _ (goodMap_WFc (goodMap_gT o) _ h)
  · exact goodMap_WFc (goodMap_gT o) _ h

open TT.Lemmas.Run in
/-- a tree with the normal form of a well-formed tree is well formed -/
theorem WF_of_nf {r t : Tree} (h : nf r = sortKids t) (hwf : WF t = true) : WF r = true := by
  have w1 : WF (sortKids t) = true := goodMap_WF goodMap_sortKids t hwf
  rw [← h] at w1
  exact goodMap_WF_inv goodMap_stripW _ (goodMap_WF_inv goodMap_sortKids _ w1)


/-! ### TIGER-XML and export readers: the label-rewriting options as post-processing -/

/-- `gf_split` then `replace_parens`, as the TIGER-XML reader applies them to the finished tree -/
def tigerPostL (o : InOpts) (t : Tree) : Tree :=
  let t := if o.gfSplit then gfSplitTree (o.gfSeparator.getD DEFAULT_GF_SEP) t else t
  if o.replaceParens then replaceParensTree t else t

theorem tigerSentence_post (o : InOpts) (s : XSent) :
    tigerSentence o s = (tigerSentence (baseOpts o) s).map (tigerPostL o) := by
  unfold tigerSentence
  simp only
  split
  · rfl
  split
  · rfl
  split
  · rfl
  · split
    · rfl
    · rfl
  · rfl


/-- the step of `readTiger` -/
def tigerStep (o : InOpts) (acc : List (Nat × Tree)) (si : XSent × Nat) : Except Err (List (Nat × Tree)) :=
  match lastNumber si.1.id with
  | none => .error .indexError
  | some n =>
    match tigerSentence o si.1 with
    | .ok t => .ok (acc ++ [(if o.continuous then si.2 + 1 else n, t)])
    | .error .valueError => .ok acc
    | .error e => .error e

theorem readTiger_eq (o : InOpts) (ss : List XSent) : readTiger o ss = ss.zipIdx.foldlM (tigerStep o) [] := rfl

theorem tigerStep_post (o : InOpts) (acc : List (Nat × Tree)) (si : XSent × Nat) :
    tigerStep o (acc.map fun x => (x.1, tigerPostL o x.2)) si =
      (tigerStep (baseOpts o) acc si).map (List.map fun x => (x.1, tigerPostL o x.2)) := by
  unfold tigerStep
  cases lastNumber si.1.id with
  | none => rfl
  | some n =>
    simp only
    rw [tigerSentence_post o si.1]
    cases tigerSentence (baseOpts o) si.1 with
    | ok t => simp [Except.map, baseOpts]; rfl
    | error e => cases e <;> rfl

theorem foldlM_tigerStep_post (o : InOpts) : ∀ (l : List (XSent × Nat)) (acc : List (Nat × Tree)),
    l.foldlM (tigerStep o) (acc.map fun x => (x.1, tigerPostL o x.2)) =
      (l.foldlM (tigerStep (baseOpts o)) acc).map (List.map fun x => (x.1, tigerPostL o x.2))
  | [], acc => rfl
  | si :: l, acc => by
    rw [List.foldlM_cons, List.foldlM_cons, tigerStep_post]
    cases tigerStep (baseOpts o) acc si with
    | error e => rfl
    | ok acc' => exact foldlM_tigerStep_post o l acc'

theorem readTiger_post (o : InOpts) (ss : List XSent) :
    readTiger o ss = (readTiger (baseOpts o) ss).map (List.map fun x => (x.1, tigerPostL o x.2)) := by
  rw [readTiger_eq, readTiger_eq]
  exact foldlM_tigerStep_post o _ []


/-! #### export -/

mutual
/-- rewrite the fields of every node -/
def mapF (h : Fields → Fields) : Tree → Tree
  | .leaf n f => .leaf n (h f)
  | .node f ks => .node (h f) (mapFL h ks)
def mapFL (h : Fields → Fields) : List Tree → List Tree
  | [] => []
  | t :: ts => mapF h t :: mapFL h ts
end

theorem mapFL_eq (h : Fields → Fields) : ∀ ks, mapFL h ks = ks.map (mapF h)
  | [] => rfl
  | t :: ts => by simp [mapFL, mapFL_eq h ts]

open TT.Lemmas.Run in
theorem goodMap_mapF (h : Fields → Fields) : GoodMap (mapF h) where
  leaf n f := ⟨_, by rw [mapF]⟩
  node f ks := ⟨_, _, by rw [mapF, mapFL_eq], List.Perm.refl _⟩

/-- `gf_split` on a parsed export line -/
def gE (o : InOpts) (e : ExpFields) : ExpFields :=
  if o.gfSplit then { e with label := (gfSplitLabel (sepOf o) e.label).1, edge := (gfSplitLabel (sepOf o) e.label).2 } else e

/-- `gf_split` on the fields of a node that has a line in the file (its word slot is filled) -/
def xF (o : InOpts) (f : Fields) : Fields :=
  if o.gfSplit && f.word.isSome then
    { f with label := (gfSplitLabel (sepOf o) f.label).1, edge := some (gfSplitLabel (sepOf o) f.label).2 }
  else f

theorem exportParseLine_post (o : InOpts) (line : Str) :
    exportParseLine o line = (exportParseLine (baseOpts o) line).map (gE o) := by
  unfold exportParseLine
  simp only
  split
  · rfl
  · split
    · split
      · rfl
      · split
        · rfl
        · have hb : (baseOpts o).gfSplit = false := rfl
          simp only [hb, Bool.false_eq_true, if_false, Except.map, gE]
          cases o.gfSplit <;> rfl
    · rfl

theorem mapM_except_map {ε α β γ : Type} (f : α → Except ε β) (g : β → γ) : ∀ l : List α,
    l.mapM (fun a => (f a).map g) = (l.mapM f).map (List.map g)
  | [] => rfl
  | a :: l => by
    rw [List.mapM_cons, List.mapM_cons, mapM_except_map f g l]
    cases f a with
    | error e => rfl
    | ok b =>
      cases l.mapM f with
      | error e => rfl
      | ok bs => rfl

theorem rstep_gE (o : InOpts) (acc : List (Nat × ExpFields)) (k : Nat) (e : ExpFields) :
    rstep (acc.map (fun x => (x.1, gE o x.2)), k) (gE o e) =
      ((rstep (acc, k) e).1.map (fun x => (x.1, gE o x.2)), (rstep (acc, k) e).2) := by
  have hw : (gE o e).word = e.word := by unfold gE; split <;> rfl
  simp only [rstep, hw, List.map_append, List.map_cons, List.map_nil]

theorem foldl_rstep_gE (o : InOpts) : ∀ (fs : List ExpFields) (acc : List (Nat × ExpFields)) (k : Nat),
    ((fs.map (gE o)).foldl rstep (acc.map (fun x => (x.1, gE o x.2)), k)).1 =
      ((fs.foldl rstep (acc, k)).1).map (fun x => (x.1, gE o x.2))
  | [], acc, k => rfl
  | e :: fs, acc, k => by
    rw [List.map_cons, List.foldl_cons, List.foldl_cons, rstep_gE]
    exact foldl_rstep_gE o fs _ _

theorem fieldsOf_gE (o : InOpts) (e : ExpFields) : fieldsOf (gE o e) = xF o (fieldsOf e) := by
  unfold gE xF fieldsOf
  cases o.gfSplit <;> rfl

theorem mapM_option_map {α β : Type} (f f' : α → Option β) (g : β → β) : ∀ l : List α,
    (∀ a ∈ l, f' a = (f a).map g) → l.mapM f' = (l.mapM f).map (List.map g)
  | [], _ => rfl
  | a :: l, h => by
    rw [List.mapM_cons, List.mapM_cons, h a (by simp), mapM_option_map f f' g l (fun x hx => h x (by simp [hx]))]
    cases f a with
    | none => rfl
    | some b =>
      cases l.mapM f with
      | none => rfl
      | some bs => rfl

/-- the fields the reader gives the node numbered `num` -/
def nodeFields (nodes : List (Nat × ExpFields)) (num : Nat) : Fields :=
  match nodes.find? (·.1 == num) with
  | some x => fieldsOf x.2
  | none => { label := DEFAULT_ROOT, edge := some DEFAULT_EDGE }

theorem exportBuild_succ' (nodes : List (Nat × ExpFields)) (fuel num : Nat) :
    exportBuild nodes (fuel + 1) num =
      if ((nodes.filter fun x => x.2.parent == num).map (·.1)).isEmpty then some (.leaf num (nodeFields nodes num))
      else (((nodes.filter fun x => x.2.parent == num).map (·.1)).mapM (exportBuild nodes fuel)).map fun ks =>
        .node (nodeFields nodes num) (sortBy Tree.leftmost ks) := by
  rw [exportBuild_succ]; rfl

theorem nodeFields_gE (o : InOpts) (nodes : List (Nat × ExpFields)) (num : Nat) :
    nodeFields (nodes.map (fun x => (x.1, gE o x.2))) num = xF o (nodeFields nodes num) := by
  unfold nodeFields
  rw [List.find?_map]
  have : ((fun x : Nat × ExpFields => x.1 == num) ∘ fun x : Nat × ExpFields => (x.1, gE o x.2)) = (fun x => x.1 == num) := rfl
  rw [this]
  cases nodes.find? (·.1 == num) with
  | none => simp [xF]
  | some x => simp only [Option.map_some, fieldsOf_gE]

open TT.Lemmas.Run in
/-- the tree builder commutes with `gf_split` on the lines -/
theorem exportBuild_gE (o : InOpts) (nodes : List (Nat × ExpFields)) : ∀ (fuel num : Nat),
    exportBuild (nodes.map (fun x => (x.1, gE o x.2))) fuel num = (exportBuild nodes fuel num).map (mapF (xF o)) := by
  intro fuel
  induction fuel with
  | zero => intro num; rfl
  | succ fuel ih =>
    intro num
    rw [exportBuild_succ', exportBuild_succ']
    have hpar : ∀ e, (gE o e).parent = e.parent := by intro e; unfold gE; split <;> rfl
    have hk : ((nodes.map (fun x => (x.1, gE o x.2))).filter fun x => x.2.parent == num).map (·.1) =
        (nodes.filter fun x => x.2.parent == num).map (·.1) := by
      rw [List.filter_map, List.map_map]
      congr 1
      apply List.filter_congr
      intro x _
      simp only [Function.comp, hpar]
    rw [hk, nodeFields_gE]
    split
    · simp only [Option.map_some, mapF]
    · rw [mapM_option_map (exportBuild nodes fuel) _ (mapF (xF o)) _ (fun a _ => ih a)]
      cases ((nodes.filter fun x => x.2.parent == num).map (·.1)).mapM (exportBuild nodes fuel) with
      | none => rfl
      | some ks =>
        simp only [Option.map_some, mapF, mapFL_eq]
        rw [sortBy_map leftmost leftmost (mapF (xF o)) (fun a => (goodMap_mapF (xF o)).leftmost_eq a)]

theorem exportSentence_post (o : InOpts) (lines : List Str) :
    exportSentence o lines = (exportSentence (baseOpts o) lines).map (mapF (xF o)) := by
  rw [exportSentence_eq, exportSentence_eq]
  have : (fun l => exportParseLine o l) = fun l => (exportParseLine (baseOpts o) l).map (gE o) :=
    funext (exportParseLine_post o)
  rw [show lines.mapM (exportParseLine o) = lines.mapM (fun l => (exportParseLine (baseOpts o) l).map (gE o)) from by rw [← this],
    mapM_except_map]
  cases lines.mapM (exportParseLine (baseOpts o)) with
  | error e => rfl
  | ok fs =>
    show (if (((fs.map (gE o)).foldl rstep ([], 1)).1).any (fun (n, _) => n > 999) then throw Err.valueError
      else match exportBuild ((fs.map (gE o)).foldl rstep ([], 1)).1 (((fs.map (gE o)).foldl rstep ([], 1)).1.length + 2) 0 with
        | some t => pure t
        | none => throw Err.other) =
      Except.map (mapF (xF o)) (if ((fs.foldl rstep ([], 1)).1).any (fun (n, _) => n > 999) then throw Err.valueError
      else match exportBuild (fs.foldl rstep ([], 1)).1 ((fs.foldl rstep ([], 1)).1.length + 2) 0 with
        | some t => pure t
        | none => throw Err.other)
    have hn := foldl_rstep_gE o fs [] 1
    simp only [List.map_nil] at hn
    rw [hn, List.length_map, exportBuild_gE]
    have hany : (((fs.foldl rstep ([], 1)).1.map (fun x => (x.1, gE o x.2))).any fun (n, _) => n > 999) =
        ((fs.foldl rstep ([], 1)).1.any fun (n, _) => n > 999) := by
      rw [List.any_map]; rfl
    rw [hany]
    split
    · rfl
    · cases exportBuild (fs.foldl rstep ([], 1)).1 ((fs.foldl rstep ([], 1)).1.length + 2) 0 <;> rfl


/-- `gf_split` on every node that has a line, then `replace_parens`: what the export reader's options do to the plain result -/
def exportPostL (o : InOpts) (t : Tree) : Tree :=
  if o.replaceParens then replaceParensTree (mapF (xF o) t) else mapF (xF o) t

theorem exportLoop_post (o : InOpts) : ∀ (lines : List Str) (cur : Option (Nat × List Str)) (cnt : Nat) (acc : List (Nat × Tree)),
    exportLoop o lines cur cnt (acc.map fun x => (x.1, exportPostL o x.2)) =
      (exportLoop (baseOpts o) lines cur cnt acc).map (List.map fun x => (x.1, exportPostL o x.2))
  | [], cur, cnt, acc => by
    rw [exportLoop, exportLoop]
    simp [Except.map]
  | line :: rest, none, cnt, acc => by
    rw [exportLoop, exportLoop]
    split
    · split
      · exact exportLoop_post o rest _ cnt acc
      · rfl
    · exact exportLoop_post o rest none cnt acc
  | line :: rest, some (id, body), cnt, acc => by
    rw [exportLoop, exportLoop]
    split
    · rw [exportSentence_post o]
      cases exportSentence (baseOpts o) body.reverse with
      | error e => rfl
      | ok t =>
        simp only [Except.map]
        have hb : (baseOpts o).replaceParens = false := rfl
        have hc : (baseOpts o).continuous = o.continuous := rfl
        simp only [hb, hc, Bool.false_eq_true, if_false]
        exact exportLoop_post o rest none (cnt + 1) ((if o.continuous then cnt else id, t) :: acc)
    · exact exportLoop_post o rest _ cnt acc

theorem readExport_post (o : InOpts) (text : Str) :
    readExport o text = (readExport (baseOpts o) text).map (List.map fun x => (x.1, exportPostL o x.2)) :=
  exportLoop_post o _ none 1 []


/-! #### the export post-processing is `gfSplitTree` below the virtual root -/

mutual
def allWords : Tree → Bool
  | .leaf _ f => f.word.isSome
  | .node f ks => f.word.isSome && allWordsL ks
def allWordsL : List Tree → Bool
  | [] => true
  | t :: ts => allWords t && allWordsL ts
end

theorem allWordsL_iff : ∀ ks, allWordsL ks = true ↔ ∀ k ∈ ks, allWords k = true
  | [] => by simp [allWordsL]
  | t :: ts => by simp [allWordsL, allWordsL_iff ts]

theorem mapM_mem_out {α β : Type} (f : α → Option β) : ∀ (l : List α) (bs : List β), l.mapM f = some bs →
    ∀ b ∈ bs, ∃ a ∈ l, f a = some b
  | [], bs, h, b, hb => by
    simp only [List.mapM_nil, pure, Option.some.injEq] at h
    subst h; simp at hb
  | x :: l, bs, h, b, hb => by
    rw [List.mapM_cons] at h
    cases hx : f x with
    | none => simp [hx] at h
    | some y =>
      cases hl : l.mapM f with
      | none => simp [hx, hl] at h
      | some bs' =>
        simp only [hx, hl, Option.bind_eq_bind, Option.bind_some, pure, Option.some.injEq] at h
        subst h
        rcases List.mem_cons.1 hb with rfl | hb
        · exact ⟨x, by simp, hx⟩
        · obtain ⟨a, ha, hfa⟩ := mapM_mem_out f l bs' hl b hb
          exact ⟨a, by simp [ha], hfa⟩

/-- every node below the one the builder was asked for has a line in the file -/
theorem exportBuild_words (nodes : List (Nat × ExpFields)) : ∀ (fuel num : Nat) (t : Tree), exportBuild nodes fuel num = some t →
    (∀ k ∈ t.kids, allWords k = true) ∧ ((nodes.find? (·.1 == num)).isSome = true → allWords t = true) := by
  intro fuel
  induction fuel with
  | zero => intro num t h; simp [exportBuild] at h
  | succ fuel ih =>
    intro num t h
    rw [exportBuild_succ'] at h
    have hF : (nodes.find? (·.1 == num)).isSome = true → (nodeFields nodes num).word.isSome = true := by
      intro hs
      unfold nodeFields
      cases hf : nodes.find? (·.1 == num) with
      | none => rw [hf] at hs; cases hs
      | some x => rfl
    split at h
    · simp only [Option.some.injEq] at h
      subst h
      exact ⟨by simp [kids], fun hs => by simp [allWords, hF hs]⟩
    · cases hm : ((nodes.filter fun x => x.2.parent == num).map (·.1)).mapM (exportBuild nodes fuel) with
      | none => rw [hm] at h; cases h
      | some ks =>
        rw [hm] at h
        simp only [Option.map_some, Option.some.injEq] at h
        subst h
        have hks : ∀ k ∈ sortBy leftmost ks, allWords k = true := by
          intro k hk
          rw [mem_sortBy] at hk
          obtain ⟨a, ha, hfa⟩ := mapM_mem_out _ _ _ hm k hk
          obtain ⟨x, hx, rfl⟩ := List.mem_map.1 ha
          have hx' := (List.mem_filter.1 hx).1
          exact (ih _ _ hfa).2 (by
            rw [List.find?_isSome]
            exact ⟨x, hx', by simp⟩)
        exact ⟨hks, fun hs => by simp only [allWords, hF hs, Bool.true_and]; exact (allWordsL_iff _).2 hks⟩

theorem exportSentence_words (o : InOpts) (lines : List Str) (t : Tree) (h : exportSentence o lines = .ok t) :
    ∀ k ∈ t.kids, allWords k = true := by
  rw [exportSentence_eq] at h
  cases hp : lines.mapM (exportParseLine o) with
  | error e => rw [hp] at h; cases h
  | ok fs =>
    rw [hp] at h
    replace h : (if ((fs.foldl rstep ([], 1)).1).any (fun (n, _) => n > 999) then throw Err.valueError
      else match exportBuild (fs.foldl rstep ([], 1)).1 ((fs.foldl rstep ([], 1)).1.length + 2) 0 with
        | some t => pure t
        | none => throw Err.other) = Except.ok t := h
    split at h
    · cases h
    · cases hb : exportBuild (fs.foldl rstep ([], 1)).1 ((fs.foldl rstep ([], 1)).1.length + 2) 0 with
      | none => rw [hb] at h; cases h
      | some t' =>
        rw [hb] at h
        simp only [pure, Except.pure, Except.ok.injEq] at h
        subst h
        exact (exportBuild_words _ _ _ _ hb).1

theorem exportLoop_words (o : InOpts) (hr : o.replaceParens = false) : ∀ (lines : List Str) (cur : Option (Nat × List Str)) (cnt : Nat)
    (acc r : List (Nat × Tree)), exportLoop o lines cur cnt acc = .ok r →
    (∀ x ∈ acc, ∀ k ∈ x.2.kids, allWords k = true) → ∀ x ∈ r, ∀ k ∈ x.2.kids, allWords k = true
  | [], cur, cnt, acc, r, h, hacc => by
    rw [exportLoop] at h
    cases h
    intro x hx
    exact hacc x (by simpa using hx)
  | line :: rest, none, cnt, acc, r, h, hacc => by
    rw [exportLoop] at h
    split at h
    · split at h
      · exact exportLoop_words o hr rest _ cnt acc r h hacc
      · cases h
    · exact exportLoop_words o hr rest none cnt acc r h hacc
  | line :: rest, some (id, body), cnt, acc, r, h, hacc => by
    rw [exportLoop] at h
    split at h
    · cases hs : exportSentence o body.reverse with
      | error e => rw [hs] at h; cases h
      | ok t =>
        rw [hs] at h
        simp only [hr, Bool.false_eq_true, if_false] at h
        refine exportLoop_words o hr rest none (cnt + 1) _ r h ?_
        intro x hx
        rcases List.mem_cons.1 hx with rfl | hx
        · exact exportSentence_words o _ t hs
        · exact hacc x hx
    · exact exportLoop_words o hr rest _ cnt acc r h hacc

theorem xF_some (o : InOpts) (hg : o.gfSplit = true) (f : Fields) (h : f.word.isSome = true) :
    xF o f = { f with label := (gfSplitLabel (sepOf o) f.label).1, edge := some (gfSplitLabel (sepOf o) f.label).2 } := by
  simp [xF, hg, h]

theorem mapF_allWords (o : InOpts) (hg : o.gfSplit = true) (t : Tree) (h : allWords t = true) :
    mapF (xF o) t = gfSplitTree (sepOf o) t := by
  induction t using tree_ind with
  | hl n f =>
    simp only [allWords] at h
    simp only [mapF, gfSplitTree, xF_some o hg f h]
  | hn f ks ih =>
    simp only [allWords, Bool.and_eq_true, allWordsL_iff] at h
    simp only [mapF, gfSplitTree, xF_some o hg f h.1, mapFL_eq, gfSplitTreeL_eq]
    congr 1
    exact List.map_congr_left (fun k hk => ih k hk (h.2 k hk))

theorem mapF_belowRoot (o : InOpts) (hg : o.gfSplit = true) (t : Tree) (hroot : t.fields.word = none)
    (hk : ∀ k ∈ t.kids, allWords k = true) : mapF (xF o) t = gfSplitBelowRoot (sepOf o) t := by
  cases t with
  | leaf n f =>
    have : xF o f = f := by
      have : f.word = none := hroot
      simp [xF, this]
    simp only [mapF, this, gfSplitBelowRoot]
  | node f ks =>
    have : xF o f = f := by
      have : f.word = none := hroot
      simp [xF, this]
    simp only [mapF, this, gfSplitBelowRoot, mapFL_eq, gfSplitTreeL_eq]
    congr 1
    exact List.map_congr_left (fun k hk' => mapF_allWords o hg k (hk k hk'))


/-! ### sentence ids of the export and TIGER-XML readers -/

/-- the id the reader's loop takes from a line that opens a sentence is the `#BOS` number of that line -/
theorem bosId_of_loop (line : Str) (id : Nat) (h1 : "#BOS".toList.isPrefixOf (strip line) = true)
    (h2 : (splitWs (strip line))[1]?.bind strToNat? = some id) : bosId line = some id := by
  rw [splitWs_strip] at h2
  unfold bosId
  cases hs : splitWs line with
  | nil => rw [hs] at h2; cases h2
  | cons w ws =>
    cases ws with
    | nil => rw [hs] at h2; cases h2
    | cons n ws' =>
      rw [hs] at h2
      simp only [List.getElem?_cons_succ, List.getElem?_cons_zero, Option.bind_some] at h2
      rw [strip_first_field line w _ hs _ noSpace_bos] at h1
      simp only [h1, if_true, h2]

theorem exportLoop_sids (o : InOpts) : ∀ (lines : List Str) (cur : Option (Nat × List Str)) (cnt : Nat)
    (acc r : List (Nat × Tree)), exportLoop o lines cur cnt acc = .ok r →
    ∃ new, r = acc.reverse ++ new ∧
      (o.continuous = true → new.map (·.1) = List.range' cnt new.length) ∧
      (o.continuous = false → (new.map (·.1)).Sublist ((cur.map (·.1)).toList ++ lines.filterMap bosId))
  | [], cur, cnt, acc, r, h => by
    rw [exportLoop] at h
    cases h
    exact ⟨[], by simp, fun _ => rfl, fun _ => by simp⟩
  | line :: rest, none, cnt, acc, r, h => by
    rw [exportLoop] at h
    split at h
    · rename_i hb
      split at h
      · rename_i id hid
        obtain ⟨new, h1, h2, h3⟩ := exportLoop_sids o rest _ cnt acc r h
        refine ⟨new, h1, h2, fun hc => ?_⟩
        have := h3 hc
        simp only [Option.map_some, Option.toList_some, List.singleton_append] at this
        have hbi := bosId_of_loop line id hb hid
        simpa [List.filterMap_cons, hbi] using this
      · cases h
    · obtain ⟨new, h1, h2, h3⟩ := exportLoop_sids o rest none cnt acc r h
      refine ⟨new, h1, h2, fun hc => ?_⟩
      have := h3 hc
      simp only [Option.map_none, Option.toList_none, List.nil_append] at this ⊢
      rw [List.filterMap_cons]
      cases bosId line with
      | none => exact this
      | some b => exact this.cons _
  | line :: rest, some (id, body), cnt, acc, r, h => by
    rw [exportLoop] at h
    split at h
    · cases hs : exportSentence o body.reverse with
      | error e => rw [hs] at h; cases h
      | ok t =>
        rw [hs] at h
        simp only at h
        obtain ⟨new, h1, h2, h3⟩ := exportLoop_sids o rest none (cnt + 1) _ r h
        refine ⟨(if o.continuous then cnt else id, if o.replaceParens then replaceParensTree t else t) :: new,
          by rw [h1]; simp, fun hc => ?_, fun hc => ?_⟩
        · simp only [List.map_cons, hc, if_true, List.length_cons, List.range'_succ, h2 hc]
        · have := h3 hc
          simp only [Option.map_none, Option.toList_none, List.nil_append] at this
          simp only [List.map_cons, hc, Bool.false_eq_true, if_false, Option.map_some, Option.toList_some, List.singleton_append]
          rw [List.filterMap_cons]
          cases bosId line with
          | none => exact this.cons_cons _
          | some b => exact (this.cons _).cons_cons _
    · obtain ⟨new, h1, h2, h3⟩ := exportLoop_sids o rest _ cnt acc r h
      refine ⟨new, h1, h2, fun hc => ?_⟩
      have := h3 hc
      simp only [Option.map_some, Option.toList_some, List.singleton_append] at this ⊢
      rw [List.filterMap_cons]
      cases bosId line with
      | none => exact this
      | some b =>
        exact this.trans ((List.Sublist.refl _).cons b |>.cons_cons id)


/-- the id `readTiger` gives to the sentence at position `i` -/
def tigerId (o : InOpts) (si : XSent × Nat) : Nat := if o.continuous then si.2 + 1 else (lastNumber si.1.id).getD 0

def tigerOk (o : InOpts) (si : XSent × Nat) : Bool := (tigerSentence o si.1).toOption.isSome

theorem foldlM_tigerStep_sids (o : InOpts) : ∀ (l : List (XSent × Nat)) (acc r : List (Nat × Tree)),
    l.foldlM (tigerStep o) acc = .ok r → r.map (·.1) = acc.map (·.1) ++ (l.filter (tigerOk o)).map (tigerId o)
  | [], acc, r, h => by
    simp only [List.foldlM_nil, pure, Except.pure, Except.ok.injEq] at h
    subst h; simp
  | si :: l, acc, r, h => by
    rw [List.foldlM_cons] at h
    cases hs : tigerStep o acc si with
    | error e => rw [hs] at h; cases h
    | ok acc' =>
      rw [hs] at h
      have ih := foldlM_tigerStep_sids o l acc' r h
      rw [ih]
      unfold tigerStep at hs
      cases hn : lastNumber si.1.id with
      | none => rw [hn] at hs; cases hs
      | some n =>
        rw [hn] at hs
        simp only at hs
        cases ht : tigerSentence o si.1 with
        | ok t =>
          rw [ht] at hs
          simp only [Except.ok.injEq] at hs
          subst hs
          have hok : tigerOk o si = true := by simp [tigerOk, ht, Except.toOption]
          simp only [List.filter_cons, hok, if_true, List.map_cons, List.map_append, List.map_nil, tigerId, hn, Option.getD_some,
            List.append_assoc, List.singleton_append]
        | error e =>
          rw [ht] at hs
          have hok : tigerOk o si = false := by simp [tigerOk, ht, Except.toOption]
          cases e <;> first | (cases hs; done) | (simp only [Except.ok.injEq] at hs; subst hs; simp only [List.filter_cons, hok, Bool.false_eq_true, if_false])

theorem readTiger_sids' (o : InOpts) (ss : List XSent) (r : List (Nat × Tree)) (h : readTiger o ss = .ok r) :
    r.map (·.1) = (ss.zipIdx.filter (tigerOk o)).map (tigerId o) := by
  rw [readTiger_eq] at h
  simpa using foldlM_tigerStep_sids o _ [] r h


open TT.Lemmas.Layout

/-! ### export: the reader sees a line through its first six whitespace-separated fields only -/

/-- what the export reader looks at in a line -/
def lineKey (l : Str) : List Str := (splitWs l).take 6

theorem parseFs_congr (o : InOpts) (fs fs' : List Str) (h : fs.take 6 = fs'.take 6) : parseFs o fs = parseFs o fs' := by
  have e4 : fs'[4]? = fs[4]? := by
    have := congrArg (fun l => l[4]?) h
    simpa [List.getElem?_take] using this.symm
  cases h4 : fs[4]? with
  | none =>
    have h4' : fs'[4]? = none := by rw [e4]; exact h4
    unfold parseFs
    rw [h4, h4']
  | some f4 =>
    cases hd : pyIsDigit f4 with
    | false => exact parseFs_congr6 o fs fs' h (by rw [h4]; simp [hd])
    | true =>
      refine parseFs_congr5 o fs fs' ?_ (by rw [h4]; simp [hd])
      have := congrArg (List.take 5) h
      simpa [List.take_take] using this

theorem parse_strip_key (o : InOpts) (l l' : Str) (h : lineKey l = lineKey l') :
    exportParseLine o (strip l) = exportParseLine o (strip l') := by
  rw [exportParseLine_eq, exportParseLine_eq, splitWs_strip, splitWs_strip]
  exact parseFs_congr o _ _ h

theorem strip_of_no_fields (l : Str) (h : splitWs l = []) : strip l = [] := by
  rcases strip_head l with h0 | ⟨c, r, hy, hc⟩
  · exact h0
  · obtain ⟨w, tail, _, _, _, _, hsp⟩ := first_field _ c r hy hc
    rw [splitWs_strip, h] at hsp
    cases hsp

/-- a test "the stripped line starts with `k`" looks at the first field only -/
theorem prefix_strip_key (k : Str) (hk : ∀ c ∈ k, pyIsSpace c = false) (l l' : Str) (h : lineKey l = lineKey l') :
    k.isPrefixOf (strip l) = k.isPrefixOf (strip l') := by
  unfold lineKey at h
  cases hs : splitWs l with
  | nil =>
    rw [hs] at h
    have hs' : splitWs l' = [] := by
      cases hs' : splitWs l' with
      | nil => rfl
      | cons a b => rw [hs'] at h; simp at h
    rw [strip_of_no_fields l hs, strip_of_no_fields l' hs']
  | cons w ws =>
    rw [hs] at h
    cases hs' : splitWs l' with
    | nil => rw [hs'] at h; simp at h
    | cons w' ws' =>
      rw [hs'] at h
      simp only [List.take_succ_cons, List.cons.injEq] at h
      rw [strip_first_field l w ws hs k hk, strip_first_field l' w' ws' hs' k hk, h.1]

theorem field1_strip_key (l l' : Str) (h : lineKey l = lineKey l') :
    (splitWs (strip l))[1]? = (splitWs (strip l'))[1]? := by
  rw [splitWs_strip, splitWs_strip]
  have := congrArg (fun x => x[1]?) h
  simpa [lineKey, List.getElem?_take] using this

theorem mapM_parse_congr (o : InOpts) : ∀ (b b' : List Str), b.map lineKey = b'.map lineKey →
    (b.map strip).mapM (exportParseLine o) = (b'.map strip).mapM (exportParseLine o)
  | [], [], _ => rfl
  | [], _ :: _, h => by simp at h
  | _ :: _, [], h => by simp at h
  | l :: b, l' :: b', h => by
    simp only [List.map_cons, List.cons.injEq] at h
    rw [List.map_cons, List.map_cons, List.mapM_cons, List.mapM_cons, parse_strip_key o l l' h.1, mapM_parse_congr o b b' h.2]

theorem exportSentence_congr (o : InOpts) (b b' : List Str) (h : b.map lineKey = b'.map lineKey) :
    exportSentence o (b.map strip) = exportSentence o (b'.map strip) := by
  rw [exportSentence_eq, exportSentence_eq, mapM_parse_congr o b b' h]

/-- the reader's loop on two files whose lines agree in their first six fields; `b`, `b'` are the (unstripped) lines of the
    sentence that is open -/
theorem exportLoop_congr (o : InOpts) : ∀ (ls ls' : List Str) (cur : Option (Nat × List Str)) (b b' : List Str) (cnt : Nat)
    (acc : List (Nat × Tree)), ls.map lineKey = ls'.map lineKey → b.map lineKey = b'.map lineKey →
    exportLoop o ls (cur.map fun c => (c.1, b.map strip)) cnt acc = exportLoop o ls' (cur.map fun c => (c.1, b'.map strip)) cnt acc
  | [], [], cur, b, b', cnt, acc, _, _ => by rw [exportLoop, exportLoop]
  | [], _ :: _, _, _, _, _, _, h, _ => by simp at h
  | _ :: _, [], _, _, _, _, _, h, _ => by simp at h
  | l :: ls, l' :: ls', none, b, b', cnt, acc, h, hb => by
    simp only [List.map_cons, List.cons.injEq] at h
    rw [Option.map_none, Option.map_none, exportLoop, exportLoop]
    have e1 := prefix_strip_key _ noSpace_bos l l' h.1
    have e2 := field1_strip_key l l' h.1
    show (if "#BOS".toList.isPrefixOf (strip l) = true then _ else _) = (if "#BOS".toList.isPrefixOf (strip l') = true then _ else _)
    rw [e1]
    split
    · show (match (splitWs (strip l))[1]?.bind strToNat? with | some id => _ | none => _) =
        (match (splitWs (strip l'))[1]?.bind strToNat? with | some id => _ | none => _)
      rw [e2]
      cases (splitWs (strip l'))[1]?.bind strToNat? with
      | none => rfl
      | some id => exact exportLoop_congr o ls ls' (some (id, [])) [] [] cnt acc h.2 rfl
    · exact exportLoop_congr o ls ls' none [] [] cnt acc h.2 rfl
  | l :: ls, l' :: ls', some c, b, b', cnt, acc, h, hb => by
    simp only [List.map_cons, List.cons.injEq] at h
    rw [Option.map_some, Option.map_some, exportLoop, exportLoop]
    have e1 := prefix_strip_key _ noSpace_eos l l' h.1
    show (if "#EOS".toList.isPrefixOf (strip l) = true then _ else _) = (if "#EOS".toList.isPrefixOf (strip l') = true then _ else _)
    rw [e1]
    split
    · have hs : exportSentence o (b.map strip).reverse = exportSentence o (b'.map strip).reverse := by
        rw [← List.map_reverse, ← List.map_reverse]
        exact exportSentence_congr o _ _ (by rw [List.map_reverse, List.map_reverse, hb])
      show (match exportSentence o (b.map strip).reverse with | .error e => _ | .ok t => _) =
        (match exportSentence o (b'.map strip).reverse with | .error e => _ | .ok t => _)
      rw [hs]
      cases exportSentence o (b'.map strip).reverse with
      | error e => rfl
      | ok t => exact exportLoop_congr o ls ls' none [] [] (cnt + 1) _ h.2 rfl
    · exact exportLoop_congr o ls ls' (some c) (l :: b) (l' :: b') cnt acc h.2 (by simp [h.1, hb])


open TT.Lemmas.TigerRT

/-! ### TIGER-XML: the reader on the element structure of a written sentence -/

def termOf (e : TokEnt) : XTerm := { id := e.1, word := some e.2.1, pos := some e.2.2.2.1, morph := some e.2.2.2.2, lemma := some e.2.2.1 }
def ntOf (e : NtEnt) : XNt := { id := e.1, cat := some e.2.1, edges := e.2.2.map fun x => (some x.1, x.2) }

/-- the element structure is made of the two tables the specification decoder reads from the written lines
    (`TigerRT.decTiger_table`, `decTiger_tokens`) -/
theorem xsentOf_eq (sid : Nat) (t : Tree) :
    xsentOf sid t = { id := natToStr sid, terms := (t.terminals.map tokEnt).map termOf, nts := ((consList t).map (ntEnt t)).map ntOf } := by
  unfold xsentOf
  simp only [List.map_map]
  have e1 : t.terminals.map (fun l => ({ id := natToStr l.num, word := some (l.fields.word.getD "--".toList), pos := some l.fields.label, morph := some (l.fields.morph.getD "--".toList), lemma := some (l.fields.lemma.getD "--".toList) } : XTerm)) =
      t.terminals.map (termOf ∘ tokEnt) := List.map_congr_left (fun l _ => rfl)
  have e2 : ∀ (L : List (Path × Tree)), L.map (fun x => ({ id := natToStr ((t.exportNum x.1).getD 0), cat := some x.2.fields.label, edges := (childOrder x.2).map fun i => (some ((x.2.kids[i]?.bind (·.fields.edge)).getD DEFAULT_EDGE), natToStr (match x.2.kids[i]? with
          | some (leaf n _) => n
          | _ => (t.exportNum (x.1 ++ [i])).getD 0)) } : XNt)) = L.map (ntOf ∘ ntEnt t) := by
    intro L
    apply List.map_congr_left
    intro x _
    simp only [Function.comp, ntOf, ntEnt, List.map_map]
    congr 1
  rw [e1]
  exact congrArg _ (e2 _)

theorem tigerBuild_succ (s : XSent) (fuel : Nat) (i : Str) (edge : Option Str) :
    tigerBuild s (fuel + 1) i edge =
      match s.terms.zipIdx.find? (fun x => x.1.id == i) with
      | some x => some (.leaf (x.2 + 1) { label := x.1.pos.getD [], word := some (x.1.word.getD "None".toList), morph := x.1.morph, lemma := x.1.lemma, edge := edge })
      | none =>
        match s.nts.find? (·.id == i) with
        | some nt =>
          (nt.edges.mapM fun (e : Option Str × Str) => tigerBuild s fuel e.2 e.1).map fun ks =>
            .node { label := nt.cat.getD [], morph := some DEFAULT_MORPH, edge := edge, lemma := some DEFAULT_LEMMA } ks
        | none => none := by
  rw [tigerBuild]
  have : (fun (x : XTerm × Nat) => match x with | (t, _) => t.id == i) = (fun x => x.1.id == i) := rfl
  rw [this]
  cases s.terms.zipIdx.find? (fun x => x.1.id == i) with
  | some x => rfl
  | none =>
    simp only
    cases s.nts.find? (·.id == i) with
    | some x => rfl
    | none => rfl

/-- the tables as an `XSent` -/
def xs (sid : Nat) (t : Tree) : XSent :=
  { id := natToStr sid, terms := (t.terminals.map tokEnt).map termOf, nts := ((consList t).map (ntEnt t)).map ntOf }

theorem xs_term_find (sid : Nat) (t : Tree) (i : Str) :
    (xs sid t).terms.zipIdx.find? (fun x => x.1.id == i) =
      ((t.terminals.map tokEnt).zipIdx.find? (fun y => y.1.1 == i)).map fun y => (termOf y.1, y.2) := by
  show (((t.terminals.map tokEnt).map termOf).zipIdx).find? _ = _
  rw [List.zipIdx_map, List.find?_map]
  rfl

theorem xs_nt_find (sid : Nat) (t : Tree) (i : Str) :
    (xs sid t).nts.find? (·.id == i) = (((consList t).map (ntEnt t)).find? (fun x => x.1 == i)).map ntOf := by
  show (((consList t).map (ntEnt t)).map ntOf).find? _ = _
  rw [List.find?_map]
  rfl


theorem tigerReadL_eq : ∀ ks : List Tree, tigerReadL ks = ks.map tigerRead
  | [] => rfl
  | t :: ts => by simp [tigerReadL, tigerReadL_eq ts]

open TT.Lemmas.Run in
theorem goodMap_tigerRead : GoodMap tigerRead where
  leaf n f := ⟨_, by rw [tigerRead, carryTiger]⟩
  node f ks := ⟨_, _, by rw [tigerRead, tigerReadL_eq], List.Perm.refl _⟩

open TT.Lemmas.Run in
theorem leftmost_sortKids_tigerRead (k : Tree) : leftmost (sortKids (tigerRead k)) = leftmost k := by
  rw [leftmost_sortKids]; exact goodMap_tigerRead.leftmost_eq k

/-- a child is reached with its own edge label -/
theorem tigerRead_setEdge (k : Tree) :
    (tigerRead k).setFields (fun f => { f with edge := some (k.fields.edge.getD DEFAULT_EDGE) }) = tigerRead k := by
  cases k with
  | leaf n f => simp [tigerRead, carryTiger, setFields, Tree.fields]
  | node f ks => simp [tigerRead, setFields, Tree.fields]

/-- MAIN LEMMA: the reader rebuilds the subtree at a valid path, up to the storage order of children; the edge label is
    the one it is reached with -/
theorem tbuild_ok (sid : Nat) (t : Tree) (hwf : WF t = true) (hlen : t.leafNums.length < 500) :
    ∀ (s : Tree) (p : Path) (fuel : Nat) (e : Option Str), get? t p = some s → height s < fuel →
      ∃ d, tigerBuild (xs sid t) fuel (natToStr (TigerRT.numOf t p)) e = some d ∧
        sortKids d = sortKids ((tigerRead s).setFields fun f => { f with edge := e }) := by
  intro s
  induction s using tree_ind with
  | hl n f =>
    intro p fuel e hg hf
    cases fuel with
    | zero => omega
    | succ fu =>
      rw [tigerBuild_succ, xs_term_find, leaf_num t p n f hg]
      obtain ⟨i, hi, hfind⟩ := tok_find t hwf n f (mem_leaves_of_get? p t n f hg)
      rw [hfind]
      refine ⟨_, rfl, ?_⟩
      simp only [termOf, tokEnt, hi, tigerRead, carryTiger, setFields, Tree.fields, Tree.num, dflt, lit_dd,
        Option.getD_some]
  | hn f ks ih =>
    intro p fuel e hg hf
    cases fuel with
    | zero => omega
    | succ fu =>
      rcases node_kinds t hwf p _ hg with ⟨n, f', e', _⟩ | ⟨f', k, ks', e', _, _, hv⟩
      · cases e'
      · have hps : (p, node f ks) ∈ consList t := (mem_consList t _).2 ⟨f', k, ks', by rw [← e']; exact hg, e'⟩
        have hnone := tok_find_none t hwf (TigerRT.numOf t p) (by omega)
        have hsome := nt_find t hwf hlen _ hps
        obtain ⟨ds, hds1, hds2⟩ := mapM_exists_map
          (fun i => ((some (edgeLab (node f ks).kids[i]?) : Option Str), natToStr (edgeRef t p i (node f ks).kids[i]?)))
          (fun (x : Option Str × Str) => tigerBuild (xs sid t) fu x.2 x.1)
          sortKids (fun i => (ks[i]?.map (fun k => sortKids (tigerRead k))).getD (leaf 0 {}))
          (childOrder (node f ks)) (by
            intro i hi
            have hlt : i < ks.length := (mem_childOrder _ i).1 hi
            have hk : ks[i]? = some ks[i] := List.getElem?_eq_getElem hlt
            have hgi : get? t (p ++ [i]) = some ks[i] := by
              rw [TT.Lemmas.Trans.get?_concat, hg]; exact hk
            have hh : height ks[i] < fu := by
              have := height_le_heightL ks ks[i] (List.getElem_mem hlt)
              simp only [height] at hf
              omega
            obtain ⟨d, hd1, hd2⟩ := ih ks[i] (List.getElem_mem hlt) (p ++ [i]) fu (some (edgeLab (some ks[i]))) hgi hh
            refine ⟨d, ?_, ?_⟩
            · show tigerBuild _ fu (natToStr (edgeRef t p i ks[i]?)) (some (edgeLab ks[i]?)) = some d
              rw [hk, edgeRef_some t p i _ hgi]; exact hd1
            · rw [hd2, hk]
              show sortKids ((tigerRead ks[i]).setFields fun f => { f with edge := some (ks[i].fields.edge.getD DEFAULT_EDGE) }) = _
              rw [tigerRead_setEdge]; rfl)
        refine ⟨node { label := f.label, morph := some DEFAULT_MORPH, edge := e, lemma := some DEFAULT_LEMMA } ds, ?_, ?_⟩
        · rw [tigerBuild_succ, xs_term_find, hnone, xs_nt_find]
          have : ((consList t).map (ntEnt t)).find? (fun (x : NtEnt) => x.1 == natToStr (TigerRT.numOf t p)) = some (ntEnt t (p, node f ks)) := hsome
          rw [this]
          simp only [Option.map_none, Option.map_some]
          have hes : (ntOf (ntEnt t (p, node f ks))).edges = (childOrder (node f ks)).map
              (fun i => ((some (edgeLab (node f ks).kids[i]?) : Option Str), natToStr (edgeRef t p i (node f ks).kids[i]?))) := by
            simp only [ntOf, ntEnt, List.map_map]
            rfl
          rw [hes, hds1]
          rfl
        · have hne := noEmpty_get? p t _ (WF_noEmpty t hwf) hg
          have hnd : (ks.map leftmost).Nodup := by
            apply map_leftmost_nodup
            · intro k' hk'
              exact noEmpty_leafNums_ne_nil k' ((noEmpty_node f ks).1 hne |>.2 k' hk')
            · rw [← leafNums_node f]
              exact (TT.Lemmas.Trans.leafNums_sublist_get? p t _ hg).nodup (WF_nodup t hwf)
          simp only [sortKids, tigerRead, setFields, TT.Lemmas.Trans.sortKidsL_eq, tigerReadL_eq, hds2, List.map_map, Tree.fields]
          congr 1
          exact sortBy_childOrder ks (fun k => sortKids (tigerRead k)) (leaf 0 {}) leftmost_sortKids_tigerRead hnd


/-! #### the checks of `tigerSentence` on the tables -/

def xIds (t : Tree) : List Str := (t.terminals.map fun l => natToStr l.num) ++ (consList t).map fun ps => natToStr (TigerRT.numOf t ps.1)
def xRefs (t : Tree) : List Str := (consList t).flatMap fun ps => (ntEnt t ps).2.2.map (·.2)

theorem xs_ids (sid : Nat) (t : Tree) : (xs sid t).terms.map (·.id) ++ (xs sid t).nts.map (·.id) = xIds t := by
  simp only [xs, xIds, List.map_map]
  rfl

theorem xs_refs (sid : Nat) (t : Tree) : ((xs sid t).nts.flatMap fun nt => nt.edges.map (·.2)) = xRefs t := by
  simp only [xs, xRefs, List.flatMap_map]
  congr 1
  funext ps
  simp only [Function.comp, ntOf, List.map_map]
  rfl

/-- every leaf of the tree sits at a path -/
theorem exists_path_of_mem_leaves (t : Tree) (l : Tree) (h : l ∈ leaves t) : ∃ p n f, l = leaf n f ∧ get? t p = some (leaf n f) := by
  obtain ⟨⟨n, f, rfl⟩, hs⟩ := TT.Lemmas.More8.mem_leaves_leaf t l h
  rw [← paths_map_subAt] at hs
  obtain ⟨p, hp, hsub⟩ := List.mem_map.1 hs
  exact ⟨p, n, f, rfl, by rw [get?_of_mem_paths t p hp, hsub]⟩

/-- a reference is the identifier of the child it points to -/
theorem mem_xRefs (t : Tree) (r : Str) : r ∈ xRefs t ↔ ∃ q i k, get? t (q ++ [i]) = some k ∧ r = natToStr (TigerRT.numOf t (q ++ [i])) := by
  constructor
  · intro h
    obtain ⟨ps, hps, hr⟩ := List.mem_flatMap.1 h
    obtain ⟨e, he, rfl⟩ := List.mem_map.1 hr
    obtain ⟨i, k, hg, rfl⟩ := edge_mem t ps hps e he
    exact ⟨ps.1, i, k, hg, rfl⟩
  · rintro ⟨q, i, k, hg, rfl⟩
    obtain ⟨ps, hps, _, he⟩ := edge_exists t q i k hg
    exact List.mem_flatMap.2 ⟨ps, hps, List.mem_map.2 ⟨_, he, rfl⟩⟩

theorem snoc_of_ne_nil (p : Path) (h : p ≠ []) : ∃ q i, p = q ++ [i] :=
  ⟨p.dropLast, p.getLast h, (List.dropLast_concat_getLast h).symm⟩

theorem refs_sub_ids (t : Tree) (hwf : WF t = true) : ∀ r ∈ xRefs t, r ∈ xIds t := by
  intro r hr
  obtain ⟨q, i, k, hg, rfl⟩ := (mem_xRefs t r).1 hr
  unfold xIds
  rcases node_kinds t hwf _ k hg with ⟨n, f, rfl, hn, _⟩ | ⟨f, k0, ks0, rfl, _⟩
  · rw [hn]
    refine List.mem_append_left _ (List.mem_map.2 ⟨leaf n f, ?_, rfl⟩)
    exact (mem_sortBy _ _ _).2 (mem_leaves_of_get? _ t n f hg)
  · exact List.mem_append_right _ (List.mem_map.2 ⟨(q ++ [i], node f (k0 :: ks0)), (mem_consList t _).2 ⟨f, k0, ks0, hg, rfl⟩, rfl⟩)

theorem consList_pairwise (t : Tree) : (consList t).Pairwise (fun a b => a.1 ≠ b.1) := by
  rw [consList_eq]
  refine List.Pairwise.filterMap (consSel t) ?_ (postorderP_nodup t)
  intro a a' hne b hb b' hb' e
  have h1 := ((consSel_some t a b).1 hb).1
  have h2 := ((consSel_some t a' b').1 hb').1
  exact hne (by rw [← h1, ← h2, e])

theorem xRefs_nodup (t : Tree) (hwf : WF t = true) (hlen : t.leafNums.length < 500) : (xRefs t).Nodup := by
  unfold xRefs
  rw [List.Nodup, List.pairwise_flatMap]
  constructor
  · intro ps hps
    obtain ⟨f, k0, ks0, h1, h2⟩ := (mem_consList t ps).1 hps
    show ((ntEnt t ps).2.2.map (·.2)).Nodup
    have : (ntEnt t ps).2.2.map (·.2) = (childOrder ps.2).map fun i => natToStr (edgeRef t ps.1 i ps.2.kids[i]?) := by
      simp only [ntEnt, List.map_map]; rfl
    rw [this]
    rw [List.Nodup, List.pairwise_map]
    refine (orderedIdx_nodup ps.2.kids).imp_of_mem ?_
    intro i j hi hj hne e
    have hi' : i < ps.2.kids.length := (mem_childOrder ps.2 i).1 hi
    have hj' : j < ps.2.kids.length := (mem_childOrder ps.2 j).1 hj
    have gi : get? t (ps.1 ++ [i]) = some ps.2.kids[i] := by
      rw [TT.Lemmas.Trans.get?_concat, h1, ← h2]; exact List.getElem?_eq_getElem hi'
    have gj : get? t (ps.1 ++ [j]) = some ps.2.kids[j] := by
      rw [TT.Lemmas.Trans.get?_concat, h1, ← h2]; exact List.getElem?_eq_getElem hj'
    rw [List.getElem?_eq_getElem hi', List.getElem?_eq_getElem hj', edgeRef_some t _ _ _ gi, edgeRef_some t _ _ _ gj] at e
    have := TigerRT.numOf_inj t hwf hlen _ _ _ _ gi gj (GramOut.natToStr_inj e)
    exact hne (by simpa using this)
  · refine (consList_pairwise t).imp_of_mem ?_
    intro ps qs hps hqs hne x hx y hy e
    obtain ⟨e1, he1, rfl⟩ := List.mem_map.1 hx
    obtain ⟨e2, he2, rfl⟩ := List.mem_map.1 hy
    obtain ⟨i, k, gi, rfl⟩ := edge_mem t ps hps e1 he1
    obtain ⟨j, k', gj, rfl⟩ := edge_mem t qs hqs e2 he2
    have := TigerRT.numOf_inj t hwf hlen _ _ _ _ gi gj (GramOut.natToStr_inj e)
    have h3 : ps.1 = qs.1 := by
      have := congrArg List.dropLast this
      simpa using this
    exact hne h3

theorem xIds_nodup (t : Tree) (hwf : WF t = true) (hlen : t.leafNums.length < 500) : (xIds t).Nodup := by
  unfold xIds
  rw [List.nodup_append]
  refine ⟨?_, ?_, ?_⟩
  · have := tokIds_nodup t hwf
    simp only [List.map_map] at this
    exact this
  · rw [List.Nodup, List.pairwise_map]
    refine (consList_pairwise t).imp_of_mem ?_
    intro ps qs hps hqs hne e
    obtain ⟨f, k0, ks0, h1, _⟩ := (mem_consList t ps).1 hps
    obtain ⟨f', k0', ks0', h1', _⟩ := (mem_consList t qs).1 hqs
    exact hne (TigerRT.numOf_inj t hwf hlen _ _ _ _ h1 h1' (GramOut.natToStr_inj e))
  · intro a ha b hb e
    obtain ⟨l, hl, rfl⟩ := List.mem_map.1 ha
    obtain ⟨ps, hps, rfl⟩ := List.mem_map.1 hb
    obtain ⟨f, k0, ks0, h1, _⟩ := (mem_consList t ps).1 hps
    have hn : l.num ∈ t.terminals.map num := List.mem_map.2 ⟨l, hl, rfl⟩
    rw [terminals_num t hwf, List.mem_range'_1] at hn
    rcases node_kinds t hwf _ _ h1 with ⟨n, f', e', _⟩ | ⟨_, _, _, _, _, _, hv⟩
    · cases e'
    · have := GramOut.natToStr_inj e
      omega


theorem root_not_ref (t : Tree) (hwf : WF t = true) (hlen : t.leafNums.length < 500) : natToStr (TigerRT.numOf t []) ∉ xRefs t := by
  intro h
  obtain ⟨q, i, k, hg, e⟩ := (mem_xRefs t _).1 h
  have := TigerRT.numOf_inj t hwf hlen _ _ _ _ (show get? t [] = some t from rfl) hg (GramOut.natToStr_inj e)
  simp at this

theorem nonroot_ref (t : Tree) (p : Path) (s : Tree) (hg : get? t p = some s) (hp : p ≠ []) : natToStr (TigerRT.numOf t p) ∈ xRefs t := by
  obtain ⟨q, i, rfl⟩ := snoc_of_ne_nil p hp
  exact (mem_xRefs t _).2 ⟨q, i, s, hg, rfl⟩

/-- exactly one identifier is nobody's child: the root -/
theorem xRoots (t : Tree) (hwf : WF t = true) (hlen : t.leafNums.length < 500) :
    (xIds t).eraseDups.filter (fun i => !(xRefs t).contains i) = [natToStr (TigerRT.numOf t [])] := by
  rw [TT.Lemmas.Layout.eraseDups_of_nodup _ (xIds_nodup t hwf hlen)]
  obtain ⟨f, k, ks, hroot⟩ := get?_of_isCons t [] (WF_root t hwf).1
  simp only [get?, Option.some.injEq] at hroot
  obtain ⟨init, hi1, hi2⟩ := consList_root f k ks
  rw [← hroot] at hi1
  unfold xIds
  rw [hi1, List.map_append, List.filter_append, List.filter_append]
  have h1 : (t.terminals.map fun l => natToStr l.num).filter (fun i => !(xRefs t).contains i) = [] := by
    apply filter_none
    intro a ha
    obtain ⟨l, hl, rfl⟩ := List.mem_map.1 ha
    obtain ⟨p, n, f', rfl, hg⟩ := exists_path_of_mem_leaves t l ((mem_sortBy _ _ _).1 hl)
    have hp : p ≠ [] := by
      intro e; subst e
      simp only [get?, Option.some.injEq] at hg
      rw [hroot] at hg; cases hg
    have := nonroot_ref t p _ hg hp
    rw [leaf_num t p n f' hg] at this
    have e : (leaf n f').num = n := rfl
    rw [e]
    simpa using this
  have h2 : (init.map fun ps => natToStr (TigerRT.numOf t ps.1)).filter (fun i => !(xRefs t).contains i) = [] := by
    apply filter_none
    intro a ha
    obtain ⟨ps, hps, rfl⟩ := List.mem_map.1 ha
    have hmem : ps ∈ consList t := by rw [hi1]; exact List.mem_append_left _ hps
    obtain ⟨f', k', ks', hg, _⟩ := (mem_consList t ps).1 hmem
    have := nonroot_ref t ps.1 _ hg (hi2 ps hps)
    simpa using this
  rw [h1, h2]
  simp only [List.nil_append, List.map_cons, List.map_nil]
  apply filter_all
  intro a ha
  rw [List.mem_singleton.1 ha]
  have := root_not_ref t hwf hlen
  simpa using this

theorem sortKids_fields (d : Tree) : (sortKids d).fields = d.fields := by
  cases d <;> simp [sortKids, Tree.fields]

/-- MAIN: the reader on the element structure of a written sentence -/
theorem tigerSentence_xs (sid : Nat) (t : Tree) (hwf : WF t = true) (hlen : t.leafNums.length < 500) :
    ∃ r, tigerSentence {} (xs sid t) = .ok r ∧ sortKids r = sortKids (tigerReadTop t) := by
  have hne := WF_noEmpty t hwf
  obtain ⟨d, hd1, hd2⟩ := tbuild_ok sid t hwf hlen t [] ((xIds t).length + 2) (some DEFAULT_EDGE) rfl (by
    have := height_le_consList t hne
    have : (consList t).length ≤ (xIds t).length := by simp [xIds]
    omega)
  have hlab : d.fields.label = t.fields.label := by
    have := congrArg (fun x => x.fields.label) hd2
    simp only [sortKids_fields] at this
    rw [this]
    cases t with
    | leaf n f => simp [tigerRead, carryTiger, setFields, Tree.fields]
    | node f ks => simp [tigerRead, setFields, Tree.fields]
  refine ⟨if d.fields.label != DEFAULT_ROOT
      then Tree.node { label := DEFAULT_ROOT, morph := some DEFAULT_MORPH, edge := some DEFAULT_EDGE, lemma := some DEFAULT_LEMMA } [d]
      else d, ?_, ?_⟩
  · unfold tigerSentence
    simp only [xs_ids, xs_refs]
    have c1 : (xRefs t).any (fun r => !(xIds t).contains r) = false := by
      rw [List.any_eq_false]
      intro r hr
      have := refs_sub_ids t hwf r hr
      simpa using this
    have c2 : (xRefs t).any (fun r => (xRefs t).count r > 1) = false := by
      rw [List.any_eq_false]
      intro r hr
      have := (List.nodup_iff_count.1 (xRefs_nodup t hwf hlen)) r
      simp only [gt_iff_lt, decide_eq_true_eq]
      omega
    rw [if_neg (by rw [c1]; simp), if_neg (by rw [c2]; simp), xRoots t hwf hlen]
    simp only [hd1]
    rfl
  · rw [hlab]
    unfold tigerReadTop
    simp only
    split
    · simp only [sortKids, sortKidsL, sortBy, insertBy]
      rw [hd2]
    · rw [hd2]


/-! #### well-formedness of what the TIGER reader delivers; several sentences -/

open TT.Lemmas.Run in
theorem WF_tigerReadTop (t : Tree) (hwf : WF t = true) : WF (tigerReadTop t) = true := by
  have h1 : WF (tigerRead t) = true := goodMap_WF goodMap_tigerRead t hwf
  have h2 : WF ((tigerRead t).setFields fun f => { f with edge := some DEFAULT_EDGE }) = true := by
    cases ht : tigerRead t with
    | leaf n f => rw [ht] at h1; simp [WF, isLeaf] at h1
    | node f ks => rw [ht] at h1; exact WF_of_perm _ _ h1 (by simp [setFields, leafNums_node]) (by
        rw [setFields, noEmpty_node]; exact (noEmpty_node _ _).1 (WF_noEmpty _ h1)) rfl
  unfold tigerReadTop
  simp only
  split
  · refine WF_of_perm _ _ h2 ?_ ?_ rfl
    · rw [leafNums_node]; simp
    · rw [noEmpty_node]
      exact ⟨by simp, fun k hk => by rw [List.mem_singleton.1 hk]; exact WF_noEmpty _ h2⟩
  · exact h2

open TT.Lemmas.Run in
theorem WF_of_sortKids_eq {r x : Tree} (h : sortKids r = sortKids x) (hx : WF x = true) : WF r = true := by
  have := goodMap_WF goodMap_sortKids x hx
  rw [← h] at this
  exact goodMap_WF_inv goodMap_sortKids r this

theorem tigerSentence_congr (o o' : InOpts) (h1 : o.gfSplit = o'.gfSplit) (h2 : o.gfSeparator = o'.gfSeparator)
    (h3 : o.replaceParens = o'.replaceParens) (s : XSent) : tigerSentence o s = tigerSentence o' s := by
  unfold tigerSentence
  rw [h1, h2, h3]

theorem pyIsDigit_all (s : Str) (h : pyIsDigit s = true) : ∀ c ∈ s, c.isDigit = true := by
  simp only [pyIsDigit, Bool.and_eq_true, List.all_eq_true] at h
  exact h.2

theorem lastNumber_digits (s : Str) (h : pyIsDigit s = true) : lastNumber s = strToNat? s := by
  unfold lastNumber
  have hall := pyIsDigit_all s h
  have h1 : s.reverse.dropWhile (fun c => !c.isDigit) = s.reverse := by
    cases hr : s.reverse with
    | nil => rfl
    | cons c r =>
      have : c.isDigit = true := hall c (by rw [← List.mem_reverse, hr]; simp)
      simp [List.dropWhile, this]
  have tw : ∀ l : Str, (∀ c ∈ l, c.isDigit = true) → l.takeWhile Char.isDigit = l := by
    intro l
    induction l with
    | nil => intro _; rfl
    | cons c l ih =>
      intro hl
      rw [List.takeWhile_cons, if_pos (hl c (by simp)), ih (fun x hx => hl x (by simp [hx]))]
  have h2 : s.reverse.takeWhile Char.isDigit = s.reverse := tw _ (fun c hc => hall c (List.mem_reverse.1 hc))
  simp only [h1, h2, List.reverse_reverse]

theorem lastNumber_natToStr (n : Nat) : lastNumber (natToStr n) = some n := by
  rw [lastNumber_digits _ (GramOut.pyIsDigit_natToStr n), GramOut.strToNat_natToStr]


theorem xsentOf_xs (sid : Nat) (t : Tree) : xsentOf sid t = xs sid t := xsentOf_eq sid t

theorem tigerSentence_xsentOf (o : InOpts) (hg : o.gfSplit = false) (hr : o.replaceParens = false) (sid : Nat) (t : Tree)
    (hwf : WF t = true) (hlen : t.leafNums.length < 500) :
    ∃ r, tigerSentence o (xsentOf sid t) = .ok r ∧ sortKids r = sortKids (tigerReadTop t) ∧ WF r = true := by
  obtain ⟨r, h1, h2⟩ := tigerSentence_xs sid t hwf hlen
  refine ⟨r, ?_, h2, WF_of_sortKids_eq h2 (WF_tigerReadTop t hwf)⟩
  rw [xsentOf_xs, ← h1]
  unfold tigerSentence
  simp only [hg, hr]
  rfl

/-- several sentences: the fold of `readTiger` -/
theorem foldlM_tigerStep_xs (o : InOpts) (hg : o.gfSplit = false) (hr : o.replaceParens = false) :
    ∀ (sents : List (Nat × Tree)) (k : Nat) (acc : List (Nat × Tree)),
    (∀ st ∈ sents, WF st.2 = true ∧ st.2.leafNums.length < 500) →
    ∃ rs : List Tree, rs.length = sents.length ∧
      ((sents.map fun st => xsentOf st.1 st.2).zipIdx k).foldlM (tigerStep o) acc =
        .ok (acc ++ (if o.continuous then List.range' (k + 1) sents.length else sents.map (·.1)).zip rs) ∧
      (rs.zip sents).all (fun x => Tree.beq (sortKids x.1) (sortKids (tigerReadTop x.2.2))) = true ∧ ∀ r ∈ rs, WF r = true
  | [], k, acc, _ => ⟨[], rfl, by simp; rfl, rfl, by simp⟩
  | st :: sents, k, acc, h => by
    obtain ⟨r, h1, h2, h3⟩ := tigerSentence_xsentOf o hg hr st.1 st.2 (h st (by simp)).1 (h st (by simp)).2
    obtain ⟨rs, hl, hf, ha, hw⟩ := foldlM_tigerStep_xs o hg hr sents (k + 1)
      (acc ++ [(if o.continuous then k + 1 else st.1, r)]) (fun x hx => h x (by simp [hx]))
    refine ⟨r :: rs, by simp [hl], ?_, ?_, ?_⟩
    · rw [List.map_cons, List.zipIdx_cons, List.foldlM_cons]
      have hstep : tigerStep o acc (xsentOf st.1 st.2, k) = .ok (acc ++ [(if o.continuous then k + 1 else st.1, r)]) := by
        unfold tigerStep
        have : (xsentOf st.1 st.2).id = natToStr st.1 := rfl
        simp only [this, lastNumber_natToStr, h1]
      rw [hstep]
      show List.foldlM (tigerStep o) _ _ = _
      rw [hf]
      cases o.continuous with
      | false => simp
      | true => simp [List.range'_succ]
    · simp only [List.zip_cons_cons, List.all_cons, Bool.and_eq_true]
      exact ⟨by rw [h2]; exact beq_refl _, ha⟩
    · intro x hx
      rcases List.mem_cons.1 hx with rfl | hx
      · exact h3
      · exact hw x hx


open TT.Lemmas.OwnRT

/-! ### discobrackets: the reader against `decDisco` -/

theorem discoSentence_length : ∀ (l : List (Str × LexClass)) (pos : Nat) (acc : List (Nat × Str)),
    (discoSentence l pos acc).2.length ≤ l.length
  | [], _, _ => by simp [discoSentence]
  | (t, c) :: rest, pos, acc => by
    unfold discoSentence
    split
    · split
      · simp
      · have := discoSentence_length rest pos acc
        simp only [List.length_cons]; omega
    · have := discoSentence_length rest (pos + 1) ((pos, t) :: acc)
      simp only [List.length_cons]; omega

/-- enough fuel is enough -/
theorem brLoop_fuel (o : InOpts) : ∀ (f1 f2 : Nat) (st : BrState) (toks : List (Str × LexClass)),
    toks.length < f1 → toks.length < f2 → brLoop o f1 st toks = brLoop o f2 st toks := by
  intro f1
  induction f1 with
  | zero => intro f2 st toks h; omega
  | succ f1 ih =>
    intro f2 st toks h1 h2
    cases f2 with
    | zero => omega
    | succ f2 =>
      cases toks with
      | nil => simp [brLoop]
      | cons tok rest =>
        simp only [List.length_cons] at h1 h2
        simp only [brLoop]
        cases hs : brStep o st tok with
        | error e => rfl
        | ok x =>
          obtain ⟨st', r⟩ := x
          cases r with
          | none => exact ih f2 st' rest (by omega) (by omega)
          | some t =>
            simp only
            split
            · cases rest with
              | nil => rfl
              | cons first rest1 =>
                simp only
                have hlen : ∀ (p : List (Nat × Str) × List (Str × LexClass)),
                    p = (if first.2 == .ws && first.1.contains '\n' then ([], rest1) else discoSentence rest1 1 []) → p.2.length ≤ rest1.length := by
                  intro p hp
                  subst hp
                  split
                  · exact Nat.le_refl _
                  · exact discoSentence_length _ _ _
                generalize hp : (if first.2 == .ws && first.1.contains '\n' then (([] : List (Nat × Str)), rest1) else discoSentence rest1 1 []) = p
                have hl := hlen p hp.symm
                obtain ⟨tm, rest2⟩ := p
                simp only at hl ⊢
                cases discoApply o.discoReordered tm t with
                | none => rfl
                | some t' =>
                  simp only [List.length_cons] at h1 h2
                  exact ih f2 _ rest2 (by omega) (by omega)
            · exact ih f2 _ rest (by omega) (by omega)

/-- the loop with the fuel it gets from `readBrackets` -/
def brD (o : InOpts) (st : BrState) (toks : List (Str × LexClass)) : Except Err (List (Nat × Tree)) :=
  brLoop o (toks.length + 1) st toks

theorem brD_nil (o : InOpts) (st : BrState) (h : st.level = 0) : brD o st [] = .ok st.out.reverse := by
  simp [brD, brLoop, h]

theorem brD_none (o : InOpts) (st st' : BrState) (tok : Str × LexClass) (rest : List (Str × LexClass))
    (h : brStep o st tok = .ok (st', none)) : brD o st (tok :: rest) = brD o st' rest := by
  unfold brD
  simp only [List.length_cons, brLoop, h]

theorem brD_congr (o : InOpts) (st st' : BrState) (tok : Str × LexClass) (rest : List (Str × LexClass))
    (h : brStep o st tok = brStep o st' tok) (hc : st.cnt = st'.cnt) : brD o st (tok :: rest) = brD o st' (tok :: rest) := by
  unfold brD
  simp only [List.length_cons, brLoop, h, hc]

/-- the step at which a tree is completed, with the discobracket post-pass -/
theorem brD_yield (o : InOpts) (hd : o.disco = true) (st st' : BrState) (t : Tree) (tok first : Str × LexClass)
    (rest1 : List (Str × LexClass)) (h : brStep o st tok = .ok (st', some t)) :
    brD o st (tok :: first :: rest1) =
      match discoApply o.discoReordered (if first.2 == .ws && first.1.contains '\n' then ([], rest1) else discoSentence rest1 1 []).1 t with
      | some t' => brD o { st' with out := (st.cnt, t') :: st'.out } (if first.2 == .ws && first.1.contains '\n' then ([], rest1) else discoSentence rest1 1 []).2
      | none => .error .valueError := by
  unfold brD
  simp only [List.length_cons, brLoop, h, hd, if_true]
  generalize hp : (if first.2 == .ws && first.1.contains '\n' then (([] : List (Nat × Str)), rest1) else discoSentence rest1 1 []) = p
  have hl : p.2.length ≤ rest1.length := by
    subst hp
    split
    · exact Nat.le_refl _
    · exact discoSentence_length _ _ _
  obtain ⟨tm, rest2⟩ := p
  simp only at hl ⊢
  cases discoApply o.discoReordered tm t with
  | none => rfl
  | some t' => exact brLoop_fuel o _ _ _ _ (by omega) (by omega)


/-! #### the strict one-line grammar `decBrNode` followed by the automaton -/

/-- labels and words are lexer tokens -/
def NodeOK : Tree → Prop
  | .leaf _ f => TokStr f.label ∧ ∃ w, f.word = some w ∧ TokStr w
  | .node f _ => TokStr f.label

def TreeOK (t : Tree) : Prop := ∀ y ∈ subtrees t, NodeOK y

theorem treeOK_kid (f : Fields) (ks : List Tree) (k : Tree) (h : TreeOK (node f ks)) (hk : k ∈ ks) : TreeOK k :=
  fun y hy => h y ((mem_subtrees_node f ks y).2 (Or.inr ⟨k, hk, hy⟩))

theorem isTokC_sp : isTokC ' ' = false := by decide

def DBody (o : InOpts) (fuel : Nat) : Prop :=
  ∀ (root : Bool) (r : Str) (cnt : Nat) (t : Tree) (rest : Str) (cnt' : Nat), decBrNode fuel ('(' :: r) cnt = some (t, rest, cnt') → TreeOK t →
  ∀ (st : BrState) (q : List QNode) (L : Nat), st.state = (if root then 9 else 1) → st.queue = q ++ [({} : QNode)] → st.level = L + 1 →
    st.termCnt = cnt →
    ∃ (x : QNode) (s' : Nat), x.toTree = asReadBrackets t ∧ (s' = 4 ∨ s' = 5) ∧
      brD o st (bracketLex r) = brD o { st with state := s', queue := q ++ [x], termCnt := cnt' } (bracketLex (')' :: rest))

def DNode (o : InOpts) (fuel : Nat) : Prop :=
  ∀ (r : Str) (cnt : Nat) (t : Tree) (rest : Str) (cnt' : Nat), decBrNode fuel ('(' :: r) cnt = some (t, rest, cnt') → TreeOK t →
  ∀ (st : BrState) (q : List QNode) (p : QNode) (L : Nat), (st.state = 2 ∨ st.state = 3 ∨ st.state = 5) → st.queue = q ++ [p] →
    st.level = L + 1 → st.termCnt = cnt →
    brD o st (bracketLex ('(' :: r)) =
      brD o { st with state := 5, queue := q ++ [{ p with kids := p.kids ++ [asReadBrackets t] }], termCnt := cnt' } (bracketLex rest)

def DKids (o : InOpts) (fuel : Nat) : Prop :=
  ∀ (s : Str) (cnt : Nat) (acc ks : List Tree) (rest : Str) (cnt' : Nat), decBrKids fuel s cnt acc = some (ks, rest, cnt') →
  (∀ k ∈ ks, TreeOK k) →
  ∀ (st : BrState) (q : List QNode) (p : QNode) (L : Nat), (st.state = 5 ∨ (st.state = 2 ∧ ∃ r', s = '(' :: r')) → st.queue = q ++ [p] →
    st.level = L + 1 → st.termCnt = cnt →
    ∃ new, ks = acc.reverse ++ new ∧
      brD o st (bracketLex s) =
        brD o { st with state := 5, queue := q ++ [{ p with kids := p.kids ++ new.map asReadBrackets }], termCnt := cnt' } (bracketLex (')' :: rest))

theorem dnode_of_dbody (o : InOpts) (f : Nat) (B : DBody o f) : DNode o f := by
  intro r cnt t rest cnt' h hok st q p L hs hq hl hc
  obtain ⟨state, level, queue, termCnt, cnt0, out⟩ := st
  simp only at hs hq hl hc
  subst hq hl hc
  have h1 : brD o ⟨state, L + 1, q ++ [p], termCnt, cnt0, out⟩ (bracketLex ('(' :: r)) =
      brD o ⟨1, L + 2, q ++ [p] ++ [({} : QNode)], termCnt, cnt0, out⟩ (bracketLex r) := by
    rw [lex_lrb]
    exact brD_none o _ _ _ _ (by rw [step_lrb_235 o _ _ hs])
  obtain ⟨x, s', hx, hs', hrun⟩ := B false r termCnt t rest cnt' h hok ⟨1, L + 2, q ++ [p] ++ [({} : QNode)], termCnt, cnt0, out⟩
    (q ++ [p]) (L + 1) rfl rfl rfl rfl
  rw [h1, hrun, lex_rrb]
  refine brD_none o _ _ _ _ ?_
  rw [step_rrb_close o _ _ hs' q p x L rfl rfl, hx]

theorem dkids_step (o : InOpts) (f : Nat) (N : DNode o f) (K : DKids o f) : DKids o (f + 1) := by
  intro s cnt acc ks rest cnt' h hok st q p L hs hq hl hc
  obtain ⟨state, level, queue, termCnt, cnt0, out⟩ := st
  simp only at hs hq hl hc
  subst hq hl hc
  cases s with
  | nil => simp [decBrKids] at h
  | cons c r =>
    by_cases hc1 : c = ')'
    · subst hc1
      simp only [decBrKids, Option.some.injEq, Prod.mk.injEq] at h
      obtain ⟨rfl, rfl, rfl⟩ := h
      have h5 : state = 5 := by
        rcases hs with h | ⟨_, r', hr'⟩
        · exact h
        · cases hr'
      subst h5
      exact ⟨[], by simp, by simp⟩
    · by_cases hc2 : c = '('
      · subst hc2
        simp only [decBrKids] at h
        cases hn : decBrNode f ('(' :: r) termCnt with
        | none => rw [hn] at h; cases h
        | some v =>
          obtain ⟨k, r', cnt1⟩ := v
          rw [hn] at h
          simp only at h
          have hs' : state = 2 ∨ state = 3 ∨ state = 5 := by
            rcases hs with h | ⟨h, _⟩ <;> simp [h]
          obtain ⟨new, hnew, hrun⟩ := K r' cnt1 (k :: acc) ks rest cnt' h hok
            ⟨5, L + 1, q ++ [{ p with kids := p.kids ++ [asReadBrackets k] }], cnt1, cnt0, out⟩ q
            { p with kids := p.kids ++ [asReadBrackets k] } L (.inl rfl) rfl rfl rfl
          have hk : k ∈ ks := by rw [hnew]; simp
          have hN := N r termCnt k r' cnt1 hn (hok k hk) ⟨state, L + 1, q ++ [p], termCnt, cnt0, out⟩ q p L hs' rfl rfl rfl
          refine ⟨k :: new, by rw [hnew]; simp, ?_⟩
          rw [hN, hrun]
          simp
      · exfalso
        unfold decBrKids at h
        split at h
        · cases h
        · rename_i heq; injection heq with h1; exact hc1 h1
        · rename_i heq; injection heq with h1; exact hc2 h1
        · cases h


theorem split_takeWhile (p : Char → Bool) (r : Str) : r = r.takeWhile p ++ r.drop (r.takeWhile p).length := by
  rw [drop_takeWhile_length, List.takeWhile_append_dropWhile]

theorem dbody_step (o : InOpts) (hg : o.gfSplit = false) (f : Nat) (K : DKids o f) : DBody o (f + 1) := by
  intro root r cnt t rest cnt' h hok st q L hs hq hl hc
  obtain ⟨state, level, queue, termCnt, cnt0, out⟩ := st
  simp only at hs hq hl hc
  subst hs hq hl hc
  simp only [decBrNode] at h
  have hr := split_takeWhile (fun c => c != '(' && c != ')' && c != ' ') r
  generalize r.takeWhile (fun c => c != '(' && c != ')' && c != ' ') = label at h hr
  have hst : (if root = true then 9 else 1) = 1 ∨ (if root = true then 9 else 1) = 9 := by cases root <;> simp
  split at h
  · -- a token: "(label word)"
    rename_i r2 heq
    have hr2 := split_takeWhile (fun c => c != ')') r2
    generalize r2.takeWhile (fun c => c != ')') = word at h hr2
    split at h
    · rename_i r3 heq2
      simp only [Option.some.injEq, Prod.mk.injEq] at h
      obtain ⟨rfl, rfl, rfl⟩ := h
      obtain ⟨hlab, w, hw, hword⟩ : TokStr label ∧ ∃ w, (some word : Option Str) = some w ∧ TokStr w := hok _ (self_mem_subtrees _)
      cases hw
      rw [heq2] at hr2
      rw [heq, hr2] at hr
      obtain ⟨d, ds, hword'⟩ : ∃ d ds, word = d :: ds := by
        cases word with
        | nil => exact absurd rfl hword.1
        | cons d ds => exact ⟨d, ds, rfl⟩
      have hd : isTokC d = true := hword.2 d (by rw [hword']; simp)
      refine ⟨{ f := { label := label, edge := some DEFAULT_EDGE, morph := some DEFAULT_MORPH, word := some word }, num := some termCnt, raw := label }, 4,
        by simp [QNode.toTree, asRead_leaf], .inl rfl, ?_⟩
      rw [hr, lex_tokrun_append label ' ' _ hlab.1 hlab.2 isTokC_sp,
        brD_none o _ _ _ _ (step_token_19 o _ _ hst hg)]
      simp only [updLast_snoc]
      have e1 : ' ' :: (word ++ ')' :: r3) = [' '] ++ d :: (ds ++ ')' :: r3) := by rw [hword']; rfl
      rw [e1, lex_wsrun_append [' '] d _ (by simp) (by decide) (isTokC_not_ws d hd),
        brD_none o _ _ _ _ (step_ws_2 o _ _ rfl)]
      have e2 : d :: (ds ++ ')' :: r3) = word ++ ')' :: r3 := by rw [hword']; rfl
      rw [e2, lex_tokrun_append word ')' r3 hword.1 hword.2 isTokC_rrb,
        brD_none o _ _ _ _ (step_token_3 o _ _ rfl)]
      simp only [updLast_snoc]
    · cases h
  · -- a constituent: "(label(...)...)"
    rename_i r2 heq
    cases hk : decBrKids f ('(' :: r2) termCnt [] with
    | none => rw [hk] at h; cases h
    | some v =>
      obtain ⟨ks, r', cnt1⟩ := v
      rw [hk] at h
      simp only [Option.some.injEq, Prod.mk.injEq] at h
      obtain ⟨rfl, rfl, rfl⟩ := h
      have hlab : TokStr label := hok _ (self_mem_subtrees _)
      rw [heq] at hr
      obtain ⟨new, hnew, hrun⟩ := K ('(' :: r2) termCnt [] ks r' cnt1 hk (fun k hk' => treeOK_kid _ _ k hok hk')
        ⟨2, L + 1, q ++ [{ f := { label := label, edge := some DEFAULT_EDGE, morph := some DEFAULT_MORPH }, raw := label }], termCnt, cnt0, out⟩ q
        { f := { label := label, edge := some DEFAULT_EDGE, morph := some DEFAULT_MORPH }, raw := label } L (.inr ⟨rfl, r2, rfl⟩) rfl rfl rfl
      simp only [List.reverse_nil, List.nil_append] at hnew
      subst hnew
      refine ⟨{ f := { label := label, edge := some DEFAULT_EDGE, morph := some DEFAULT_MORPH }, kids := ks.map asReadBrackets, raw := label }, 5,
        by simp [QNode.toTree, asRead_node], .inr rfl, ?_⟩
      rw [hr, lex_tokrun_append label '(' _ hlab.1 hlab.2 isTokC_lrb,
        brD_none o _ _ _ _ (step_token_19 o _ _ hst hg)]
      simp only [updLast_snoc]
      rw [hrun]
      simp
  · cases h

theorem dsim_all (o : InOpts) (hg : o.gfSplit = false) : ∀ f, DBody o f ∧ DKids o f := by
  intro f
  induction f with
  | zero =>
    constructor
    · intro root r cnt t rest cnt' h; simp [decBrNode] at h
    · intro s cnt acc ks rest cnt' h; simp [decBrKids] at h
  | succ f ih => exact ⟨dbody_step o hg f ih.2, dkids_step o f (dnode_of_dbody o f ih.1) ih.2⟩


/-! #### the strict grammar does not look beyond the tree -/

theorem takeWhile_stop (p : Char → Bool) (r : Str) (c : Char) (x : Str) (h : r.drop (r.takeWhile p).length = c :: x) (tail : Str) :
    (r ++ tail).takeWhile p = r.takeWhile p ∧ (r ++ tail).drop (r.takeWhile p).length = c :: (x ++ tail) := by
  have hr := split_takeWhile p r
  rw [h] at hr
  have hc : p c = false := by
    rw [drop_takeWhile_length] at h
    exact dropWhile_head_false _ _ _ _ h
  have hall : ∀ a ∈ r.takeWhile p, p a = true := fun a ha => List.all_eq_true.1 (List.all_takeWhile (l := r) (p := p)) a ha
  have key := takeWhile_run p (r.takeWhile p) c (x ++ tail) hall hc
  have e : r ++ tail = r.takeWhile p ++ c :: (x ++ tail) := by
    conv => lhs; rw [hr]
    simp
  constructor
  · rw [e]; exact key.1
  · rw [e, List.drop_left]

theorem decBr_append : ∀ (f : Nat),
    (∀ s cnt t rest cnt' tail, decBrNode f s cnt = some (t, rest, cnt') → decBrNode f (s ++ tail) cnt = some (t, rest ++ tail, cnt')) ∧
    (∀ s cnt acc ks rest cnt' tail, decBrKids f s cnt acc = some (ks, rest, cnt') → decBrKids f (s ++ tail) cnt acc = some (ks, rest ++ tail, cnt')) := by
  intro f
  induction f with
  | zero => exact ⟨fun s cnt t rest cnt' tail h => by simp [decBrNode] at h, fun s cnt acc ks rest cnt' tail h => by simp [decBrKids] at h⟩
  | succ f ih =>
    constructor
    · intro s cnt t rest cnt' tail h
      cases s with
      | nil => simp [decBrNode] at h
      | cons c r =>
        by_cases hc : c = '('
        · subst hc
          simp only [decBrNode] at h
          rw [List.cons_append]
          simp only [decBrNode]
          split at h
          · rename_i r2 heq
            obtain ⟨e1, e2⟩ := takeWhile_stop _ r ' ' r2 heq tail
            rw [e1, e2]
            simp only
            split at h
            · rename_i r3 heq2
              obtain ⟨e3, e4⟩ := takeWhile_stop _ r2 ')' r3 heq2 tail
              rw [e3, e4]
              simp only [Option.some.injEq, Prod.mk.injEq] at h ⊢
              obtain ⟨h1, h2, h3⟩ := h
              exact ⟨h1, by rw [h2], h3⟩
            · cases h
          · rename_i r2 heq
            obtain ⟨e1, e2⟩ := takeWhile_stop _ r '(' r2 heq tail
            rw [e1, e2]
            simp only
            cases hk : decBrKids f ('(' :: r2) cnt [] with
            | none => rw [hk] at h; cases h
            | some v =>
              obtain ⟨ks, r', cnt1⟩ := v
              rw [hk] at h
              have := ih.2 _ _ _ _ _ _ tail hk
              rw [List.cons_append] at this
              rw [this]
              simp only [Option.some.injEq, Prod.mk.injEq] at h ⊢
              obtain ⟨h1, h2, h3⟩ := h
              exact ⟨h1, by rw [h2], h3⟩
          · cases h
        · exfalso
          unfold decBrNode at h
          split at h
          · cases h
          · rename_i heq; injection heq with h1; exact hc h1
          · cases h
    · intro s cnt acc ks rest cnt' tail h
      cases s with
      | nil => simp [decBrKids] at h
      | cons c r =>
        by_cases hc1 : c = ')'
        · subst hc1
          simp only [decBrKids, Option.some.injEq, Prod.mk.injEq] at h
          obtain ⟨rfl, rfl, rfl⟩ := h
          simp [decBrKids]
        · by_cases hc2 : c = '('
          · subst hc2
            simp only [decBrKids] at h
            rw [List.cons_append]
            simp only [decBrKids]
            cases hn : decBrNode f ('(' :: r) cnt with
            | none => rw [hn] at h; cases h
            | some v =>
              obtain ⟨k, r', cnt1⟩ := v
              rw [hn] at h
              have := ih.1 _ _ _ _ _ tail hn
              rw [List.cons_append] at this
              rw [this]
              exact ih.2 _ _ _ _ _ _ tail h
          · exfalso
            unfold decBrKids at h
            split at h
            · cases h
            · rename_i heq; injection heq with h1; exact hc1 h1
            · rename_i heq; injection heq with h1; exact hc2 h1
            · cases h


/-! #### the sentence after the tree -/

theorem joinWith_splitOnChar (c : Char) : ∀ s : Str, joinWith [c] (splitOnChar c s) = s
  | [] => rfl
  | x :: xs => by
    have ih := joinWith_splitOnChar c xs
    rw [splitOnChar]
    by_cases hx : x = c
    · rw [if_pos hx]
      cases hs : splitOnChar c xs with
      | nil => exact absurd hs (TT.Lemmas.ExportRT.splitOnChar_ne_nil c xs)
      | cons y ys =>
        rw [hs] at ih
        simp only [joinWith, List.nil_append, List.singleton_append, ih, hx]
    · rw [if_neg hx]
      cases hs : splitOnChar c xs with
      | nil => exact absurd hs (TT.Lemmas.ExportRT.splitOnChar_ne_nil c xs)
      | cons y ys =>
        rw [hs] at ih
        simp only
        cases ys with
        | nil => simp only [joinWith] at ih ⊢; rw [ih]
        | cons z zs => simp only [joinWith, List.cons_append] at ih ⊢; rw [ih]

/-- the positions the reader gives the words -/
def numbered : Nat → List Str → List (Nat × Str)
  | _, [] => []
  | pos, w :: ws => (pos, w) :: numbered (pos + 1) ws

theorem tokStr_ne_sp (w : Str) (h : TokStr w) : (w == [' ']) = false := by
  rw [beq_eq_false_iff_ne]
  intro e
  have := h.2 ' ' (by rw [e]; simp)
  rw [isTokC_sp] at this; cases this

theorem tokStr_ne_nl (w : Str) (h : TokStr w) : (w == ['\n']) = false := by
  rw [beq_eq_false_iff_ne]
  intro e
  have := h.2 '\n' (by rw [e]; simp)
  revert this; decide

theorem tokStr_head (w : Str) (h : TokStr w) : ∃ d ds, w = d :: ds ∧ isTokC d = true := by
  cases w with
  | nil => exact absurd rfl h.1
  | cons d ds => exact ⟨d, ds, rfl, h.2 d (by simp)⟩

/-- what follows a line: nothing, or a text that starts with a character other than whitespace (the next tree) -/
def MoreOK (more : Str) : Prop := more = [] ∨ ∃ d m, more = d :: m ∧ isWsC d = false

theorem discoSentence_words : ∀ (ws : List Str) (pos : Nat) (acc : List (Nat × Str)) (more : Str), ws ≠ [] → (∀ w ∈ ws, TokStr w) → MoreOK more →
    discoSentence (bracketLex (joinWith [' '] ws ++ '\n' :: more)) pos acc = (acc.reverse ++ numbered pos ws, bracketLex more)
  | [], _, _, _, h, _, _ => absurd rfl h
  | [w], pos, acc, more, _, hw, hm => by
    have hw1 := hw w (by simp)
    simp only [joinWith]
    rw [lex_tokrun_append w '\n' more hw1.1 hw1.2 (by decide)]
    rw [discoSentence]
    have hc : (LexClass.token == LexClass.ws) = false := by decide
    simp only [hc, Bool.false_eq_true, if_false]
    rcases hm with rfl | ⟨d, m, rfl, hd⟩
    · have : bracketLex ['\n'] = [] := (lex_ws '\n' [] (by decide)).1 (by decide)
      rw [this, discoSentence]
      simp [numbered, lex_nil]
    · have : bracketLex ('\n' :: d :: m) = (['\n'], .ws) :: bracketLex (d :: m) :=
        lex_wsrun_append ['\n'] d m (by simp) (by decide) hd
      rw [this, discoSentence]
      simp [numbered]
  | w :: w' :: ws, pos, acc, more, _, hw, hm => by
    have hw1 := hw w (by simp)
    have hw2 := hw w' (by simp)
    obtain ⟨d, ds, hd, hdt⟩ := tokStr_head w' hw2
    have e : joinWith [' '] (w :: w' :: ws) ++ '\n' :: more = w ++ ' ' :: (joinWith [' '] (w' :: ws) ++ '\n' :: more) := by
      simp [joinWith]
    have e2 : ∃ x, joinWith [' '] (w' :: ws) ++ '\n' :: more = d :: x := by
      cases ws with
      | nil => exact ⟨ds ++ '\n' :: more, by simp [joinWith, hd]⟩
      | cons z zs => exact ⟨ds ++ [' '] ++ joinWith [' '] (z :: zs) ++ '\n' :: more, by simp [joinWith, hd]⟩
    obtain ⟨x, hx⟩ := e2
    rw [e, lex_tokrun_append w ' ' _ hw1.1 hw1.2 isTokC_sp, discoSentence]
    have hc : (LexClass.token == LexClass.ws) = false := by decide
    simp only [hc, Bool.false_eq_true, if_false]
    have e3 : ' ' :: (joinWith [' '] (w' :: ws) ++ '\n' :: more) = [' '] ++ d :: x := by rw [hx]; rfl
    rw [e3, lex_wsrun_append [' '] d x (by simp) (by decide) (isTokC_not_ws d hdt), discoSentence]
    have hc2 : (LexClass.ws == LexClass.ws) = true := by decide
    have hc3 : ([' '] : Str).contains '\n' = false := by decide
    simp only [hc2, hc3, if_true, Bool.false_eq_true, if_false]
    rw [← hx, discoSentence_words (w' :: ws) (pos + 1) ((pos, w) :: acc) more (by simp) (fun y hy => hw y (by simp [hy])) hm]
    simp [numbered]

theorem find_numbered : ∀ (ws : List Str) (pos k : Nat) (extra : List (Nat × Str)), pos ≤ k → k < pos + ws.length →
    ((numbered pos ws ++ extra).find? (·.1 == k)).map (·.2) = ws[k - pos]?
  | [], pos, k, _, h1, h2 => by simp at h2; omega
  | w :: ws, pos, k, extra, h1, h2 => by
    simp only [numbered, List.cons_append, List.find?_cons]
    by_cases hk : pos = k
    · subst hk; simp
    · have : (pos == k) = false := by simpa using hk
      simp only [this]
      have := find_numbered ws (pos + 1) k extra (by omega) (by simp at h2; omega)
      rw [this]
      have e : k - pos = (k - (pos + 1)) + 1 := by omega
      rw [e, List.getElem?_cons_succ]


/-! #### the post-pass against `decDisco` -/

/-- the word of the token numbered `n` -/
def wordAt (words : List Str) : Tree → Fields → Fields := fun s f => match s with
  | .leaf n _ => { f with word := some ((words[n - 1]?).getD []) }
  | _ => f

def LeafInRange (words : List Str) (l : Tree) : Prop :=
  ∃ k, l.fields.word.bind strToNat? = some k ∧ 1 ≤ k ∧ k ≤ words.length

theorem renumberByWord_node (f : Fields) (ks : List Tree) : renumberByWord (node f ks) = (renumberByWordL ks).map (node f) := by
  rw [renumberByWord]

theorem discoApply_node (b : Bool) (tm : List (Nat × Str)) (f : Fields) (ks : List Tree) :
    discoApply b tm (node f ks) = (discoApplyL b tm ks).map (node f) := by
  rw [discoApply]

theorem discoApply_dec (tm : List (Nat × Str)) (words : List Str)
    (hlook : ∀ k, 1 ≤ k → k ≤ words.length → (tm.find? (·.1 == k)).map (·.2) = words[k - 1]?) :
    ∀ t0 : Tree, (∀ l ∈ leaves t0, LeafInRange words l) →
      ∃ t1, renumberByWord t0 = some t1 ∧
        discoApply false tm (asReadBrackets t0) = some (asReadBrackets (mapFields (wordAt words) t1)) := by
  intro t0
  induction t0 using tree_ind with
  | hl n f =>
    intro h
    obtain ⟨k, hk, h1, h2⟩ := h (leaf n f) (by simp [leaves])
    have hk' : f.word.bind strToNat? = some k := hk
    refine ⟨leaf k f, by simp [renumberByWord, hk'], ?_⟩
    rw [asRead_leaf, discoApply]
    simp only [hk', Bool.false_eq_true, if_false]
    have hl := hlook k h1 h2
    have hw : words[k - 1]? = some (words[k - 1]'(by omega)) := List.getElem?_eq_getElem (by omega)
    rw [hw] at hl
    simp only [mapFields, wordAt, asRead_leaf, hw, Option.getD_some]
    cases hf : tm.find? (·.1 == k) with
    | none => rw [hf] at hl; cases hl
    | some y =>
      rw [hf] at hl
      simp only [Option.map_some, Option.some.injEq] at hl
      simp only [Option.map_some, Option.getD_some, hl]
  | hn f ks ih =>
    intro h
    have hL : ∀ (L : List Tree), (∀ k ∈ L, k ∈ ks) → ∃ L1, renumberByWordL L = some L1 ∧
        discoApplyL false tm (L.map asReadBrackets) = some (L1.map fun t1 => asReadBrackets (mapFields (wordAt words) t1)) := by
      intro L
      induction L with
      | nil => intro _; exact ⟨[], rfl, rfl⟩
      | cons k L ihL =>
        intro hsub
        obtain ⟨k1, hk1, hk2⟩ := ih k (hsub k (by simp)) (fun l hl => h l (by
          rw [leaves_node]; exact List.mem_flatMap.2 ⟨k, hsub k (by simp), hl⟩))
        obtain ⟨L1, hL1, hL2⟩ := ihL (fun x hx => hsub x (by simp [hx]))
        refine ⟨k1 :: L1, by simp [renumberByWordL, hk1, hL1], ?_⟩
        simp only [List.map_cons, discoApplyL, hk2, hL2]
    obtain ⟨L1, hL1, hL2⟩ := hL ks (fun k hk => hk)
    refine ⟨node f L1, by rw [renumberByWord_node, hL1]; rfl, ?_⟩
    rw [asRead_node, discoApply_node, hL2]
    simp only [Option.map_some, mapFields, TT.Lemmas.OwnRT.mapFieldsL_eq, asRead_node, wordAt, List.map_map]
    rfl


/-! #### one line, all lines -/

/-- the hypotheses about one line, unpacked -/
structure LineFacts (line : Str) (tD : Tree) : Prop where
  ex : ∃ (r sent : Str) (t0 t1 : Tree) (c' : Nat), line = ('(' :: r) ++ '\t' :: sent ∧
    decBrNode (2 * ('(' :: r).length + 2) ('(' :: r) 1 = some (t0, [], c') ∧ TreeOK t0 ∧
    (∀ w ∈ splitOnChar ' ' sent, TokStr w) ∧ (∀ l ∈ leaves t0, LeafInRange (splitOnChar ' ' sent) l) ∧
    renumberByWord t0 = some t1 ∧ tD = mapFields (wordAt (splitOnChar ' ' sent)) t1

theorem decBrackets_some (tr : Str) (t : Tree) (h : decBrackets tr = some t) :
    ∃ r c', tr = '(' :: r ∧ decBrNode (2 * tr.length + 2) tr 1 = some (t, [], c') := by
  unfold decBrackets at h
  split at h
  · rename_i t' c' heq
    simp only [Option.some.injEq] at h
    subst h
    cases tr with
    | nil => simp [decBrNode] at heq
    | cons c r =>
      by_cases hc : c = '('
      · subst hc; exact ⟨r, c', rfl, heq⟩
      · exfalso
        unfold decBrNode at heq
        split at heq
        · cases heq
        · rename_i h2; injection h2 with h1; exact hc h1
        · cases heq
  · cases h

theorem treeOK_of_bracketsOK (t : Tree) (h : BracketsOK t = true) : TreeOK t := by
  intro y hy
  unfold BracketsOK at h
  rw [List.all_eq_true] at h
  have hy' := h y hy
  simp only [Bool.and_eq_true, Bool.or_eq_true, Bool.not_eq_true'] at hy'
  obtain ⟨⟨h1, h2⟩, h3⟩ := hy'
  cases y with
  | node f ks => exact tokStr_of_fieldOK _ h1 h2
  | leaf n f =>
    simp only [Tree.isLeaf, Tree.fields] at h3 h1 h2
    rcases h3 with h3 | h3
    · cases h3
    · cases hw : f.word with
      | none => rw [hw] at h3; cases h3
      | some w =>
        rw [hw] at h3
        simp only [Bool.and_eq_true] at h3
        exact ⟨tokStr_of_fieldOK _ h1 h2, w, hw, tokStr_of_fieldOK _ h3.1 h3.2⟩

theorem lineFacts_of (line : Str) (tD : Tree) (h : decDisco line = some tD) (hok : DiscoLineOK line = true) : LineFacts line tD := by
  unfold decDisco at h
  unfold DiscoLineOK at hok
  split at h
  · rename_i tr sent hsp
    rw [hsp] at hok
    simp only [Bool.and_eq_true, List.all_eq_true] at hok
    obtain ⟨hwords, hrest⟩ := hok
    cases hd : decBrackets tr with
    | none => rw [hd] at hrest; cases hrest
    | some t0 =>
      rw [hd] at hrest h
      simp only [Bool.and_eq_true, List.all_eq_true] at hrest
      obtain ⟨hb, hleaves⟩ := hrest
      simp only [Option.bind_some] at h
      cases hr : renumberByWord t0 with
      | none => rw [hr] at h; cases h
      | some t1 =>
        rw [hr] at h
        simp only [Option.map_some, Option.some.injEq] at h
        obtain ⟨r, c', rfl, hdec⟩ := decBrackets_some tr t0 hd
        refine ⟨⟨r, sent, t0, t1, c', ?_, hdec, treeOK_of_bracketsOK t0 hb, ?_, ?_, hr, h.symm⟩⟩
        · have := joinWith_splitOnChar '\t' line
          rw [hsp] at this
          simp only [joinWith] at this
          rw [← this]; simp
        · intro w hw
          have := hwords w hw
          exact tokStr_of_fieldOK w this.1 (by
            rw [List.all_eq_true]; intro c hc
            have := this.2 c hc
            simp only [Bool.and_eq_true]; exact this)
        · intro l hl
          have := hleaves l hl
          cases hk : l.fields.word.bind strToNat? with
          | none => rw [hk] at this; cases this
          | some k =>
            rw [hk] at this
            simp only [Bool.and_eq_true, decide_eq_true_eq] at this
            exact ⟨k, hk, this.1, this.2⟩
  · cases h

theorem brD_line (o : InOpts) (hg : o.gfSplit = false) (hr : o.replaceParens = false) (hd : o.disco = true)
    (hdr : o.discoReordered = false) (line : Str) (tD : Tree) (hf : LineFacts line tD) (more : Str) (hm : MoreOK more)
    (cnt0 : Nat) (out : List (Nat × Tree)) :
    brD o ⟨0, 0, [], 1, cnt0, out⟩ (bracketLex (line ++ '\n' :: more)) =
      brD o ⟨0, 0, [], 1, cnt0 + 1, (cnt0, asReadBrackets tD) :: out⟩ (bracketLex more) := by
  obtain ⟨r, sent, t0, t1, c', rfl, hdec, hok, hwords, hrange, hren, rfl⟩ := hf.ex
  have hsent : sent = joinWith [' '] (splitOnChar ' ' sent) := (joinWith_splitOnChar ' ' sent).symm
  generalize hW : splitOnChar ' ' sent = words at hwords hrange hsent
  have hWne : words ≠ [] := by rw [← hW]; exact TT.Lemmas.ExportRT.splitOnChar_ne_nil ' ' sent
  -- the text after the tree
  have htext : (('(' :: r) ++ '\t' :: sent) ++ '\n' :: more = '(' :: (r ++ ('\t' :: (joinWith [' '] words ++ '\n' :: more))) := by
    rw [hsent]; simp
  rw [htext]
  have hdec' := (decBr_append _).1 _ _ _ _ _ ('\t' :: (joinWith [' '] words ++ '\n' :: more)) hdec
  simp only [List.nil_append, List.cons_append] at hdec'
  -- "(" : a new sentence
  rw [lex_lrb, brD_none o _ _ _ _ (step_lrb_0 o ⟨0, 0, [], 1, cnt0, out⟩ _ rfl)]
  obtain ⟨x, s', hx, hs', hrun⟩ := (dsim_all o hg _).1 true _ 1 t0 _ c' hdec' hok ⟨9, 1, [] ++ [({} : QNode)], 1, cnt0, out⟩ [] 0 rfl rfl rfl rfl
  rw [hrun]
  -- ")" and the TAB
  obtain ⟨w1, wrest, hw1⟩ : ∃ w1 wrest, words = w1 :: wrest := by
    cases words with
    | nil => exact absurd rfl hWne
    | cons a b => exact ⟨a, b, rfl⟩
  obtain ⟨d, ds, hd1, hdt⟩ := tokStr_head w1 (hwords w1 (by rw [hw1]; simp))
  obtain ⟨y, hy⟩ : ∃ y, joinWith [' '] words ++ '\n' :: more = d :: y := by
    rw [hw1]
    cases wrest with
    | nil => exact ⟨ds ++ '\n' :: more, by simp [joinWith, hd1]⟩
    | cons z zs => exact ⟨ds ++ [' '] ++ joinWith [' '] (z :: zs) ++ '\n' :: more, by simp [joinWith, hd1]⟩
  have e1 : '\t' :: (joinWith [' '] words ++ '\n' :: more) = ['\t'] ++ d :: y := by rw [hy]; rfl
  rw [lex_rrb, e1, lex_wsrun_append ['\t'] d y (by simp) (by decide) (isTokC_not_ws d hdt)]
  rw [brD_yield o hd _ _ _ _ _ _ (step_rrb_yield o _ _ hs' x rfl rfl hr)]
  have hfirst' : ((LexClass.ws == LexClass.ws) && (['\t'] : Str).contains '\n') = false := by decide
  simp only [hfirst', Bool.false_eq_true, if_false, hdr]
  rw [← hy, discoSentence_words words 1 [] more hWne hwords hm, hx]
  have hlook : ∀ (k : Nat), 1 ≤ k → k ≤ words.length →
      ((numbered 1 words).find? (·.1 == k)).map (·.2) = words[k - 1]? :=
    fun k h1 h2 => by simpa using find_numbered words 1 k [] h1 (by omega)
  simp only [List.reverse_nil, List.nil_append]
  obtain ⟨t1', ht1, happ⟩ := discoApply_dec (numbered 1 words) words hlook t0 hrange
  rw [hren] at ht1
  cases ht1
  rw [happ]

theorem moreOK_lines (ls : List Str) (ts : List Tree) (h : ls.mapM decDisco = some ts) (hok : ∀ l ∈ ls, DiscoLineOK l = true) :
    MoreOK ((ls.map (· ++ ['\n'])).flatten) := by
  cases ls with
  | nil => exact Or.inl rfl
  | cons l ls =>
    right
    obtain ⟨b, _, hb⟩ := mapM_mem _ _ _ h l (by simp)
    obtain ⟨r, sent, _, _, _, hl, _⟩ := (lineFacts_of l b hb (hok l (by simp))).ex
    exact ⟨'(', r ++ '\t' :: (sent ++ '\n' :: (ls.map (· ++ ['\n'])).flatten), by rw [hl]; simp, by decide⟩

theorem brD_lines (o : InOpts) (hg : o.gfSplit = false) (hr : o.replaceParens = false) (hd : o.disco = true)
    (hdr : o.discoReordered = false) : ∀ (ls : List Str) (ts : List Tree), ls.mapM decDisco = some ts →
    (∀ l ∈ ls, DiscoLineOK l = true) → ∀ (cnt0 : Nat) (out : List (Nat × Tree)),
    brD o ⟨0, 0, [], 1, cnt0, out⟩ (bracketLex ((ls.map (· ++ ['\n'])).flatten)) =
      .ok (out.reverse ++ (List.range' cnt0 ts.length).zip (ts.map asReadBrackets))
  | [], ts, h, _, cnt0, out => by
    simp only [List.mapM_nil, pure, Option.some.injEq] at h
    subst h
    simp [lex_nil, brD_nil]
  | l :: ls, ts, h, hok, cnt0, out => by
    rw [List.mapM_cons] at h
    cases h1 : decDisco l with
    | none => simp [h1] at h
    | some tD =>
      cases h2 : ls.mapM decDisco with
      | none => simp [h1, h2] at h
      | some ts' =>
        simp only [h1, h2, Option.bind_eq_bind, Option.bind_some, pure, Option.some.injEq] at h
        subst h
        have hm := moreOK_lines ls ts' h2 (fun x hx => hok x (by simp [hx]))
        have e : ((l :: ls).map (· ++ ['\n'])).flatten = l ++ '\n' :: (ls.map (· ++ ['\n'])).flatten := by simp
        rw [e, brD_line o hg hr hd hdr l tD (lineFacts_of l tD h1 (hok l (by simp))) _ hm,
          brD_lines o hg hr hd hdr ls ts' h2 (fun x hx => hok x (by simp [hx]))]
        simp [List.range'_succ]

/-- the discobracket reader against the independent decoder `decDisco`, line by line -/
theorem readBrackets_disco (o : InOpts) (hg : o.gfSplit = false) (hr : o.replaceParens = false) (hd : o.disco = true)
    (hdr : o.discoReordered = false) (ls : List Str) (ts : List Tree) (h : ls.mapM decDisco = some ts)
    (hok : ∀ l ∈ ls, DiscoLineOK l = true) :
    readBrackets o ((ls.map (· ++ ['\n'])).flatten) =
      .ok ((List.range' (o.firstId.getD 1) ts.length).zip (ts.map asReadBrackets)) := by
  have := brD_lines o hg hr hd hdr ls ts h hok (o.firstId.getD 1) []
  simp only [List.reverse_nil, List.nil_append] at this
  exact this

end TT.Lemmas.More12h
