/-
  TT.Lemmas.Sum19 — weighted sums over the entries of a grammar are additive under `Grammar.add`, hence under the
  extraction from a concatenated treebank (wave 19, C18 clause 6 for Markovized binarization).
-/
import TT.Grammar.Extract
import TT.Lemmas.GramBin
namespace TT.Lemmas.Sum19
open TT TT.Tree

/-- sum of `S key value` over an association list -/
def asum {κ ν} (S : κ → ν → Nat) (l : AList κ ν) : Nat := (l.map fun p => S p.1 p.2).sum

/-- if the new value under `k` weighs `d` more than the old one (a missing one weighs 0), the sum grows by `d` -/
theorem asum_upsert {κ ν} [DecidableEq κ] (S : κ → ν → Nat) (k : κ) (F : Option ν → ν) (d : Nat)
    (h0 : S k (F none) = d) (h1 : ∀ x, S k (F (some x)) = S k x + d) :
    ∀ l : AList κ ν, asum S (AList.upsert k F l) = asum S l + d
  | [] => by simp [AList.upsert, asum, h0]
  | (a, x) :: r => by
    unfold AList.upsert
    by_cases ha : a = k
    · subst ha
      simp only [if_true, asum, List.map_cons, List.sum_cons, h1]
      omega
    · have ih := asum_upsert S k F d h0 h1 r
      simp only [if_neg ha, asum, List.map_cons, List.sum_cons] at ih ⊢
      omega

/-- the entries of a grammar weighted by a function of their key, as a nested sum -/
def wsum (W : Func → Lin → VertKey → Nat) (g : Grammar) : Nat :=
  asum (fun f ls => asum (fun l vs => asum (fun v c => c * W f l v) vs) ls) g

theorem wsum_eq_entries (W : Func → Lin → VertKey → Nat) (g : Grammar) :
    wsum W g = (g.entries.map fun e => e.2.2.2 * W e.1 e.2.1 e.2.2.1).sum := by
  induction g with
  | nil => simp [Grammar.entries, wsum, asum]
  | cons a r ih =>
    obtain ⟨f, ls⟩ := a
    rw [TT.Lemmas.GramBin.entries_cons, List.map_append, List.sum_append, ← ih]
    simp only [wsum, asum, List.map_cons, List.sum_cons]
    congr 1
    induction ls with
    | nil => simp
    | cons b bs ih2 =>
      obtain ⟨l, vs⟩ := b
      simp only [List.flatMap_cons, List.map_append, List.sum_append, ← ih2, List.map_cons, List.sum_cons,
        List.map_map]
      rfl

theorem wsum_add (W : Func → Lin → VertKey → Nat) (g : Grammar) (f : Func) (l : Lin) (v : VertKey) (n : Nat) :
    wsum W (g.add f l v n) = wsum W g + n * W f l v := by
  have h3 : ∀ vs : AList VertKey Nat,
      asum (fun v c => c * W f l v) (AList.upsert v (fun o3 => o3.getD 0 + n) vs) =
        asum (fun v c => c * W f l v) vs + n * W f l v :=
    asum_upsert _ _ _ _ (by simp) (fun x => by simp [Nat.add_mul])
  have h2 : ∀ ls : AList Lin (AList VertKey Nat),
      asum (fun l vs => asum (fun v c => c * W f l v) vs)
          (AList.upsert l (fun o2 => AList.upsert v (fun o3 => o3.getD 0 + n) (o2.getD [])) ls) =
        asum (fun l vs => asum (fun v c => c * W f l v) vs) ls + n * W f l v :=
    asum_upsert _ _ _ _ (by simpa [asum] using h3 []) (fun x => by simpa using h3 x)
  exact asum_upsert _ _ _ _ (by simpa [asum] using h2 []) (fun x => by simpa using h2 x) g

/-- the weight an extraction event adds -/
def evW (W : Func → Lin → VertKey → Nat) : Event → Nat
  | .rule f l v => W f l (.ctx v)
  | .lex _ _ => 0

theorem wsum_events (W : Func → Lin → VertKey → Nat) : ∀ (evs : List Event) (st : Grammar × Lexicon),
    wsum W (evs.foldl applyEvent st).1 = wsum W st.1 + (evs.map (evW W)).sum
  | [], st => by simp
  | e :: evs, st => by
    rw [List.foldl_cons, wsum_events W evs, List.map_cons, List.sum_cons]
    cases e with
    | rule f l v => simp only [applyEvent, evW, wsum_add]; omega
    | lex w t => simp [applyEvent, evW]

theorem wsum_foldl_extract (W : Func → Lin → VertKey → Nat) : ∀ (ts : List Tree) (st : Grammar × Lexicon),
    wsum W (ts.foldl (fun st t => extract t st) st).1 =
      wsum W st.1 + (ts.map fun t => ((events [] t).map (evW W)).sum).sum
  | [], st => by simp
  | t :: ts, st => by
    rw [List.foldl_cons, wsum_foldl_extract W ts, List.map_cons, List.sum_cons]
    unfold extract
    rw [wsum_events]
    omega

/-- weighted entry sums of the grammar of a concatenated treebank: the sum of those of the parts -/
theorem wsum_extractAll_append (W : Func → Lin → VertKey → Nat) (ts us : List Tree) :
    wsum W (extractAll (ts ++ us)).1 = wsum W (extractAll ts).1 + wsum W (extractAll us).1 := by
  unfold extractAll
  simp only [wsum_foldl_extract, List.map_append, List.sum_append]
  simp [wsum, asum]

end TT.Lemmas.Sum19
