/-
  Helper lemmas for the whole command `treetools transform` (`TT/Run.lean`).
  1. the pipeline: the text of a list of trees (`bodyText`), its behaviour on concatenations, the frame of a TIGER-XML
     document, `distribute`, the steps.
  2. the export writer free of paths: on a well-formed tree the number of a constituent is 500 + the number of constituents with
     a smaller (level, leftmost token) (`numOf_eq_nu`), so that `writeExport` is a function (`assemble`) of the multiset of
     (node, number of its parent) (`writeExport_eq_assemble`); hence invariance under maps that reorder children and change
     fields the writer does not look at (`GoodMap`, `writeExport_goodMap`): `sortKids`, `stripW`, `carryExport`;
     `writeExport_of_nf_eq`, `writeExport_readback` (export -> export).
  3. brackets -> brackets: `brText`, `writeBrackets_readback`.
  4. maps that change fields only, without any assumption on the tree (`ShapeMap`, `writeExport_shapeMap`,
     `writeExport_carry_plain`).
-/
import TT.Run
import TT.Props.C17
import TT.Lemmas.ExportRT
import TT.Lemmas.OwnRT
import TT.Props.C16
namespace TT.Lemmas.Run
open TT TT.Tree TT.Spec
open TT.Lemmas.ExportRT TT.Lemmas.WF TT.Lemmas.Nav TT.Lemmas.OwnRT

/-! ### `Except` bookkeeping -/

theorem bind_ok {ε α β : Type} (x : Except ε α) (f : α → Except ε β) (b : β) (h : (x >>= f) = .ok b) :
    ∃ a, x = .ok a ∧ f a = .ok b := by
  cases x with
  | error e => cases h
  | ok a => exact ⟨a, rfl, h⟩

theorem mapM_length {ε α β : Type} (f : α → Except ε β) : ∀ (l : List α) (r : List β), l.mapM f = .ok r → r.length = l.length
  | [], r, h => by
    simp only [List.mapM_nil, pure, Except.pure, Except.ok.injEq] at h
    subst h; rfl
  | a :: l, r, h => by
    rw [List.mapM_cons] at h
    obtain ⟨b, _, h⟩ := bind_ok _ _ _ h
    obtain ⟨bs, hbs, h⟩ := bind_ok _ _ _ h
    simp only [pure, Except.pure, Except.ok.injEq] at h
    subst h
    simp [mapM_length f l bs hbs]

/-! ### the text of a list of trees -/

/-- what the trees contribute to the destination, without the frame of the format -/
def bodyText (fmt : DestFmt) (o : OutOpts) (ts : List (Nat × Tree)) : Except Err Str :=
  (ts.mapM fun p => writeOne fmt o p.1 p.2) >>= fun body => pure body.flatten

/-- the frame of a TIGER-XML document around a body -/
def tigerFrame (enc : Option Str) (b : Str) : Str := ((tigerBegin enc).map (· ++ ['\n'])).flatten ++ b ++ tigerEnd

theorem writeAll_eq (fmt : DestFmt) (o : OutOpts) (enc : Option Str) (ts : List (Nat × Tree)) :
    writeAll fmt o enc ts = (bodyText fmt o ts >>= fun b => if fmt = .tigerxml then pure (tigerFrame enc b) else pure b) := by
  unfold writeAll bodyText tigerFrame
  cases (ts.mapM fun p => writeOne fmt o p.1 p.2) with
  | error e => rfl
  | ok body => by_cases h : fmt = .tigerxml <;> simp [h, bind, Except.bind, pure, Except.pure]

theorem writeAll_plain (fmt : DestFmt) (o : OutOpts) (enc : Option Str) (ts : List (Nat × Tree)) (hf : fmt ≠ .tigerxml) :
    writeAll fmt o enc ts = bodyText fmt o ts := by
  rw [writeAll_eq]
  cases bodyText fmt o ts with
  | error e => rfl
  | ok b => simp [hf, bind, Except.bind, pure, Except.pure]

theorem writeAll_tiger (o : OutOpts) (enc : Option Str) (ts : List (Nat × Tree)) :
    writeAll .tigerxml o enc ts = (bodyText .tigerxml o ts >>= fun b => pure (tigerFrame enc b)) := by
  rw [writeAll_eq]
  cases bodyText .tigerxml o ts with
  | error e => rfl
  | ok b => simp [bind, Except.bind]

theorem bodyText_nil (fmt : DestFmt) (o : OutOpts) : bodyText fmt o [] = .ok [] := rfl

theorem bodyText_append (fmt : DestFmt) (o : OutOpts) (a b : List (Nat × Tree)) :
    bodyText fmt o (a ++ b) = (do let x ← bodyText fmt o a; let y ← bodyText fmt o b; pure (x ++ y)) := by
  unfold bodyText
  rw [List.mapM_append]
  cases (a.mapM fun p => writeOne fmt o p.1 p.2) with
  | error e => rfl
  | ok x =>
    cases (b.mapM fun p => writeOne fmt o p.1 p.2) with
    | error e => rfl
    | ok y => simp [bind, Except.bind, pure, Except.pure]

theorem bodyText_append_ok (fmt : DestFmt) (o : OutOpts) (a b : List (Nat × Tree)) (x y : Str)
    (ha : bodyText fmt o a = .ok x) (hb : bodyText fmt o b = .ok y) : bodyText fmt o (a ++ b) = .ok (x ++ y) := by
  rw [bodyText_append, ha, hb]; rfl

/-- the bodies of the parts, taken in order, are the body of the whole -/
theorem bodyText_flatten (fmt : DestFmt) (o : OutOpts) : ∀ (L : List (List (Nat × Tree))) (bodies : List Str),
    L.mapM (bodyText fmt o) = .ok bodies → bodyText fmt o L.flatten = .ok bodies.flatten
  | [], bodies, h => by
    simp only [List.mapM_nil, pure, Except.pure, Except.ok.injEq] at h
    subst h; rfl
  | l :: L, bodies, h => by
    rw [List.mapM_cons] at h
    obtain ⟨b, hb, h⟩ := bind_ok _ _ _ h
    obtain ⟨bs, hbs, h⟩ := bind_ok _ _ _ h
    simp only [pure, Except.pure, Except.ok.injEq] at h
    subst h
    rw [List.flatten_cons, List.flatten_cons]
    exact bodyText_append_ok fmt o _ _ _ _ hb (bodyText_flatten fmt o L bs hbs)

/-- every part of a TIGER-XML split is a framed body -/
theorem mapM_writeAll_tiger (o : OutOpts) (enc : Option Str) : ∀ (L : List (List (Nat × Tree))) (parts : List Str),
    L.mapM (writeAll .tigerxml o enc) = .ok parts →
    ∃ bodies, L.mapM (bodyText .tigerxml o) = .ok bodies ∧ parts = bodies.map (tigerFrame enc)
  | [], parts, h => by
    simp only [List.mapM_nil, pure, Except.pure, Except.ok.injEq] at h
    subst h; exact ⟨[], rfl, rfl⟩
  | l :: L, parts, h => by
    rw [List.mapM_cons] at h
    obtain ⟨p, hp, h⟩ := bind_ok _ _ _ h
    obtain ⟨ps, hps, h⟩ := bind_ok _ _ _ h
    simp only [pure, Except.pure, Except.ok.injEq] at h
    subst h
    rw [writeAll_tiger] at hp
    obtain ⟨b, hb, hp⟩ := bind_ok _ _ _ hp
    simp only [pure, Except.pure, Except.ok.injEq] at hp
    subst hp
    obtain ⟨bs, hbs, rfl⟩ := mapM_writeAll_tiger o enc L ps hps
    refine ⟨b :: bs, ?_, rfl⟩
    rw [List.mapM_cons, hb, hbs]; rfl

theorem mapM_writeAll_plain (fmt : DestFmt) (o : OutOpts) (enc : Option Str) (hf : fmt ≠ .tigerxml) (L : List (List (Nat × Tree))) :
    L.mapM (writeAll fmt o enc) = L.mapM (bodyText fmt o) := by
  have : writeAll fmt o enc = bodyText fmt o := funext fun ts => writeAll_plain fmt o enc ts hf
  rw [this]

/-! ### `distribute` -/

theorem distribute_length {α : Type} : ∀ (sizes : List Nat) (ts : List α), (distribute sizes ts).length = sizes.length
  | [], _ => rfl
  | n :: ns, ts => by simp [distribute, distribute_length ns]

/-! ### the steps -/

theorem applySteps'_append (a b : List Step) (t : Tree) :
    applySteps' (a ++ b) t = (match applySteps' a t with | .ok (some t') => applySteps' b t' | r => r) := by
  induction a generalizing t with
  | nil => rfl
  | cons f fs ih =>
    simp only [List.cons_append, applySteps']
    cases hf : f t with
    | error e => rfl
    | ok r =>
      cases r with
      | none => rfl
      | some t' => exact ih t'

theorem transformAll_append (steps : List Step) (a b : List (Nat × Tree)) :
    transformAll steps (a ++ b) = (do let x ← transformAll steps a; let y ← transformAll steps b; pure (x ++ y)) := by
  induction a with
  | nil =>
    simp only [List.nil_append, transformAll]
    cases transformAll steps b <;> rfl
  | cons p rest ih =>
    obtain ⟨sid, t⟩ := p
    simp only [List.cons_append, transformAll]
    cases applySteps' steps t with
    | error e => rfl
    | ok r =>
      cases r with
      | none => exact ih
      | some t' =>
        simp only [ih]
        cases transformAll steps rest with
        | error e => rfl
        | ok x =>
          cases transformAll steps b with
          | error e => rfl
          | ok y => rfl

theorem transformAll_nil_steps : ∀ ts : List (Nat × Tree), transformAll [] ts = .ok ts
  | [] => rfl
  | (sid, t) :: rest => by simp [transformAll, applySteps', transformAll_nil_steps rest, Except.map]

/-- unfolding of the two commands on a source that was read -/
theorem runFrom_ok (steps : List Step) (fmt : DestFmt) (o : OutOpts) (enc : Option Str) (ts : List (Nat × Tree)) :
    runFrom steps fmt o enc (.ok ts) = (transformAll steps ts >>= fun ts' => writeAll fmt o enc ts') := rfl

theorem runSplitFrom_ok (steps : List Step) (fmt : DestFmt) (o : OutOpts) (enc : Option Str) (spec : Str) (ts : List (Nat × Tree)) :
    runSplitFrom steps fmt o enc spec (.ok ts) =
      (transformAll steps ts >>= fun ts' => parseSplitSpec spec ts'.length >>= fun sizes =>
        (distribute sizes ts').mapM (writeAll fmt o enc)) := rfl

/-! ## the export writer, free of paths -/

/-- lexicographic order on (level, leftmost token) -/
def klt (a b : Nat × Nat) : Bool := decide (a.1 < b.1) || (a.1 == b.1 && decide (a.2 < b.2))
def keyOf (s : Tree) : Nat × Nat := (height s, leftmost s)
/-- a constituent: a node with at least one child -/
def isC (s : Tree) : Bool := !s.kids.isEmpty
def consKeys (x : Tree) : List (Nat × Nat) := ((subtrees x).filter isC).map keyOf
def rank (K : List (Nat × Nat)) (k : Nat × Nat) : Nat := K.countP (fun a => klt a k)
/-- the number of a node: its token number, or 500 + the number of constituents with a smaller (level, leftmost) -/
def nu (K : List (Nat × Nat)) : Tree → Nat
  | leaf n _ => n
  | node f ks => 500 + rank K (keyOf (node f ks))

theorem klt_irrefl (a : Nat × Nat) : klt a a = false := by simp [klt]
theorem klt_asymm (a b : Nat × Nat) (h : klt a b = true) : klt b a = false := by
  simp only [klt, Bool.or_eq_true, Bool.and_eq_true, decide_eq_true_eq, beq_iff_eq] at h
  simp only [klt, Bool.or_eq_false_iff, Bool.and_eq_false_iff, decide_eq_false_iff_not, beq_eq_false_iff_ne]
  omega
theorem klt_total (a b : Nat × Nat) (h : a ≠ b) : klt a b = true ∨ klt b a = true := by
  simp only [klt, Bool.or_eq_true, Bool.and_eq_true, decide_eq_true_eq, beq_iff_eq]
  have : a.1 ≠ b.1 ∨ a.2 ≠ b.2 := by
    by_cases h1 : a.1 = b.1
    · right; intro h2; exact h (Prod.ext h1 h2)
    · left; exact h1
  omega

/-! ### distinct constituents have distinct (level, leftmost) -/

theorem subtrees_node' (f : Fields) (ks : List Tree) : subtrees (node f ks) = node f ks :: ks.flatMap subtrees := by
  simp [subtrees, subtreesL_eq]

theorem consKeys_node (f : Fields) (ks : List Tree) :
    consKeys (node f ks) = (if ks.isEmpty then [] else [keyOf (node f ks)]) ++ ks.flatMap consKeys := by
  unfold consKeys
  rw [subtrees_node', List.filter_cons]
  cases ks with
  | nil => simp [isC, kids]
  | cons k ks =>
    simp only [isC, kids, List.isEmpty_cons, Bool.not_false, if_true, List.map_cons, List.filter_flatMap, List.map_flatMap,
      Bool.false_eq_true, if_false, List.singleton_append]

theorem consKeys_leaf (n : Nat) (f : Fields) : consKeys (leaf n f) = [] := by
  simp [consKeys, subtrees, isC, kids]

theorem height_lt_of_mem_kids (f : Fields) (ks : List Tree) (k : Tree) (hk : k ∈ ks) : height k < height (node f ks) := by
  have := height_le_heightL ks k hk
  simp only [height]; omega

/-- every constituent key of `x` has a level at most that of `x` and a leftmost token among the tokens of `x` -/
theorem consKeys_bound (x : Tree) (hne : x.noEmpty = true) : ∀ k ∈ consKeys x, k.1 ≤ height x ∧ k.2 ∈ x.leafNums := by
  induction x using tree_ind with
  | hl n f => simp [consKeys_leaf]
  | hn f ks ih =>
    intro k hk
    rw [consKeys_node] at hk
    rcases List.mem_append.1 hk with hk | hk
    · split at hk
      · simp at hk
      · simp only [List.mem_singleton] at hk
        subst hk
        exact ⟨Nat.le_refl _, leftmost_mem _ (noEmpty_leafNums_ne_nil _ hne)⟩
    · obtain ⟨c, hc, hkc⟩ := List.mem_flatMap.1 hk
      obtain ⟨h1, h2⟩ := ih c hc (noEmpty_of_mem_kids f ks c hne hc) k hkc
      have := height_lt_of_mem_kids f ks c hc
      exact ⟨by omega, (leafNums_sublist_of_mem f ks c hc).subset h2⟩

theorem consKeys_nodup (x : Tree) (hne : x.noEmpty = true) (hnd : x.leafNums.Nodup) : (consKeys x).Nodup := by
  induction x using tree_ind with
  | hl n f => simp [consKeys_leaf]
  | hn f ks ih =>
    rw [consKeys_node]
    have hks := (noEmpty_node f ks).1 hne
    have hflat : (ks.flatMap consKeys).Nodup := by
      rw [leafNums_node] at hnd
      rw [List.Nodup, List.pairwise_flatMap]
      rw [List.Nodup, List.pairwise_flatMap] at hnd
      refine ⟨fun c hc => ih c hc (hks.2 c hc) (hnd.1 c hc), ?_⟩
      refine hnd.2.imp_of_mem ?_
      intro a b ha hb hab k hk k' hk' hkk
      have h1 := (consKeys_bound a (hks.2 a ha) k hk).2
      have h2 := (consKeys_bound b (hks.2 b hb) k' hk').2
      rw [hkk] at h1
      exact hab _ h1 _ h2 rfl
    split
    · simpa using hflat
    · rw [List.singleton_append, List.nodup_cons]
      refine ⟨?_, hflat⟩
      intro hmem
      obtain ⟨c, hc, hkc⟩ := List.mem_flatMap.1 hmem
      have h1 := (consKeys_bound c (hks.2 c hc) _ hkc).1
      have := height_lt_of_mem_kids f ks c hc
      simp only [keyOf] at h1
      omega

/-! ### the index in a strictly sorted list is the rank -/

theorem countP_lt_of_pairwise {α : Type} (key : α → Nat × Nat) : ∀ (L : List α) (i : Nat) (e : α),
    L.Pairwise (fun a b => klt (key a) (key b) = true) → L[i]? = some e →
    (L.map key).countP (fun a => klt a (key e)) = i
  | [], i, e, _, h => by simp at h
  | a :: L, 0, e, hp, h => by
    simp only [List.getElem?_cons_zero, Option.some.injEq] at h
    subst h
    rw [List.pairwise_cons] at hp
    rw [List.map_cons, List.countP_cons, klt_irrefl]
    simp only [Bool.false_eq_true, if_false, Nat.add_zero, List.countP_eq_zero, List.mem_map, Bool.not_eq_true]
    rintro _ ⟨b, hb, rfl⟩
    exact klt_asymm _ _ (hp.1 b hb)
  | a :: L, i + 1, e, hp, h => by
    simp only [List.getElem?_cons_succ] at h
    rw [List.pairwise_cons] at hp
    rw [List.map_cons, List.countP_cons, countP_lt_of_pairwise key L i e hp.2 h, hp.1 e (List.mem_of_getElem? h)]
    simp

/-! ### the writer's numbers are the path-free numbers -/

theorem consKeys_eq_paths (x : Tree) : consKeys x = ((paths x).filter (isCons x)).map (fun p => keyOf (subAt x p)) := by
  unfold consKeys
  rw [← paths_map_subAt, List.filter_map, List.map_map]
  congr 1
  apply List.filter_congr
  intro p hp
  simp [isC, isCons_eq x p hp]

theorem entry_key (x : Tree) (e : Path × Nat × Nat) (he : e ∈ sortedCons x) : e.2 = keyOf (subAt x e.1) := by
  obtain ⟨s, hs, _, h1, h2⟩ := sortedCons_entry x e he
  rw [subAt_of_get? hs]
  exact Prod.ext h1 h2

theorem sortedCons_keys_perm (x : Tree) : ((sortedCons x).map (·.2)).Perm (consKeys x) := by
  rw [consKeys_eq_paths]
  have h1 : (sortedCons x).map (·.2) = ((sortedCons x).map (·.1)).map (fun p => keyOf (subAt x p)) := by
    rw [List.map_map]
    exact List.map_congr_left (fun e he => entry_key x e he)
  rw [h1]
  exact (sortedCons_map_fst_perm x).map _

theorem sortedCons_strict (x : Tree) (hne : x.noEmpty = true) (hnd : x.leafNums.Nodup) :
    (sortedCons x).Pairwise (fun a b => klt a.2 b.2 = true) := by
  have h1 := sortedCons_pairwise x
  have h2 : ((sortedCons x).map (·.2)).Nodup := (sortedCons_keys_perm x).symm.nodup (consKeys_nodup x hne hnd)
  rw [List.Nodup, List.pairwise_map] at h2
  refine (h1.and h2).imp ?_
  intro a b ⟨hle, hneq⟩
  have : a.2.1 ≠ b.2.1 ∨ a.2.2 ≠ b.2.2 := by
    by_cases h : a.2.1 = b.2.1
    · right; intro h'; exact hneq (Prod.ext h h')
    · left; exact h
  simp only [klt, Bool.or_eq_true, Bool.and_eq_true, decide_eq_true_eq, beq_iff_eq]
  omega

theorem numOf_eq_nu (x : Tree) (hwf : WF x = true) (p : Path) (hp : p ∈ paths x) (hp0 : p ≠ []) :
    numOf x p = nu (consKeys x) (subAt x p) := by
  have hne := WF_noEmpty x hwf
  cases hs : subAt x p with
  | leaf n f => rw [numOf_leaf x p n f hp hs]; rfl
  | node f ks =>
    have hc : isCons x p = true := by
      rw [isCons_eq x p hp, hs]
      have := noEmpty_subAt x p hne hp
      rw [hs] at this
      have := ((noEmpty_node f ks).1 this).1
      cases ks with
      | nil => exact absurd rfl this
      | cons k ks => rfl
    obtain ⟨e, i, hi, heq⟩ := (mem_exportNumbering x _).1 (numOf_mem x p hc)
    have he1 : e.1 = p := (congrArg Prod.fst heq).symm
    have hnum : numOf x p = 500 + i := by
      have := congrArg Prod.snd heq
      simp only [he1, hp0, if_false] at this
      exact this
    have hcount := countP_lt_of_pairwise (fun (a : Path × Nat × Nat) => a.2) (sortedCons x) i e
      (sortedCons_strict x hne (WF_nodup x hwf)) hi
    have hkey := entry_key x e (List.mem_of_getElem? hi)
    rw [he1, hs] at hkey
    rw [hnum]
    simp only [nu, rank]
    rw [← (sortedCons_keys_perm x).countP_eq, ← hkey, hcount]

/-! ### every written node with the number of its parent, by structural recursion -/

mutual
/-- the nodes of `s` (`s` first), each with the number of its parent; `pn` is the number of the parent of `s` -/
def pairs (ν : Tree → Nat) (pn : Nat) : Tree → List (Tree × Nat)
  | leaf n f => [(leaf n f, pn)]
  | node f ks => (node f ks, pn) :: pairsL ν (ν (node f ks)) ks
def pairsL (ν : Tree → Nat) (pn : Nat) : List Tree → List (Tree × Nat)
  | [] => []
  | k :: ks => pairs ν pn k ++ pairsL ν pn ks
end

theorem pairsL_eq (ν : Tree → Nat) (pn : Nat) : ∀ ks : List Tree, pairsL ν pn ks = ks.flatMap (pairs ν pn)
  | [] => rfl
  | k :: ks => by simp [pairsL, pairsL_eq ν pn ks]

/-- the nodes that get a line (all but the root), with the numbers of their parents (the root has number 0) -/
def rootPairs (x : Tree) : List (Tree × Nat) := pairsL (nu (consKeys x)) 0 x.kids

mutual
theorem pairs_paths (x : Tree) (hwf : WF x = true) : (s : Tree) → (p0 : Path) → p0 ∈ paths x → subAt x p0 = s → p0 ≠ [] →
    (paths s).map (fun q => (subAt x (p0 ++ q), numOf x (p0 ++ q).dropLast)) = pairs (nu (consKeys x)) (numOf x p0.dropLast) s
  | .leaf n f, p0, _, hs, _ => by simp [paths, pairs, hs]
  | .node f ks, p0, hp, hs, h0 => by
    simp only [paths, List.map_cons, pairs, List.append_nil, hs]
    rw [pairsL_paths x hwf ks 0 p0 f ks hp hs (fun j k h => by simpa using h), numOf_eq_nu x hwf p0 hp h0, hs]
theorem pairsL_paths (x : Tree) (hwf : WF x = true) : (ks : List Tree) → (i : Nat) → (p0 : Path) → (f0 : Fields) → (ks0 : List Tree) →
    p0 ∈ paths x → subAt x p0 = node f0 ks0 → (∀ j k, ks[j]? = some k → ks0[i + j]? = some k) →
    (pathsL ks i).map (fun q => (subAt x (p0 ++ q), numOf x (p0 ++ q).dropLast)) = pairsL (nu (consKeys x)) (numOf x p0) ks
  | [], _, _, _, _, _, _, _ => rfl
  | k :: ks, i, p0, f0, ks0, hp, hs, h => by
    simp only [pathsL, List.map_append, List.map_map, pairsL]
    have hk : ks0[i]? = some k := by simpa using h 0 k rfl
    obtain ⟨hp', hs'⟩ := child_mem_paths x p0 f0 ks0 i k hp hs hk
    have h1 := pairs_paths x hwf k (p0 ++ [i]) hp' hs' (by simp)
    rw [List.dropLast_concat] at h1
    have h2 := pairsL_paths x hwf ks (i + 1) p0 f0 ks0 hp hs (fun j k' hj => by
      have := h (j + 1) k' (by simpa using hj)
      rwa [show i + (j + 1) = i + 1 + j by omega] at this)
    rw [← h1, ← h2]
    congr 1
    apply List.map_congr_left
    intro q _
    simp [List.append_assoc]
end

/-- the nodes the writer visits are, up to the order, those of `rootPairs` -/
theorem nonRoot_pairs_perm (x : Tree) (hwf : WF x = true) :
    ((nonRoot x).map (fun p => (subAt x p, numOf x p.dropLast))).Perm (rootPairs x) := by
  refine ((nonRoot_perm x).map _).trans ?_
  obtain ⟨hc, _⟩ := WF_root x hwf
  cases x with
  | leaf n f => simp [isCons, get?] at hc
  | node f ks =>
    have h := pairsL_paths (node f ks) hwf ks 0 [] f ks (nil_mem_paths _) (subAt_nil _) (fun j k h => by simpa using h)
    rw [numOf_root _ hc] at h
    simp only [List.nil_append] at h
    have hf : (paths (node f ks)).filter (· ≠ []) = pathsL ks 0 := by
      simp only [paths, List.filter_cons]
      simp only [ne_eq, not_true_eq_false, decide_false, Bool.false_eq_true, if_false]
      apply List.filter_eq_self.2
      intro q hq
      have : ∀ (ts : List Tree) (i : Nat), ∀ q ∈ pathsL ts i, q ≠ [] := by
        intro ts
        induction ts with
        | nil => intro i q hq; simp [pathsL] at hq
        | cons t ts ih =>
          intro i q hq
          simp only [pathsL, List.mem_append, List.mem_map] at hq
          rcases hq with ⟨_, _, rfl⟩ | hq
          · simp
          · exact ih _ q hq
      simpa using this ks 0 q hq
    rw [hf, h]
    exact List.Perm.refl _

/-! ### the writer from the list of nodes -/

/-- the line of a token, keyed by its number -/
def rowT (o : OutOpts) (ν : Tree → Nat) (sp : Tree × Nat) : Except Err (Nat × Str) :=
  exportLine o sp.1 (sp.1.fields.word.getD []) sp.2 >>= fun l => pure (ν sp.1, l)
/-- the line of a constituent, keyed by its number -/
def rowN (o : OutOpts) (ν : Tree → Nat) (sp : Tree × Nat) : Except Err (Nat × Str) :=
  exportLine o sp.1 ('#' :: natToStr (ν sp.1)) sp.2 >>= fun l => pure (ν sp.1, l)
def sortedRows {α : Type} (F : α → Except Err (Nat × Str)) (L : List α) : Except Err (List Str) :=
  L.mapM F >>= fun r => pure ((sortBy (·.1) r).map (·.2))
/-- the sentence from the list of (node, number of the parent) -/
def assemble (o : OutOpts) (sid : Nat) (ν : Tree → Nat) (P : List (Tree × Nat)) : Except Err (List Str) :=
  sortedRows (rowT o ν) (P.filter fun sp => sp.1.kids.isEmpty) >>= fun T =>
  sortedRows (rowN o ν) (P.filter fun sp => !sp.1.kids.isEmpty) >>= fun N =>
  pure (["#BOS ".toList ++ natToStr sid] ++ T ++ N ++ ["#EOS ".toList ++ natToStr sid])

theorem mapM_congr_mem {α β : Type} (f g : α → Except Err β) : ∀ L : List α, (∀ a ∈ L, f a = g a) → L.mapM f = L.mapM g
  | [], _ => rfl
  | a :: L, h => by
    rw [List.mapM_cons, List.mapM_cons, h a List.mem_cons_self,
      mapM_congr_mem f g L (fun b hb => h b (List.mem_cons_of_mem _ hb))]

theorem writeExport_eq_assemble_paths (o : OutOpts) (sid : Nat) (x : Tree) (hwf : WF x = true) :
    writeExport o sid x = assemble o sid (nu (consKeys x)) ((nonRoot x).map fun p => (subAt x p, numOf x p.dropLast)) := by
  rw [writeExport_unfold, nodesOf_eq]
  unfold assemble sortedRows
  rw [List.filter_map, List.filter_map, List.filter_map, List.filter_map, List.mapM_map, List.mapM_map, List.mapM_map, List.mapM_map]
  simp only [Function.comp_def]
  have hT : ((nonRoot x).filter fun p => (subAt x p).kids.isEmpty).mapM (fun p => termF o x (p, subAt x p)) =
      ((nonRoot x).filter fun p => (subAt x p).kids.isEmpty).mapM (fun p => rowT o (nu (consKeys x)) (subAt x p, numOf x p.dropLast)) := by
    apply mapM_congr_mem
    intro p hp
    obtain ⟨hp1, hp2⟩ := (mem_nonRoot x p).1 (List.mem_filter.1 hp).1
    simp only [termF, rowT, numOf_eq_nu x hwf p hp1 hp2]
  have hN : ((nonRoot x).filter fun p => !(subAt x p).kids.isEmpty).mapM (fun p => ntF o x (p, subAt x p)) =
      ((nonRoot x).filter fun p => !(subAt x p).kids.isEmpty).mapM (fun p => rowN o (nu (consKeys x)) (subAt x p, numOf x p.dropLast)) := by
    apply mapM_congr_mem
    intro p hp
    obtain ⟨hp1, hp2⟩ := (mem_nonRoot x p).1 (List.mem_filter.1 hp).1
    simp only [ntF, rowN, numOf_eq_nu x hwf p hp1 hp2]
  rw [hT, hN]
  cases ((nonRoot x).filter fun p => (subAt x p).kids.isEmpty).mapM (fun p => rowT o (nu (consKeys x)) (subAt x p, numOf x p.dropLast)) with
  | error e => rfl
  | ok T =>
    cases ((nonRoot x).filter fun p => !(subAt x p).kids.isEmpty).mapM (fun p => rowN o (nu (consKeys x)) (subAt x p, numOf x p.dropLast)) with
    | error e => rfl
    | ok N => rfl

theorem mapM_all_ok {α β : Type} (F : α → Except Err β) : ∀ L : List α, (∀ a ∈ L, ∃ b, F a = .ok b) →
    L.mapM F = .ok (L.filterMap fun a => (F a).toOption)
  | [], _ => rfl
  | a :: L, h => by
    obtain ⟨b, hb⟩ := h a List.mem_cons_self
    rw [List.mapM_cons, hb, mapM_all_ok F L (fun c hc => h c (List.mem_cons_of_mem _ hc)), List.filterMap_cons, hb]
    rfl

theorem mapM_some_err {α β : Type} (F : α → Except Err β) (E : Err) (herr : ∀ a e, F a = .error e → e = E) :
    ∀ L : List α, (∃ a ∈ L, ∃ e, F a = .error e) → L.mapM F = .error E
  | [], h => by obtain ⟨a, ha, _⟩ := h; simp at ha
  | a :: L, h => by
    rw [List.mapM_cons]
    cases hF : F a with
    | error e => rw [herr a e hF]; rfl
    | ok b =>
      have : ∃ c ∈ L, ∃ e, F c = .error e := by
        obtain ⟨c, hc, e, he⟩ := h
        rcases List.mem_cons.1 hc with rfl | hc
        · rw [hF] at he; cases he
        · exact ⟨c, hc, e, he⟩
      rw [mapM_some_err F E herr L this]
      rfl

theorem filterMap_keys {α : Type} (F : α → Except Err (Nat × Str)) (key : α → Nat) (hkey : ∀ a b, F a = .ok b → b.1 = key a) :
    ∀ L : List α, (∀ a ∈ L, ∃ b, F a = .ok b) → (L.filterMap fun a => (F a).toOption).map (·.1) = L.map key
  | [], _ => rfl
  | a :: L, h => by
    obtain ⟨b, hb⟩ := h a List.mem_cons_self
    have ih := filterMap_keys F key hkey L (fun c hc => h c (List.mem_cons_of_mem _ hc))
    have h1 : (F a).toOption = some b := by rw [hb]; rfl
    rw [List.filterMap_cons, h1, List.map_cons, List.map_cons, ih, hkey a b hb]

/-- with distinct keys the sorted rows do not depend on the order in which the nodes are visited -/
theorem sortedRows_perm {α : Type} (F : α → Except Err (Nat × Str)) (key : α → Nat) (hkey : ∀ a b, F a = .ok b → b.1 = key a)
    (E : Err) (herr : ∀ a e, F a = .error e → e = E) (L L' : List α) (hp : L.Perm L') (hnd : (L.map key).Nodup) :
    sortedRows F L = sortedRows F L' := by
  unfold sortedRows
  by_cases hall : ∀ a ∈ L, ∃ b, F a = .ok b
  · have hall' : ∀ a ∈ L', ∃ b, F a = .ok b := fun a ha => hall a (hp.mem_iff.2 ha)
    rw [mapM_all_ok F L hall, mapM_all_ok F L' hall']
    have := sortBy_perm_eq (fun (r : Nat × Str) => r.1) _ _ (hp.filterMap fun a => (F a).toOption)
      (by rw [filterMap_keys F key hkey L hall]; exact hnd)
    show Except.ok _ = Except.ok _
    rw [this]
  · have h1 : ∃ a ∈ L, ∃ e, F a = .error e := by
      apply Classical.byContradiction
      intro hno
      apply hall
      intro a ha
      cases hF : F a with
      | ok b => exact ⟨b, rfl⟩
      | error e => exact absurd ⟨a, ha, e, hF⟩ hno
    have h2 : ∃ a ∈ L', ∃ e, F a = .error e := by
      obtain ⟨a, ha, h⟩ := h1
      exact ⟨a, hp.mem_iff.1 ha, h⟩
    rw [mapM_some_err F E herr L h1, mapM_some_err F E herr L' h2]

theorem getLabel_err (o : OutOpts) (t : Tree) (e : Err) (h : getLabel o t = .error e) : e = .keyError := by
  unfold getLabel at h
  simp only [bind, Except.bind, pure, Except.pure, throw, throwThe, MonadExceptOf.throw] at h
  repeat' split at h
  all_goals first | cases h | skip
  all_goals
    rename_i heq
    repeat' split at heq
    all_goals first | cases heq | skip
    all_goals first | rfl | skip

theorem exportLine_err (o : OutOpts) (s : Tree) (w : Str) (pn : Nat) (e : Err) (h : exportLine o s w pn = .error e) : e = .keyError := by
  unfold exportLine at h
  dsimp only at h
  cases hg : getLabel o (s.setFields fun g => { g with edge := some (s.fields.edge.getD DEFAULT_EDGE) }) with
  | error e' =>
    rw [hg] at h
    cases h
    exact getLabel_err _ _ _ hg
  | ok l =>
    rw [hg] at h
    simp only [bind, Except.bind, pure, Except.pure] at h
    split at h <;> cases h

theorem rowT_err (o : OutOpts) (ν : Tree → Nat) (sp : Tree × Nat) (e : Err) (h : rowT o ν sp = .error e) : e = .keyError := by
  unfold rowT at h
  cases hl : exportLine o sp.1 (sp.1.fields.word.getD []) sp.2 with
  | error e' => rw [hl] at h; cases h; exact exportLine_err _ _ _ _ _ hl
  | ok l => rw [hl] at h; cases h
theorem rowN_err (o : OutOpts) (ν : Tree → Nat) (sp : Tree × Nat) (e : Err) (h : rowN o ν sp = .error e) : e = .keyError := by
  unfold rowN at h
  cases hl : exportLine o sp.1 ('#' :: natToStr (ν sp.1)) sp.2 with
  | error e' => rw [hl] at h; cases h; exact exportLine_err _ _ _ _ _ hl
  | ok l => rw [hl] at h; cases h
theorem rowT_key (o : OutOpts) (ν : Tree → Nat) (sp : Tree × Nat) (b : Nat × Str) (h : rowT o ν sp = .ok b) : b.1 = ν sp.1 := by
  unfold rowT at h
  cases hl : exportLine o sp.1 (sp.1.fields.word.getD []) sp.2 with
  | error e' => rw [hl] at h; cases h
  | ok l => rw [hl] at h; cases h; rfl
theorem rowN_key (o : OutOpts) (ν : Tree → Nat) (sp : Tree × Nat) (b : Nat × Str) (h : rowN o ν sp = .ok b) : b.1 = ν sp.1 := by
  unfold rowN at h
  cases hl : exportLine o sp.1 ('#' :: natToStr (ν sp.1)) sp.2 with
  | error e' => rw [hl] at h; cases h
  | ok l => rw [hl] at h; cases h; rfl

/-- `assemble` does not depend on the order of the nodes when tokens and constituents have distinct numbers -/
theorem assemble_perm (o : OutOpts) (sid : Nat) (ν : Tree → Nat) (P P' : List (Tree × Nat)) (hp : P.Perm P')
    (hT : ((P.filter fun sp => sp.1.kids.isEmpty).map fun sp => ν sp.1).Nodup)
    (hN : ((P.filter fun sp => !sp.1.kids.isEmpty).map fun sp => ν sp.1).Nodup) :
    assemble o sid ν P = assemble o sid ν P' := by
  unfold assemble
  rw [sortedRows_perm (rowT o ν) (fun sp => ν sp.1) (rowT_key o ν) .keyError (rowT_err o ν) _ _ (hp.filter _) hT,
    sortedRows_perm (rowN o ν) (fun sp => ν sp.1) (rowN_key o ν) .keyError (rowN_err o ν) _ _ (hp.filter _) hN]

/-- the numbers of the written nodes are pairwise distinct among the tokens and among the constituents -/
theorem rootPairs_nodup (x : Tree) (hwf : WF x = true) :
    (((rootPairs x).filter fun sp => sp.1.kids.isEmpty).map fun sp => nu (consKeys x) sp.1).Nodup ∧
    (((rootPairs x).filter fun sp => !sp.1.kids.isEmpty).map fun sp => nu (consKeys x) sp.1).Nodup := by
  have hperm := nonRoot_pairs_perm x hwf
  have key : ∀ (q : Tree → Bool) (L : List Path), L.Perm ((nonRoot x).filter fun p => q (subAt x p)) → (L.map (numOf x)).Nodup →
      (((rootPairs x).filter fun sp => q sp.1).map fun sp => nu (consKeys x) sp.1).Nodup := by
    intro q L hL hnd
    refine ((hperm.filter fun sp => q sp.1).map fun sp => nu (consKeys x) sp.1).nodup_iff.1 ?_
    rw [List.filter_map, List.map_map]
    have : ((nonRoot x).filter ((fun sp : Tree × Nat => q sp.1) ∘ fun p => (subAt x p, numOf x p.dropLast))).map
        ((fun sp : Tree × Nat => nu (consKeys x) sp.1) ∘ fun p => (subAt x p, numOf x p.dropLast)) =
        ((nonRoot x).filter fun p => q (subAt x p)).map (numOf x) := by
      apply List.map_congr_left
      intro p hp
      obtain ⟨hp1, hp2⟩ := (mem_nonRoot x p).1 (List.mem_filter.1 hp).1
      exact (numOf_eq_nu x hwf p hp1 hp2).symm
    rw [this]
    exact (hL.map (numOf x)).nodup_iff.1 hnd
  constructor
  · refine key (fun s => s.kids.isEmpty) (tokPaths x) (sortBy_perm _ _) ?_
    rw [tokPaths_nums x hwf]; exact List.nodup_range'
  · refine key (fun s => !s.kids.isEmpty) (consPaths x) (sortBy_perm _ _) ?_
    rw [consPaths_nums x hwf]; exact List.nodup_range'

/-- MAIN LINK: on a well-formed tree the export writer is the path-free `assemble` on `rootPairs` -/
theorem writeExport_eq_assemble (o : OutOpts) (sid : Nat) (x : Tree) (hwf : WF x = true) :
    writeExport o sid x = assemble o sid (nu (consKeys x)) (rootPairs x) := by
  rw [writeExport_eq_assemble_paths o sid x hwf]
  obtain ⟨h1, h2⟩ := rootPairs_nodup x hwf
  exact (assemble_perm o sid _ _ _ (nonRoot_pairs_perm x hwf).symm h1 h2).symm

/-! ### maps that keep what the export writer looks at -/

/-- a map on trees that keeps tokens tokens (same number), constituents constituents, and maps the children (in any order) -/
structure GoodMap (g : Tree → Tree) : Prop where
  leaf : ∀ n f, ∃ f', g (leaf n f) = leaf n f'
  node : ∀ f ks, ∃ f' ks', g (node f ks) = node f' ks' ∧ ks'.Perm (ks.map g)

theorem heightL_perm {a b : List Tree} (h : a.Perm b) : heightL a = heightL b := by
  induction h with
  | nil => rfl
  | cons x _ ih => simp only [heightL, ih]
  | swap x y l => simp only [heightL]; omega
  | trans _ _ ih1 ih2 => rw [ih1, ih2]

theorem heightL_map (g : Tree → Tree) : ∀ ks : List Tree, (∀ k ∈ ks, height (g k) = height k) → heightL (ks.map g) = heightL ks
  | [], _ => rfl
  | k :: ks, h => by
    simp only [List.map_cons, heightL, h k List.mem_cons_self, heightL_map g ks (fun c hc => h c (List.mem_cons_of_mem _ hc))]

theorem noEmptyL_perm {a b : List Tree} (h : a.Perm b) : noEmptyL a = noEmptyL b := by
  induction h with
  | nil => rfl
  | cons x _ ih => simp only [noEmptyL, ih]
  | swap x y l => simp only [noEmptyL]; cases x.noEmpty <;> cases y.noEmpty <;> rfl
  | trans _ _ ih1 ih2 => rw [ih1, ih2]

theorem noEmptyL_map (g : Tree → Tree) : ∀ ks : List Tree, (∀ k ∈ ks, noEmpty (g k) = noEmpty k) → noEmptyL (ks.map g) = noEmptyL ks
  | [], _ => rfl
  | k :: ks, h => by
    simp only [List.map_cons, noEmptyL, h k List.mem_cons_self, noEmptyL_map g ks (fun c hc => h c (List.mem_cons_of_mem _ hc))]

namespace GoodMap
variable {g : Tree → Tree} (hg : GoodMap g)
include hg

theorem leafNums_perm (s : Tree) : (g s).leafNums.Perm s.leafNums := by
  induction s using tree_ind with
  | hl n f => obtain ⟨f', h⟩ := hg.leaf n f; rw [h, leafNums_leaf, leafNums_leaf]
  | hn f ks ih =>
    obtain ⟨f', ks', h, hp⟩ := hg.node f ks
    rw [h, leafNums_node, leafNums_node]
    refine (hp.flatMap_right leafNums).trans ?_
    rw [List.flatMap_map]
    exact perm_flatMap_of_forall _ _ ks ih

theorem leftmost_eq (s : Tree) : leftmost (g s) = leftmost s := TT.Lemmas.Write.leftmost_of_perm _ _ (hg.leafNums_perm s)

theorem height_eq (s : Tree) : height (g s) = height s := by
  induction s using tree_ind with
  | hl n f => obtain ⟨f', h⟩ := hg.leaf n f; rw [h]; rfl
  | hn f ks ih =>
    obtain ⟨f', ks', h, hp⟩ := hg.node f ks
    rw [h]
    simp only [height, heightL_perm hp, heightL_map g ks ih]

theorem kidsEmpty_eq (s : Tree) : (g s).kids.isEmpty = s.kids.isEmpty := by
  cases s with
  | leaf n f => obtain ⟨f', h⟩ := hg.leaf n f; rw [h]; rfl
  | node f ks =>
    obtain ⟨f', ks', h, hp⟩ := hg.node f ks
    rw [h]
    have := hp.length_eq
    simp only [kids, List.length_map] at this ⊢
    cases ks <;> cases ks' <;> simp_all

theorem isLeaf_eq (s : Tree) : (g s).isLeaf = s.isLeaf := by
  cases s with
  | leaf n f => obtain ⟨f', h⟩ := hg.leaf n f; rw [h]; rfl
  | node f ks => obtain ⟨f', ks', h, _⟩ := hg.node f ks; rw [h]; rfl

theorem keyOf_eq (s : Tree) : keyOf (g s) = keyOf s := by
  simp only [keyOf, hg.height_eq, hg.leftmost_eq]

theorem nu_eq (K : List (Nat × Nat)) (s : Tree) : nu K (g s) = nu K s := by
  cases s with
  | leaf n f => obtain ⟨f', h⟩ := hg.leaf n f; rw [h]; rfl
  | node f ks =>
    obtain ⟨f', ks', h, _⟩ := hg.node f ks
    have := hg.keyOf_eq (Tree.node f ks)
    rw [h] at this ⊢
    simp only [nu, this]

theorem noEmpty_eq (s : Tree) : noEmpty (g s) = noEmpty s := by
  induction s using tree_ind with
  | hl n f => obtain ⟨f', h⟩ := hg.leaf n f; rw [h]; rfl
  | hn f ks ih =>
    obtain ⟨f', ks', h, hp⟩ := hg.node f ks
    have he := hg.kidsEmpty_eq (Tree.node f ks)
    rw [h] at he ⊢
    simp only [kids] at he
    simp only [noEmpty, he, noEmptyL_perm hp, noEmptyL_map g ks ih]

theorem consKeys_perm (s : Tree) : (consKeys (g s)).Perm (consKeys s) := by
  induction s using tree_ind with
  | hl n f => obtain ⟨f', h⟩ := hg.leaf n f; rw [h, consKeys_leaf, consKeys_leaf]
  | hn f ks ih =>
    obtain ⟨f', ks', h, hp⟩ := hg.node f ks
    have he := hg.kidsEmpty_eq (Tree.node f ks)
    have hk := hg.keyOf_eq (Tree.node f ks)
    rw [h] at he hk ⊢
    simp only [kids] at he
    rw [consKeys_node, consKeys_node, he, hk]
    refine List.Perm.append_left _ ?_
    refine (hp.flatMap_right consKeys).trans ?_
    rw [List.flatMap_map]
    exact perm_flatMap_of_forall _ _ ks ih

theorem pairs_perm (ν : Tree → Nat) (hν : ∀ s, ν (g s) = ν s) (s : Tree) : ∀ pn : Nat,
    (pairs ν pn (g s)).Perm ((pairs ν pn s).map fun sp => (g sp.1, sp.2)) := by
  induction s using tree_ind with
  | hl n f =>
    intro pn
    obtain ⟨f', h⟩ := hg.leaf n f
    rw [h]; simp only [pairs, List.map_cons, List.map_nil, h]
    exact List.Perm.refl _
  | hn f ks ih =>
    intro pn
    obtain ⟨f', ks', h, hp⟩ := hg.node f ks
    have hnu := hν (Tree.node f ks)
    rw [h] at hnu ⊢
    simp only [pairs, List.map_cons, h, hnu]
    refine List.Perm.cons _ ?_
    rw [pairsL_eq, pairsL_eq, List.map_flatMap]
    refine (hp.flatMap_right _).trans ?_
    rw [List.flatMap_map]
    exact perm_flatMap_of_forall _ _ ks (fun k hk => ih k hk _)

end GoodMap

theorem pairs_mem_subtrees (ν : Tree → Nat) (s : Tree) : ∀ (pn : Nat) (sp : Tree × Nat), sp ∈ pairs ν pn s → sp.1 ∈ subtrees s := by
  induction s using tree_ind with
  | hl n f => intro pn sp h; simp only [pairs, List.mem_singleton] at h; subst h; simp [subtrees]
  | hn f ks ih =>
    intro pn sp h
    simp only [pairs, List.mem_cons, pairsL_eq, List.mem_flatMap] at h
    rw [mem_subtrees_node]
    rcases h with rfl | ⟨k, hk, h⟩
    · exact Or.inl rfl
    · exact Or.inr ⟨k, hk, ih k hk _ _ h⟩

theorem nu_congr {K K' : List (Nat × Nat)} (h : K.Perm K') : nu K = nu K' := by
  funext s
  cases s with
  | leaf n f => rfl
  | node f ks => simp only [nu, rank, h.countP_eq]

theorem assemble_map (o : OutOpts) (sid : Nat) (ν : Tree → Nat) (G : Tree × Nat → Tree × Nat) (P : List (Tree × Nat))
    (h : ∀ sp ∈ P, (G sp).1.kids.isEmpty = sp.1.kids.isEmpty ∧ (sp.1.kids.isEmpty = true → rowT o ν (G sp) = rowT o ν sp) ∧
      rowN o ν (G sp) = rowN o ν sp) :
    assemble o sid ν (P.map G) = assemble o sid ν P := by
  unfold assemble sortedRows
  rw [List.filter_map, List.filter_map, List.mapM_map, List.mapM_map]
  have e1 : P.filter ((fun sp : Tree × Nat => sp.1.kids.isEmpty) ∘ G) = P.filter fun sp => sp.1.kids.isEmpty :=
    List.filter_congr (fun sp hsp => by simp only [Function.comp_apply, (h sp hsp).1])
  have e2 : P.filter ((fun sp : Tree × Nat => !sp.1.kids.isEmpty) ∘ G) = P.filter fun sp => !sp.1.kids.isEmpty :=
    List.filter_congr (fun sp hsp => by simp only [Function.comp_apply, (h sp hsp).1])
  rw [e1, e2, mapM_congr_mem (rowT o ν ∘ G) (rowT o ν) _ (fun sp hsp => (h sp (List.mem_filter.1 hsp).1).2.1 (List.mem_filter.1 hsp).2),
    mapM_congr_mem (rowN o ν ∘ G) (rowN o ν) _ (fun sp hsp => (h sp (List.mem_filter.1 hsp).1).2.2)]

/-- what a map must keep of a node for its line to stay the same -/
def LineEq (o : OutOpts) (s s' : Tree) : Prop :=
  (∀ w pn, exportLine o s' w pn = exportLine o s w pn) ∧ (s.kids.isEmpty = true → s'.fields.word.getD [] = s.fields.word.getD [])

/-- INVARIANCE: a good map applied to the children of the root of a well-formed tree (in any order, with any root fields),
    keeping the lines, does not change what the export writer writes -/
theorem writeExport_goodMap (o : OutOpts) (sid : Nat) (g : Tree → Tree) (hg : GoodMap g) (f f' : Fields) (ks ks' : List Tree)
    (hp : ks'.Perm (ks.map g)) (hwf : WF (node f ks) = true)
    (hline : ∀ k ∈ ks, ∀ s ∈ subtrees k, LineEq o s (g s)) :
    WF (node f' ks') = true ∧ writeExport o sid (node f' ks') = writeExport o sid (node f ks) := by
  have hleaf : (node f' ks').leafNums.Perm (node f ks).leafNums := by
    rw [leafNums_node, leafNums_node]
    refine (hp.flatMap_right leafNums).trans ?_
    rw [List.flatMap_map]
    exact perm_flatMap_of_forall _ _ ks (fun k _ => hg.leafNums_perm k)
  have hempty : ks'.isEmpty = ks.isEmpty := by
    have := hp.length_eq
    simp only [List.length_map] at this
    cases ks <;> cases ks' <;> simp_all
  have hne : (node f' ks').noEmpty = (node f ks).noEmpty := by
    simp only [noEmpty, hempty, noEmptyL_perm hp, noEmptyL_map g ks (fun k _ => hg.noEmpty_eq k)]
  have hwf' : WF (node f' ks') = true :=
    WF_of_perm _ _ hwf hleaf (by rw [hne]; exact WF_noEmpty _ hwf) rfl
  refine ⟨hwf', ?_⟩
  have hkey : keyOf (node f' ks') = keyOf (node f ks) := by
    simp only [keyOf, height, heightL_perm hp, heightL_map g ks (fun k _ => hg.height_eq k),
      TT.Lemmas.Write.leftmost_of_perm _ _ hleaf]
  have hK : (consKeys (node f' ks')).Perm (consKeys (node f ks)) := by
    rw [consKeys_node, consKeys_node, hempty, hkey]
    refine List.Perm.append_left _ ?_
    refine (hp.flatMap_right consKeys).trans ?_
    rw [List.flatMap_map]
    exact perm_flatMap_of_forall _ _ ks (fun k _ => hg.consKeys_perm k)
  rw [writeExport_eq_assemble o sid _ hwf', writeExport_eq_assemble o sid _ hwf, nu_congr hK]
  generalize hν : nu (consKeys (node f ks)) = ν
  have hνg : ∀ s, ν (g s) = ν s := fun s => by rw [← hν]; exact hg.nu_eq _ s
  have hP : (rootPairs (node f' ks')).Perm ((rootPairs (node f ks)).map fun sp => (g sp.1, sp.2)) := by
    unfold rootPairs
    rw [nu_congr hK, hν]
    simp only [kids]
    rw [pairsL_eq, pairsL_eq, List.map_flatMap]
    refine (hp.flatMap_right _).trans ?_
    rw [List.flatMap_map]
    exact perm_flatMap_of_forall _ _ ks (fun k _ => hg.pairs_perm ν hνg k 0)
  obtain ⟨hT, hN⟩ := rootPairs_nodup (node f ks) hwf
  rw [hν] at hT hN
  have hmap : assemble o sid ν ((rootPairs (node f ks)).map fun sp => (g sp.1, sp.2)) = assemble o sid ν (rootPairs (node f ks)) := by
    apply assemble_map
    intro sp hsp
    have hmem : ∃ k ∈ ks, sp.1 ∈ subtrees k := by
      unfold rootPairs at hsp
      simp only [kids, pairsL_eq, List.mem_flatMap] at hsp
      obtain ⟨k, hk, h⟩ := hsp
      exact ⟨k, hk, pairs_mem_subtrees _ k _ _ h⟩
    obtain ⟨k, hk, hs⟩ := hmem
    obtain ⟨hl1, hl2⟩ := hline k hk sp.1 hs
    have he := hg.kidsEmpty_eq sp.1
    refine ⟨he, ?_, ?_⟩
    · intro hk0
      simp only [rowT, hνg, hl1, hl2 hk0]
    · simp only [rowN, hνg, hl1]
  rw [← hmap]
  symm
  have e1 : (fun sp : Tree × Nat => ν sp.1) ∘ (fun sp : Tree × Nat => (g sp.1, sp.2)) = fun sp => ν sp.1 := by
    funext sp; simp only [Function.comp_apply, hνg]
  have e2 : (fun sp : Tree × Nat => sp.1.kids.isEmpty) ∘ (fun sp : Tree × Nat => (g sp.1, sp.2)) = fun sp => sp.1.kids.isEmpty := by
    funext sp; simp only [Function.comp_apply, hg.kidsEmpty_eq]
  have e3 : (fun sp : Tree × Nat => !sp.1.kids.isEmpty) ∘ (fun sp : Tree × Nat => (g sp.1, sp.2)) = fun sp => !sp.1.kids.isEmpty := by
    funext sp; simp only [Function.comp_apply, hg.kidsEmpty_eq]
  apply assemble_perm o sid ν _ _ hP.symm
  · rw [List.filter_map, List.map_map, e1, e2]; exact hT
  · rw [List.filter_map, List.map_map, e1, e3]; exact hN

/-! ### the three maps: `sortKids`, `stripW`, `carryExport` -/

/-- `exportLine` looks at the fields other than `word` (the word column is passed separately) and at whether the node has children -/
theorem exportLine_congr (o : OutOpts) (s s' : Tree) (w : Str) (pn : Nat)
    (hf : { s.fields with word := none } = { s'.fields with word := none }) (hk : s.kids.isEmpty = s'.kids.isEmpty) :
    exportLine o s w pn = exportLine o s' w pn := by
  have h1 : s.fields.label = s'.fields.label := by have := congrArg Fields.label hf; exact this
  have h2 : s.fields.lemma = s'.fields.lemma := by have := congrArg Fields.lemma hf; exact this
  have h3 : s.fields.morph = s'.fields.morph := by have := congrArg Fields.morph hf; exact this
  have h4 : s.fields.edge = s'.fields.edge := by have := congrArg Fields.edge hf; exact this
  have h5 : s.fields.head = s'.fields.head := by have := congrArg Fields.head hf; exact this
  have h6 : s.fields.split = s'.fields.split := by have := congrArg Fields.split hf; exact this
  have h7 : s.fields.blockNumber = s'.fields.blockNumber := by have := congrArg Fields.blockNumber hf; exact this
  have e1 : ∀ (t : Tree) (g : Fields → Fields), (t.setFields g).fields = g t.fields := by intro t g; cases t <;> rfl
  have e2 : ∀ (t : Tree) (g : Fields → Fields), (t.setFields g).kids = t.kids := by intro t g; cases t <;> rfl
  unfold exportLine getLabel
  simp only [e1, e2, h1, h2, h3, h4, h5, h6, h7, hk]

def PlainOpts (o : OutOpts) : Prop := o.gf = false ∧ o.markHeads = false ∧ o.splitMarking = false ∧ o.splitNumbering = false

theorem getLabel_plainOpts (o : OutOpts) (ho : PlainOpts o) (t : Tree) : getLabel o t = .ok t.fields.label := by
  obtain ⟨h1, h2, h3, h4⟩ := ho
  unfold getLabel
  simp [h1, h2, h3, h4]
  rfl

theorem goodMap_WF_inv {g : Tree → Tree} (hg : GoodMap g) (x : Tree) (h : WF (g x) = true) : WF x = true :=
  WF_of_perm (g x) x h (hg.leafNums_perm x).symm (by rw [← hg.noEmpty_eq]; exact WF_noEmpty _ h)
    (by rw [← hg.isLeaf_eq]; exact WF_isLeaf _ h)

theorem goodMap_sortKids : GoodMap sortKids where
  leaf n f := ⟨f, by simp [sortKids]⟩
  node f ks := ⟨f, _, sortKids_node f ks, sortBy_perm _ _⟩

theorem goodMap_stripW : GoodMap stripW where
  leaf n f := ⟨f, stripW_leaf n f⟩
  node f ks := ⟨_, _, stripW_node f ks, List.Perm.refl _⟩

theorem goodMap_carryExport (o : OutOpts) : GoodMap (carryExport o) where
  leaf n f := ⟨_, by rw [carryExport]⟩
  node f ks := ⟨_, _, by rw [carryExport, carryExportL_eq], List.Perm.refl _⟩

theorem lineEq_sortKids (o : OutOpts) (s : Tree) : LineEq o s (sortKids s) := by
  have hf : (sortKids s).fields = s.fields := by cases s <;> simp [sortKids, fields]
  refine ⟨fun w pn => exportLine_congr o _ _ w pn (by rw [hf]) (goodMap_sortKids.kidsEmpty_eq s), fun _ => by rw [hf]⟩

theorem lineEq_stripW (o : OutOpts) (s : Tree) (hne : s.noEmpty = true) : LineEq o s (stripW s) := by
  cases s with
  | leaf n f => rw [stripW_leaf]; exact ⟨fun _ _ => rfl, fun _ => rfl⟩
  | node f ks =>
    rw [stripW_node]
    refine ⟨fun w pn => exportLine_congr o _ _ w pn rfl (by cases ks <;> rfl), fun h => ?_⟩
    have := ((noEmpty_node f ks).1 hne).1
    cases ks with
    | nil => exact absurd rfl this
    | cons k ks => simp [kids] at h

/-- the sorted tree is written like the tree -/
theorem writeExport_sortKids (o : OutOpts) (sid : Nat) (x : Tree) (hwf : WF x = true) :
    WF (sortKids x) = true ∧ writeExport o sid (sortKids x) = writeExport o sid x := by
  cases x with
  | leaf n f => simp [WF, isLeaf] at hwf
  | node f ks =>
    rw [sortKids_node]
    exact writeExport_goodMap o sid sortKids goodMap_sortKids f f ks _ (sortBy_perm _ _) hwf
      (fun k _ s _ => lineEq_sortKids o s)

theorem noEmpty_of_mem_subtrees (x : Tree) (hne : x.noEmpty = true) : ∀ s ∈ subtrees x, s.noEmpty = true := by
  intro s hs
  rw [← paths_map_subAt] at hs
  obtain ⟨p, hp, rfl⟩ := List.mem_map.1 hs
  exact noEmpty_subAt x p hne hp

/-- the word slot of a constituent is not written -/
theorem writeExport_stripW (o : OutOpts) (sid : Nat) (x : Tree) (hwf : WF x = true) :
    WF (stripW x) = true ∧ writeExport o sid (stripW x) = writeExport o sid x := by
  cases x with
  | leaf n f => simp [WF, isLeaf] at hwf
  | node f ks =>
    rw [stripW_node]
    refine writeExport_goodMap o sid stripW goodMap_stripW f _ ks _ (List.Perm.refl _) hwf ?_
    intro k hk s hs
    exact lineEq_stripW o s (noEmpty_of_mem_subtrees k (noEmpty_of_mem_kids f ks k (WF_noEmpty _ hwf) hk) s hs)

/-- two well-formed... trees with the same normal form (children sorted, constituent words erased) are written alike -/
theorem writeExport_of_nf_eq (o : OutOpts) (sid : Nat) (x y : Tree) (hwf : WF x = true) (h : nf y = nf x) :
    WF y = true ∧ writeExport o sid y = writeExport o sid x := by
  obtain ⟨w1, e1⟩ := writeExport_stripW o sid x hwf
  obtain ⟨w2, e2⟩ := writeExport_sortKids o sid (stripW x) w1
  have w3 : WF (sortKids (stripW y)) = true := by
    have : sortKids (stripW y) = sortKids (stripW x) := h
    rw [this]; exact w2
  have w4 : WF (stripW y) = true := goodMap_WF_inv goodMap_sortKids _ w3
  have w5 : WF y = true := goodMap_WF_inv goodMap_stripW _ w4
  refine ⟨w5, ?_⟩
  rw [← (writeExport_stripW o sid y w5).2, ← (writeExport_sortKids o sid (stripW y) w4).2]
  have : sortKids (stripW y) = sortKids (stripW x) := h
  rw [this, e2, e1]

/-! ### options without label decoration -/

theorem fields_setFields (t : Tree) (g : Fields → Fields) : (t.setFields g).fields = g t.fields := by cases t <;> rfl

/-- without decoration options `exportLine` looks at label, morphology, edge and (export 4 only) lemma -/
theorem exportLine_congr_plain (o : OutOpts) (ho : PlainOpts o) (s s' : Tree) (w : Str) (pn : Nat)
    (h1 : s.fields.label = s'.fields.label) (h2 : s.fields.morph.getD DEFAULT_MORPH = s'.fields.morph.getD DEFAULT_MORPH)
    (h3 : s.fields.edge.getD DEFAULT_EDGE = s'.fields.edge.getD DEFAULT_EDGE)
    (h4 : o.exportFour = true → s.fields.lemma.getD DEFAULT_LEMMA = s'.fields.lemma.getD DEFAULT_LEMMA) :
    exportLine o s w pn = exportLine o s' w pn := by
  unfold exportLine
  dsimp only
  rw [getLabel_plainOpts o ho, getLabel_plainOpts o ho]
  simp only [fields_setFields, h1, h2, h3]
  cases hx : o.exportFour with
  | false => rfl
  | true => simp only [h4 hx]

/-- the options that matter to the export writer -/
theorem exportLine_plain_eq (o : OutOpts) (ho : PlainOpts o) (h4 : o.exportFour = false) (s : Tree) (w : Str) (pn : Nat) :
    exportLine o s w pn = exportLine {} s w pn := by
  unfold exportLine
  dsimp only
  rw [getLabel_plainOpts o ho, getLabel_plainOpts {} ⟨rfl, rfl, rfl, rfl⟩]
  simp only [h4]

theorem writeExport_plain_eq (o : OutOpts) (ho : PlainOpts o) (h4 : o.exportFour = false) (sid : Nat) (t : Tree) :
    writeExport o sid t = writeExport {} sid t := by
  rw [writeExport_unfold, writeExport_unfold]
  have e1 : termF o t = termF {} t := by funext x; simp only [termF, exportLine_plain_eq o ho h4]
  have e2 : ntF o t = ntF {} t := by funext x; simp only [ntF, exportLine_plain_eq o ho h4]
  rw [e1, e2]

theorem printedLabel_plain (o : OutOpts) (ho : PlainOpts o) (s : Tree) : printedLabel o s = s.fields.label := by
  unfold printedLabel
  rw [getLabel_plainOpts o ho, fields_setFields]

theorem lineEq_carryExport (o : OutOpts) (ho : PlainOpts o) (s : Tree) (hne : s.noEmpty = true) : LineEq o s (carryExport o s) := by
  cases s with
  | leaf n f =>
    rw [carryExport]
    refine ⟨fun w pn => exportLine_congr_plain o ho _ _ w pn ?_ rfl rfl ?_, fun _ => rfl⟩
    · exact printedLabel_plain o ho _
    · intro hx; simp only [fields, hx, if_true, Option.getD_some]
  | node f ks =>
    rw [carryExport]
    refine ⟨fun w pn => exportLine_congr_plain o ho _ _ w pn ?_ rfl rfl ?_, fun h => ?_⟩
    · exact printedLabel_plain o ho _
    · intro hx; simp only [fields, hx, if_true, Option.getD_some]
    · have := ((noEmpty_node f ks).1 hne).1
      cases ks with
      | nil => exact absurd rfl this
      | cons k ks => simp [kids] at h

/-- on well-formed trees, without decoration options: the writer looks only at what the format carries -/
theorem writeExport_carry_WF (o : OutOpts) (ho : PlainOpts o) (sid : Nat) (t : Tree) (hwf : WF t = true) :
    WF (carryExportRoot o t) = true ∧ writeExport o sid (carryExportRoot o t) = writeExport o sid t := by
  cases t with
  | leaf n f => simp [WF, isLeaf] at hwf
  | node f ks =>
    rw [carryExportRoot_node, carryExportL_eq]
    refine writeExport_goodMap o sid (carryExport o) (goodMap_carryExport o) f _ ks _ (List.Perm.refl _) hwf ?_
    intro k hk s hs
    exact lineEq_carryExport o ho s (noEmpty_of_mem_subtrees k (noEmpty_of_mem_kids f ks k (WF_noEmpty _ hwf) hk) s hs)

/-! ### export -> export -/

/-- `readExport_write'` (C02Export) with the conclusion as an equation of normal forms -/
theorem readExport_write_nf (sid : Nat) (t : Tree) (ls : List Str) (h : writeExport {} sid t = .ok ls)
    (hwf : WF t = true) (hok : ExportOK {} t = true) (hN : t.leafNums.length < 500)
    (hE : ∀ s ∈ t.subtrees, s.isLeaf = true → "#EOS".toList.isPrefixOf (s.fields.word.getD []) = false) :
    ∃ r, readExport {} ((ls.map (· ++ ['\n'])).flatten) = .ok [(sid, r)] ∧ nf r = nf (carryExportRoot {} t) := by
  have hne := WF_noEmpty t hwf
  obtain ⟨hls, hlines⟩ := writeExport_shape {} sid t ls h
  have hdec : ∀ p ∈ tokPaths t ++ consPaths t, decExpLine ({} : OutOpts).exportFour (lineAt {} t p) = some (entry {} t p) := by
    intro p hp
    obtain ⟨hp1, hp2⟩ := (mem_tok_cons t p).1 hp
    obtain ⟨l, hl⟩ := hlines p ((mem_nonRoot t p).2 ⟨hp1, hp2⟩)
    exact decode_lineAt {} t p l hne hok hp1 hl
  obtain ⟨r, hr, hnf⟩ := exportSentence_write t hwf hok hN hdec
  have hbody : ∀ l ∈ (tokPaths t ++ consPaths t).map (lineAt {} t),
      '\n' ∉ l ∧ strip l = l ∧ "#EOS".toList.isPrefixOf l = false := by
    intro l hl
    obtain ⟨p, hp, rfl⟩ := List.mem_map.1 hl
    obtain ⟨hp1, hp2⟩ := (mem_tok_cons t p).1 hp
    obtain ⟨l', hl'⟩ := hlines p ((mem_nonRoot t p).2 ⟨hp1, hp2⟩)
    refine lineAt_loop_ok t p l' hne hok hp1 hl' ?_
    unfold wordOf
    split
    · rename_i hk
      rw [kids_isEmpty_eq_isLeaf _ (noEmpty_subAt t p hne hp1)] at hk
      exact hE _ (mem_subtrees_subAt t p hp1) hk
    · exact eos_not_prefix_hash _
  refine ⟨r, ?_, hnf⟩
  rw [hls, List.append_assoc ["#BOS ".toList ++ natToStr sid], ← List.map_append]
  exact readExport_frame sid _ r hbody hr

/-- the tree read back from a written sentence is written as the same lines again -/
theorem writeExport_readback (sid : Nat) (t : Tree) (ls : List Str) (h : writeExport {} sid t = .ok ls)
    (hwf : WF t = true) (hok : ExportOK {} t = true) (hN : t.leafNums.length < 500)
    (hE : ∀ s ∈ t.subtrees, s.isLeaf = true → "#EOS".toList.isPrefixOf (s.fields.word.getD []) = false) :
    ∃ r, readExport {} ((ls.map (· ++ ['\n'])).flatten) = .ok [(sid, r)] ∧ writeExport {} sid r = .ok ls := by
  obtain ⟨r, hr, hnf⟩ := readExport_write_nf sid t ls h hwf hok hN hE
  obtain ⟨wc, ec⟩ := writeExport_carry_WF {} ⟨rfl, rfl, rfl, rfl⟩ sid t hwf
  obtain ⟨_, er⟩ := writeExport_of_nf_eq {} sid _ r wc hnf
  exact ⟨r, hr, by rw [er, ec, h]⟩

/-! ## brackets -> brackets -/

mutual
theorem eq_of_beq : (a b : Tree) → Tree.beq a b = true → a = b
  | .leaf n f, .leaf m g, h => by
    simp only [Tree.beq, Bool.and_eq_true, beq_iff_eq] at h
    rw [h.1, h.2]
  | .node f ks, .node g ls, h => by
    simp only [Tree.beq, Bool.and_eq_true, beq_iff_eq] at h
    rw [h.1, eqL_of_beqL ks ls h.2]
  | .leaf _ _, .node _ _, h => by simp [Tree.beq] at h
  | .node _ _, .leaf _ _, h => by simp [Tree.beq] at h
theorem eqL_of_beqL : (as bs : List Tree) → Tree.beqL as bs = true → as = bs
  | [], [], _ => rfl
  | a :: as, b :: bs, h => by
    simp only [Tree.beqL, Bool.and_eq_true] at h
    rw [eq_of_beq a b h.1, eqL_of_beqL as bs h.2]
  | [], _ :: _, h => by simp [Tree.beqL] at h
  | _ :: _, [], h => by simp [Tree.beqL] at h
end

theorem sortKids_eq_of_sameTree (a b : Tree) (h : sameTree a b = true) : sortKids a = sortKids b := eq_of_beq _ _ h

mutual
/-- the text the bracket writer without options prints (parentheses inside tokens replaced) -/
def brText : Tree → Str
  | leaf _ f => ['('] ++ replaceParens f.label ++ [' '] ++ ((f.word.map replaceParens).getD "None".toList) ++ [')']
  | node f ks =>
    if ks.isEmpty then ['('] ++ replaceParens f.label ++ [' '] ++ ((f.word.map replaceParens).getD "None".toList) ++ [')']
    else ['('] ++ f.label ++ ((sortBy (·.1) (brKids ks)).map (·.2)).flatten ++ [')']
def brKids : List Tree → List (Nat × Str)
  | [] => []
  | t :: ts => (leftmost t, brText t) :: brKids ts
end

theorem brKids_eq : ∀ ks : List Tree, brKids ks = ks.map fun k => (leftmost k, brText k)
  | [] => rfl
  | k :: ks => by simp [brKids, brKids_eq ks]

theorem brText_node (f : Fields) (ks : List Tree) (h : ks ≠ []) :
    brText (node f ks) = ['('] ++ f.label ++ ((sortBy leftmost ks).map brText).flatten ++ [')'] := by
  have : ks.isEmpty = false := by cases ks <;> simp_all
  rw [brText, this, brKids_eq, sortBy_map_keyed]
  rfl

/-- the bracket writer without options is total and prints `brText` -/
theorem bracketsSub_eq_brText (t : Tree) : bracketsSub {} false t = .ok (brText t) := by
  induction t using tree_ind with
  | hl n f =>
    rw [bracketsSub_leaf_plain, brText]
    simp [TT.Lemmas.Write.none_eq]
  | hn f ks ih =>
    have hk : ∀ L : List Tree, (∀ k ∈ L, k ∈ ks) → bracketsKids {} L = .ok (brKids L) := by
      intro L
      induction L with
      | nil => intro _; rw [bracketsKids, brKids]
      | cons k L ihL =>
        intro hL
        rw [bracketsKids, ih k (hL k (by simp)), ihL (fun k' hk' => hL k' (by simp [hk'])), brKids]
    rw [bracketsSub, brText]
    by_cases he : ks.isEmpty = true
    · simp only [he, if_true, TT.Props.C20.getLabel_plain, Tree.fields, replaceParensFields]
    · simp only [he, Bool.false_eq_true, if_false, TT.Props.C20.getLabel_plain, hk ks (fun _ h => h), Tree.fields]

theorem brText_sortKids (x : Tree) : brText (sortKids x) = brText x := by
  induction x using tree_ind with
  | hl n f => simp [sortKids]
  | hn f ks ih =>
    rw [sortKids_node]
    cases hks : ks with
    | nil => simp [sortBy, brText]
    | cons k0 ks0 =>
      rw [← hks]
      have hne : ks ≠ [] := by rw [hks]; simp
      have hne' : sortBy leftmost (ks.map sortKids) ≠ [] := by
        intro h
        have := congrArg List.length h
        rw [sortBy_length, List.length_map] at this
        exact hne (List.eq_nil_of_length_eq_zero this)
      rw [brText_node f _ hne', brText_node f ks hne, sortBy_of_sorted leftmost _ (sortBy_sorted leftmost _),
        sortBy_map leftmost leftmost sortKids (fun a => TT.Lemmas.ExportRT.leftmost_sortKids a), List.map_map]
      congr 3
      apply List.map_congr_left
      intro k hk
      exact ih k ((mem_sortBy _ _ _).1 hk)

theorem brText_asRead (x : Tree) (hne : x.noEmpty = true) : brText (asReadBrackets x) = brText x := by
  induction x using tree_ind with
  | hl n f => rw [asRead_leaf, brText, brText]
  | hn f ks ih =>
    rw [asRead_node]
    obtain ⟨hks, hk⟩ := (noEmpty_node f ks).1 hne
    have hks' : ks.map asReadBrackets ≠ [] := by
      intro h; exact hks (List.map_eq_nil_iff.1 h)
    have hl : ∀ a, leftmost (asReadBrackets a) = leftmost a := fun a =>
      TT.Lemmas.Write.leftmost_of_perm _ _ (by rw [leafNums_asRead])
    rw [brText_node _ _ hks', brText_node f ks hks, sortBy_map leftmost leftmost asReadBrackets hl, List.map_map]
    congr 3
    apply List.map_congr_left
    intro k hk'
    have hkm := (mem_sortBy _ _ _).1 hk'
    exact ih k hkm (hk k hkm)

theorem goodMap_asRead : GoodMap asReadBrackets where
  leaf n f := ⟨_, asRead_leaf n f⟩
  node f ks := ⟨_, _, asRead_node f ks, List.Perm.refl _⟩

theorem GoodMap.subtrees_perm {g : Tree → Tree} (hg : GoodMap g) (x : Tree) : (subtrees (g x)).Perm ((subtrees x).map g) := by
  induction x using tree_ind with
  | hl n f =>
    obtain ⟨f', h⟩ := hg.leaf n f
    rw [h]; simp only [subtrees, List.map_cons, List.map_nil, h]; exact List.Perm.refl _
  | hn f ks ih =>
    obtain ⟨f', ks', h, hp⟩ := hg.node f ks
    rw [h, subtrees_node', subtrees_node', List.map_cons, h, List.map_flatMap]
    refine List.Perm.cons _ ?_
    refine (hp.flatMap_right _).trans ?_
    rw [List.flatMap_map]
    exact perm_flatMap_of_forall _ _ ks ih

theorem GoodMap.gapDegreeNode_eq {g : Tree → Tree} (hg : GoodMap g) (s : Tree) : gapDegreeNode (g s) = gapDegreeNode s := by
  have hy : yield (g s) = yield s := by
    rw [yield_eq, yield_eq]; exact TT.Lemmas.Write.sortBy_id_perm _ _ (hg.leafNums_perm s)
  cases s with
  | leaf n f => obtain ⟨f', h⟩ := hg.leaf n f; rw [h]; rfl
  | node f ks =>
    obtain ⟨f', ks', h, _⟩ := hg.node f ks
    rw [h] at hy ⊢
    simp only [gapDegreeNode, hy]

theorem gapDegree_zero_iff_subtrees' (t : Tree) : gapDegree t = 0 ↔ ∀ s ∈ t.subtrees, gapDegreeNode s = 0 := by
  constructor
  · intro h s hs
    have := TT.Props.C16.gapDegree_ge t s ((preorder_perm_subtrees t).mem_iff.2 hs)
    omega
  · intro h
    obtain ⟨s, hs, he⟩ := TT.Props.C16.gapDegree_attained t
    rw [← he]
    exact h s ((preorder_perm_subtrees t).mem_iff.1 hs)

theorem GoodMap.gapDegree_zero {g : Tree → Tree} (hg : GoodMap g) (x : Tree) : gapDegree (g x) = 0 ↔ gapDegree x = 0 := by
  rw [gapDegree_zero_iff_subtrees', gapDegree_zero_iff_subtrees']
  constructor
  · intro h s hs
    rw [← hg.gapDegreeNode_eq s]
    exact h _ ((hg.subtrees_perm x).mem_iff.2 (List.mem_map_of_mem hs))
  · intro h s' hs'
    obtain ⟨s, hs, rfl⟩ := List.mem_map.1 ((hg.subtrees_perm x).mem_iff.1 hs')
    rw [hg.gapDegreeNode_eq s]
    exact h s hs

/-- the tree read back from a written bracket line is written as the same line again -/
theorem writeBrackets_readback (t r : Tree) (s : Str) (hne : t.noEmpty = true) (hc : gapDegree t = 0)
    (h : bracketsSub {} false t = .ok s) (hsame : sameTree r (asReadBrackets t) = true) :
    writeBrackets {} r = .ok (some s) := by
  have hs := sortKids_eq_of_sameTree _ _ hsame
  have hgap : gapDegree r = 0 := by
    rw [← goodMap_sortKids.gapDegree_zero, hs, goodMap_sortKids.gapDegree_zero, goodMap_asRead.gapDegree_zero]
    exact hc
  have htext : brText r = s := by
    rw [← brText_sortKids, hs, brText_sortKids, brText_asRead t hne]
    have := bracketsSub_eq_brText t
    rw [h] at this
    cases this; rfl
  unfold writeBrackets
  simp only [hgap, Nat.lt_irrefl, if_false]
  show (bracketsSub {} false r).map some = _
  rw [bracketsSub_eq_brText, htext]
  rfl

/-! ## maps that change fields only: the export writer without any well-formedness assumption -/

theorem filterMap_congr_mem {α β : Type} (f g : α → Option β) : ∀ l : List α, (∀ a ∈ l, f a = g a) → l.filterMap f = l.filterMap g
  | [], _ => rfl
  | a :: l, h => by
    rw [List.filterMap_cons, List.filterMap_cons, h a List.mem_cons_self,
      filterMap_congr_mem f g l (fun b hb => h b (List.mem_cons_of_mem _ hb))]

/-- a map that keeps the shape (children in place) and the token numbers -/
structure ShapeMap (g : Tree → Tree) : Prop where
  leaf : ∀ n f, ∃ f', g (leaf n f) = leaf n f'
  node : ∀ f ks, ∃ f', g (node f ks) = node f' (ks.map g)

theorem ShapeMap.good {g : Tree → Tree} (hg : ShapeMap g) : GoodMap g where
  leaf := hg.leaf
  node f ks := by obtain ⟨f', h⟩ := hg.node f ks; exact ⟨f', _, h, List.Perm.refl _⟩

theorem ShapeMap.get? {g : Tree → Tree} (hg : ShapeMap g) : ∀ (q : Path) (k : Tree), Tree.get? (g k) q = (Tree.get? k q).map g
  | [], k => by simp [Tree.get?]
  | i :: q, .leaf n f => by obtain ⟨f', h⟩ := hg.leaf n f; rw [h]; simp [Tree.get?]
  | i :: q, .node f ks => by
    obtain ⟨f', h⟩ := hg.node f ks
    rw [h]
    simp only [Tree.get?, List.getElem?_map]
    cases ks[i]? with
    | none => rfl
    | some k => simpa using ShapeMap.get? hg q k

theorem preorderPK_map (g : Tree → Tree) (hl : ∀ k, leftmost (g k) = leftmost k) : ∀ (ks : List Tree) (i : Nat),
    (∀ k ∈ ks, preorderP (g k) = preorderP k) → preorderPK (ks.map g) i = preorderPK ks i
  | [], _, _ => rfl
  | k :: ks, i, h => by
    simp only [List.map_cons, preorderPK, hl, h k List.mem_cons_self,
      preorderPK_map g hl ks (i + 1) (fun c hc => h c (List.mem_cons_of_mem _ hc))]

theorem ShapeMap.preorderP {g : Tree → Tree} (hg : ShapeMap g) (k : Tree) : Tree.preorderP (g k) = Tree.preorderP k := by
  induction k using tree_ind with
  | hl n f => obtain ⟨f', h⟩ := hg.leaf n f; rw [h]; rfl
  | hn f ks ih =>
    obtain ⟨f', h⟩ := hg.node f ks
    rw [h]
    simp only [Tree.preorderP, preorderPK_map g hg.good.leftmost_eq ks 0 ih]

section root
variable {g : Tree → Tree} (hg : ShapeMap g) (f f' : Fields) (ks : List Tree)
include hg

theorem shape_preorderP : Tree.preorderP (node f' (ks.map g)) = Tree.preorderP (node f ks) := by
  simp only [Tree.preorderP, preorderPK_map g hg.good.leftmost_eq ks 0 (fun k _ => hg.preorderP k)]

theorem shape_get? (i : Nat) (q : Path) : Tree.get? (node f' (ks.map g)) (i :: q) = (Tree.get? (node f ks) (i :: q)).map g := by
  simp only [Tree.get?, List.getElem?_map]
  cases ks[i]? with
  | none => rfl
  | some k => simpa using hg.get? q k

theorem shape_key : height (node f' (ks.map g)) = height (node f ks) ∧ leftmost (node f' (ks.map g)) = leftmost (node f ks) := by
  constructor
  · simp only [height, heightL_map g ks (fun k _ => hg.good.height_eq k)]
  · apply TT.Lemmas.Write.leftmost_of_perm
    rw [leafNums_node, leafNums_node, List.flatMap_map]
    exact perm_flatMap_of_forall _ _ ks (fun k _ => hg.good.leafNums_perm k)

theorem shape_constituentsPre : constituentsPre (node f' (ks.map g)) = constituentsPre (node f ks) := by
  unfold constituentsPre
  rw [shape_preorderP hg f f' ks]
  apply filterMap_congr_mem
  intro p _
  cases p with
  | nil =>
    simp only [Tree.get?]
    cases ks with
    | nil => rfl
    | cons k ks' =>
      have := shape_key hg f f' (k :: ks')
      simp only [List.map_cons] at this ⊢
      rw [this.1, this.2]
  | cons i q =>
    rw [shape_get? hg f f' ks i q]
    cases Tree.get? (node f ks) (i :: q) with
    | none => rfl
    | some s =>
      cases s with
      | leaf n f0 => obtain ⟨f0', h⟩ := hg.leaf n f0; simp only [Option.map_some, h]
      | node f0 ks0 =>
        obtain ⟨f0', h⟩ := hg.node f0 ks0
        have hh := hg.good.height_eq (node f0 ks0)
        have hl := hg.good.leftmost_eq (node f0 ks0)
        rw [h] at hh hl
        simp only [Option.map_some, h]
        cases ks0 with
        | nil => rfl
        | cons k0 ks0' =>
          simp only [List.map_cons] at hh hl ⊢
          rw [hh, hl]

theorem shape_exportNum (p : Path) : exportNum (node f' (ks.map g)) p = exportNum (node f ks) p := by
  have hnum : exportNumbering (node f' (ks.map g)) = exportNumbering (node f ks) := by
    unfold exportNumbering
    rw [shape_constituentsPre hg f f' ks]
  unfold exportNum
  rw [hnum]
  cases p with
  | nil => simp only [Tree.get?]
  | cons i q =>
    rw [shape_get? hg f f' ks i q]
    cases Tree.get? (node f ks) (i :: q) with
    | none => rfl
    | some s =>
      cases s with
      | leaf n f0 => obtain ⟨f0', h⟩ := hg.leaf n f0; simp only [Option.map_some, h]
      | node f0 ks0 => obtain ⟨f0', h⟩ := hg.node f0 ks0; simp only [Option.map_some, h]

theorem shape_numOf : numOf (node f' (ks.map g)) = numOf (node f ks) := by
  funext p; simp only [numOf, shape_exportNum hg f f' ks p]

theorem shape_nodesOf : nodesOf (node f' (ks.map g)) = (nodesOf (node f ks)).map fun ps => (ps.1, g ps.2) := by
  unfold nodesOf nonRoot
  rw [shape_preorderP hg f f' ks, List.map_filterMap]
  apply filterMap_congr_mem
  intro p hp
  have hp0 : p ≠ [] := by simpa using (List.mem_filter.1 hp).2
  cases p with
  | nil => exact absurd rfl hp0
  | cons i q =>
    rw [shape_get? hg f f' ks i q]
    cases Tree.get? (node f ks) (i :: q) <;> rfl

/-- a shape-keeping map applied to the children of the root that keeps the lines does not change what the export writer writes
    (no assumption on the tree) -/
theorem writeExport_shapeMap (o : OutOpts) (sid : Nat)
    (hline : ∀ k ∈ ks, ∀ s ∈ subtrees k, LineEq o s (g s)) :
    writeExport o sid (node f' (ks.map g)) = writeExport o sid (node f ks) := by
  rw [writeExport_unfold, writeExport_unfold, shape_nodesOf hg f f' ks]
  have hmem : ∀ ps ∈ nodesOf (node f ks), ∃ k ∈ ks, ps.2 ∈ subtrees k := by
    intro ps hps
    rw [nodesOf_eq] at hps
    obtain ⟨p, hp, rfl⟩ := List.mem_map.1 hps
    obtain ⟨hp1, hp0⟩ := (mem_nonRoot _ p).1 hp
    cases p with
    | nil => exact absurd rfl hp0
    | cons i q =>
      have hg' := get?_of_mem_paths _ _ hp1
      simp only [Tree.get?] at hg'
      cases hk : ks[i]? with
      | none => simp [hk] at hg'
      | some k =>
        simp only [hk] at hg'
        refine ⟨k, List.mem_of_getElem? hk, ?_⟩
        have hq : q ∈ paths k := (mem_paths_iff k q).2 (by simp [hg'])
        have := mem_subtrees_subAt k q hq
        rwa [subAt_of_get? hg'] at this
  have e1 : ((nodesOf (node f ks)).map fun ps => (ps.1, g ps.2)).filter (fun x => x.2.kids.isEmpty) =
      ((nodesOf (node f ks)).filter fun x => x.2.kids.isEmpty).map fun ps => (ps.1, g ps.2) := by
    rw [List.filter_map]
    congr 1
    apply List.filter_congr
    intro ps _
    simp only [Function.comp_apply, hg.good.kidsEmpty_eq]
  have e2 : ((nodesOf (node f ks)).map fun ps => (ps.1, g ps.2)).filter (fun x => !x.2.kids.isEmpty) =
      ((nodesOf (node f ks)).filter fun x => !x.2.kids.isEmpty).map fun ps => (ps.1, g ps.2) := by
    rw [List.filter_map]
    congr 1
    apply List.filter_congr
    intro ps _
    simp only [Function.comp_apply, hg.good.kidsEmpty_eq]
  rw [e1, e2, List.mapM_map, List.mapM_map]
  have hT : ((nodesOf (node f ks)).filter fun x => x.2.kids.isEmpty).mapM (termF o (node f' (ks.map g)) ∘ fun ps => (ps.1, g ps.2)) =
      ((nodesOf (node f ks)).filter fun x => x.2.kids.isEmpty).mapM (termF o (node f ks)) := by
    apply mapM_congr_mem
    intro ps hps
    obtain ⟨hps1, hps2⟩ := List.mem_filter.1 hps
    obtain ⟨k, hk, hs⟩ := hmem ps hps1
    obtain ⟨hl1, hl2⟩ := hline k hk ps.2 hs
    simp only [Function.comp_apply, termF, shape_numOf hg f f' ks, hl1, hl2 hps2]
  have hN : ((nodesOf (node f ks)).filter fun x => !x.2.kids.isEmpty).mapM (ntF o (node f' (ks.map g)) ∘ fun ps => (ps.1, g ps.2)) =
      ((nodesOf (node f ks)).filter fun x => !x.2.kids.isEmpty).mapM (ntF o (node f ks)) := by
    apply mapM_congr_mem
    intro ps hps
    obtain ⟨hps1, _⟩ := List.mem_filter.1 hps
    obtain ⟨k, hk, hs⟩ := hmem ps hps1
    obtain ⟨hl1, _⟩ := hline k hk ps.2 hs
    simp only [Function.comp_apply, ntF, shape_numOf hg f f' ks, hl1]
  rw [hT, hN]

end root

theorem writeExport_leaf (o : OutOpts) (sid : Nat) (n : Nat) (f : Fields) :
    writeExport o sid (leaf n f) = .ok ["#BOS ".toList ++ natToStr sid, "#EOS ".toList ++ natToStr sid] := by
  have h : nodesOf (leaf n f) = [] := by simp [nodesOf, nonRoot, Tree.preorderP]
  rw [writeExport_unfold, h]
  rfl

theorem shapeMap_carryExport (o : OutOpts) : ShapeMap (carryExport o) where
  leaf n f := ⟨_, by rw [carryExport]⟩
  node f ks := ⟨_, by rw [carryExport, carryExportL_eq]⟩

/-- without decoration options the carried node is written like the node, unless it is a childless constituent with a word -/
theorem lineEq_carryExport' (o : OutOpts) (ho : PlainOpts o) (s : Tree) (hw : ∀ f, s = node f [] → f.word.getD [] = []) :
    LineEq o s (carryExport o s) := by
  cases s with
  | leaf n f =>
    rw [carryExport]
    refine ⟨fun w pn => exportLine_congr_plain o ho _ _ w pn ?_ rfl rfl ?_, fun _ => rfl⟩
    · exact printedLabel_plain o ho _
    · intro hx; simp only [fields, hx, if_true, Option.getD_some]
  | node f ks =>
    rw [carryExport]
    refine ⟨fun w pn => exportLine_congr_plain o ho _ _ w pn ?_ rfl rfl ?_, fun h => ?_⟩
    · exact printedLabel_plain o ho _
    · intro hx; simp only [fields, hx, if_true, Option.getD_some]
    · cases ks with
      | nil => simp only [fields, Option.getD_none]; exact (hw f rfl).symm
      | cons k ks => simp [kids] at h

/-- CORRECTED `writeExport_carry`: without label decoration, and when no childless constituent below the root carries a word,
    the export writer looks only at what the format carries (no other assumption on the tree) -/
theorem writeExport_carry_plain (o : OutOpts) (ho : PlainOpts o) (sid : Nat) (t : Tree)
    (hw : ∀ k ∈ t.kids, ∀ f, node f [] ∈ subtrees k → f.word.getD [] = []) :
    writeExport o sid (carryExportRoot o t) = writeExport o sid t := by
  cases t with
  | leaf n f =>
    have : carryExportRoot o (leaf n f) = carryExport o (leaf n f) := by simp [carryExportRoot, carryExport]
    rw [this, carryExport, writeExport_leaf, writeExport_leaf]
  | node f ks =>
    rw [carryExportRoot_node, carryExportL_eq]
    apply writeExport_shapeMap (shapeMap_carryExport o)
    intro k hk s hs
    exact lineEq_carryExport' o ho s (fun f0 h0 => hw k hk f0 (h0 ▸ hs))

end TT.Lemmas.Run
