/-
  Helper lemmas for the whole command `treetools transform` (`TT/Run.lean`): the text of a list of trees
  (`bodyText`), its behaviour on concatenations, the frame of a TIGER-XML document, and the steps pipeline.
-/
import TT.Run
import TT.Props.C17
namespace TT.Lemmas.Run
open TT TT.Tree

/-! ### `Except` bookkeeping -/

theorem bind_ok {ε α β : Type} (x : Except ε α) (f : α → Except ε β) (b : β) (h : (x >>= f) = .ok b) :
    ∃ a, x = .ok a ∧ f a = .ok b := by
  cases x with
  | error e => cases h
  | ok a => exact ⟨a, rfl, h⟩

theorem mapM_length {ε α β : Type} (f : α → Except ε β) : ∀ (l : List α) (r : List β), l.mapM f = .ok r → r.length = l.length
  | [], r, h => by
    simp only [List.mapM_nil, pure, Except.pure, Except.ok.injEq] at h
    subst h; rfl
  | a :: l, r, h => by
    rw [List.mapM_cons] at h
    obtain ⟨b, _, h⟩ := bind_ok _ _ _ h
    obtain ⟨bs, hbs, h⟩ := bind_ok _ _ _ h
    simp only [pure, Except.pure, Except.ok.injEq] at h
    subst h
    simp [mapM_length f l bs hbs]

/-! ### the text of a list of trees -/

/-- what the trees contribute to the destination, without the frame of the format -/
def bodyText (fmt : DestFmt) (o : OutOpts) (ts : List (Nat × Tree)) : Except Err Str :=
  (ts.mapM fun p => writeOne fmt o p.1 p.2) >>= fun body => pure body.flatten

/-- the frame of a TIGER-XML document around a body -/
def tigerFrame (enc : Option Str) (b : Str) : Str := ((tigerBegin enc).map (· ++ ['\n'])).flatten ++ b ++ tigerEnd

theorem writeAll_eq (fmt : DestFmt) (o : OutOpts) (enc : Option Str) (ts : List (Nat × Tree)) :
    writeAll fmt o enc ts = (bodyText fmt o ts >>= fun b => if fmt = .tigerxml then pure (tigerFrame enc b) else pure b) := by
  unfold writeAll bodyText tigerFrame
  cases (ts.mapM fun p => writeOne fmt o p.1 p.2) with
  | error e => rfl
  | ok body => by_cases h : fmt = .tigerxml <;> simp [h, bind, Except.bind, pure, Except.pure]

theorem writeAll_plain (fmt : DestFmt) (o : OutOpts) (enc : Option Str) (ts : List (Nat × Tree)) (hf : fmt ≠ .tigerxml) :
    writeAll fmt o enc ts = bodyText fmt o ts := by
  rw [writeAll_eq]
  cases bodyText fmt o ts with
  | error e => rfl
  | ok b => simp [hf, bind, Except.bind, pure, Except.pure]

theorem writeAll_tiger (o : OutOpts) (enc : Option Str) (ts : List (Nat × Tree)) :
    writeAll .tigerxml o enc ts = (bodyText .tigerxml o ts >>= fun b => pure (tigerFrame enc b)) := by
  rw [writeAll_eq]
  cases bodyText .tigerxml o ts with
  | error e => rfl
  | ok b => simp [bind, Except.bind]

theorem bodyText_nil (fmt : DestFmt) (o : OutOpts) : bodyText fmt o [] = .ok [] := rfl

theorem bodyText_append (fmt : DestFmt) (o : OutOpts) (a b : List (Nat × Tree)) :
    bodyText fmt o (a ++ b) = (do let x ← bodyText fmt o a; let y ← bodyText fmt o b; pure (x ++ y)) := by
  unfold bodyText
  rw [List.mapM_append]
  cases (a.mapM fun p => writeOne fmt o p.1 p.2) with
  | error e => rfl
  | ok x =>
    cases (b.mapM fun p => writeOne fmt o p.1 p.2) with
    | error e => rfl
    | ok y => simp [bind, Except.bind, pure, Except.pure]

theorem bodyText_append_ok (fmt : DestFmt) (o : OutOpts) (a b : List (Nat × Tree)) (x y : Str)
    (ha : bodyText fmt o a = .ok x) (hb : bodyText fmt o b = .ok y) : bodyText fmt o (a ++ b) = .ok (x ++ y) := by
  rw [bodyText_append, ha, hb]; rfl

/-- the bodies of the parts, taken in order, are the body of the whole -/
theorem bodyText_flatten (fmt : DestFmt) (o : OutOpts) : ∀ (L : List (List (Nat × Tree))) (bodies : List Str),
    L.mapM (bodyText fmt o) = .ok bodies → bodyText fmt o L.flatten = .ok bodies.flatten
  | [], bodies, h => by
    simp only [List.mapM_nil, pure, Except.pure, Except.ok.injEq] at h
    subst h; rfl
  | l :: L, bodies, h => by
    rw [List.mapM_cons] at h
    obtain ⟨b, hb, h⟩ := bind_ok _ _ _ h
    obtain ⟨bs, hbs, h⟩ := bind_ok _ _ _ h
    simp only [pure, Except.pure, Except.ok.injEq] at h
    subst h
    rw [List.flatten_cons, List.flatten_cons]
    exact bodyText_append_ok fmt o _ _ _ _ hb (bodyText_flatten fmt o L bs hbs)

/-- every part of a TIGER-XML split is a framed body -/
theorem mapM_writeAll_tiger (o : OutOpts) (enc : Option Str) : ∀ (L : List (List (Nat × Tree))) (parts : List Str),
    L.mapM (writeAll .tigerxml o enc) = .ok parts →
    ∃ bodies, L.mapM (bodyText .tigerxml o) = .ok bodies ∧ parts = bodies.map (tigerFrame enc)
  | [], parts, h => by
    simp only [List.mapM_nil, pure, Except.pure, Except.ok.injEq] at h
    subst h; exact ⟨[], rfl, rfl⟩
  | l :: L, parts, h => by
    rw [List.mapM_cons] at h
    obtain ⟨p, hp, h⟩ := bind_ok _ _ _ h
    obtain ⟨ps, hps, h⟩ := bind_ok _ _ _ h
    simp only [pure, Except.pure, Except.ok.injEq] at h
    subst h
    rw [writeAll_tiger] at hp
    obtain ⟨b, hb, hp⟩ := bind_ok _ _ _ hp
    simp only [pure, Except.pure, Except.ok.injEq] at hp
    subst hp
    obtain ⟨bs, hbs, rfl⟩ := mapM_writeAll_tiger o enc L ps hps
    refine ⟨b :: bs, ?_, rfl⟩
    rw [List.mapM_cons, hb, hbs]; rfl

theorem mapM_writeAll_plain (fmt : DestFmt) (o : OutOpts) (enc : Option Str) (hf : fmt ≠ .tigerxml) (L : List (List (Nat × Tree))) :
    L.mapM (writeAll fmt o enc) = L.mapM (bodyText fmt o) := by
  have : writeAll fmt o enc = bodyText fmt o := funext fun ts => writeAll_plain fmt o enc ts hf
  rw [this]

/-! ### `distribute` -/

theorem distribute_length {α : Type} : ∀ (sizes : List Nat) (ts : List α), (distribute sizes ts).length = sizes.length
  | [], _ => rfl
  | n :: ns, ts => by simp [distribute, distribute_length ns]

/-! ### the steps -/

theorem applySteps'_append (a b : List Step) (t : Tree) :
    applySteps' (a ++ b) t = (match applySteps' a t with | .ok (some t') => applySteps' b t' | r => r) := by
  induction a generalizing t with
  | nil => rfl
  | cons f fs ih =>
    simp only [List.cons_append, applySteps']
    cases hf : f t with
    | error e => rfl
    | ok r =>
      cases r with
      | none => rfl
      | some t' => exact ih t'

theorem transformAll_append (steps : List Step) (a b : List (Nat × Tree)) :
    transformAll steps (a ++ b) = (do let x ← transformAll steps a; let y ← transformAll steps b; pure (x ++ y)) := by
  induction a with
  | nil =>
    simp only [List.nil_append, transformAll]
    cases transformAll steps b <;> rfl
  | cons p rest ih =>
    obtain ⟨sid, t⟩ := p
    simp only [List.cons_append, transformAll]
    cases applySteps' steps t with
    | error e => rfl
    | ok r =>
      cases r with
      | none => exact ih
      | some t' =>
        simp only [ih]
        cases transformAll steps rest with
        | error e => rfl
        | ok x =>
          cases transformAll steps b with
          | error e => rfl
          | ok y => rfl

theorem transformAll_nil_steps : ∀ ts : List (Nat × Tree), transformAll [] ts = .ok ts
  | [] => rfl
  | (sid, t) :: rest => by simp [transformAll, applySteps', transformAll_nil_steps rest, Except.map]

/-- unfolding of the two commands on a source that was read -/
theorem runFrom_ok (steps : List Step) (fmt : DestFmt) (o : OutOpts) (enc : Option Str) (ts : List (Nat × Tree)) :
    runFrom steps fmt o enc (.ok ts) = (transformAll steps ts >>= fun ts' => writeAll fmt o enc ts') := rfl

theorem runSplitFrom_ok (steps : List Step) (fmt : DestFmt) (o : OutOpts) (enc : Option Str) (spec : Str) (ts : List (Nat × Tree)) :
    runSplitFrom steps fmt o enc spec (.ok ts) =
      (transformAll steps ts >>= fun ts' => parseSplitSpec spec ts'.length >>= fun sizes =>
        (distribute sizes ts').mapM (writeAll fmt o enc)) := rfl

end TT.Lemmas.Run
