/-
  Wave 14 (defect D22 repaired: the word of a token written without a tag is the token as written, also under `gf_split`).
  * `replace_parens` as a post-processing of the bracket reader, for EVERY option record (`readBrackets_rp`);
  * the grammar with the reader's label function (`spNodeG`, `TT/Lemmas/Read.lean`) against the plain grammar `spNode`:
    the same texts are accepted and the trees correspond node by node (`GfRel`), for every separator;
  * consequences for the reader with `gf_split` and `brackets_emptypos` together.
-/
import TT.Lemmas.More12h
namespace TT.Lemmas.More14
open TT TT.Spec TT.Tree TT.Lemmas.Read TT.Lemmas.WF TT.Lemmas.More12h

/-! ### `replace_parens` alone -/

def rpS (st : BrState) : BrState := { st with out := st.out.map (fun x => (x.1, replaceParensTree x.2)) }

def rpMap : Except Err (BrState × Option Tree) → Except Err (BrState × Option Tree)
  | .error e => .error e
  | .ok (st, r) => .ok (rpS st, r.map replaceParensTree)

theorem rrbTail_rp (st : BrState) (Q : List QNode) (T : Nat) :
    rrbTail true (rpS st) Q T = rpMap (rrbTail false st Q T) := by
  unfold rrbTail
  simp only
  have hlev : (rpS st).level = st.level := rfl
  rw [hlev]
  by_cases hl : (st.level - 1 == 0) = true
  · simp only [hl, if_true]
    cases (if Q.length > 1 then closeLast Q else Q).head? with
    | none => rfl
    | some root => simp [rpMap, rpS]
  · simp only [hl, Bool.false_eq_true, if_false, rpMap, rpS, Option.map_none]

theorem step_rp (o : InOpts) (st : BrState) (tok : Str × LexClass) :
    brStep { o with replaceParens := true } (rpS st) tok = rpMap (brStep { o with replaceParens := false } st tok) := by
  obtain ⟨w, c⟩ := tok
  cases c with
  | token =>
    simp only [brStep, rpS]
    by_cases h0 : (st.state == 0) = true
    · simp only [h0, if_true, rpMap, rpS, Option.map_none]
    simp only [h0, Bool.false_eq_true, if_false]
    by_cases h19 : (st.state == 1 || st.state == 9) = true
    · simp only [h19, if_true]
      cases o.gfSplit <;> rfl
    simp only [h19, Bool.false_eq_true, if_false]
    by_cases h3 : (st.state == 3) = true
    · simp only [h3, if_true, rpMap, rpS, Option.map_none]
    · simp only [h3, Bool.false_eq_true, if_false, rpMap]
  | ws =>
    simp only [brStep, rpS]
    by_cases h2 : (st.state == 2) = true
    · simp only [h2, if_true, rpMap, rpS, Option.map_none]
    · simp only [h2, Bool.false_eq_true, if_false, rpMap, rpS, Option.map_none]
  | lrb =>
    simp only [brStep, rpS]
    by_cases h1 : (st.state == 0 || st.state == 2 || st.state == 3 || st.state == 5) = true
    · simp only [h1, if_true, rpMap, rpS, Option.map_none]; rfl
    simp only [h1, Bool.false_eq_true, if_false]
    by_cases h9 : (st.state == 9) = true
    · simp only [h9, if_true, rpMap, rpS, Option.map_none]
    · simp only [h9, Bool.false_eq_true, if_false, rpMap]
  | rrb =>
    rw [brStep_rrb, brStep_rrb]
    unfold rrbStep
    have e1 : (rpS st).state = st.state := rfl
    have e2 : (rpS st).queue = st.queue := rfl
    have e3 : (rpS st).termCnt = st.termCnt := rfl
    simp only [e1, e2, e3]
    by_cases h0 : (st.state == 0) = true
    · simp only [h0, if_true, rpMap, Option.map_none]
    simp only [h0, Bool.false_eq_true, if_false]
    by_cases h245 : (st.state == 2 || st.state == 4 || st.state == 5) = true
    · simp only [h245, if_true]
      by_cases h2e : (st.state == 2 && !o.emptyPos) = true
      · simp only [h2e, if_true, rpMap]
      simp only [h2e, Bool.false_eq_true, if_false]
      by_cases h2 : (st.state == 2) = true
      · simp only [h2, if_true]; exact rrbTail_rp st _ _
      · simp only [h2, Bool.false_eq_true, if_false]; exact rrbTail_rp st _ _
    · simp only [h245, Bool.false_eq_true, if_false, rpMap]

/-- `replace_parens` = the run without it, every delivered tree post-processed; for EVERY option record -/
theorem run_rp (o : InOpts) : ∀ (toks : List (Str × LexClass)) (st : BrState),
    brRun { o with replaceParens := true } (rpS st) toks =
      (brRun { o with replaceParens := false } st toks).map (List.map fun x => (x.1, replaceParensTree x.2)) := by
  intro toks
  induction toks with
  | nil =>
    intro st
    simp only [brRun, rpS]
    by_cases hl : (st.level != 0) = true
    · simp only [hl, if_true]; rfl
    · simp only [hl, Bool.false_eq_true, if_false, Except.map, List.map_reverse]
  | cons tok rest ih =>
    intro st
    simp only [brRun]
    rw [step_rp o st tok]
    cases hs : brStep { o with replaceParens := false } st tok with
    | error e => rfl
    | ok x =>
      obtain ⟨st', r⟩ := x
      cases r with
      | none =>
        simp only [rpMap, Option.map_none]
        exact ih st'
      | some t =>
        simp only [rpMap, Option.map_some]
        have : ({ rpS st' with out := ((rpS st).cnt, replaceParensTree t) :: (rpS st').out } : BrState) =
            rpS { st' with out := (st.cnt, t) :: st'.out } := rfl
        rw [this]
        exact ih _

theorem readBrackets_rp (o : InOpts) (hd : o.disco = false) (text : Str) :
    readBrackets { o with replaceParens := true } text =
      (readBrackets { o with replaceParens := false } text).map (List.map fun x => (x.1, replaceParensTree x.2)) := by
  unfold readBrackets
  rw [brLoop_eq_brRun { o with replaceParens := true } hd _ _ _ (by omega),
    brLoop_eq_brRun { o with replaceParens := false } hd _ _ _ (by omega)]
  exact run_rp o _ { cnt := o.firstId.getD 1 }

/-! ### the two grammars -/

mutual
/-- `t'` is `t` with `gf_split` applied to the label of every node that has an edge label - except that a token with the
    default label and the default edge label may be left as it is (the tokens written without a tag) -/
def GfRel (o : InOpts) : Tree → Tree → Prop
  | .leaf n f, t' => t' = .leaf n (fF o f) ∨ (t' = .leaf n f ∧ f.label = DEFAULT_LABEL ∧ f.edge = some DEFAULT_EDGE)
  | .node f ks, t' => ∃ ks', t' = .node (fF o f) ks' ∧ GfRelL o ks ks'
def GfRelL (o : InOpts) : List Tree → List Tree → Prop
  | [], l => l = []
  | t :: ts, l => ∃ t' ts', l = t' :: ts' ∧ GfRel o t t' ∧ GfRelL o ts ts'
end

theorem gfRelL_nil (o : InOpts) : GfRelL o [] [] := by simp [GfRelL]

theorem gfRelL_cons (o : InOpts) (t t' : Tree) (ts ts' : List Tree) (h : GfRel o t t') (hs : GfRelL o ts ts') :
    GfRelL o (t :: ts) (t' :: ts') := by
  rw [GfRelL]; exact ⟨t', ts', rfl, h, hs⟩

theorem gfRelL_isEmpty (o : InOpts) : ∀ (ks ks' : List Tree), GfRelL o ks ks' → ks'.isEmpty = ks.isEmpty
  | [], ks', h => by rw [GfRelL] at h; subst h; rfl
  | k :: ks, ks', h => by rw [GfRelL] at h; obtain ⟨t', ts', rfl, _, _⟩ := h; rfl

theorem fF_lf (o : InOpts) (w : Str) (wd : Option Str) :
    fF o { label := w, word := wd, edge := some DEFAULT_EDGE, morph := some DEFAULT_MORPH } =
      { label := (lfOf o w).1, word := wd, edge := some (lfOf o w).2, morph := some DEFAULT_MORPH } := by
  unfold fF lfOf sepOf
  cases o.gfSplit <;> rfl

theorem fF_root (o : InOpts) : fF o { label := DEFAULT_ROOT } = { label := DEFAULT_ROOT } := by
  simp [fF]

def NodeRel (o : InOpts) : Option (Tree × Str × Nat) → Option (Tree × Str × Nat) → Prop
  | some (t, r, c), some (t', r', c') => r' = r ∧ c' = c ∧ GfRel o t t'
  | none, none => True
  | _, _ => False

def KidsRel (o : InOpts) (acc acc' : List Tree) : Option (List Tree × Str × Nat) → Option (List Tree × Str × Nat) → Prop
  | some (ks, r, c), some (ks', r', c') => r' = r ∧ c' = c ∧
      ∃ new new', ks = acc.reverse ++ new ∧ ks' = acc'.reverse ++ new' ∧ GfRelL o new new'
  | none, none => True
  | _, _ => False

theorem kids_rel_step (o : InOpts) (ep : Bool) (fuel : Nat)
    (N : ∀ root s cnt, NodeRel o (spNode ep root fuel s cnt) (spNodeG (lfOf o) ep root fuel s cnt))
    (K : ∀ s cnt acc acc', KidsRel o acc acc' (spKids ep fuel s cnt acc) (spKidsG (lfOf o) ep fuel s cnt acc')) :
    ∀ s cnt acc acc', KidsRel o acc acc' (spKids ep (fuel + 1) s cnt acc) (spKidsG (lfOf o) ep (fuel + 1) s cnt acc') := by
  intro s cnt acc acc'
  simp only [spKids, spKidsG]
  cases hs : skipWs s with
  | nil => simp [KidsRel]
  | cons d ds =>
    by_cases h1 : d = ')'
    · subst h1
      simp only [KidsRel, true_and]
      exact ⟨[], [], by simp, by simp, gfRelL_nil o⟩
    by_cases h2 : d = '('
    · subst h2
      simp only
      have hN := N false ('(' :: ds) cnt
      cases h3 : spNode ep false fuel ('(' :: ds) cnt with
      | none =>
        rw [h3] at hN
        cases h4 : spNodeG (lfOf o) ep false fuel ('(' :: ds) cnt with
        | none => simp [KidsRel]
        | some v => rw [h4] at hN; exact hN.elim
      | some v =>
        obtain ⟨k, rest, c1⟩ := v
        rw [h3] at hN
        cases h4 : spNodeG (lfOf o) ep false fuel ('(' :: ds) cnt with
        | none => rw [h4] at hN; exact hN.elim
        | some v' =>
          obtain ⟨k', rest', c1'⟩ := v'
          rw [h4] at hN
          obtain ⟨rfl, rfl, hk⟩ := hN
          simp only
          have hK := K rest' c1' (k :: acc) (k' :: acc')
          cases h5 : spKids ep fuel rest' c1' (k :: acc) with
          | none =>
            rw [h5] at hK
            cases h6 : spKidsG (lfOf o) ep fuel rest' c1' (k' :: acc') with
            | none => trivial
            | some v => rw [h6] at hK; exact hK.elim
          | some v =>
            obtain ⟨ks, r2, c2⟩ := v
            rw [h5] at hK
            cases h6 : spKidsG (lfOf o) ep fuel rest' c1' (k' :: acc') with
            | none => rw [h6] at hK; exact hK.elim
            | some v' =>
              obtain ⟨ks', r2', c2'⟩ := v'
              rw [h6] at hK
              obtain ⟨rfl, rfl, new, new', h7, h8, h9⟩ := hK
              exact ⟨rfl, rfl, k :: new, k' :: new', by simp [h7], by simp [h8], gfRelL_cons o _ _ _ _ hk h9⟩
    · split
      · rename_i heq; injection heq with a b; exact absurd a h1
      · rename_i heq; injection heq with a b; exact absurd a h2
      · split
        · rename_i heq; injection heq with a b; exact absurd a h1
        · rename_i heq; injection heq with a b; exact absurd a h2
        · trivial

theorem nodeRel_of_eq (o : InOpts) {X Y : Option (Tree × Str × Nat)} (h : ∀ a b, X = a → Y = b → NodeRel o a b) : NodeRel o X Y :=
  h _ _ rfl rfl

theorem node_rel_step (o : InOpts) (ep : Bool) (fuel : Nat)
    (K : ∀ s cnt acc acc', KidsRel o acc acc' (spKids ep fuel s cnt acc) (spKidsG (lfOf o) ep fuel s cnt acc')) :
    ∀ root s cnt, NodeRel o (spNode ep root (fuel + 1) s cnt) (spNodeG (lfOf o) ep root (fuel + 1) s cnt) := by
  intro root s cnt
  cases s with
  | nil => simp [spNode, spNodeG, NodeRel]
  | cons c r =>
    by_cases hc : c = '('
    · subst hc
      simp only [spNode, spNodeG, drop_takeWhile_length]
      generalize (skipWs r).takeWhile isTokC = label
      generalize (skipWs r).dropWhile isTokC = r2
      by_cases h1 : (label.isEmpty && !root) = true
      · simp only [h1, if_true]; trivial
      simp only [h1, Bool.false_eq_true, if_false]
      cases r2 with
      | nil => simp [skipWs, NodeRel]
      | cons d ds =>
        by_cases hd : d = ')'
        · subst hd
          simp only
          by_cases h2 : (ep && !label.isEmpty) = true
          · simp only [h2, if_true, NodeRel, true_and]
            rw [GfRel]
            exact Or.inr ⟨rfl, rfl, rfl⟩
          · simp only [h2, Bool.false_eq_true, if_false]; trivial
        · apply nodeRel_of_eq
          intro a b ha hb
          split at ha
          · rename_i heq; injection heq with e1 e2; exact absurd e1 hd
          split at hb
          · rename_i heq; injection heq with e1 e2; exact absurd e1 hd
          generalize decide (List.length (skipWs (d :: ds)) < (d :: ds).length) = hadWs at ha hb
          generalize List.takeWhile isTokC (skipWs (d :: ds)) = word at ha hb
          generalize skipWs (List.dropWhile isTokC (skipWs (d :: ds))) = r5 at ha hb
          generalize skipWs (d :: ds) = r3 at ha hb
          cases r3 with
          | nil => simp only at ha hb; subst ha hb; trivial
          | cons e es =>
            by_cases he : e = '('
            · subst he
              simp only at ha hb
              have hK := K ('(' :: es) cnt [] []
              cases h3 : spKids ep fuel ('(' :: es) cnt [] with
              | none =>
                rw [h3] at hK ha
                cases h4 : spKidsG (lfOf o) ep fuel ('(' :: es) cnt [] with
                | none => rw [h4] at hb; simp only at ha hb; subst ha hb; trivial
                | some v => rw [h4] at hK; exact hK.elim
              | some v =>
                obtain ⟨ks, rest, c1⟩ := v
                rw [h3] at hK ha
                cases h4 : spKidsG (lfOf o) ep fuel ('(' :: es) cnt [] with
                | none => rw [h4] at hK; exact hK.elim
                | some v' =>
                  obtain ⟨ks', rest', c1'⟩ := v'
                  rw [h4] at hK hb
                  obtain ⟨rfl, rfl, new, new', h7, h8, h9⟩ := hK
                  simp only [List.reverse_nil, List.nil_append] at h7 h8
                  subst h7 h8
                  simp only [gfRelL_isEmpty o _ _ h9] at ha hb
                  by_cases hks : ks.isEmpty = true
                  · simp only [hks, if_true] at ha hb; subst ha hb; trivial
                  · simp only [hks, Bool.false_eq_true, if_false] at ha hb
                    subst ha hb
                    refine ⟨rfl, rfl, ?_⟩
                    rw [GfRel]
                    refine ⟨_, ?_, h9⟩
                    by_cases hl : label.isEmpty = true
                    · simp only [hl, if_true, fF_root]
                    · simp only [hl, Bool.false_eq_true, if_false]
                      rw [← fF_lf o label none]
            · split at ha
              · rename_i heq; injection heq with e1 e2; exact absurd e1 he
              · rename_i c tl heq
                injection heq with e1 e2
                subst e1
                split at hb
                · rename_i heq; injection heq with e1 e2; exact absurd e1 he
                · rename_i c' tl' heq'
                  injection heq' with e1' e2'
                  subst e1'
                  by_cases hcond : (hadWs && isTokC e && !label.isEmpty) = true
                  · simp only [hcond, if_true] at ha hb
                    cases r5 with
                    | nil => simp only at ha hb; subst ha hb; trivial
                    | cons g gs =>
                      by_cases hg : g = ')'
                      · subst hg
                        simp only at ha hb
                        subst ha hb
                        refine ⟨rfl, rfl, ?_⟩
                        rw [GfRel, fF_lf]
                        exact Or.inl rfl
                      · split at ha
                        · rename_i heq; injection heq with e1 e2; exact absurd e1 hg
                        split at hb
                        · rename_i heq; injection heq with e1 e2; exact absurd e1 hg
                        subst ha hb; trivial
                  · simp only [hcond, Bool.false_eq_true, if_false] at ha hb
                    subst ha hb; trivial
                · rename_i heq; cases heq
              · rename_i heq; cases heq
    · rw [spNode_notlrb _ _ _ _ _ _ hc, spNodeG_notlrb _ _ _ _ _ _ _ hc]; trivial

theorem sp_rel (o : InOpts) (ep : Bool) : ∀ fuel,
    (∀ root s cnt, NodeRel o (spNode ep root fuel s cnt) (spNodeG (lfOf o) ep root fuel s cnt)) ∧
    (∀ s cnt acc acc', KidsRel o acc acc' (spKids ep fuel s cnt acc) (spKidsG (lfOf o) ep fuel s cnt acc')) := by
  intro fuel
  induction fuel with
  | zero => exact ⟨fun _ _ _ => by simp [spNode, spNodeG, NodeRel], fun _ _ _ _ => by simp [spKids, spKidsG, KidsRel]⟩
  | succ fuel ih => exact ⟨node_rel_step o ep fuel ih.2, kids_rel_step o ep fuel ih.1 ih.2⟩

theorem gfRelL_snoc (o : InOpts) (t t' : Tree) (ht : GfRel o t t') : ∀ (a a' : List Tree), GfRelL o a a' → GfRelL o (a ++ [t]) (a' ++ [t'])
  | [], a', h => by
    rw [GfRelL] at h; subst h
    exact gfRelL_cons o _ _ _ _ ht (gfRelL_nil o)
  | x :: a, a', h => by
    rw [GfRelL] at h
    obtain ⟨x', a'', rfl, hx, ha⟩ := h
    exact gfRelL_cons o _ _ _ _ hx (gfRelL_snoc o t t' ht a a'' ha)

def GroupsRel (o : InOpts) : Option (List Tree) → Option (List Tree) → Prop
  | some ts, some ts' => GfRelL o ts ts'
  | none, none => True
  | _, _ => False

theorem spGroups_rel (o : InOpts) (ep : Bool) : ∀ (fuel : Nat) (s : Str) (acc acc' : List Tree), GfRelL o acc.reverse acc'.reverse →
    GroupsRel o (spGroups ep fuel s acc) (spGroupsG (lfOf o) ep fuel s acc') := by
  intro fuel
  induction fuel with
  | zero => intro s acc acc' _; simp [spGroups, spGroupsG, GroupsRel]
  | succ fuel ih =>
    intro s acc acc' hacc
    cases s with
    | nil => simpa [spGroups, spGroupsG, GroupsRel] using hacc
    | cons c r =>
      by_cases hc : c = '('
      · subst hc
        simp only [spGroups, spGroupsG]
        have hN := (sp_rel o ep (2 * r.length + 4)).1 true ('(' :: r) 1
        cases h3 : spNode ep true (2 * r.length + 4) ('(' :: r) 1 with
        | none =>
          rw [h3] at hN
          cases h4 : spNodeG (lfOf o) ep true (2 * r.length + 4) ('(' :: r) 1 with
          | none => trivial
          | some v => rw [h4] at hN; exact hN.elim
        | some v =>
          obtain ⟨t, rest, c1⟩ := v
          rw [h3] at hN
          cases h4 : spNodeG (lfOf o) ep true (2 * r.length + 4) ('(' :: r) 1 with
          | none => rw [h4] at hN; exact hN.elim
          | some v' =>
            obtain ⟨t', rest', c1'⟩ := v'
            rw [h4] at hN
            obtain ⟨rfl, rfl, ht⟩ := hN
            simp only
            exact ih rest' (t :: acc) (t' :: acc') (by
              simp only [List.reverse_cons]
              exact gfRelL_snoc o t t' ht _ _ hacc)
      · have h1 : spGroupsG (lfOf o) ep (fuel + 1) (c :: r) acc' = spGroupsG (lfOf o) ep fuel r acc' := by
          rw [spGroupsG]; intro h; exact hc h
        have h2 : spGroups ep (fuel + 1) (c :: r) acc = spGroups ep fuel r acc := by
          rw [spGroups]; intro h; exact hc h
        rw [h1, h2]
        exact ih r acc acc' hacc

/-- the grammar with the reader's label function against the plain grammar: the same texts are accepted, and the trees
    correspond node by node (`GfRel`) -/
theorem specBracketsG_rel (o : InOpts) (text : Str) :
    GroupsRel o (specBrackets o.emptyPos text) (specBracketsG (lfOf o) o.emptyPos text) :=
  spGroups_rel o _ _ _ [] [] (gfRelL_nil o)

/-! ### consequences of the correspondence -/

/-- the tree without its fields -/
def skel : Tree → Tree := mapF (fun _ => ({} : Fields))

theorem skel_leaf (n : Nat) (f : Fields) : skel (leaf n f) = leaf n {} := by simp [skel, mapF]

theorem skel_node (f : Fields) (ks : List Tree) : skel (node f ks) = node {} (ks.map skel) := by
  simp [skel, mapF, mapFL_eq]

theorem gfRel_skel (o : InOpts) (t : Tree) : ∀ t', GfRel o t t' → skel t' = skel t := by
  induction t using tree_ind with
  | hl n f =>
    intro t' h
    rw [GfRel] at h
    rcases h with rfl | ⟨rfl, _, _⟩ <;> simp [skel_leaf]
  | hn f ks ih =>
    intro t' h
    rw [GfRel] at h
    obtain ⟨ks', rfl, hks⟩ := h
    rw [skel_node, skel_node]
    congr 1
    clear f
    induction ks generalizing ks' with
    | nil => rw [GfRelL] at hks; subst hks; rfl
    | cons k ks ih2 =>
      rw [GfRelL] at hks
      obtain ⟨k', ks'', rfl, hk, hks''⟩ := hks
      simp only [List.map_cons]
      rw [ih k (by simp) k' hk, ih2 (fun x hx => ih x (by simp [hx])) ks'' hks'']

open TT.Lemmas.Run in
theorem WFc_skel_iff (t : Tree) : WFc (skel t) = WFc t := by
  cases t with
  | leaf n f => rw [skel_leaf]; rfl
  | node f ks =>
    have hg := goodMap_mapF (fun _ => ({} : Fields))
    have e : skel (node f ks) = node {} (ks.map skel) := skel_node f ks
    have h1 : WFc (skel (node f ks)) = WF (skel (node f ks)) := by rw [e]; rfl
    have h2 : WFc (node f ks) = WF (node f ks) := rfl
    rw [h1, h2]
    cases h : WF (node f ks) with
    | true => exact goodMap_WF hg _ h
    | false =>
      cases h' : WF (skel (node f ks)) with
      | false => rfl
      | true => rw [goodMap_WF_inv hg _ h'] at h; cases h

theorem gfRel_WFc (o : InOpts) (t t' : Tree) (h : GfRel o t t') (hw : WFc t = true) : WFc t' = true := by
  rw [← WFc_skel_iff, gfRel_skel o t t' h, WFc_skel_iff]; exact hw

theorem gfRelL_mem (o : InOpts) : ∀ (ts ts' : List Tree), GfRelL o ts ts' → ∀ t' ∈ ts', ∃ t ∈ ts, GfRel o t t'
  | [], ts', h => by rw [GfRelL] at h; subst h; simp
  | t :: ts, ts', h => by
    rw [GfRelL] at h
    obtain ⟨x', ts'', rfl, hx, hts⟩ := h
    intro t' ht'
    rcases List.mem_cons.1 ht' with rfl | ht'
    · exact ⟨t, by simp, hx⟩
    · obtain ⟨y, hy, hyy⟩ := gfRelL_mem o ts ts'' hts t' ht'
      exact ⟨y, by simp [hy], hyy⟩

/-- where splitting the default label changes nothing, the correspondence is the function `gT` (`gf_split` on every node
    that has an edge label) -/
theorem gfRel_eq_gT (o : InOpts) (ho : EmptyOK o) (he : o.emptyPos = true) (t : Tree) : ∀ t', GfRel o t t' → t' = gT o t := by
  induction t using tree_ind with
  | hl n f =>
    intro t' h
    rw [GfRel] at h
    rcases h with rfl | ⟨rfl, h1, h2⟩
    · rw [gT]
    · rw [gT]
      congr 1
      cases hg : o.gfSplit with
      | false => rw [fF_id o hg]
      | true =>
        have := ho hg he
        cases f
        simp only at h1 h2
        subst h1 h2
        simp [fF, hg, this]
  | hn f ks ih =>
    intro t' h
    rw [GfRel] at h
    obtain ⟨ks', rfl, hks⟩ := h
    rw [gT, gTL_eq]
    congr 1
    clear f
    induction ks generalizing ks' with
    | nil => rw [GfRelL] at hks; subst hks; rfl
    | cons k ks ih2 =>
      rw [GfRelL] at hks
      obtain ⟨k', ks'', rfl, hk, hks''⟩ := hks
      simp only [List.map_cons]
      rw [ih k (by simp) k' hk, ih2 (fun x hx => ih x (by simp [hx])) ks'' hks'']

theorem fF_word_eq (o : InOpts) (f : Fields) : (fF o f).word = f.word := by
  unfold fF; split <;> rfl

/-- the words are never touched: token by token, the words of corresponding trees are the same -/
theorem gfRel_words (o : InOpts) (t : Tree) : ∀ t', GfRel o t t' →
    (t'.leaves.map fun l => l.fields.word) = (t.leaves.map fun l => l.fields.word) := by
  induction t using tree_ind with
  | hl n f =>
    intro t' h
    rw [GfRel] at h
    rcases h with rfl | ⟨rfl, _, _⟩
    · simp [leaves, fields, fF_word_eq]
    · rfl
  | hn f ks ih =>
    intro t' h
    rw [GfRel] at h
    obtain ⟨ks', rfl, hks⟩ := h
    rw [leaves_node, leaves_node]
    clear f
    induction ks generalizing ks' with
    | nil => rw [GfRelL] at hks; subst hks; rfl
    | cons k ks ih2 =>
      rw [GfRelL] at hks
      obtain ⟨k', ks'', rfl, hk, hks''⟩ := hks
      simp only [List.flatMap_cons, List.map_append]
      rw [ih k (by simp) k' hk, ih2 (fun x hx => ih x (by simp [hx])) ks'' hks'']

theorem gfRelL_length (o : InOpts) : ∀ (a b : List Tree), GfRelL o a b → b.length = a.length
  | [], b, h => by rw [GfRelL] at h; subst h; rfl
  | x :: a, b, h => by
    rw [GfRelL] at h
    obtain ⟨x', b', rfl, _, hb'⟩ := h
    simp [gfRelL_length o a b' hb']

theorem gfRelL_words (o : InOpts) : ∀ (ts ts' : List Tree), GfRelL o ts ts' →
    ts'.map (fun t => t.leaves.map fun l => l.fields.word) = ts.map (fun t => t.leaves.map fun l => l.fields.word)
  | [], ts', h => by rw [GfRelL] at h; subst h; rfl
  | t :: ts, ts', h => by
    rw [GfRelL] at h
    obtain ⟨t', ts'', rfl, ht, hts⟩ := h
    simp only [List.map_cons, gfRel_words o t t' ht, gfRelL_words o ts ts'' hts]

/-! ### the reader with every option record (without the discobracket post-pass) -/

/-- `replace_parens` on a delivered tree -/
def rpT (o : InOpts) (t : Tree) : Tree := if o.replaceParens then replaceParensTree t else t

/-- MAIN: the bracket reader for EVERY option record without the discobracket post-pass - `gf_split` with any separator,
    `brackets_emptypos`, both together, `replace_parens`, `brackets_firstid`: exactly the trees of the grammar with the
    reader's label function, numbered from `firstId`; an error exactly when the grammar rejects the text -/
theorem readBrackets_specG_opts (o : InOpts) (hd : o.disco = false) (text : Str) :
    match specBracketsG (lfOf o) o.emptyPos text with
    | some ts => readBrackets o text = .ok ((List.range' (o.firstId.getD 1) ts.length).zip (ts.map (rpT o)))
    | none => ∃ e, readBrackets o text = .error e := by
  cases hr : o.replaceParens with
  | false =>
    have h := readBrackets_specG o hr hd text
    cases hs : specBracketsG (lfOf o) o.emptyPos text with
    | none => rw [hs] at h; exact h
    | some ts =>
      rw [hs] at h
      simp only at h ⊢
      rw [h]
      have : ts.map (rpT o) = ts := by
        conv => rhs; rw [← List.map_id ts]
        exact List.map_congr_left (fun t _ => by simp [rpT, hr])
      rw [this]
  | true =>
    have eo : o = { o with replaceParens := true } := by cases o; simp only at hr; subst hr; rfl
    have h := readBrackets_specG { o with replaceParens := false } rfl hd text
    have e1 : lfOf { o with replaceParens := false } = lfOf o := rfl
    have e2 : ({ o with replaceParens := false } : InOpts).emptyPos = o.emptyPos := rfl
    have e3 : ({ o with replaceParens := false } : InOpts).firstId = o.firstId := rfl
    rw [e1, e2, e3] at h
    have hrp := readBrackets_rp o hd text
    rw [← eo] at hrp
    cases hs : specBracketsG (lfOf o) o.emptyPos text with
    | none =>
      rw [hs] at h
      obtain ⟨e, he⟩ := h
      exact ⟨e, by rw [hrp, he]; rfl⟩
    | some ts =>
      rw [hs] at h
      simp only at h ⊢
      rw [hrp, h]
      simp only [Except.map]
      congr 1
      rw [zip_map_snd]
      congr 1
      exact List.map_congr_left (fun t _ => by simp [rpT, hr])

/-- the same, against the plain grammar of `TT/Spec/Formats.lean`: the reader accepts exactly the texts of the grammar, and
    its trees correspond to the trees of the grammar node by node -/
theorem readBrackets_rel (o : InOpts) (hd : o.disco = false) (text : Str) :
    match specBrackets o.emptyPos text with
    | some ts => ∃ ts', GfRelL o ts ts' ∧
        readBrackets o text = .ok ((List.range' (o.firstId.getD 1) ts.length).zip (ts'.map (rpT o)))
    | none => ∃ e, readBrackets o text = .error e := by
  have h := readBrackets_specG_opts o hd text
  have hr := specBracketsG_rel o text
  cases hs : specBrackets o.emptyPos text with
  | none =>
    rw [hs] at hr
    cases hs' : specBracketsG (lfOf o) o.emptyPos text with
    | none => rw [hs'] at h; exact h
    | some v => rw [hs'] at hr; exact hr.elim
  | some ts =>
    rw [hs] at hr
    cases hs' : specBracketsG (lfOf o) o.emptyPos text with
    | none => rw [hs'] at hr; exact hr.elim
    | some ts' =>
      rw [hs'] at hr h
      simp only at h ⊢
      have hlen : ts'.length = ts.length := gfRelL_length o _ _ hr
      exact ⟨ts', hr, by rw [h, hlen]⟩

end TT.Lemmas.More14
