/-
  Helper lemmas for C01More (layout independence of the readers):
  the export line parser as a function of its first whitespace-separated fields,
  the TIGER-XML reader under a permutation of the <nt> elements,
  whitespace tokens in the bracket automaton and the bracket lexer cut at an arbitrary position.
-/
import TT.Spec.Formats
import TT.IO.Read
import TT.Lemmas.Read
namespace TT.Lemmas.Layout
open TT TT.Spec TT.Lemmas.Read

/-! ### export: a node line is read through its fields -/

/-- `exportParseLine` as a function of the list of fields -/
def parseFs (o : InOpts) (fs : List Str) : Except Err ExpFields :=
  match fs[4]? with
  | none => .error .indexError
  | some f4 =>
    let fs := if pyIsDigit f4 then (fs.take 1 ++ [DEFAULT_LEMMA] ++ fs.drop 1) else fs
    match fs with
    | w :: le :: l :: m :: e :: p :: _ =>
      match strToNat? p with
      | none => .error .valueError
      | some pn =>
        if !((500 ≤ pn && pn < 1000) || pn == 0) then .error .valueError else
        let (l', e') := if o.gfSplit then gfSplitLabel (o.gfSeparator.getD DEFAULT_GF_SEP) l else (l, e)
        .ok { word := w, lemma := le, label := l', morph := m, edge := e', parent := pn }
    | _ => .error .valueError

theorem exportParseLine_eq (o : InOpts) (l : Str) : exportParseLine o l = parseFs o (splitWs l) := rfl

/-- export 4 layout: only the first six fields are looked at -/
theorem parseFs_take6 (o : InOpts) (fs : List Str) (h : fs[4]?.map pyIsDigit = some false) :
    parseFs o fs = parseFs o (fs.take 6) := by
  rcases fs with _ | ⟨a, _ | ⟨b, _ | ⟨c, _ | ⟨d, _ | ⟨e, _ | ⟨p, tl⟩⟩⟩⟩⟩⟩
  all_goals first
    | rfl
    | (simp at h; simp [parseFs, h])

/-- export 3 layout: only the first five fields are looked at -/
theorem parseFs_take5 (o : InOpts) (fs : List Str) (h : fs[4]?.map pyIsDigit = some true) :
    parseFs o fs = parseFs o (fs.take 5) := by
  rcases fs with _ | ⟨a, _ | ⟨b, _ | ⟨c, _ | ⟨d, _ | ⟨e, tl⟩⟩⟩⟩⟩
  all_goals first
    | rfl
    | (simp at h; simp [parseFs, h])

theorem parseFs_congr6 (o : InOpts) (fs fs' : List Str) (h : fs.take 6 = fs'.take 6)
    (h4 : fs[4]?.map pyIsDigit = some false) : parseFs o fs = parseFs o fs' := by
  have e4 : fs'[4]? = fs[4]? := by
    have := congrArg (fun l => l[4]?) h
    simpa [List.getElem?_take] using this.symm
  rw [parseFs_take6 o fs h4, parseFs_take6 o fs' (by rw [e4]; exact h4), h]

theorem parseFs_congr5 (o : InOpts) (fs fs' : List Str) (h : fs.take 5 = fs'.take 5)
    (h4 : fs[4]?.map pyIsDigit = some true) : parseFs o fs = parseFs o fs' := by
  have e4 : fs'[4]? = fs[4]? := by
    have := congrArg (fun l => l[4]?) h
    simpa [List.getElem?_take] using this.symm
  rw [parseFs_take5 o fs h4, parseFs_take5 o fs' (by rw [e4]; exact h4), h]

/-! ### export: header lines -/

theorem exportLoop_skip (o : InOpts) (hdr rest : List Str) (tc : Nat) (acc : List (Nat × Tree))
    (h : ∀ l ∈ hdr, "#BOS".toList.isPrefixOf ((l.dropWhile pyIsSpace).reverse.dropWhile pyIsSpace |>.reverse) = false) :
    exportLoop o (hdr ++ rest) none tc acc = exportLoop o rest none tc acc := by
  induction hdr with
  | nil => rfl
  | cons l hdr ih =>
    have h1 := h l (by simp)
    simp only [List.cons_append, exportLoop, h1, Bool.false_eq_true, if_false]
    exact ih (fun l' hl' => h l' (by simp [hl']))

/-! ### TIGER-XML: the order of the <nt> elements -/

theorem eraseDups_of_nodup {α} [BEq α] [LawfulBEq α] : ∀ (l : List α), l.Nodup → l.eraseDups = l
  | [], _ => rfl
  | a :: as, h => by
    have ha : a ∉ as := (List.nodup_cons.1 h).1
    have hf : as.filter (fun b => !b == a) = as := by
      apply List.filter_eq_self.2
      intro b hb
      have : b ≠ a := by rintro rfl; exact ha hb
      simpa using this
    rw [List.eraseDups_cons, hf, eraseDups_of_nodup as (List.nodup_cons.1 h).2]

/-- looking an element up by a key that occurs once does not depend on the order -/
theorem find?_perm_key {α} (f : α → Str) (i : Str) {l1 l2 : List α} (hp : l1.Perm l2) (hn : (l1.map f).Nodup) :
    l1.find? (fun x => f x == i) = l2.find? (fun x => f x == i) := by
  induction hp with
  | nil => rfl
  | cons x _ ih =>
    simp only [List.map_cons, List.nodup_cons] at hn
    simp only [List.find?_cons, ih hn.2]
  | swap x y l =>
    simp only [List.map_cons, List.nodup_cons, List.mem_cons, not_or] at hn
    simp only [List.find?_cons]
    by_cases hx : f x == i <;> by_cases hy : f y == i <;> simp [hx, hy]
    have e1 : f x = i := by simpa using hx
    have e2 : f y = i := by simpa using hy
    exact absurd (e2.trans e1.symm) hn.1.1
  | trans p1 _ ih1 ih2 =>
    exact (ih1 hn).trans (ih2 (((p1.map f).nodup_iff).1 hn))

theorem tigerBuild_congr (s s' : XSent) (ht : s'.terms = s.terms)
    (hf : ∀ i : Str, s'.nts.find? (fun x => x.id == i) = s.nts.find? (fun x => x.id == i)) :
    ∀ (fuel : Nat) (i : Str) (e : Option Str), tigerBuild s' fuel i e = tigerBuild s fuel i e := by
  intro fuel
  induction fuel with
  | zero => intro i e; rfl
  | succ fuel ih =>
    intro i e
    have hfun : (fun (e : Option Str × Str) => tigerBuild s' fuel e.2 e.1) =
        (fun (e : Option Str × Str) => tigerBuild s fuel e.2 e.1) := funext fun e => ih _ _
    simp only [tigerBuild, ht, hf, hfun]

/-- the sentence reader, given that every id is defined once, does not depend on the order of the <nt> elements -/
theorem tigerSentence_perm (o : InOpts) (s : XSent) (nts' : List XNt) (hp : nts'.Perm s.nts)
    (hid : (s.terms.map (·.id) ++ s.nts.map (·.id)).Nodup) :
    tigerSentence o { s with nts := nts' } = tigerSentence o s := by
  have hidsP : (s.terms.map (·.id) ++ nts'.map (·.id)).Perm (s.terms.map (·.id) ++ s.nts.map (·.id)) :=
    List.Perm.append_left _ (hp.map _)
  have hid' : (s.terms.map (·.id) ++ nts'.map (·.id)).Nodup := (hidsP.nodup_iff).2 hid
  have hrefsP : (nts'.flatMap fun nt => nt.edges.map (·.2)).Perm (s.nts.flatMap fun nt => nt.edges.map (·.2)) :=
    hp.flatMap_right _
  have hbuild := tigerBuild_congr s { s with nts := nts' } rfl
    (fun i => find?_perm_key (fun x : XNt => x.id) i hp ((hp.map _).nodup_iff.2 (List.nodup_append.1 hid).2.1))
  have hcont : (fun r => !(s.terms.map (·.id) ++ nts'.map (·.id)).contains r) =
      (fun r => !(s.terms.map (·.id) ++ s.nts.map (·.id)).contains r) := funext fun r => by rw [hidsP.contains_eq]
  have hcnt : (fun r => decide ((nts'.flatMap fun nt => nt.edges.map (·.2)).count r > 1)) =
      (fun r => decide ((s.nts.flatMap fun nt => nt.edges.map (·.2)).count r > 1)) := funext fun r => by rw [hrefsP.count_eq]
  have hrc : (fun i => !(nts'.flatMap fun nt => nt.edges.map (·.2)).contains i) =
      (fun i => !(s.nts.flatMap fun nt => nt.edges.map (·.2)).contains i) := funext fun r => by rw [hrefsP.contains_eq]
  have hroots : ((s.terms.map (·.id) ++ nts'.map (·.id)).eraseDups.filter fun i => !(nts'.flatMap fun nt => nt.edges.map (·.2)).contains i).Perm
      ((s.terms.map (·.id) ++ s.nts.map (·.id)).eraseDups.filter fun i => !(s.nts.flatMap fun nt => nt.edges.map (·.2)).contains i) := by
    rw [eraseDups_of_nodup _ hid, eraseDups_of_nodup _ hid', hrc]
    exact hidsP.filter _
  have hlen : (s.terms.map (·.id) ++ nts'.map (·.id)).length = (s.terms.map (·.id) ++ s.nts.map (·.id)).length := hidsP.length_eq
  unfold tigerSentence
  simp only [hcont, hcnt, hrefsP.any_eq, hlen]
  split
  · rfl
  split
  · rfl
  generalize ((s.terms.map (·.id) ++ nts'.map (·.id)).eraseDups.filter fun i => !(nts'.flatMap fun nt => nt.edges.map (·.2)).contains i) = R' at hroots
  generalize ((s.terms.map (·.id) ++ s.nts.map (·.id)).eraseDups.filter fun i => !(s.nts.flatMap fun nt => nt.edges.map (·.2)).contains i) = R at hroots
  rcases R with _ | ⟨r, _ | ⟨r2, tl⟩⟩
  · rw [hroots.eq_nil]
  · rw [hroots.eq_singleton]
    simp only [hbuild]
  · rcases R' with _ | ⟨a, _ | ⟨b, tl'⟩⟩
    · exact absurd hroots.length_eq (by simp)
    · exact absurd hroots.length_eq (by simp)
    · rfl

/-! ### brackets: whitespace tokens in the automaton -/

/-- state of the automaton after a list of tokens (no discobracket post-pass) -/
def brAfter (o : InOpts) : BrState → List (Str × LexClass) → Except Err BrState
  | st, [] => .ok st
  | st, tok :: rest =>
    match brStep o st tok with
    | .error e => .error e
    | .ok (st', none) => brAfter o st' rest
    | .ok (st', some t) => brAfter o { st' with out := (st.cnt, t) :: st'.out } rest

theorem brRun_append (o : InOpts) (pre post : List (Str × LexClass)) : ∀ (st : BrState),
    brRun o st (pre ++ post) = match brAfter o st pre with
      | .error e => .error e
      | .ok st' => brRun o st' post := by
  induction pre with
  | nil => intro st; rfl
  | cons tok pre ih =>
    intro st
    simp only [List.cons_append, brRun, brAfter]
    cases hs : brStep o st tok with
    | error e => rfl
    | ok x =>
      obtain ⟨st', r⟩ := x
      cases r with
      | none => exact ih _
      | some t => exact ih _

/-- two continuations that agree from every state reachable through `pre` -/
theorem brRun_prefix_congr (o : InOpts) (st : BrState) (pre X Y : List (Str × LexClass))
    (h : ∀ st', brAfter o st pre = .ok st' → brRun o st' X = brRun o st' Y) :
    brRun o st (pre ++ X) = brRun o st (pre ++ Y) := by
  rw [brRun_append, brRun_append]
  cases hs : brAfter o st pre with
  | error e => rfl
  | ok st' => exact h st' hs

/-- a whitespace token met in a state other than 2 can be dropped, anywhere in the stream -/
theorem brRun_ws_insert (o : InOpts) (st : BrState) (w : Str) (pre post : List (Str × LexClass))
    (h : ∀ st', brAfter o st pre = .ok st' → st'.state ≠ 2) :
    brRun o st (pre ++ (w, .ws) :: post) = brRun o st (pre ++ post) :=
  brRun_prefix_congr o st pre _ _ fun st' hs => run_ws_neutral o st' w post (h st' hs)

/-- the same for the fuelled loop: one unit of fuel less is needed without the token -/
theorem brLoop_ws_insert (o : InOpts) (hd : o.disco = false) (w : Str) (post : List (Str × LexClass)) :
    ∀ (pre : List (Str × LexClass)) (fuel : Nat) (st : BrState), pre.length ≤ fuel →
    (∀ st', brAfter o st pre = .ok st' → st'.state ≠ 2) →
    brLoop o (fuel + 1) st (pre ++ (w, .ws) :: post) = brLoop o fuel st (pre ++ post) := by
  intro pre
  induction pre with
  | nil =>
    intro fuel st _ h
    have h2 : st.state ≠ 2 := h st rfl
    simp [brLoop, step_ws_other o st w h2]
  | cons tok pre ih =>
    intro fuel st hf h
    cases fuel with
    | zero => simp at hf
    | succ fuel =>
      have hf' : pre.length ≤ fuel := by simpa using hf
      simp only [List.cons_append, brLoop, hd, Bool.false_eq_true, if_false]
      cases hs : brStep o st tok with
      | error e => rfl
      | ok x =>
        obtain ⟨st', r⟩ := x
        cases r with
        | none => exact ih fuel st' hf' (fun st'' h'' => h st'' (by simp [brAfter, hs, h'']))
        | some t => exact ih fuel _ hf' (fun st'' h'' => h st'' (by simp [brAfter, hs, h'']))

/-- the text of a whitespace token is never looked at (no discobracket post-pass) -/
theorem run_ws_text (o : InOpts) (st : BrState) (w1 w2 : Str) (rest : List (Str × LexClass)) :
    brRun o st ((w1, .ws) :: rest) = brRun o st ((w2, .ws) :: rest) := by
  have : brStep o st (w1, .ws) = brStep o st (w2, .ws) := by simp [brStep]
  simp [brRun, this]

/-- a whitespace token in front of "(" is never significant: "(" is treated alike in the states 2 and 3 -/
theorem run_ws_lrb (o : InOpts) (st : BrState) (w p : Str) (rest : List (Str × LexClass)) :
    brRun o st ((w, .ws) :: (p, .lrb) :: rest) = brRun o st ((p, .lrb) :: rest) := by
  by_cases h : st.state = 2
  · rw [brRun_none o st _ _ _ (step_ws_2 o st w h)]
    exact run_congr o _ st _ _ (by simp [brStep, h]) rfl
  · exact run_ws_neutral o st w _ h

/-- a whitespace token in front of ")" is significant only for the empty-POS reading "(label)" -/
theorem run_ws_rrb (o : InOpts) (st : BrState) (w p : Str) (rest : List (Str × LexClass))
    (h : o.emptyPos = false ∨ st.state ≠ 2) :
    brRun o st ((w, .ws) :: (p, .rrb) :: rest) = brRun o st ((p, .rrb) :: rest) := by
  by_cases h2 : st.state = 2
  · rcases h with he | h
    · rw [brRun_none o st _ _ _ (step_ws_2 o st w h2),
        brRun_err o _ _ _ _ (step_rrb_139 o { st with state := 3 } p (.inr (.inl rfl))),
        brRun_err o _ _ _ _ (step_rrb_2_noEmpty o st p h2 he)]
    · exact absurd h2 h
  · exact run_ws_neutral o st w _ h2

/-- after a parenthesis the automaton is never in state 2 -/
theorem brStep_paren_state (o : InOpts) (st st' : BrState) (tok : Str × LexClass) (r : Option Tree)
    (hc : tok.2 = .lrb ∨ tok.2 = .rrb) (h : brStep o st tok = .ok (st', r)) : st'.state ≠ 2 := by
  obtain ⟨p, c⟩ := tok
  simp only at hc
  rcases hc with rfl | rfl
  all_goals
    unfold brStep at h
    simp only at h
    repeat' split at h
  all_goals first
    | (cases h; done)
    | (simp only [Except.ok.injEq, Prod.mk.injEq] at h; obtain ⟨rfl, rfl⟩ := h; simp_all; done)

/-! ### brackets: the lexer cut at an arbitrary position -/

def flushT (tok : Str) : List (Str × LexClass) := if tok.isEmpty then [] else [(tok.reverse, LexClass.token)]
def flushW (ws : Str) : List (Str × LexClass) := if ws.isEmpty then [] else [(ws.reverse, LexClass.ws)]

/-- the lexer on a prefix of the text: the tokens emitted so far and the two buffers -/
def lexBuf : Str → Str → Str → List (Str × LexClass) × Str × Str
  | [], tok, ws => ([], tok, ws)
  | c :: cs, tok, ws =>
    if c = '(' || c = ')' then
      (flushT tok ++ flushW ws ++ [([c], if c = '(' then LexClass.lrb else LexClass.rrb)] ++ (lexBuf cs [] []).1, (lexBuf cs [] []).2)
    else if pyIsSpace c then
      (flushT tok ++ (lexBuf cs [] (c :: ws)).1, (lexBuf cs [] (c :: ws)).2)
    else
      (flushW ws ++ (lexBuf cs (c :: tok) []).1, (lexBuf cs (c :: tok) []).2)

theorem lexAux_append (a s : Str) : ∀ (tok ws : Str),
    lexAux (a ++ s) tok ws = (lexBuf a tok ws).1 ++ lexAux s (lexBuf a tok ws).2.1 (lexBuf a tok ws).2.2 := by
  induction a with
  | nil => intro tok ws; rfl
  | cons c cs ih =>
    intro tok ws
    simp only [List.cons_append, lexAux, lexBuf, flushT, flushW]
    split
    · simp [ih]
    · split
      · simp [ih]
      · simp [ih]

/-- everything the lexer has seen in `a`, the pending token or whitespace run included -/
def lexFlushed (a : Str) : List (Str × LexClass) :=
  (lexBuf a [] []).1 ++ flushT (lexBuf a [] []).2.1 ++ flushW (lexBuf a [] []).2.2

theorem lexAux_paren (d : Char) (hd : d = '(' ∨ d = ')') (rest tok ws : Str) :
    lexAux (d :: rest) tok ws = flushT tok ++ flushW ws ++ ([d], if d = '(' then LexClass.lrb else LexClass.rrb) :: bracketLex rest := by
  rcases hd with rfl | rfl <;> simp [lexAux, flushT, flushW, bracketLex]

/-- a run of whitespace goes to the whitespace buffer -/
theorem lexAux_wsrun_buf (s : Str) : ∀ (w ws : Str), (∀ c ∈ w, pyIsSpace c = true) →
    lexAux (w ++ s) [] ws = lexAux s [] (w.reverse ++ ws) := by
  intro w
  induction w with
  | nil => intro ws _; rfl
  | cons c cs ih =>
    intro ws hw
    rw [List.cons_append, lexAux_space c _ _ _ (hw c (by simp)), ih _ (fun x hx => hw x (by simp [hx]))]
    simp

theorem lexAux_wsrun_buf' (s : Str) (w tok ws : Str) (hw : ∀ c ∈ w, pyIsSpace c = true) (hne : w ≠ []) :
    lexAux (w ++ s) tok ws = flushT tok ++ lexAux s [] (w.reverse ++ ws) := by
  cases w with
  | nil => exact absurd rfl hne
  | cons c cs =>
    rw [List.cons_append, lexAux_space c _ _ _ (hw c (by simp)), lexAux_wsrun_buf s cs _ (fun x hx => hw x (by simp [hx]))]
    simp [flushT]

/-- the contents of a non-empty whitespace buffer do not matter -/
theorem run_wsbuf (o : InOpts) (s : Str) : ∀ (ws1 ws2 : Str) (st : BrState), ws1 ≠ [] → ws2 ≠ [] →
    brRun o st (lexAux s [] ws1) = brRun o st (lexAux s [] ws2) := by
  induction s with
  | nil => intro ws1 ws2 st _ _; rfl
  | cons c cs ih =>
    intro ws1 ws2 st h1 h2
    have e1 : ws1.isEmpty = false := by cases ws1 <;> simp_all
    have e2 : ws2.isEmpty = false := by cases ws2 <;> simp_all
    rcases char_cases c with rfl | rfl | hc | hc
    · simp only [lexAux_lrb, e1, e2, List.isEmpty_nil, if_true, Bool.false_eq_true, if_false, List.nil_append, List.cons_append]
      exact run_ws_text o st _ _ _
    · simp only [lexAux_rrb, e1, e2, List.isEmpty_nil, if_true, Bool.false_eq_true, if_false, List.nil_append, List.cons_append]
      exact run_ws_text o st _ _ _
    · have hc' : pyIsSpace c = true := hc
      simp only [lexAux_space c cs _ _ hc', List.isEmpty_nil, if_true, List.nil_append]
      exact ih _ _ st (by simp) (by simp)
    · simp only [lexAux_tokc c cs _ _ hc, e1, e2, Bool.false_eq_true, if_false, List.cons_append, List.nil_append]
      exact run_ws_text o st _ _ _

theorem skipWs_wsrun (w s : Str) (hw : ∀ c ∈ w, pyIsSpace c = true) : skipWs (w ++ s) = skipWs s := by
  induction w with
  | nil => rfl
  | cons c cs ih =>
    rw [List.cons_append, skipWs_cons_ws c _ (hw c (by simp))]
    exact ih (fun x hx => hw x (by simp [hx]))

/-- whitespace at the start of the remaining text, met in a state other than 2 -/
theorem run_ws_prefix (o : InOpts) (st : BrState) (hs : st.state ≠ 2) (w s : Str) (hw : ∀ c ∈ w, pyIsSpace c = true) :
    brRun o st (bracketLex (w ++ s)) = brRun o st (bracketLex s) := by
  by_cases h : skipWs s = []
  · rw [lex_of_skipWs_nil s h, lex_of_skipWs_nil (w ++ s) (by rw [skipWs_wsrun w s hw]; exact h)]
  · rw [run_skipWs o st hs (w ++ s) (by rw [skipWs_wsrun w s hw]; exact h), skipWs_wsrun w s hw, ← run_skipWs o st hs s h]

theorem readBrackets_eq_run (o : InOpts) (hd : o.disco = false) (text : Str) :
    readBrackets o text = brRun o { cnt := o.firstId.getD 1 } (bracketLex text) := by
  unfold readBrackets
  exact brLoop_eq_brRun o hd _ _ _ (by omega)

/-! ### brackets: inserting a whitespace run into the text -/

theorem flushW_cons (c : Char) (ws : Str) : flushW (c :: ws) = [((c :: ws).reverse, LexClass.ws)] := by simp [flushW]

theorem flushW_ne (ws : Str) (h : ws ≠ []) : flushW ws = [(ws.reverse, LexClass.ws)] := by
  cases ws with
  | nil => exact absurd rfl h
  | cons c cs => exact flushW_cons c cs

theorem flushT_nil : flushT [] = [] := rfl

/-- in front of a parenthesis; for ")" either empty POS tags are not read or the automaton is not in state 2 there -/
theorem run_insert_before_paren (o : InOpts) (st0 : BrState) (a w rest : Str) (d : Char) (hd : d = '(' ∨ d = ')')
    (hw : ∀ c ∈ w, pyIsSpace c = true)
    (h : d = ')' → o.emptyPos = false ∨ ∀ st', brAfter o st0 (lexFlushed a) = .ok st' → st'.state ≠ 2) :
    brRun o st0 (bracketLex (a ++ (w ++ d :: rest))) = brRun o st0 (bracketLex (a ++ d :: rest)) := by
  by_cases hne : w = []
  · subst hne; rfl
  have hwb : (w.reverse ++ (lexBuf a [] []).2.2) ≠ [] := by
    cases w with
    | nil => exact absurd rfl hne
    | cons c cs => simp
  have hL : bracketLex (a ++ (w ++ d :: rest)) = ((lexBuf a [] []).1 ++ flushT (lexBuf a [] []).2.1) ++
      ((w.reverse ++ (lexBuf a [] []).2.2).reverse, LexClass.ws) :: ([d], if d = '(' then LexClass.lrb else LexClass.rrb) :: bracketLex rest := by
    simp only [bracketLex]
    rw [lexAux_append a (w ++ d :: rest), lexAux_wsrun_buf' _ w _ _ hw hne, lexAux_paren d hd, flushW_ne _ hwb]
    simp only [flushT_nil, List.nil_append, List.append_assoc, List.cons_append]
    rfl
  have hR : bracketLex (a ++ d :: rest) = ((lexBuf a [] []).1 ++ flushT (lexBuf a [] []).2.1) ++
      (flushW (lexBuf a [] []).2.2 ++ ([d], if d = '(' then LexClass.lrb else LexClass.rrb) :: bracketLex rest) := by
    simp only [bracketLex]
    rw [lexAux_append a (d :: rest), lexAux_paren d hd]
    simp only [List.append_assoc]
    rfl
  rw [hL, hR]
  refine brRun_prefix_congr o st0 _ _ _ ?_
  intro st' hs'
  by_cases hb : (lexBuf a [] []).2.2 = []
  · -- a new whitespace token
    have hfl : lexFlushed a = (lexBuf a [] []).1 ++ flushT (lexBuf a [] []).2.1 := by simp [lexFlushed, hb, flushW]
    simp only [hb, flushW, List.isEmpty_nil, if_true, List.nil_append]
    rcases hd with rfl | rfl
    · exact run_ws_lrb o st' _ _ _
    · refine run_ws_rrb o st' _ _ _ ?_
      rcases h rfl with he | hst
      · exact .inl he
      · exact .inr (hst st' (by rw [hfl]; exact hs'))
  · -- the whitespace token already there becomes longer
    rw [flushW_ne _ hb]
    exact run_ws_text o st' _ _ _

/-- directly after a parenthesis -/
theorem run_insert_after_paren (o : InOpts) (st0 : BrState) (a w rest : Str) (d : Char) (hd : d = '(' ∨ d = ')')
    (hw : ∀ c ∈ w, pyIsSpace c = true) :
    brRun o st0 (bracketLex (a ++ d :: (w ++ rest))) = brRun o st0 (bracketLex (a ++ d :: rest)) := by
  simp only [bracketLex]
  rw [lexAux_append a (d :: (w ++ rest)), lexAux_append a (d :: rest), lexAux_paren d hd, lexAux_paren d hd]
  simp only [← List.append_assoc]
  apply brRun_prefix_congr
  intro st' _
  cases hs : brStep o st' ([d], if d = '(' then LexClass.lrb else LexClass.rrb) with
  | error e => simp [brRun, hs]
  | ok x =>
    obtain ⟨st2, r⟩ := x
    have h2 : st2.state ≠ 2 := brStep_paren_state o st' st2 _ r (by rcases hd with rfl | rfl <;> simp) hs
    cases r with
    | none =>
      rw [brRun_none o _ _ _ _ hs, brRun_none o _ _ _ _ hs]
      exact run_ws_prefix o st2 h2 w rest hw
    | some t =>
      rw [brRun_some o _ _ _ _ _ hs, brRun_some o _ _ _ _ _ hs]
      refine run_ws_prefix o _ ?_ w rest hw
      exact h2

/-- directly after a whitespace character -/
theorem run_insert_after_ws (o : InOpts) (st0 : BrState) (a w rest : Str) (c : Char) (hc : pyIsSpace c = true)
    (hw : ∀ c ∈ w, pyIsSpace c = true) :
    brRun o st0 (bracketLex (a ++ c :: (w ++ rest))) = brRun o st0 (bracketLex (a ++ c :: rest)) := by
  simp only [bracketLex]
  rw [lexAux_append a (c :: (w ++ rest)), lexAux_append a (c :: rest), lexAux_space c _ _ _ hc, lexAux_space c _ _ _ hc, lexAux_wsrun_buf _ w _ hw]
  simp only [← List.append_assoc]
  apply brRun_prefix_congr
  intro st' _
  exact run_wsbuf o rest _ _ st' (by simp) (by simp)

/-- directly in front of a whitespace character -/
theorem run_insert_before_ws (o : InOpts) (st0 : BrState) (a w rest : Str) (c : Char) (hc : pyIsSpace c = true)
    (hw : ∀ c ∈ w, pyIsSpace c = true) :
    brRun o st0 (bracketLex (a ++ (w ++ c :: rest))) = brRun o st0 (bracketLex (a ++ c :: rest)) := by
  by_cases hne : w = []
  · subst hne; rfl
  simp only [bracketLex]
  rw [lexAux_append a (w ++ c :: rest), lexAux_append a (c :: rest), lexAux_wsrun_buf' _ w _ _ hw hne, lexAux_space c _ _ _ hc, lexAux_space c _ _ _ hc]
  simp only [flushT, List.isEmpty_nil, if_true, List.nil_append, ← List.append_assoc]
  apply brRun_prefix_congr
  intro st' _
  exact run_wsbuf o rest _ _ st' (by simp) (by simp)

end TT.Lemmas.Layout
