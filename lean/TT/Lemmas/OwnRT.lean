/-
  Helper lemmas for the own round trip of the bracket format (C03): the specification grammar `spNode`/`spKids`/`spGroups`
  run on the text written by `bracketsSub {}` (no decoration options).  Analogue of `TT.Lemmas.Write.decOK` for `spNode`,
  which also skips whitespace and assigns the reader's default fields.
-/
import TT.Props.C01
import TT.Props.C02
import TT.Lemmas.Write
import TT.Props.C20
namespace TT.Lemmas.OwnRT
open TT TT.Tree TT.Spec
open TT.Lemmas.Read TT.Lemmas.Write TT.Lemmas.WF

/-- a non-empty run of token characters -/
def TokStr (l : Str) : Prop := l ≠ [] ∧ ∀ c ∈ l, isTokC c = true

theorem skipWs_tok (l rest : Str) (hl : TokStr l) : skipWs (l ++ rest) = l ++ rest := by
  obtain ⟨c, l', rfl⟩ : ∃ c l', l = c :: l' := by
    cases l with
    | nil => exact absurd rfl hl.1
    | cons c l' => exact ⟨c, l', rfl⟩
  exact skipWs_cons_not c _ (isTokC_not_ws c (hl.2 c (by simp)))

theorem takeWhile_tok (l rest : Str) (d : Char) (hl : TokStr l) (hd : isTokC d = false) :
    (l ++ d :: rest).takeWhile isTokC = l :=
  takeWhile_append_stop _ _ _ _ hl.2 hd

theorem spNode_leaf (root : Bool) (fuel : Nat) (l w rest : Str) (cnt : Nat) (hl : TokStr l) (hw : TokStr w) :
    spNode false root (fuel + 1) ('(' :: (l ++ ' ' :: (w ++ ')' :: rest))) cnt =
      some (leaf cnt { label := l, word := some w, edge := some DEFAULT_EDGE, morph := some DEFAULT_MORPH }, rest, cnt + 1) := by
  obtain ⟨c, w', rfl⟩ : ∃ c w', w = c :: w' := by
    cases w with
    | nil => exact absurd rfl hw.1
    | cons c w' => exact ⟨c, w', rfl⟩
  have hc : isTokC c = true := hw.2 c (by simp)
  have hcl : c ≠ '(' := ((isTokC_iff c).1 hc).2.1
  have hlne : l.isEmpty = false := by simpa using hl.1
  rw [spNode]
  simp only [skipWs_tok l _ hl, takeWhile_tok l _ ' ' hl (by decide), List.drop_left', hlne]
  have h3 : skipWs (' ' :: ((c :: w') ++ ')' :: rest)) = (c :: w') ++ ')' :: rest := by
    rw [skipWs_cons_ws _ _ (by decide)]
    exact skipWs_tok _ _ hw
  simp only [h3]
  have h4 : (w' ++ ')' :: rest).takeWhile isTokC = w' :=
    takeWhile_append_stop _ _ _ _ (fun x hx => hw.2 x (by simp [hx])) (by decide)
  simp [hc, h4, skipWs_cons_not ')' rest (by decide)]

theorem spNode_node (root : Bool) (fuel : Nat) (l r2 : Str) (cnt : Nat) (hl : TokStr l) (ks : List Tree) (r' : Str) (cnt' : Nat)
    (hne : ks ≠ []) (h : spKids false fuel ('(' :: r2) cnt [] = some (ks, r', cnt')) :
    spNode false root (fuel + 1) ('(' :: (l ++ '(' :: r2)) cnt =
      some (node { label := l, edge := some DEFAULT_EDGE, morph := some DEFAULT_MORPH } ks, r', cnt') := by
  have hlne : l.isEmpty = false := by simpa using hl.1
  have hkne : ks.isEmpty = false := by simpa using hne
  rw [spNode]
  simp only [skipWs_tok l _ hl, takeWhile_tok l _ '(' hl (by decide), List.drop_left', hlne]
  simp [skipWs_cons_not '(' r2 (by decide), h, hkne]

theorem spKids_close (fuel : Nat) (r : Str) (cnt : Nat) (acc : List Tree) :
    spKids false (fuel + 1) (')' :: r) cnt acc = some (acc.reverse, r, cnt) := by
  rw [spKids]
  simp [skipWs_cons_not ')' r (by decide)]

theorem spKids_open (fuel : Nat) (r : Str) (cnt : Nat) (acc : List Tree) (k : Tree) (r' : Str) (cnt' : Nat)
    (h : spNode false false fuel ('(' :: r) cnt = some (k, r', cnt')) :
    spKids false (fuel + 1) ('(' :: r) cnt acc = spKids false fuel r' cnt' (k :: acc) := by
  rw [spKids]
  simp [skipWs_cons_not '(' r (by decide), h]


/-! ### the writer without options -/

theorem bracketsSub_leaf_plain (er : Bool) (n : Nat) (f : Fields) :
    bracketsSub {} er (leaf n f) =
      .ok ('(' :: (replaceParens f.label ++ ' ' :: (((f.word.map replaceParens).getD ['N', 'o', 'n', 'e']) ++ [')']))) := by
  rw [bracketsSub, TT.Props.C20.getLabel_plain]
  simp [replaceParensFields, Tree.fields, none_eq]

theorem mapFieldsL_eq (g : Tree → Fields → Fields) : ∀ ks : List Tree, mapFieldsL g ks = ks.map (mapFields g)
  | [] => rfl
  | t :: ts => by simp [mapFieldsL, mapFieldsL_eq g ts]

theorem asRead_leaf (n : Nat) (f : Fields) : asReadBrackets (leaf n f) =
    leaf n { label := f.label, word := f.word, edge := some DEFAULT_EDGE, morph := some DEFAULT_MORPH } := by
  simp [asReadBrackets, mapFields]

theorem asRead_node (f : Fields) (ks : List Tree) : asReadBrackets (node f ks) =
    node { label := f.label, edge := some DEFAULT_EDGE, morph := some DEFAULT_MORPH } (ks.map asReadBrackets) := by
  simp only [asReadBrackets, mapFields, mapFieldsL_eq]
  rfl

theorem leafNums_asRead (x : Tree) : (asReadBrackets x).leafNums = x.leafNums := by
  induction x using tree_ind with
  | hl n f => rw [asRead_leaf, leafNums_leaf, leafNums_leaf]
  | hn f ks ih =>
    rw [asRead_node, leafNums_node, leafNums_node, List.flatMap_map]
    exact flatMap_congr' _ _ ks ih

theorem leftmost_sortKids_asRead (k : Tree) : leftmost (sortKids (asReadBrackets k)) = leftmost k := by
  apply leftmost_of_perm
  have := leafNums_sortKids (asReadBrackets k)
  rwa [leafNums_asRead] at this

/-- what `BracketsOK` and the plain-token hypothesis say about one node -/
def PlainOK : Tree → Prop
  | leaf _ f => TokStr f.label ∧ replaceParens f.label = f.label ∧ ∃ w, f.word = some w ∧ TokStr w ∧ replaceParens w = w
  | node f _ => TokStr f.label

/-- parsing the text of `x` (followed by anything) with the specification grammar gives `x` back with the reader's
    default fields, numbering tokens from `leftmost x` -/
def SpOK (x : Tree) : Prop :=
  ∀ s, bracketsSub {} false x = .ok s → (∃ s', s = '(' :: s') ∧ ∀ (root : Bool) (fuel : Nat), s.length ≤ fuel → ∀ rest, ∃ d,
    spNode false root fuel (s ++ rest) (leftmost x) = some (d, rest, leftmost x + x.leafNums.length) ∧
    sortKids d = sortKids (asReadBrackets x)

theorem spOK_leaf (n : Nat) (f : Fields) (h : PlainOK (leaf n f)) : SpOK (leaf n f) := by
  intro s hs
  obtain ⟨hl, hrl, w, hw, hwt, hrw⟩ := h
  rw [bracketsSub_leaf_plain, hrl, hw] at hs
  simp only [Option.map_some, Option.getD_some, hrw] at hs
  cases hs
  refine ⟨⟨_, rfl⟩, ?_⟩
  intro root fuel hf rest
  obtain ⟨g, rfl⟩ : ∃ g, fuel = g + 1 := ⟨fuel - 1, by simp at hf; omega⟩
  refine ⟨leaf n { label := f.label, word := some w, edge := some DEFAULT_EDGE, morph := some DEFAULT_MORPH }, ?_, ?_⟩
  · rw [leftmost_leaf, leafNums_leaf]
    have := spNode_leaf root g f.label w rest n hl hwt
    simpa using this
  · rw [asRead_leaf, hw]


theorem strOf_ok' (k : Tree) (s : Str) (h : bracketsSub {} false k = .ok s) : strOf {} k = s := strOf_ok {} k s h

theorem spKidsRun : ∀ (L : List Tree) (cnt : Nat) (acc : List Tree) (fuel : Nat) (rest : Str),
    (∀ k ∈ L, SpOK k ∧ ∃ s, bracketsSub {} false k = .ok s) → Tight cnt L →
    ((L.map (strOf {})).flatten).length + 1 ≤ fuel →
    ∃ ds, spKids false fuel ((L.map (strOf {})).flatten ++ ')' :: rest) cnt acc =
        some (acc.reverse ++ ds, rest, cnt + (L.flatMap leafNums).length) ∧
      ds.map sortKids = L.map (fun k => sortKids (asReadBrackets k)) ∧ ds.length = L.length
  | [], cnt, acc, fuel, rest, _, _, hf => by
    obtain ⟨g, rfl⟩ : ∃ g, fuel = g + 1 := ⟨fuel - 1, by omega⟩
    exact ⟨[], by simp [spKids_close], rfl, rfl⟩
  | k :: L, cnt, acc, fuel, rest, hk, ht, hf => by
    obtain ⟨hdk, s, hs⟩ := hk k (by simp)
    obtain ⟨⟨s', hs'⟩, hdec⟩ := hdk s hs
    obtain ⟨h1, h2⟩ := ht
    obtain ⟨g, rfl⟩ : ∃ g, fuel = g + 1 := ⟨fuel - 1, by omega⟩
    simp only [List.map_cons, List.flatten_cons, List.length_append, strOf_ok {} k s hs] at hf ⊢
    have hslen : 0 < s.length := by rw [hs']; simp
    obtain ⟨d, hd, hsd⟩ := hdec false g (by omega) ((L.map (strOf {})).flatten ++ ')' :: rest)
    rw [h1] at hd
    obtain ⟨ds, hds, hsds, hlen⟩ := spKidsRun L (cnt + k.leafNums.length) (d :: acc) g rest
      (fun k' hk' => hk k' (by simp [hk'])) h2 (by omega)
    refine ⟨d :: ds, ?_, by simp [hsd, hsds], by simp [hlen]⟩
    have e : s ++ (L.map (strOf {})).flatten ++ ')' :: rest = '(' :: (s' ++ ((L.map (strOf {})).flatten ++ ')' :: rest)) := by
      rw [hs']; simp
    rw [e, spKids_open g _ cnt acc d _ _ (by rw [← List.cons_append, ← hs']; exact hd), hds]
    simp [Nat.add_assoc]

theorem spNode_node' (root : Bool) (fuel : Nat) (l r : Str) (cnt : Nat) (hl : TokStr l) (ks : List Tree) (r' : Str) (cnt' : Nat)
    (hne : ks ≠ []) (hr : ∃ r2, r = '(' :: r2) (h : spKids false fuel r cnt [] = some (ks, r', cnt')) :
    spNode false root (fuel + 1) ('(' :: (l ++ r)) cnt =
      some (node { label := l, edge := some DEFAULT_EDGE, morph := some DEFAULT_MORPH } ks, r', cnt') := by
  obtain ⟨r2, rfl⟩ := hr
  exact spNode_node root fuel l r2 cnt hl ks r' cnt' hne h

theorem spOK_node (f : Fields) (ks : List Tree) (ih : ∀ k ∈ ks, SpOK k)
    (hne : ks ≠ []) (hkne : ∀ k ∈ ks, k.leafNums ≠ []) (hcx : Cont (node f ks)) (hck : ∀ k ∈ ks, Cont k)
    (hlab : PlainOK (node f ks)) : SpOK (node f ks) := by
  intro s hs
  obtain ⟨l, parts, hl, hp, rfl⟩ := bracketsSub_node_ok {} f ks s hne hs
  obtain ⟨hparts, hsub⟩ := bracketsKids_ok {} ks parts hp
  refine ⟨⟨_, rfl⟩, ?_⟩
  intro root fuel hf rest
  rw [TT.Props.C20.getLabel_plain] at hl
  cases hl
  have hgl : TokStr f.label := hlab
  have hT : ((sortBy (·.1) parts).map (·.2)).flatten = (((sortBy leftmost ks).map (strOf {})).flatten) := by
    rw [hparts, sortBy_map_keyed]
  rw [hT] at hf ⊢
  have hmem : ∀ k, k ∈ sortBy leftmost ks ↔ k ∈ ks := fun k => mem_sortBy leftmost ks k
  have hperm : ((sortBy leftmost ks).flatMap leafNums).Perm (node f ks).leafNums := by
    rw [leafNums_node]; exact List.Perm.flatMap_right _ (sortBy_perm leftmost ks)
  have htight : Tight (leftmost (node f ks)) (sortBy leftmost ks) := by
    refine tight_of_perm _ _ (sortBy_sorted leftmost ks) (fun k hk => ⟨hck k ((hmem k).1 hk), hkne k ((hmem k).1 hk)⟩) ?_
    rw [hperm.length_eq, ← hcx]
    exact hperm.trans (yield_perm _).symm
  obtain ⟨g, rfl⟩ : ∃ g, fuel = g + 1 := ⟨fuel - 1, by simp at hf; omega⟩
  obtain ⟨ds, hds, hsds, hlen⟩ := spKidsRun (sortBy leftmost ks) (leftmost (node f ks)) [] g rest
    (fun k hk => ⟨ih k ((hmem k).1 hk), hsub k ((hmem k).1 hk)⟩) htight
    (by simp only [List.length_cons, List.length_append, List.length_nil] at hf; omega)
  simp only [List.reverse_nil, List.nil_append] at hds
  have hdne : ds ≠ [] := by
    intro e
    rw [e, sortBy_length] at hlen
    exact hne (List.eq_nil_of_length_eq_zero hlen.symm)
  have hstart : ∃ r2, ((sortBy leftmost ks).map (strOf {})).flatten ++ ')' :: rest = '(' :: r2 := by
    cases hL : sortBy leftmost ks with
    | nil =>
      have := sortBy_length leftmost ks
      rw [hL] at this
      exact absurd (List.eq_nil_of_length_eq_zero this.symm) hne
    | cons k0 L0 =>
      have hk0 : k0 ∈ ks := (hmem k0).1 (by rw [hL]; simp)
      obtain ⟨s0, hs0⟩ := hsub k0 hk0
      obtain ⟨⟨s0', hs0'⟩, _⟩ := ih k0 hk0 s0 hs0
      exact ⟨s0' ++ ((L0.map (strOf {})).flatten ++ ')' :: rest), by simp [strOf_ok {} k0 s0 hs0, hs0']⟩
  refine ⟨node { label := f.label, edge := some DEFAULT_EDGE, morph := some DEFAULT_MORPH } ds, ?_, ?_⟩
  · have e : '(' :: ((node f ks).fields.label ++ (((sortBy leftmost ks).map (strOf {})).flatten ++ [')'])) ++ rest =
        '(' :: (f.label ++ (((sortBy leftmost ks).map (strOf {})).flatten ++ ')' :: rest)) := by simp [Tree.fields]
    rw [e, spNode_node' root g f.label _ _ hgl ds rest _ hdne hstart hds, hperm.length_eq]
  · have hkey : ∀ a : Tree, leftmost ((fun k => sortKids (asReadBrackets k)) a) = leftmost a :=
      fun a => leftmost_sortKids_asRead a
    rw [sortKids, sortKidsL_eq, hsds, sortBy_map leftmost leftmost _ hkey,
      sortBy_of_sorted leftmost _ (sortBy_sorted leftmost ks)]
    rw [asRead_node, sortKids, sortKidsL_eq, List.map_map]
    rw [show (sortKids ∘ asReadBrackets) = (fun k => sortKids (asReadBrackets k)) from rfl,
      sortBy_map leftmost leftmost _ hkey]

/-- hereditary hypotheses of the own round trip -/
theorem spOK (x : Tree) : x.noEmpty = true → x.leafNums.Nodup →
    (∀ y ∈ subtrees x, gapDegreeNode y = 0) → (∀ y ∈ subtrees x, PlainOK y) → SpOK x := by
  induction x using tree_ind with
  | hl n f => intro _ _ _ hlab; exact spOK_leaf n f (hlab _ (self_mem_subtrees _))
  | hn f ks ih =>
    intro hne hnd hgap hlab
    obtain ⟨hks, hkne⟩ := (noEmpty_node_iff f ks).1 hne
    have hsubk : ∀ k ∈ ks, ∀ y ∈ subtrees k, y ∈ subtrees (node f ks) :=
      fun k hk y hy => (mem_subtrees_node f ks y).2 (Or.inr ⟨k, hk, hy⟩)
    have hndk : ∀ k ∈ ks, k.leafNums.Nodup := fun k hk => (leafNums_sublist_of_mem f ks k hk).nodup hnd
    refine spOK_node f ks ?_ hks (fun k hk => noEmpty_leafNums_ne_nil k (hkne k hk)) ?_ ?_ (hlab _ (self_mem_subtrees _))
    · intro k hk
      exact ih k hk (hkne k hk) (hndk k hk) (fun y hy => hgap y (hsubk k hk y hy)) (fun y hy => hlab y (hsubk k hk y hy))
    · exact cont_of_gap _ hnd (hgap _ (self_mem_subtrees _))
    · intro k hk
      exact cont_of_gap _ (hndk k hk) (hgap k (hsubk k hk k (self_mem_subtrees k)))


/-! ### from `BracketsOK` to the node-local conditions -/

theorem tokStr_of_fieldOK (l : Str) (h1 : fieldOK l = true) (h2 : l.all (fun c => c != '(' && c != ')') = true) : TokStr l := by
  unfold fieldOK at h1
  simp only [Bool.and_eq_true, Bool.not_eq_true', List.all_eq_true] at h1 h2
  refine ⟨by intro e; simp [e] at h1, ?_⟩
  intro c hc
  have a := h1.2 c hc
  have b := h2 c hc
  rw [isTokC_iff]
  simp at a b
  exact ⟨a, b.1, b.2⟩

theorem plainOK_of (t : Tree) (hok : BracketsOK t = true)
    (hp : ∀ x ∈ t.subtrees, replaceParens x.fields.label = x.fields.label ∧ (x.fields.word.map replaceParens) = x.fields.word) :
    ∀ y ∈ subtrees t, PlainOK y := by
  intro y hy
  unfold BracketsOK at hok
  rw [List.all_eq_true] at hok
  have h := hok y hy
  have hpy := hp y hy
  simp only [Bool.and_eq_true, Bool.or_eq_true, Bool.not_eq_true'] at h
  obtain ⟨⟨h1, h2⟩, h3⟩ := h
  cases y with
  | node f ks => exact tokStr_of_fieldOK _ h1 h2
  | leaf n f =>
    simp only [Tree.isLeaf, Tree.fields] at h3 h1 h2 hpy
    rcases h3 with h3 | h3
    · cases h3
    · cases hw : f.word with
      | none => rw [hw] at h3; cases h3
      | some w =>
        rw [hw] at h3
        simp only [Bool.and_eq_true] at h3
        refine ⟨tokStr_of_fieldOK _ h1 h2, hpy.1, w, hw, tokStr_of_fieldOK _ h3.1 h3.2, ?_⟩
        have := hpy.2
        rw [hw] at this
        simpa using this

/-! ### one line of a file -/

theorem spGroups_skip_nl (fuel : Nat) (rest : Str) (acc : List Tree) :
    spGroups false (fuel + 1) ('\n' :: rest) acc = spGroups false fuel rest acc := by
  rw [spGroups]
  all_goals simp

theorem spGroups_line (fuel : Nat) (s rest : Str) (acc : List Tree) (c : Nat) (P : Tree → Prop)
    (hs : ∃ s', s = '(' :: s')
    (h : ∀ (root : Bool) (fuel' : Nat), s.length ≤ fuel' → ∀ rest', ∃ d, spNode false root fuel' (s ++ rest') 1 = some (d, rest', c) ∧ P d) :
    ∃ d, spGroups false (fuel + 2) (s ++ '\n' :: rest) acc = spGroups false fuel rest (d :: acc) ∧ P d := by
  obtain ⟨s', rfl⟩ := hs
  obtain ⟨d, h1, hP⟩ := h true (2 * (s' ++ '\n' :: rest).length + 4) (by simp; omega) ('\n' :: rest)
  refine ⟨d, ?_, hP⟩
  rw [List.cons_append, spGroups]
  rw [List.cons_append] at h1
  simp only [h1]
  exact spGroups_skip_nl fuel rest (d :: acc)

theorem spGroups_nil (fuel : Nat) (acc : List Tree) : spGroups false (fuel + 1) [] acc = some acc.reverse := by
  rw [spGroups]
  simp


/-! ### the writer's text under the specification grammar -/

/-- the hypotheses of the own round trip for one tree and its text -/
def Good (t : Tree) (s : Str) : Prop :=
  WF t = true ∧ gapDegree t = 0 ∧ BracketsOK t = true ∧
  (∀ x ∈ t.subtrees, replaceParens x.fields.label = x.fields.label ∧ (x.fields.word.map replaceParens) = x.fields.word) ∧
  bracketsSub {} false t = .ok s

theorem spNode_write (t : Tree) (s : Str) (hg : Good t s) :
    (∃ s', s = '(' :: s') ∧ ∀ (root : Bool) (fuel : Nat), s.length ≤ fuel → ∀ rest, ∃ d,
      spNode false root fuel (s ++ rest) 1 = some (d, rest, 1 + t.leafNums.length) ∧ sameTree d (asReadBrackets t) = true := by
  obtain ⟨hwf, hc, hok, hp, h⟩ := hg
  have hsp := spOK t (WF_noEmpty t hwf) (WF_nodup t hwf) (TT.Props.C02.gapDegreeNode_zero_of_gapDegree t hc)
    (plainOK_of t hok hp)
  obtain ⟨hs', hsp⟩ := hsp s h
  refine ⟨hs', ?_⟩
  intro root fuel hf rest
  obtain ⟨d, hd, hsd⟩ := hsp root fuel hf rest
  rw [TT.Props.C02.leftmost_of_WF t hwf] at hd
  refine ⟨d, hd, ?_⟩
  unfold sameTree; rw [hsd]; exact Write.beq_refl _

theorem spGroups_file : ∀ (ts : List Tree) (lines : List Str) (acc : List Tree) (fuel : Nat),
    lines.length = ts.length →
    (∀ i, i < ts.length → ∃ t s, ts[i]? = some t ∧ lines[i]? = some s ∧ Good t s) → 2 * ts.length + 1 ≤ fuel →
    ∃ rs, spGroups false fuel ((lines.map (· ++ ['\n'])).flatten) acc = some (acc.reverse ++ rs) ∧ rs.length = ts.length ∧
      ∀ i, i < ts.length → ∃ t r, ts[i]? = some t ∧ rs[i]? = some r ∧ sameTree r (asReadBrackets t) = true
  | [], lines, acc, fuel, hl, _, hf => by
    have : lines = [] := List.eq_nil_of_length_eq_zero hl
    subst this
    obtain ⟨g, rfl⟩ : ∃ g, fuel = g + 1 := ⟨fuel - 1, by omega⟩
    exact ⟨[], by simp [spGroups_nil], rfl, by simp⟩
  | t :: ts, [], acc, fuel, hl, _, _ => by simp at hl
  | t :: ts, s :: lines, acc, fuel, hl, h, hf => by
    obtain ⟨g, rfl⟩ : ∃ g, fuel = g + 2 := ⟨fuel - 2, by simp at hf; omega⟩
    have h0 : Good t s := by
      obtain ⟨t', s', ht, hs, hg⟩ := h 0 (by simp)
      simp at ht hs; subst ht; subst hs; exact hg
    obtain ⟨hs', hsp⟩ := spNode_write t s h0
    obtain ⟨d, hd, hsd⟩ := spGroups_line g s ((lines.map (· ++ ['\n'])).flatten) acc _ _ hs' hsp
    obtain ⟨rs, hrs, hlen, hall⟩ := spGroups_file ts lines (d :: acc) g (by simpa using hl)
      (fun i hi => by
        obtain ⟨t', s', ht, hs, hg⟩ := h (i + 1) (by simp; omega)
        exact ⟨t', s', by simpa using ht, by simpa using hs, hg⟩)
      (by simp at hf; omega)
    refine ⟨d :: rs, ?_, by simp [hlen], ?_⟩
    · simp only [List.map_cons, List.flatten_cons, List.append_assoc, List.cons_append, List.nil_append]
      rw [hd, hrs]; simp
    · intro i hi
      cases i with
      | zero => exact ⟨t, d, by simp, by simp, hsd⟩
      | succ i =>
        obtain ⟨t', r, ht, hr, hst⟩ := hall i (by simp at hi; omega)
        exact ⟨t', r, by simpa using ht, by simpa using hr, hst⟩

theorem length_le_flatten_lines : ∀ lines : List Str, lines.length ≤ ((lines.map (· ++ ['\n'])).flatten).length
  | [] => by simp
  | s :: lines => by
    have := length_le_flatten_lines lines
    simp only [List.map_cons, List.flatten_cons, List.length_append, List.length_cons, List.length_nil]
    omega

end TT.Lemmas.OwnRT
