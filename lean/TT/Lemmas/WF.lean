/-
  Well-formedness library: facts about `leafNums`, `yield`, `leftmost`, `rightmost`, `noEmpty`,
  `sibDistinct`, `WF` shared by the transformation proofs.  Core only (no Mathlib).
-/
import TT.Spec.Nav
import TT.Transform.Util
import TT.Lemmas.Sort
import TT.Lemmas.Nav
namespace TT.Lemmas.WF
open TT TT.Tree TT.Spec

/-! ### an induction principle for the nested inductive `Tree` -/

mutual
theorem tree_ind {P : Tree → Prop} (hl : ∀ n f, P (leaf n f))
    (hn : ∀ f ks, (∀ k ∈ ks, P k) → P (node f ks)) : (t : Tree) → P t
  | .leaf n f => hl n f
  | .node f ks => hn f ks (tree_indL hl hn ks)
theorem tree_indL {P : Tree → Prop} (hl : ∀ n f, P (leaf n f))
    (hn : ∀ f ks, (∀ k ∈ ks, P k) → P (node f ks)) : (ks : List Tree) → ∀ k ∈ ks, P k
  | [] => by simp
  | t :: ts => by
    intro k hk
    rcases List.mem_cons.1 hk with h | hk
    · exact h ▸ tree_ind hl hn t
    · exact tree_indL hl hn ts k hk
end

/-! ### nodupB -/

theorem nodupB_iff (l : List Nat) : nodupB l = true ↔ l.Nodup := by
  induction l with
  | nil => simp [nodupB]
  | cons a r ih => simp [nodupB, ih]

/-! ### leaves / leafNums -/

theorem leavesL_eq : ∀ ks : List Tree, leavesL ks = ks.flatMap leaves
  | [] => by simp [leavesL]
  | t :: ts => by simp [leavesL, leavesL_eq ts]

theorem leaves_node (f : Fields) (ks : List Tree) : (node f ks).leaves = ks.flatMap leaves := by
  simp only [leaves, leavesL_eq]

theorem leafNums_node (f : Fields) (ks : List Tree) : (node f ks).leafNums = ks.flatMap leafNums := by
  simp only [leafNums, leaves_node, List.map_flatMap]
  rfl

theorem leafNums_leaf (n : Nat) (f : Fields) : (leaf n f).leafNums = [n] := by
  simp [leafNums, leaves, num]

theorem leafNums_sublist_of_mem (f : Fields) (ks : List Tree) (k : Tree) (hk : k ∈ ks) :
    k.leafNums.Sublist (node f ks).leafNums := by
  rw [leafNums_node, List.flatMap]
  exact List.sublist_flatten_of_mem (List.mem_map_of_mem hk)

/-! ### yield -/

theorem yield_perm (t : Tree) : (yield t).Perm t.leafNums := by
  rw [Nav.yield_eq]; exact sortBy_perm id _

theorem yield_sorted (t : Tree) : (yield t).Pairwise (· ≤ ·) := by
  rw [Nav.yield_eq]; exact sortBy_sorted id _

theorem yield_ne_nil (t : Tree) (h : t.leafNums ≠ []) : yield t ≠ [] := by
  intro h'
  have := (yield_perm t).length_eq
  rw [h'] at this
  exact h (List.eq_nil_of_length_eq_zero this.symm)

theorem mem_yield (t : Tree) (n : Nat) : n ∈ yield t ↔ n ∈ t.leafNums := (yield_perm t).mem_iff

/-! ### leftmost / rightmost -/

theorem leftmost_mem (t : Tree) (h : t.leafNums ≠ []) : leftmost t ∈ t.leafNums := by
  have hy := yield_ne_nil t h
  rw [← mem_yield]
  unfold leftmost
  cases hc : yield t with
  | nil => exact absurd hc hy
  | cons a r => simp

theorem leftmost_le (t : Tree) (n : Nat) (h : n ∈ t.leafNums) : leftmost t ≤ n := by
  rw [← mem_yield] at h
  have hs := yield_sorted t
  unfold leftmost
  cases hc : yield t with
  | nil => rw [hc] at h; simp at h
  | cons a r =>
    rw [hc] at h hs
    simp only [List.head?_cons, Option.getD_some]
    rcases List.mem_cons.1 h with rfl | h
    · exact Nat.le_refl _
    · exact (List.pairwise_cons.1 hs).1 n h

theorem le_getLast_of_sorted (l : List Nat) (hs : l.Pairwise (· ≤ ·)) (hne : l ≠ []) (n : Nat)
    (h : n ∈ l) : n ≤ l.getLast hne := by
  have hd := List.dropLast_concat_getLast hne
  rw [← hd, List.pairwise_append] at hs
  rw [← hd] at h
  rcases List.mem_append.1 h with h | h
  · exact hs.2.2 n h _ (List.mem_singleton.2 rfl)
  · rw [List.mem_singleton.1 h]; exact Nat.le_refl _

theorem rightmost_eq (t : Tree) (h : yield t ≠ []) : rightmost t = (yield t).getLast h := by
  unfold rightmost
  rw [List.getLast?_eq_some_getLast h]; rfl

theorem rightmost_mem (t : Tree) (h : t.leafNums ≠ []) : rightmost t ∈ t.leafNums := by
  have hy := yield_ne_nil t h
  rw [← mem_yield, rightmost_eq t hy]
  exact List.getLast_mem hy

theorem le_rightmost (t : Tree) (n : Nat) (h : n ∈ t.leafNums) : n ≤ rightmost t := by
  rw [← mem_yield] at h
  have hy : yield t ≠ [] := List.ne_nil_of_mem h
  rw [rightmost_eq t hy]
  exact le_getLast_of_sorted _ (yield_sorted t) hy n h

theorem leftmost_eq_minLeaf (t : Tree) (_h : t.leafNums ≠ []) : leftmost t = minLeaf t :=
  Nav.leftmost_eq_minLeaf t

/-! ### noEmpty -/

theorem noEmptyL_iff : ∀ ks : List Tree, noEmptyL ks = true ↔ ∀ k ∈ ks, k.noEmpty = true
  | [] => by simp [noEmptyL]
  | t :: ts => by simp [noEmptyL, noEmptyL_iff ts]

theorem noEmpty_node (f : Fields) (ks : List Tree) :
    (node f ks).noEmpty = true ↔ ks ≠ [] ∧ ∀ k ∈ ks, k.noEmpty = true := by
  simp [noEmpty, noEmptyL_iff]

theorem noEmpty_of_mem_kids (f : Fields) (ks : List Tree) (k : Tree) (h : (node f ks).noEmpty = true)
    (hk : k ∈ ks) : k.noEmpty = true :=
  ((noEmpty_node f ks).1 h).2 k hk

theorem noEmpty_leafNums_ne_nil (t : Tree) (h : t.noEmpty = true) : t.leafNums ≠ [] := by
  induction t using tree_ind with
  | hl n f => simp [leafNums_leaf]
  | hn f ks ih =>
    obtain ⟨hne, hk⟩ := (noEmpty_node f ks).1 h
    cases ks with
    | nil => exact absurd rfl hne
    | cons k ks =>
      have := ih k List.mem_cons_self (hk k List.mem_cons_self)
      rw [leafNums_node]
      simp [this]

/-! ### sibDistinct -/

theorem mem_subtrees_node (f : Fields) (ks : List Tree) (s : Tree) :
    s ∈ subtrees (node f ks) ↔ s = node f ks ∨ ∃ k ∈ ks, s ∈ subtrees k := by
  simp [subtrees, Nav.subtreesL_eq]

theorem self_mem_subtrees (t : Tree) : t ∈ subtrees t := by
  cases t <;> simp [subtrees]

/-- children with non-empty, pairwise disjoint, duplicate-free token sets have distinct leftmost tokens -/
theorem map_leftmost_nodup : ∀ ks : List Tree, (∀ k ∈ ks, k.leafNums ≠ []) →
    (ks.flatMap leafNums).Nodup → (ks.map leftmost).Nodup
  | [], _, _ => by simp
  | k :: ks, hne, hn => by
    simp only [List.flatMap_cons, List.nodup_append] at hn
    obtain ⟨_, hn2, hdis⟩ := hn
    simp only [List.map_cons, List.nodup_cons]
    refine ⟨?_, map_leftmost_nodup ks (fun k' hk' => hne k' (List.mem_cons_of_mem _ hk')) hn2⟩
    intro hmem
    obtain ⟨k', hk', heq⟩ := List.mem_map.1 hmem
    have h1 := leftmost_mem k (hne k List.mem_cons_self)
    have h2 := leftmost_mem k' (hne k' (List.mem_cons_of_mem _ hk'))
    have h3 : leftmost k' ∈ ks.flatMap leafNums := List.mem_flatMap.2 ⟨k', hk', h2⟩
    exact hdis _ h1 _ h3 heq.symm

theorem sibDistinct_iff (t : Tree) : sibDistinct t = true ↔
    ∀ s ∈ subtrees t, ∀ f ks, s = node f ks → (ks.map leftmost).Nodup := by
  simp only [sibDistinct, List.all_eq_true]
  constructor
  · intro h s hs f ks heq
    have := h s hs
    subst heq
    exact (nodupB_iff _).1 this
  · intro h s hs
    cases s with
    | leaf n f => rfl
    | node f ks => exact (nodupB_iff _).2 (h _ hs f ks rfl)

/-- siblings of a tree with pairwise distinct token numbers and no childless constituent have
    distinct leftmost tokens -/
theorem sibDistinct_of_nodup (t : Tree) (hne : t.noEmpty = true) (hn : t.leafNums.Nodup) :
    sibDistinct t = true := by
  rw [sibDistinct_iff]
  induction t using tree_ind with
  | hl n f =>
    intro s hs f' ks heq
    simp [subtrees] at hs
    subst hs; cases heq
  | hn f ks ih =>
    intro s hs f' ks' heq
    rcases (mem_subtrees_node f ks s).1 hs with rfl | ⟨k, hk, hsk⟩
    · cases heq
      rw [leafNums_node] at hn
      exact map_leftmost_nodup _
        (fun k hk => noEmpty_leafNums_ne_nil k (noEmpty_of_mem_kids f _ k hne hk)) hn
    · exact ih k hk (noEmpty_of_mem_kids f ks k hne hk)
        ((leafNums_sublist_of_mem f ks k hk).nodup hn) s hsk f' ks' heq

theorem sibDistinct_kids (f : Fields) (ks : List Tree) (h : sibDistinct (node f ks) = true) :
    (ks.map leftmost).Nodup ∧ ∀ k ∈ ks, sibDistinct k = true := by
  rw [sibDistinct_iff] at h
  refine ⟨h _ (self_mem_subtrees _) f ks rfl, ?_⟩
  intro k hk
  rw [sibDistinct_iff]
  intro s hs f' ks' heq
  exact h s ((mem_subtrees_node f ks s).2 (Or.inr ⟨k, hk, hs⟩)) f' ks' heq

/-! ### WF -/

theorem WF_iff (t : Tree) : WF t = true ↔
    t.isLeaf = false ∧ t.noEmpty = true ∧ sortBy id t.leafNums = List.range' 1 t.leafNums.length ∧
      t.leafNums ≠ [] := by
  simp [WF, and_assoc]

theorem WF_nodup (t : Tree) (h : WF t = true) : t.leafNums.Nodup := by
  obtain ⟨_, _, h3, _⟩ := (WF_iff t).1 h
  have hp := sortBy_perm id t.leafNums
  rw [h3] at hp
  exact hp.nodup List.nodup_range'

theorem WF_noEmpty (t : Tree) (h : WF t = true) : t.noEmpty = true :=
  ((WF_iff t).1 h).2.1

theorem WF_sibDistinct (t : Tree) (h : WF t = true) : sibDistinct t = true :=
  sibDistinct_of_nodup t (WF_noEmpty t h) (WF_nodup t h)

/-- well-formedness only depends on the multiset of token numbers, on noEmpty and on being a constituent -/
theorem WF_of_perm (t t' : Tree) (h : WF t = true) (hp : t'.leafNums.Perm t.leafNums)
    (hne : t'.noEmpty = true) (hnode : t'.isLeaf = false) : WF t' = true := by
  have hnd := WF_nodup t h
  obtain ⟨_, _, h3, h4⟩ := (WF_iff t).1 h
  refine (WF_iff t').2 ⟨hnode, hne, ?_, ?_⟩
  · have hnd' : (t'.leafNums.map id).Nodup := by
      rw [List.map_id]; exact hp.symm.nodup hnd
    rw [sortBy_perm_eq id _ _ hp hnd', h3, hp.length_eq]
  · intro h'
    rw [h'] at hp
    exact h4 hp.symm.eq_nil

/-- the sentence only depends on the multiset of tokens when numbers are distinct -/
theorem terminals_of_leaves_perm (t t' : Tree) (hp : t'.leaves.Perm t.leaves) (hn : t.leafNums.Nodup) :
    t'.terminals = t.terminals := by
  unfold terminals
  refine sortBy_perm_eq num _ _ hp ?_
  exact (hp.map num).symm.nodup hn

theorem sentence_of_leaves_perm (t t' : Tree) (hp : t'.leaves.Perm t.leaves) (hn : t.leafNums.Nodup) :
    sentence t' = sentence t := by
  unfold sentence
  rw [terminals_of_leaves_perm t t' hp hn]

/-! ### concrete instances: the hypotheses are satisfiable on a discontinuous tree -/

/-- `(S (VP w1 w3) w2)` -/
private def exT : Tree := node {} [node {} [leaf 3 {}, leaf 1 {}], leaf 2 {}]
/-- the same tokens, other storage order and bracketing -/
private def exT' : Tree := node {} [leaf 2 {}, node {} [leaf 1 {}, node {} [leaf 3 {}]]]

example : WF exT = true := by decide
example : exT.leafNums = [3, 1, 2] ∧ yield exT = [1, 2, 3] := by decide
example : exT.noEmpty = true ∧ exT.leafNums.Nodup := by decide
example : sibDistinct exT = true := sibDistinct_of_nodup exT (by decide) (by decide)
example : leftmost exT = 1 ∧ rightmost exT = 3 ∧ minLeaf exT = 1 := by decide
example : exT'.leafNums.Perm exT.leafNums ∧ exT'.noEmpty = true ∧ exT'.isLeaf = false := by decide
example : WF exT' = true := WF_of_perm exT exT' (by decide) (by decide) (by decide) (by decide)
example : sentence exT' = sentence exT :=
  sentence_of_leaves_perm exT exT'
    (show ([leaf 3 {}, leaf 1 {}, leaf 2 {}] : List Tree).reverse.Perm _ from List.reverse_perm _)
    (by decide)

end TT.Lemmas.WF
