/-
  Helper lemmas for C14 (unary-chain collapsing).  Core only (no Mathlib).
-/
import TT.Spec.Transform
import TT.Lemmas.Sort
namespace TT.Lemmas.Collapse
open TT TT.Tree TT.Spec

/-! ### `splitOnChar` -/

theorem splitOnChar_ne_nil (c : Char) : ∀ s : Str, splitOnChar c s ≠ []
  | [] => by simp [splitOnChar]
  | x :: xs => by
    simp only [splitOnChar]
    split
    · simp
    · split <;> simp

/-- a string without the separator is a single field -/
theorem splitOnChar_of_not_mem (c : Char) : ∀ s : Str, c ∉ s → splitOnChar c s = [s]
  | [], _ => rfl
  | x :: xs, h => by
    simp only [List.mem_cons, not_or] at h
    have hx : ¬ x = c := fun e => h.1 e.symm
    simp only [splitOnChar, hx, if_false, splitOnChar_of_not_mem c xs h.2]

/-- splitting a '+'-join: the fields of the left part followed by the fields of the right part -/
theorem splitOnChar_append_sep (c : Char) (b : Str) : ∀ a : Str,
    splitOnChar c (a ++ c :: b) = splitOnChar c a ++ splitOnChar c b
  | [] => by simp [splitOnChar]
  | x :: xs => by
    have ih := splitOnChar_append_sep c b xs
    simp only [List.cons_append, splitOnChar]
    by_cases hx : x = c
    · simp [hx, ih]
    · simp only [hx, if_false, ih]
      cases hs : splitOnChar c xs with
      | nil => exact absurd hs (splitOnChar_ne_nil c xs)
      | cons y ys => simp

theorem splitOnChar_joinPlus (a b : Str) :
    splitOnChar '+' (joinPlus a b) = splitOnChar '+' a ++ splitOnChar '+' b :=
  splitOnChar_append_sep '+' b a

/-! ### list versions -/

theorem collapseL_eq : ∀ ks : List Tree, collapseL ks = ks.map collapse
  | [] => rfl
  | t :: ts => by simp [collapseL, collapseL_eq ts]

theorem collapseL_length (ks : List Tree) : (collapseL ks).length = ks.length := by
  simp [collapseL_eq]

theorem not_singleton_of_two {α} (a b : α) (l : List α) : ∀ k : α, a :: b :: l = [k] → False := by
  intro k h; simp at h

/-! ### no unary node is left -/

mutual
theorem hasUnary_collapse : (t : Tree) → hasUnary (collapse t) = false
  | .leaf n f => by simp [collapse, hasUnary]
  | .node f [] => by simp [collapse, collapseL, hasUnary, hasUnaryL]
  | .node f [k] => by rw [collapse]; exact hasUnary_collapseInto f k
  | .node f (k1 :: k2 :: ks) => by
    rw [collapse.eq_3 _ _ (not_singleton_of_two k1 k2 ks)]
    simp only [hasUnary, collapseL_length, List.length_cons, Bool.or_eq_false_iff]
    exact ⟨by simp, hasUnaryL_collapseL _⟩
theorem hasUnary_collapseInto (f : Fields) : (t : Tree) → hasUnary (collapseInto f t) = false
  | .leaf n g => by simp [collapseInto, hasUnary]
  | .node g [] => by simp [collapseInto, collapseL, hasUnary, hasUnaryL]
  | .node g [k] => by rw [collapseInto]; exact hasUnary_collapseInto _ k
  | .node g (k1 :: k2 :: ks) => by
    rw [collapseInto.eq_3 _ _ _ (not_singleton_of_two k1 k2 ks)]
    simp only [hasUnary, collapseL_length, List.length_cons, Bool.or_eq_false_iff]
    exact ⟨by simp, hasUnaryL_collapseL _⟩
theorem hasUnaryL_collapseL : (ts : List Tree) → hasUnaryL (collapseL ts) = false
  | [] => by simp [collapseL, hasUnaryL]
  | t :: ts => by
    simp only [collapseL, hasUnaryL, Bool.or_eq_false_iff]
    exact ⟨hasUnary_collapse t, hasUnaryL_collapseL ts⟩
end

/-! ### labels -/

mutual
theorem consLabels_collapse : (t : Tree) → consLabels (collapse t) = collapsedLabels t
  | .leaf n f => by simp [collapse, consLabels, collapsedLabels]
  | .node f [] => by
    simp [collapse, collapseL, consLabels, consLabelsL, collapsedLabels, chainLabels, collapsedLabelsL]
  | .node f [k] => by
    rw [collapse, collapsedLabels]; exact consLabels_collapseInto f k
  | .node f (k1 :: k2 :: ks) => by
    rw [collapse.eq_3 _ _ (not_singleton_of_two k1 k2 ks), collapsedLabels,
      chainLabels.eq_3 _ _ (by intro n g h; simp at h) (by intro g l h; simp at h)]
    simp only [consLabels, consLabelsL_collapseL]
theorem consLabels_collapseInto (f : Fields) : (t : Tree) →
    consLabels (collapseInto f t) = chainLabels f.label [t]
  | .leaf n g => by simp [collapseInto, consLabels, chainLabels]
  | .node g [] => by
    simp [collapseInto, collapseL, consLabels, consLabelsL, chainLabels, collapsedLabelsL, joinPlus]
  | .node g [k] => by
    rw [collapseInto, chainLabels]; exact consLabels_collapseInto _ k
  | .node g (k1 :: k2 :: ks) => by
    rw [collapseInto.eq_3 _ _ _ (not_singleton_of_two k1 k2 ks), chainLabels,
      chainLabels.eq_3 _ _ (by intro n g h; simp at h) (by intro g l h; simp at h)]
    simp only [consLabels, consLabelsL_collapseL, joinPlus]
theorem consLabelsL_collapseL : (ts : List Tree) → consLabelsL (collapseL ts) = collapsedLabelsL ts
  | [] => by simp [collapseL, consLabelsL, collapsedLabelsL]
  | t :: ts => by
    simp only [collapseL, consLabelsL, collapsedLabelsL, consLabels_collapse t, consLabelsL_collapseL ts]
end

/-! ### tokens -/

/-- what collapsing keeps of a token: number and word -/
def tok (l : Tree) : Nat × Option Str := (l.num, l.fields.word)

mutual
theorem leaves_collapse : (t : Tree) → (collapse t).leaves.map tok = t.leaves.map tok
  | .leaf n f => by simp [collapse]
  | .node f [] => by simp [collapse, collapseL]
  | .node f [k] => by
    rw [collapse, leaves_collapseInto f k]; simp [leaves, leavesL]
  | .node f (k1 :: k2 :: ks) => by
    rw [collapse.eq_3 _ _ (not_singleton_of_two k1 k2 ks)]
    simp only [leaves]; exact leavesL_collapseL _
theorem leaves_collapseInto (f : Fields) : (t : Tree) →
    (collapseInto f t).leaves.map tok = t.leaves.map tok
  | .leaf n g => by simp [collapseInto, leaves, tok, num, fields]
  | .node g [] => by simp [collapseInto, collapseL, leaves, leavesL]
  | .node g [k] => by
    rw [collapseInto, leaves_collapseInto _ k]; simp [leaves, leavesL]
  | .node g (k1 :: k2 :: ks) => by
    rw [collapseInto.eq_3 _ _ _ (not_singleton_of_two k1 k2 ks)]
    simp only [leaves]; exact leavesL_collapseL _
theorem leavesL_collapseL : (ts : List Tree) → (leavesL (collapseL ts)).map tok = (leavesL ts).map tok
  | [] => by simp [collapseL]
  | t :: ts => by
    simp only [collapseL, leavesL, List.map_append, leaves_collapse t, leavesL_collapseL ts]
end

/-! ### uncollapse ∘ collapse -/

/-- the stripped unary chain with labels `ps` above `inner` -/
def wrapS : List Str → Tree → Tree
  | [], inner => inner
  | p :: ps, inner => node { label := p } [wrapS ps inner]

theorem stripT_wrapChain (f : Fields) : ∀ (ps : List Str) (inner : Tree),
    stripT (wrapChain f ps inner) = wrapS ps (stripT inner)
  | [], _ => rfl
  | p :: ps, inner => by
    simp only [wrapChain, stripT, stripTL, wrapS, stripT_wrapChain f ps inner]

theorem wrapS_append : ∀ (ps qs : List Str) (x : Tree), wrapS (ps ++ qs) x = wrapS ps (wrapS qs x)
  | [], _, _ => rfl
  | p :: ps, qs, x => by simp only [List.cons_append, wrapS, wrapS_append ps qs x]

theorem not_contains_iff (c : Char) (s : Str) : (!s.contains c) = true ↔ c ∉ s := by
  simp

/-- the parts of `f.label + '+' + g` when `g` is '+'-free -/
theorem parts_join (a g : Str) (hg : '+' ∉ g) :
    (splitOnChar '+' (joinPlus a g)).dropLast = splitOnChar '+' a ∧
    (splitOnChar '+' (joinPlus a g)).getLast?.getD [] = g := by
  rw [splitOnChar_joinPlus, splitOnChar_of_not_mem '+' g hg]
  simp

theorem parts_single (g : Str) (hg : '+' ∉ g) :
    (splitOnChar '+' g).dropLast = [] ∧ (splitOnChar '+' g).getLast?.getD [] = g := by
  rw [splitOnChar_of_not_mem '+' g hg]; simp

mutual
theorem stripT_uncollapse_collapse : (t : Tree) → noCharInLabels '+' t = true →
    stripT (uncollapse (collapse t)) = stripT t
  | .leaf n f, h => by
    simp only [noCharInLabels, not_contains_iff] at h
    simp only [collapse, uncollapse, (parts_single f.label h).1, (parts_single f.label h).2,
      wrapChain, stripT]
  | .node f [], h => by
    simp only [noCharInLabels, Bool.and_eq_true, not_contains_iff] at h
    simp only [collapse, collapseL, uncollapse, uncollapseL, (parts_single f.label h.1).1,
      (parts_single f.label h.1).2, wrapChain, stripT, stripTL]
  | .node f [k], h => by
    simp only [noCharInLabels, noCharInLabelsL, Bool.and_eq_true, not_contains_iff] at h
    rw [collapse, stripT_uncollapse_collapseInto f k h.2.1, splitOnChar_of_not_mem '+' f.label h.1]
    simp only [wrapS, stripT, stripTL]
  | .node f (k1 :: k2 :: ks), h => by
    simp only [noCharInLabels, Bool.and_eq_true, not_contains_iff] at h
    rw [collapse.eq_3 _ _ (not_singleton_of_two k1 k2 ks)]
    simp only [uncollapse, (parts_single f.label h.1).1, (parts_single f.label h.1).2,
      wrapChain, stripT, stripTL_uncollapseL_collapseL _ h.2]
theorem stripT_uncollapse_collapseInto (f : Fields) : (t : Tree) → noCharInLabels '+' t = true →
    stripT (uncollapse (collapseInto f t)) = wrapS (splitOnChar '+' f.label) (stripT t)
  | .leaf n g, h => by
    simp only [noCharInLabels, not_contains_iff] at h
    simp only [collapseInto, uncollapse, (parts_join f.label g.label h).1,
      (parts_join f.label g.label h).2, stripT_wrapChain, stripT]
  | .node g [], h => by
    simp only [noCharInLabels, Bool.and_eq_true, not_contains_iff] at h
    simp only [collapseInto, collapseL, uncollapse, uncollapseL, (parts_join f.label g.label h.1).1,
      (parts_join f.label g.label h.1).2, stripT_wrapChain, stripT, stripTL]
  | .node g [k], h => by
    simp only [noCharInLabels, noCharInLabelsL, Bool.and_eq_true, not_contains_iff] at h
    rw [collapseInto, stripT_uncollapse_collapseInto _ k h.2.1]
    simp only [splitOnChar_joinPlus, splitOnChar_of_not_mem '+' g.label h.1, wrapS_append, wrapS,
      stripT, stripTL]
  | .node g (k1 :: k2 :: ks), h => by
    simp only [noCharInLabels, Bool.and_eq_true, not_contains_iff] at h
    rw [collapseInto.eq_3 _ _ _ (not_singleton_of_two k1 k2 ks)]
    simp only [uncollapse, (parts_join f.label g.label h.1).1, (parts_join f.label g.label h.1).2,
      stripT_wrapChain, stripT, stripTL_uncollapseL_collapseL _ h.2]
theorem stripTL_uncollapseL_collapseL : (ts : List Tree) → noCharInLabelsL '+' ts = true →
    stripTL (uncollapseL (collapseL ts)) = stripTL ts
  | [], _ => rfl
  | t :: ts, h => by
    simp only [noCharInLabelsL, Bool.and_eq_true] at h
    simp only [collapseL, uncollapseL, stripTL, stripT_uncollapse_collapse t h.1,
      stripTL_uncollapseL_collapseL ts h.2]
end

end TT.Lemmas.Collapse
