/-
  Helpers of wave 15 (tag w15d).
  * `okBeq` / `eq_of_okBeq`: a Boolean test "this reader result is exactly this list of (id, tree)" that the kernel can
    evaluate (`Tree` has no `DecidableEq`), used by the concrete instances beside the theorems; `errBeq` for errors.
-/
import TT.Lemmas.Run
namespace TT.Lemmas.More15d
open TT TT.Tree

/-- the result is `.ok r`, tested with `Tree.beq` -/
def okBeq {ε} (x : Except ε (List (Nat × Tree))) (r : List (Nat × Tree)) : Bool :=
  match x with
  | .ok r' => r'.map (·.1) == r.map (·.1) && Tree.beqL (r'.map (·.2)) (r.map (·.2))
  | .error _ => false

theorem eq_of_maps : ∀ (a b : List (Nat × Tree)), a.map (·.1) = b.map (·.1) → a.map (·.2) = b.map (·.2) → a = b
  | [], [], _, _ => rfl
  | [], _ :: _, h, _ => by simp at h
  | _ :: _, [], h, _ => by simp at h
  | (i, s) :: a, (j, t) :: b, h1, h2 => by
    simp only [List.map_cons, List.cons.injEq] at h1 h2
    rw [eq_of_maps a b h1.2 h2.2]
    obtain ⟨h1, _⟩ := h1
    obtain ⟨h2, _⟩ := h2
    subst h1 h2
    rfl

theorem eq_of_okBeq {ε} (x : Except ε (List (Nat × Tree))) (r : List (Nat × Tree)) (h : okBeq x r = true) : x = .ok r := by
  cases x with
  | error e => simp [okBeq] at h
  | ok r' =>
    simp only [okBeq, Bool.and_eq_true, beq_iff_eq] at h
    rw [eq_of_maps r' r h.1 (TT.Lemmas.Run.eqL_of_beqL _ _ h.2)]

/-- the result is `.error e` -/
def errBeq {α} (x : Except Err α) (e : Err) : Bool :=
  match x with
  | .error e' => decide (e' = e)
  | .ok _ => false

theorem eq_of_errBeq {α} (x : Except Err α) (e : Err) (h : errBeq x e = true) : x = .error e := by
  cases x with
  | ok a => simp [errBeq] at h
  | error e' => simp only [errBeq, decide_eq_true_eq] at h; rw [h]

end TT.Lemmas.More15d
