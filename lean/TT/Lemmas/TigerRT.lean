/-
  Helper lemmas for the TIGER-XML round trip (`TT.Props.C02Tiger`):
  attribute parsing of written attributes, raw-line well-formedness, classification of the written
  lines by prefix, the nonterminal table, identifiers (= export numbers) and the recursive rebuild.
-/
import TT.Spec.Formats
import TT.Lemmas.Write
import TT.Lemmas.Trans
import TT.Props.C02
import TT.Props.C19
namespace TT.Lemmas.TigerRT
open TT TT.Tree TT.Spec
open TT.Lemmas.Write TT.Lemmas.GramOut TT.Lemmas.WF TT.Lemmas.Nav

/-! ### attribute parsing -/

/-- an attribute name as the decoder delimits it -/
def NameOK (name : Str) : Prop := name ≠ [] ∧ ∀ c ∈ name, c ≠ '=' ∧ c ≠ ' ' ∧ c ≠ '>' ∧ c ≠ '/'

theorem attrsAux_space (fuel : Nat) (s : Str) : attrsAux (fuel + 1) (' ' :: s) = attrsAux (fuel + 1) s := by
  rw [attrsAux, attrsAux]
  have : List.dropWhile (fun c => c == ' ') (' ' :: s) = List.dropWhile (fun c => c == ' ') s := by
    simp
  rw [this]

theorem dropWhile_name (name rest : Str) (hn : NameOK name) :
    (name ++ rest).dropWhile (fun c => c == ' ') = name ++ rest := by
  obtain ⟨hne, hc⟩ := hn
  cases name with
  | nil => exact absurd rfl hne
  | cons a r =>
    have := (hc a (by simp)).2.1
    simp [this]

/-- one `name=q…q` group, any delimiter `q` that does not occur inside -/
theorem attrsAux_quoted (name inner rest : Str) (q : Char) (hq : q = '"' ∨ q = '\'') (hn : NameOK name)
    (hi : q ∉ inner) (fuel : Nat) :
    attrsAux (fuel + 1) (name ++ '=' :: q :: (inner ++ q :: rest)) = (name, unescapeXml inner) :: attrsAux fuel rest := by
  rw [attrsAux]
  simp only []
  rw [dropWhile_name name _ hn]
  have htw : (name ++ '=' :: q :: (inner ++ q :: rest)).takeWhile (fun c => c != '=' && c != ' ' && c != '>' && c != '/') = name := by
    apply takeWhile_append_stop
    · intro x hx
      obtain ⟨h1, h2, h3, h4⟩ := hn.2 x hx
      simp [h1, h2, h3, h4]
    · simp
  rw [htw, List.drop_left]
  have hqq : (q == '"' || q == '\'') = true := by rcases hq with h | h <;> simp [h]
  have hv : (inner ++ q :: rest).takeWhile (fun x => x != q) = inner := by
    apply takeWhile_append_stop
    · intro x hx
      have : x ≠ q := fun e => hi (e ▸ hx)
      simpa using this
    · simp
  simp only [hqq, if_true, hv, List.drop_left, List.drop_one, List.tail_cons]

theorem attrsAux_quoteattr (name v rest : Str) (hn : NameOK name) (fuel : Nat) :
    attrsAux (fuel + 1) (name ++ ['='] ++ quoteattr v ++ rest) = (name, v) :: attrsAux fuel rest := by
  obtain ⟨q, inner, he, hq, hqi, _, hu⟩ := TT.Props.C02.quoteattr_spec v
  rw [he]
  have := attrsAux_quoted name inner rest q hq hn hqi fuel
  rw [hu] at this
  simpa using this


/-- a written attribute (with its leading blank) -/
def attrStr (name v : Str) : Str := ' ' :: (name ++ '=' :: quoteattr v)
/-- a number between double quotes, as the writer prints identifiers -/
def qnum (n : Nat) : Str := '"' :: (natToStr n ++ ['"'])
def attrNum (name : Str) (n : Nat) : Str := ' ' :: (name ++ '=' :: qnum n)

theorem digit_plain (c : Char) (h : c.isDigit = true) :
    c ≠ '&' ∧ c ≠ '<' ∧ c ≠ '>' ∧ c ≠ '\n' ∧ c ≠ '\r' ∧ c ≠ '\t' ∧ c ≠ '"' ∧ c ≠ '\'' := by
  refine ⟨?_, ?_, ?_, ?_, ?_, ?_, ?_, ?_⟩ <;> (intro e; subst e; revert h; decide)

theorem esc1_digit (c : Char) (h : c.isDigit = true) : esc1 c = [c] := by
  obtain ⟨h1, h2, h3, h4, h5, h6, _, _⟩ := digit_plain c h
  simp [esc1, h1, h2, h3, h4, h5, h6]

theorem xmlEscape_digits : ∀ s : Str, (∀ c ∈ s, c.isDigit = true) → xmlEscape s = s
  | [], _ => rfl
  | c :: s, h => by
    rw [xmlEscape_eq, List.flatMap_cons, esc1_digit c (h c (by simp)), ← xmlEscape_eq,
      xmlEscape_digits s (fun x hx => h x (by simp [hx]))]
    rfl

theorem quoteattr_natToStr (n : Nat) : quoteattr (natToStr n) = qnum n := by
  rw [quoteattr_eq, xmlEscape_digits _ (natToStr_isDigit n)]
  have : (natToStr n).contains '"' = false := by
    rw [Bool.eq_false_iff]
    intro h
    have := List.contains_iff_mem.1 h
    exact (digit_plain _ (natToStr_isDigit n _ this)).2.2.2.2.2.2.1 rfl
  rw [this]
  rfl

theorem attrNum_eq (name : Str) (n : Nat) : attrNum name n = attrStr name (natToStr n) := by
  rw [attrNum, attrStr, quoteattr_natToStr]

theorem attrsAux_attrStr (name v rest : Str) (hn : NameOK name) (fuel : Nat) :
    attrsAux (fuel + 1) (attrStr name v ++ rest) = (name, v) :: attrsAux fuel rest := by
  have := attrsAux_quoteattr name v rest hn fuel
  rw [attrStr, List.cons_append, attrsAux_space]
  simpa using this

/-- a sequence of written attributes followed by anything -/
def attrLine : List (Str × Str) → Str → Str
  | [], tail => tail
  | kv :: r, tail => attrStr kv.1 kv.2 ++ attrLine r tail

theorem attrLine_length (kvs : List (Str × Str)) (tail : Str) : kvs.length ≤ (attrLine kvs tail).length := by
  induction kvs with
  | nil => simp
  | cons kv r ih => simp only [attrLine, attrStr, List.length_append, List.length_cons]; omega

theorem attrsAux_attrLine : ∀ (kvs : List (Str × Str)) (tail : Str), (∀ kv ∈ kvs, NameOK kv.1) →
    ∀ fuel, kvs.length ≤ fuel → ∃ more, attrsAux fuel (attrLine kvs tail) = kvs ++ more
  | [], tail, _, fuel, _ => ⟨_, (List.nil_append _).symm⟩
  | kv :: r, tail, hn, 0, hf => by simp at hf
  | kv :: r, tail, hn, fuel + 1, hf => by
    obtain ⟨more, hm⟩ := attrsAux_attrLine r tail (fun x hx => hn x (by simp [hx])) fuel (by simpa using hf)
    refine ⟨more, ?_⟩
    rw [attrLine, attrsAux_attrStr _ _ _ (hn kv (by simp)), hm]
    rfl

/-- the decoder reads a sequence of written attributes back -/
theorem attrs_attrLine (kvs : List (Str × Str)) (tail : Str) (hn : ∀ kv ∈ kvs, NameOK kv.1) :
    ∃ more, attrs (attrLine kvs tail) = kvs ++ more :=
  attrsAux_attrLine kvs tail hn _ (Nat.le_succ_of_le (attrLine_length kvs tail))

theorem attr_cons_hit (n v : Str) (as : List (Str × Str)) (k : String) (h : n = k.toList) :
    attr ((n, v) :: as) k = some v := by
  simp [attr, h]

theorem attr_cons_miss (n v : Str) (as : List (Str × Str)) (k : String) (h : n ≠ k.toList) :
    attr ((n, v) :: as) k = attr as k := by
  simp [attr, h]


/-! ### raw well-formedness of a line -/

/-- the scan of `rawAttrsOK` succeeds with any sufficient fuel -/
def RawG (s : Str) : Prop := ∀ fuel, s.length < fuel → rawAttrsOK.go s fuel = true

def Plain (a : Str) : Prop := ∀ c ∈ a, c ≠ '"' ∧ c ≠ '\''

instance (a : Str) : Decidable (Plain a) := by unfold Plain; infer_instance

theorem rawG_nil : RawG [] := by
  intro fuel hf
  cases fuel with
  | zero => simp at hf
  | succ f => rw [rawAttrsOK.go]; simp

theorem rawG_cons (c : Char) (s : Str) (hc : c ≠ '"' ∧ c ≠ '\'') (h : RawG s) : RawG (c :: s) := by
  intro fuel hf
  cases fuel with
  | zero => simp at hf
  | succ f =>
    rw [rawAttrsOK.go]
    have : (c == '"' || c == '\'') = false := by simp [hc.1, hc.2]
    simp only [this, Bool.false_eq_true, if_false]
    exact h f (by simpa using hf)

theorem rawG_plain : ∀ (a s : Str), Plain a → RawG s → RawG (a ++ s)
  | [], s, _, h => h
  | c :: a, s, ha, h => rawG_cons c _ (ha c (by simp)) (rawG_plain a s (fun x hx => ha x (by simp [hx])) h)

theorem rawG_quoted (q : Char) (inner s : Str) (hq : q = '"' ∨ q = '\'') (hi : q ∉ inner) (hlt : '<' ∉ inner)
    (h : RawG s) : RawG (q :: (inner ++ q :: s)) := by
  intro fuel hf
  cases fuel with
  | zero => simp at hf
  | succ f =>
    rw [rawAttrsOK.go]
    have hqq : (q == '"' || q == '\'') = true := by rcases hq with e | e <;> simp [e]
    have hv : (inner ++ q :: s).takeWhile (fun x => x != q) = inner := by
      apply takeWhile_append_stop
      · intro x hx
        have : x ≠ q := fun e => hi (e ▸ hx)
        simpa using this
      · simp
    have hc : inner.contains '<' = false := by
      rw [Bool.eq_false_iff]; intro hh; exact hlt (List.contains_iff_mem.1 hh)
    simp only [hqq, if_true, hv, List.drop_left, List.drop_one, List.tail_cons, hc, List.head?_cons,
      Bool.and_false, List.any_eq_false.2 (fun _ _ => Bool.false_ne_true), Bool.not_false, Bool.true_and, beq_self_eq_true]
    apply h f
    simp only [List.length_cons, List.length_append] at hf
    omega

theorem rawG_quoteattr (v s : Str) (h : RawG s) : RawG (quoteattr v ++ s) := by
  obtain ⟨q, inner, he, hq, hqi, hlt, _⟩ := TT.Props.C02.quoteattr_spec v
  rw [he]
  have := rawG_quoted q inner s hq hqi hlt h
  simpa using this

theorem rawG_attrStr (name v s : Str) (hn : Plain name) (h : RawG s) : RawG (attrStr name v ++ s) := by
  rw [attrStr, List.cons_append, List.append_assoc, List.cons_append]
  exact rawG_cons _ _ (by decide) (rawG_plain _ _ hn (rawG_cons _ _ (by decide) (rawG_quoteattr v s h)))

theorem rawG_attrNum (name : Str) (n : Nat) (s : Str) (hn : Plain name) (h : RawG s) : RawG (attrNum name n ++ s) := by
  rw [attrNum_eq]; exact rawG_attrStr name _ s hn h

theorem rawAttrsOK_of_rawG (s : Str) (h : RawG s) : rawAttrsOK s = true := h _ (Nat.lt_succ_self _)

theorem rawAttrsOK_plain (s : Str) (h : Plain s) : rawAttrsOK s = true := by
  apply rawAttrsOK_of_rawG
  have := rawG_plain s [] h rawG_nil
  simpa using this


/-! ### the written lines in normal form -/

def kId : Str := ['i','d']
def kWord : Str := ['w','o','r','d']
def kLemma : Str := ['l','e','m','m','a']
def kPos : Str := ['p','o','s']
def kMorph : Str := ['m','o','r','p','h']
def kCat : Str := ['c','a','t']
def kLabel : Str := ['l','a','b','e','l']
def kIdref : Str := ['i','d','r','e','f']
def kRoot : Str := ['r','o','o','t']

/-- the lines without their indentation -/
def sLine (sid : Nat) : Str := '<' :: 's' :: (attrNum kId sid ++ ['>'])
def gLine (k : Nat) : Str := '<' :: 'g' :: 'r' :: 'a' :: 'p' :: 'h' :: (attrNum kRoot k ++ ['>'])
def tokLineS (n : Nat) (w le p m : Str) : Str :=
  '<' :: 't' :: (attrNum kId n ++ (attrStr kWord w ++ (attrStr kLemma le ++ (attrStr kPos p ++ (attrStr kMorph m ++ [' ', '/', '>'])))))
def ntLineS (k : Nat) (cat : Str) : Str := '<' :: 'n' :: 't' :: (attrNum kId k ++ (attrStr kCat cat ++ ['>']))
def edgeLineS (lab : Str) (k : Nat) : Str :=
  '<' :: 'e' :: 'd' :: 'g' :: 'e' :: (attrStr kLabel lab ++ (attrNum kIdref k ++ [' ', '/', '>']))
def closeS : Str := ['<','/','n','t','>']

def ind4 (s : Str) : Str := ' ' :: ' ' :: ' ' :: ' ' :: s
def ind6 (s : Str) : Str := ' ' :: ' ' :: ' ' :: ' ' :: ' ' :: ' ' :: s

def numOf (t : Tree) (p : Path) : Nat := (exportNum t p).getD 0
def dflt (x : Option Str) : Str := x.getD ['-','-']

/-- the constituents in the order the writer lists them -/
def consList (t : Tree) : List (Path × Tree) :=
  t.postorderP.filterMap fun p => match t.get? p with
    | some (node f (k :: ks)) => some (p, node f (k :: ks))
    | _ => none

def tokS (l : Tree) : Str := tokLineS l.num (dflt l.fields.word) (dflt l.fields.lemma) l.fields.label (dflt l.fields.morph)

def edgeLab (c : Option Tree) : Str := ((c.bind (·.fields.edge)).getD DEFAULT_EDGE)
def edgeRef (t : Tree) (p : Path) (i : Nat) (c : Option Tree) : Nat :=
  match c with
  | some (leaf n _) => n
  | _ => numOf t (p ++ [i])

def ntBlock (t : Tree) (ps : Path × Tree) : List Str :=
  [ind4 (ntLineS (numOf t ps.1) ps.2.fields.label)] ++
  ((childOrder ps.2).map fun i => ind6 (edgeLineS (edgeLab ps.2.kids[i]?) (edgeRef t ps.1 i ps.2.kids[i]?))) ++ [ind4 closeS]

def ntBlockS (t : Tree) (ps : Path × Tree) : List Str :=
  [ntLineS (numOf t ps.1) ps.2.fields.label] ++
  ((childOrder ps.2).map fun i => edgeLineS (edgeLab ps.2.kids[i]?) (edgeRef t ps.1 i ps.2.kids[i]?)) ++ [closeS]

def T0 : Str := ['<','t','e','r','m','i','n','a','l','s','>']
def T1 : Str := ['<','/','t','e','r','m','i','n','a','l','s','>']
def N0 : Str := ['<','n','o','n','t','e','r','m','i','n','a','l','s','>']
def N1 : Str := ['<','/','n','o','n','t','e','r','m','i','n','a','l','s','>']
def G1 : Str := ['<','/','g','r','a','p','h','>']
def S1 : Str := ['<','/','s','>']

theorem lit_t1 : "    <t id=\"".toList = [' ',' ',' ',' ','<','t',' ','i','d','=','"'] := rfl
theorem lit_t1s : "<t id=\"".toList = ['<','t',' ','i','d','=','"'] := rfl
theorem lit_t2 : "\" ".toList = ['"',' '] := rfl
theorem lit_t3 : "word=".toList = ['w','o','r','d','='] := rfl
theorem lit_t4 : " lemma=".toList = [' ', 'l','e','m','m','a','='] := rfl
theorem lit_t5 : " pos=".toList = [' ', 'p','o','s','='] := rfl
theorem lit_t6 : " morph=".toList = [' ', 'm','o','r','p','h','='] := rfl
theorem lit_t7 : " />".toList = [' ', '/','>'] := rfl
theorem lit_dd : "--".toList = ['-','-'] := rfl
theorem lit_n1 : "    <nt id=\"".toList = [' ',' ',' ',' ','<','n','t',' ','i','d','=','"'] := rfl
theorem lit_n2 : "\" cat=".toList = ['"',' ','c','a','t','='] := rfl
theorem lit_gt : ">".toList = ['>'] := rfl
theorem lit_e1 : "      <edge label=".toList = [' ',' ',' ',' ',' ',' ','<','e','d','g','e',' ','l','a','b','e','l','='] := rfl
theorem lit_e2 : " idref=\"".toList = [' ','i','d','r','e','f','=','"'] := rfl
theorem lit_e3 : "\" />".toList = ['"',' ','/','>'] := rfl
theorem lit_c : "    </nt>".toList = ind4 closeS := rfl
theorem lit_s1 : "<s id=\"".toList = ['<','s',' ','i','d','=','"'] := rfl
theorem lit_s2 : "\">".toList = ['"','>'] := rfl
theorem lit_g1 : "<graph root=\"".toList = ['<','g','r','a','p','h',' ','r','o','o','t','=','"'] := rfl
theorem lit_T0 : "  <terminals>".toList = ' ' :: ' ' :: T0 := rfl
theorem lit_T1 : "  </terminals>".toList = ' ' :: ' ' :: T1 := rfl
theorem lit_N0 : "  <nonterminals>".toList = ' ' :: ' ' :: N0 := rfl
theorem lit_N1 : "  </nonterminals>".toList = ' ' :: ' ' :: N1 := rfl
theorem lit_G1 : "</graph>".toList = G1 := rfl
theorem lit_S1 : "</s>".toList = S1 := rfl
theorem lit_ps : "<s ".toList = ['<','s',' '] := rfl
theorem lit_pt : "<t ".toList = ['<','t',' '] := rfl
theorem lit_pn : "<nt ".toList = ['<','n','t',' '] := rfl
theorem lit_pe : "<edge ".toList = ['<','e','d','g','e',' '] := rfl
theorem lit_pc : "</nt>".toList = ['<','/','n','t','>'] := rfl
theorem lit_id : "id".toList = kId := rfl
theorem lit_word : "word".toList = kWord := rfl
theorem lit_lemma : "lemma".toList = kLemma := rfl
theorem lit_pos : "pos".toList = kPos := rfl
theorem lit_morph : "morph".toList = kMorph := rfl
theorem lit_cat : "cat".toList = kCat := rfl
theorem lit_label : "label".toList = kLabel := rfl
theorem lit_idref : "idref".toList = kIdref := rfl

theorem tokLine_unindented (n : Nat) (w le p m : Str) :
    "<t id=\"".toList ++ natToStr n ++ "\" ".toList ++ "word=".toList ++ quoteattr w ++ " lemma=".toList ++ quoteattr le ++
      " pos=".toList ++ quoteattr p ++ " morph=".toList ++ quoteattr m ++ " />".toList = tokLineS n w le p m := by
  simp only [lit_t1s, lit_t2, lit_t3, lit_t4, lit_t5, lit_t6, lit_t7, tokLineS, attrStr, attrNum, qnum, kId, kWord, kLemma, kPos, kMorph,
    List.append_assoc, List.cons_append, List.nil_append]

theorem tokLine_eq (l : Tree) :
    "    <t id=\"".toList ++ natToStr l.num ++ "\" ".toList ++
    "word=".toList ++ quoteattr (l.fields.word.getD "--".toList) ++ " lemma=".toList ++ quoteattr (l.fields.lemma.getD "--".toList) ++
    " pos=".toList ++ quoteattr l.fields.label ++ " morph=".toList ++ quoteattr (l.fields.morph.getD "--".toList) ++ " />".toList = ind4 (tokS l) := by
  simp only [lit_t1, lit_t2, lit_t3, lit_t4, lit_t5, lit_t6, lit_t7, lit_dd, tokS, ind4, tokLineS, attrStr, attrNum, qnum, dflt,
    kId, kWord, kLemma, kPos, kMorph, List.append_assoc, List.cons_append, List.nil_append]

theorem ntLine_eq (k : Nat) (cat : Str) :
    "    <nt id=\"".toList ++ natToStr k ++ "\" cat=".toList ++ quoteattr cat ++ ">".toList = ind4 (ntLineS k cat) := by
  simp only [lit_n1, lit_n2, lit_gt, ind4, ntLineS, attrStr, attrNum, qnum, kId, kCat, List.append_assoc, List.cons_append, List.nil_append]

theorem edgeLine_eq (lab : Str) (k : Nat) :
    "      <edge label=".toList ++ quoteattr lab ++ " idref=\"".toList ++ natToStr k ++ "\" />".toList = ind6 (edgeLineS lab k) := by
  simp only [lit_e1, lit_e2, lit_e3, ind6, edgeLineS, attrStr, attrNum, qnum, kLabel, kIdref, List.append_assoc, List.cons_append, List.nil_append]

theorem sLine_eq (k : Nat) : "<s id=\"".toList ++ natToStr k ++ "\">".toList = sLine k := by
  simp only [lit_s1, lit_s2, sLine, attrNum, qnum, kId, List.append_assoc, List.cons_append, List.nil_append]

theorem gLine_eq (k : Nat) : "<graph root=\"".toList ++ natToStr k ++ "\">".toList = gLine k := by
  simp only [lit_g1, lit_s2, gLine, attrNum, qnum, kRoot, List.append_assoc, List.cons_append, List.nil_append]

/-- the writer's output, line by line in normal form -/
theorem writeTiger_eq (sid : Nat) (t : Tree) :
    writeTiger sid t = [sLine sid, gLine (numOf t []), ' ' :: ' ' :: T0] ++ t.terminals.map (fun l => ind4 (tokS l)) ++
      [' ' :: ' ' :: T1, ' ' :: ' ' :: N0] ++ (consList t).flatMap (ntBlock t) ++ [' ' :: ' ' :: N1, G1, S1] := by
  unfold writeTiger
  simp only [tokLine_eq, ntLine_eq, edgeLine_eq, sLine_eq, gLine_eq, lit_c, lit_T0, lit_T1, lit_N0, lit_N1, lit_G1, lit_S1]
  rfl


/-! ### every written line is raw-well-formed -/

theorem rawG_tail3 : RawG [' ', '/', '>'] := by
  have := rawG_plain [' ', '/', '>'] [] (by decide) rawG_nil
  simpa using this
theorem rawG_gt : RawG ['>'] := by
  have := rawG_plain ['>'] [] (by decide) rawG_nil
  simpa using this

theorem rawG_sLine (k : Nat) : RawG (sLine k) :=
  rawG_cons _ _ (by decide) (rawG_cons _ _ (by decide) (rawG_attrNum _ _ _ (by decide) rawG_gt))

theorem rawG_gLine (k : Nat) : RawG (gLine k) :=
  rawG_plain ['<','g','r','a','p','h'] _ (by decide) (rawG_attrNum _ _ _ (by decide) rawG_gt)

theorem rawG_tokLineS (n : Nat) (w le p m : Str) : RawG (tokLineS n w le p m) :=
  rawG_plain ['<','t'] _ (by decide) (rawG_attrNum _ _ _ (by decide) (rawG_attrStr _ _ _ (by decide)
    (rawG_attrStr _ _ _ (by decide) (rawG_attrStr _ _ _ (by decide) (rawG_attrStr _ _ _ (by decide) rawG_tail3)))))

theorem rawG_ntLineS (k : Nat) (cat : Str) : RawG (ntLineS k cat) :=
  rawG_plain ['<','n','t'] _ (by decide) (rawG_attrNum _ _ _ (by decide) (rawG_attrStr _ _ _ (by decide) rawG_gt))

theorem rawG_edgeLineS (lab : Str) (k : Nat) : RawG (edgeLineS lab k) :=
  rawG_plain ['<','e','d','g','e'] _ (by decide) (rawG_attrStr _ _ _ (by decide) (rawG_attrNum _ _ _ (by decide) rawG_tail3))

theorem rawG_ind4 (s : Str) (h : RawG s) : RawG (ind4 s) := rawG_plain [' ',' ',' ',' '] s (by decide) h
theorem rawG_ind6 (s : Str) (h : RawG s) : RawG (ind6 s) := rawG_plain [' ',' ',' ',' ',' ',' '] s (by decide) h

theorem raw_ok_all (sid : Nat) (t : Tree) : ∀ l ∈ writeTiger sid t, rawAttrsOK l = true := by
  intro l hl
  rw [writeTiger_eq] at hl
  simp only [List.mem_append, List.mem_cons, List.mem_map, List.mem_flatMap, List.not_mem_nil, or_false] at hl
  rcases hl with (((h | h) | h) | h) | h
  · rcases h with rfl | rfl | rfl
    · exact rawAttrsOK_of_rawG _ (rawG_sLine _)
    · exact rawAttrsOK_of_rawG _ (rawG_gLine _)
    · exact rawAttrsOK_plain _ (by decide)
  · obtain ⟨a, _, rfl⟩ := h
    exact rawAttrsOK_of_rawG _ (rawG_ind4 _ (rawG_tokLineS _ _ _ _ _))
  · rcases h with rfl | rfl <;> exact rawAttrsOK_plain _ (by decide)
  · obtain ⟨ps, _, h⟩ := h
    simp only [ntBlock, List.mem_append, List.mem_cons, List.mem_map, List.not_mem_nil, or_false] at h
    rcases h with (rfl | ⟨i, _, rfl⟩) | rfl
    · exact rawAttrsOK_of_rawG _ (rawG_ind4 _ (rawG_ntLineS _ _))
    · exact rawAttrsOK_of_rawG _ (rawG_ind6 _ (rawG_edgeLineS _ _))
    · exact rawAttrsOK_plain _ (by decide)
  · rcases h with rfl | rfl | rfl <;> exact rawAttrsOK_plain _ (by decide)

/-! ### stripping the indentation, classification by prefix -/

theorem stripLine_lt (s : Str) : stripLine ('<' :: s) = '<' :: s := by simp [stripLine]
theorem stripLine_sp (s : Str) : stripLine (' ' :: s) = stripLine s := by simp [stripLine]

theorem strip_sLine (k : Nat) : stripLine (sLine k) = sLine k := stripLine_lt _
theorem strip_gLine (k : Nat) : stripLine (gLine k) = gLine k := stripLine_lt _
theorem strip_tok (l : Tree) : stripLine (ind4 (tokS l)) = tokS l := by
  simp only [ind4, stripLine_sp]; exact stripLine_lt _
theorem strip_nt (k : Nat) (c : Str) : stripLine (ind4 (ntLineS k c)) = ntLineS k c := by
  simp only [ind4, stripLine_sp]; exact stripLine_lt _
theorem strip_edge (lab : Str) (k : Nat) : stripLine (ind6 (edgeLineS lab k)) = edgeLineS lab k := by
  simp only [ind6, stripLine_sp]; exact stripLine_lt _
theorem strip_close : stripLine (ind4 closeS) = closeS := by
  simp only [ind4, stripLine_sp]; exact stripLine_lt _

theorem strip_ntBlock (t : Tree) (ps : Path × Tree) : (ntBlock t ps).map stripLine = ntBlockS t ps := by
  have h : ((childOrder ps.2).map fun i => ind6 (edgeLineS (edgeLab ps.2.kids[i]?) (edgeRef t ps.1 i ps.2.kids[i]?))).map stripLine =
      (childOrder ps.2).map fun i => edgeLineS (edgeLab ps.2.kids[i]?) (edgeRef t ps.1 i ps.2.kids[i]?) := by
    rw [List.map_map]
    apply List.map_congr_left
    intro i _
    exact strip_edge _ _
  simp only [ntBlock, ntBlockS, List.map_append, List.map_cons, List.map_nil, strip_nt, strip_close, h]

/-- the stripped lines of one written sentence -/
def strippedLines (sid : Nat) (t : Tree) : List Str :=
  [sLine sid, gLine (numOf t []), T0] ++ t.terminals.map tokS ++ [T1, N0] ++ (consList t).flatMap (ntBlockS t) ++ [N1, G1, S1]

theorem map_strip_writeTiger (sid : Nat) (t : Tree) : (writeTiger sid t).map stripLine = strippedLines sid t := by
  have h1 : (t.terminals.map (fun l => ind4 (tokS l))).map stripLine = t.terminals.map tokS := by
    rw [List.map_map]
    apply List.map_congr_left
    intro l _
    exact strip_tok l
  have h2 : ((consList t).flatMap (ntBlock t)).map stripLine = (consList t).flatMap (ntBlockS t) := by
    rw [List.map_flatMap]
    apply Lemmas.Write.flatMap_congr'
    intro ps _
    exact strip_ntBlock t ps
  rw [writeTiger_eq, strippedLines]
  simp only [List.map_append, h1, h2, List.map_cons, List.map_nil, strip_sLine, strip_gLine, stripLine_sp]
  rfl


/-- a line that the nonterminal scan ignores -/
def Skip (l : Str) : Prop :=
  "<nt ".toList.isPrefixOf l = false ∧ "<edge ".toList.isPrefixOf l = false ∧ "</nt>".toList.isPrefixOf l = false
/-- not a token line -/
def NotT (l : Str) : Prop := "<t ".toList.isPrefixOf l = false

theorem skip_sLine (k : Nat) : Skip (sLine k) := ⟨rfl, rfl, rfl⟩
theorem skip_gLine (k : Nat) : Skip (gLine k) := ⟨rfl, rfl, rfl⟩
theorem skip_T0 : Skip T0 := ⟨rfl, rfl, rfl⟩
theorem skip_T1 : Skip T1 := ⟨rfl, rfl, rfl⟩
theorem skip_N0 : Skip N0 := ⟨rfl, rfl, rfl⟩
theorem skip_N1 : Skip N1 := ⟨rfl, rfl, rfl⟩
theorem skip_G1 : Skip G1 := ⟨rfl, rfl, rfl⟩
theorem skip_S1 : Skip S1 := ⟨rfl, rfl, rfl⟩
theorem skip_tok (n : Nat) (w le p m : Str) : Skip (tokLineS n w le p m) := ⟨rfl, rfl, rfl⟩

theorem notT_sLine (k : Nat) : NotT (sLine k) := rfl
theorem notT_gLine (k : Nat) : NotT (gLine k) := rfl
theorem notT_T0 : NotT T0 := rfl
theorem notT_T1 : NotT T1 := rfl
theorem notT_N0 : NotT N0 := rfl
theorem notT_N1 : NotT N1 := rfl
theorem notT_G1 : NotT G1 := rfl
theorem notT_S1 : NotT S1 := rfl
theorem notT_nt (k : Nat) (c : Str) : NotT (ntLineS k c) := rfl
theorem notT_edge (lab : Str) (k : Nat) : NotT (edgeLineS lab k) := rfl
theorem notT_close : NotT closeS := rfl

theorem isS_sLine (k : Nat) : "<s ".toList.isPrefixOf (sLine k) = true := rfl
theorem isT_tok (n : Nat) (w le p m : Str) : "<t ".toList.isPrefixOf (tokLineS n w le p m) = true := rfl
theorem isNT_nt (k : Nat) (c : Str) : "<nt ".toList.isPrefixOf (ntLineS k c) = true := rfl
theorem notNT_edge (lab : Str) (k : Nat) : "<nt ".toList.isPrefixOf (edgeLineS lab k) = false := rfl
theorem isE_edge (lab : Str) (k : Nat) : "<edge ".toList.isPrefixOf (edgeLineS lab k) = true := rfl
theorem notNT_close : "<nt ".toList.isPrefixOf closeS = false := rfl
theorem notE_close : "<edge ".toList.isPrefixOf closeS = false := rfl
theorem isC_close : "</nt>".toList.isPrefixOf closeS = true := rfl

/-! ### attributes of the written lines -/

theorem nameOK_kId : NameOK kId := by unfold NameOK; decide
theorem nameOK_kWord : NameOK kWord := by unfold NameOK; decide
theorem nameOK_kLemma : NameOK kLemma := by unfold NameOK; decide
theorem nameOK_kPos : NameOK kPos := by unfold NameOK; decide
theorem nameOK_kMorph : NameOK kMorph := by unfold NameOK; decide
theorem nameOK_kCat : NameOK kCat := by unfold NameOK; decide
theorem nameOK_kLabel : NameOK kLabel := by unfold NameOK; decide
theorem nameOK_kIdref : NameOK kIdref := by unfold NameOK; decide

theorem sLine_drop (k : Nat) : (sLine k).drop 2 = attrLine [(kId, natToStr k)] ['>'] := by
  simp only [sLine, attrLine, attrNum_eq]; rfl

theorem tok_drop (n : Nat) (w le p m : Str) : (tokLineS n w le p m).drop 2 =
    attrLine [(kId, natToStr n), (kWord, w), (kLemma, le), (kPos, p), (kMorph, m)] [' ', '/', '>'] := by
  simp only [tokLineS, attrLine, attrNum_eq]; rfl

theorem nt_drop (k : Nat) (c : Str) : (ntLineS k c).drop 3 = attrLine [(kId, natToStr k), (kCat, c)] ['>'] := by
  simp only [ntLineS, attrLine, attrNum_eq]; rfl

theorem edge_drop (lab : Str) (k : Nat) : (edgeLineS lab k).drop 5 =
    attrLine [(kLabel, lab), (kIdref, natToStr k)] [' ', '/', '>'] := by
  simp only [edgeLineS, attrLine, attrNum_eq]; rfl

theorem sLine_id (k : Nat) : attr (attrs ((sLine k).drop 2)) "id" = some (natToStr k) := by
  obtain ⟨more, h⟩ := attrs_attrLine [(kId, natToStr k)] ['>'] (by
    intro kv hkv; simp only [List.mem_cons, List.not_mem_nil, or_false] at hkv; subst hkv; exact nameOK_kId)
  rw [sLine_drop, h]
  exact attr_cons_hit _ _ _ _ rfl

theorem tok_attrs (n : Nat) (w le p m : Str) :
    attr (attrs ((tokLineS n w le p m).drop 2)) "id" = some (natToStr n) ∧
    attr (attrs ((tokLineS n w le p m).drop 2)) "word" = some w ∧
    attr (attrs ((tokLineS n w le p m).drop 2)) "lemma" = some le ∧
    attr (attrs ((tokLineS n w le p m).drop 2)) "pos" = some p ∧
    attr (attrs ((tokLineS n w le p m).drop 2)) "morph" = some m := by
  obtain ⟨more, h⟩ := attrs_attrLine [(kId, natToStr n), (kWord, w), (kLemma, le), (kPos, p), (kMorph, m)] [' ', '/', '>'] (by
    intro kv hkv
    simp only [List.mem_cons, List.not_mem_nil, or_false] at hkv
    rcases hkv with rfl | rfl | rfl | rfl | rfl
    · exact nameOK_kId
    · exact nameOK_kWord
    · exact nameOK_kLemma
    · exact nameOK_kPos
    · exact nameOK_kMorph)
  rw [tok_drop, h]
  simp only [List.cons_append]
  refine ⟨attr_cons_hit _ _ _ _ rfl, ?_, ?_, ?_, ?_⟩
  · rw [attr_cons_miss _ _ _ _ (by decide)]; exact attr_cons_hit _ _ _ _ rfl
  · rw [attr_cons_miss _ _ _ _ (by decide), attr_cons_miss _ _ _ _ (by decide)]; exact attr_cons_hit _ _ _ _ rfl
  · rw [attr_cons_miss _ _ _ _ (by decide), attr_cons_miss _ _ _ _ (by decide), attr_cons_miss _ _ _ _ (by decide)]
    exact attr_cons_hit _ _ _ _ rfl
  · rw [attr_cons_miss _ _ _ _ (by decide), attr_cons_miss _ _ _ _ (by decide), attr_cons_miss _ _ _ _ (by decide),
      attr_cons_miss _ _ _ _ (by decide)]
    exact attr_cons_hit _ _ _ _ rfl

theorem nt_attrs (k : Nat) (c : Str) :
    attr (attrs ((ntLineS k c).drop 3)) "id" = some (natToStr k) ∧ attr (attrs ((ntLineS k c).drop 3)) "cat" = some c := by
  obtain ⟨more, h⟩ := attrs_attrLine [(kId, natToStr k), (kCat, c)] ['>'] (by
    intro kv hkv
    simp only [List.mem_cons, List.not_mem_nil, or_false] at hkv
    rcases hkv with rfl | rfl
    · exact nameOK_kId
    · exact nameOK_kCat)
  rw [nt_drop, h]
  simp only [List.cons_append]
  refine ⟨attr_cons_hit _ _ _ _ rfl, ?_⟩
  rw [attr_cons_miss _ _ _ _ (by decide)]; exact attr_cons_hit _ _ _ _ rfl

theorem edge_attrs (lab : Str) (k : Nat) :
    attr (attrs ((edgeLineS lab k).drop 5)) "label" = some lab ∧ attr (attrs ((edgeLineS lab k).drop 5)) "idref" = some (natToStr k) := by
  obtain ⟨more, h⟩ := attrs_attrLine [(kLabel, lab), (kIdref, natToStr k)] [' ', '/', '>'] (by
    intro kv hkv
    simp only [List.mem_cons, List.not_mem_nil, or_false] at hkv
    rcases hkv with rfl | rfl
    · exact nameOK_kLabel
    · exact nameOK_kIdref)
  rw [edge_drop, h]
  simp only [List.cons_append]
  refine ⟨attr_cons_hit _ _ _ _ rfl, ?_⟩
  rw [attr_cons_miss _ _ _ _ (by decide)]; exact attr_cons_hit _ _ _ _ rfl


/-! ### the decoder in pieces -/

abbrev NtEnt := Str × Str × List (Str × Str)
abbrev TokEnt := Str × Str × Str × Str × Str

/-- the decoder's reading of one `<t …/>` line -/
def tokOfLine (l : Str) : Option TokEnt := do
    let a := attrs (l.drop 2)
    let id ← attr a "id"; let w ← attr a "word"; let p ← attr a "pos"
    pure (id, (w, (attr a "lemma").getD "--".toList, p, (attr a "morph").getD "--".toList))

def ntListOf (ls : List Str) : List NtEnt := decTiger.nts ls none []
def edgeOfL (ntList : List NtEnt) (id : Str) : Option Str :=
  ntList.findSome? fun (_, _, es) => (es.find? (·.2 == id)).map (·.1)

theorem decTiger_unfold (lines : List Str) :
    decTiger lines =
      (((lines.map stripLine).find? (fun l => "<s ".toList.isPrefixOf l)).bind fun sLine =>
       (attr (attrs (sLine.drop 2)) "id").bind fun sid =>
       (((lines.map stripLine).filter (fun l => "<t ".toList.isPrefixOf l)).mapM tokOfLine).bind fun toks =>
        match (ntListOf (lines.map stripLine)).filter (fun x => (edgeOfL (ntListOf (lines.map stripLine)) x.1).isNone) with
        | [r] => (decTiger.build toks (ntListOf (lines.map stripLine)) (edgeOfL (ntListOf (lines.map stripLine)))
                   ((ntListOf (lines.map stripLine)).length + 2) r.1).map fun t => { sid := sid, tree := t }
        | _ => none) := by
  rfl

/-- `decTiger` succeeds when each of its stages does -/
theorem decTiger_of_stages (lines : List Str) (sl sid : Str) (toks : List TokEnt) (r : NtEnt) (tree : Tree)
    (h1 : (lines.map stripLine).find? (fun l => "<s ".toList.isPrefixOf l) = some sl)
    (h2 : attr (attrs (sl.drop 2)) "id" = some sid)
    (h3 : ((lines.map stripLine).filter (fun l => "<t ".toList.isPrefixOf l)).mapM tokOfLine = some toks)
    (h4 : (ntListOf (lines.map stripLine)).filter (fun x => (edgeOfL (ntListOf (lines.map stripLine)) x.1).isNone) = [r])
    (h5 : decTiger.build toks (ntListOf (lines.map stripLine)) (edgeOfL (ntListOf (lines.map stripLine)))
            ((ntListOf (lines.map stripLine)).length + 2) r.1 = some tree) :
    decTiger lines = some { sid := sid, tree := tree } := by
  rw [decTiger_unfold, h1, Option.bind_some, h2, Option.bind_some, h3, Option.bind_some, h4]
  simp only [h5, Option.map_some]

theorem nts_nil (cur : Option NtEnt) (acc : List NtEnt) : decTiger.nts [] cur acc = acc.reverse := by
  rw [decTiger.nts.eq_def]

theorem nts_skip (l : Str) (rest : List Str) (cur : Option NtEnt) (acc : List NtEnt) (h : Skip l) :
    decTiger.nts (l :: rest) cur acc = decTiger.nts rest cur acc := by
  obtain ⟨h1, h2, h3⟩ := h
  rw [decTiger.nts.eq_def]
  simp only [h1, h2, h3, Bool.false_eq_true, if_false]

theorem nts_skips : ∀ (pre rest : List Str) (cur : Option NtEnt) (acc : List NtEnt), (∀ l ∈ pre, Skip l) →
    decTiger.nts (pre ++ rest) cur acc = decTiger.nts rest cur acc
  | [], _, _, _, _ => rfl
  | l :: pre, rest, cur, acc, h => by
    rw [List.cons_append, nts_skip _ _ _ _ (h l (by simp)), nts_skips pre rest cur acc (fun x hx => h x (by simp [hx]))]

theorem nts_nt (k : Nat) (c : Str) (rest : List Str) (cur : Option NtEnt) (acc : List NtEnt) :
    decTiger.nts (ntLineS k c :: rest) cur acc = decTiger.nts rest (some (natToStr k, c, [])) acc := by
  rw [decTiger.nts.eq_def]
  simp only [isNT_nt, if_true, (nt_attrs k c).1, (nt_attrs k c).2, Option.getD_some]

theorem nts_edge (lab : Str) (k : Nat) (rest : List Str) (i c : Str) (es : List (Str × Str)) (acc : List NtEnt) :
    decTiger.nts (edgeLineS lab k :: rest) (some (i, c, es)) acc =
      decTiger.nts rest (some (i, c, es ++ [(lab, natToStr k)])) acc := by
  rw [decTiger.nts.eq_def]
  simp only [notNT_edge, isE_edge, Bool.false_eq_true, if_false, if_true, (edge_attrs lab k).1, (edge_attrs lab k).2,
    Option.getD_some]

theorem nts_close (rest : List Str) (x : NtEnt) (acc : List NtEnt) :
    decTiger.nts (closeS :: rest) (some x) acc = decTiger.nts rest none (x :: acc) := by
  rw [decTiger.nts.eq_def]
  simp only [notNT_close, notE_close, isC_close, Bool.false_eq_true, if_false, if_true]

theorem nts_edges {α : Type} (f : α → Str) (g : α → Nat) : ∀ (is : List α) (rest : List Str) (i c : Str)
    (es : List (Str × Str)) (acc : List NtEnt),
    decTiger.nts (is.map (fun a => edgeLineS (f a) (g a)) ++ rest) (some (i, c, es)) acc =
      decTiger.nts rest (some (i, c, es ++ is.map (fun a => (f a, natToStr (g a))))) acc
  | [], rest, i, c, es, acc => by simp
  | a :: is, rest, i, c, es, acc => by
    rw [List.map_cons, List.cons_append, nts_edge, nts_edges f g is rest i c _ acc]
    simp

/-- the table entry of one constituent -/
def ntEnt (t : Tree) (ps : Path × Tree) : NtEnt :=
  (natToStr (numOf t ps.1), ps.2.fields.label,
    (childOrder ps.2).map fun i => (edgeLab ps.2.kids[i]?, natToStr (edgeRef t ps.1 i ps.2.kids[i]?)))

theorem nts_block (t : Tree) (ps : Path × Tree) (rest : List Str) (cur : Option NtEnt) (acc : List NtEnt) :
    decTiger.nts (ntBlockS t ps ++ rest) cur acc = decTiger.nts rest none (ntEnt t ps :: acc) := by
  rw [ntBlockS, List.append_assoc, List.append_assoc, List.singleton_append, nts_nt,
    nts_edges (fun i => edgeLab ps.2.kids[i]?) (fun i => edgeRef t ps.1 i ps.2.kids[i]?), List.singleton_append, nts_close]
  rfl

theorem nts_blocks (t : Tree) : ∀ (L : List (Path × Tree)) (rest : List Str) (acc : List NtEnt),
    decTiger.nts (L.flatMap (ntBlockS t) ++ rest) none acc = decTiger.nts rest none ((L.map (ntEnt t)).reverse ++ acc)
  | [], rest, acc => rfl
  | ps :: L, rest, acc => by
    rw [List.flatMap_cons, List.append_assoc, nts_block, nts_blocks t L rest]
    simp

/-- the nonterminal table read from a written sentence -/
theorem ntListOf_stripped (sid : Nat) (t : Tree) : ntListOf (strippedLines sid t) = (consList t).map (ntEnt t) := by
  have hpre : ∀ l ∈ [sLine sid, gLine (numOf t []), T0] ++ t.terminals.map tokS ++ [T1, N0], Skip l := by
    intro l hl
    simp only [List.mem_append, List.mem_cons, List.mem_map, List.not_mem_nil, or_false] at hl
    rcases hl with ((rfl | rfl | rfl) | ⟨a, _, rfl⟩) | (rfl | rfl)
    · exact skip_sLine _
    · exact skip_gLine _
    · exact skip_T0
    · exact skip_tok _ _ _ _ _
    · exact skip_T1
    · exact skip_N0
  have hpost : ∀ l ∈ [N1, G1, S1], Skip l := by
    intro l hl
    simp only [List.mem_cons, List.not_mem_nil, or_false] at hl
    rcases hl with rfl | rfl | rfl
    · exact skip_N1
    · exact skip_G1
    · exact skip_S1
  rw [ntListOf, strippedLines, List.append_assoc, nts_skips _ _ _ _ hpre, nts_blocks]
  have := nts_skips [N1, G1, S1] [] none ((List.map (ntEnt t) (consList t)).reverse ++ []) hpost
  rw [List.append_nil] at this
  rw [this, nts_nil]
  simp

/-! ### the token table -/

def tokEnt (l : Tree) : TokEnt := (natToStr l.num, dflt l.fields.word, dflt l.fields.lemma, l.fields.label, dflt l.fields.morph)

theorem tokOfLine_tokS (l : Tree) : tokOfLine (tokS l) = some (tokEnt l) := by
  obtain ⟨h1, h2, h3, h4, h5⟩ := tok_attrs l.num (dflt l.fields.word) (dflt l.fields.lemma) l.fields.label (dflt l.fields.morph)
  unfold tokOfLine tokS
  simp only [h1, h2, h3, h4, h5, Option.getD_some]
  rfl

theorem filter_all {α} (p : α → Bool) (l : List α) (h : ∀ a ∈ l, p a = true) : l.filter p = l :=
  List.filter_eq_self.2 h
theorem filter_none {α} (p : α → Bool) (l : List α) (h : ∀ a ∈ l, p a = false) : l.filter p = [] :=
  List.filter_eq_nil_iff.2 (fun a ha => by simp [h a ha])

theorem tLines_stripped (sid : Nat) (t : Tree) :
    (strippedLines sid t).filter (fun l => "<t ".toList.isPrefixOf l) = t.terminals.map tokS := by
  have hblk : ∀ l ∈ (consList t).flatMap (ntBlockS t), "<t ".toList.isPrefixOf l = false := by
    intro l hl
    obtain ⟨ps, _, h⟩ := List.mem_flatMap.1 hl
    simp only [ntBlockS, List.mem_append, List.mem_cons, List.mem_map, List.not_mem_nil, or_false] at h
    rcases h with (rfl | ⟨i, _, rfl⟩) | rfl
    · exact notT_nt _ _
    · exact notT_edge _ _
    · exact notT_close
  have htok : ∀ l ∈ t.terminals.map tokS, "<t ".toList.isPrefixOf l = true := by
    intro l hl
    obtain ⟨a, _, rfl⟩ := List.mem_map.1 hl
    exact isT_tok _ _ _ _ _
  rw [strippedLines]
  simp only [List.filter_append, filter_all _ _ htok, filter_none _ _ hblk]
  have e1 : [sLine sid, gLine (numOf t []), T0].filter (fun l => "<t ".toList.isPrefixOf l) = [] :=
    filter_none _ _ (by
      intro l hl
      simp only [List.mem_cons, List.not_mem_nil, or_false] at hl
      rcases hl with rfl | rfl | rfl
      · exact notT_sLine _
      · exact notT_gLine _
      · exact notT_T0)
  have e2 : [T1, N0].filter (fun l => "<t ".toList.isPrefixOf l) = [] :=
    filter_none _ _ (by
      intro l hl
      simp only [List.mem_cons, List.not_mem_nil, or_false] at hl
      rcases hl with rfl | rfl
      · exact notT_T1
      · exact notT_N0)
  have e3 : [N1, G1, S1].filter (fun l => "<t ".toList.isPrefixOf l) = [] :=
    filter_none _ _ (by
      intro l hl
      simp only [List.mem_cons, List.not_mem_nil, or_false] at hl
      rcases hl with rfl | rfl | rfl
      · exact notT_N1
      · exact notT_G1
      · exact notT_S1)
  rw [e1, e2, e3]
  simp

theorem toks_stripped (sid : Nat) (t : Tree) :
    ((strippedLines sid t).filter (fun l => "<t ".toList.isPrefixOf l)).mapM tokOfLine = some (t.terminals.map tokEnt) := by
  rw [tLines_stripped]
  exact mapM_option_map _ _ _ _ (fun a _ => tokOfLine_tokS a)

theorem sLine_found (sid : Nat) (t : Tree) :
    (strippedLines sid t).find? (fun l => "<s ".toList.isPrefixOf l) = some (sLine sid) := by
  rw [strippedLines]
  simp only [List.cons_append, List.find?_cons, isS_sLine]


/-! ### paths and the constituent list -/

theorem mem_pathsL_of_get? : ∀ (ts : List Tree) (n i : Nat) (k : Tree) (p : Path), ts[i]? = some k → p ∈ paths k →
    (n + i) :: p ∈ pathsL ts n
  | [], _, _, _, _, h, _ => by simp at h
  | t :: ts, n, 0, k, p, h, hp => by
    simp only [List.getElem?_cons_zero, Option.some.injEq] at h
    subst h
    rw [pathsL]
    exact List.mem_append_left _ (List.mem_map.2 ⟨p, hp, rfl⟩)
  | t :: ts, n, i + 1, k, p, h, hp => by
    simp only [List.getElem?_cons_succ] at h
    rw [pathsL]
    have := mem_pathsL_of_get? ts (n + 1) i k p h hp
    rw [show n + 1 + i = n + (i + 1) by omega] at this
    exact List.mem_append_right _ this

theorem mem_paths_of_get? : ∀ (p : Path) (t s : Tree), get? t p = some s → p ∈ paths t
  | [], t, _, _ => nil_mem_paths t
  | i :: p, .leaf _ _, s, h => by simp [get?] at h
  | i :: p, .node f ks, s, h => by
    simp only [get?] at h
    cases hk : ks[i]? with
    | none => simp [hk] at h
    | some k =>
      simp only [hk] at h
      have := mem_pathsL_of_get? ks 0 i k p hk (mem_paths_of_get? p k s h)
      rw [Nat.zero_add] at this
      rw [paths]
      exact List.mem_cons_of_mem _ this

theorem mem_postorderP_iff (t : Tree) (p : Path) : p ∈ postorderP t ↔ (get? t p).isSome = true := by
  rw [(postorderP_perm_paths t).mem_iff]
  constructor
  · exact get?_isSome_of_mem_paths t p
  · intro h
    obtain ⟨s, hs⟩ := Option.isSome_iff_exists.1 h
    exact mem_paths_of_get? p t s hs

/-- the writer's selection of constituents -/
def consSel (t : Tree) (p : Path) : Option (Path × Tree) :=
  match t.get? p with
  | some (node f (k :: ks)) => some (p, node f (k :: ks))
  | _ => none

theorem consList_eq (t : Tree) : consList t = t.postorderP.filterMap (consSel t) := rfl

theorem consSel_some (t : Tree) (p : Path) (ps : Path × Tree) :
    consSel t p = some ps ↔ ps.1 = p ∧ ∃ f k ks, get? t p = some (node f (k :: ks)) ∧ ps.2 = node f (k :: ks) := by
  unfold consSel
  split
  · rename_i f k ks h
    constructor
    · intro e
      simp only [Option.some.injEq] at e
      subst e
      exact ⟨rfl, f, k, ks, h, rfl⟩
    · rintro ⟨e1, f', k', ks', h', e2⟩
      rw [h] at h'
      simp only [Option.some.injEq] at h'
      rw [← h'] at e2
      cases ps
      simp only at e1 e2
      rw [e1, e2]
  · rename_i hne
    constructor
    · intro e; cases e
    · rintro ⟨_, f', k', ks', h', _⟩
      exact absurd h' (hne f' k' ks')

theorem mem_consList (t : Tree) (ps : Path × Tree) :
    ps ∈ consList t ↔ ∃ f k ks, get? t ps.1 = some (node f (k :: ks)) ∧ ps.2 = node f (k :: ks) := by
  rw [consList_eq, List.mem_filterMap]
  constructor
  · rintro ⟨p, _, h⟩
    obtain ⟨e, f, k, ks, h1, h2⟩ := (consSel_some t p ps).1 h
    exact ⟨f, k, ks, e ▸ h1, h2⟩
  · rintro ⟨f, k, ks, h1, h2⟩
    refine ⟨ps.1, (mem_postorderP_iff t ps.1).2 (by rw [h1]; rfl), (consSel_some t ps.1 ps).2 ⟨rfl, f, k, ks, h1, h2⟩⟩

/-- the root constituent is listed last, once -/
theorem consList_root (f : Fields) (k : Tree) (ks : List Tree) :
    ∃ init, consList (node f (k :: ks)) = init ++ [([], node f (k :: ks))] ∧ ∀ ps ∈ init, ps.1 ≠ [] := by
  have hn := postorderP_nodup (node f (k :: ks))
  rw [postorderP] at hn
  refine ⟨(flattenSorted (postorderPK (k :: ks) 0)).filterMap (consSel (node f (k :: ks))), ?_, ?_⟩
  · rw [consList_eq, postorderP, List.filterMap_append]
    rfl
  · intro ps hps e
    obtain ⟨p, hp, h⟩ := List.mem_filterMap.1 hps
    have := ((consSel_some _ p ps).1 h).1
    rw [e] at this
    subst this
    have := (List.nodup_append.1 hn).2.2 [] hp [] (by simp)
    exact this rfl


/-! ### small list facts -/

theorem inj_of_nodup_map {α β} (f : α → β) : ∀ (l : List α), (l.map f).Nodup → ∀ a ∈ l, ∀ b ∈ l, f a = f b → a = b
  | [], _, a, ha, _, _, _ => by simp at ha
  | x :: l, h, a, ha, b, hb, e => by
    rw [List.map_cons, List.nodup_cons] at h
    rcases List.mem_cons.1 ha with ha' | ha'
    · rcases List.mem_cons.1 hb with hb' | hb'
      · rw [ha', hb']
      · exact absurd (List.mem_map.2 ⟨b, hb', by rw [← e, ha']⟩) h.1
    · rcases List.mem_cons.1 hb with hb' | hb'
      · exact absurd (List.mem_map.2 ⟨a, ha', by rw [e, hb']⟩) h.1
      · exact inj_of_nodup_map f l h.2 a ha' b hb' e

theorem nodup_map_of_inj {α β} (f : α → β) (hf : ∀ a b, f a = f b → a = b) (l : List α) (h : l.Nodup) : (l.map f).Nodup := by
  rw [List.Nodup, List.pairwise_map]
  exact h.imp (fun hab e => hab (hf _ _ e))

theorem flatMap_nodup_disjoint {α β} (f : α → List β) : ∀ (l : List α) (i j : Nat) (a b : α) (x : β),
    (l.flatMap f).Nodup → l[i]? = some a → l[j]? = some b → i < j → x ∈ f a → x ∈ f b → False
  | [], _, _, _, _, _, _, hi, _, _, _, _ => by simp at hi
  | c :: l, 0, j + 1, a, b, x, h, hi, hj, _, ha, hb => by
    simp only [List.getElem?_cons_zero, Option.some.injEq] at hi
    subst hi
    simp only [List.getElem?_cons_succ] at hj
    rw [List.flatMap_cons, List.nodup_append] at h
    exact h.2.2 x ha x (List.mem_flatMap.2 ⟨b, List.mem_of_getElem? hj, hb⟩) rfl
  | c :: l, i + 1, j + 1, a, b, x, h, hi, hj, hij, ha, hb => by
    simp only [List.getElem?_cons_succ] at hi hj
    rw [List.flatMap_cons, List.nodup_append] at h
    exact flatMap_nodup_disjoint f l i j a b x h.2.1 hi hj (by omega) ha hb

theorem find?_unique {α} (pr : α → Bool) : ∀ (l : List α) (a : α), a ∈ l → pr a = true → (∀ b ∈ l, pr b = true → b = a) →
    l.find? pr = some a
  | [], a, h, _, _ => by simp at h
  | x :: l, a, h, hp, hu => by
    by_cases hx : pr x = true
    · rw [List.find?_cons_of_pos hx, hu x (by simp) hx]
    · rw [List.find?_cons_of_neg hx]
      rcases List.mem_cons.1 h with rfl | h
      · exact absurd hp hx
      · exact find?_unique pr l a h hp (fun b hb => hu b (by simp [hb]))

/-! ### identifiers -/

theorem leaf_num (t : Tree) (p : Path) (n : Nat) (f : Fields) (h : get? t p = some (leaf n f)) : numOf t p = n := by
  unfold numOf exportNum; rw [h]; rfl

theorem isCons_of_get? (t : Tree) (p : Path) (f : Fields) (k : Tree) (ks : List Tree)
    (h : get? t p = some (node f (k :: ks))) : isCons t p = true := by
  unfold isCons; rw [h]

theorem get?_of_isCons (t : Tree) (p : Path) (h : isCons t p = true) : ∃ f k ks, get? t p = some (node f (k :: ks)) := by
  unfold isCons at h
  split at h
  · rename_i f k ks hg; exact ⟨f, k, ks, hg⟩
  · cases h

theorem cons_num (t : Tree) (p : Path) (f : Fields) (k : Tree) (ks : List Tree)
    (h : get? t p = some (node f (k :: ks))) : (p, numOf t p) ∈ exportNumbering t := by
  have hc : p ∈ TT.Props.C19.constituents t :=
    List.mem_filter.2 ⟨mem_paths_of_get? p t _ h, isCons_of_get? t p f k ks h⟩
  have hm := (TT.Props.C19.numbering_paths_perm t).symm.subset hc
  obtain ⟨x, hx, hxp⟩ := List.mem_map.1 hm
  have hs : ((exportNumbering t).find? (fun y => decide (y.1 = p))).isSome = true := by
    rw [List.find?_isSome]; exact ⟨x, hx, by simpa using hxp⟩
  obtain ⟨y, hy⟩ := Option.isSome_iff_exists.1 hs
  have hy1 : y.1 = p := by simpa using List.find?_some hy
  have hy2 := List.mem_of_find?_eq_some hy
  have : numOf t p = y.2 := by
    unfold numOf exportNum; rw [h]; simp only [hy, Option.map_some, Option.getD_some]
  rw [this, ← hy1]
  exact hy2

theorem mem_leafNums_of_get? (t : Tree) (p : Path) (n : Nat) (f : Fields) (h : get? t p = some (leaf n f)) :
    n ∈ t.leafNums := by
  have := TT.Lemmas.Trans.leafNums_sublist_get? p t _ h
  rw [leafNums_leaf] at this
  exact this.subset (by simp)

theorem leaf_path_unique : ∀ (p q : Path) (t : Tree) (n : Nat) (f g : Fields), t.leafNums.Nodup →
    get? t p = some (leaf n f) → get? t q = some (leaf n g) → p = q
  | [], [], _, _, _, _, _, _, _ => rfl
  | [], j :: q, t, n, f, g, _, hp, hq => by
    simp only [get?, Option.some.injEq] at hp; subst hp; simp [get?] at hq
  | i :: p, [], t, n, f, g, _, hp, hq => by
    simp only [get?, Option.some.injEq] at hq; subst hq; simp [get?] at hp
  | i :: p, j :: q, .leaf _ _, n, f, g, _, hp, _ => by simp [get?] at hp
  | i :: p, j :: q, .node f0 ks, n, f, g, hn, hp, hq => by
    simp only [get?] at hp hq
    cases hi : ks[i]? with
    | none => simp [hi] at hp
    | some k =>
      cases hj : ks[j]? with
      | none => simp [hj] at hq
      | some k' =>
        simp only [hi] at hp
        simp only [hj] at hq
        rw [leafNums_node] at hn
        have m1 := mem_leafNums_of_get? k p n f hp
        have m2 := mem_leafNums_of_get? k' q n g hq
        rcases Nat.lt_trichotomy i j with hlt | heq | hgt
        · exact (flatMap_nodup_disjoint leafNums ks i j k k' n hn hi hj hlt m1 m2).elim
        · subst heq
          rw [hi] at hj
          simp only [Option.some.injEq] at hj
          subst hj
          have hk : k.leafNums.Nodup :=
            (leafNums_sublist_of_mem f0 ks k (List.mem_of_getElem? hi)).nodup (by rw [leafNums_node]; exact hn)
          rw [leaf_path_unique p q k n f g hk hp hq]
        · exact (flatMap_nodup_disjoint leafNums ks j i k' k n hn hj hi hgt m2 m1).elim

theorem WF_leaf_range (t : Tree) (hwf : WF t = true) (n : Nat) (h : n ∈ t.leafNums) : 1 ≤ n ∧ n ≤ t.leafNums.length := by
  have hy := TT.Props.C19.yield_of_WF t hwf
  have := (mem_yield t n).2 h
  rw [hy, List.mem_range'_1] at this
  omega

/-- what a valid path addresses, with the shape of its identifier -/
theorem node_kinds (t : Tree) (hwf : WF t = true) (p : Path) (s : Tree) (h : get? t p = some s) :
    (∃ n f, s = leaf n f ∧ numOf t p = n ∧ 1 ≤ n ∧ n ≤ t.leafNums.length) ∨
    (∃ f k ks, s = node f (k :: ks) ∧ (p, numOf t p) ∈ exportNumbering t ∧ (p = [] ↔ numOf t p = 0) ∧
      (numOf t p = 0 ∨ 500 ≤ numOf t p)) := by
  cases s with
  | leaf n f =>
    left
    have := WF_leaf_range t hwf n (mem_leafNums_of_get? t p n f h)
    exact ⟨n, f, rfl, leaf_num t p n f h, this.1, this.2⟩
  | node f ks =>
    right
    cases ks with
    | nil =>
      have := noEmpty_get? p t _ (WF_noEmpty t hwf) h
      simp [noEmpty] at this
    | cons k ks =>
      have hm := cons_num t p f k ks h
      refine ⟨f, k, ks, rfl, hm, TT.Props.C19.numbering_root_zero t _ hm, ?_⟩
      obtain ⟨_, _, hv⟩ := TT.Props.C19.numbering_values t
      rcases hv _ (List.mem_map.2 ⟨_, hm, rfl⟩) with h0 | h5
      · exact Or.inl h0
      · exact Or.inr h5.1

/-- identifiers are pairwise different when there are fewer than 500 tokens -/
theorem numOf_inj (t : Tree) (hwf : WF t = true) (hlen : t.leafNums.length < 500) (p q : Path) (s s' : Tree)
    (hp : get? t p = some s) (hq : get? t q = some s') (e : numOf t p = numOf t q) : p = q := by
  rcases node_kinds t hwf p s hp with ⟨n, f, rfl, h1, h2, h3⟩ | ⟨f, k, ks, rfl, h1, h2, h3⟩ <;>
    rcases node_kinds t hwf q s' hq with ⟨n', f', rfl, h1', h2', h3'⟩ | ⟨f', k', ks', rfl, h1', h2', h3'⟩
  · rw [h1, h1'] at e
    subst e
    exact leaf_path_unique p q t n f f' (WF_nodup t hwf) hp hq
  · omega
  · omega
  · have hnd := TT.Props.C19.numbering_values_nodup t (WF_root t hwf).1
    have := inj_of_nodup_map (·.2) _ hnd _ h1 _ h1' e
    exact (Prod.mk.inj this).1

/-! ### the fuel suffices: the height is bounded by the number of constituents -/

theorem heightL_attained : ∀ ks : List Tree, ks ≠ [] → ∃ (i : Nat) (k : Tree), ks[i]? = some k ∧ heightL ks = height k
  | [], h => absurd rfl h
  | [k], _ => ⟨0, k, rfl, by simp [heightL]⟩
  | k :: k' :: ks, _ => by
    obtain ⟨i, x, hi, hx⟩ := heightL_attained (k' :: ks) (by simp)
    rw [heightL]
    by_cases h : heightL (k' :: ks) ≤ height k
    · exact ⟨0, k, rfl, by omega⟩
    · exact ⟨i + 1, x, by simpa using hi, by omega⟩

theorem isCons_cons (f : Fields) (ks : List Tree) (i : Nat) (k : Tree) (q : Path) (h : ks[i]? = some k) :
    isCons (node f ks) (i :: q) = isCons k q := by
  unfold isCons; simp only [get?, h]

theorem height_chain (s : Tree) : s.noEmpty = true →
    ∃ L : List Path, L.Nodup ∧ L.length = height s ∧ ∀ q ∈ L, isCons s q = true := by
  induction s using tree_ind with
  | hl n f => intro _; exact ⟨[], List.nodup_nil, rfl, by simp⟩
  | hn f ks ih =>
    intro hne
    rw [noEmpty_node] at hne
    have hks : ks ≠ [] := hne.1
    obtain ⟨i, k, hi, hk⟩ := heightL_attained ks hks
    obtain ⟨L, hL1, hL2, hL3⟩ := ih k (List.mem_of_getElem? hi) (hne.2 k (List.mem_of_getElem? hi))
    refine ⟨[] :: L.map (i :: ·), ?_, ?_, ?_⟩
    · rw [List.nodup_cons]
      refine ⟨by simp, nodup_map_of_inj _ (fun a b e => by simpa using e) L hL1⟩
    · simp [height, hk, hL2]; omega
    · intro q hq
      rcases List.mem_cons.1 hq with rfl | hq
      · cases ks with
        | nil => exact absurd rfl hks
        | cons k0 ks0 => simp [isCons, get?]
      · obtain ⟨q', hq', rfl⟩ := List.mem_map.1 hq
        rw [isCons_cons f ks i k q' hi]
        exact hL3 q' hq'

theorem height_le_consList (t : Tree) (hne : t.noEmpty = true) : height t ≤ (consList t).length := by
  obtain ⟨L, h1, h2, h3⟩ := height_chain t hne
  have hsub : L ⊆ (consList t).map (·.1) := by
    intro q hq
    obtain ⟨f, k, ks, hg⟩ := get?_of_isCons t q (h3 q hq)
    exact List.mem_map.2 ⟨(q, node f (k :: ks)), (mem_consList t _).2 ⟨f, k, ks, hg, rfl⟩, rfl⟩
  have := h1.length_le_of_subset hsub
  rw [List.length_map] at this
  omega


/-! ### looking a token up -/

theorem zipIdx_find (id : TokEnt → Str) : ∀ (L : List TokEnt) (k i : Nat) (x : TokEnt), (L.map id).Nodup → L[i]? = some x →
    (L.zipIdx k).find? (fun y => id y.1 == id x) = some (x, k + i)
  | [], _, _, _, _, h => by simp at h
  | a :: L, k, 0, x, _, h => by
    simp only [List.getElem?_cons_zero, Option.some.injEq] at h
    subst h
    simp [List.zipIdx_cons]
  | a :: L, k, i + 1, x, hn, h => by
    simp only [List.getElem?_cons_succ] at h
    rw [List.map_cons, List.nodup_cons] at hn
    have hne : (id a == id x) = false := by
      rw [beq_eq_false_iff_ne]
      intro e
      exact hn.1 (e ▸ List.mem_map.2 ⟨x, List.mem_of_getElem? h, rfl⟩)
    rw [List.zipIdx_cons, List.find?_cons_of_neg (by simp [hne]), zipIdx_find id L (k + 1) i x hn.2 h]
    congr 2; omega

theorem terminals_num (t : Tree) (hwf : WF t = true) : t.terminals.map num = List.range' 1 t.leafNums.length :=
  TT.Props.C19.yield_of_WF t hwf

theorem tokIds_nodup (t : Tree) (hwf : WF t = true) : ((t.terminals.map tokEnt).map (·.1)).Nodup := by
  have : (t.terminals.map tokEnt).map (·.1) = (t.terminals.map num).map natToStr := by
    simp only [List.map_map]; rfl
  rw [this, terminals_num t hwf]
  exact nodup_map_of_inj _ (fun a b e => natToStr_inj e) _ List.nodup_range'

theorem mem_leaves_of_get? : ∀ (p : Path) (t : Tree) (n : Nat) (f : Fields), get? t p = some (leaf n f) → leaf n f ∈ leaves t
  | [], t, n, f, h => by
    simp only [get?, Option.some.injEq] at h; subst h; simp [leaves]
  | i :: p, .leaf _ _, n, f, h => by simp [get?] at h
  | i :: p, .node f0 ks, n, f, h => by
    simp only [get?] at h
    cases hk : ks[i]? with
    | none => simp [hk] at h
    | some k =>
      simp only [hk] at h
      rw [leaves_node]
      exact List.mem_flatMap.2 ⟨k, List.mem_of_getElem? hk, mem_leaves_of_get? p k n f h⟩

/-- the token table finds a token by its number; its position is the number minus one -/
theorem tok_find (t : Tree) (hwf : WF t = true) (n : Nat) (f : Fields) (hx : leaf n f ∈ leaves t) :
    ∃ i, i + 1 = n ∧ (t.terminals.map tokEnt).zipIdx.find? (fun y => y.1.1 == natToStr n) = some (tokEnt (leaf n f), i) := by
  have hm : leaf n f ∈ t.terminals := (mem_sortBy _ _ _).2 hx
  obtain ⟨i, hi⟩ := List.mem_iff_getElem?.1 hm
  have h1 : (t.terminals.map num)[i]? = some n := by rw [List.getElem?_map, hi]; rfl
  rw [terminals_num t hwf] at h1
  have hin : i + 1 = n := by
    obtain ⟨hlt, hv⟩ := List.getElem?_eq_some_iff.1 h1
    rw [List.getElem_range'] at hv
    omega
  refine ⟨i, hin, ?_⟩
  have h2 : (t.terminals.map tokEnt)[i]? = some (tokEnt (leaf n f)) := by rw [List.getElem?_map, hi]; rfl
  have := zipIdx_find (·.1) _ 0 i _ (tokIds_nodup t hwf) h2
  rw [Nat.zero_add] at this
  exact this

theorem tok_find_none (t : Tree) (hwf : WF t = true) (m : Nat) (hm : m = 0 ∨ t.leafNums.length < m) :
    (t.terminals.map tokEnt).zipIdx.find? (fun y => y.1.1 == natToStr m) = none := by
  rw [List.find?_eq_none]
  intro y hy hp
  have hy' := List.mem_zipIdx_iff_getElem?.1 hy
  obtain ⟨l, hl, hly⟩ := List.mem_map.1 (List.mem_of_getElem? hy')
  have he : natToStr l.num = natToStr m := by
    have := beq_iff_eq.1 hp
    rw [← hly] at this
    exact this
  have hnum := natToStr_inj he
  have : l.num ∈ t.terminals.map num := List.mem_map.2 ⟨l, hl, rfl⟩
  rw [terminals_num t hwf, List.mem_range'_1] at this
  omega

/-! ### looking a constituent up -/

theorem consList_fun (t : Tree) (ps qs : Path × Tree) (hp : ps ∈ consList t) (hq : qs ∈ consList t) (e : ps.1 = qs.1) : ps = qs := by
  obtain ⟨f, k, ks, h1, h2⟩ := (mem_consList t ps).1 hp
  obtain ⟨f', k', ks', h1', h2'⟩ := (mem_consList t qs).1 hq
  rw [e, h1'] at h1
  simp only [Option.some.injEq] at h1
  cases ps; cases qs
  simp only at e h2 h2' h1
  rw [e, h2, h2', h1]

theorem nt_find (t : Tree) (hwf : WF t = true) (hlen : t.leafNums.length < 500) (ps : Path × Tree) (hps : ps ∈ consList t) :
    ((consList t).map (ntEnt t)).find? (fun x => x.1 == natToStr (numOf t ps.1)) = some (ntEnt t ps) := by
  apply find?_unique
  · exact List.mem_map.2 ⟨ps, hps, rfl⟩
  · simp [ntEnt]
  · intro b hb hpb
    obtain ⟨qs, hqs, rfl⟩ := List.mem_map.1 hb
    have e : numOf t qs.1 = numOf t ps.1 := natToStr_inj (beq_iff_eq.1 hpb)
    obtain ⟨f, k, ks, h1, _⟩ := (mem_consList t ps).1 hps
    obtain ⟨f', k', ks', h1', _⟩ := (mem_consList t qs).1 hqs
    have := numOf_inj t hwf hlen qs.1 ps.1 _ _ h1' h1 e
    rw [consList_fun t qs ps hqs hps this]


/-! ### the edges of the table -/

theorem edgeOfL_eq (ntList : List NtEnt) (id : Str) :
    edgeOfL ntList id = ntList.findSome? (fun x => (x.2.2.find? (fun e => e.2 == id)).map (·.1)) := rfl

theorem edgeOfL_none (ntList : List NtEnt) (id : Str) (h : ∀ x ∈ ntList, ∀ e ∈ x.2.2, e.2 ≠ id) : edgeOfL ntList id = none := by
  rw [edgeOfL_eq, List.findSome?_eq_none_iff]
  intro x hx
  rw [Option.map_eq_none_iff, List.find?_eq_none]
  intro e he hp
  exact h x hx e he (beq_iff_eq.1 hp)

theorem edgeOfL_some : ∀ (ntList : List NtEnt) (id L : Str), (∃ x ∈ ntList, ∃ e ∈ x.2.2, e.2 = id) →
    (∀ x ∈ ntList, ∀ e ∈ x.2.2, e.2 = id → e.1 = L) → edgeOfL ntList id = some L
  | [], _, _, hex, _ => by obtain ⟨x, hx, _⟩ := hex; simp at hx
  | x :: rest, id, L, hex, hall => by
    rw [edgeOfL_eq, List.findSome?_cons]
    cases hf : x.2.2.find? (fun e => e.2 == id) with
    | some e =>
      have h1 := List.mem_of_find?_eq_some hf
      have h2 : e.2 = id := beq_iff_eq.1 (List.find?_some (p := fun (e : Str × Str) => e.2 == id) hf)
      simp only [Option.map_some, hall x (by simp) e h1 h2]
    | none =>
      simp only [Option.map_none]
      rw [← edgeOfL_eq]
      apply edgeOfL_some rest id L
      · obtain ⟨y, hy, e, he, hid⟩ := hex
        rcases List.mem_cons.1 hy with rfl | hy
        · rw [List.find?_eq_none] at hf
          exact absurd (by simpa using hid) (hf e he)
        · exact ⟨y, hy, e, he, hid⟩
      · exact fun y hy => hall y (by simp [hy])

theorem mem_childOrder (s : Tree) (i : Nat) : i ∈ childOrder s ↔ i < s.kids.length := by
  unfold childOrder
  rw [(orderedIdx_perm s.kids).mem_iff, List.mem_range]

theorem edgeLab_some (k : Tree) : edgeLab (some k) = k.fields.edge.getD DEFAULT_EDGE := rfl

theorem edgeRef_some (t : Tree) (p : Path) (i : Nat) (k : Tree) (h : get? t (p ++ [i]) = some k) :
    edgeRef t p i (some k) = numOf t (p ++ [i]) := by
  cases k with
  | leaf n f => exact (leaf_num t _ n f h).symm
  | node f ks => rfl

/-- every edge of the table points from a constituent to one of its children -/
theorem edge_mem (t : Tree) (ps : Path × Tree) (hps : ps ∈ consList t) (e : Str × Str) (he : e ∈ (ntEnt t ps).2.2) :
    ∃ i k, get? t (ps.1 ++ [i]) = some k ∧ e = (k.fields.edge.getD DEFAULT_EDGE, natToStr (numOf t (ps.1 ++ [i]))) := by
  obtain ⟨f, k0, ks, h1, h2⟩ := (mem_consList t ps).1 hps
  obtain ⟨i, hi, rfl⟩ := List.mem_map.1 he
  have hlt := (mem_childOrder ps.2 i).1 hi
  have hk : ps.2.kids[i]? = some ps.2.kids[i] := List.getElem?_eq_getElem hlt
  have hg : get? t (ps.1 ++ [i]) = some ps.2.kids[i] := by
    rw [TT.Lemmas.Trans.get?_concat, h1, ← h2]; exact hk
  refine ⟨i, ps.2.kids[i], hg, ?_⟩
  rw [hk, edgeLab_some, edgeRef_some t ps.1 i _ hg]

/-- every non-root node is the target of an edge of its parent's entry -/
theorem edge_exists (t : Tree) (p : Path) (i : Nat) (k : Tree) (h : get? t (p ++ [i]) = some k) :
    ∃ ps ∈ consList t, ps.1 = p ∧ (k.fields.edge.getD DEFAULT_EDGE, natToStr (numOf t (p ++ [i]))) ∈ (ntEnt t ps).2.2 := by
  obtain ⟨f, ks, hp, hki⟩ := TT.Lemmas.Trans.get?_concat_some h
  cases ks with
  | nil => simp at hki
  | cons k0 ks0 =>
    refine ⟨(p, node f (k0 :: ks0)), (mem_consList t _).2 ⟨f, k0, ks0, hp, rfl⟩, rfl, ?_⟩
    have hlt : i < (node f (k0 :: ks0)).kids.length := by
      have := (List.getElem?_eq_some_iff.1 hki).1
      exact this
    refine List.mem_map.2 ⟨i, (mem_childOrder _ i).2 hlt, ?_⟩
    have hk : (node f (k0 :: ks0)).kids[i]? = some k := hki
    simp only [hk, edgeLab_some, edgeRef_some t p i k h]

theorem edgeOf_child (t : Tree) (hwf : WF t = true) (hlen : t.leafNums.length < 500) (p : Path) (i : Nat) (k : Tree)
    (h : get? t (p ++ [i]) = some k) :
    edgeOfL ((consList t).map (ntEnt t)) (natToStr (numOf t (p ++ [i]))) = some (k.fields.edge.getD DEFAULT_EDGE) := by
  apply edgeOfL_some
  · obtain ⟨ps, hps, _, he⟩ := edge_exists t p i k h
    exact ⟨ntEnt t ps, List.mem_map.2 ⟨ps, hps, rfl⟩, _, he, rfl⟩
  · intro x hx e he hid
    obtain ⟨qs, hqs, rfl⟩ := List.mem_map.1 hx
    obtain ⟨j, k', hg, rfl⟩ := edge_mem t qs hqs e he
    have hn : numOf t (qs.1 ++ [j]) = numOf t (p ++ [i]) := natToStr_inj hid
    have hpq := numOf_inj t hwf hlen _ _ _ _ hg h hn
    rw [hpq, h] at hg
    simp only [Option.some.injEq] at hg
    rw [hg]

theorem edgeOf_root (t : Tree) (hwf : WF t = true) (hlen : t.leafNums.length < 500) :
    edgeOfL ((consList t).map (ntEnt t)) (natToStr (numOf t [])) = none := by
  apply edgeOfL_none
  intro x hx e he hid
  obtain ⟨qs, hqs, rfl⟩ := List.mem_map.1 hx
  obtain ⟨j, k', hg, rfl⟩ := edge_mem t qs hqs e he
  have hn : numOf t (qs.1 ++ [j]) = numOf t [] := natToStr_inj hid
  have := numOf_inj t hwf hlen _ _ _ _ hg (show get? t [] = some t from rfl) hn
  simp at this

/-- exactly one entry of the table is nobody's child: the root -/
theorem roots_eq (t : Tree) (hwf : WF t = true) (hlen : t.leafNums.length < 500) :
    ((consList t).map (ntEnt t)).filter (fun x => (edgeOfL ((consList t).map (ntEnt t)) x.1).isNone) = [ntEnt t ([], t)] := by
  obtain ⟨f, k, ks, hroot⟩ := get?_of_isCons t [] (WF_root t hwf).1
  simp only [get?, Option.some.injEq] at hroot
  obtain ⟨init, hi1, hi2⟩ := consList_root f k ks
  rw [← hroot] at hi1
  have hinit : ∀ x ∈ init.map (ntEnt t), (edgeOfL ((consList t).map (ntEnt t)) x.1).isNone = false := by
    intro x hx
    obtain ⟨ps, hps, rfl⟩ := List.mem_map.1 hx
    have hmem : ps ∈ consList t := by rw [hi1]; exact List.mem_append_left _ hps
    obtain ⟨f', k', ks', hg, _⟩ := (mem_consList t ps).1 hmem
    have hne := hi2 ps hps
    have hsplit := (List.dropLast_concat_getLast hne).symm
    rw [hsplit] at hg
    have := edgeOf_child t hwf hlen _ _ _ hg
    rw [← hsplit] at this
    show (edgeOfL _ (natToStr (numOf t ps.1))).isNone = false
    rw [this]; rfl
  have hlast : (edgeOfL ((consList t).map (ntEnt t)) (ntEnt t ([], t)).1).isNone = true := by
    show (edgeOfL _ (natToStr (numOf t []))).isNone = true
    rw [edgeOf_root t hwf hlen]; rfl
  conv => lhs; arg 2; rw [hi1]
  rw [List.map_append, List.filter_append, filter_none _ _ hinit, List.map_cons, List.map_nil, List.nil_append]
  exact filter_all _ _ (fun a ha => by rw [List.mem_singleton.1 ha]; exact hlast)


/-! ### the recursive rebuild -/

theorem build_succ (toks : List TokEnt) (ntList : List NtEnt) (edgeOf : Str → Option Str) (fuel : Nat) (id : Str) :
    decTiger.build toks ntList edgeOf (fuel + 1) id =
      match toks.zipIdx.find? (fun x => x.1.1 == id) with
      | some x =>
        some (leaf (x.2 + 1) { label := x.1.2.2.2.1, word := some x.1.2.1, lemma := some x.1.2.2.1, morph := some x.1.2.2.2.2, edge := some ((edgeOf id).getD DEFAULT_EDGE) })
      | none =>
        match ntList.find? (fun x => x.1 == id) with
        | some x =>
          (x.2.2.mapM fun (e : Str × Str) => decTiger.build toks ntList edgeOf fuel e.2).map fun ks =>
            node { label := x.2.1, edge := some ((edgeOf id).getD DEFAULT_EDGE) } ks
        | none => none := by
  rw [decTiger.build]
  have : (fun (x : TokEnt × Nat) => match x with | (x, _) => x.1 == id) = (fun x => x.1.1 == id) := rfl
  rw [this]
  cases toks.zipIdx.find? (fun x => x.1.1 == id) with
  | some x => rfl
  | none =>
    simp only
    cases ntList.find? (fun x => x.1 == id) with
    | some x => rfl
    | none => rfl

theorem carryTigerL_eq : ∀ ks : List Tree, carryTigerL ks = ks.map carryTiger
  | [] => rfl
  | t :: ts => by simp [carryTigerL, carryTigerL_eq ts]

theorem leafNums_carryTiger (x : Tree) : (carryTiger x).leafNums = x.leafNums := by
  induction x using tree_ind with
  | hl n f => simp [carryTiger, leafNums_leaf]
  | hn f ks ih =>
    rw [carryTiger, leafNums_node, leafNums_node, carryTigerL_eq, List.flatMap_map]
    exact flatMap_congr' _ _ ks ih

theorem leftmost_sortKids_carryTiger (k : Tree) : leftmost (sortKids (carryTiger k)) = leftmost k := by
  apply leftmost_of_perm
  have := leafNums_sortKids (carryTiger k)
  rwa [leafNums_carryTiger] at this

theorem mapM_exists_map {ι α β γ : Type} (w : ι → α) (g : α → Option β) (φ : β → γ) (F : ι → γ) :
    ∀ l : List ι, (∀ i ∈ l, ∃ b, g (w i) = some b ∧ φ b = F i) → ∃ bs, (l.map w).mapM g = some bs ∧ bs.map φ = l.map F
  | [], _ => ⟨[], rfl, rfl⟩
  | i :: l, h => by
    obtain ⟨b, hb1, hb2⟩ := h i (by simp)
    obtain ⟨bs, hbs1, hbs2⟩ := mapM_exists_map w g φ F l (fun j hj => h j (by simp [hj]))
    refine ⟨b :: bs, ?_, by simp [hb2, hbs2]⟩
    simp only [List.map_cons, List.mapM_cons, hb1, hbs1]
    rfl

theorem range_map_getElem? {α β : Type} (G : α → β) (d : β) : ∀ ks : List α,
    (List.range ks.length).map (fun i => (ks[i]?.map G).getD d) = ks.map G
  | [] => rfl
  | k :: ks => by
    rw [List.length_cons, List.range_succ_eq_map, List.map_cons, List.map_map, List.map_cons]
    congr 1
    exact range_map_getElem? G d ks

/-- the leaf case: a token is rebuilt with all its fields -/
theorem build_leaf (t : Tree) (hwf : WF t = true) (p : Path) (n : Nat) (f : Fields) (h : get? t p = some (leaf n f))
    (NT : List NtEnt) (E : Str → Option Str) (fuel : Nat)
    (hE : (E (natToStr (numOf t p))).getD DEFAULT_EDGE = f.edge.getD DEFAULT_EDGE) :
    decTiger.build (t.terminals.map tokEnt) NT E (fuel + 1) (natToStr (numOf t p)) = some (carryTiger (leaf n f)) := by
  rw [build_succ, leaf_num t p n f h]
  obtain ⟨i, hi, hfind⟩ := tok_find t hwf n f (mem_leaves_of_get? p t n f h)
  rw [hfind]
  rw [leaf_num t p n f h] at hE
  simp only [hE, hi, tokEnt, carryTiger, Tree.fields, Tree.num, dflt, lit_dd]


theorem sortBy_childOrder (ks : List Tree) (G : Tree → Tree) (d : Tree) (hG : ∀ k, leftmost (G k) = leftmost k)
    (hn : (ks.map leftmost).Nodup) :
    sortBy leftmost ((orderedIdx ks).map (fun i => (ks[i]?.map G).getD d)) = sortBy leftmost (ks.map G) := by
  symm
  apply sortBy_perm_eq
  · have := (orderedIdx_perm ks).map (fun i => (ks[i]?.map G).getD d)
    rw [range_map_getElem?] at this
    exact this.symm
  · rw [List.map_map]
    have : (leftmost ∘ G) = leftmost := funext hG
    rw [this]; exact hn

/-- MAIN LEMMA: the subtree at a valid path is rebuilt, up to the storage order of children -/
theorem build_ok (t : Tree) (hwf : WF t = true) (hlen : t.leafNums.length < 500) :
    ∀ (s : Tree) (p : Path) (fuel : Nat), get? t p = some s → height s < fuel →
      (edgeOfL ((consList t).map (ntEnt t)) (natToStr (numOf t p))).getD DEFAULT_EDGE = s.fields.edge.getD DEFAULT_EDGE →
      ∃ d, decTiger.build (t.terminals.map tokEnt) ((consList t).map (ntEnt t)) (edgeOfL ((consList t).map (ntEnt t))) fuel
              (natToStr (numOf t p)) = some d ∧ sortKids d = sortKids (carryTiger s) := by
  intro s
  induction s using tree_ind with
  | hl n f =>
    intro p fuel hg hf hE
    cases fuel with
    | zero => omega
    | succ fu => exact ⟨_, build_leaf t hwf p n f hg _ _ fu hE, rfl⟩
  | hn f ks ih =>
    intro p fuel hg hf hE
    cases fuel with
    | zero => omega
    | succ fu =>
      rcases node_kinds t hwf p _ hg with ⟨n, f', e, _⟩ | ⟨f', k, ks', e, _, _, hv⟩
      · cases e
      · have hps : (p, node f ks) ∈ consList t := (mem_consList t _).2 ⟨f', k, ks', by rw [← e]; exact hg, e⟩
        have hnone := tok_find_none t hwf (numOf t p) (by omega)
        have hsome := nt_find t hwf hlen _ hps
        obtain ⟨ds, hds1, hds2⟩ := mapM_exists_map
          (fun i => (edgeLab (node f ks).kids[i]?, natToStr (edgeRef t p i (node f ks).kids[i]?)))
          (fun (e : Str × Str) => decTiger.build (t.terminals.map tokEnt) ((consList t).map (ntEnt t))
            (edgeOfL ((consList t).map (ntEnt t))) fu e.2)
          sortKids (fun i => (ks[i]?.map (fun k => sortKids (carryTiger k))).getD (leaf 0 {}))
          (childOrder (node f ks)) (by
            intro i hi
            have hlt : i < ks.length := (mem_childOrder _ i).1 hi
            have hk : ks[i]? = some ks[i] := List.getElem?_eq_getElem hlt
            have hgi : get? t (p ++ [i]) = some ks[i] := by
              rw [TT.Lemmas.Trans.get?_concat, hg]; exact hk
            have hh : height ks[i] < fu := by
              have := height_le_heightL ks ks[i] (List.getElem_mem hlt)
              simp only [height] at hf
              omega
            obtain ⟨d, hd1, hd2⟩ := ih ks[i] (List.getElem_mem hlt) (p ++ [i]) fu hgi hh (by
              rw [edgeOf_child t hwf hlen p i _ hgi]; rfl)
            refine ⟨d, ?_, ?_⟩
            · show decTiger.build _ _ _ fu (natToStr (edgeRef t p i ks[i]?)) = some d
              rw [hk, edgeRef_some t p i _ hgi]; exact hd1
            · rw [hd2, hk]; rfl)
        refine ⟨node { label := f.label, edge := some ((edgeOfL ((consList t).map (ntEnt t)) (natToStr (numOf t p))).getD DEFAULT_EDGE) } ds, ?_, ?_⟩
        · rw [build_succ, hnone]
          simp only []
          have : ((consList t).map (ntEnt t)).find? (fun x => x.1 == natToStr (numOf t p)) = some (ntEnt t (p, node f ks)) := hsome
          rw [this]
          simp only []
          have hes : (ntEnt t (p, node f ks)).2.2 = (childOrder (node f ks)).map
              (fun i => (edgeLab (node f ks).kids[i]?, natToStr (edgeRef t p i (node f ks).kids[i]?))) := rfl
          rw [hes, hds1]
          rfl
        · have hne := noEmpty_get? p t _ (WF_noEmpty t hwf) hg
          have hnd : (ks.map leftmost).Nodup := by
            apply map_leftmost_nodup
            · intro k' hk'
              exact noEmpty_leafNums_ne_nil k' ((noEmpty_node f ks).1 hne |>.2 k' hk')
            · rw [← leafNums_node f]
              exact (TT.Lemmas.Trans.leafNums_sublist_get? p t _ hg).nodup (WF_nodup t hwf)
          rw [hE]
          simp only [sortKids, carryTiger, sortKidsL_eq, carryTigerL_eq, hds2, List.map_map, Tree.fields]
          congr 1
          exact sortBy_childOrder ks (fun k => sortKids (carryTiger k)) (leaf 0 {}) leftmost_sortKids_carryTiger hnd

end TT.Lemmas.TigerRT
