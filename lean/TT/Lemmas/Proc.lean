/-
  Helper definitions and lemmas for C18 (history independence, sentence locality).
-/
import TT.Proc
import TT.IO.Read
import TT.Analysis
import TT.Grammar.Extract
import TT.Spec.Grammar
import TT.Props.C06
import TT.Lemmas.Collapse
namespace TT.Lemmas.Proc
open TT TT.Tree TT.Spec

/-! ### the cache protocol -/

theorem loadTable_absent (needPos : Bool) (fs : Str → Option Str) (fn : Str) :
    loadTable needPos fs .absent fn = loadTable.reload needPos fs fn := rfl

theorem loadTable_broken (needPos : Bool) (fs : Str → Option Str) (f fn : Str) :
    loadTable needPos fs (.broken f) fn = loadTable.reload needPos fs fn := rfl

theorem loadTable_ok_hit (needPos : Bool) (fs : Str → Option Str) (fn : Str) (t : TermTable) :
    loadTable needPos fs (.ok fn t) fn = (.ok t, .ok fn t) := by
  simp [loadTable]

theorem loadTable_ok_miss (needPos : Bool) (fs : Str → Option Str) (f fn : Str) (t : TermTable) (h : f ≠ fn) :
    loadTable needPos fs (.ok f t) fn = loadTable.reload needPos fs fn := by
  simp [loadTable, h]

theorem reload_of_parse_ok (needPos : Bool) (fs : Str → Option Str) (fn c : Str) (t : TermTable)
    (h1 : fs fn = some c) (h2 : parseTermFile needPos c = .ok t) :
    loadTable.reload needPos fs fn = (.ok t, .ok fn t) := by
  simp [loadTable.reload, h1, h2]

/-! ### counting events -/

/-- does the event add to grammar entry `(f, l, v)` -/
def ruleHit (f : Func) (l : Lin) (v : VertKey) : Event → Bool
  | .rule f' l' v' => decide (f' = f ∧ l' = l ∧ VertKey.ctx v' = v)
  | .lex _ _ => false

/-- does the event add to lexicon entry `(w, t)` -/
def lexHit (w t : Str) : Event → Bool
  | .rule .. => false
  | .lex w' t' => decide (w' = w ∧ t' = t)

theorem applyEvent_gramCount (st : Grammar × Lexicon) (e : Event) (f : Func) (l : Lin) (v : VertKey) :
    gramCount (applyEvent st e).1 f l v = gramCount st.1 f l v + (if ruleHit f l v e then 1 else 0) := by
  cases e with
  | lex w t => simp [applyEvent, ruleHit]
  | rule f' l' v' =>
    simp only [applyEvent, ruleHit]
    by_cases h : f' = f ∧ l' = l ∧ VertKey.ctx v' = v
    · obtain ⟨rfl, rfl, rfl⟩ := h
      simp [TT.Props.C06.add_gramCount_self]
    · rw [TT.Props.C06.add_gramCount_other]
      · simp [h]
      · intro he
        apply h
        simp only [Prod.mk.injEq] at he
        exact ⟨he.1.symm, he.2.1.symm, he.2.2.symm⟩

theorem applyEvent_lexCount (st : Grammar × Lexicon) (e : Event) (w t : Str) :
    lexCount (applyEvent st e).2 w t = lexCount st.2 w t + (if lexHit w t e then 1 else 0) := by
  cases e with
  | rule f' l' v' => simp [applyEvent, lexHit]
  | lex w' t' =>
    simp only [applyEvent, lexHit]
    by_cases h : w' = w ∧ t' = t
    · obtain ⟨rfl, rfl⟩ := h
      simp [TT.Props.C06.lex_add_count_self]
    · rw [TT.Props.C06.lex_add_count_other]
      · simp [h]
      · intro he
        apply h
        simp only [Prod.mk.injEq] at he
        exact ⟨he.1.symm, he.2.symm⟩

theorem foldl_applyEvent_gramCount (f : Func) (l : Lin) (v : VertKey) (evs : List Event) :
    ∀ st : Grammar × Lexicon,
    gramCount (evs.foldl applyEvent st).1 f l v = gramCount st.1 f l v + evs.countP (ruleHit f l v) := by
  induction evs with
  | nil => intro st; simp
  | cons e evs ih =>
    intro st
    rw [List.foldl_cons, ih, applyEvent_gramCount, List.countP_cons]
    omega

theorem foldl_applyEvent_lexCount (w t : Str) (evs : List Event) :
    ∀ st : Grammar × Lexicon,
    lexCount (evs.foldl applyEvent st).2 w t = lexCount st.2 w t + evs.countP (lexHit w t) := by
  induction evs with
  | nil => intro st; simp
  | cons e evs ih =>
    intro st
    rw [List.foldl_cons, ih, applyEvent_lexCount, List.countP_cons]
    omega

/-- occurrences of the grammar entry in a treebank -/
def ruleOcc (f : Func) (l : Lin) (v : VertKey) (ts : List Tree) : Nat :=
  (ts.map fun t => (events [] t).countP (ruleHit f l v)).sum

/-- occurrences of the lexicon entry in a treebank -/
def lexOcc (w t : Str) (ts : List Tree) : Nat :=
  (ts.map fun u => (events [] u).countP (lexHit w t)).sum

theorem foldl_extract_gramCount (f : Func) (l : Lin) (v : VertKey) (ts : List Tree) :
    ∀ st : Grammar × Lexicon,
    gramCount (ts.foldl (fun st t => extract t st) st).1 f l v = gramCount st.1 f l v + ruleOcc f l v ts := by
  induction ts with
  | nil => intro st; simp [ruleOcc]
  | cons t ts ih =>
    intro st
    rw [List.foldl_cons, ih]
    unfold extract
    rw [foldl_applyEvent_gramCount]
    simp only [ruleOcc, List.map_cons, List.sum_cons]
    omega

theorem foldl_extract_lexCount (w t : Str) (ts : List Tree) :
    ∀ st : Grammar × Lexicon,
    lexCount (ts.foldl (fun st t => extract t st) st).2 w t = lexCount st.2 w t + lexOcc w t ts := by
  induction ts with
  | nil => intro st; simp [lexOcc]
  | cons u ts ih =>
    intro st
    rw [List.foldl_cons, ih]
    unfold extract
    rw [foldl_applyEvent_lexCount]
    simp only [lexOcc, List.map_cons, List.sum_cons]
    omega

theorem gramCount_nil (f : Func) (l : Lin) (v : VertKey) : gramCount ([] : Grammar) f l v = 0 := rfl
theorem lexCount_nil (w t : Str) : lexCount ([] : Lexicon) w t = 0 := rfl

theorem extractAll_gramCount (f : Func) (l : Lin) (v : VertKey) (ts : List Tree) :
    gramCount (extractAll ts).1 f l v = ruleOcc f l v ts := by
  unfold extractAll
  rw [foldl_extract_gramCount, gramCount_nil, Nat.zero_add]

theorem extractAll_lexCount (w t : Str) (ts : List Tree) :
    lexCount (extractAll ts).2 w t = lexOcc w t ts := by
  unfold extractAll
  rw [foldl_extract_lexCount, lexCount_nil, Nat.zero_add]

theorem ruleOcc_append (f : Func) (l : Lin) (v : VertKey) (ts us : List Tree) :
    ruleOcc f l v (ts ++ us) = ruleOcc f l v ts + ruleOcc f l v us := by
  simp [ruleOcc]

theorem lexOcc_append (w t : Str) (ts us : List Tree) :
    lexOcc w t (ts ++ us) = lexOcc w t ts + lexOcc w t us := by
  simp [lexOcc]

/-! ### gap statistics -/

theorem total_bump (k : Nat) : ∀ l : List (Nat × Nat), GapStats.total (bump k l) = GapStats.total l + 1
  | [] => by simp [bump, GapStats.total]
  | (a, c) :: r => by
    have ih := total_bump k r
    simp only [GapStats.total] at ih
    by_cases h : a = k
    · simp [bump, GapStats.total, h]; omega
    · simp [bump, GapStats.total, h, ih]; omega

theorem run_perTree_total (s : GapStats) (t : Tree) :
    GapStats.total (s.run t).perTree = GapStats.total s.perTree + 1 := by
  simp [GapStats.run, total_bump]

theorem foldl_run_perTree_total (ts : List Tree) : ∀ s : GapStats,
    GapStats.total (ts.foldl GapStats.run s).perTree = GapStats.total s.perTree + ts.length := by
  induction ts with
  | nil => intro s; simp
  | cons t ts ih =>
    intro s
    rw [List.foldl_cons, ih, run_perTree_total, List.length_cons]
    omega

/-! ### the export reader, line by line -/

/-- the line as the export reader looks at it (`line.strip()`) -/
def stripLine (line : Str) : Str := ((line.dropWhile pyIsSpace).reverse.dropWhile pyIsSpace).reverse

/-- reader state between lines: current open sentence, tree counter, reversed output -/
abbrev ExpState := Option (Nat × List Str) × Nat × List (Nat × Tree)

/-- the line opens a sentence -/
def isBOS (l : Str) : Bool := "#BOS".toList.isPrefixOf l
/-- the line closes a sentence -/
def isEOS (l : Str) : Bool := "#EOS".toList.isPrefixOf l

/-- one line of `exportLoop` -/
def expStep (o : InOpts) (line : Str) (cur : Option (Nat × List Str)) (tc : Nat) (acc : List (Nat × Tree)) :
    Except Err ExpState :=
  match cur with
  | none =>
    if isBOS (stripLine line) then
      match (splitWs (stripLine line))[1]?.bind strToNat? with
      | some id => .ok (some (id, []), tc, acc)
      | none => .error .valueError
    else .ok (none, tc, acc)
  | some (id, body) =>
    if isEOS (stripLine line) then
      match exportSentence o body.reverse with
      | .error e => .error e
      | .ok t =>
        .ok (none, tc + 1, (if o.continuous then tc else id, if o.replaceParens then replaceParensTree t else t) :: acc)
    else .ok (some (id, stripLine line :: body), tc, acc)

theorem exportLoop_cons (o : InOpts) (line : Str) (rest : List Str) (cur : Option (Nat × List Str)) (tc : Nat)
    (acc : List (Nat × Tree)) :
    exportLoop o (line :: rest) cur tc acc =
      match expStep o line cur tc acc with
      | .error e => .error e
      | .ok s => exportLoop o rest s.1 s.2.1 s.2.2 := by
  cases cur with
  | none =>
    simp only [exportLoop, expStep, stripLine, isBOS]
    split
    · rename_i hp
      split
      · rename_i hq; simp only [hq, hp, ↓reduceIte]
      · rename_i hq; simp only [hq, hp, ↓reduceIte]
    · rename_i hp; simp only [hp]; rfl
  | some p =>
    obtain ⟨id, body⟩ := p
    simp only [exportLoop, expStep, stripLine, isEOS]
    split
    · rename_i hp
      split
      · rename_i hq; simp only [hq, hp, ↓reduceIte]
      · rename_i hq; simp only [hq, hp, ↓reduceIte]
    · rename_i hp; simp only [hp]; rfl

/-- `exportLoop` without the final `reverse`: the state after reading the lines -/
def exportScan (o : InOpts) : List Str → Option (Nat × List Str) → Nat → List (Nat × Tree) → Except Err ExpState
  | [], cur, tc, acc => .ok (cur, tc, acc)
  | line :: rest, cur, tc, acc =>
    match expStep o line cur tc acc with
    | .error e => .error e
    | .ok s => exportScan o rest s.1 s.2.1 s.2.2

/-- is a sentence open after the line (`b` = a sentence was open before) -/
def openStep (b : Bool) (l : Str) : Bool :=
  if b then !isEOS (stripLine l) else isBOS (stripLine l)

/-- does the line close a sentence -/
def closes (b : Bool) (l : Str) : Bool := b && isEOS (stripLine l)

/-- is a sentence open after the lines (start: `b` = inside a sentence) -/
def openAfter : Bool → List Str → Bool
  | b, [] => b
  | b, l :: r => openAfter (openStep b l) r

/-- number of sentences closed by the lines -/
def closedCount : Bool → List Str → Nat
  | _, [] => 0
  | b, l :: r => (if closes b l then 1 else 0) + closedCount (openStep b l) r

/-- the general decomposition: reading `a ++ b` is reading `a`, then `b` from the state reached -/
theorem exportLoop_append_scan (o : InOpts) (b : List Str) : ∀ (a : List Str) (cur : Option (Nat × List Str))
    (tc : Nat) (acc : List (Nat × Tree)),
    exportLoop o (a ++ b) cur tc acc =
      match exportScan o a cur tc acc with
      | .error e => .error e
      | .ok s => exportLoop o b s.1 s.2.1 s.2.2
  | [], cur, tc, acc => by simp [exportScan]
  | line :: rest, cur, tc, acc => by
    rw [List.cons_append, exportLoop_cons, exportScan]
    cases expStep o line cur tc acc with
    | error e => rfl
    | ok s => exact exportLoop_append_scan o b rest _ _ _

theorem exportLoop_eq_scan (o : InOpts) (a : List Str) (cur : Option (Nat × List Str)) (tc : Nat)
    (acc : List (Nat × Tree)) :
    exportLoop o a cur tc acc = (exportScan o a cur tc acc).map fun s => s.2.2.reverse := by
  have h := exportLoop_append_scan o [] a cur tc acc
  rw [List.append_nil] at h
  rw [h]
  cases exportScan o a cur tc acc with
  | error e => rfl
  | ok s => simp [exportLoop, Except.map]

theorem expStep_state (o : InOpts) (line : Str) (cur : Option (Nat × List Str)) (tc : Nat)
    (acc : List (Nat × Tree)) (s : ExpState) (h : expStep o line cur tc acc = .ok s) :
    s.1.isSome = openStep cur.isSome line ∧ s.2.1 = tc + (if closes cur.isSome line then 1 else 0) ∧
    ∃ new, s.2.2 = new ++ acc ∧ new.length = (if closes cur.isSome line then 1 else 0) := by
  cases cur with
  | none =>
    simp only [expStep] at h
    split at h
    · rename_i hp
      split at h
      · cases h; simp [openStep, closes, hp]
      · cases h
    · rename_i hp
      cases h; simp [openStep, closes, hp]
  | some p =>
    obtain ⟨id, body⟩ := p
    simp only [expStep] at h
    split at h
    · rename_i hp
      split at h
      · cases h
      · cases h
        refine ⟨by simp [openStep, hp], by simp [closes, hp], [_], rfl, by simp [closes, hp]⟩
    · rename_i hp
      cases h; simp [openStep, closes, hp]

/-- what the state after a successful scan looks like -/
theorem exportScan_state (o : InOpts) : ∀ (a : List Str) (cur : Option (Nat × List Str))
    (tc : Nat) (acc : List (Nat × Tree)) (s : ExpState), exportScan o a cur tc acc = .ok s →
    s.1.isSome = openAfter cur.isSome a ∧ s.2.1 = tc + closedCount cur.isSome a ∧
    ∃ new, s.2.2 = new ++ acc ∧ new.length = closedCount cur.isSome a
  | [], cur, tc, acc, s, h => by
    simp only [exportScan, Except.ok.injEq] at h
    subst h
    exact ⟨by simp [openAfter], by simp [closedCount], [], by simp, by simp [closedCount]⟩
  | line :: rest, cur, tc, acc, s, h => by
    simp only [exportScan] at h
    cases hs : expStep o line cur tc acc with
    | error e => rw [hs] at h; cases h
    | ok s1 =>
      rw [hs] at h
      obtain ⟨a1, a2, n1, a3, a4⟩ := expStep_state o line cur tc acc s1 hs
      obtain ⟨b1, b2, n2, b3, b4⟩ := exportScan_state o rest _ _ _ s h
      simp only [openAfter, closedCount]
      rw [a1] at b1 b2 b4
      refine ⟨b1, by omega, n2 ++ n1, by rw [b3, a3, List.append_assoc], ?_⟩
      rw [List.length_append]; omega

theorem expStep_acc (o : InOpts) (line : Str) (cur : Option (Nat × List Str)) (tc : Nat)
    (a1 a2 : List (Nat × Tree)) :
    expStep o line cur tc (a1 ++ a2) = (expStep o line cur tc a1).map fun s => (s.1, s.2.1, s.2.2 ++ a2) := by
  cases cur with
  | none =>
    simp only [expStep]
    split
    · split <;> rfl
    · rfl
  | some p =>
    obtain ⟨id, body⟩ := p
    simp only [expStep]
    split
    · split <;> rfl
    · rfl

/-- the accumulator is only prepended to -/
theorem exportLoop_acc' (o : InOpts) : ∀ (a : List Str) (cur : Option (Nat × List Str))
    (tc : Nat) (a1 a2 : List (Nat × Tree)),
    exportLoop o a cur tc (a1 ++ a2) = (exportLoop o a cur tc a1).map (a2.reverse ++ ·)
  | [], cur, tc, a1, a2 => by simp [exportLoop, Except.map]
  | line :: rest, cur, tc, a1, a2 => by
    rw [exportLoop_cons, exportLoop_cons, expStep_acc]
    cases expStep o line cur tc a1 with
    | error e => rfl
    | ok s => exact exportLoop_acc' o rest _ _ _ _

theorem exportLoop_acc (o : InOpts) (a : List Str) (cur : Option (Nat × List Str)) (tc : Nat)
    (acc : List (Nat × Tree)) :
    exportLoop o a cur tc acc = (exportLoop o a cur tc []).map (acc.reverse ++ ·) := by
  have := exportLoop_acc' o a cur tc [] acc
  simpa using this

/-- renumbering of the sentence ids when the tree counter starts `k` later -/
def renum (o : InOpts) (k : Nat) (p : Nat × Tree) : Nat × Tree := (if o.continuous then p.1 + k else p.1, p.2)

theorem expStep_shift (o : InOpts) (k : Nat) (line : Str) (cur : Option (Nat × List Str)) (tc : Nat)
    (acc : List (Nat × Tree)) :
    expStep o line cur (tc + k) (acc.map (renum o k)) =
      (expStep o line cur tc acc).map fun s => (s.1, s.2.1 + k, s.2.2.map (renum o k)) := by
  cases cur with
  | none =>
    simp only [expStep]
    split
    · split <;> rfl
    · rfl
  | some p =>
    obtain ⟨id, body⟩ := p
    simp only [expStep]
    split
    · split
      · rfl
      · simp only [Except.map, List.map_cons, renum]
        cases o.continuous <;> simp <;> omega
    · rfl

theorem exportLoop_shift (o : InOpts) (k : Nat) : ∀ (a : List Str) (cur : Option (Nat × List Str))
    (tc : Nat) (acc : List (Nat × Tree)),
    exportLoop o a cur (tc + k) (acc.map (renum o k)) = (exportLoop o a cur tc acc).map (List.map (renum o k))
  | [], cur, tc, acc => by simp [exportLoop, Except.map]
  | line :: rest, cur, tc, acc => by
    rw [exportLoop_cons, exportLoop_cons, expStep_shift]
    cases expStep o line cur tc acc with
    | error e => rfl
    | ok s => exact exportLoop_shift o k rest _ _ _

/-! ### lines of a text -/

theorem splitOnChar_snoc_sep (c : Char) (a : Str) : splitOnChar c (a ++ [c]) = splitOnChar c a ++ [[]] := by
  have := TT.Lemmas.Collapse.splitOnChar_append_sep c [] a
  simpa [splitOnChar] using this

theorem openAfter_append (a b : List Str) : ∀ s : Bool, openAfter s (a ++ b) = openAfter (openAfter s a) b := by
  induction a with
  | nil => intro s; simp [openAfter]
  | cons l a ih => intro s; simp [openAfter, ih]

theorem closedCount_append (a b : List Str) : ∀ s : Bool,
    closedCount s (a ++ b) = closedCount s a + closedCount (openAfter s a) b := by
  induction a with
  | nil => intro s; simp [openAfter, closedCount]
  | cons l a ih => intro s; simp only [List.cons_append, closedCount, openAfter, ih]; omega

end TT.Lemmas.Proc
