/-
  Helpers of wave 17 (d): the transformations `add_topnode`, `binarize`, `boyd_split` do not look at the node ids
  (`mapUid g` before = `mapUid g` after) — the hypothesis `Blind` of the history theorem of Props/C18Ids.lean.
-/
import TT.ProcIds
import TT.Transform.Binarize
import TT.Transform.Boyd
import TT.Transform.Misc
import TT.Lemmas.Sort
namespace TT.Lemmas.More17d
open TT TT.Tree

theorem mapUidL_eq_map (g : Nat → Nat) : ∀ ts : List Tree, mapUidL g ts = ts.map (mapUid g)
  | [] => rfl
  | t :: ts => by simp [mapUidL, mapUidL_eq_map g ts]

@[simp] theorem num_mapUid (g : Nat → Nat) (t : Tree) : (mapUid g t).num = t.num := by
  cases t <;> simp [mapUid, num]

@[simp] theorem head_mapUid (g : Nat → Nat) (t : Tree) : (mapUid g t).fields.head = t.fields.head := by
  cases t <;> simp [mapUid, fields]

mutual
theorem leaves_mapUid (g : Nat → Nat) : ∀ t : Tree, (mapUid g t).leaves = t.leaves.map (mapUid g)
  | .leaf k f => by simp [mapUid, leaves]
  | .node f ks => by simp [mapUid, leaves, leavesL_mapUid g ks]
theorem leavesL_mapUid (g : Nat → Nat) : ∀ ts : List Tree, leavesL (mapUidL g ts) = (leavesL ts).map (mapUid g)
  | [] => rfl
  | t :: ts => by simp [mapUidL, leavesL, leaves_mapUid g t, leavesL_mapUid g ts]
end

@[simp] theorem yield_mapUid (g : Nat → Nat) (t : Tree) : (mapUid g t).yield = t.yield := by
  simp [yield, terminals, leaves_mapUid, TT.sortBy_map num num (mapUid g) (num_mapUid g), Function.comp_def]

@[simp] theorem leftmost_mapUid (g : Nat → Nat) (t : Tree) : (mapUid g t).leftmost = t.leftmost := by simp [leftmost]
@[simp] theorem rightmost_mapUid (g : Nat → Nat) (t : Tree) : (mapUid g t).rightmost = t.rightmost := by simp [rightmost]

theorem sortBy_leftmost_map (g : Nat → Nat) (ks : List Tree) :
    sortBy leftmost (ks.map (mapUid g)) = (sortBy leftmost ks).map (mapUid g) :=
  TT.sortBy_map leftmost leftmost (mapUid g) (leftmost_mapUid g) ks

/-- `add_topnode` does not look at the ids -/
theorem blind_addTopnode (g : Nat → Nat) (t : Tree) : addTopnode (mapUid g t) = mapUid g (addTopnode t) := by
  simp [addTopnode, mapUid, mapUidL]

theorem getLast_aux (g : Nat → Nat) (r0 : Tree) (rest : List Tree) :
    (mapUid g r0 :: rest.map (mapUid g)).getLast?.getD (mapUid g r0) = mapUid g ((r0 :: rest).getLast?.getD r0) := by
  rw [← List.map_cons, List.getLast?_map]; cases (r0 :: rest).getLast? <;> rfl

theorem binChain_mapUid (g : Nat → Nat) (bf : Fields) (hbf : bf.uid = none) : ∀ (fuel : Nat) (right : Bool) (rem : List Tree),
    binChain bf right (rem.map (mapUid g)) fuel = (binChain bf right rem fuel).map (List.map (mapUid g))
  | 0, _, rem => by simp [binChain, Except.map]
  | fuel + 1, right, rem => by
    unfold binChain
    simp only [List.length_map]
    split
    · rfl
    · cases rem with
      | nil => rfl
      | cons r0 rest =>
        simp only [List.map_cons, head_mapUid]
        split
        · rfl
        · have ih := binChain_mapUid g bf hbf fuel
          have hm : ∀ inner : List Tree, node bf (inner.map (mapUid g)) = mapUid g (node bf inner) := by
            intro inner; cases bf; simp_all [mapUid, mapUidL_eq_map]
          cases hr : (right || r0.fields.head == some true) with
          | true =>
            simp only [if_true, ← List.map_cons, ← List.map_dropLast, ih]
            cases binChain bf true (r0 :: rest).dropLast fuel with
            | error e => rfl
            | ok inner => simp [Except.map, hm, getLast_aux]
          | false =>
            simp only [Bool.false_eq_true, if_false, ih]
            cases binChain bf false rest fuel with
            | error e => rfl
            | ok inner => simp [Except.map, hm]

theorem binFields_uid (bare : Bool) (l : Str) : (binFields bare l).uid = none := rfl

mutual
theorem binarizeAux_mapUid (g : Nat → Nat) (bare : Bool) : ∀ t : Tree,
    binarizeAux bare (mapUid g t) = (binarizeAux bare t).map (mapUid g)
  | .leaf k f => by simp [binarizeAux, mapUid, Except.map]
  | .node f ks => by
    have ih := binarizeAuxL_mapUid g bare ks
    simp only [mapUid, binarizeAux, ih]
    cases binarizeAuxL bare ks with
    | error e => rfl
    | ok ks' =>
      simp only [Except.map, List.length_map, sortBy_leftmost_map, List.any_map, Function.comp_def, head_mapUid,
        binChain_mapUid g _ (binFields_uid bare f.label)]
      split
      · simp [mapUid, mapUidL_eq_map]
      · split
        · rfl
        · cases binChain (binFields bare f.label) false (sortBy leftmost ks') (sortBy leftmost ks').length with
          | error e => rfl
          | ok two => simp [mapUid, mapUidL_eq_map]
theorem binarizeAuxL_mapUid (g : Nat → Nat) (bare : Bool) : ∀ ts : List Tree,
    binarizeAuxL bare (mapUidL g ts) = (binarizeAuxL bare ts).map (List.map (mapUid g))
  | [] => rfl
  | t :: ts => by
    have h1 := binarizeAux_mapUid g bare t
    have h2 := binarizeAuxL_mapUid g bare ts
    simp only [mapUidL, binarizeAuxL, h1, h2]
    cases binarizeAux bare t <;> cases binarizeAuxL bare ts <;> rfl
end

/-- `binarize` does not look at the ids -/
theorem blind_binarize (bare : Bool) (g : Nat → Nat) (t : Tree) :
    binarize bare (mapUid g t) = (binarize bare t).map (mapUid g) := binarizeAux_mapUid g bare t

@[simp] theorem carriesHead_mapUid (g : Nat → Nat) (t : Tree) : carriesHead (mapUid g t) = carriesHead t := by
  cases t <;> simp [mapUid, carriesHead, fields]

theorem groupAdjacent_map (g : Nat → Nat) : ∀ l : List Tree,
    groupAdjacent (l.map (mapUid g)) = (groupAdjacent l).map (List.map (mapUid g))
  | [] => rfl
  | [a] => rfl
  | a :: b :: rest => by
    have ih := groupAdjacent_map g (b :: rest)
    simp only [List.map_cons] at ih ⊢
    simp only [groupAdjacent, ih, leftmost_mapUid, rightmost_mapUid]
    cases groupAdjacent (b :: rest) with
    | nil => rfl
    | cons blk blks =>
      simp only [List.map_cons]
      split <;> rfl

theorem numberBlocks_map (g : Nat → Nat) (f : Fields) : ∀ (i : Nat) (blks : List (List Tree)),
    numberBlocks { f with uid := f.uid.map g } i (blks.map (List.map (mapUid g))) = (numberBlocks f i blks).map (mapUid g)
  | _, [] => rfl
  | i, blk :: blks => by
    simp [numberBlocks, numberBlocks_map g f (i + 1) blks, mapUid, mapUidL_eq_map, Function.comp_def]

mutual
theorem boydNode_mapUid (g : Nat → Nat) : ∀ t : Tree, boydNode (mapUid g t) = (boydNode t).map (List.map (mapUid g))
  | .leaf k f => by simp [boydNode, mapUid, Except.map]
  | .node f ks => by
    have ih := boydKids_mapUid g ks
    simp only [mapUid, boydNode, ih]
    cases boydKids ks with
    | error e => rfl
    | ok ks' =>
      simp only [Except.map, sortBy_leftmost_map, groupAdjacent_map, List.length_map, numberBlocks_map]
      split
      · simp [mapUid, mapUidL_eq_map]
      · split <;> rfl
theorem boydKids_mapUid (g : Nat → Nat) : ∀ ts : List Tree, boydKids (mapUidL g ts) = (boydKids ts).map (List.map (mapUid g))
  | [] => rfl
  | t :: ts => by
    have h1 := boydNode_mapUid g t
    have h2 := boydKids_mapUid g ts
    simp only [mapUidL, boydKids, h1, h2]
    cases boydNode t <;> cases boydKids ts <;> simp [Except.map]
end

/-- `boyd_split` does not look at the ids -/
theorem blind_boydSplit (g : Nat → Nat) (t : Tree) : boydSplit (mapUid g t) = (boydSplit t).map (mapUid g) := by
  simp only [boydSplit, boydNode_mapUid]
  cases boydNode t with
  | error e => rfl
  | ok l =>
    match l with
    | [] => rfl
    | [a] => rfl
    | _ :: _ :: _ => rfl

end TT.Lemmas.More17d
