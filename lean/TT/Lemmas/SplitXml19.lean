/-
  Helpers for TT/Props/C17Xml.lean (wave 19, P8): the parts of a TIGER-XML split.
  * `all_frame_part`       a character predicate that holds on `pre ++ bodies.flatten ++ post` holds on `pre ++ b ++ post`, `b ∈ bodies`
  * `getElem?_mapM_ok`     `mapM` in `Except`, element by element
  * `parts_of_groups`      every part of a TIGER-XML split is `writeAll` of its group, and `parseXmlDoc` reads the group back
-/
import TT.Props.C03Xml
import TT.Props.C17Run
namespace TT.Lemmas.SplitXml19
open TT TT.Tree TT.Xml
open TT.Spec (xsentOf)
open TT.Lemmas.Xml19 TT.Lemmas.Run

theorem all_frame_part (p : Char → Bool) (pre post : Str) (bodies : List Str) (b : Str) (hb : b ∈ bodies)
    (h : (pre ++ bodies.flatten ++ post).all p = true) : (pre ++ b ++ post).all p = true := by
  simp only [List.all_append, List.all_flatten, Bool.and_eq_true] at h ⊢
  refine ⟨⟨h.1.1, ?_⟩, h.2⟩
  exact (List.all_eq_true.1 h.1.2) b hb

theorem getElem?_mapM_ok {ε α β : Type} (f : α → Except ε β) : ∀ (l : List α) (r : List β), l.mapM f = .ok r →
    ∀ (i : Nat) (b : β), r[i]? = some b → ∃ a, l[i]? = some a ∧ f a = .ok b
  | [], r, h, i, b, hb => by
    simp only [List.mapM_nil, pure, Except.pure, Except.ok.injEq] at h
    subst h; simp at hb
  | a :: l, r, h, i, b, hb => by
    rw [List.mapM_cons] at h
    obtain ⟨b0, hb0, h⟩ := bind_ok _ _ _ h
    obtain ⟨bs, hbs, h⟩ := bind_ok _ _ _ h
    simp only [pure, Except.pure, Except.ok.injEq] at h
    subst h
    cases i with
    | zero => simp only [List.getElem?_cons_zero, Option.some.injEq] at hb; subst hb; exact ⟨a, rfl, hb0⟩
    | succ i => simpa using getElem?_mapM_ok f l bs hbs i b (by simpa using hb)

/-- groups written one by one as TIGER-XML documents: part `i` is the document of group `i`, and the XML text parser reads from it
    the element structure of exactly the sentences of group `i`, in order -/
theorem parts_of_groups (o : OutOpts) (enc : Option Str) (henc : EncOK enc) (groups : List (List (Nat × Tree))) (parts : List Str)
    (hm : groups.mapM (writeAll .tigerxml o enc) = .ok parts) (hc : ∀ part ∈ parts, part.all xmlCharOK = true)
    (i : Nat) (part : Str) (hpart : parts[i]? = some part) :
    ∃ g, groups[i]? = some g ∧ writeAll .tigerxml o enc g = .ok part ∧
      parseXmlDoc part = .ok (g.map fun st => xsentOf st.1 st.2) := by
  obtain ⟨g, hg, hw⟩ := getElem?_mapM_ok _ _ _ hm i part hpart
  exact ⟨g, hg, hw, TT.Props.C03Xml.parseXmlDoc_write o enc g part henc hw (hc part (List.mem_of_getElem? hpart))⟩

/-- all parts at once -/
theorem mapM_parse_groups (o : OutOpts) (enc : Option Str) (henc : EncOK enc) : ∀ (groups : List (List (Nat × Tree))) (parts : List Str),
    groups.mapM (writeAll .tigerxml o enc) = .ok parts → (∀ part ∈ parts, part.all xmlCharOK = true) →
    parts.mapM parseXmlDoc = .ok (groups.map fun g => g.map fun st => xsentOf st.1 st.2)
  | [], parts, h, _ => by
    simp only [List.mapM_nil, pure, Except.pure, Except.ok.injEq] at h
    subst h; rfl
  | g :: groups, parts, h, hc => by
    rw [List.mapM_cons] at h
    obtain ⟨p, hp, h⟩ := bind_ok _ _ _ h
    obtain ⟨ps, hps, h⟩ := bind_ok _ _ _ h
    simp only [pure, Except.pure, Except.ok.injEq] at h
    subst h
    have ih := mapM_parse_groups o enc henc groups ps hps (fun q hq => hc q (by simp [hq]))
    rw [List.mapM_cons, TT.Props.C03Xml.parseXmlDoc_write o enc g p henc hp (hc p (by simp)), ih]
    rfl

/-- a result that is `ok` is `ok` of what `toOption` extracts (to name the value of a closed computation) -/
theorem ok_of_isSome {ε α : Type} (x : Except ε α) (d : α) (h : x.toOption.isSome = true) : x = .ok (x.toOption.getD d) := by
  cases x with
  | error e => simp [Except.toOption] at h
  | ok a => rfl

end TT.Lemmas.SplitXml19
