/-
  Helper lemmas for the wave-4 "more" properties (C11More, C17More, C18More):
  label cleaning on pieces, prefix sums for the split distribution, and the fuel-free
  bracket reader cut at a sentence boundary.
-/
import TT.Spec.Edit
import TT.Split
import TT.Lemmas.C20
import TT.Lemmas.WF
import TT.Lemmas.Read
namespace TT.Lemmas.More4
open TT TT.Tree TT.Spec TT.Lemmas.C20 TT.Lemmas.WF TT.Lemmas.Read

/-! ### label cleaning -/

/-- without a default literal, rendering is plain concatenation of the pieces -/
theorem render_noDefault (sep : Str) (p : Pieces) (h : noDefaultLiteral sep p = true) :
    render sep false false p = p.concat := by
  simp only [noDefaultLiteral, Bool.and_eq_true, decide_eq_true_eq] at h
  obtain ⟨h1, h2⟩ := h
  obtain ⟨cat, gfP, gapP, coP, hmP⟩ := p
  cases cat <;> cases gfP <;> simp_all [render, Pieces.concat]

/-- the cleaned label as rendered pieces, both index pieces erased -/
theorem cleanLabel_render_nokeep (o : TraceOpts) (l : Str) (hk : o.keepcoindex = false) :
    cleanLabel o l = render DEFAULT_GF_SEP false false (((decompose DEFAULT_GF_SEP l).erase .gap).erase .co) := by
  obtain ⟨lab, gf, gfP, gap, co, hm, hf2, hp, hd⟩ := parse_decompose DEFAULT_GF_SEP l
  unfold cleanLabel
  simp only [hk]
  rw [hp, hd]
  exact format_render DEFAULT_GF_SEP lab gf gfP [] [] hm _ false false hf2

/-- the cleaned label as rendered pieces, gap piece erased, co-index kept -/
theorem cleanLabel_render_keep (o : TraceOpts) (l : Str) (hk : o.keepcoindex = true) :
    cleanLabel o l = render DEFAULT_GF_SEP false false ((decompose DEFAULT_GF_SEP l).erase .gap) := by
  obtain ⟨lab, gf, gfP, gap, co, hm, hf2, hp, hd⟩ := parse_decompose DEFAULT_GF_SEP l
  unfold cleanLabel
  simp only [hk]
  rw [hp, hd]
  exact format_render DEFAULT_GF_SEP lab gf gfP [] co hm _ false false hf2

/-- a string whose decomposition has no index pieces parses to a label without indices -/
theorem noIndex_of_pieces (s : Str) (hg : (decompose DEFAULT_GF_SEP s).gapP = [])
    (hc : (decompose DEFAULT_GF_SEP s).coP = []) :
    (parseLabel DEFAULT_GF_SEP s).gapindex.isEmpty = true ∧ (parseLabel DEFAULT_GF_SEP s).coindex.isEmpty = true := by
  obtain ⟨lab, gf, gfP, gap, co, hm, hf2, hp, hd⟩ := parse_decompose DEFAULT_GF_SEP s
  rw [hd] at hg hc
  rw [hp]
  simp only at hg hc ⊢
  constructor
  · cases h : gap.isEmpty
    · simp [h] at hg
    · rfl
  · cases h : co.isEmpty
    · simp [h] at hc
    · rfl

mutual
theorem cleanLabels_consLabels (o : TraceOpts) : (t : Tree) → t.noEmpty = true →
    consLabels (cleanLabels o t) = (consLabels t).map (cleanLabel o)
  | leaf n f, _ => rfl
  | node f ks, h => by
    obtain ⟨hne, hk⟩ := (noEmpty_node f ks).1 h
    have he : ks.isEmpty = false := by cases ks <;> simp_all
    simp only [cleanLabels, he, Bool.false_eq_true, if_false, consLabels, List.map_cons]
    rw [cleanLabelsL_consLabels o ks ((noEmptyL_iff ks).2 hk)]
theorem cleanLabelsL_consLabels (o : TraceOpts) : (ks : List Tree) → noEmptyL ks = true →
    consLabelsL (cleanLabelsL o ks) = (consLabelsL ks).map (cleanLabel o)
  | [], _ => rfl
  | t :: ts, h => by
    simp only [noEmptyL, Bool.and_eq_true] at h
    simp only [cleanLabelsL, consLabelsL, List.map_append,
      cleanLabels_consLabels o t h.1, cleanLabelsL_consLabels o ts h.2]
end

/-! ### prefix sums (split distribution) -/

theorem take_sum_succ (l : List Nat) (k : Nat) :
    (l.take (k + 1)).sum = (l.take k).sum + l[k]?.getD 0 := by
  induction l generalizing k with
  | nil => simp
  | cons a r ih =>
    cases k with
    | zero => simp
    | succ k => simp [ih k]; omega

theorem take_sum_mono (l : List Nat) (a b : Nat) (h : a ≤ b) : (l.take a).sum ≤ (l.take b).sum := by
  induction l generalizing a b with
  | nil => simp
  | cons x r ih =>
    cases a with
    | zero => simp
    | succ a =>
      cases b with
      | zero => omega
      | succ b => simp; exact ih a b (by omega)

/-- a position has at most one (part, offset) address -/
theorem address_unique (parts : List Nat) (i k j k' j' : Nat)
    (h1 : j < parts[k]?.getD 0) (e1 : i = (parts.take k).sum + j)
    (h2 : j' < parts[k']?.getD 0) (e2 : i = (parts.take k').sum + j') : k = k' ∧ j = j' := by
  have key : ∀ a b x y : Nat, x < parts[a]?.getD 0 → i = (parts.take a).sum + x →
      i = (parts.take b).sum + y → ¬ a < b := by
    intro a b x y hx ex ey hab
    have := take_sum_mono parts (a + 1) b hab
    rw [take_sum_succ] at this
    omega
  have hk : k = k' := by
    have := key k k' j j' h1 e1 e2
    have := key k' k j' j h2 e2 e1
    omega
  subst hk
  exact ⟨rfl, by omega⟩

/-! ### the bracket reader cut at a sentence boundary -/

/-- the automaton state after all tokens (fuel-free, without the discobracket post-pass) -/
def brFinal (o : InOpts) : BrState → List (Str × LexClass) → Except Err BrState
  | st, [] => .ok st
  | st, tok :: rest =>
    match brStep o st tok with
    | .error e => .error e
    | .ok (st', none) => brFinal o st' rest
    | .ok (st', some t) => brFinal o { st' with out := (st.cnt, t) :: st'.out } rest

/-- what the loop answers at the end of the token stream -/
def brEnd (st : BrState) : Except Err (List (Nat × Tree)) :=
  if st.level != 0 then .error .valueError else .ok st.out.reverse

theorem brRun_append (o : InOpts) (a b : List (Str × LexClass)) : ∀ st : BrState,
    brRun o st (a ++ b) = match brFinal o st a with
      | .error e => .error e
      | .ok s => brRun o s b := by
  induction a with
  | nil => intro st; rfl
  | cons tok rest ih =>
    intro st
    simp only [List.cons_append, brRun, brFinal]
    cases hs : brStep o st tok with
    | error e => rfl
    | ok x =>
      obtain ⟨st', r⟩ := x
      cases r with
      | none => exact ih st'
      | some t => exact ih _

theorem brRun_eq_final (o : InOpts) (st : BrState) (a : List (Str × LexClass)) :
    brRun o st a = match brFinal o st a with
      | .error e => .error e
      | .ok s => brEnd s := by
  have := brRun_append o a [] st
  simpa [brRun, brEnd] using this

/-- `state = 0` exactly when no bracket is open -/
def Inv0 (st : BrState) : Prop := (st.state = 0 ↔ st.level = 0)
/-- between sentences the queue is empty and the token counter is reset -/
def Inv2 (st : BrState) : Prop := st.state = 0 → st.queue = [] ∧ st.termCnt = 1

theorem brStep_inv0 (o : InOpts) (st st' : BrState) (tok : Str × LexClass) (r : Option Tree)
    (h : brStep o st tok = .ok (st', r)) (hi : Inv0 st) : Inv0 st' := by
  unfold Inv0 at *
  unfold brStep at h
  simp only at h
  split at h
  all_goals (repeat' split at h)
  all_goals first
    | (cases h; done)
    | (simp only [Except.ok.injEq, Prod.mk.injEq] at h; obtain ⟨rfl, rfl⟩ := h
       simp only [beq_iff_eq, Bool.or_eq_true, Bool.and_eq_true, Bool.not_eq_true'] at *
       try (first | omega | (split <;> omega)))

theorem brStep_inv2 (o : InOpts) (st st' : BrState) (tok : Str × LexClass) (r : Option Tree)
    (h : brStep o st tok = .ok (st', r)) (hi : Inv2 st) : Inv2 st' := by
  unfold Inv2 at *
  unfold brStep at h
  simp only at h
  split at h
  all_goals (repeat' split at h)
  all_goals first
    | (cases h; done)
    | (simp only [Except.ok.injEq, Prod.mk.injEq] at h; obtain ⟨rfl, rfl⟩ := h
       simp only [beq_iff_eq, Bool.or_eq_true, Bool.and_eq_true, Bool.not_eq_true'] at *
       try (first | (intro h0; omega) | exact hi | (split <;> intro h0 <;> omega) | simp))

/-- a property of states kept by every step (pushing a finished tree included) holds at the end -/
theorem brFinal_induct (o : InOpts) (P : BrState → Prop)
    (hnone : ∀ st st' tok, P st → brStep o st tok = .ok (st', none) → P st')
    (hsome : ∀ st st' tok t, P st → brStep o st tok = .ok (st', some t) →
      P { st' with out := (st.cnt, t) :: st'.out })
    (a : List (Str × LexClass)) : ∀ (st s : BrState), P st → brFinal o st a = .ok s → P s := by
  induction a with
  | nil => intro st s hp h; simp only [brFinal] at h; cases h; exact hp
  | cons tok rest ih =>
    intro st s hp h
    simp only [brFinal] at h
    cases hs : brStep o st tok with
    | error e => rw [hs] at h; cases h
    | ok x =>
      obtain ⟨st', r⟩ := x
      rw [hs] at h
      cases r with
      | none => exact ih st' s (hnone st st' tok hp hs) h
      | some t => exact ih _ s (hsome st st' tok t hp hs) h

theorem brFinal_inv0 (o : InOpts) (a : List (Str × LexClass)) (st s : BrState) (hi : Inv0 st)
    (h : brFinal o st a = .ok s) : Inv0 s :=
  brFinal_induct o Inv0 (fun st st' tok hp hs => brStep_inv0 o st st' tok none hs hp)
    (fun st st' tok t hp hs => brStep_inv0 o st st' tok (some t) hs hp) a st s hi h

theorem brFinal_inv2 (o : InOpts) (a : List (Str × LexClass)) (st s : BrState) (hi : Inv2 st)
    (h : brFinal o st a = .ok s) : Inv2 s :=
  brFinal_induct o Inv2 (fun st st' tok hp hs => brStep_inv2 o st st' tok none hs hp)
    (fun st st' tok t hp hs => brStep_inv2 o st st' tok (some t) hs hp) a st s hi h

/-- the sentence counter advances by one per delivered tree; delivered trees are only added -/
theorem brFinal_cnt (o : InOpts) (a : List (Str × LexClass)) (st s : BrState)
    (h : brFinal o st a = .ok s) :
    st.out.length ≤ s.out.length ∧ s.cnt + st.out.length = st.cnt + s.out.length := by
  refine brFinal_induct o (fun x => st.out.length ≤ x.out.length ∧ x.cnt + st.out.length = st.cnt + x.out.length)
    ?_ ?_ a st s ⟨Nat.le_refl _, rfl⟩ h
  · intro x x' tok hp hs
    have := brStep_cnt_out o x x' tok none hs
    simp only [Option.isSome_none, Bool.false_eq_true, if_false] at this
    rw [this.1, this.2]; exact hp
  · intro x x' tok t hp hs
    have := brStep_cnt_out o x x' tok (some t) hs
    simp only [Option.isSome_some, if_true] at this
    simp only [List.length_cons, this.1, this.2]
    omega

/-- the step never looks at the delivered trees -/
theorem brStep_out_irrel (o : InOpts) (st : BrState) (X : List (Nat × Tree)) (tok : Str × LexClass) :
    brStep o { st with out := X } tok =
      match brStep o st tok with
      | .error e => .error e
      | .ok (s, r) => .ok ({ s with out := X }, r) := by
  obtain ⟨w, c⟩ := tok
  cases c <;> simp only [brStep] <;> (repeat' split) <;>
    first | rfl | (rename_i heq; cases heq; rfl) | (rename_i heq; cases heq) | simp_all

/-- trees delivered earlier are passed through unchanged in front of the new ones -/
theorem brRun_out_prefix (o : InOpts) (pre : List (Nat × Tree)) (toks : List (Str × LexClass)) :
    ∀ st : BrState, brRun o { st with out := st.out ++ pre } toks =
      match brRun o st toks with
      | .error e => .error e
      | .ok r => .ok (pre.reverse ++ r) := by
  induction toks with
  | nil =>
    intro st
    simp only [brRun]
    split <;> simp
  | cons tok rest ih =>
    intro st
    simp only [brRun]
    rw [brStep_out_irrel]
    cases hs : brStep o st tok with
    | error e => rfl
    | ok x =>
      obtain ⟨st', r⟩ := x
      have hco := brStep_cnt_out o st st' tok r hs
      cases r with
      | none =>
        simp only
        have := ih st'
        rw [hco.1] at this
        exact this
      | some t =>
        simp only
        have := ih { st' with out := (st.cnt, t) :: st'.out }
        simp only [List.cons_append, hco.1] at this
        rw [hco.1]
        exact this

/-- the reader loop does not look at `firstId` -/
theorem brRun_firstId (o : InOpts) (x : Option Nat) (toks : List (Str × LexClass)) :
    ∀ st : BrState, brRun { o with firstId := x } st toks = brRun o st toks := by
  induction toks with
  | nil => intro st; rfl
  | cons tok rest ih =>
    intro st
    have e : brStep { o with firstId := x } st tok = brStep o st tok := rfl
    simp only [brRun, e]
    cases hs : brStep o st tok with
    | error e => rfl
    | ok y =>
      obtain ⟨st', r⟩ := y
      cases r with
      | none => exact ih st'
      | some t => exact ih _

/-- the lexer's two buffers after reading `s` -/
def lexBuf : Str → Str → Str → Str × Str
  | [], tok, ws => (tok, ws)
  | c :: cs, tok, ws =>
    if c = '(' || c = ')' then lexBuf cs [] []
    else if pyIsSpace c then lexBuf cs [] (c :: ws)
    else lexBuf cs (c :: tok) []

theorem lexAux_append (a b : Str) : ∀ (tok ws : Str),
    lexAux (a ++ b) tok ws = lexAux a tok ws ++ lexAux b (lexBuf a tok ws).1 (lexBuf a tok ws).2 := by
  induction a with
  | nil => intro tok ws; simp [lexAux, lexBuf]
  | cons c cs ih =>
    intro tok ws
    simp only [List.cons_append, lexAux, lexBuf]
    split
    · rw [ih]; simp only [List.append_assoc]
    · split
      · rw [ih]; simp only [List.append_assoc]
      · rw [ih]; simp only [List.append_assoc]

/-- cutting the token stream where the reader is between sentences: whatever the lexer still holds
    in its buffers at the cut is junk for the automaton -/
theorem brRun_lex_append (o : InOpts) (st : BrState) (a b : Str) :
    brRun o st (bracketLex (a ++ b)) = match brFinal o st (bracketLex a) with
      | .error e => .error e
      | .ok s => if s.state = 0 then brRun o s (bracketLex b)
                 else brRun o s (lexAux b (lexBuf a [] []).1 (lexBuf a [] []).2) := by
  unfold bracketLex
  rw [lexAux_append, brRun_append]
  cases brFinal o st (lexAux a [] []) with
  | error e => rfl
  | ok s =>
    simp only
    split
    · rename_i h0; exact run0_buf o s h0 b _ _
    · rfl

end TT.Lemmas.More4
