/-
  Wave 19 (C01 rows 7, 10): the TIGER-XML reader model against the declarative decoder `IsXTree` of `TT/Spec/More19t.lean`
  on element structures with arbitrary id strings.
-/
import TT.Lemmas.More12h
import TT.Spec.More19t
namespace TT.Lemmas.Tiger19
open TT TT.Tree TT.Spec
open TT.Lemmas.More12h TT.Lemmas.Layout

/-! ### list helpers -/

theorem find?_zipIdx_get {α : Type} (p : α → Bool) : ∀ (l : List α) (k : Nat) (x : α × Nat),
    (l.zipIdx k).find? (fun y => p y.1) = some x → k ≤ x.2 ∧ l[x.2 - k]? = some x.1 ∧ p x.1 = true
  | [], _, _, h => by simp at h
  | a :: l, k, x, h => by
    rw [List.zipIdx_cons, List.find?_cons] at h
    cases hp : p a with
    | true =>
      simp only [hp] at h
      cases h
      simp [hp]
    | false =>
      simp only [hp] at h
      obtain ⟨h1, h2, h3⟩ := find?_zipIdx_get p l (k + 1) x h
      refine ⟨by omega, ?_, h3⟩
      have : x.2 - k = (x.2 - (k + 1)) + 1 := by omega
      rw [this, List.getElem?_cons_succ]; exact h2

theorem find?_zipIdx_none {α : Type} (p : α → Bool) (l : List α) (k : Nat) :
    (l.zipIdx k).find? (fun y => p y.1) = none ↔ ∀ a ∈ l, p a = false := by
  induction l generalizing k with
  | nil => simp
  | cons a l ih =>
    rw [List.zipIdx_cons, List.find?_cons]
    cases hp : p a with
    | true => simp [hp]
    | false => simp [hp, ih]

theorem filter_singleton {α : Type} (p : α → Bool) (a : α) : ∀ (l : List α), l.Nodup → a ∈ l → (∀ x ∈ l, p x = true ↔ x = a) →
    l.filter p = [a]
  | [], _, h, _ => by simp at h
  | b :: l, hn, hm, hp => by
    have hnb := (List.nodup_cons.1 hn)
    by_cases hb : b = a
    · subst hb
      have h1 : p b = true := (hp b (by simp)).2 rfl
      have h2 : l.filter p = [] := by
        apply List.filter_eq_nil_iff.2
        intro x hx hpx
        have := (hp x (by simp [hx])).1 hpx
        subst this; exact hnb.1 hx
      rw [List.filter_cons, if_pos h1, h2]
    · have h1 : ¬ p b = true := fun h => hb ((hp b (by simp)).1 h)
      have hm' : a ∈ l := by
        rcases List.mem_cons.1 hm with h | h
        · exact absurd h.symm hb
        · exact h
      rw [List.filter_cons, if_neg h1]
      exact filter_singleton p a l hnb.2 hm' (fun x hx => hp x (by simp [hx]))

/-! ### the builder yields only trees of the decoder (no hypothesis on the structure) -/

theorem build_kids_sound (s : XSent) (f : Option Str × Str → Option Tree) :
    ∀ (es : List (Option Str × Str)) (ks : List Tree), (∀ a ∈ es, ∀ b, f a = some b → IsXTree s a.2 a.1 b) →
      es.mapM f = some ks → IsXKids s es ks
  | [], ks, _, h => by
    simp only [List.mapM_nil, pure, Option.some.injEq] at h
    subst h; simp [IsXKids]
  | a :: l, ks, ih, h => by
    rw [List.mapM_cons] at h
    cases ha : f a with
    | none => simp [ha] at h
    | some b =>
      cases hl : l.mapM f with
      | none => simp [ha, hl] at h
      | some bs' =>
        simp only [ha, hl, Option.bind_eq_bind, Option.bind_some, pure, Option.some.injEq] at h
        subst h
        rw [IsXKids]
        exact ⟨ih a (by simp) _ ha, build_kids_sound s f l bs' (fun x hx => ih x (by simp [hx])) hl⟩

theorem tigerBuild_sound (s : XSent) : ∀ (fuel : Nat) (i : Str) (e : Option Str) (t : Tree),
    tigerBuild s fuel i e = some t → IsXTree s i e t := by
  intro fuel
  induction fuel with
  | zero => intro i e t h; simp [tigerBuild] at h
  | succ fuel ih =>
    intro i e t h
    rw [tigerBuild_succ] at h
    cases hf : s.terms.zipIdx.find? (fun x => x.1.id == i) with
    | some x =>
      simp only [hf, Option.some.injEq] at h
      subst h
      obtain ⟨_, h2, h3⟩ := find?_zipIdx_get (fun (t : XTerm) => t.id == i) s.terms 0 x hf
      rw [IsXTree]
      exact ⟨x.1, by omega, by simpa using h2, by simpa using h3, rfl⟩
    | none =>
      simp only [hf] at h
      cases hn : s.nts.find? (·.id == i) with
      | none => simp [hn] at h
      | some nt =>
        simp only [hn, Option.map_eq_some_iff] at h
        obtain ⟨ks, hks, rfl⟩ := h
        have hmem : nt ∈ s.nts := List.mem_of_find?_eq_some hn
        rw [IsXTree]
        refine ⟨nt, hmem, ?_, rfl, build_kids_sound s _ nt.edges ks ?_ hks⟩
        · simpa using List.find?_some hn
        · intro a ha b hb
          exact ih _ _ _ hb

/-! ### on a well-formed structure the builder succeeds -/

theorem build_kids_complete (s : XSent) (fuel : Nat) :
    ∀ (es : List (Option Str × Str)),
      (∀ e ∈ es, ∃ t, tigerBuild s fuel e.2 e.1 = some t) →
      ∃ ks, es.mapM (fun (e : Option Str × Str) => tigerBuild s fuel e.2 e.1) = some ks
  | [], _ => ⟨[], rfl⟩
  | a :: l, h => by
    obtain ⟨b, hb⟩ := h a (by simp)
    obtain ⟨bs, hbs⟩ := build_kids_complete s fuel l (fun x hx => h x (by simp [hx]))
    refine ⟨b :: bs, ?_⟩
    rw [List.mapM_cons, hb, hbs]; rfl

theorem tigerBuild_complete (s : XSent) (rk : Str → Nat) (hres : ∀ r ∈ s.refs, r ∈ s.ids)
    (hrk : ∀ nt ∈ s.nts, ∀ e ∈ nt.edges, rk e.2 < rk nt.id) :
    ∀ (fuel : Nat) (i : Str) (e : Option Str), i ∈ s.ids → rk i < fuel → ∃ t, tigerBuild s fuel i e = some t := by
  intro fuel
  induction fuel with
  | zero => intro i e _ h; omega
  | succ fuel ih =>
    intro i e hi hlt
    rw [tigerBuild_succ]
    cases hf : s.terms.zipIdx.find? (fun x => x.1.id == i) with
    | some x => exact ⟨_, rfl⟩
    | none =>
      simp only
      have hnone := (find?_zipIdx_none (fun (t : XTerm) => t.id == i) s.terms 0).1 hf
      have hint : i ∈ s.nts.map (·.id) := by
        rcases List.mem_append.1 hi with h | h
        · obtain ⟨tm, htm, rfl⟩ := List.mem_map.1 h
          have := hnone tm htm
          simp at this
        · exact h
      obtain ⟨nt0, hnt0, hid0⟩ := List.mem_map.1 hint
      cases hn : s.nts.find? (·.id == i) with
      | none =>
        have := List.find?_eq_none.1 hn nt0 hnt0
        simp [hid0] at this
      | some nt =>
        have hmem : nt ∈ s.nts := List.mem_of_find?_eq_some hn
        have hid : nt.id = i := by simpa using List.find?_some hn
        obtain ⟨ks, hks⟩ := build_kids_complete s fuel nt.edges (by
          intro ed hed
          apply ih
          · apply hres
            exact List.mem_flatMap.2 ⟨nt, hmem, List.mem_map_of_mem hed⟩
          · have := hrk nt hmem ed hed
            rw [hid] at this; omega)
        simp only [hks, Option.map_some]
        exact ⟨_, rfl⟩

/-! ### the decoder's tree is unique when the ids are distinct -/

theorem term_unique (s : XSent) (hn : s.ids.Nodup) (n m : Nat) (a b : XTerm)
    (ha : s.terms[n]? = some a) (hb : s.terms[m]? = some b) (hid : a.id = b.id) : n = m ∧ a = b := by
  have hnd : (s.terms.map (·.id)).Nodup := (List.nodup_append.1 hn).1
  have h1 : (s.terms.map (·.id))[n]? = some a.id := by simp [ha]
  have h2 : (s.terms.map (·.id))[m]? = some a.id := by simp [hb, hid]
  have hnm : n = m := by
    have hln : n < (s.terms.map (·.id)).length := (List.getElem?_eq_some_iff.1 h1).1
    have hlm : m < (s.terms.map (·.id)).length := (List.getElem?_eq_some_iff.1 h2).1
    have e1 := (List.getElem?_eq_some_iff.1 h1).2
    have e2 := (List.getElem?_eq_some_iff.1 h2).2
    exact (List.getElem_inj (h₀ := hln) (h₁ := hlm) hnd).1 (e1.trans e2.symm)
  subst hnm
  rw [ha] at hb
  exact ⟨rfl, Option.some.inj hb⟩

theorem nt_unique (s : XSent) (hn : s.ids.Nodup) (a b : XNt) (ha : a ∈ s.nts) (hb : b ∈ s.nts) (hid : a.id = b.id) : a = b := by
  have hnd : (s.nts.map (·.id)).Nodup := (List.nodup_append.1 hn).2.1
  obtain ⟨i, hi, rfl⟩ := List.getElem_of_mem ha
  obtain ⟨j, hj, rfl⟩ := List.getElem_of_mem hb
  have hi' : i < (s.nts.map (·.id)).length := by simpa using hi
  have hj' : j < (s.nts.map (·.id)).length := by simpa using hj
  have : (s.nts.map (·.id))[i] = (s.nts.map (·.id))[j] := by simpa using hid
  have hij := (List.getElem_inj (h₀ := hi') (h₁ := hj') hnd).1 this
  subst hij; rfl

mutual
theorem isXTree_unique (s : XSent) (hn : s.ids.Nodup) : ∀ (t t' : Tree) (i : Str) (e : Option Str),
    IsXTree s i e t → IsXTree s i e t' → t = t'
  | .leaf n f, .leaf m g, i, e, h, h' => by
    rw [IsXTree] at h h'
    obtain ⟨a, ha1, ha2, ha3, rfl⟩ := h
    obtain ⟨b, hb1, hb2, hb3, rfl⟩ := h'
    obtain ⟨h1, h2⟩ := term_unique s hn _ _ a b ha2 hb2 (ha3.trans hb3.symm)
    have : n = m := by omega
    subst this; subst h2; rfl
  | .leaf n f, .node g ks, i, e, h, h' => by
    rw [IsXTree] at h
    rw [IsXTree] at h'
    obtain ⟨a, _, ha2, ha3, _⟩ := h
    obtain ⟨b, hb1, hb2, _⟩ := h'
    exfalso
    have h1 : i ∈ s.terms.map (·.id) := ha3 ▸ List.mem_map_of_mem (List.mem_of_getElem? ha2)
    have h2 : i ∈ s.nts.map (·.id) := hb2 ▸ List.mem_map_of_mem hb1
    exact (List.nodup_append.1 hn).2.2 i h1 i h2 rfl
  | .node g ks, .leaf n f, i, e, h', h => by
    rw [IsXTree] at h
    rw [IsXTree] at h'
    obtain ⟨a, _, ha2, ha3, _⟩ := h
    obtain ⟨b, hb1, hb2, _⟩ := h'
    exfalso
    have h1 : i ∈ s.terms.map (·.id) := ha3 ▸ List.mem_map_of_mem (List.mem_of_getElem? ha2)
    have h2 : i ∈ s.nts.map (·.id) := hb2 ▸ List.mem_map_of_mem hb1
    exact (List.nodup_append.1 hn).2.2 i h1 i h2 rfl
  | .node f ks, .node g ks', i, e, h, h' => by
    rw [IsXTree] at h h'
    obtain ⟨a, ha1, ha2, rfl, ha4⟩ := h
    obtain ⟨b, hb1, hb2, rfl, hb4⟩ := h'
    have := nt_unique s hn a b ha1 hb1 (ha2.trans hb2.symm)
    subst this
    rw [isXKids_unique s hn ks ks' a.edges ha4 hb4]
theorem isXKids_unique (s : XSent) (hn : s.ids.Nodup) : ∀ (ks ks' : List Tree) (es : List (Option Str × Str)),
    IsXKids s es ks → IsXKids s es ks' → ks = ks'
  | [], [], [], _, _ => rfl
  | [], _ :: _, [], _, h => by simp [IsXKids] at h
  | [], _, _ :: _, h, _ => by simp [IsXKids] at h
  | _ :: _, _, [], h, _ => by simp [IsXKids] at h
  | _ :: _, [], _ :: _, _, h => by simp [IsXKids] at h
  | k :: ks, k' :: ks', ed :: es, h, h' => by
    rw [IsXKids] at h h'
    rw [isXTree_unique s hn k k' _ _ h.1 h'.1, isXKids_unique s hn ks ks' es h.2 h'.2]
end

/-! ### a numbering that decreases along the edges can be taken below the number of elements -/

theorem countP_le' {α : Type} (p q : α → Bool) (himp : ∀ x, p x = true → q x = true) : ∀ (l : List α), l.countP p ≤ l.countP q
  | [] => Nat.le_refl _
  | b :: l => by
    have ih := countP_le' p q himp l
    rw [List.countP_cons, List.countP_cons]
    have : (if p b = true then 1 else 0) ≤ (if q b = true then 1 else 0) := by
      by_cases hp : p b = true
      · rw [if_pos hp, if_pos (himp b hp)]; exact Nat.le_refl _
      · rw [if_neg hp]; exact Nat.zero_le _
    omega

theorem countP_lt' {α : Type} (p q : α → Bool) (himp : ∀ x, p x = true → q x = true) : ∀ (l : List α) (a : α),
    a ∈ l → q a = true → p a = false → l.countP p < l.countP q
  | [], _, h, _, _ => by simp at h
  | b :: l, a, hm, hq, hp => by
    rw [List.countP_cons, List.countP_cons]
    rcases List.mem_cons.1 hm with h | h
    · subst h
      have := countP_le' p q himp l
      rw [if_neg (by simp [hp]), if_pos hq]; omega
    · have := countP_lt' p q himp l a h hq hp
      have : (if p b = true then 1 else 0) ≤ (if q b = true then 1 else 0) := by
        by_cases hp : p b = true
        · rw [if_pos hp, if_pos (himp b hp)]; exact Nat.le_refl _
        · rw [if_neg hp]; exact Nat.zero_le _
      omega

theorem rank_bounded (s : XSent) (hres : ∀ r ∈ s.refs, r ∈ s.ids) (rk : Str → Nat)
    (hrk : ∀ nt ∈ s.nts, ∀ e ∈ nt.edges, rk e.2 < rk nt.id) :
    ∃ rk' : Str → Nat, (∀ i, rk' i ≤ s.ids.length) ∧ ∀ nt ∈ s.nts, ∀ e ∈ nt.edges, rk' e.2 < rk' nt.id := by
  refine ⟨fun i => s.ids.countP (fun j => decide (rk j < rk i)), fun i => List.countP_le_length, ?_⟩
  intro nt hnt e he
  have h := hrk nt hnt e he
  apply countP_lt' _ _ _ s.ids e.2 (hres _ (List.mem_flatMap.2 ⟨nt, hnt, List.mem_map_of_mem he⟩))
  · simpa using h
  · simp
  · intro x hx
    simp only [decide_eq_true_eq] at hx ⊢
    omega

/-! ### the sentence reader on a well-formed structure -/

theorem tigerSentence_XWF (o : InOpts) (s : XSent) (root : Str) (h : XWF s root) :
    ∃ d, IsXTree s root (some DEFAULT_EDGE) d ∧ tigerSentence o s = .ok (tigerPost o (vrootOf d)) := by
  obtain ⟨hn, hres, hrm, hrf, hone, rk0, hrk0⟩ := h
  obtain ⟨rk, hrk1, hrk2⟩ := rank_bounded s hres rk0 hrk0
  have h1 : s.refs.any (fun r => !s.ids.contains r) = false := by
    rw [List.any_eq_false]
    intro r hr
    simp [hres r hr]
  have hcount : ∀ r ∈ s.refs, s.refs.count r = 1 := by
    intro r hr
    apply hone r (hres r hr)
    rintro rfl; exact hrf hr
  have h2 : s.refs.any (fun r => decide (s.refs.count r > 1)) = false := by
    rw [List.any_eq_false]
    intro r hr
    simp [hcount r hr]
  have h3 : s.ids.eraseDups.filter (fun i => !s.refs.contains i) = [root] := by
    rw [eraseDups_of_nodup _ hn]
    apply filter_singleton _ root _ hn hrm
    intro x hx
    constructor
    · intro hp
      apply Classical.byContradiction
      intro hne
      have := hone x hx hne
      have hmem : x ∈ s.refs := List.count_pos_iff.1 (by omega)
      simp [hmem] at hp
    · rintro rfl
      simp [hrf]
  obtain ⟨d, hd⟩ := tigerBuild_complete s rk hres hrk2 (s.ids.length + 2) root (some DEFAULT_EDGE) hrm (by have := hrk1 root; omega)
  refine ⟨d, tigerBuild_sound s _ _ _ _ hd, ?_⟩
  simp only [XSent.ids, XSent.refs] at h1 h2 h3 hd
  unfold tigerSentence
  simp only [h1, h3, hd]
  rw [if_neg (by simp), if_neg (by
    intro hh
    rw [List.any_eq_true] at hh
    obtain ⟨r, hr, hc⟩ := hh
    have := hcount r hr
    simp only [XSent.refs] at this
    simp [this] at hc)]
  rfl

/-! ### the yielded tree is well formed: every element of a well-formed structure occurs exactly once below the root -/

/-- the idrefs of one `<nt>` -/
def targets (nt : XNt) : List Str := nt.edges.map (·.2)

/-- `x` is reachable from `a` along `<edge>` elements (last step first) -/
inductive Reach (s : XSent) (a : Str) : Str → Prop
  | refl : Reach s a a
  | step (p : XNt) (x : Str) : Reach s a p.id → p ∈ s.nts → x ∈ targets p → Reach s a x

theorem Reach.rank (s : XSent) (rk : Str → Nat) (hrk : ∀ nt ∈ s.nts, ∀ e ∈ nt.edges, rk e.2 < rk nt.id) {a x : Str}
    (h : Reach s a x) : rk x ≤ rk a := by
  induction h with
  | refl => exact Nat.le_refl _
  | step p x _ hp hx ih =>
    obtain ⟨e, he, rfl⟩ := List.mem_map.1 hx
    have := hrk p hp e he; omega

theorem Reach.head (s : XSent) {nt : XNt} (hnt : nt ∈ s.nts) {c x : Str} (hc : c ∈ targets nt) (h : Reach s c x) :
    Reach s nt.id x := by
  induction h with
  | refl => exact .step nt c .refl hnt hc
  | step p x _ hp hx ih => exact .step p x ih hp hx

theorem Reach.cases_head (s : XSent) {a x : Str} (h : Reach s a x) :
    a = x ∨ ∃ nt ∈ s.nts, nt.id = a ∧ ∃ c ∈ targets nt, Reach s c x := by
  induction h with
  | refl => exact .inl rfl
  | step p x h1 hp hx ih =>
    rcases ih with rfl | ⟨nt, hnt, hid, c, hc, hr⟩
    · exact .inr ⟨p, hp, rfl, x, hx, .refl⟩
    · exact .inr ⟨nt, hnt, hid, c, hc, .step p x hr hp hx⟩

theorem parent_unique_aux (x : Str) : ∀ (l : List XNt) (p q : XNt), p ∈ l → q ∈ l → x ∈ targets p → x ∈ targets q →
    (l.flatMap targets).count x ≤ 1 → p = q
  | [], _, _, h, _, _, _, _ => by simp at h
  | a :: l, p, q, hp, hq, hxp, hxq, hc => by
    rw [List.flatMap_cons, List.count_append] at hc
    have hp1 : 0 < (targets p).count x := List.count_pos_iff.2 hxp
    have hq1 : 0 < (targets q).count x := List.count_pos_iff.2 hxq
    rcases List.mem_cons.1 hp with hpa | hp' <;> rcases List.mem_cons.1 hq with hqa | hq'
    · rw [hpa, hqa]
    · have h2 : 0 < (l.flatMap targets).count x := List.count_pos_iff.2 (List.mem_flatMap.2 ⟨q, hq', hxq⟩)
      rw [hpa] at hp1; omega
    · have h2 : 0 < (l.flatMap targets).count x := List.count_pos_iff.2 (List.mem_flatMap.2 ⟨p, hp', hxp⟩)
      rw [hqa] at hq1; omega
    · exact parent_unique_aux x l p q hp' hq' hxp hxq (by omega)

theorem count_targets_le (x : Str) : ∀ (l : List XNt) (nt : XNt), nt ∈ l → (targets nt).count x ≤ (l.flatMap targets).count x
  | [], _, h => by simp at h
  | a :: l, nt, h => by
    rw [List.flatMap_cons, List.count_append]
    rcases List.mem_cons.1 h with h | h
    · rw [h]; omega
    · have := count_targets_le x l nt h; omega

/-- the graph facts used below -/
structure Forest (s : XSent) (rk : Str → Nat) : Prop where
  nodup : s.ids.Nodup
  one : ∀ x, s.refs.count x ≤ 1
  rank : ∀ nt ∈ s.nts, ∀ e ∈ nt.edges, rk e.2 < rk nt.id

theorem Forest.parent_unique {s : XSent} {rk : Str → Nat} (F : Forest s rk) {p q : XNt} {x : Str}
    (hp : p ∈ s.nts) (hq : q ∈ s.nts) (hxp : x ∈ targets p) (hxq : x ∈ targets q) : p = q :=
  parent_unique_aux x s.nts p q hp hq hxp hxq (F.one x)

theorem Forest.targets_nodup {s : XSent} {rk : Str → Nat} (F : Forest s rk) {p : XNt} (hp : p ∈ s.nts) : (targets p).Nodup := by
  rw [List.nodup_iff_count]
  intro a
  exact Nat.le_trans (count_targets_le a s.nts p hp) (F.one a)

/-- the ancestors of an element form a chain -/
theorem Forest.chain {s : XSent} {rk : Str → Nat} (F : Forest s rk) {a x : Str} (h : Reach s a x) :
    ∀ b, Reach s b x → Reach s a b ∨ Reach s b a := by
  induction h with
  | refl => intro b hb; exact .inr hb
  | step p x h1 hp hx ih =>
    intro b hb
    cases hb with
    | refl => exact .inl (.step p x h1 hp hx)
    | step q _ h2 hq hx' =>
      have := F.parent_unique hp hq hx hx'
      subst this
      exact ih b h2

/-- two different children of one `<nt>` have no common descendant -/
theorem Forest.separate {s : XSent} {rk : Str → Nat} (F : Forest s rk) {x : XNt} (hx : x ∈ s.nts) {c c' y : Str}
    (hc : c ∈ targets x) (hc' : c' ∈ targets x) (hne : c ≠ c') (h : Reach s c y) (h' : Reach s c' y) : False := by
  have key : ∀ {c c' : Str}, c ∈ targets x → c' ∈ targets x → c ≠ c' → Reach s c c' → False := by
    intro c c' hc hc' hne hr
    cases hr with
    | refl => exact hne rfl
    | step p _ h1 hp hx' =>
      have := F.parent_unique hp hx hx' hc'
      subst this
      have h2 := Reach.rank s rk F.rank h1
      obtain ⟨e, he, rfl⟩ := List.mem_map.1 hc
      have := F.rank p hp e he
      omega
  rcases F.chain h c' h' with hr | hr
  · exact key hc hc' hne hr
  · exact key hc' hc (fun e => hne e.symm) hr

theorem term_nt_disjoint (s : XSent) (hn : s.ids.Nodup) (i : Str) (h1 : i ∈ s.terms.map (·.id)) (h2 : i ∈ s.nts.map (·.id)) : False :=
  (List.nodup_append.1 hn).2.2 i h1 i h2 rfl

mutual
theorem leaf_reach (s : XSent) : ∀ (d : Tree) (i : Str) (e : Option Str), IsXTree s i e d →
    ∀ m ∈ d.leafNums, 1 ≤ m ∧ ∃ tm, s.terms[m - 1]? = some tm ∧ Reach s i tm.id
  | .leaf n f, i, e, h, m, hm => by
    rw [IsXTree] at h
    obtain ⟨tm, h1, h2, h3, _⟩ := h
    have : m = n := by simpa [leafNums, leaves, num] using hm
    subst this
    exact ⟨h1, tm, h2, h3 ▸ .refl⟩
  | .node f ks, i, e, h, m, hm => by
    rw [IsXTree] at h
    obtain ⟨x, hx, hid, _, hk⟩ := h
    rw [TT.Lemmas.WF.leafNums_node, List.mem_flatMap] at hm
    obtain ⟨k, hk1, hk2⟩ := hm
    obtain ⟨c, hc, h1, tm, h2, h3⟩ := kids_reach s ks x.edges hk k hk1 m hk2
    exact ⟨h1, tm, h2, hid ▸ Reach.head s hx hc h3⟩
theorem kids_reach (s : XSent) : ∀ (ks : List Tree) (es : List (Option Str × Str)), IsXKids s es ks →
    ∀ k ∈ ks, ∀ m ∈ k.leafNums, ∃ c ∈ es.map (·.2), 1 ≤ m ∧ ∃ tm, s.terms[m - 1]? = some tm ∧ Reach s c tm.id
  | [], _, _, k, hk, _, _ => by simp at hk
  | k0 :: ks, [], h, _, _, _, _ => by simp [IsXKids] at h
  | k0 :: ks, ed :: es, h, k, hk, m, hm => by
    rw [IsXKids] at h
    rcases List.mem_cons.1 hk with hk0 | hk'
    · obtain ⟨h1, tm, h2, h3⟩ := leaf_reach s k0 _ _ h.1 m (hk0 ▸ hm)
      exact ⟨ed.2, by simp, h1, tm, h2, h3⟩
    · obtain ⟨c, hc, r⟩ := kids_reach s ks es h.2 k hk' m hm
      exact ⟨c, by simp only [List.map_cons, List.mem_cons]; exact .inr hc, r⟩
end

mutual
theorem leaf_nodup (s : XSent) (rk : Str → Nat) (F : Forest s rk) : ∀ (d : Tree) (i : Str) (e : Option Str), IsXTree s i e d →
    d.leafNums.Nodup
  | .leaf n f, _, _, _ => by simp [leafNums, leaves]
  | .node f ks, i, e, h => by
    rw [IsXTree] at h
    obtain ⟨x, hx, hid, _, hk⟩ := h
    rw [TT.Lemmas.WF.leafNums_node]
    exact kids_nodup s rk F ks x x.edges hx (fun c hc => hc) (F.targets_nodup hx) hk
theorem kids_nodup (s : XSent) (rk : Str → Nat) (F : Forest s rk) : ∀ (ks : List Tree) (x : XNt) (es : List (Option Str × Str)),
    x ∈ s.nts → (∀ c ∈ es.map (·.2), c ∈ targets x) → (es.map (·.2)).Nodup → IsXKids s es ks → (ks.flatMap leafNums).Nodup
  | [], _, _, _, _, _, _ => by simp
  | k0 :: ks, _, [], _, _, _, h => by simp [IsXKids] at h
  | k0 :: ks, x, ed :: es, hx, hsub, hnd, h => by
    rw [IsXKids] at h
    rw [List.flatMap_cons, List.nodup_append]
    rw [List.map_cons, List.nodup_cons] at hnd
    refine ⟨leaf_nodup s rk F k0 _ _ h.1,
      kids_nodup s rk F ks x es hx (fun c hc => hsub c (by simp only [List.map_cons, List.mem_cons]; exact .inr hc)) hnd.2 h.2, ?_⟩
    intro m hm m' hm' heq
    subst heq
    obtain ⟨k, hk1, hk2⟩ := List.mem_flatMap.1 hm'
    obtain ⟨_, tm, h2, h3⟩ := leaf_reach s k0 _ _ h.1 m hm
    obtain ⟨c', hc', _, tm', h2', h3'⟩ := kids_reach s ks es h.2 k hk1 m hk2
    rw [h2] at h2'
    cases h2'
    exact F.separate hx (hsub ed.2 (by simp)) (hsub c' (by simp only [List.map_cons, List.mem_cons]; exact .inr hc'))
      (fun e => hnd.1 (e ▸ hc')) h3 h3'
end

mutual
theorem reach_leaf (s : XSent) (hn : s.ids.Nodup) : ∀ (d : Tree) (i : Str) (e : Option Str), IsXTree s i e d →
    ∀ (k : Nat) (tm : XTerm), s.terms[k]? = some tm → Reach s i tm.id → (k + 1) ∈ d.leafNums
  | .leaf n f, i, e, h, k, tm, htm, hr => by
    rw [IsXTree] at h
    obtain ⟨tm', h1, h2, h3, _⟩ := h
    rcases Reach.cases_head s hr with heq | ⟨nt, hnt, hid, _⟩
    · obtain ⟨hk, _⟩ := term_unique s hn _ _ tm' tm h2 htm (h3.trans heq)
      have : k + 1 = n := by omega
      simp [leafNums, leaves, num, this]
    · exact (term_nt_disjoint s hn i (h3 ▸ List.mem_map_of_mem (List.mem_of_getElem? h2)) (hid ▸ List.mem_map_of_mem hnt)).elim
  | .node f ks, i, e, h, k, tm, htm, hr => by
    rw [IsXTree] at h
    obtain ⟨x, hx, hid, _, hk⟩ := h
    rcases Reach.cases_head s hr with heq | ⟨nt, hnt, hid', c, hc, hr'⟩
    · exact (term_nt_disjoint s hn i (heq ▸ List.mem_map_of_mem (List.mem_of_getElem? htm)) (hid ▸ List.mem_map_of_mem hx)).elim
    · have : nt = x := nt_unique s hn nt x hnt hx (hid'.trans hid.symm)
      subst this
      rw [TT.Lemmas.WF.leafNums_node, List.mem_flatMap]
      exact reach_kids s hn ks nt.edges hk c hc k tm htm hr'
theorem reach_kids (s : XSent) (hn : s.ids.Nodup) : ∀ (ks : List Tree) (es : List (Option Str × Str)), IsXKids s es ks →
    ∀ c ∈ es.map (·.2), ∀ (k : Nat) (tm : XTerm), s.terms[k]? = some tm → Reach s c tm.id → ∃ kid ∈ ks, (k + 1) ∈ kid.leafNums
  | _, [], _, c, hc, _, _, _, _ => by simp at hc
  | [], _ :: _, h, _, _, _, _, _, _ => by simp [IsXKids] at h
  | k0 :: ks, ed :: es, h, c, hc, k, tm, htm, hr => by
    rw [IsXKids] at h
    simp only [List.map_cons, List.mem_cons] at hc
    rcases hc with hc0 | hc'
    · exact ⟨k0, by simp, reach_leaf s hn k0 _ _ h.1 k tm htm (hc0 ▸ hr)⟩
    · obtain ⟨kid, hkid, r⟩ := reach_kids s hn ks es h.2 c hc' k tm htm hr
      exact ⟨kid, by simp [hkid], r⟩
end

mutual
theorem isX_noEmpty (s : XSent) (hne : XNoEmpty s) : ∀ (d : Tree) (i : Str) (e : Option Str), IsXTree s i e d → d.noEmpty = true
  | .leaf _ _, _, _, _ => rfl
  | .node f ks, i, e, h => by
    rw [IsXTree] at h
    obtain ⟨x, hx, _, _, hk⟩ := h
    have h1 := hne x hx
    have h2 := kids_noEmpty s hne ks x.edges hk
    have h3 : ks ≠ [] := by
      rintro rfl
      cases hxe : x.edges with
      | nil => exact h1 hxe
      | cons a b => rw [hxe] at hk; simp [IsXKids] at hk
    rw [noEmpty, h2]
    cases ks with
    | nil => exact absurd rfl h3
    | cons => rfl
theorem kids_noEmpty (s : XSent) (hne : XNoEmpty s) : ∀ (ks : List Tree) (es : List (Option Str × Str)), IsXKids s es ks →
    noEmptyL ks = true
  | [], _, _ => rfl
  | _ :: _, [], h => by simp [IsXKids] at h
  | k0 :: ks, ed :: es, h => by
    rw [IsXKids] at h
    rw [noEmptyL, isX_noEmpty s hne k0 _ _ h.1, kids_noEmpty s hne ks es h.2]; rfl
end

/-- every element of a well-formed structure is reachable from the root -/
theorem all_reach (s : XSent) (root : Str) (h : XWF s root) (rk : Str → Nat) (hb : ∀ i, rk i ≤ s.ids.length)
    (hrk : ∀ nt ∈ s.nts, ∀ e ∈ nt.edges, rk e.2 < rk nt.id) :
    ∀ (n : Nat) (x : Str), x ∈ s.ids → s.ids.length + 1 - rk x ≤ n → Reach s root x := by
  intro n
  induction n with
  | zero => intro x hx hle; have := hb x; omega
  | succ n ih =>
    intro x hx hle
    by_cases hxr : x = root
    · subst hxr; exact .refl
    · have hc := h.one_edge x hx hxr
      have hmem : x ∈ s.refs := List.count_pos_iff.1 (by omega)
      obtain ⟨p, hp, hxp⟩ := List.mem_flatMap.1 hmem
      obtain ⟨e, he, rfl⟩ := List.mem_map.1 hxp
      have hpid : p.id ∈ s.ids := List.mem_append.2 (.inr (List.mem_map_of_mem hp))
      have := hrk p hp e he
      exact .step p e.2 (ih p.id hpid (by have := hb p.id; omega)) hp (List.mem_map_of_mem he)

/-- a well-formed structure without childless `<nt>` has a token -/
theorem terms_ne_nil (s : XSent) (root : Str) (h : XWF s root) (hne : XNoEmpty s) : s.terms ≠ [] := by
  intro ht
  obtain ⟨rk, hrk⟩ := h.acyclic
  have key : ∀ n, ∀ nt ∈ s.nts, rk nt.id ≤ n → False := by
    intro n
    induction n with
    | zero =>
      intro nt hnt hle
      obtain ⟨e, he⟩ := List.exists_mem_of_ne_nil _ (hne nt hnt)
      have := hrk nt hnt e he; omega
    | succ n ih =>
      intro nt hnt hle
      obtain ⟨e, he⟩ := List.exists_mem_of_ne_nil _ (hne nt hnt)
      have h1 := hrk nt hnt e he
      have hmem : e.2 ∈ s.ids := h.resolves _ (List.mem_flatMap.2 ⟨nt, hnt, List.mem_map_of_mem he⟩)
      simp only [XSent.ids, ht, List.map_nil, List.nil_append] at hmem
      obtain ⟨nt', hnt', hid⟩ := List.mem_map.1 hmem
      exact ih nt' hnt' (by rw [hid]; omega)
  have hr := h.root_mem
  simp only [XSent.ids, ht, List.map_nil, List.nil_append] at hr
  obtain ⟨nt, hnt, _⟩ := List.mem_map.1 hr
  exact key _ nt hnt (Nat.le_refl _)

/-- MAIN for row 10: the decoder's tree of a well-formed structure without childless `<nt>`, whose root is not a `<t>` with
    `pos="VROOT"`, is well formed: every token number 1..n exactly once -/
theorem decX_WF (s : XSent) (root : Str) (d : Tree) (h : XWF s root) (hne : XNoEmpty s)
    (hrt : ∀ tm ∈ s.terms, tm.id = root → tm.pos ≠ some DEFAULT_ROOT) (e : Option Str) (hd : IsXTree s root e d) :
    WF (vrootOf d) = true := by
  have ht := terms_ne_nil s root h hne
  obtain ⟨rk0, hrk0⟩ := h.acyclic
  obtain ⟨rk, hb, hrk⟩ := rank_bounded s h.resolves rk0 hrk0
  have hone : ∀ x, s.refs.count x ≤ 1 := by
    intro x
    by_cases hx : x ∈ s.refs
    · have := h.one_edge x (h.resolves x hx) (by rintro rfl; exact h.root_free hx); omega
    · rw [List.count_eq_zero_of_not_mem hx]; omega
  have F : Forest s rk := ⟨h.nodup, hone, hrk⟩
  have hnd := leaf_nodup s rk F d root e hd
  have hperm : d.leafNums.Perm (List.range' 1 s.terms.length) := by
    rw [List.perm_ext_iff_of_nodup hnd (List.nodup_range' (step := 1) (by omega))]
    intro m
    rw [List.mem_range'_1]
    constructor
    · intro hm
      obtain ⟨h1, tm, h2, _⟩ := leaf_reach s d root e hd m hm
      have := (List.getElem?_eq_some_iff.1 h2).1
      omega
    · intro hm
      have hlt : m - 1 < s.terms.length := by omega
      have h2 : s.terms[m - 1]? = some s.terms[m - 1] := List.getElem?_eq_getElem hlt
      have hid : (s.terms[m - 1]).id ∈ s.ids := List.mem_append.2 (.inl (List.mem_map_of_mem (List.getElem_mem hlt)))
      have hr := all_reach s root h rk hb hrk _ _ hid (Nat.le_refl _)
      have := reach_leaf s h.nodup d root e hd (m - 1) _ h2 hr
      have e' : m - 1 + 1 = m := by omega
      rwa [e'] at this
  have hlen : d.leafNums.length = s.terms.length := by rw [hperm.length_eq]; simp
  have hpos : 0 < s.terms.length := List.length_pos_iff.2 ht
  have hsort : sortBy id d.leafNums = List.range' 1 d.leafNums.length := by
    rw [TT.Lemmas.Write.sortBy_id_perm _ _ hperm, sortBy_id_range', hlen]
  have hnoE := isX_noEmpty s hne d root e hd
  have hwf : ∀ t : Tree, t.isLeaf = false → t.noEmpty = true → t.leafNums = d.leafNums → WF t = true := by
    intro t h1 h2 h3
    unfold WF
    rw [h1, h2, h3, hsort]
    have : d.leafNums.isEmpty = false := by
      cases hl : d.leafNums with
      | nil => rw [hl] at hlen; simp at hlen; omega
      | cons => rfl
    simp [this]
  unfold vrootOf
  split
  · apply hwf
    · rfl
    · simp [noEmpty, noEmptyL, hnoE]
    · rw [TT.Lemmas.WF.leafNums_node]; simp
  · rename_i hlab
    apply hwf _ _ hnoE rfl
    cases d with
    | node f ks => rfl
    | leaf n f =>
      exfalso
      rw [IsXTree] at hd
      obtain ⟨tm, _, h2, h3, hf⟩ := hd
      have := hrt tm (List.mem_of_getElem? h2) h3
      apply hlab
      subst hf
      simp only [Tree.fields, termFields, bne_iff_ne, ne_eq]
      intro hc
      apply this
      cases hp : tm.pos with
      | none => rw [hp] at hc; simp [DEFAULT_ROOT] at hc
      | some p => rw [hp] at hc; simp at hc; rw [hc]

/-! ### the structures of the tool's own writer are well-formed structures -/

open TT.Lemmas.TigerRT TT.Lemmas.Nav in
theorem xs_XWF (sid : Nat) (t : Tree) (hwf : WF t = true) (hlen : t.leafNums.length < 500) :
    XWF (xs sid t) (natToStr (TigerRT.numOf t [])) := by
  have hids : (xs sid t).ids = xIds t := xs_ids sid t
  have hrefs : (xs sid t).refs = xRefs t := xs_refs sid t
  have hnd := xIds_nodup t hwf hlen
  have hroots := xRoots t hwf hlen
  rw [eraseDups_of_nodup _ hnd] at hroots
  have hrootmem : natToStr (TigerRT.numOf t []) ∈ (xIds t).filter (fun i => !(xRefs t).contains i) := by rw [hroots]; simp
  refine ⟨hids ▸ hnd, ?_, ?_, ?_, ?_, ?_⟩
  · rw [hids, hrefs]; exact refs_sub_ids t hwf
  · rw [hids]; exact (List.mem_filter.1 hrootmem).1
  · rw [hrefs]; exact root_not_ref t hwf hlen
  · rw [hids, hrefs]
    intro i hi hne
    have hmem : i ∈ xRefs t := by
      apply Classical.byContradiction
      intro hni
      have : i ∈ (xIds t).filter (fun i => !(xRefs t).contains i) := List.mem_filter.2 ⟨hi, by simp [hni]⟩
      rw [hroots] at this
      simp at this
      exact hne this
    rw [(xRefs_nodup t hwf hlen).count, if_pos hmem]
  · classical
    let rk : Str → Nat := fun i =>
      if h : ∃ p s, get? t p = some s ∧ i = natToStr (TigerRT.numOf t p) then height h.choose_spec.choose else 0
    have hrkv : ∀ p s, get? t p = some s → rk (natToStr (TigerRT.numOf t p)) = height s := by
      intro p s hg
      have hex : ∃ p' s', get? t p' = some s' ∧ natToStr (TigerRT.numOf t p) = natToStr (TigerRT.numOf t p') := ⟨p, s, hg, rfl⟩
      show (if h : ∃ p' s', get? t p' = some s' ∧ natToStr (TigerRT.numOf t p) = natToStr (TigerRT.numOf t p') then
        height h.choose_spec.choose else 0) = height s
      rw [dif_pos hex]
      obtain ⟨h1, h2⟩ := hex.choose_spec.choose_spec
      have hp := TigerRT.numOf_inj t hwf hlen _ _ _ _ hg h1 (GramOut.natToStr_inj h2)
      have hg' : get? t hex.choose = some s := hp ▸ hg
      rw [h1] at hg'
      rw [Option.some.inj hg']
    refine ⟨rk, ?_⟩
    · intro nt hnt e he
      obtain ⟨en, hen, rfl⟩ := List.mem_map.1 (show nt ∈ ((consList t).map (ntEnt t)).map ntOf from hnt)
      obtain ⟨ps, hps, rfl⟩ := List.mem_map.1 hen
      obtain ⟨x, hx, rfl⟩ := List.mem_map.1 (show e ∈ (ntEnt t ps).2.2.map (fun x => (some x.1, x.2)) from he)
      obtain ⟨i, k, hgk, rfl⟩ := edge_mem t ps hps x hx
      obtain ⟨f, k0, ks, hg, _⟩ := (mem_consList t ps).1 hps
      show rk (natToStr (TigerRT.numOf t (ps.1 ++ [i]))) < rk (natToStr (TigerRT.numOf t ps.1))
      rw [hrkv _ _ hgk, hrkv _ _ hg]
      rw [get?_append, hg] at hgk
      have := height_get?_le [i] _ _ hgk
      simp at this
      omega

theorem xsentOf_labelled (sid : Nat) (t : Tree) : XLabelled (xsentOf sid t) := by
  rw [xsentOf_xs]
  intro nt hnt e he
  obtain ⟨en, _, rfl⟩ := List.mem_map.1 (show nt ∈ ((TigerRT.consList t).map (TigerRT.ntEnt t)).map ntOf from hnt)
  obtain ⟨x, _, rfl⟩ := List.mem_map.1 (show e ∈ en.2.2.map (fun x => (some x.1, x.2)) from he)
  rfl

theorem xsentOf_XWF (sid : Nat) (t : Tree) (hwf : WF t = true) (hlen : t.leafNums.length < 500) :
    XWF (xsentOf sid t) (natToStr (TigerRT.numOf t [])) := by
  rw [xsentOf_xs]; exact xs_XWF sid t hwf hlen

end TT.Lemmas.Tiger19
