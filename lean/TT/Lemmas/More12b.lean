/-
  Helper lemmas for `TT/Props/C07Sem.lean` (wave 12, C07):
  * the rest symbol is used in `topLin t` with exactly the arguments of `restLin t` (T7.3);
  * `binarizeRule mo` for EVERY `mo` writes the chain `chainG` (generalises `binMid_build` / `binarizeRule_build`
    from `mo = none`), `binarizeGrammar r mo g` is the sequence of additions `addsOf` (T7.2, T7.5);
  * composing a chain gives the rule back whatever the labels are (`unbinChain_chainG`);
  * the optimal reordering renames variables and permutes right-hand-side elements consistently (T7.1).
-/
import TT.Spec.Grammar
import TT.Spec.More12b
import TT.Lemmas.GramBin
import TT.Lemmas.Unbin
namespace TT.Lemmas.More12b
open TT TT.Spec TT.Lemmas.GramBin TT.Lemmas.Unbin

/-! ### T7.3: the rest symbol is used in `topLin t` with as many variables as `restLin t` has arguments -/

theorem topG_ones : ∀ (gs : List Grp) (m : Nat), GOK gs →
    (((topG gs m).1.filter fun v => v.1 == 1).map (·.2)) = List.range' m (runsOf gs).length ∧
    (topG gs m).2 = m + (runsOf gs).length
  | [], m, _ => by simp [topG, runsOf]
  | .z v :: gs, m, h => by
    obtain ⟨i1, i2⟩ := topG_ones gs m h.2
    have : (v.1 == 1) = false := by simp [h.1]
    simp only [topG, runsOf, List.filter_cons, this]
    exact ⟨i1, i2⟩
  | .run r :: gs, m, h => by
    obtain ⟨i1, i2⟩ := topG_ones gs (m + 1) h.2
    simp only [topG, runsOf, List.length_cons]
    refine ⟨?_, by omega⟩
    rw [List.filter_cons_of_pos (by simp), List.map_cons, i1, List.range'_succ]

theorem topGs_ones : ∀ (lin : Lin) (m : Nat),
    (((topGs (lin.map grp) m).flatten.filter fun v => v.1 == 1).map (·.2)) =
      List.range' m ((lin.map grp).flatMap runsOf).length
  | [], m => by simp [topGs]
  | a :: as, m => by
    obtain ⟨i1, i2⟩ := topG_ones (grp a) m (GOK_grp a)
    simp only [List.map_cons, topGs, List.flatten_cons, List.filter_append, List.map_append, i1,
      List.flatMap_cons, List.length_append]
    rw [topGs_ones as, i2, List.range'_append_1]

theorem topGs_length : ∀ (gss : List (List Grp)) (m : Nat), (topGs gss m).length = gss.length
  | [], _ => rfl
  | _ :: gss, m => by simp [topGs, topGs_length gss]

/-- the variables of position 1 (the rest symbol) in `topLin t` are `(1,0), (1,1), ...` in this order, one per
    argument of `restLin t` -/
theorem topLin_rest_vars (t : Lin) (h : WF' t) :
    ((topLin t).flatten.filter fun v => v.1 == 1).map (·.2) = List.range (restLin t).length := by
  rw [topLin_eq t h, restLin_eq t h, topGs_ones, List.range_eq_range']

theorem topLin_length (t : Lin) (h : WF' t) : (topLin t).length = t.length := by
  rw [topLin_eq t h, topGs_length, List.length_map]

theorem occ_eq_filter (t : Lin) (i : Nat) : occ t i = (t.flatten.filter fun v => v.1 == (i : Int)).length := by
  unfold occ
  rw [List.count_eq_countP, List.countP_map, List.countP_eq_length_filter]
  rfl

theorem topLin_uses_rest (t : Lin) (h : WF' t) : occ (topLin t) 1 = (restLin t).length := by
  rw [occ_eq_filter]
  have := congrArg List.length (topLin_rest_vars t h)
  rw [List.length_map, List.length_range] at this
  exact this

theorem chainLins_head_length : ∀ (n : Nat) (t : Lin), WF' t → ((chainLins t n)[0]?.getD []).length = t.length
  | 0, _, _ => rfl
  | _ + 1, t, h => by simp [chainLins, topLin_length t h]

/-- chain form: the rest symbol of rule `k` has as many variables as rule `k + 1` has arguments -/
theorem chainLins_link : ∀ (n : Nat) (t : Lin), WF' t → ∀ k, k < n →
    occ ((chainLins t n)[k]?.getD []) 1 = ((chainLins t n)[k + 1]?.getD []).length
  | n + 1, t, h, 0, _ => by
    simp only [chainLins, List.getElem?_cons_zero, Option.getD_some, List.getElem?_cons_succ]
    rw [topLin_uses_rest t h, chainLins_head_length n _ (WF'_restLin t h)]
  | n + 1, t, h, k + 1, hk => by
    simp only [chainLins, List.getElem?_cons_succ]
    exact chainLins_link n (restLin t) (WF'_restLin t h) k (by omega)

/-- ... and uses them in order: `(1,0), (1,1), ...` -/
theorem chainLins_link_vars : ∀ (n : Nat) (t : Lin), WF' t → ∀ k, k < n →
    (((chainLins t n)[k]?.getD []).flatten.filter fun v => v.1 == 1).map (·.2) =
      List.range ((chainLins t n)[k + 1]?.getD []).length
  | n + 1, t, h, 0, _ => by
    simp only [chainLins, List.getElem?_cons_zero, Option.getD_some, List.getElem?_cons_succ]
    rw [topLin_rest_vars t h, chainLins_head_length n _ (WF'_restLin t h)]
  | n + 1, t, h, k + 1, hk => by
    simp only [chainLins, List.getElem?_cons_succ]
    exact chainLins_link_vars n (restLin t) (WF'_restLin t h) k (by omega)

/-! ### T7.2: the chain written by `binarizeRule mo` for every `mo` -/

/-- the generator state after `p` labels -/
def stateAfter (mo : Option MarkovOpts) (st : GenState) (p : Nat) : GenState :=
  match mo with
  | none => ⟨st.numb + p⟩
  | some _ => st

theorem nextLabel_labelOf (mo : Option MarkovOpts) (st : GenState) (func : Func) (vert : List Str) (fo : List Nat)
    (p : Nat) :
    nextLabel mo (stateAfter mo st p) func p vert fo = (labelOf mo st func vert fo p, stateAfter mo st (p + 1)) := by
  cases mo with
  | none => rfl
  | some o => rfl

theorem binMid_buildG (mo : Option MarkovOpts) (func : Func) (vert : List Str) (fo : List Nat) (cnt : Nat)
    (st0 : GenState) :
    ∀ (steps i : Nat) (bl : Str) (tl : Lin) (res : Grammar),
    (binMid mo func vert fo cnt i steps bl tl (stateAfter mo st0 i) res).2.2.1 = stateAfter mo st0 (i + steps) ∧
    (binMid mo func vert fo cnt i steps bl tl (stateAfter mo st0 i) res).2.2.2.add
        [(binMid mo func vert fo cnt i steps bl tl (stateAfter mo st0 i) res).1, func[i + steps + 1]?.getD [],
          func[i + steps + 2]?.getD []]
        (restLin (binMid mo func vert fo cnt i steps bl tl (stateAfter mo st0 i) res).2.1) .default cnt =
      build ((chainG func (labelOf mo st0 func vert fo) steps i bl (restLin tl)).map (withCount cnt)) res
  | 0, i, bl, tl, res => by
    rw [binMid_zero]
    simp [chainG, withCount, build, addD]
  | k + 1, i, bl, tl, res => by
    rw [binMid_succ, nextLabel_labelOf]
    have ih := binMid_buildG mo func vert fo cnt st0 k (i + 1) (labelOf mo st0 func vert fo i) (restLin tl)
      (res.add [bl, func[i + 1]?.getD [], labelOf mo st0 func vert fo i] (topLin (restLin tl)) .default cnt)
    have e1 : i + 1 + k + 1 = i + (k + 1) + 1 := by omega
    have e2 : i + 1 + k + 2 = i + (k + 1) + 2 := by omega
    have e3 : i + 1 + k = i + (k + 1) := by omega
    rw [e1, e2, e3] at ih
    refine ⟨ih.1, ?_⟩
    rw [ih.2]
    simp [chainG, withCount, build, addD]

/-- what `binarizeRule mo` does to the grammar and to the generator state, for every `mo` -/
theorem binarizeRule_buildG (mo : Option MarkovOpts) (f : Func) (l : Lin) (c : Nat) (vert : List Str) (st : GenState)
    (res : Grammar) (h3 : 3 < f.length) :
    binarizeRule mo f l c vert st res =
      (stateAfter mo st (f.length - 3),
       build ((chainG f (labelOf mo st f vert (fanOut l)) (f.length - 3) 0 (f[0]?.getD []) l).map (withCount c)) res) := by
  have h3' : ¬ f.length ≤ 3 := by omega
  rw [binarizeRule_large _ _ _ _ _ _ _ h3']
  unfold midOf
  have hs0 : st = stateAfter mo st 0 := by cases mo <;> rfl
  have hn := nextLabel_labelOf mo st f vert (fanOut l) 0
  rw [← hs0] at hn
  rw [hn]
  have ih := binMid_buildG mo f vert (fanOut l) c st (f.length - 4) 1 (labelOf mo st f vert (fanOut l) 0) l
    (res.add [f[0]?.getD [], f[1]?.getD [], labelOf mo st f vert (fanOut l) 0] (topLin l) .default c)
  have e1 : 1 + (f.length - 4) + 1 = f.length - 2 := by omega
  have e2 : 1 + (f.length - 4) + 2 = f.length - 1 := by omega
  have e3 : f.length - 3 = (f.length - 4) + 1 := by omega
  have e4 : 1 + (f.length - 4) = f.length - 3 := by omega
  rw [e1, e2, e4] at ih
  simp only [Nat.zero_add] at ih ⊢
  rw [ih.2, ih.1]
  congr 1
  rw [e3]
  simp [chainG, withCount, build, addD]

theorem chainG_ne_nil (func : Func) (lab : Nat → Str) (n p : Nat) (h : Str) (t : Lin) :
    chainG func lab n p h t ≠ [] := by
  cases n <;> simp [chainG]

theorem chainG_length (func : Func) (lab : Nat → Str) : ∀ (n p : Nat) (h : Str) (t : Lin),
    (chainG func lab n p h t).length = n + 1
  | 0, _, _, _ => rfl
  | n + 1, p, h, t => by simp [chainG, chainG_length func lab n]

theorem chainG_lins (func : Func) (lab : Nat → Str) : ∀ (n p : Nat) (h : Str) (t : Lin),
    (chainG func lab n p h t).map (·.2) = chainLins t n
  | 0, _, _, _ => rfl
  | n + 1, p, h, t => by simp [chainG, chainLins, chainG_lins func lab n]

theorem chainG_firsts (func : Func) (lab : Nat → Str) : ∀ (n p : Nat) (h : Str) (t : Lin),
    (chainG func lab n p h t).map (fun x => x.1[1]?.getD []) =
      (List.range' (p + 1) (n + 1)).map (fun j => func[j]?.getD [])
  | 0, _, _, _ => by simp [chainG]
  | n + 1, p, h, t => by
    rw [List.range'_succ]
    simp [chainG, chainG_firsts func lab n]

theorem chainG_lastSecond (func : Func) (lab : Nat → Str) : ∀ (n p : Nat) (h : Str) (t : Lin),
    ((chainG func lab n p h t).getLast?.map fun x => x.1[2]?.getD []).getD [] = func[p + n + 2]?.getD []
  | 0, _, _, _ => by simp [chainG]
  | n + 1, p, h, t => by
    simp only [chainG]
    rw [getLast?_cons_ne _ _ (chainG_ne_nil _ _ _ _ _ _), chainG_lastSecond func lab n]
    congr 2; omega

theorem fosOf_chainG (func : Func) (lab : Nat → Str) : ∀ (n p : Nat) (h : Str) (t : Lin), WF' t →
    fosOf (chainG func lab n p h t) = (List.range (n + 2)).map (occ t)
  | 0, _, _, t, _ => by
    simp only [chainG, fosOf, List.map_cons, List.map_nil, List.getLast?_singleton, Option.map_some,
      Option.getD_some]
    have h0 := fanOut_get t 0
    have h1 := fanOut_get t 1
    simp only [Nat.zero_add] at h0 h1
    rw [h0, h1]
    rfl
  | n + 1, p, h, t, hw => by
    simp only [chainG]
    rw [fosOf_cons _ _ (chainG_ne_nil _ _ _ _ _ _), fosOf_chainG func lab n _ _ _ (WF'_restLin t hw)]
    have h0 := fanOut_get (topLin t) 0
    simp only [Nat.zero_add] at h0
    rw [h0, occ_topLin t hw, List.range_succ_eq_map (n := n + 2)]
    simp only [List.map_cons, List.map_map]
    congr 1
    apply List.map_congr_left
    intro j _
    exact occ_restLin t hw j

/-- composing the chain written for a well-formed rule gives the rule back, whatever the labels are -/
theorem unbinChain_chainG (f : Func) (lab : Nat → Str) (l : Lin) (n : Nat) (hl : f.length = n + 3) (hn : 1 ≤ n)
    (hw : CWF f l) : unbinChain (chainG f lab n 0 (f[0]?.getD []) l) = some (f, l) := by
  have hw' : wfLin l ((List.range (n + 2)).map (occ l)) = true := by
    unfold CWF at hw
    have : f.length - 1 = n + 2 := by omega
    rwa [this] at hw
  have hWF : WF' l := WF'_of_wfLin l _ hw'
  obtain ⟨k', rfl⟩ : ∃ k', n = k' + 1 := ⟨n - 1, by omega⟩
  have hfos := fosOf_chainG f lab (k' + 1) 0 (f[0]?.getD []) l hWF
  have hlins := chainG_lins f lab (k' + 1) 0 (f[0]?.getD []) l
  have hfirsts := chainG_firsts f lab (k' + 1) 0 (f[0]?.getD []) l
  have hlast := chainG_lastSecond f lab (k' + 1) 0 (f[0]?.getD []) l
  have hshape : ∃ a b rest, chainG f lab (k' + 1) 0 (f[0]?.getD []) l = a :: b :: rest ∧
      a.1.head? = some (f[0]?.getD []) := by
    cases k' with
    | zero => exact ⟨_, _, _, rfl, rfl⟩
    | succ n => exact ⟨_, _, _, rfl, rfl⟩
  obtain ⟨a, b, rest, hc, ha⟩ := hshape
  rw [hc] at hfos hlins hfirsts hlast ⊢
  rw [unbinChain_long, hfos, hlins, hfirsts, hlast, zipIdx_formal]
  have hev : evalChain (chainLins l (k' + 1))
      ((List.range ((List.range (k' + 1 + 2)).map (occ l)).length).map fun i =>
        formalBlocks i (((List.range (k' + 1 + 2)).map (occ l))[i]?.getD 0)) = some (linAtoms l) := by
    rw [evalChain_chainLins _ _ _ hWF (by simp)]
    exact instLin_formal l _ hw'
  rw [hev]
  simp only [ha, Option.getD_some]
  have := func_eq_parts f (k' + 1) hl
  have e : 0 + (k' + 1) + 2 = 1 + (k' + 1) + 1 := by omega
  rw [linAtoms_back l hWF.pos, e, this]

/-- element `k` of the chain: symbols and linearization -/
theorem chainG_get (func : Func) (lab : Nat → Str) : ∀ (n p : Nat) (h : Str) (t : Lin) (k : Nat), k ≤ n →
    (chainG func lab n p h t)[k]? =
      some ([if k = 0 then h else lab (p + k - 1), func[p + k + 1]?.getD [],
              if k = n then func[p + k + 2]?.getD [] else lab (p + k)],
            (chainLins t n)[k]?.getD [])
  | 0, p, h, t, k, hk => by
    have : k = 0 := by omega
    subst this
    simp [chainG, chainLins]
  | n + 1, p, h, t, 0, _ => by
    simp [chainG, chainLins]
  | n + 1, p, h, t, k + 1, hk => by
    simp only [chainG, chainLins, List.getElem?_cons_succ]
    rw [chainG_get func lab n (p + 1) (lab p) (restLin t) k (by omega)]
    have e1 : p + 1 + k = p + (k + 1) := by omega
    have e4 : (k = n) ↔ (k + 1 = n + 1) := by omega
    have e5 : (if k = 0 then lab p else lab (p + 1 + k - 1)) = lab (p + (k + 1) - 1) := by
      by_cases hk0 : k = 0
      · subst hk0; simp
      · rw [if_neg hk0]; congr 1; omega
    have : ¬ k + 1 = 0 := by omega
    rw [e5, if_neg this]
    simp only [e1, e4]

/-! ### counts after a sequence of additions, for every vertical key -/

theorem gramCount_buildV (f : Func) (l : Lin) (v : VertKey) : ∀ (A : List Rule) (G : Grammar),
    gramCount (build A G) f l v = gramCount G f l v + if v = .default then ksum (f, l) A else 0
  | [], G => by simp [build_nil, ksum, rsum]
  | e :: A, G => by
    rw [build_cons, gramCount_buildV f l v A, addD, gramCount_add]
    unfold ksum
    rw [rsum_cons]
    by_cases hv : v = .default
    · subst hv
      by_cases h : f = e.1 ∧ l = e.2.1
      · have : (e.1, e.2.1) = (f, l) := by rw [h.1, h.2]
        simp [h, this]; omega
      · have : ¬ (e.1, e.2.1) = (f, l) := by
          intro e'; simp only [Prod.mk.injEq] at e'; exact h ⟨e'.1.symm, e'.2.symm⟩
        have h' : ¬ (f = e.1 ∧ l = e.2.1 ∧ VertKey.default = VertKey.default) := fun x => h ⟨x.1, x.2.1⟩
        rw [if_neg h', if_neg this]; simp
    · have h' : ¬ (f = e.1 ∧ l = e.2.1 ∧ v = VertKey.default) := fun x => hv x.2.2
      rw [if_neg h', if_neg hv, if_neg hv]

theorem ksum_cons (k : Func × Lin) (e : Rule) (A : List Rule) :
    ksum k (e :: A) = (if (e.1, e.2.1) = k then e.2.2 else 0) + ksum k A := by
  unfold ksum
  rw [rsum_cons]
  by_cases h : (e.1, e.2.1) = k <;> simp [h]

theorem ksum_nil (k : Func × Lin) : ksum k [] = 0 := rfl

theorem ksum_mem (e : Rule) : ∀ (A : List Rule), e ∈ A → e.2.2 ≤ ksum (e.1, e.2.1) A
  | x :: A, h => by
    rw [ksum_cons]
    rcases List.mem_cons.1 h with rfl | h
    · simp
    · have := ksum_mem e A h; omega

/-- the summed count of the additions with key `k`, all additions carrying the count `c` -/
theorem ksum_withCount (k : Func × Lin) (c : Nat) : ∀ (ch : List (Func × Lin)),
    ksum k (ch.map (withCount c)) = c * ch.count k
  | [] => by simp [ksum_nil]
  | x :: ch => by
    rw [List.map_cons, ksum_cons, ksum_withCount k c ch, List.count_cons]
    by_cases h : x = k
    · subst h; simp [withCount, Nat.mul_add]; omega
    · have : ¬ ((withCount c x).1, (withCount c x).2.1) = k := h
      rw [if_neg this]
      simp [h]

theorem gramCount_mono (A : List Rule) (G : Grammar) (f : Func) (l : Lin) (v : VertKey) :
    gramCount G f l v ≤ gramCount (build A G) f l v := by
  rw [gramCount_buildV]; omega

/-! ### the whole grammar, every mode -/

/-- one call of `binarizeRule` made by `binarizeGrammar`: reordered function, reordered linearization, count,
    vertical context handed to the label generator -/
abbrev Job := Func × Lin × Nat × List Str

/-- the additions one call makes -/
def jobAdds (mo : Option MarkovOpts) (st : GenState) (j : Job) : List Rule :=
  if j.1.length ≤ 3 then [(j.1, j.2.1, j.2.2.1)]
  else (chainG j.1 (labelOf mo st j.1 j.2.2.2 (fanOut j.2.1)) (j.1.length - 3) 0 (j.1[0]?.getD []) j.2.1).map
    (withCount j.2.2.1)

theorem binarizeRule_jobAdds (mo : Option MarkovOpts) (j : Job) (st : GenState) (res : Grammar) :
    binarizeRule mo j.1 j.2.1 j.2.2.1 j.2.2.2 st res =
      (stateAfter mo st (j.1.length - 3), build (jobAdds mo st j) res) := by
  by_cases h3 : j.1.length ≤ 3
  · rw [binarizeRule_small _ _ _ _ _ _ _ h3]
    have : j.1.length - 3 = 0 := by omega
    have hs0 : stateAfter mo st 0 = st := by cases mo <;> rfl
    simp [jobAdds, h3, this, hs0, build, addD]
  · rw [binarizeRule_buildG _ _ _ _ _ _ _ (by omega)]
    simp [jobAdds, h3]

/-- the calls made by `binarizeGrammar r mo g`, in order -/
def jobs (r : Reordering) (mo : Option MarkovOpts) (g : Grammar) : List Job :=
  match mo with
  | some o => g.entries.map fun e => ((reorder r e.1 e.2.1).1, (reorder r e.1 e.2.1).2, e.2.2.2, vertOf o e.2.2.1)
  | none => g.rules.map fun e => ((reorder r e.1 e.2.1).1, (reorder r e.1 e.2.1).2, e.2.2, [])

/-- all additions, the generator state threaded through -/
def addsOf (mo : Option MarkovOpts) : GenState → List Job → List Rule
  | _, [] => []
  | st, j :: js => jobAdds mo st j ++ addsOf mo (stateAfter mo st (j.1.length - 3)) js

theorem fold_jobs (mo : Option MarkovOpts) : ∀ (js : List Job) (st : GenState) (res : Grammar),
    (js.foldl (fun (acc : GenState × Grammar) (j : Job) =>
        binarizeRule mo j.1 j.2.1 j.2.2.1 j.2.2.2 acc.1 acc.2) (st, res)).2 = build (addsOf mo st js) res
  | [], _, _ => rfl
  | j :: js, st, res => by
    simp only [List.foldl_cons, addsOf]
    rw [binarizeRule_jobAdds, fold_jobs mo js, build_append]

theorem binarizeGrammar_jobs (r : Reordering) (mo : Option MarkovOpts) (g : Grammar) :
    binarizeGrammar r mo g = build (addsOf mo {} (jobs r mo g)) [] := by
  cases mo with
  | some o =>
    simp only [binarizeGrammar, jobs]
    rw [← fold_jobs (some o), List.foldl_map]
  | none =>
    simp only [binarizeGrammar, jobs]
    rw [← fold_jobs none, List.foldl_map]

/-- a job is processed in some generator state; everything it adds is in `addsOf` -/
theorem addsOf_mem (mo : Option MarkovOpts) : ∀ (js : List Job) (st : GenState) (j : Job), j ∈ js →
    ∃ st', (∀ o, mo = some o → st' = st) ∧ ∀ x ∈ jobAdds mo st' j, x ∈ addsOf mo st js
  | j0 :: js, st, j, h => by
    rcases List.mem_cons.1 h with rfl | h
    · exact ⟨st, fun _ _ => rfl, fun x hx => by simp [addsOf, hx]⟩
    · obtain ⟨st', h1, h2⟩ := addsOf_mem mo js (stateAfter mo st (j0.1.length - 3)) j h
      refine ⟨st', ?_, fun x hx => by simp only [addsOf, List.mem_append]; exact Or.inr (h2 x hx)⟩
      intro o ho
      rw [h1 o ho]; subst ho; rfl

/-- the count of every key after one call: what was there plus `c` per occurrence in the chain -/
theorem binarizeRule_gramCount (mo : Option MarkovOpts) (f : Func) (l : Lin) (c : Nat) (vert : List Str) (st : GenState)
    (res : Grammar) (h3 : 3 < f.length) (F : Func) (L : Lin) (V : VertKey) :
    gramCount (binarizeRule mo f l c vert st res).2 F L V = gramCount res F L V +
      if V = .default then
        c * (chainG f (labelOf mo st f vert (fanOut l)) (f.length - 3) 0 (f[0]?.getD []) l).count (F, L)
      else 0 := by
  rw [binarizeRule_buildG _ _ _ _ _ _ _ h3, gramCount_buildV, ksum_withCount]

theorem binarizeRule_chain_count (mo : Option MarkovOpts) (f : Func) (l : Lin) (c : Nat) (vert : List Str)
    (st : GenState) (res : Grammar) (h3 : 3 < f.length) :
    ∀ x ∈ chainG f (labelOf mo st f vert (fanOut l)) (f.length - 3) 0 (f[0]?.getD []) l,
      c ≤ gramCount (binarizeRule mo f l c vert st res).2 x.1 x.2 .default := by
  intro x hx
  rw [binarizeRule_gramCount _ _ _ _ _ _ _ h3, if_pos rfl]
  have : 0 < (chainG f (labelOf mo st f vert (fanOut l)) (f.length - 3) 0 (f[0]?.getD []) l).count (x.1, x.2) :=
    List.count_pos_iff.2 hx
  have := Nat.mul_le_mul_left c this
  omega

/-- grammar level: every call's additions are counted in the result -/
theorem binarizeGrammar_job (r : Reordering) (mo : Option MarkovOpts) (g : Grammar) (j : Job)
    (hj : j ∈ jobs r mo g) :
    ∃ st : GenState, (∀ o, mo = some o → st = {}) ∧
      ∀ x ∈ jobAdds mo st j, x.2.2 ≤ gramCount (binarizeGrammar r mo g) x.1 x.2.1 .default := by
  obtain ⟨st, h1, h2⟩ := addsOf_mem mo (jobs r mo g) {} j hj
  refine ⟨st, h1, fun x hx => ?_⟩
  rw [binarizeGrammar_jobs, gramCount_buildV, if_pos rfl]
  have := ksum_mem x _ (h2 x hx)
  omega

/-! ### T7.5: rules of rank <= 2 at grammar level, every mode -/

theorem isBinSym_labelOf (mo : Option MarkovOpts) (st : GenState) (func : Func) (vert : List Str) (fo : List Nat)
    (p : Nat) : isBinSym (labelOf mo st func vert fo p) = true := by
  cases mo with
  | none => exact isBinSym_uniqueLabel _
  | some o => simp [labelOf, isBinSym, markovLabel, Gen.G_DEFAULT_BINLABEL]

/-- every rule of a chain has a binarization symbol on its left or as its last element -/
theorem chainG_bin (func : Func) (lab : Nat → Str) (hlab : ∀ q, isBinSym (lab q) = true) :
    ∀ (n p : Nat) (h : Str) (t : Lin), (n = 0 → isBinSym h = true) → ∀ x ∈ chainG func lab n p h t,
      ∃ a b c, x.1 = [a, b, c] ∧ (isBinSym a = true ∨ isBinSym c = true)
  | 0, p, h, t, h0, x, hx => by
    simp only [chainG, List.mem_singleton] at hx
    subst hx
    exact ⟨_, _, _, rfl, Or.inl (h0 rfl)⟩
  | n + 1, p, h, t, _, x, hx => by
    simp only [chainG, List.mem_cons] at hx
    rcases hx with rfl | hx
    · exact ⟨_, _, _, rfl, Or.inr (hlab p)⟩
    · exact chainG_bin func lab hlab n (p + 1) (lab p) (restLin t) (fun _ => hlab p) x hx

theorem chainG_ne_NBF (func : Func) (lab : Nat → Str) (hlab : ∀ q, isBinSym (lab q) = true)
    (n p : Nat) (h : Str) (t : Lin) (h0 : n = 0 → isBinSym h = true) (F : Func) (hF : NBF F) :
    ∀ x ∈ chainG func lab n p h t, x.1 ≠ F := by
  intro x hx e
  obtain ⟨a, b, c, hx1, hbin⟩ := chainG_bin func lab hlab n p h t h0 x hx
  rw [e] at hx1
  rcases hbin with hb | hb
  · have := hF a (by rw [hx1]; simp)
    rw [hb] at this; cases this
  · have := hF c (by rw [hx1]; simp)
    rw [hb] at this; cases this

theorem ksum_zero (k : Func × Lin) : ∀ (A : List Rule), (∀ x ∈ A, x.1 ≠ k.1) → ksum k A = 0
  | [], _ => rfl
  | x :: A, h => by
    rw [ksum_cons, ksum_zero k A (fun y hy => h y (by simp [hy]))]
    have : ¬ (x.1, x.2.1) = k := by
      intro e
      apply h x (by simp)
      rw [← e]
    rw [if_neg this]

/-- what one call contributes to an entry whose function has no binarization symbol and at most two
    right-hand-side elements -/
theorem ksum_jobAdds (mo : Option MarkovOpts) (st : GenState) (j : Job) (F : Func) (L : Lin) (hF : NBF F)
    (h3 : F.length ≤ 3) :
    ksum (F, L) (jobAdds mo st j) = if (j.1, j.2.1) = (F, L) then j.2.2.1 else 0 := by
  unfold jobAdds
  by_cases hj : j.1.length ≤ 3
  · rw [if_pos hj, ksum_cons, ksum_nil]; simp
  · rw [if_neg hj]
    have hne : ¬ (j.1, j.2.1) = (F, L) := by
      intro e
      simp only [Prod.mk.injEq] at e
      rw [e.1] at hj; exact hj h3
    rw [if_neg hne]
    apply ksum_zero
    intro x hx
    obtain ⟨y, hy, rfl⟩ := List.mem_map.1 hx
    exact chainG_ne_NBF j.1 _ (isBinSym_labelOf mo st j.1 j.2.2.2 (fanOut j.2.1)) _ _ _ _
      (fun e => by omega) F hF y hy

theorem ksum_addsOf (mo : Option MarkovOpts) (F : Func) (L : Lin) (hF : NBF F) (h3 : F.length ≤ 3) :
    ∀ (js : List Job) (st : GenState),
    ksum (F, L) (addsOf mo st js) = ((js.filter fun j => (j.1, j.2.1) == (F, L)).map (·.2.2.1)).sum
  | [], _ => rfl
  | j :: js, st => by
    rw [addsOf, ksum_append, ksum_jobAdds mo st j F L hF h3, ksum_addsOf mo F L hF h3 js]
    by_cases e : (j.1, j.2.1) = (F, L)
    · rw [List.filter_cons_of_pos (by simpa using e)]; simp [e]
    · rw [List.filter_cons_of_neg (by simpa using e)]; simp [e]

/-! ### T7.1: the optimal reordering renames positions and permutes the right-hand side consistently -/

theorem instLin_relabel {α} (σ : Int → Nat) (l : Lin) (A A' : List (List (List α)))
    (h : ∀ v ∈ l.flatten, look A' ((σ v.1 : Int), v.2) = look A v) :
    instLin (relabel σ l) A' = instLin l A := by
  rw [instLin_eq, instLin_eq]
  unfold relabel
  rw [omap_map]
  apply omap_congr
  intro a ha
  unfold evalArg
  rw [omap_map]
  congr 1
  apply omap_congr
  intro v hv
  exact h v (List.mem_flatten.2 ⟨a, ha, hv⟩)

theorem instLin_congr {α} (l : Lin) (A A' : List (List (List α)))
    (h : ∀ v ∈ l.flatten, look A' v = look A v) : instLin l A' = instLin l A := by
  rw [instLin_eq, instLin_eq]
  apply omap_congr
  intro a ha
  unfold evalArg
  congr 1
  apply omap_congr
  intro v hv
  exact h v (List.mem_flatten.2 ⟨a, ha, hv⟩)

/-- padding / cutting the argument list to the right-hand-side length does not matter when every variable is in range -/
theorem instLin_range {α} (l : Lin) (k : Nat) (h : ∀ v ∈ l.flatten, 0 ≤ v.1 ∧ v.1.toNat < k)
    (args : List (List (List α))) :
    instLin l ((List.range k).map fun i => args[i]?.getD []) = instLin l args := by
  apply instLin_congr
  intro v hv
  obtain ⟨_, hk⟩ := h v hv
  unfold look
  rw [List.getElem?_map, List.getElem?_range hk]
  cases hc : args[v.1.toNat]? <;> simp [hc]

/-- the order chosen by `reorderingOptimal` (positions 1..k) -/
def orderOf (f : Func) (l : Lin) : List Nat :=
  pickOrder l ((List.range (f.length - 1)).map (· + 1)) (f.length - 1)

/-- new position -> old position (both 0-based over the right-hand side) -/
def permOf (f : Func) (l : Lin) : List Nat := (orderOf f l).map (· - 1)

theorem orderOf_perm (f : Func) (l : Lin) : (orderOf f l).Perm ((List.range (f.length - 1)).map (· + 1)) :=
  pickOrder_full l (f.length - 1)

theorem permOf_perm (f : Func) (l : Lin) : (permOf f l).Perm (List.range (f.length - 1)) := by
  have := (orderOf_perm f l).map (· - 1)
  simpa [permOf, List.map_map, Function.comp_def] using this

theorem reorderingOptimal_snd (f : Func) (l : Lin) :
    (reorderingOptimal f l).2 = relabel (fun x => ((orderOf f l).idxOf? (x + 1).toNat).getD 0) l := rfl

theorem reorderingOptimal_fst' (f : Func) (l : Lin) :
    (reorderingOptimal f l).1 = f[0]?.getD [] :: (permOf f l).map (fun i => f[i + 1]?.getD []) := by
  rw [reorderingOptimal_fst]
  congr 1
  unfold permOf
  rw [List.map_map]
  apply List.map_congr_left
  intro o ho
  have : o ∈ (List.range (f.length - 1)).map (· + 1) := (pickOrder_full l (f.length - 1)).mem_iff.1 ho
  obtain ⟨j, _, rfl⟩ := List.mem_map.1 this
  simp

/-- the range hypothesis that is really needed: every variable names an existing right-hand-side position -/
def InRange (f : Func) (l : Lin) : Prop := ∀ v ∈ l.flatten, 0 ≤ v.1 ∧ v.1.toNat < f.length - 1

theorem InRange_of_CWF (f : Func) (l : Lin) (h : CWF f l) : InRange f l := by
  intro v hv
  have := (wfLin_parts l _ h).1 v hv
  simpa using this

theorem reorderingOptimal_sem_range {α} (f : Func) (l : Lin) (h : InRange f l) (args : List (List (List α))) :
    instLin (reorderingOptimal f l).2 ((permOf f l).map fun i => args[i]?.getD []) = instLin l args := by
  rw [reorderingOptimal_snd]
  apply instLin_relabel
  intro v hv
  obtain ⟨h0, hk⟩ := h v hv
  obtain ⟨hp1, _⟩ := perm_positions (orderOf f l) (f.length - 1) (orderOf_perm f l)
  obtain ⟨hlt, hτ⟩ := hp1 v.1 h0 hk
  simp only at hlt hτ
  have hlen : (permOf f l).length = f.length - 1 := by simpa using (permOf_perm f l).length_eq
  unfold look
  simp only [Int.toNat_natCast]
  rw [List.getElem?_map, List.getElem?_eq_getElem (by omega)]
  have hget : (permOf f l)[((orderOf f l).idxOf? (v.1 + 1).toNat).getD 0]'(by omega) = v.1.toNat := by
    rw [← hτ]
    unfold permOf
    rw [List.getElem_map]
    rw [List.getElem?_eq_getElem (by simpa [permOf] using (by omega : _ < (permOf f l).length))]
    rfl
  simp only [Option.map_some, Option.bind_some, hget]
  cases args[v.1.toNat]? <;> simp


end TT.Lemmas.More12b
