/-
  Helper lemmas of wave 15 (tag w15c).
  Part 1 (C13): moving a token (`removeLeaf`, `appendBeside`, `appendToRoot`, `moveLeafBeside`) is
  invisible, up to a permutation, to every "additive" tree measure (`Lemmas.RootAttach.Additive`);
  instantiated with the list of node signatures this gives `contentKept` for the three punctuation
  transformations.  Core only (no Mathlib).
-/
import TT.Spec.Transform
import TT.Lemmas.Punct
import TT.Lemmas.RootAttach
import TT.Lemmas.More14
import TT.Lemmas.More9
import TT.Lemmas.More12h
namespace TT.Lemmas.More15c
open TT TT.Tree TT.Spec TT.Lemmas.WF TT.Lemmas.Punct TT.Lemmas.RootAttach TT.Lemmas.Read TT.Lemmas.ExportRT TT.Lemmas.More12h

variable {β : Type} {P : Tree → List β} {PL : List Tree → List β} {hd : Fields → List β}

/-! ### `removeLeaf` -/

theorem perm_swap3 (a b c : List β) : (a ++ (b ++ c)).Perm (b ++ (a ++ c)) := by
  rw [← List.append_assoc, ← List.append_assoc]
  exact List.Perm.append_right _ List.perm_append_comm

theorem removeLeafL_additive (A : Additive P PL hd) (k : Nat) (g : Fields) :
    (ks : List Tree) → ((leavesL ks).map num).Nodup → leaf k g ∈ leavesL ks →
    (P (leaf k g) ++ PL (removeLeafL k ks)).Perm (PL ks)
  | [], _, hm => by simp [leavesL] at hm
  | .leaf n f :: ts, hn, hm => by
    simp only [leavesL, leaves, List.singleton_append, List.map_cons, List.nodup_cons, num_leaf,
      List.mem_map, not_exists, not_and] at hn
    simp only [leavesL, leaves, List.singleton_append, List.mem_cons] at hm
    by_cases hnk : n = k
    · subst hnk
      have : leaf n g = leaf n f := by
        rcases hm with h | h
        · exact h
        · exact absurd rfl (hn.1 _ h)
      rw [this]
      simp only [removeLeafL, ↓reduceIte, A.cons]
      exact List.Perm.refl _
    · have hm' : leaf k g ∈ leavesL ts := by
        rcases hm with h | h
        · cases h; exact absurd rfl hnk
        · exact h
      have ih := removeLeafL_additive A k g ts hn.2 hm'
      simp only [removeLeafL, hnk, ↓reduceIte, A.cons]
      refine List.Perm.trans ?_ (List.Perm.append_left _ ih)
      rw [← List.append_assoc, ← List.append_assoc]
      exact List.Perm.append_right _ List.perm_append_comm
  | .node f ks :: ts, hn, hm => by
    simp only [leavesL, leaves, List.map_append, List.nodup_append] at hn
    simp only [leavesL, leaves, List.mem_append] at hm
    simp only [removeLeafL, A.cons, A.node]
    by_cases hk : leaf k g ∈ leavesL ks
    · have hkts : k ∉ (leavesL ts).map num := fun h =>
        hn.2.2 k (List.mem_map.2 ⟨_, hk, rfl⟩) k h rfl
      rw [removeLeafL_of_not_mem k ts hkts]
      have ih := removeLeafL_additive A k g ks hn.1 hk
      rw [← List.append_assoc, ← List.append_assoc]
      refine List.Perm.append_right _ ?_
      refine List.Perm.trans ?_ (List.Perm.append_left _ ih)
      rw [← List.append_assoc]
      exact List.Perm.append_right _ List.perm_append_comm
    · have hm' : leaf k g ∈ leavesL ts := by
        rcases hm with h | h
        · exact absurd h hk
        · exact h
      have hkks : k ∉ (leavesL ks).map num := fun h =>
        hn.2.2 k h k (List.mem_map.2 ⟨_, hm', rfl⟩) rfl
      rw [removeLeafL_of_not_mem k ks hkks]
      have ih := removeLeafL_additive A k g ts hn.2.1 hm'
      refine List.Perm.trans ?_ (List.Perm.append_left _ ih)
      exact perm_swap3 _ _ _

/-! ### `appendBeside` -/

mutual
theorem appendBeside_additive (A : Additive P PL hd) (j : Nat) (x : Tree) : (t : Tree) → t.leafNums.Nodup →
    j ∈ t.leafNums → t.isLeaf = false → (P (appendBeside j x t)).Perm (P t ++ P x)
  | .leaf n f, _, _, ht => by simp at ht
  | .node f ks, hn, hj, _ => by
    simp only [appendBeside]
    split
    · rw [A.node, A.node, A.append, A.cons, A.nil, List.append_nil, List.append_assoc]
    · rename_i hk
      rw [A.node, A.node, List.append_assoc]
      exact List.Perm.append_left _ (appendBesideL_additive A j x ks hn hj (by simpa using hk))
theorem appendBesideL_additive (A : Additive P PL hd) (j : Nat) (x : Tree) : (ks : List Tree) →
    ((leavesL ks).map num).Nodup → j ∈ (leavesL ks).map num → hasKid j ks = false →
    (PL (appendBesideL j x ks)).Perm (PL ks ++ P x)
  | [], _, hj, _ => by simp [leavesL] at hj
  | t :: ts, hn, hj, hk => by
    simp only [hasKid, List.any_cons, Bool.or_eq_false_iff] at hk
    simp only [leavesL, List.map_append, List.nodup_append] at hn
    simp only [leavesL, List.map_append, List.mem_append] at hj
    simp only [appendBesideL, A.cons]
    by_cases hjt : j ∈ (leaves t).map num
    · have hjts : j ∉ (leavesL ts).map num := fun h => hn.2.2 j hjt j h rfl
      rw [appendBesideL_of_not_mem j x ts hjts]
      have htl : t.isLeaf = false := by
        cases t with
        | node f ks => rfl
        | leaf n f =>
          simp only [leaves, List.map_cons, num_leaf, List.map_nil, List.mem_singleton] at hjt
          simp [hjt] at hk
      have ih := appendBeside_additive A j x t hn.1 hjt htl
      refine (ih.append_right _).trans ?_
      rw [List.append_assoc, List.append_assoc]
      exact List.Perm.append_left _ List.perm_append_comm
    · have hjts : j ∈ (leavesL ts).map num := by
        rcases hj with h | h
        · exact absurd h hjt
        · exact h
      rw [appendBeside_of_not_mem j x t hjt]
      have ih := appendBesideL_additive A j x ts hn.2.1 hjts hk.2
      rw [List.append_assoc]
      exact List.Perm.append_left _ ih
end

/-! ### `moveLeafBeside`, `appendToRoot` -/

theorem removeLeaf_additive (A : Additive P PL hd) (i : Nat) (g : Fields) (t : Tree) (hn : t.leafNums.Nodup)
    (ht : t.isLeaf = false) (hl : t.findLeaf i = some (leaf i g)) :
    (P (leaf i g) ++ P (removeLeaf i t)).Perm (P t) := by
  cases t with
  | leaf n f => simp at ht
  | node f ks =>
    simp only [removeLeaf, A.node]
    have := removeLeafL_additive A i g ks hn (findLeaf_mem _ i _ hl).1
    refine List.Perm.trans ?_ (List.Perm.append_left _ this)
    rw [← List.append_assoc, ← List.append_assoc]
    exact List.Perm.append_right _ List.perm_append_comm

theorem moveLeafBeside_additive (A : Additive P PL hd) (t : Tree) (i j : Nat) (hn : t.leafNums.Nodup)
    (hj : j ∈ t.leafNums) (hij : i ≠ j) (ht : t.isLeaf = false) :
    (P (moveLeafBeside t i j)).Perm (P t) := by
  unfold moveLeafBeside
  split
  · rename_i l hl
    obtain ⟨f, rfl⟩ := findLeaf_isLeaf t i l hl
    have hrem := removeLeaf_leafNums i t ht hn
    have hn' : (removeLeaf i t).leafNums.Nodup := by
      rw [hrem]; exact hn.sublist List.filter_sublist
    have hj' : j ∈ (removeLeaf i t).leafNums := by
      rw [hrem]; exact List.mem_filter.2 ⟨hj, by simpa using fun h => hij h.symm⟩
    have ht' : (removeLeaf i t).isLeaf = false := by rw [removeLeaf_isLeaf]; exact ht
    refine (appendBeside_additive A j (leaf i f) _ hn' hj' ht').trans ?_
    exact List.perm_append_comm.trans (removeLeaf_additive A i f t hn ht hl)
  · exact List.Perm.refl _

theorem rootMove_additive (A : Additive P PL hd) (t : Tree) (i : Nat) (l : Tree) (hn : t.leafNums.Nodup)
    (ht : t.isLeaf = false) (hl : t.findLeaf i = some l) :
    (P (appendToRoot (removeLeaf i t) l)).Perm (P t) := by
  obtain ⟨g, rfl⟩ := findLeaf_isLeaf t i l hl
  have h := removeLeaf_additive A i g t hn ht hl
  cases t with
  | leaf n f => simp at ht
  | node f ks =>
    simp only [removeLeaf, appendToRoot, A.node, A.append, A.cons, A.nil, List.append_nil] at h ⊢
    rw [← List.append_assoc]
    exact List.perm_append_comm.trans h

/-! ### the three transformations -/

theorem verylowStep_additive (A : Additive P PL hd) {t cur : Tree} (h : Inv t cur) (hn : t.leafNums.Nodup)
    (i : Nat) (hc : VCand t i) : (P (verylowStep cur i)).Perm (P cur) := by
  unfold verylowStep
  split
  · exact List.Perm.refl _
  · split
    · exact List.Perm.refl _
    · exact moveLeafBeside_additive A cur i (i - 1) (h.nodup hn) ((h.mem _).2 hc.memPred)
        (by have := hc.two; omega) h.isNode

theorem verylow_additive (A : Additive P PL hd) (t : Tree) (h : WF t = true) :
    (P (punctuationVerylow t)).Perm (P t) := by
  have hc := (verylowCands_spec t h).2
  have hnd := WF_nodup t h
  have : Inv t (punctuationVerylow t) ∧ (P (punctuationVerylow t)).Perm (P t) := by
    show (fun c => Inv t c ∧ (P c).Perm (P t)) ((verylowCands t).foldl verylowStep t)
    refine foldl_inv (fun c => Inv t c ∧ (P c).Perm (P t)) verylowStep _ t ?_
      ⟨Inv.refl t h, List.Perm.refl _⟩
    intro cur i hi hcur
    obtain ⟨a, b, c, d⟩ := hc i hi
    exact ⟨verylowStep_inv' hcur.1 hnd i ⟨a, b, c, d⟩,
      (verylowStep_additive A hcur.1 hnd i ⟨a, b, c, d⟩).trans hcur.2⟩
  exact this.2

theorem rootStep_additive (A : Additive P PL hd) {t cur : Tree} (h : Inv t cur) (hn : t.leafNums.Nodup)
    (i : Nat) : (P (rootStep cur i)).Perm (P cur) := by
  unfold rootStep
  split
  · split
    · rename_i l hl
      exact rootMove_additive A cur i l (h.nodup hn) h.isNode hl
    · exact List.Perm.refl _
  · exact List.Perm.refl _

theorem root_additive (A : Additive P PL hd) (t : Tree) (h : WF t = true) :
    (P (punctuationRoot t)).Perm (P t) := by
  have hnd := WF_nodup t h
  have : Inv t (punctuationRoot t) ∧ (P (punctuationRoot t)).Perm (P t) := by
    unfold punctuationRoot
    refine foldl_inv (fun c => Inv t c ∧ (P c).Perm (P t)) rootStep _ t ?_
      ⟨Inv.refl t h, List.Perm.refl _⟩
    intro cur i _ hcur
    exact ⟨rootStep_inv hcur.1 hnd i, (rootStep_additive A hcur.1 hnd i).trans hcur.2⟩
  exact this.2

theorem symPull_additive (A : Additive P PL hd) {t : Tree} (hw : WF t = true) (first last : Nat)
    (s : SymState) (i : Nat) (left : Bool) (h : Inv t s.cur) :
    (P (symPull first last s i left).cur).Perm (P s.cur) := by
  have hnd := WF_nodup t hw
  rcases symPull_cases first last s i left with he | ⟨p, cand, hp, hcd, hpair, _, har, he⟩
  · rw [he]
  · rw [he]
    simp only
    obtain ⟨hic, hip⟩ := parentOfLeaf_mem_leafNums i s.cur p hp
    have hps : ∀ n ∈ p.leafNums, n ∈ t.leafNums := by
      intro n hn
      obtain ⟨l, hl, rfl⟩ := List.mem_map.1 hn
      refine (h.mem _).1 (List.mem_map.2 ⟨l, ?_, rfl⟩)
      exact leaves_subset_of_mem_subtrees s.cur p (parentOfLeaf_spec i s.cur p hp).1 l hl
    have hpne : p.leafNums ≠ [] := List.ne_nil_of_mem hip
    refine moveLeafBeside_additive A s.cur cand i (h.nodup hnd) hic ?_ h.isNode
    cases left with
    | true =>
      simp only [↓reduceIte] at hcd
      have h1 := leftmost_le p i hip
      have h2 := (WF_mem_leafNums t hw _).1 (hps _ (leftmost_mem p hpne))
      omega
    | false =>
      simp only [Bool.false_eq_true, ↓reduceIte] at hcd
      have h1 := le_rightmost p i hip
      omega

theorem symStep_additive (A : Additive P PL hd) {t : Tree} (hw : WF t = true) (first last : Nat)
    (s : SymState) (i : Nat) (h : Inv t s.cur) :
    (P (symStep first last s i).cur).Perm (P s.cur) := by
  unfold symStep
  split
  · exact List.Perm.refl _
  · simp only
    split
    · exact symPull_additive A hw first last s i true h
    · exact (symPull_additive A hw first last _ i false (symPull_inv hw first last s i true h)).trans
        (symPull_additive A hw first last s i true h)

theorem sym_additive (A : Additive P PL hd) (relc : Option Str) (t : Tree) (h : WF t = true) :
    (P (punctuationSymetrify relc t)).Perm (P t) := by
  unfold punctuationSymetrify
  simp only
  have := foldl_inv (fun (s : SymState) => Inv t s.cur ∧ (P s.cur).Perm (P t))
    (symStep ((t.terminals.head?.map num).getD 0) ((t.terminals.getLast?.map num).getD 0))
    (match relc with
      | none => (t.terminals.filter isPairPunctWord).map num
      | some r => relcCands r t.terminals)
    { cur := t, done := [] }
    (fun s i _ hs => ⟨symStep_inv h _ _ s i hs.1, (symStep_additive A h _ _ s i hs.1).trans hs.2⟩)
    ⟨Inv.refl t h, List.Perm.refl _⟩
  exact this.2

/-! ## Part 2 (C13, `readers_clean`): what the readers put into the `word` slot of a constituent -/

mutual
/-- no constituent carries a `word` entry -/
def ncw : Tree → Bool
  | .leaf _ _ => true
  | .node f ks => f.word.isNone && ncwL ks
def ncwL : List Tree → Bool
  | [] => true
  | t :: ts => ncw t && ncwL ts
end

theorem ncwL_append : ∀ (a b : List Tree), ncwL (a ++ b) = (ncwL a && ncwL b)
  | [], b => by simp [ncwL]
  | t :: a, b => by simp [ncwL, ncwL_append a b, Bool.and_assoc]

theorem ncwL_reverse : ∀ (a : List Tree), ncwL a.reverse = ncwL a
  | [] => rfl
  | t :: a => by simp [ncwL, ncwL_append, ncwL_reverse a, Bool.and_comm]

mutual
theorem ncw_subtrees : (t : Tree) → ncw t = true → ∀ s ∈ t.subtrees, s.isLeaf = false → s.fields.word = none
  | .leaf n f, _, s, hs, hl => by
    simp only [subtrees, List.mem_singleton] at hs; subst hs; simp [isLeaf] at hl
  | .node f ks, h, s, hs, hl => by
    simp only [ncw, Bool.and_eq_true, Option.isNone_iff_eq_none] at h
    simp only [subtrees, List.mem_cons] at hs
    rcases hs with rfl | hs
    · exact h.1
    · exact ncwL_subtrees ks h.2 s hs hl
theorem ncwL_subtrees : (ks : List Tree) → ncwL ks = true → ∀ s ∈ subtreesL ks, s.isLeaf = false → s.fields.word = none
  | [], _, s, hs, _ => by simp [subtreesL] at hs
  | t :: ts, h, s, hs, hl => by
    simp only [ncwL, Bool.and_eq_true] at h
    simp only [subtreesL, List.mem_append] at hs
    rcases hs with hs | hs
    · exact ncw_subtrees t h.1 s hs hl
    · exact ncwL_subtrees ts h.2 s hs hl
end

mutual
theorem ncw_replaceParens : (t : Tree) → ncw (replaceParensTree t) = ncw t
  | .leaf n f => by simp [replaceParensTree, ncw]
  | .node f ks => by
    simp only [replaceParensTree, ncw, ncwL_replaceParens ks]
    cases h : f.word <;> simp [replaceParensFields, h]
theorem ncwL_replaceParens : (ks : List Tree) → ncwL (replaceParensTreeL ks) = ncwL ks
  | [] => by simp [replaceParensTreeL, ncwL]
  | t :: ts => by simp [replaceParensTreeL, ncwL, ncw_replaceParens t, ncwL_replaceParens ts]
end

theorem sp_ncw (lf : Str → Str × Str) (ep : Bool) : ∀ fuel,
    (∀ root s cnt t rest cnt', spNodeG lf ep root fuel s cnt = some (t, rest, cnt') → ncw t = true) ∧
    (∀ s cnt acc ks rest cnt', spKidsG lf ep fuel s cnt acc = some (ks, rest, cnt') → ncwL acc = true → ncwL ks = true) := by
  intro fuel
  induction fuel with
  | zero => exact ⟨fun _ _ _ _ _ _ h => by simp [spNodeG] at h, fun _ _ _ _ _ _ h => by simp [spKidsG] at h⟩
  | succ fuel ih =>
    obtain ⟨N, K⟩ := ih
    constructor
    · intro root s cnt t rest cnt' h
      match s, h with
      | [], h => simp [spNodeG] at h
      | c :: r, h =>
        by_cases hc : c = '('
        · subst hc
          simp only [spNodeG] at h
          repeat' split at h
          all_goals first | cases h | skip
          all_goals first
            | (simp [ncw]; done)
            | (rename_i hk
               have := K _ _ _ _ _ _ hk rfl
               simp [ncw, this])
        · rw [spNodeG_notlrb _ _ _ _ _ _ _ hc] at h; cases h
    · intro s cnt acc ks rest cnt' h hacc
      simp only [spKidsG] at h
      repeat' split at h
      all_goals first | cases h | skip
      · rw [ncwL_reverse]; exact hacc
      · rename_i hn
        exact K _ _ _ _ _ _ h (by simp [ncwL, N _ _ _ _ _ _ hn, hacc])

theorem ncwL_mem : ∀ (ts : List Tree), ncwL ts = true → ∀ t ∈ ts, ncw t = true
  | [], _, t, ht => by simp at ht
  | x :: xs, h, t, ht => by
    simp only [ncwL, Bool.and_eq_true] at h
    rcases List.mem_cons.1 ht with rfl | ht
    · exact h.1
    · exact ncwL_mem xs h.2 t ht

theorem spGroupsG_ncw (lf : Str → Str × Str) (ep : Bool) : ∀ (fuel : Nat) (s : Str) (acc ts : List Tree),
    spGroupsG lf ep fuel s acc = some ts → ncwL acc = true → ncwL ts = true := by
  intro fuel
  induction fuel with
  | zero => intro s acc ts h; simp [spGroupsG] at h
  | succ fuel ih =>
    intro s acc ts h hacc
    match s, h with
    | [], h =>
      simp only [spGroupsG, Option.some.injEq] at h
      subst h; rw [ncwL_reverse]; exact hacc
    | c :: r, h =>
      by_cases hc : c = '('
      · subst hc
        simp only [spGroupsG] at h
        split at h
        · rename_i hn
          exact ih _ _ _ h (by simp [ncwL, (sp_ncw lf ep _).1 _ _ _ _ _ _ hn, hacc])
        · cases h
      · have : spGroupsG lf ep (fuel + 1) (c :: r) acc = spGroupsG lf ep fuel r acc := by
          simp [spGroupsG]
        rw [this] at h
        exact ih _ _ _ h hacc

/-- the bracket reader (without the discobracket post-pass) never puts a `word` entry on a constituent -/
theorem readBrackets_ncw (o : InOpts) (hd : o.disco = false) (text : Str) (ts : List (Nat × Tree))
    (h : readBrackets o text = .ok ts) : ∀ t ∈ ts, ncw t.2 = true := by
  have hs := TT.Lemmas.More14.readBrackets_specG_opts o hd text
  cases hsp : specBracketsG (lfOf o) o.emptyPos text with
  | none =>
    rw [hsp] at hs
    obtain ⟨e, he⟩ := hs
    rw [he] at h; cases h
  | some ts' =>
    rw [hsp] at hs
    simp only at hs
    rw [hs] at h
    cases h
    intro t ht
    have h2 : t.2 ∈ ts'.map (TT.Lemmas.More14.rpT o) := (List.of_mem_zip ht).2
    obtain ⟨t', ht', he⟩ := List.mem_map.1 h2
    have hn : ncw t' = true := ncwL_mem ts' (spGroupsG_ncw _ _ _ _ _ _ hsp rfl) t' ht'
    rw [← he]
    unfold TT.Lemmas.More14.rpT
    split
    · rw [ncw_replaceParens]; exact hn
    · exact hn

/-! ### TIGER reader -/

theorem mapM_option_all {α β : Type} (f : α → Option β) (P : β → Prop) (hf : ∀ a b, f a = some b → P b) :
    ∀ (l : List α) (ks : List β), l.mapM f = some ks → ∀ k ∈ ks, P k
  | [], ks, h, k, hk => by
    simp only [List.mapM_nil, pure, Option.some.injEq] at h
    subst h; simp at hk
  | a :: l, ks, h, k, hk => by
    rw [List.mapM_cons] at h
    cases h1 : f a with
    | none => simp [h1] at h
    | some b =>
      cases h2 : l.mapM f with
      | none => simp [h1, h2] at h
      | some bs =>
        simp only [h1, h2, Option.bind_eq_bind, Option.bind_some, pure, Option.some.injEq] at h
        subst h
        rcases List.mem_cons.1 hk with rfl | hk
        · exact hf a _ h1
        · exact mapM_option_all f P hf l bs h2 k hk

theorem ncwL_of_all : ∀ (ks : List Tree), (∀ k ∈ ks, ncw k = true) → ncwL ks = true
  | [], _ => rfl
  | k :: ks, h => by
    simp only [ncwL, Bool.and_eq_true]
    exact ⟨h k (by simp), ncwL_of_all ks (fun x hx => h x (by simp [hx]))⟩

theorem tigerBuild_ncw (s : XSent) : ∀ (fuel : Nat) (i : Str) (edge : Option Str) (t : Tree),
    tigerBuild s fuel i edge = some t → ncw t = true := by
  intro fuel
  induction fuel with
  | zero => intro i edge t h; simp [tigerBuild] at h
  | succ fuel ih =>
    intro i edge t h
    simp only [tigerBuild] at h
    split at h
    · cases h; rfl
    · split at h
      · simp only [Option.map_eq_some_iff] at h
        obtain ⟨ks, hks, rfl⟩ := h
        simp only [ncw, Option.isNone_none, Bool.true_and]
        refine ncwL_of_all ks ?_
        exact mapM_option_all _ (fun k => ncw k = true) (fun a b hab => ih _ _ _ hab) _ ks hks
      · cases h

mutual
theorem ncw_gfSplit (sep : Str) : (t : Tree) → ncw (gfSplitTree sep t) = ncw t
  | .leaf n f => by simp [gfSplitTree, ncw]
  | .node f ks => by simp [gfSplitTree, ncw, ncwL_gfSplit sep ks]
theorem ncwL_gfSplit (sep : Str) : (ks : List Tree) → ncwL (gfSplitTreeL sep ks) = ncwL ks
  | [] => by simp [gfSplitTreeL, ncwL]
  | t :: ts => by simp [gfSplitTreeL, ncwL, ncw_gfSplit sep t, ncwL_gfSplit sep ts]
end

theorem tigerSentence_ncw (o : InOpts) (s : XSent) (t : Tree) (h : tigerSentence o s = .ok t) : ncw t = true := by
  unfold tigerSentence at h
  simp only at h
  repeat' split at h
  all_goals first | cases h | skip
  all_goals
    have hr := tigerBuild_ncw s _ _ _ _ (by assumption)
    simp [ncw_replaceParens, ncw_gfSplit, ncw, ncwL, hr]

theorem foldlM_except_inv {α β : Type} (f : β → α → Except Err β) (P : β → Prop) :
    ∀ (l : List α) (b r : β), l.foldlM f b = .ok r → P b → (∀ b a b', f b a = .ok b' → P b → P b') → P r
  | [], b, r, h, hb, _ => by
    simp only [List.foldlM_nil, pure, Except.pure, Except.ok.injEq] at h
    subst h; exact hb
  | a :: l, b, r, h, hb, hstep => by
    rw [List.foldlM_cons] at h
    obtain ⟨b', hb', h⟩ := TT.Lemmas.Write.bind_eq_ok _ _ _ h
    exact foldlM_except_inv f P l b' r h (hstep b a b' hb' hb) hstep

theorem readTiger_ncw (o : InOpts) (ss : List XSent) (ts : List (Nat × Tree)) (h : readTiger o ss = .ok ts) :
    ∀ t ∈ ts, ncw t.2 = true := by
  unfold readTiger at h
  refine foldlM_except_inv _ (fun acc => ∀ t ∈ acc, ncw t.2 = true) _ _ _ h (by simp) ?_
  intro acc si acc' hstep hacc
  obtain ⟨s, i⟩ := si
  simp only at hstep
  split at hstep
  · cases hstep
  · split at hstep
    · rename_i t ht
      simp only [Except.ok.injEq] at hstep
      subst hstep
      intro x hx
      rcases List.mem_append.1 hx with hx | hx
      · exact hacc x hx
      · have hx := List.eq_of_mem_singleton hx
        subst hx
        exact tigerSentence_ncw o s t ht
    · simp only [Except.ok.injEq] at hstep
      subst hstep; exact hacc
    · cases hstep

/-! ### export reader -/

mutual
/-- every `word` entry of a constituent satisfies `p` -/
def cwp (p : Str → Bool) : Tree → Bool
  | .leaf _ _ => true
  | .node f ks => (match f.word with | none => true | some w => p w) && cwpL p ks
def cwpL (p : Str → Bool) : List Tree → Bool
  | [] => true
  | t :: ts => cwp p t && cwpL p ts
end

theorem cwpL_iff (p : Str → Bool) : ∀ ks, cwpL p ks = true ↔ ∀ k ∈ ks, cwp p k = true
  | [] => by simp [cwpL]
  | t :: ts => by simp [cwpL, cwpL_iff p ts]

mutual
theorem cwp_subtrees (p : Str → Bool) : (t : Tree) → cwp p t = true →
    ∀ s ∈ t.subtrees, s.isLeaf = false → ∀ w, s.fields.word = some w → p w = true
  | .leaf n f, _, s, hs, hl => by
    simp only [subtrees, List.mem_singleton] at hs; subst hs; simp [isLeaf] at hl
  | .node f ks, h, s, hs, hl => by
    simp only [cwp, Bool.and_eq_true] at h
    simp only [subtrees, List.mem_cons] at hs
    rcases hs with rfl | hs
    · intro w hw
      simp only [fields] at hw
      rw [hw] at h
      exact h.1
    · exact cwpL_subtrees p ks h.2 s hs hl
theorem cwpL_subtrees (p : Str → Bool) : (ks : List Tree) → cwpL p ks = true →
    ∀ s ∈ subtreesL ks, s.isLeaf = false → ∀ w, s.fields.word = some w → p w = true
  | [], _, s, hs, _ => by simp [subtreesL] at hs
  | t :: ts, h, s, hs, hl => by
    simp only [cwpL, Bool.and_eq_true] at h
    simp only [subtreesL, List.mem_append] at hs
    rcases hs with hs | hs
    · exact cwp_subtrees p t h.1 s hs hl
    · exact cwpL_subtrees p ts h.2 s hs hl
end

/-- a `#ddd` word has no bracket character: `replace_parens` leaves it alone -/
theorem replaceParens_cons (w : Str) (h : rIsCons w = true) : replaceParens w = w := by
  rw [TT.Lemmas.Write.replaceParens_eq]
  apply TT.Lemmas.Write.replFold_id
  intro kv hkv hinf
  obtain ⟨c, hc, hcc⟩ := TT.Lemmas.More8.brackets_key_special kv hkv
  have hcw : c ∈ w := hinf.subset hc
  simp only [rIsCons, Bool.and_eq_true, beq_iff_eq, pyIsDigit, List.all_eq_true] at h
  match w, h, hcw with
  | x :: xs, h, hcw =>
    simp only [List.head?_cons, Option.some.injEq, List.drop_succ_cons, List.drop_zero] at h
    rcases List.mem_cons.1 hcw with rfl | hm
    · rw [h.1.2] at hcc; revert hcc; decide
    · have := h.2.2 c hm
      rcases hcc with rfl | rfl | rfl | rfl | rfl | rfl | rfl <;> revert this <;> decide

mutual
theorem cwp_replaceParens : (t : Tree) → cwp rIsCons t = true → cwp rIsCons (replaceParensTree t) = true
  | .leaf n f, _ => by simp [replaceParensTree, cwp]
  | .node f ks, h => by
    simp only [cwp, Bool.and_eq_true] at h
    simp only [replaceParensTree, cwp, Bool.and_eq_true]
    refine ⟨?_, cwpL_replaceParens ks h.2⟩
    cases hw : f.word with
    | none => simp [replaceParensFields, hw]
    | some w =>
      rw [hw] at h
      simp [replaceParensFields, hw, replaceParens_cons w h.1, h.1]
theorem cwpL_replaceParens : (ks : List Tree) → cwpL rIsCons ks = true → cwpL rIsCons (replaceParensTreeL ks) = true
  | [], _ => by simp [replaceParensTreeL, cwpL]
  | t :: ts, h => by
    simp only [cwpL, Bool.and_eq_true] at h
    simp [replaceParensTreeL, cwpL, cwp_replaceParens t h.1, cwpL_replaceParens ts h.2]
end

/-- the numbers of the lines: a token line has a number below the running token counter -/
def NodesOK (nodes : List (Nat × ExpFields)) (k : Nat) : Prop :=
  ∀ x ∈ nodes, rIsCons x.2.word = true ∨ (1 ≤ x.1 ∧ x.1 < k)

theorem foldl_rstep_ok : ∀ (fs : List ExpFields) (acc : List (Nat × ExpFields)) (k : Nat), 1 ≤ k → NodesOK acc k →
    NodesOK (fs.foldl rstep (acc, k)).1 (k + (fs.filter fun f => !rIsCons f.word).length)
  | [], acc, k, _, h => by simpa using h
  | f :: fs, acc, k, hk, h => by
    rw [List.foldl_cons]
    cases hc : rIsCons f.word with
    | true =>
      have e : rstep (acc, k) f = (acc ++ [((strToNat? (f.word.drop 1)).getD 0, f)], k) := by
        simp only [rstep]; rw [show (f.word.length == 4 && f.word.head? == some '#' && pyIsDigit (f.word.drop 1)) = true from hc]; simp
      rw [e]
      have := foldl_rstep_ok fs (acc ++ [((strToNat? (f.word.drop 1)).getD 0, f)]) k hk (by
        intro x hx
        rcases List.mem_append.1 hx with hx | hx
        · exact h x hx
        · have hx := List.eq_of_mem_singleton hx; subst hx; exact Or.inl hc)
      simpa [List.filter_cons, hc] using this
    | false =>
      have e : rstep (acc, k) f = (acc ++ [(k, f)], k + 1) := by
        simp only [rstep]; rw [show (f.word.length == 4 && f.word.head? == some '#' && pyIsDigit (f.word.drop 1)) = false from hc]; simp
      rw [e]
      have := foldl_rstep_ok fs (acc ++ [(k, f)]) (k + 1) (by omega) (by
        intro x hx
        rcases List.mem_append.1 hx with hx | hx
        · rcases h x hx with h1 | h1
          · exact Or.inl h1
          · exact Or.inr ⟨h1.1, by omega⟩
        · have hx := List.eq_of_mem_singleton hx; subst hx; exact Or.inr ⟨hk, by simp⟩)
      simp only [List.filter_cons, hc, Bool.not_false, ↓reduceIte, List.length_cons]
      rw [show k + ((fs.filter fun f => !rIsCons f.word).length + 1) = k + 1 + (fs.filter fun f => !rIsCons f.word).length from by omega]
      exact this

theorem exportBuild_cwp (nodes : List (Nat × ExpFields)) (hn : NodesOK nodes 500)
    (hp : ∀ x ∈ nodes, x.2.parent = 0 ∨ 500 ≤ x.2.parent) :
    ∀ (fuel num : Nat) (t : Tree), exportBuild nodes fuel num = some t → cwp rIsCons t = true := by
  intro fuel
  induction fuel with
  | zero => intro num t h; simp [exportBuild] at h
  | succ fuel ih =>
    intro num t h
    rw [exportBuild_succ'] at h
    split at h
    · simp only [Option.some.injEq] at h
      subst h; rfl
    · rename_i hne
      cases hm : ((nodes.filter fun x => x.2.parent == num).map (·.1)).mapM (exportBuild nodes fuel) with
      | none => rw [hm] at h; cases h
      | some ks =>
        rw [hm] at h
        simp only [Option.map_some, Option.some.injEq] at h
        subst h
        simp only [cwp, Bool.and_eq_true]
        constructor
        · -- the number is that of a constituent
          have hnum : num = 0 ∨ 500 ≤ num := by
            cases hf : nodes.filter fun x => x.2.parent == num with
            | nil => simp [hf] at hne
            | cons x xs =>
              have hx : x ∈ nodes.filter fun x => x.2.parent == num := by rw [hf]; simp
              obtain ⟨hx1, hx2⟩ := List.mem_filter.1 hx
              have := hp x hx1
              simp only [beq_iff_eq] at hx2
              omega
          unfold nodeFields
          cases hf : nodes.find? (·.1 == num) with
          | none => rfl
          | some x =>
            have hx1 : x ∈ nodes := List.mem_of_find?_eq_some hf
            have hx2 : x.1 = num := by simpa using List.find?_some hf
            simp only [fieldsOf]
            rcases hn x hx1 with h1 | h1
            · exact h1
            · omega
        · rw [cwpL_iff]
          intro k hk
          rw [mem_sortBy] at hk
          obtain ⟨a, _, hfa⟩ := mapM_mem_out _ _ _ hm k hk
          exact ih _ _ hfa

theorem exportParseLine_facts (o : InOpts) (l : Str) (f : ExpFields) (h : exportParseLine o l = .ok f) :
    (f.parent = 0 ∨ 500 ≤ f.parent) ∧ f.word = (splitWs l).headD [] := by
  unfold exportParseLine at h
  simp only at h
  split at h
  · cases h
  · rename_i f4 h4
    split at h
    · rename_i w le lb m e p rest heq
      split at h
      · cases h
      · rename_i pn hpn
        split at h
        · cases h
        · rename_i hr
          simp only [Except.ok.injEq] at h
          subst h
          simp only [Bool.not_eq_true', Bool.not_eq_false, Bool.or_eq_true, Bool.and_eq_true,
            decide_eq_true_eq, beq_iff_eq] at hr
          refine ⟨by show pn = 0 ∨ 500 ≤ pn; omega, ?_⟩
          show w = _
          split at heq
          · cases hs : splitWs l with
            | nil => simp [hs] at h4
            | cons a as => rw [hs] at heq; simp at heq; simp [heq.1]
          · rw [heq]; rfl
    · cases h

theorem mapM_except_mem_out {ε α β : Type} (f : α → Except ε β) : ∀ (l : List α) (bs : List β), l.mapM f = .ok bs →
    ∀ b ∈ bs, ∃ a ∈ l, f a = .ok b
  | [], bs, h, b, hb => by
    simp only [List.mapM_nil, pure, Except.pure, Except.ok.injEq] at h
    subst h; simp at hb
  | x :: l, bs, h, b, hb => by
    rw [List.mapM_cons] at h
    obtain ⟨y, hy, h⟩ := TT.Lemmas.Write.bind_eq_ok _ _ _ h
    obtain ⟨ys, hys, h⟩ := TT.Lemmas.Write.bind_eq_ok _ _ _ h
    simp only [pure, Except.pure, Except.ok.injEq] at h
    subst h
    rcases List.mem_cons.1 hb with rfl | hb
    · exact ⟨x, by simp, hy⟩
    · obtain ⟨a, ha, hfa⟩ := mapM_except_mem_out f l ys hys b hb
      exact ⟨a, by simp [ha], hfa⟩

theorem mapM_except_map_eq {ε α β γ : Type} (f : α → Except ε β) (g : α → γ) (k : β → γ) : ∀ (l : List α) (bs : List β),
    l.mapM f = .ok bs → (∀ a b, f a = .ok b → k b = g a) → bs.map k = l.map g
  | [], bs, h, _ => by
    simp only [List.mapM_nil, pure, Except.pure, Except.ok.injEq] at h
    subst h; rfl
  | x :: l, bs, h, hk => by
    rw [List.mapM_cons] at h
    obtain ⟨y, hy, h⟩ := TT.Lemmas.Write.bind_eq_ok _ _ _ h
    obtain ⟨ys, hys, h⟩ := TT.Lemmas.Write.bind_eq_ok _ _ _ h
    simp only [pure, Except.pure, Except.ok.injEq] at h
    subst h
    simp [hk x y hy, mapM_except_map_eq f g k l ys hys hk]

theorem foldl_rstep_mem : ∀ (fs : List ExpFields) (acc : List (Nat × ExpFields)) (k : Nat),
    ∀ x ∈ (fs.foldl rstep (acc, k)).1, x ∈ acc ∨ x.2 ∈ fs
  | [], acc, k, x, hx => Or.inl hx
  | f :: fs, acc, k, x, hx => by
    rw [List.foldl_cons] at hx
    have e : (rstep (acc, k) f).1 = acc ++ [((rstep (acc, k) f).1.getLast?.map (·.1) |>.getD 0, f)] := by
      simp [rstep]
    have := foldl_rstep_mem fs (rstep (acc, k) f).1 (rstep (acc, k) f).2 x hx
    rcases this with h1 | h1
    · rw [e] at h1
      rcases List.mem_append.1 h1 with h2 | h2
      · exact Or.inl h2
      · have h2 := List.eq_of_mem_singleton h2
        subst h2; exact Or.inr (by simp)
    · exact Or.inr (by simp [h1])

/-- the word field of a line has the form `#ddd`: the line describes a constituent -/
def consLine (l : Str) : Bool := rIsCons ((splitWs l).headD [])

theorem exportSentence_cwp (o : InOpts) (lines : List Str) (t : Tree) (h : exportSentence o lines = .ok t)
    (hsmall : (lines.filter fun l => !consLine l).length < 500) : cwp rIsCons t = true := by
  rw [exportSentence_eq] at h
  cases hp : lines.mapM (exportParseLine o) with
  | error e => rw [hp] at h; cases h
  | ok fs =>
    rw [hp] at h
    replace h : (if ((fs.foldl rstep ([], 1)).1).any (fun (n, _) => n > 999) then throw Err.valueError
      else match exportBuild (fs.foldl rstep ([], 1)).1 ((fs.foldl rstep ([], 1)).1.length + 2) 0 with
        | some t => pure t
        | none => throw Err.other) = Except.ok t := h
    split at h
    · cases h
    · cases hb : exportBuild (fs.foldl rstep ([], 1)).1 ((fs.foldl rstep ([], 1)).1.length + 2) 0 with
      | none => rw [hb] at h; cases h
      | some t' =>
        rw [hb] at h
        simp only [pure, Except.pure, Except.ok.injEq] at h
        subst h
        have hfacts : ∀ l f, exportParseLine o l = .ok f → (fun l => (splitWs l).headD []) l = f.word :=
          fun l f hl => (exportParseLine_facts o l f hl).2.symm
        have hpar : ∀ f ∈ fs, f.parent = 0 ∨ 500 ≤ f.parent := by
          intro f hf
          obtain ⟨l, _, hl⟩ := mapM_except_mem_out _ _ _ hp f hf
          exact (exportParseLine_facts o l f hl).1
        have hwords : fs.map (·.word) = lines.map (fun l => (splitWs l).headD []) :=
          mapM_except_map_eq _ _ (·.word) _ _ hp (fun l f hl => (exportParseLine_facts o l f hl).2)
        have hcount : (fs.filter fun f => !rIsCons f.word).length = (lines.filter fun l => !consLine l).length := by
          have h1 : (fs.filter fun f => !rIsCons f.word).length = ((fs.map (·.word)).filter fun w => !rIsCons w).length := by
            rw [List.filter_map, List.length_map]; rfl
          have h2 : (lines.filter fun l => !consLine l).length =
              ((lines.map (fun l => (splitWs l).headD [])).filter fun w => !rIsCons w).length := by
            rw [List.filter_map, List.length_map]; rfl
          rw [h1, h2, hwords]
        have hok := foldl_rstep_ok fs [] 1 (by omega) (by intro x hx; simp at hx)
        have hnodes : NodesOK (fs.foldl rstep ([], 1)).1 500 := by
          intro x hx
          rcases hok x hx with h1 | h1
          · exact Or.inl h1
          · exact Or.inr ⟨h1.1, by omega⟩
        refine exportBuild_cwp _ hnodes ?_ _ _ _ hb
        intro x hx
        exact hpar x.2 ((foldl_rstep_mem fs [] 1 x hx).resolve_left (by simp))

/-- the lines of the sentence block that is open -/
def curBody : Option (Nat × List Str) → List Str
  | none => []
  | some (_, b) => b

theorem exportLoop_cwp (o : InOpts) (all : List Str)
    (H : ∀ seg, seg <:+: all → (∀ l ∈ seg, "#EOS".toList.isPrefixOf l = false) →
      (seg.filter fun l => !consLine l).length < 500) :
    ∀ (lines : List Str) (cur : Option (Nat × List Str)) (cnt : Nat) (acc r : List (Nat × Tree)),
      exportLoop o lines cur cnt acc = .ok r →
      (∃ pre, all = pre ++ (curBody cur).reverse ++ lines.map strip) →
      (∀ l ∈ curBody cur, "#EOS".toList.isPrefixOf l = false) →
      (∀ x ∈ acc, cwp rIsCons x.2 = true) → ∀ x ∈ r, cwp rIsCons x.2 = true
  | [], cur, cnt, acc, r, h, _, _, hacc => by
    rw [exportLoop] at h
    cases h
    intro x hx
    exact hacc x (by simpa using hx)
  | line :: rest, none, cnt, acc, r, h, hpre, _, hacc => by
    obtain ⟨pre, hpre⟩ := hpre
    have hpre' : all = (pre ++ [strip line]) ++ rest.map strip := by
      rw [hpre]; simp [curBody]
    rw [exportLoop] at h
    split at h
    · split at h
      · exact exportLoop_cwp o all H rest _ cnt acc r h ⟨pre ++ [strip line], by rw [hpre']; simp [curBody]⟩
          (by simp [curBody]) hacc
      · cases h
    · exact exportLoop_cwp o all H rest none cnt acc r h ⟨pre ++ [strip line], by rw [hpre']; simp [curBody]⟩
        (by simp [curBody]) hacc
  | line :: rest, some (id, body), cnt, acc, r, h, hpre, hbody, hacc => by
    obtain ⟨pre, hpre⟩ := hpre
    simp only [curBody] at hpre hbody
    rw [exportLoop] at h
    split at h
    · cases hs : exportSentence o body.reverse with
      | error e => rw [hs] at h; cases h
      | ok t =>
        rw [hs] at h
        have hseg : body.reverse <:+: all := ⟨pre, (line :: rest).map strip, hpre.symm⟩
        have ht := exportSentence_cwp o _ t hs (H _ hseg (fun l hl => hbody l (List.mem_reverse.1 hl)))
        refine exportLoop_cwp o all H rest none (cnt + 1) _ r h
          ⟨pre ++ body.reverse ++ [strip line], by rw [hpre]; simp [curBody]⟩ (by simp [curBody]) ?_
        intro x hx
        rcases List.mem_cons.1 hx with rfl | hx
        · simp only
          split
          · exact cwp_replaceParens t ht
          · exact ht
        · exact hacc x hx
    · rename_i hne
      refine exportLoop_cwp o all H rest (some (id, strip line :: body)) cnt acc r h
        ⟨pre, by rw [hpre]; simp [curBody]⟩ ?_ hacc
      intro l hl
      simp only [curBody, List.mem_cons] at hl
      rcases hl with rfl | hl
      · exact Bool.eq_false_iff.2 hne
      · exact hbody l hl

theorem readExport_cwp (o : InOpts) (text : Str) (ts : List (Nat × Tree)) (h : readExport o text = .ok ts)
    (H : ∀ seg, seg <:+: (splitOnChar '\n' text).map strip → (∀ l ∈ seg, "#EOS".toList.isPrefixOf l = false) →
      (seg.filter fun l => !consLine l).length < 500) : ∀ x ∈ ts, cwp rIsCons x.2 = true :=
  exportLoop_cwp o _ H _ none 1 [] ts h ⟨[], by simp [curBody]⟩ (by simp [curBody]) (by simp)

end TT.Lemmas.More15c
