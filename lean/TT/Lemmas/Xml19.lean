/-
  Helper lemmas for `TT.Props.C03Xml`: the XML text parser `TT.Xml.parseXml` on the text the TIGER-XML writer model produces.
-/
import TT.IO.Xml
import TT.Lemmas.TigerRT
import TT.Lemmas.More12h
import TT.Lemmas.Run
namespace TT.Lemmas.Xml19
open TT TT.Tree TT.Xml
open TT.Spec (stripLine xsentOf)
open TT.Lemmas.More12h (termOf ntOf xsentOf_eq)
open TT.Lemmas.Write TT.Lemmas.TigerRT

/-! ### attribute values -/

/-- `g` escapes one character in a way `unescS` undoes in one step -/
def InvS (g : Char → Str) : Prop :=
  ∀ (c : Char) (f : Nat) (rest : Str), unescS (f + 1) (g c ++ rest) = (unescS f rest).map (c :: ·)

theorem s2n_10 : strToNat? ['1', '0'] = some 10 := by decide
theorem s2n_13 : strToNat? ['1', '3'] = some 13 := by decide
theorem s2n_9 : strToNat? ['9'] = some 9 := by decide

theorem unescS_plain (c : Char) (f : Nat) (rest : Str) (h1 : c ≠ '&') (h2 : c ≠ '<') (h3 : c ≠ '\r') (h4 : c ≠ '\n') (h5 : c ≠ '\t') :
    unescS (f + 1) (c :: rest) = (unescS f rest).map (c :: ·) := by
  simp [unescS, h1, h2, h3, h4, h5]

theorem esc1_invS : InvS esc1 := by
  intro c f rest
  unfold esc1
  split
  · subst_vars; simp [unescS, splitFirst, entChar]
  split
  · subst_vars; simp [unescS, splitFirst, entChar]
  split
  · subst_vars; simp [unescS, splitFirst, entChar]
  split
  · subst_vars; simp [unescS, splitFirst, entChar, s2n_10, xmlCodeOK]
  split
  · subst_vars; simp [unescS, splitFirst, entChar, s2n_13, xmlCodeOK]
  split
  · subst_vars; simp [unescS, splitFirst, entChar, s2n_9, xmlCodeOK]
  · rename_i h1 h2 _ h4 h5 h6
    exact unescS_plain c f rest h1 h2 h5 h4 h6

theorem esc2_invS : InvS esc2 := by
  intro c f rest
  unfold esc2
  split
  · subst_vars; simp [unescS, splitFirst, entChar]
  · exact esc1_invS c f rest

theorem unescS_flatMap (g : Char → Str) (hg : InvS g) : ∀ (s : Str) (f : Nat), s.length ≤ f → unescS (f + 1) (s.flatMap g) = some s
  | [], f, _ => by simp [unescS]
  | c :: s, 0, h => by simp at h
  | c :: s, f + 1, h => by
    rw [List.flatMap_cons, hg c (f + 1) _, unescS_flatMap g hg s f (by simpa using h)]
    rfl

theorem esc1_ne (c : Char) : 1 ≤ (esc1 c).length := by
  unfold esc1; repeat' split
  all_goals simp
theorem esc2_ne (c : Char) : 1 ≤ (esc2 c).length := by
  unfold esc2; split
  · simp
  · exact esc1_ne c

theorem length_le_flatMap (g : Char → Str) (hg : ∀ c, 1 ≤ (g c).length) : ∀ s : Str, s.length ≤ (s.flatMap g).length
  | [] => by simp
  | c :: s => by
    have := length_le_flatMap g hg s
    have := hg c
    simp only [List.flatMap_cons, List.length_append, List.length_cons]; omega

theorem attrValue_flatMap (g : Char → Str) (hg : InvS g) (hl : ∀ c, 1 ≤ (g c).length) (s : Str) : attrValue (s.flatMap g) = some s :=
  unescS_flatMap g hg s _ (length_le_flatMap g hl s)

/-- a written attribute value: delimiter `q`, which does not occur inside, and the strict decoder gives the value back -/
theorem quoteattr_specS (s : Str) :
    ∃ q inner, quoteattr s = q :: (inner ++ [q]) ∧ (q = '"' ∨ q = '\'') ∧ q ∉ inner ∧ attrValue inner = some s := by
  rw [quoteattr_eq]
  by_cases h1 : (xmlEscape s).contains '"' = true
  · by_cases h2 : (xmlEscape s).contains '\'' = true
    · rw [if_pos h1, if_pos h2]
      refine ⟨'"', (xmlEscape s).flatMap quot1, by simp, Or.inl rfl, ?_, ?_⟩
      all_goals rw [xmlEscape_eq, List.flatMap_assoc]; simp only [esc1_quot1]
      · exact not_mem_flatMap _ _ dq_not_mem_esc2 s
      · exact attrValue_flatMap esc2 esc2_invS esc2_ne s
    · rw [if_pos h1, if_neg h2]
      refine ⟨'\'', xmlEscape s, by simp, Or.inr rfl, by simpa using h2, ?_⟩
      rw [xmlEscape_eq]; exact attrValue_flatMap esc1 esc1_invS esc1_ne s
  · rw [if_neg h1]
    refine ⟨'"', xmlEscape s, by simp, Or.inl rfl, by simpa using h1, ?_⟩
    rw [xmlEscape_eq]; exact attrValue_flatMap esc1 esc1_invS esc1_ne s

/-- the escaping round trip for attribute values, with the parser's own decoder -/
theorem attrValue_quoteattr (s : Str) : ∃ q inner, quoteattr s = q :: (inner ++ [q]) ∧ attrValue inner = some s := by
  obtain ⟨q, inner, h1, _, _, h4⟩ := quoteattr_specS s
  exact ⟨q, inner, h1, h4⟩

/-! ### attributes -/

/-- a name as the parser delimits it -/
def XName (n : Str) : Prop := nameOK n = true ∧ ∀ c ∈ n, isNameC c = true

theorem nameC_not (c : Char) (h : isNameC c = true) :
    isXmlWs c = false ∧ c ≠ '>' ∧ c ≠ '/' ∧ c ≠ '=' := by
  refine ⟨?_, ?_, ?_, ?_⟩
  · rw [Bool.eq_false_iff]; intro h'
    simp only [isXmlWs, Bool.or_eq_true, beq_iff_eq] at h'
    rcases h' with ((h' | h') | h') | h' <;> (subst h'; revert h; decide)
  all_goals (intro e; subst e; revert h; decide)

theorem skipWs_name (n rest : Str) (hn : XName n) : skipWs (n ++ rest) = n ++ rest := by
  obtain ⟨h1, h2⟩ := hn
  cases n with
  | nil => simp [nameOK] at h1
  | cons a r =>
    have := (nameC_not a (h2 a (by simp))).1
    simp [skipWs, this]

theorem takeWhile_name (n rest : Str) (c : Char) (hn : XName n) (hc : isNameC c = false) :
    (n ++ c :: rest).takeWhile isNameC = n := takeWhile_append_stop _ _ _ _ hn.2 hc

/-- one written attribute (`attrStr`: blank, name, `=`, quoted value) -/
theorem lexAttrs_attrStr (name v rest : Str) (hn : XName name) (f : Nat) :
    lexAttrs (f + 1) (attrStr name v ++ rest) =
      match lexAttrs f rest with
      | some (as, sc, r) => if as.any (·.1 == name) then none else some ((name, v) :: as, sc, r)
      | none => none := by
  obtain ⟨q, inner, he, hq, hqi, hv⟩ := quoteattr_specS v
  obtain ⟨a, n', rfl⟩ : ∃ a n', name = a :: n' := by
    cases name with
    | nil => exact absurd hn.1 (by simp [nameOK])
    | cons a n' => exact ⟨a, n', rfl⟩
  obtain ⟨ha1, ha2, ha3, _⟩ := nameC_not a (hn.2 a (by simp))
  have hsk : skipWs (attrStr (a :: n') v ++ rest) = (a :: n') ++ '=' :: (q :: (inner ++ q :: rest)) := by
    rw [attrStr, he]
    have e1 : isXmlWs ' ' = true := by decide
    simp only [skipWs, List.cons_append, List.dropWhile_cons, e1, ha1, if_true, Bool.false_eq_true, if_false, List.append_assoc, List.nil_append]
  have htw : ((a :: n') ++ '=' :: (q :: (inner ++ q :: rest))).takeWhile isNameC = a :: n' :=
    takeWhile_name _ _ _ hn (by decide)
  have hqq : (q == '"' || q == '\'') = true := by rcases hq with h | h <;> simp [h]
  have hqw : skipWs (q :: (inner ++ q :: rest)) = q :: (inner ++ q :: rest) := by
    rcases hq with h | h <;> (subst h; simp [skipWs, isXmlWs])
  have hval : (inner ++ q :: rest).takeWhile (fun x => x != q) = inner := by
    apply takeWhile_append_stop
    · intro x hx
      have : x ≠ q := fun e => hqi (e ▸ hx)
      simpa using this
    · simp
  rw [lexAttrs]
  simp only [hsk, htw]
  have hp1 : (['>'].isPrefixOf ((a :: n') ++ '=' :: (q :: (inner ++ q :: rest)))) = false := by
    simp [List.isPrefixOf, Ne.symm ha2]
  have hp2 : (['/', '>'].isPrefixOf ((a :: n') ++ '=' :: (q :: (inner ++ q :: rest)))) = false := by
    simp [List.isPrefixOf, Ne.symm ha3]
  have hhd : ((attrStr (a :: n') v ++ rest).head?.map isXmlWs != some true) = false := by
    simp [attrStr, isXmlWs]
  simp only [hp1, hp2, hhd, hn.1, Bool.false_eq_true, if_false, Bool.not_true, List.drop_left]
  have hsk2 : skipWs ('=' :: (q :: (inner ++ q :: rest))) = '=' :: (q :: (inner ++ q :: rest)) := by simp [skipWs, isXmlWs]
  simp only [hsk2, hqw, hqq, if_true, hval, List.drop_left, hv]
  cases lexAttrs f rest with
  | none => rfl
  | some x => obtain ⟨as, sc, r⟩ := x; rfl

theorem lexAttrs_attrNum (name : Str) (n : Nat) (rest : Str) (hn : XName name) (f : Nat) :
    lexAttrs (f + 1) (attrNum name n ++ rest) =
      match lexAttrs f rest with
      | some (as, sc, r) => if as.any (·.1 == name) then none else some ((name, natToStr n) :: as, sc, r)
      | none => none := by
  rw [attrNum_eq]; exact lexAttrs_attrStr name _ rest hn f

theorem lexAttrs_gt (f : Nat) (rest : Str) : lexAttrs (f + 1) ('>' :: rest) = some ([], false, rest) := by
  simp [lexAttrs, skipWs, isXmlWs, List.isPrefixOf]

theorem lexAttrs_slash (f : Nat) (rest : Str) : lexAttrs (f + 1) (' ' :: '/' :: '>' :: rest) = some ([], true, rest) := by
  simp [lexAttrs, skipWs, isXmlWs, List.isPrefixOf]

/-! ### a written tag -/

theorem attrLine_append : ∀ (kvs : List (Str × Str)) (tail rest : Str), attrLine kvs tail ++ rest = attrLine kvs (tail ++ rest)
  | [], _, _ => rfl
  | kv :: r, tail, rest => by rw [attrLine, List.append_assoc, attrLine_append r tail rest]; rfl

theorem lexAttrs_attrLine : ∀ (kvs : List (Str × Str)) (tail rest : Str) (sc : Bool) (f : Nat), (∀ kv ∈ kvs, XName kv.1) →
    (kvs.map (·.1)).Nodup → (∀ f, lexAttrs (f + 1) tail = some ([], sc, rest)) →
    lexAttrs (f + 1 + kvs.length) (attrLine kvs tail) = some (kvs, sc, rest)
  | [], tail, rest, sc, f, _, _, ht => ht f
  | kv :: r, tail, rest, sc, f, hk, hd, ht => by
    have ih := lexAttrs_attrLine r tail rest sc f (fun x hx => hk x (by simp [hx])) (by simp at hd; exact hd.2) ht
    have e : f + 1 + (kv :: r).length = (f + 1 + r.length) + 1 := by simp; omega
    rw [e, attrLine, lexAttrs_attrStr _ _ _ (hk kv (by simp)), ih]
    have : r.any (fun x => x.1 == kv.1) = false := by
      rw [Bool.eq_false_iff]; intro h
      obtain ⟨x, hx, hxe⟩ := List.any_eq_true.1 h
      simp only [List.map_cons, List.nodup_cons, List.mem_map] at hd
      exact hd.1 ⟨x, hx, by simpa using hxe⟩
    simp [this]

/-- `lexTag` reads the tag at the beginning of `l` and leaves what follows -/
def TagLine (l : Str) (tk : XTok) : Prop := ∀ rest, lexTag (l ++ rest) = some (tk, rest)

theorem tagLine_attrs (nm : Str) (kvs : List (Str × Str)) (tail : Str) (sc : Bool) (hn : XName nm) (hk : ∀ kv ∈ kvs, XName kv.1)
    (hd : (kvs.map (·.1)).Nodup) (hc : ∀ rest, ∃ c t, attrLine kvs (tail ++ rest) = c :: t ∧ isNameC c = false)
    (ht : ∀ rest f, lexAttrs (f + 1) (tail ++ rest) = some ([], sc, rest)) :
    TagLine ('<' :: (nm ++ attrLine kvs tail)) (if sc then .em nm kvs else .op nm kvs) := by
  intro rest
  obtain ⟨c, t, hct, hcn⟩ := hc rest
  obtain ⟨a, n', rfl⟩ : ∃ a n', nm = a :: n' := by
    cases nm with
    | nil => exact absurd hn.1 (by simp [nameOK])
    | cons a n' => exact ⟨a, n', rfl⟩
  obtain ⟨_, _, ha3, _⟩ := nameC_not a (hn.2 a (by simp))
  have e0 : '<' :: ((a :: n') ++ attrLine kvs tail) ++ rest = '<' :: ((a :: n') ++ attrLine kvs (tail ++ rest)) := by
    rw [← attrLine_append]; simp
  rw [e0, lexTag]
  have hp : (['/'].isPrefixOf ((a :: n') ++ attrLine kvs (tail ++ rest))) = false := by
    simp [List.isPrefixOf, Ne.symm ha3]
  have htw : ((a :: n') ++ attrLine kvs (tail ++ rest)).takeWhile isNameC = a :: n' := by
    rw [hct]; exact takeWhile_name _ _ _ hn hcn
  simp only [hp, Bool.false_eq_true, if_false, htw, hn.1, Bool.not_true, List.drop_left]
  obtain ⟨f, hf⟩ : ∃ f, ((a :: n') ++ attrLine kvs (tail ++ rest)).length + 1 = f + 1 + kvs.length := by
    have := attrLine_length kvs (tail ++ rest)
    refine ⟨((a :: n') ++ attrLine kvs (tail ++ rest)).length - kvs.length, ?_⟩
    simp only [List.length_append, List.length_cons] at *; omega
  rw [hf, lexAttrs_attrLine kvs (tail ++ rest) rest sc f hk hd (fun f => ht rest f)]

theorem tagLine_close (nm : Str) (hn : XName nm) : TagLine ('<' :: '/' :: (nm ++ ['>'])) (.cl nm) := by
  intro rest
  have e0 : '<' :: '/' :: (nm ++ ['>']) ++ rest = '<' :: '/' :: (nm ++ '>' :: rest) := by simp
  rw [e0, lexTag]
  have htw : (nm ++ '>' :: rest).takeWhile isNameC = nm := takeWhile_name _ _ _ hn (by decide)
  simp [List.isPrefixOf, htw, hn.1, skipWs, isXmlWs]

/-! ### element names -/

def nS : Str := ['s']
def nGraph : Str := ['g','r','a','p','h']
def nTerminals : Str := ['t','e','r','m','i','n','a','l','s']
def nNonterminals : Str := ['n','o','n','t','e','r','m','i','n','a','l','s']
def nT : Str := ['t']
def nNt : Str := ['n','t']
def nEdge : Str := ['e','d','g','e']
def nBody : Str := ['b','o','d','y']
def nCorpus : Str := ['c','o','r','p','u','s']

theorem xname_of_dec (n : Str) (h : (nameOK n && n.all isNameC) = true) : XName n := by
  simp only [Bool.and_eq_true, List.all_eq_true] at h
  exact h

theorem gt_tail (rest : Str) (f : Nat) : lexAttrs (f + 1) (['>'] ++ rest) = some ([], false, rest) := lexAttrs_gt f rest
theorem slash_tail (rest : Str) (f : Nat) : lexAttrs (f + 1) ([' ', '/', '>'] ++ rest) = some ([], true, rest) := lexAttrs_slash f rest

/-! ### the written lines as tags -/

def tokAttrs (l : Tree) : List (Str × Str) :=
  [(kId, natToStr l.num), (kWord, dflt l.fields.word), (kLemma, dflt l.fields.lemma), (kPos, l.fields.label), (kMorph, dflt l.fields.morph)]

theorem tag_sLine (sid : Nat) : TagLine (sLine sid) (.op nS [(kId, natToStr sid)]) := by
  have := tagLine_attrs nS [(kId, natToStr sid)] ['>'] false (xname_of_dec _ (by decide)) (by simp; exact xname_of_dec _ (by decide))
    (by simp) (fun rest => ⟨_, _, rfl, by decide⟩) gt_tail
  simpa [sLine, nS, attrLine, attrNum_eq] using this

theorem tag_gLine (k : Nat) : TagLine (gLine k) (.op nGraph [(kRoot, natToStr k)]) := by
  have := tagLine_attrs nGraph [(kRoot, natToStr k)] ['>'] false (xname_of_dec _ (by decide)) (by simp; exact xname_of_dec _ (by decide))
    (by simp) (fun rest => ⟨_, _, rfl, by decide⟩) gt_tail
  simpa [gLine, nGraph, attrLine, attrNum_eq] using this

theorem tag_T0 : TagLine T0 (.op nTerminals []) := by
  have := tagLine_attrs nTerminals [] ['>'] false (xname_of_dec _ (by decide)) (by simp) (by simp) (fun rest => ⟨_, _, rfl, by decide⟩) gt_tail
  simpa [T0, nTerminals, attrLine] using this
theorem tag_N0 : TagLine N0 (.op nNonterminals []) := by
  have := tagLine_attrs nNonterminals [] ['>'] false (xname_of_dec _ (by decide)) (by simp) (by simp) (fun rest => ⟨_, _, rfl, by decide⟩) gt_tail
  simpa [N0, nNonterminals, attrLine] using this
theorem tag_T1 : TagLine T1 (.cl nTerminals) := tagLine_close nTerminals (xname_of_dec _ (by decide))
theorem tag_N1 : TagLine N1 (.cl nNonterminals) := tagLine_close nNonterminals (xname_of_dec _ (by decide))
theorem tag_G1 : TagLine G1 (.cl nGraph) := tagLine_close nGraph (xname_of_dec _ (by decide))
theorem tag_S1 : TagLine S1 (.cl nS) := tagLine_close nS (xname_of_dec _ (by decide))
theorem tag_closeS : TagLine closeS (.cl nNt) := tagLine_close nNt (xname_of_dec _ (by decide))

theorem tag_tok (l : Tree) : TagLine (tokS l) (.em nT (tokAttrs l)) := by
  have := tagLine_attrs nT (tokAttrs l) [' ', '/', '>'] true (xname_of_dec _ (by decide))
    (by intro kv hkv; simp only [tokAttrs, List.mem_cons, List.not_mem_nil, or_false] at hkv
        rcases hkv with h | h | h | h | h <;> (subst h; dsimp only; exact xname_of_dec _ (by decide)))
    (by simp only [tokAttrs, List.map_cons, List.map_nil]; decide) (fun rest => ⟨_, _, rfl, by decide⟩) slash_tail
  simpa [tokS, tokLineS, nT, tokAttrs, attrLine, attrNum_eq] using this

theorem tag_nt (k : Nat) (cat : Str) : TagLine (ntLineS k cat) (.op nNt [(kId, natToStr k), (kCat, cat)]) := by
  have := tagLine_attrs nNt [(kId, natToStr k), (kCat, cat)] ['>'] false (xname_of_dec _ (by decide))
    (by intro kv hkv; simp only [List.mem_cons, List.not_mem_nil, or_false] at hkv
        rcases hkv with h | h <;> (subst h; dsimp only; exact xname_of_dec _ (by decide)))
    (by simp only [List.map_cons, List.map_nil]; decide) (fun rest => ⟨_, _, rfl, by decide⟩) gt_tail
  simpa [ntLineS, nNt, attrLine, attrNum_eq] using this

theorem tag_edge (lab : Str) (k : Nat) : TagLine (edgeLineS lab k) (.em nEdge [(kLabel, lab), (kIdref, natToStr k)]) := by
  have := tagLine_attrs nEdge [(kLabel, lab), (kIdref, natToStr k)] [' ', '/', '>'] true (xname_of_dec _ (by decide))
    (by intro kv hkv; simp only [List.mem_cons, List.not_mem_nil, or_false] at hkv
        rcases hkv with h | h <;> (subst h; dsimp only; exact xname_of_dec _ (by decide)))
    (by simp only [List.map_cons, List.map_nil]; decide) (fun rest => ⟨_, _, rfl, by decide⟩) slash_tail
  simpa [edgeLineS, nEdge, attrLine, attrNum_eq] using this

/-! ### lines of tags -/

theorem map_eq_flatMap_single {α β} (g : α → β) (L : List α) : L.map g = L.flatMap fun x => [g x] := by
  induction L with
  | nil => rfl
  | cons x L ih => simp [ih]

theorem skipWs_strip : ∀ (l0 r rest : Str), stripLine l0 = '<' :: r → skipWs (l0 ++ rest) = '<' :: r ++ rest
  | [], r, rest, h => by simp [stripLine] at h
  | c :: l0, r, rest, h => by
    by_cases hc : c = ' '
    · subst hc
      rw [stripLine_sp] at h
      have := skipWs_strip l0 r rest h
      simpa [skipWs, isXmlWs] using this
    · have e : stripLine (c :: l0) = c :: l0 := by simp [stripLine, hc]
      rw [e] at h
      injection h with h1 h2
      subst h1; subst h2
      simp [skipWs, isXmlWs]

theorem lexAll_nl (f : Nat) (rest : Str) : lexAll f ('\n' :: rest) = lexAll f rest := by
  cases f with
  | zero => rfl
  | succ f =>
    have : skipWs ('\n' :: rest) = skipWs rest := by simp [skipWs, isXmlWs]
    rw [lexAll, lexAll, this]

/-- the text `txt` consists of the tags `tks` (and white space) -/
def Lexes (txt : Str) (tks : List XTok) : Prop :=
  tks.length ≤ txt.length ∧ ∀ f rest, lexAll (f + tks.length) (txt ++ rest) = (lexAll f rest).map (tks ++ ·)

theorem lexes_nil : Lexes [] [] := ⟨Nat.le_refl _, fun f rest => by simp⟩

theorem lexes_append {a b : Str} {ta tb : List XTok} (ha : Lexes a ta) (hb : Lexes b tb) : Lexes (a ++ b) (ta ++ tb) := by
  refine ⟨by have := ha.1; have := hb.1; simp only [List.length_append]; omega, fun f rest => ?_⟩
  have e : f + (ta ++ tb).length = (f + tb.length) + ta.length := by simp only [List.length_append]; omega
  rw [e, List.append_assoc, ha.2, hb.2]
  cases lexAll f rest <;> simp

/-- one written line (any indentation), with its line end -/
theorem lexes_line (l0 r : Str) (tk : XTok) (hs : stripLine l0 = '<' :: r) (ht : TagLine ('<' :: r) tk) : Lexes (l0 ++ ['\n']) [tk] := by
  refine ⟨by simp, fun f rest => ?_⟩
  have e : l0 ++ ['\n'] ++ rest = l0 ++ ('\n' :: rest) := by simp
  rw [e]
  show lexAll (f + 1) _ = _
  rw [lexAll, skipWs_strip l0 r _ hs]
  have := ht ('\n' :: rest)
  rw [List.cons_append] at this
  rw [List.cons_append]
  simp only [this, lexAll_nl]
  cases lexAll f rest <;> rfl

theorem lexes_flatMap {α} (F : α → Str) (G : α → List XTok) : ∀ (L : List α), (∀ x ∈ L, Lexes (F x) (G x)) →
    Lexes (L.flatMap F) (L.flatMap G)
  | [], _ => lexes_nil
  | x :: L, h => by
    rw [List.flatMap_cons, List.flatMap_cons]
    exact lexes_append (h x (by simp)) (lexes_flatMap F G L (fun y hy => h y (by simp [hy])))

/-- the text of a list of lines -/
def ulines (ls : List Str) : Str := (ls.map (· ++ ['\n'])).flatten

theorem ulines_cons (l : Str) (ls : List Str) : ulines (l :: ls) = (l ++ ['\n']) ++ ulines ls := by simp [ulines]
theorem ulines_append (a b : List Str) : ulines (a ++ b) = ulines a ++ ulines b := by simp [ulines]
theorem ulines_nil : ulines [] = [] := rfl
theorem ulines_map {α} (F : α → Str) (L : List α) : ulines (L.map F) = L.flatMap fun x => F x ++ ['\n'] := by
  induction L with
  | nil => rfl
  | cons x L ih => rw [List.map_cons, ulines_cons, ih, List.flatMap_cons]
theorem ulines_flatMap {α} (F : α → List Str) (L : List α) : ulines (L.flatMap F) = L.flatMap fun x => ulines (F x) := by
  induction L with
  | nil => rfl
  | cons x L ih => rw [List.flatMap_cons, ulines_append, ih, List.flatMap_cons]

/-! ### the tags of one written sentence -/

def edgeTok (t : Tree) (ps : Path × Tree) (i : Nat) : XTok :=
  .em nEdge [(kLabel, edgeLab ps.2.kids[i]?), (kIdref, natToStr (edgeRef t ps.1 i ps.2.kids[i]?))]

def ntToks (t : Tree) (ps : Path × Tree) : List XTok :=
  [.op nNt [(kId, natToStr (numOf t ps.1)), (kCat, ps.2.fields.label)]] ++ (childOrder ps.2).map (edgeTok t ps) ++ [.cl nNt]

def sentToks (sid : Nat) (t : Tree) : List XTok :=
  [.op nS [(kId, natToStr sid)], .op nGraph [(kRoot, natToStr (numOf t []))], .op nTerminals []] ++
  t.terminals.map (fun l => XTok.em nT (tokAttrs l)) ++ [.cl nTerminals, .op nNonterminals []] ++
  (consList t).flatMap (ntToks t) ++ [.cl nNonterminals, .cl nGraph, .cl nS]

theorem lexes_one (l0 r : Str) (tk : XTok) (hs : stripLine l0 = '<' :: r) (ht : TagLine ('<' :: r) tk) : Lexes (ulines [l0]) [tk] := by
  have := lexes_line l0 r tk hs ht
  simpa [ulines] using this

theorem lexes_ntBlock (t : Tree) (ps : Path × Tree) : Lexes (ulines (ntBlock t ps)) (ntToks t ps) := by
  unfold ntBlock ntToks
  rw [ulines_append, ulines_append]
  refine lexes_append (lexes_append ?_ ?_) ?_
  · exact lexes_one _ _ _ (strip_nt _ _) (tag_nt _ _)
  · rw [ulines_map]
    have : (childOrder ps.2).map (edgeTok t ps) = (childOrder ps.2).flatMap fun i => [edgeTok t ps i] := by
      exact map_eq_flatMap_single _ _
    rw [this]
    apply lexes_flatMap
    intro i _
    exact lexes_line _ _ _ (strip_edge _ _) (tag_edge _ _)
  · exact lexes_one _ _ _ strip_close tag_closeS

theorem lexes_sentence (sid : Nat) (t : Tree) : Lexes (ulines (writeTiger sid t)) (sentToks sid t) := by
  rw [writeTiger_eq]
  unfold sentToks
  simp only [ulines_append]
  refine lexes_append (lexes_append (lexes_append (lexes_append ?_ ?_) ?_) ?_) ?_
  · have a := lexes_one _ _ _ (strip_sLine sid) (tag_sLine sid)
    have b := lexes_one _ _ _ (strip_gLine (numOf t [])) (tag_gLine (numOf t []))
    have c := lexes_one (' ' :: ' ' :: T0) _ _ (by simp only [stripLine_sp]; exact stripLine_lt _) tag_T0
    have := lexes_append a (lexes_append b c)
    simpa [ulines] using this
  · rw [ulines_map]
    have : t.terminals.map (fun l => XTok.em nT (tokAttrs l)) = t.terminals.flatMap fun l => [XTok.em nT (tokAttrs l)] := by
      exact map_eq_flatMap_single _ _
    rw [this]
    apply lexes_flatMap
    intro l _
    exact lexes_line _ _ _ (strip_tok l) (tag_tok l)
  · have a := lexes_one (' ' :: ' ' :: T1) _ _ (by simp only [stripLine_sp]; exact stripLine_lt _) tag_T1
    have b := lexes_one (' ' :: ' ' :: N0) _ _ (by simp only [stripLine_sp]; exact stripLine_lt _) tag_N0
    have := lexes_append a b
    simpa [ulines] using this
  · rw [ulines_flatMap]
    apply lexes_flatMap
    intro ps _
    exact lexes_ntBlock t ps
  · have a := lexes_one (' ' :: ' ' :: N1) _ _ (by simp only [stripLine_sp]; exact stripLine_lt _) tag_N1
    have b := lexes_one G1 _ _ (stripLine_lt _) tag_G1
    have c := lexes_one S1 _ _ (stripLine_lt _) tag_S1
    have := lexes_append a (lexes_append b c)
    simpa [ulines] using this

/-! ### tags -> element tree -/

def pushKids (es : List XElem) : List Frame → List Frame
  | (n, as, ks) :: st => (n, as, es.reverse ++ ks) :: st
  | [] => []

/-- the tag sequence `tks` builds the elements `es` (as further children of the innermost open element) -/
def Emits (tks : List XTok) (es : List XElem) : Prop :=
  ∀ (ts : List XTok) (fr : Frame) (st : List Frame), buildGo (tks ++ ts) (fr :: st) = buildGo ts (pushKids es (fr :: st))

theorem emits_nil : Emits [] [] := by
  intro ts fr st
  obtain ⟨n, as, ks⟩ := fr
  simp [pushKids]

theorem emits_append {a b : List XTok} {ea eb : List XElem} (ha : Emits a ea) (hb : Emits b eb) : Emits (a ++ b) (ea ++ eb) := by
  intro ts fr st
  obtain ⟨n, as, ks⟩ := fr
  rw [List.append_assoc, ha]
  show buildGo (b ++ ts) ((n, as, ea.reverse ++ ks) :: st) = _
  rw [hb]
  simp [pushKids]

theorem emits_em (n : Str) (as : List (Str × Str)) : Emits [.em n as] [.mk n as []] := by
  intro ts fr st
  obtain ⟨n', as', ks⟩ := fr
  simp [buildGo, addKid, pushKids]

theorem emits_elem (n : Str) (as : List (Str × Str)) {tks : List XTok} {es : List XElem} (h : Emits tks es) :
    Emits ([.op n as] ++ tks ++ [.cl n]) [.mk n as es] := by
  intro ts fr st
  obtain ⟨n', as', ks⟩ := fr
  have e : [XTok.op n as] ++ tks ++ [.cl n] ++ ts = .op n as :: (tks ++ (.cl n :: ts)) := by simp
  rw [e, buildGo, h]
  simp [pushKids, buildGo, addKid]

theorem emits_flatMap {α} (F : α → List XTok) (G : α → XElem) : ∀ (L : List α), (∀ x ∈ L, Emits (F x) [G x]) →
    Emits (L.flatMap F) (L.map G)
  | [], _ => emits_nil
  | x :: L, h => by
    rw [List.flatMap_cons, List.map_cons]
    exact emits_append (ea := [G x]) (h x (by simp)) (emits_flatMap F G L (fun y hy => h y (by simp [hy])))

theorem buildTree_of_emits (tks : List XTok) (e : XElem) (h : Emits tks [e]) : buildTree tks = some e := by
  have := h [] ([], [], []) []
  rw [List.append_nil] at this
  rw [buildTree, this]
  simp [pushKids, buildGo]

/-! ### the element tree of the written document -/

def tElem (l : Tree) : XElem := .mk nT (tokAttrs l) []
def edgeElem (t : Tree) (ps : Path × Tree) (i : Nat) : XElem :=
  .mk nEdge [(kLabel, edgeLab ps.2.kids[i]?), (kIdref, natToStr (edgeRef t ps.1 i ps.2.kids[i]?))] []
def ntElem (t : Tree) (ps : Path × Tree) : XElem :=
  .mk nNt [(kId, natToStr (numOf t ps.1)), (kCat, ps.2.fields.label)] ((childOrder ps.2).map (edgeElem t ps))
def sentElem (st : Nat × Tree) : XElem :=
  .mk nS [(kId, natToStr st.1)] [.mk nGraph [(kRoot, natToStr (numOf st.2 []))]
    [.mk nTerminals [] (st.2.terminals.map tElem), .mk nNonterminals [] ((consList st.2).map (ntElem st.2))]]
def docElem (sents : List (Nat × Tree)) : XElem := .mk nCorpus [] [.mk nBody [] (sents.map sentElem)]

def docToks (sents : List (Nat × Tree)) : List XTok :=
  [.op nCorpus [], .op nBody []] ++ sents.flatMap (fun st => sentToks st.1 st.2) ++ [.cl nBody, .cl nCorpus]

theorem emits_nt (t : Tree) (ps : Path × Tree) : Emits (ntToks t ps) [ntElem t ps] := by
  unfold ntToks ntElem
  apply emits_elem
  rw [map_eq_flatMap_single]
  exact emits_flatMap _ _ _ (fun i _ => emits_em _ _)

theorem emits_sentence (st : Nat × Tree) : Emits (sentToks st.1 st.2) [sentElem st] := by
  have e : sentToks st.1 st.2 = [XTok.op nS [(kId, natToStr st.1)]] ++
      ([XTok.op nGraph [(kRoot, natToStr (numOf st.2 []))]] ++
        (([XTok.op nTerminals []] ++ st.2.terminals.flatMap (fun l => [XTok.em nT (tokAttrs l)]) ++ [XTok.cl nTerminals]) ++
         ([XTok.op nNonterminals []] ++ (consList st.2).flatMap (ntToks st.2) ++ [XTok.cl nNonterminals])) ++ [XTok.cl nGraph]) ++ [XTok.cl nS] := by
    rw [← map_eq_flatMap_single]
    simp [sentToks]
  rw [e]
  unfold sentElem
  apply emits_elem
  apply emits_elem
  apply emits_append (ea := [_]) (eb := [_])
  · apply emits_elem
    exact emits_flatMap _ _ _ (fun l _ => emits_em _ _)
  · apply emits_elem
    exact emits_flatMap _ _ _ (fun ps _ => emits_nt _ ps)

theorem emits_doc (sents : List (Nat × Tree)) : Emits (docToks sents) [docElem sents] := by
  have e : docToks sents = [XTok.op nCorpus []] ++ ([XTok.op nBody []] ++ sents.flatMap (fun st => sentToks st.1 st.2) ++ [XTok.cl nBody]) ++ [XTok.cl nCorpus] := by
    simp [docToks]
  rw [e]
  unfold docElem
  apply emits_elem
  apply emits_elem
  exact emits_flatMap _ _ _ (fun st _ => emits_sentence st)

theorem buildTree_doc (sents : List (Nat × Tree)) : buildTree (docToks sents) = some (docElem sents) :=
  buildTree_of_emits _ _ (emits_doc sents)

/-! ### element tree -> `XSent` -/

theorem mapM_ok {α β} (f : α → Except Err β) (g : α → β) : ∀ l : List α, (∀ x ∈ l, f x = .ok (g x)) → l.mapM f = .ok (l.map g)
  | [], _ => rfl
  | x :: l, h => by
    rw [List.mapM_cons, h x (by simp), mapM_ok f g l (fun y hy => h y (by simp [hy]))]
    rfl

theorem mapM_ok_map {ι α β} (f : α → Except Err β) (h : ι → α) (g : ι → β) (L : List ι) (hh : ∀ i ∈ L, f (h i) = .ok (g i)) :
    (L.map h).mapM f = .ok (L.map g) := by
  induction L with
  | nil => rfl
  | cons i L ih =>
    rw [List.map_cons, List.mapM_cons, hh i (by simp), ih (fun j hj => hh j (by simp [hj]))]
    rfl

theorem filter_all {α} (p : α → Bool) : ∀ l : List α, (∀ x ∈ l, p x = true) → l.filter p = l
  | [], _ => rfl
  | x :: l, h => by rw [List.filter_cons, if_pos (h x (by simp)), filter_all p l (fun y hy => h y (by simp [hy]))]

theorem toXTerm_tElem (l : Tree) : toXTerm (tElem l) = .ok (termOf (tokEnt l)) := by
  simp [toXTerm, tElem, getA, XElem.attrs, tokAttrs, termOf, tokEnt, kId, kWord, kLemma, kPos, kMorph]

theorem toXEdge_edgeElem (t : Tree) (ps : Path × Tree) (i : Nat) :
    toXEdge (edgeElem t ps i) = .ok (some (edgeLab ps.2.kids[i]?), natToStr (edgeRef t ps.1 i ps.2.kids[i]?)) := by
  simp [toXEdge, edgeElem, getA, XElem.attrs, kLabel, kIdref]

theorem toXNt_ntElem (t : Tree) (ps : Path × Tree) : toXNt (ntElem t ps) = .ok (ntOf (ntEnt t ps)) := by
  have h1 : findAllE (ntElem t ps) "edge" = (childOrder ps.2).map (edgeElem t ps) := by
    unfold findAllE ntElem
    apply filter_all
    intro x hx
    obtain ⟨i, _, rfl⟩ := List.mem_map.1 hx
    rfl
  have h2 : getA (ntElem t ps) "id" = some (natToStr (numOf t ps.1)) := by simp [ntElem, getA, XElem.attrs, kId, kCat]
  have h3 : getA (ntElem t ps) "cat" = some ps.2.fields.label := by simp [ntElem, getA, XElem.attrs, kId, kCat]
  rw [toXNt, h2]
  simp only [h1, h3]
  rw [mapM_ok_map toXEdge _ _ _ (fun i _ => toXEdge_edgeElem t ps i)]
  simp [Except.map, ntOf, ntEnt, List.map_map, Function.comp_def]

theorem toXSent_sentElem (st : Nat × Tree) : toXSent (sentElem st) = .ok (xsentOf st.1 st.2) := by
  have h1 : getA (sentElem st) "id" = some (natToStr st.1) := by simp [sentElem, getA, XElem.attrs, kId]
  have hT : findAllE (XElem.mk nTerminals [] (st.2.terminals.map tElem)) "t" = st.2.terminals.map tElem := by
    unfold findAllE
    apply filter_all
    intro x hx
    obtain ⟨i, _, rfl⟩ := List.mem_map.1 hx
    rfl
  have hN : findAllE (XElem.mk nNonterminals [] ((consList st.2).map (ntElem st.2))) "nt" = (consList st.2).map (ntElem st.2) := by
    unfold findAllE
    apply filter_all
    intro x hx
    obtain ⟨i, _, rfl⟩ := List.mem_map.1 hx
    rfl
  have hg : findE (sentElem st) "graph" = some (.mk nGraph [(kRoot, natToStr (numOf st.2 []))]
      [.mk nTerminals [] (st.2.terminals.map tElem), .mk nNonterminals [] ((consList st.2).map (ntElem st.2))]) := by
    simp [sentElem, findE, XElem.kids, XElem.name, nGraph]
  have ht : findE (XElem.mk nGraph [(kRoot, natToStr (numOf st.2 []))]
      [.mk nTerminals [] (st.2.terminals.map tElem), .mk nNonterminals [] ((consList st.2).map (ntElem st.2))]) "terminals" =
      some (.mk nTerminals [] (st.2.terminals.map tElem)) := by
    simp [findE, XElem.kids, XElem.name, nTerminals]
  have hn : findE (XElem.mk nGraph [(kRoot, natToStr (numOf st.2 []))]
      [.mk nTerminals [] (st.2.terminals.map tElem), .mk nNonterminals [] ((consList st.2).map (ntElem st.2))]) "nonterminals" =
      some (.mk nNonterminals [] ((consList st.2).map (ntElem st.2))) := by
    simp [findE, XElem.kids, XElem.name, nTerminals, nNonterminals]
  rw [toXSent, h1]
  simp only [hg, ht, hn, hT, hN]
  rw [mapM_ok_map toXTerm _ _ _ (fun l _ => toXTerm_tElem l), mapM_ok_map toXNt _ _ _ (fun ps _ => toXNt_ntElem st.2 ps)]
  simp only [xsentOf_eq, List.map_map]
  rfl

theorem toXSents_doc (sents : List (Nat × Tree)) : toXSents (docElem sents) = .ok (sents.map fun st => xsentOf st.1 st.2) := by
  have hb : findE (docElem sents) "body" = some (.mk nBody [] (sents.map sentElem)) := by
    simp [docElem, findE, XElem.kids, XElem.name, nBody]
  have hs : findAllE (XElem.mk nBody [] (sents.map sentElem)) "s" = sents.map sentElem := by
    unfold findAllE
    apply filter_all
    intro x hx
    obtain ⟨i, _, rfl⟩ := List.mem_map.1 hx
    rfl
  rw [toXSents, hb]
  simp only [hs]
  exact mapM_ok_map toXSent _ _ _ (fun st _ => toXSent_sentElem st)

/-! ### the whole document -/

/-- the text between the XML declaration line and the end of the document -/
def docBody (sents : List (Nat × Tree)) : Str :=
  ulines [['<','c','o','r','p','u','s','>'], ['<','b','o','d','y','>']] ++ sents.flatMap (fun st => ulines (writeTiger st.1 st.2)) ++
    ulines [['<','/','b','o','d','y','>']] ++ ['<','/','c','o','r','p','u','s','>']

theorem tag_corpus0 : TagLine ['<','c','o','r','p','u','s','>'] (.op nCorpus []) := by
  have := tagLine_attrs nCorpus [] ['>'] false (xname_of_dec _ (by decide)) (by simp) (by simp) (fun rest => ⟨_, _, rfl, by decide⟩) gt_tail
  simpa [nCorpus, attrLine] using this
theorem tag_body0 : TagLine ['<','b','o','d','y','>'] (.op nBody []) := by
  have := tagLine_attrs nBody [] ['>'] false (xname_of_dec _ (by decide)) (by simp) (by simp) (fun rest => ⟨_, _, rfl, by decide⟩) gt_tail
  simpa [nBody, attrLine] using this
theorem tag_body1 : TagLine ['<','/','b','o','d','y','>'] (.cl nBody) := tagLine_close nBody (xname_of_dec _ (by decide))
theorem tag_corpus1 : TagLine ['<','/','c','o','r','p','u','s','>'] (.cl nCorpus) := tagLine_close nCorpus (xname_of_dec _ (by decide))

theorem lexAll_docBody (sents : List (Nat × Tree)) (k : Nat) :
    lexAll ((docBody sents).length + 1 + k) (docBody sents) = some (docToks sents) := by
  have a := lexes_append (lexes_one _ _ _ (stripLine_lt _) tag_corpus0) (lexes_one _ _ _ (stripLine_lt _) tag_body0)
  have b : Lexes (sents.flatMap (fun st => ulines (writeTiger st.1 st.2))) (sents.flatMap (fun st => sentToks st.1 st.2)) :=
    lexes_flatMap _ _ _ (fun st _ => lexes_sentence st.1 st.2)
  have c := lexes_one _ _ _ (stripLine_lt _) tag_body1
  have h := lexes_append (lexes_append a b) c
  rw [← ulines_append] at h
  simp only [List.cons_append, List.nil_append] at h
  obtain ⟨hlen, hlex⟩ := h
  generalize hX : ulines [['<','c','o','r','p','u','s','>'], ['<','b','o','d','y','>']] ++ sents.flatMap (fun st => ulines (writeTiger st.1 st.2)) ++
    ulines [['<','/','b','o','d','y','>']] = X at hlen hlex
  generalize hT : XTok.op nCorpus [] :: XTok.op nBody [] :: (sents.flatMap (fun st => sentToks st.1 st.2) ++ [XTok.cl nBody]) = T at hlen hlex
  have eB : docBody sents = X ++ ['<','/','c','o','r','p','u','s','>'] := by rw [docBody, hX]
  have eT : docToks sents = T ++ [XTok.cl nCorpus] := by rw [docToks, ← hT]; simp
  obtain ⟨f, hf⟩ : ∃ f, (docBody sents).length + 1 + k = (f + 2) + T.length := by
    refine ⟨(docBody sents).length + 1 + k - T.length - 2, ?_⟩
    rw [eB]; simp only [List.length_append, List.length_cons, List.length_nil]; omega
  rw [hf, eB, hlex, eT]
  have : lexAll (f + 2) ['<','/','c','o','r','p','u','s','>'] = some [XTok.cl nCorpus] := by
    have h1 := tag_corpus1 []
    rw [List.append_nil] at h1
    rw [lexAll]
    have : skipWs ['<','/','c','o','r','p','u','s','>'] = ['<','/','c','o','r','p','u','s','>'] := by decide
    rw [this]
    simp only [h1]
    simp [lexAll, skipWs]
  rw [this]
  rfl

theorem bodyText_tiger (o : OutOpts) (sents : List (Nat × Tree)) :
    TT.Lemmas.Run.bodyText .tigerxml o sents = .ok (sents.flatMap fun st => ulines (writeTiger st.1 st.2)) := by
  unfold TT.Lemmas.Run.bodyText
  rw [mapM_ok (fun p => writeOne .tigerxml o p.1 p.2) (fun st => ulines (writeTiger st.1 st.2)) sents (fun st _ => by simp only [writeOne, ulines, pure, Except.pure])]
  simp [bind, Except.bind, pure, Except.pure, List.flatMap]

/-- the declaration line the writer puts first (`tigerBegin_eq`) -/
def encLit : Str := [' ','e','n','c','o','d','i','n','g','=','\'']
def declLine : Option Str → Str
  | none => declHead ++ ['?','>']
  | some e => declHead ++ (encLit ++ (e ++ ['\'','?','>']))

theorem lit_enc : " encoding='".toList = encLit := by decide
theorem lit_decl_none : "<?xml version='1.0'?>".toList = declHead ++ ['?','>'] := by decide
theorem lit_decl_some1 : "<?xml version='1.0' encoding='".toList = declHead ++ encLit := by decide
theorem lit_decl_some2 : "'?>".toList = ['\'','?','>'] := by decide
theorem lit_tigerEnd : tigerEnd = ['<','/','b','o','d','y','>'] ++ '\n' :: ['<','/','c','o','r','p','u','s','>'] := by decide
theorem lit_corpus : "<corpus>".toList = ['<','c','o','r','p','u','s','>'] := by decide
theorem lit_body : "<body>".toList = ['<','b','o','d','y','>'] := by decide

theorem tigerBegin_eq (enc : Option Str) : tigerBegin enc = [declLine enc, ['<','c','o','r','p','u','s','>'], ['<','b','o','d','y','>']] := by
  cases enc with
  | none => simp only [tigerBegin, declLine, lit_decl_none, lit_corpus, lit_body]
  | some e => simp only [tigerBegin, declLine, lit_decl_some1, lit_decl_some2, lit_corpus, lit_body, List.append_assoc]

/-- the written document: declaration line, then `docBody` -/
theorem writeAll_tiger_text (o : OutOpts) (enc : Option Str) (sents : List (Nat × Tree)) :
    writeAll .tigerxml o enc sents = .ok (declLine enc ++ '\n' :: docBody sents) := by
  rw [TT.Lemmas.Run.writeAll_tiger, bodyText_tiger]
  have : TT.Lemmas.Run.tigerFrame enc (sents.flatMap fun st => ulines (writeTiger st.1 st.2)) = declLine enc ++ '\n' :: docBody sents := by
    simp only [TT.Lemmas.Run.tigerFrame, tigerBegin_eq, lit_tigerEnd, docBody, ulines, List.map_cons, List.map_nil, List.flatten_cons, List.flatten_nil,
      List.append_assoc, List.cons_append, List.nil_append, List.append_nil]
  rw [← this]
  rfl

theorem stripDecl_none (b : Str) : stripDecl (declLine none ++ '\n' :: b) = some ('\n' :: b) := by
  have e : declLine none ++ '\n' :: b = declHead ++ ('?' :: '>' :: '\n' :: b) := by
    simp only [declLine, List.append_assoc, List.cons_append, List.nil_append]
  have h1 : declHead.isPrefixOf (declHead ++ ('?' :: '>' :: '\n' :: b)) = true := by
    rw [List.isPrefixOf_iff_prefix]; exact List.prefix_append _ _
  rw [e, stripDecl]
  simp only [h1, if_true, List.drop_left]
  simp [List.isPrefixOf]

theorem stripDecl_some (e b : Str) (he : encNameOK e = true) (hc : ∀ c ∈ e, isEncC c = true) :
    stripDecl (declLine (some e) ++ '\n' :: b) = some ('\n' :: b) := by
  have e0 : declLine (some e) ++ '\n' :: b =
      declHead ++ (encLit ++ (e ++ '\'' :: ('?' :: '>' :: '\n' :: b))) := by
    simp only [declLine, List.append_assoc, List.cons_append, List.nil_append]
  have htw : (e ++ '\'' :: ('?' :: '>' :: '\n' :: b)).takeWhile isEncC = e := takeWhile_append_stop _ _ _ _ hc (by decide)
  have hp : (encLit ++ (e ++ '\'' :: ('?' :: '>' :: '\n' :: b))).drop 11 = e ++ '\'' :: ('?' :: '>' :: '\n' :: b) := by
    simp [encLit]
  rw [e0, stripDecl]
  have h1 : declHead.isPrefixOf (declHead ++ (encLit ++ (e ++ '\'' :: ('?' :: '>' :: '\n' :: b)))) = true := by
    rw [List.isPrefixOf_iff_prefix]; exact List.prefix_append _ _
  have h2 : (['?', '>'].isPrefixOf (encLit ++ (e ++ '\'' :: ('?' :: '>' :: '\n' :: b)))) = false := by
    simp [List.isPrefixOf, encLit]
  have h3 : (" encoding='".toList.isPrefixOf (encLit ++ (e ++ '\'' :: ('?' :: '>' :: '\n' :: b)))) = true := by
    rw [lit_enc, List.isPrefixOf_iff_prefix]; exact List.prefix_append _ _
  simp only [h1, if_true, List.drop_left, h2, Bool.false_eq_true, if_false, h3, hp, htw, he, Bool.not_true]
  simp [List.isPrefixOf]

/-- what the theorem asks of the declared encoding name: an XML `EncName` -/
def EncOK (enc : Option Str) : Prop := ∀ e, enc = some e → encNameOK e = true ∧ ∀ c ∈ e, isEncC c = true

theorem stripDecl_decl (enc : Option Str) (henc : EncOK enc) (b : Str) : stripDecl (declLine enc ++ '\n' :: b) = some ('\n' :: b) := by
  cases enc with
  | none => exact stripDecl_none b
  | some e => exact stripDecl_some e b (henc e rfl).1 (henc e rfl).2

theorem parseXml_doc (enc : Option Str) (henc : EncOK enc) (sents : List (Nat × Tree))
    (hc : (declLine enc ++ '\n' :: docBody sents).all xmlCharOK = true) :
    parseXml (declLine enc ++ '\n' :: docBody sents) = some (docElem sents) := by
  have : lexAll (('\n' :: docBody sents).length + 1) ('\n' :: docBody sents) = some (docToks sents) := by
    rw [lexAll_nl]
    exact lexAll_docBody sents 1
  rw [parseXml, hc, stripDecl_decl enc henc]
  simp only [Bool.not_true, Bool.false_eq_true, if_false, Option.bind_some, this, buildTree_doc]

end TT.Lemmas.Xml19
